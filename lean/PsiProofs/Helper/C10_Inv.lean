import PsiProofs.Helper.C10_Heap
/-! The invariant of the copy-on-return memo wrapper: every memo entry still holds the value of
its key, and no address held by the caller occurs in a memo entry. -/
namespace Psi.Cache

set_option linter.unusedSectionVars false
variable {κ ω α : Type} [DecidableEq κ] [DecidableEq ω]

structure Inv (sg : Sig κ ω α) (s : State κ ω α) : Prop where
  cached : ∀ k as, (k, as) ∈ s.cache → readAll s.heap as = some (sg.value k)
  priv : ∀ k as, (k, as) ∈ s.cache → ∀ h ∈ s.handles, ∀ a ∈ h, a ∉ as
  valid : ∀ h ∈ s.handles, ∀ a ∈ h, a < s.heap.length

theorem Inv.init (sg : Sig κ ω α) : Inv sg (State.init : State κ ω α) := by
  refine ⟨?_, ?_, ?_⟩
  · intro k as h; simp [State.init] at h
  · intro k as h; simp [State.init] at h
  · intro h hh; simp [State.init] at hh

/-- `s'` is `s` with more heap, the same handles. -/
structure Ext (s s' : State κ ω α) : Prop where
  heap : ∃ x, s'.heap = s.heap ++ x
  handles : s'.handles = s.handles

theorem Ext.refl (s : State κ ω α) : Ext s s := ⟨⟨[], by simp⟩, rfl⟩

theorem Ext.trans {s s' s'' : State κ ω α} (a : Ext s s') (b : Ext s' s'') : Ext s s'' := by
  obtain ⟨⟨x, hx⟩, h1⟩ := a
  obtain ⟨⟨y, hy⟩, h2⟩ := b
  exact ⟨⟨x ++ y, by rw [hy, hx, List.append_assoc]⟩, h2.trans h1⟩

theorem Ext.len {s s' : State κ ω α} (e : Ext s s') : s.heap.length ≤ s'.heap.length := by
  obtain ⟨⟨x, hx⟩, _⟩ := e
  rw [hx, List.length_append]; omega

theorem Inv.alloc {sg : Sig κ ω α} {s : State κ ω α} (hi : Inv sg s) (vs : List (List α)) :
    Inv sg (allocAll s vs).1 := by
  refine ⟨?_, hi.priv, ?_⟩
  · intro k as h
    exact readAll_append vs (hi.cached k as h)
  · intro h hh a ha
    have := hi.valid h hh a ha
    show a < (s.heap ++ vs).length
    rw [List.length_append]; omega

theorem Inv.store {sg : Sig κ ω α} {s : State κ ω α} (hi : Inv sg s) (key : Key κ ω) (as : List Nat)
    (hr : readAll s.heap as = some (sg.value key))
    (hf : ∀ a ∈ as, s.heap.length ≤ a ∨ ∀ h ∈ s.handles, a ∉ h) :
    Inv sg { s with cache := (key, as) :: s.cache } := by
  refine ⟨?_, ?_, hi.valid⟩
  · intro k bs h
    rcases List.mem_cons.mp h with e | h
    · cases e; exact hr
    · exact hi.cached k bs h
  · intro k bs h hd hhd a ha
    rcases List.mem_cons.mp h with e | h
    · cases e
      intro hmem
      rcases hf a hmem with h1 | h1
      · have := hi.valid hd hhd a ha; omega
      · exact h1 hd hhd ha
    · exact hi.priv k bs h hd hhd a ha

theorem ensureLeaf_spec {sg : Sig κ ω α} {s : State κ ω α} (hi : Inv sg s) (k : κ) :
    Inv sg (ensureLeaf sg s k).1 ∧ Ext s (ensureLeaf sg s k).1 ∧
      (Key.leaf k, (ensureLeaf sg s k).2) ∈ (ensureLeaf sg s k).1.cache := by
  unfold ensureLeaf
  split
  · rename_i as h
    exact ⟨hi, Ext.refl s, lookup_mem h⟩
  · refine ⟨?_, ⟨⟨sg.compute k, rfl⟩, rfl⟩, List.mem_cons_self⟩
    apply Inv.store (hi.alloc _) (Key.leaf k)
    · exact readAll_fresh s.heap (sg.compute k)
    · intro a ha
      right
      intro h hh hmem
      have h1 := hi.valid h hh a hmem
      have h2 := (List.mem_range'_1.mp ha).1
      omega

/-- What `copyOut` of a memo entry gives: fresh addresses holding the value of the key. -/
structure CopySpec (sg : Sig κ ω α) (key : Key κ ω) (s : State κ ω α) (r : State κ ω α × List Nat) : Prop where
  inv : Inv sg r.1
  ext : Ext s r.1
  cache : r.1.cache = s.cache
  read : readAll r.1.heap r.2 = some (sg.value key)
  fresh : ∀ b ∈ r.2, s.heap.length ≤ b
  valid : ∀ b ∈ r.2, b < r.1.heap.length

theorem copyOut_spec {sg : Sig κ ω α} {s : State κ ω α} (hi : Inv sg s) {key : Key κ ω} {as : List Nat}
    (hm : (key, as) ∈ s.cache) : CopySpec sg key s (copyOut s as) := by
  have hr := hi.cached key as hm
  unfold copyOut
  rw [hr]
  refine ⟨hi.alloc _, ⟨⟨sg.value key, rfl⟩, rfl⟩, rfl, readAll_fresh _ _, ?_, ?_⟩
  · intro b hb; exact (List.mem_range'_1.mp hb).1
  · intro b hb
    have := (List.mem_range'_1.mp hb).2
    show b < (s.heap ++ sg.value key).length
    rw [List.length_append]; omega

/-- A fresh copy is disjoint from every memo entry. -/
theorem CopySpec.disjoint {sg : Sig κ ω α} {key : Key κ ω} {s : State κ ω α} {r : State κ ω α × List Nat}
    (hi : Inv sg s) (c : CopySpec sg key s r) :
    ∀ k as, (k, as) ∈ r.1.cache → ∀ b ∈ r.2, b ∉ as := by
  intro k as h b hb hmem
  rw [c.cache] at h
  have h1 := readAll_lt (hi.cached k as h) b hmem
  have h2 := c.fresh b hb
  omega

/-- Result of a raw call of the repaired wrapper. -/
structure CallSpec (sg : Sig κ ω α) (key : Key κ ω) (s : State κ ω α) (r : State κ ω α × List Nat) : Prop where
  inv : Inv sg r.1
  ext : Ext s r.1
  read : readAll r.1.heap r.2 = some (sg.value key)
  valid : ∀ b ∈ r.2, b < r.1.heap.length
  disjoint : ∀ k as, (k, as) ∈ r.1.cache → ∀ b ∈ r.2, b ∉ as
  fresh : ∀ b ∈ r.2, s.heap.length ≤ b

theorem CopySpec.toCall {sg : Sig κ ω α} {key : Key κ ω} {s0 s : State κ ω α} {r : State κ ω α × List Nat}
    (hi : Inv sg s) (e : Ext s0 s) (c : CopySpec sg key s r) : CallSpec sg key s0 r :=
  ⟨c.inv, e.trans c.ext, c.read, c.valid, c.disjoint hi, fun b hb => Nat.le_trans e.len (c.fresh b hb)⟩

theorem leafCall_copy_spec {sg : Sig κ ω α} {s : State κ ω α} (hi : Inv sg s) (k : κ) :
    CallSpec sg (Key.leaf k) s (leafCall .copy sg s k) := by
  obtain ⟨h1, h2, h3⟩ := ensureLeaf_spec hi k
  exact (copyOut_spec h1 h3).toCall h1 h2

theorem callRaw_copy_spec {sg : Sig κ ω α} {s : State κ ω α} (hi : Inv sg s) (key : Key κ ω) :
    CallSpec sg key s (callRaw .copy sg s key) := by
  cases key with
  | leaf k => exact leafCall_copy_spec hi k
  | wrap w =>
    simp only [callRaw]
    split
    · rename_i as h
      exact (copyOut_spec hi (lookup_mem h)).toCall hi (Ext.refl s)
    · have q := leafCall_copy_spec hi (sg.wraps w)
      have hst : Inv sg { (leafCall .copy sg s (sg.wraps w)).1 with
          cache := (Key.wrap w, (leafCall .copy sg s (sg.wraps w)).2) ::
            (leafCall .copy sg s (sg.wraps w)).1.cache } := by
        apply Inv.store q.inv (Key.wrap w)
        · exact q.read
        · intro a ha
          right
          intro h hh hmem
          have h1 := q.fresh a ha
          rw [q.ext.handles] at hh
          have h2 := hi.valid h hh a hmem
          omega
      exact (copyOut_spec hst List.mem_cons_self).toCall hst ⟨q.ext.heap, q.ext.handles⟩

theorem Inv.push {sg : Sig κ ω α} {s : State κ ω α} (hi : Inv sg s) (bs : List Nat)
    (hv : ∀ b ∈ bs, b < s.heap.length) (hd : ∀ k as, (k, as) ∈ s.cache → ∀ b ∈ bs, b ∉ as) :
    Inv sg { s with handles := s.handles ++ [bs] } := by
  refine ⟨hi.cached, ?_, ?_⟩
  · intro k as h hd' hhd a ha
    rcases List.mem_append.mp hhd with h1 | h1
    · exact hi.priv k as h hd' h1 a ha
    · rw [List.mem_singleton] at h1; subst h1
      exact hd k as h a ha
  · intro h hh a ha
    rcases List.mem_append.mp hh with h1 | h1
    · exact hi.valid h h1 a ha
    · rw [List.mem_singleton] at h1; subst h1
      exact hv a ha

theorem call_copy_inv {sg : Sig κ ω α} {s : State κ ω α} (hi : Inv sg s) (key : Key κ ω) :
    Inv sg (call .copy sg s key) := by
  have c := callRaw_copy_spec hi key
  exact c.inv.push _ c.valid c.disjoint

theorem call_copy_read {sg : Sig κ ω α} {s : State κ ω α} (hi : Inv sg s) (key : Key κ ω) :
    readHandle (call .copy sg s key) s.handles.length = some (sg.value key) := by
  have c := callRaw_copy_spec hi key
  unfold readHandle call
  simp only [c.ext.handles, List.getElem?_concat_length]
  exact c.read

/-- A write through an address the caller holds leaves the invariant intact. -/
theorem Inv.write {sg : Sig κ ω α} {s : State κ ω α} (hi : Inv sg s) {h : List Nat} (hh : h ∈ s.handles)
    {a : Nat} (ha : a ∈ h) (heap' : List (List α)) (hl : heap'.length = s.heap.length)
    (hr : ∀ as, a ∉ as → readAll heap' as = readAll s.heap as) :
    Inv sg { s with heap := heap' } := by
  refine ⟨?_, hi.priv, ?_⟩
  · intro k as hm
    show readAll heap' as = _
    rw [hr as (hi.priv k as hm h hh a ha)]
    exact hi.cached k as hm
  · intro h' hh' b hb
    show b < heap'.length
    rw [hl]; exact hi.valid h' hh' b hb

theorem mutate_inv {sg : Sig κ ω α} {s s' : State κ ω α} (hi : Inv sg s) {h c i : Nat} {x : α}
    (hm : mutate s h c i x = .ok s') : Inv sg s' := by
  unfold mutate at hm
  split at hm
  · cases hm
  · rename_i as has
    split at hm
    · cases hm
    · rename_i a hac
      split at hm
      · cases hm
      · split at hm
        · cases hm
          exact hi.write (List.mem_of_getElem? has) (List.mem_of_getElem? hac) _
            (setCell_length _ _ _ _) (fun as hn => readAll_setCell _ _ hn)
        · cases hm

theorem scribble_inv {sg : Sig κ ω α} {s : State κ ω α} (hi : Inv sg s) (x : α) :
    Inv sg (scribble s x) := by
  unfold scribble
  -- generalise over the list of addresses being overwritten (all of them held by the caller)
  have key : ∀ (l : List Nat) (heap : List (List α)),
      (∀ a ∈ l, ∃ h ∈ s.handles, a ∈ h) → Inv sg { s with heap := heap } →
      Inv sg { s with heap := l.foldl (fun hp a => fillCell hp a x) heap } := by
    intro l
    induction l with
    | nil => intro heap _ h; exact h
    | cons a l ih =>
      intro heap hl h
      rw [List.foldl_cons]
      apply ih
      · intro b hb; exact hl b (List.mem_cons_of_mem _ hb)
      · obtain ⟨hd, hhd, had⟩ := hl a List.mem_cons_self
        exact Inv.write (s := { s with heap := heap }) h hhd had _ (fillCell_length _ _ _)
          (fun as hn => readAll_fillCell _ hn)
  apply key
  · intro a ha
    obtain ⟨h, hh, hah⟩ := List.mem_flatten.mp ha
    exact ⟨h, hh, hah⟩
  · exact hi

theorem step_copy_inv {sg : Sig κ ω α} {s : State κ ω α} (hi : Inv sg s) (op : Op κ ω α) :
    Inv sg (step .copy sg s op) := by
  cases op with
  | call k => exact call_copy_inv hi k
  | mutate h c i x =>
    simp only [step]
    split
    · rename_i s' hm; exact mutate_inv hi hm
    · exact hi
  | scribble x => exact scribble_inv hi x

theorem run_copy_inv {sg : Sig κ ω α} (ops : List (Op κ ω α)) {s : State κ ω α} (hi : Inv sg s) :
    Inv sg (run .copy sg ops s) := by
  induction ops generalizing s with
  | nil => exact hi
  | cons op ops ih =>
    unfold run
    rw [List.foldl_cons]
    exact ih (step_copy_inv hi op)

end Psi.Cache
