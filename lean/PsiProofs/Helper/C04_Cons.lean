import PsiProofs.Helper.C02_Inv
/-! Conservation: kept(k) + trials(k) = requested(k), through ticks, pause and resume. -/
namespace Psi.Queue

/-- non-cancelled presentations of `key` currently logged -/
def keptOf (s : QState) (key : Nat) : Int := ((s.generated.filter (fun i => i.key == key)).length : Nat)

def Cons (s : QState) : Prop :=
  ∀ (key : Nat) (e : Entry), s.data[key]? = some e → keptOf s key + e.trials = e.requested

theorem setTrials_get (d : List Entry) (key k' : Nat) (f : Int → Int) :
    (setTrials d key f)[k']? =
      if key = k' then (d[k']?).map (fun e => { e with trials := f e.trials }) else d[k']? := by
  unfold setTrials
  rw [List.getElem?_modify]
  split
  · simp
  · simp

/-- what a successful `next_trial` does to the accounting -/
theorem nextTrial_data {s s1 : QState} (h : nextTrial s = .ok (some s1)) :
    ∃ info : Info, s1.generated = s.generated ++ [info] ∧
      ∀ k', s1.data[k']? =
        if info.key = k' then (s.data[k']?).map (fun e => { e with trials := e.trials - 1, dpos := e.dpos + 1 })
        else s.data[k']? := by
  obtain ⟨key, sa, sb, e, d, hk, hd, he, _, _, rfl⟩ := nextTrial_some h
  have f1 := nextKey_frame hk
  have f2 := decrementKey_frame hd
  refine ⟨mkInfo sb key e d, ?_, ?_⟩
  · simp only; rw [f2]; simp only; rw [f1]
  · intro k'
    simp only [mkInfo]
    rw [List.getElem?_modify, f2]
    simp only
    rw [setTrials_get, f1]
    simp only
    by_cases hkk : key = k'
    · subst hkk
      simp only [if_true]
      cases s.data[key]? with
      | none => simp
      | some e0 => simp
    · simp [hkk]

theorem Cons_nextTrial {s s1 : QState} (hc : Cons s) (h : nextTrial s = .ok (some s1)) : Cons s1 := by
  obtain ⟨info, hg, hd⟩ := nextTrial_data h
  intro key e he
  rw [hd key] at he
  unfold keptOf
  rw [hg, List.filter_append]
  by_cases hk : info.key = key
  · simp only [hk, if_true] at he
    cases h0 : s.data[key]? with
    | none => simp [h0] at he
    | some e0 =>
      simp only [h0, Option.map_some, Option.some.injEq] at he
      subst he
      have := hc key e0 h0
      unfold keptOf at this
      simp [hk] at this ⊢
      omega
  · simp only [hk, if_false] at he
    have := hc key e he
    unfold keptOf at this
    have hk' : (info.key == key) = false := by simpa using hk
    simp [hk'] at this ⊢
    exact this

theorem Cons_of_same {s s' : QState} (hc : Cons s) (hd : s'.data = s.data) (hg : s'.generated = s.generated) :
    Cons s' := by
  intro key e he
  rw [hd] at he
  have := hc key e he
  unfold keptOf at this ⊢
  rw [hg]; exact this

theorem emitSrc_same (s : QState) (src : Src) :
    (emitSrc s src).2.data = s.data ∧ (emitSrc s src).2.generated = s.generated ∧
    (emitSrc s src).2.removed = s.removed ∧ (emitSrc s src).2.added = s.added := by
  simp [emitSrc, bump]

theorem Cons_tick {s s' : QState} {c : Cell} (hc : Cons s) (h : tick s = .ok (c, s')) : Cons s' := by
  cases tick_cases h with
  | paused _ _ hs => subst hs; exact Cons_of_same hc rfl rfl
  | play src _ _ _ he =>
    have := emitSrc_same s src
    rw [← he] at this
    exact Cons_of_same hc this.1 this.2.1
  | gap _ _ _ _ hs => subst hs; exact Cons_of_same hc rfl rfl
  | dry _ _ _ _ _ hs => subst hs; exact Cons_of_same hc rfl rfl
  | start s1 src _ _ _ hn _ _ he =>
    have h1 : Cons s1 := Cons_nextTrial (Cons_of_same (s' := dropSrc s) hc rfl rfl) hn
    have := emitSrc_same s1 src
    rw [← he] at this
    exact Cons_of_same h1 this.1 this.2.1

theorem Cons_runTicks (n : Nat) {s s' : QState} {cs : List Cell} (hc : Cons s)
    (h : runTicks n s = .ok (cs, s')) : Cons s' := by
  induction n generalizing s cs with
  | zero => simp [runTicks] at h; obtain ⟨_, rfl⟩ := h; exact hc
  | succ n ih =>
    rw [runTicks] at h
    cases ht : tick s with
    | error e => simp [ht] at h
    | ok r =>
      obtain ⟨c, s1⟩ := r
      simp only [ht] at h
      cases hr : runTicks n s1 with
      | error e => simp [hr] at h
      | ok r2 =>
        obtain ⟨cs2, s2⟩ := r2
        simp only [hr, Except.ok.injEq, Prod.mk.injEq] at h
        obtain ⟨_, rfl⟩ := h
        exact ih (Cons_tick hc ht) hr

theorem foldl_setTrials_get (keys : List Nat) (d : List Entry) (k' : Nat) :
    (keys.foldl (fun d k => setTrials d k (· + 1)) d)[k']? =
      (d[k']?).map (fun e => { e with trials := e.trials + ((keys.count k' : Nat) : Int) }) := by
  induction keys generalizing d with
  | nil =>
    simp only [List.foldl_nil, List.count_nil]
    generalize d[k']? = o
    cases o <;> simp
  | cons k ks ih =>
    simp only [List.foldl_cons]
    rw [ih, setTrials_get]
    by_cases h : k = k'
    · subst h
      generalize d[k]? = o
      cases o with
      | none => simp
      | some e => simp; omega
    · have : (k == k') = false := by simpa using h
      simp [h, List.count_cons, this]

theorem split_count (g : List Info) (P : Info → Bool) (k' : Nat) :
    ((g.filter (fun i => !P i)).filter (fun i => i.key == k')).length +
      ((g.filter P).filter (fun i => i.key == k')).length = (g.filter (fun i => i.key == k')).length := by
  simp only [List.filter_filter]
  induction g with
  | nil => simp
  | cons a l ih =>
    by_cases hp : P a <;> by_cases hk : a.key == k' <;> simp [List.filter_cons, hp, hk] <;> omega

theorem count_requeue (g : List Info) (P : Info → Bool) (k' : Nat) :
    ((g.reverse.filter P).map (·.key)).count k' = ((g.filter P).filter (fun i => i.key == k')).length := by
  rw [List.count_eq_countP, List.countP_map, List.countP_eq_length_filter, List.filter_reverse,
    List.filter_reverse, List.length_reverse]
  congr 1

/-- keys whose trials `requeue(m)` restores (latest trial first) -/
def toRequeue (m : Int) (s : QState) : List Nat := (s.generated.reverse.filter (endsAfter m)).map (·.key)

theorem requeue_fields (m : Int) (s : QState) :
    (requeue m s).data = (toRequeue m s).foldl (fun d k => setTrials d k (· + 1)) s.data ∧
    (requeue m s).generated = s.generated.filter (fun i => !endsAfter m i) ∧
    (requeue m s).removed = s.removed ∧ (requeue m s).added = s.added ∧
    (requeue m s).samples = s.samples ∧ (requeue m s).source = s.source ∧
    (requeue m s).delaySamples = s.delaySamples ∧ (requeue m s).paused = s.paused ∧
    (requeue m s).kind = s.kind := by
  unfold requeue toRequeue
  simp only
  split <;> (try split) <;> simp

theorem cancel_fields (m : Int) (s : QState) :
    (cancel m s).data = s.data ∧ (cancel m s).generated = s.generated ∧
    (cancel m s).removed = s.removed ++ ((s.generated.reverse.filter (endsAfter m)).map (·.uid)) ∧
    (cancel m s).added = s.added ∧ (cancel m s).samples = s.samples ∧ (cancel m s).source = none ∧
    (cancel m s).delaySamples = 0 ∧ (cancel m s).paused = s.paused ∧ (cancel m s).kind = s.kind := by
  simp [cancel]

theorem Cons_requeue (m : Int) {s : QState} (hc : Cons s) : Cons (requeue m s) := by
  obtain ⟨hd, hg, _⟩ := requeue_fields m s
  intro key e he
  rw [hd, foldl_setTrials_get] at he
  cases h0 : s.data[key]? with
  | none => simp [h0] at he
  | some e0 =>
    simp only [h0, Option.map_some, Option.some.injEq] at he
    subst he
    have h1 := hc key e0 h0
    unfold keptOf at h1 ⊢
    rw [hg]
    have h2 := split_count s.generated (endsAfter m) key
    have h3 := count_requeue s.generated (endsAfter m) key
    unfold toRequeue
    simp only
    rw [h3]
    omega

theorem Cons_pause (m : Option Int) {s : QState} (hc : Cons s) : Cons (pause m s).1 := by
  unfold pause
  cases m with
  | none => exact Cons_of_same hc rfl rfl
  | some m =>
    simp only
    have h1 : Cons (cancel m { s with paused := true }) :=
      Cons_of_same (s := s) hc (by simp [cancel]) (by simp [cancel])
    have h2 := Cons_requeue m h1
    split
    · exact h2
    · exact Cons_of_same h2 rfl rfl

theorem Cons_resume (m : Option Int) {s : QState} (hc : Cons s) : Cons (resume m s) := by
  unfold resume
  cases m <;> exact Cons_of_same hc rfl rfl

end Psi.Queue
