import PsiProofs.Helper.C12_Stages1
/-! Run lemmas of `auto_th`, `downsample`, `decimate`. -/
namespace Psi.Stages
variable {α β ρ χ μ S τ : Type}

/-! ### auto_th -/

/-- whole-signal definition of `auto_th`: nothing until `bl` samples are known, then every sample
compared with the threshold of the first `bl` samples -/
def autoSpec (thr : List α → τ) (cmp : τ → α → β) (bl : Nat) (x : List α) : List β :=
  if x.length < bl then [] else x.map (cmp (thr (x.take bl)))

theorem autoTh_running (thr : List α → τ) (cmp : τ → α → β) (addTh : τ → μ → μ) (bl : Nat)
    (ann : Ann ρ χ μ) (th : τ) : ∀ (cs : List (List α)) (s : Int),
    ∃ bs, outputs (runStage (autoThStep thr cmp addTh bl) (.running th) (stream ann s cs)) = .ok bs
      ∧ Emits bs (cs.flatten.map (cmp th)) 1 s { ann with metadata := addTh th ann.metadata } := by
  intro cs
  induction cs with
  | nil => intro s; exact ⟨[], rfl, by simpa using Emits.nil _ _ _⟩
  | cons c cs ih =>
    intro s
    rw [stream_cons]
    refine run_emit_one (s' := .running th) (t' := s + c.length)
      { data := c.map (cmp th), s0 := s, ann := { ann with metadata := addTh th ann.metadata } }
      (by simp [autoThStep]) (ih _) rfl rfl ?_ ?_
    · simp [PD.len]
    · simp

theorem autoTh_acc (thr : List α → τ) (cmp : τ → α → β) (addTh : τ → μ → μ) (bl : Nat)
    (ann : Ann ρ χ μ) : ∀ (cs : List (List α)) (buf : List α) (s : Int),
    (buf.length < bl ∨ buf = []) →
    ∃ bs, outputs (runStage (autoThStep thr cmp addTh bl)
        (.acc { data := buf, s0 := s - buf.length, ann := ann }) (stream ann s cs)) = .ok bs
      ∧ Emits bs (autoSpec thr cmp bl (buf ++ cs.flatten)) 1 (s - buf.length)
          { ann with metadata := addTh (thr ((buf ++ cs.flatten).take bl)) ann.metadata } := by
  intro cs
  induction cs with
  | nil =>
    intro buf s h
    refine ⟨[], rfl, ?_⟩
    have : autoSpec thr cmp bl (buf ++ ([] : List (List α)).flatten) = [] := by
      rcases h with h | h
      · simp [autoSpec, h]
      · subst h; simp [autoSpec]
    rw [this]; exact Emits.nil _ _ _
  | cons c cs ih =>
    intro buf s _
    rw [stream_cons]
    have hcat : cat ({ data := buf, s0 := s - buf.length, ann := ann } : PD α ρ χ μ)
        { data := c, s0 := s, ann := ann } = .ok { data := buf ++ c, s0 := s - buf.length, ann := ann } := by
      simp [cat, PD.len]
    have hassoc : buf ++ (c :: cs).flatten = (buf ++ c) ++ cs.flatten := by simp
    by_cases hlt : (buf ++ c).length < bl
    · refine run_emit_none
        (s' := .acc { data := buf ++ c, s0 := s + c.length - (buf ++ c).length, ann := ann }) ?_ ?_
      · simp only [autoThStep, hcat, PD.len, hlt, ↓reduceIte]
        congr 4
        simp only [List.length_append]; omega
      · have := ih (buf ++ c) (s + c.length) (Or.inl hlt)
        rw [hassoc]
        have e : s + (c.length : Int) - ((buf ++ c).length : Int) = s - buf.length := by
          simp only [List.length_append]; omega
        rw [e] at this ⊢
        exact this
    · have hge : bl ≤ (buf ++ c).length := Nat.le_of_not_lt hlt
      have htake : ((buf ++ c) ++ cs.flatten).take bl = (buf ++ c).take bl :=
        List.take_append_of_le_length hge
      rw [hassoc, htake]
      refine run_emit_one (s' := .running (thr ((buf ++ c).take bl))) (t' := s + c.length)
        { data := (buf ++ c).map (cmp (thr ((buf ++ c).take bl))), s0 := s - buf.length,
          ann := { ann with metadata := addTh (thr ((buf ++ c).take bl)) ann.metadata } }
        ?_ (autoTh_running thr cmp addTh bl ann _ cs _) rfl rfl ?_ ?_
      · simp only [autoThStep, hcat, PD.len, hlt, ↓reduceIte]
      · simp only [PD.len, List.length_map, List.length_append]; omega
      · have : ¬ ((buf ++ c) ++ cs.flatten).length < bl := by
          simp only [List.length_append] at hge ⊢; omega
        simp only [autoSpec, if_neg this, htake, List.map_append]

/-! ### downsample / decimate -/

theorem dsSplit_eq (divFs : ρ → Nat → ρ) (q : Nat) (y : PD α ρ χ μ) :
    dsSplit divFs q y =
      ({ data := stride q (y.data.take (y.len - y.len % q)), s0 := y.s0,
         ann := { y.ann with fs := divFs y.ann.fs q } },
       if y.len % q ≠ 0 then some (y.lastN (y.len % q)) else none) := by
  unfold dsSplit
  by_cases h : y.len % q ≠ 0
  · simp only [if_pos h]; rfl
  · simp only [if_neg h]
    have h0 : y.data.length % q = 0 := by simpa [PD.len] using h
    simp [PD.strided, h0, PD.len]

/-- one step of the shared remainder logic on a stream: `r` is the carried remainder -/
theorem dsSplit_stream (divFs : ρ → Nat → ρ) (q : Nat) (r c : List α) (s : Int) (ann : Ann ρ χ μ) :
    ∃ rem' : Option (PD α ρ χ μ),
      dsSplit divFs q { data := r ++ c, s0 := s - r.length, ann := ann } =
        ({ data := stride q ((r ++ c).take ((r ++ c).length - (r ++ c).length % q)), s0 := s - r.length,
           ann := { ann with fs := divFs ann.fs q } }, rem')
      ∧ (rem' = none ∧ (r ++ c).drop ((r ++ c).length - (r ++ c).length % q) = []
         ∨ rem' = some { data := (r ++ c).drop ((r ++ c).length - (r ++ c).length % q),
                         s0 := s + c.length - ((r ++ c).drop ((r ++ c).length - (r ++ c).length % q)).length,
                         ann := ann }) := by
  rw [dsSplit_eq]
  by_cases h : (r ++ c).length % q ≠ 0
  · refine ⟨_, rfl, Or.inr ?_⟩
    have h' : ({ data := r ++ c, s0 := s - r.length, ann := ann } : PD α ρ χ μ).len % q ≠ 0 := h
    rw [if_pos h']
    simp only [PD.len, PD.lastN]
    have hle : (r ++ c).length % q ≤ (r ++ c).length := Nat.mod_le _ _
    have hlen : (r ++ c).length = r.length + c.length := List.length_append
    generalize (r ++ c).length % q = m at hle ⊢
    congr 2
    simp only [List.length_drop]
    omega
  · refine ⟨_, rfl, Or.inl ?_⟩
    have h' : ¬ ({ data := r ++ c, s0 := s - r.length, ann := ann } : PD α ρ χ μ).len % q ≠ 0 := h
    rw [if_neg h']
    have h0 : (r.length + c.length) % q = 0 := by simpa using h
    simp [h0]

/-- carried remainder: none, or the samples `r` that ended just before `s` -/
def RemIs (rem : Option (PD α ρ χ μ)) (r : List α) (s : Int) (ann : Ann ρ χ μ) : Prop :=
  (rem = none ∧ r = []) ∨ rem = some { data := r, s0 := s - r.length, ann := ann }

theorem catOpt_stream {rem : Option (PD α ρ χ μ)} {r : List α} {s : Int} {ann : Ann ρ χ μ}
    (h : RemIs rem r s ann) (c : List α) :
    catOpt rem { data := c, s0 := s, ann := ann } = .ok { data := r ++ c, s0 := s - r.length, ann := ann } := by
  rcases h with ⟨h, hr⟩ | h
  · subst h hr; simp [catOpt]
  · subst h; simp [catOpt, cat, PD.len]

/-- the block produced from the buffered samples `y`, stamped with output position `t` -/
def dsRes (divFs : ρ → Nat → ρ) (q : Nat) (ann : Ann ρ χ μ) (y : List α) (t : Int) : PD α ρ χ μ :=
  { data := stride q (y.take (y.length - y.length % q)), s0 := t, ann := { ann with fs := divFs ann.fs q } }

/-- what one `send` does to `downsample` on a stream -/
theorem downsampleStep_stream (divFs : ρ → Nat → ρ) (twoD : Bool) (q : Nat) (hq : 0 < q) (ann : Ann ρ χ μ)
    (c r : List α) (s t : Int) (st : DownSt α ρ χ μ)
    (hrem : RemIs st.rem r s ann) (hs0 : st.s0 = some t ∨ (st.s0 = none ∧ r = [] ∧ t = s)) :
    ∃ (rem' : Option (PD α ρ χ μ)),
      downsampleStep divFs twoD q st { data := c, s0 := s, ann := ann }
        = .ok (if twoD || (dsRes divFs q ann (r ++ c) t).len ≠ 0 then [dsRes divFs q ann (r ++ c) t] else [],
               { rem := rem', s0 := some (t + (dsRes divFs q ann (r ++ c) t).len) })
      ∧ RemIs rem' ((r ++ c).drop ((r ++ c).length - (r ++ c).length % q)) (s + c.length) ann := by
  obtain ⟨rem', hsplit, hrem'⟩ := dsSplit_stream divFs q r c s ann
  refine ⟨rem', ?_, hrem'.imp id id⟩
  unfold downsampleStep
  rw [if_neg (Nat.ne_of_gt hq), catOpt_stream hrem c]
  simp only [hsplit, dsRes]
  rcases hs0 with h | ⟨h, hr, ht⟩
  · rw [h]; rfl
  · rw [h]; subst hr ht
    simp only [List.nil_append, List.length_nil, Int.natCast_zero, Int.sub_zero]; rfl

theorem dsRes_len_zero (divFs : ρ → Nat → ρ) (q : Nat) (ann : Ann ρ χ μ) (y : List α) (t : Int)
    (h : (dsRes divFs q ann y t).len = 0) : (dsRes divFs q ann y t).data = [] :=
  List.eq_nil_of_length_eq_zero h

theorem downsample_run (divFs : ρ → Nat → ρ) (twoD : Bool) (q : Nat) (hq : 0 < q) (ann : Ann ρ χ μ) :
    ∀ (cs : List (List α)) (r : List α) (s t : Int) (st : DownSt α ρ χ μ),
    RemIs st.rem r s ann → r.length < q → (st.s0 = some t ∨ (st.s0 = none ∧ r = [] ∧ t = s)) →
    ∃ bs, outputs (runStage (downsampleStep divFs twoD q) st (stream ann s cs)) = .ok bs
      ∧ Emits bs (stride q ((r ++ cs.flatten).take ((r.length + cs.flatten.length) / q * q))) 1 t
          { ann with fs := divFs ann.fs q } := by
  intro cs
  induction cs with
  | nil =>
    intro r s t st _ hr _
    refine ⟨[], rfl, ?_⟩
    have : stride q ((r ++ ([] : List (List α)).flatten).take
        ((r.length + ([] : List (List α)).flatten.length) / q * q)) = [] := by
      simp [Nat.div_eq_of_lt hr, stride, strideAux]
    rw [this]; exact Emits.nil _ _ _
  | cons c cs ih =>
    intro r s t st hrem hr hs0
    rw [stream_cons]
    obtain ⟨rem', hstep, hrem'⟩ := downsampleStep_stream divFs twoD q hq ann c r s t st hrem hs0
    have hsplit := stride_take_split q hq (r ++ c) cs.flatten
    have hassoc : r ++ (c :: cs).flatten = (r ++ c) ++ cs.flatten := by simp
    have hlen : r.length + (c :: cs).flatten.length = (r ++ c).length + cs.flatten.length := by
      simp; omega
    have hr'len : ((r ++ c).drop ((r ++ c).length - (r ++ c).length % q)).length = (r ++ c).length % q := by
      have := Nat.mod_le (r ++ c).length q
      rw [List.length_drop]; omega
    have hr' : ((r ++ c).drop ((r ++ c).length - (r ++ c).length % q)).length < q := by
      rw [hr'len]; exact Nat.mod_lt _ hq
    rw [hassoc, hlen, hsplit]
    by_cases hemit : (twoD || decide ((dsRes divFs q ann (r ++ c) t).len ≠ 0)) = true
    · rw [if_pos hemit] at hstep
      have := ih _ (s + c.length) (t + 1 * ((dsRes divFs q ann (r ++ c) t).len : Nat))
        { rem := rem', s0 := some (t + (dsRes divFs q ann (r ++ c) t).len) } hrem' hr' (Or.inl (by simp))
      rw [hr'len] at this
      exact run_emit_one _ hstep this rfl rfl rfl rfl
    · rw [if_neg hemit] at hstep
      have hz : (dsRes divFs q ann (r ++ c) t).len = 0 := by
        simp only [Bool.or_eq_true, decide_eq_true_eq, not_or] at hemit
        simpa using hemit.2
      have hd := dsRes_len_zero divFs q ann (r ++ c) t hz
      rw [hz] at hstep
      refine run_emit_none hstep ?_
      have := ih _ (s + c.length) (t + ((dsRes divFs q ann (r ++ c) t).len : Nat))
        { rem := rem', s0 := some (t + (dsRes divFs q ann (r ++ c) t).len) } hrem' hr' (Or.inl rfl)
      rw [hz, hr'len] at this
      simp only [dsRes] at hd
      rw [hd, List.nil_append]
      simpa using this

/-- what one `send` does to `decimate` (after its first chunk) on a stream -/
theorem decimateStep_stream (m : Mealy α β S) (lf : S → List α → List β × S) (hlf : LfilterIs lf m)
    (zi : S) (divFs : ρ → Nat → ρ) (q : Nat) (hq : 0 < q)
    (ann : Ann ρ χ μ) (c : List α) (r : List β) (s t : Int) (zf : S) (rem : Option (PD β ρ χ μ))
    (hrem : RemIs rem r s ann) :
    ∃ (rem' : Option (PD β ρ χ μ)),
      decimateStep lf zi divFs q (some { zf := zf, rem := rem, s0 := t }) { data := c, s0 := s, ann := ann }
        = .ok (if (dsRes divFs q ann (r ++ (m.run zf c).1) t).len ≠ 0
                then [dsRes divFs q ann (r ++ (m.run zf c).1) t] else [],
               some { zf := (m.run zf c).2, rem := rem',
                      s0 := t + (dsRes divFs q ann (r ++ (m.run zf c).1) t).len })
      ∧ RemIs rem' ((r ++ (m.run zf c).1).drop
            ((r ++ (m.run zf c).1).length - (r ++ (m.run zf c).1).length % q)) (s + c.length) ann := by
  obtain ⟨rem', hsplit, hrem'⟩ := dsSplit_stream divFs q r (m.run zf c).1 s ann
  rw [Mealy.run_length] at hrem'
  refine ⟨rem', ?_, hrem'.imp id id⟩
  unfold decimateStep
  rw [if_neg (Nat.ne_of_gt hq)]
  simp only [lfGuard_eq hlf, PD.withData, catOpt_stream hrem (m.run zf c).1, hsplit, dsRes]
  rfl

theorem decimate_run (m : Mealy α β S) (lf : S → List α → List β × S) (hlf : LfilterIs lf m)
    (zi : S) (divFs : ρ → Nat → ρ) (q : Nat) (hq : 0 < q)
    (ann : Ann ρ χ μ) :
    ∀ (cs : List (List α)) (r : List β) (s t : Int) (zf : S) (rem : Option (PD β ρ χ μ)),
    RemIs rem r s ann → r.length < q →
    ∃ bs, outputs (runStage (decimateStep lf zi divFs q) (some { zf := zf, rem := rem, s0 := t })
        (stream ann s cs)) = .ok bs
      ∧ Emits bs (stride q ((r ++ (m.run zf cs.flatten).1).take ((r.length + cs.flatten.length) / q * q))) 1 t
          { ann with fs := divFs ann.fs q } := by
  intro cs
  induction cs with
  | nil =>
    intro r s t zf rem _ hr
    refine ⟨[], rfl, ?_⟩
    have : stride q ((r ++ (m.run zf ([] : List (List α)).flatten).1).take
        ((r.length + ([] : List (List α)).flatten.length) / q * q)) = [] := by
      simp [Nat.div_eq_of_lt hr, stride, strideAux]
    rw [this]; exact Emits.nil _ _ _
  | cons c cs ih =>
    intro r s t zf rem hrem hr
    rw [stream_cons]
    obtain ⟨rem', hstep, hrem'⟩ := decimateStep_stream m lf hlf zi divFs q hq ann c r s t zf rem hrem
    have hsplit := stride_take_split q hq (r ++ (m.run zf c).1) (m.run (m.run zf c).2 cs.flatten).1
    have hassoc : r ++ (m.run zf (c :: cs).flatten).1
        = (r ++ (m.run zf c).1) ++ (m.run (m.run zf c).2 cs.flatten).1 := by
      simp [Mealy.run_append]
    have hlen : r.length + (c :: cs).flatten.length
        = (r ++ (m.run zf c).1).length + (m.run (m.run zf c).2 cs.flatten).1.length := by
      simp [Mealy.run_length]; omega
    have hr'len : ((r ++ (m.run zf c).1).drop
        ((r ++ (m.run zf c).1).length - (r ++ (m.run zf c).1).length % q)).length
        = (r ++ (m.run zf c).1).length % q := by
      have := Nat.mod_le (r ++ (m.run zf c).1).length q
      rw [List.length_drop]; omega
    have hr' : ((r ++ (m.run zf c).1).drop
        ((r ++ (m.run zf c).1).length - (r ++ (m.run zf c).1).length % q)).length < q := by
      rw [hr'len]; exact Nat.mod_lt _ hq
    rw [hassoc, hlen, hsplit]
    by_cases hemit : (dsRes divFs q ann (r ++ (m.run zf c).1) t).len ≠ 0
    · rw [if_pos hemit] at hstep
      have := ih _ (s + c.length) (t + 1 * ((dsRes divFs q ann (r ++ (m.run zf c).1) t).len : Nat))
        (m.run zf c).2 rem' hrem' hr'
      rw [hr'len, ← Mealy.run_length m (m.run zf c).2 cs.flatten] at this
      simp only [Int.one_mul] at this
      exact run_emit_one _ hstep this rfl rfl (by simp) rfl
    · rw [if_neg hemit] at hstep
      have hz : (dsRes divFs q ann (r ++ (m.run zf c).1) t).len = 0 := by simpa using hemit
      have hd := dsRes_len_zero divFs q ann (r ++ (m.run zf c).1) t hz
      rw [hz] at hstep
      refine run_emit_none hstep ?_
      have := ih _ (s + c.length) (t + ((0 : Nat) : Int)) (m.run zf c).2 rem' hrem' hr'
      rw [hr'len, ← Mealy.run_length m (m.run zf c).2 cs.flatten] at this
      simp only [dsRes] at hd
      rw [hd, List.nil_append]
      have e : t + ((0 : Nat) : Int) = t := by simp
      rw [e] at this ⊢
      exact this

end Psi.Stages
