import PsiModel.DbField
import Mathlib.Analysis.SpecialFunctions.Log.Base
import Mathlib.Analysis.SpecialFunctions.Pow.Real
import Mathlib.Analysis.SpecialFunctions.Trigonometric.Basic
import Mathlib.Analysis.SpecialFunctions.Complex.Arg
/-!
The real-number instance of `DbField` / `TrigField`: the formulas of `PsiModel/DbField.lean`
evaluated with `Real.logb 10`, `Real.rpow`, `Real.sqrt`, `Real.cos`, `Real.sin`.
Bridging lemmas (all by `rfl`) turn each operation into the Mathlib one.
-/
namespace Psi.Db

noncomputable instance instDbFieldReal : DbField ℝ where
  ofNat n := (n : ℝ)
  exp10 x := (10 : ℝ) ^ x
  log10 x := Real.logb 10 x
  sqrt := Real.sqrt
  ltb a b := decide (a < b)
  eqb a b := decide (a = b)

noncomputable instance instTrigFieldReal : TrigField ℝ where
  cos := Real.cos
  sin := Real.sin
  atan2 y x := Complex.arg ⟨x, y⟩
  pi := Real.pi

@[simp] theorem nat_real (k : ℕ) : (nat k : ℝ) = (k : ℝ) := rfl
@[simp] theorem exp10_real (x : ℝ) : exp10 x = (10 : ℝ) ^ x := rfl
@[simp] theorem log10_real (x : ℝ) : log10 x = Real.logb 10 x := rfl
@[simp] theorem sqrt_real (x : ℝ) : sqrt x = Real.sqrt x := rfl
@[simp] theorem ltb_real (a b : ℝ) : ltb a b = decide (a < b) := rfl
@[simp] theorem eqb_real (a b : ℝ) : eqb a b = decide (a = b) := rfl
@[simp] theorem cos_real (x : ℝ) : cos x = Real.cos x := rfl
@[simp] theorem sin_real (x : ℝ) : sin x = Real.sin x := rfl
@[simp] theorem pi_real : (pi : ℝ) = Real.pi := rfl
@[simp] theorem atan2_real (y x : ℝ) : atan2 y x = Complex.arg ⟨x, y⟩ := rfl

theorem db_real (x r : ℝ) : db x r = 20 * Real.logb 10 (x / r) := by
  simp [db]
theorem db1_real (x : ℝ) : db1 x = 20 * Real.logb 10 x := by
  simp [db1, db]
theorem dbi_real (d r : ℝ) : dbi d r = (10 : ℝ) ^ (d / 20) * r := by
  simp [dbi]
theorem sfOf_real (S L A : ℝ) : sfOf S L A = (10 : ℝ) ^ ((L - S + A) / 20) := by
  simp [sfOf]
theorem pRef_real : (pRef : ℝ) = 20 / 1000000 := by
  simp [pRef]

theorem ten_pos : (0 : ℝ) < 10 := by norm_num
theorem ten_ne_one : (10 : ℝ) ≠ 1 := by norm_num

/-- `10^(logb 10 x) = x` -/
theorem exp10_log10 {x : ℝ} (hx : 0 < x) : (10 : ℝ) ^ Real.logb 10 x = x :=
  Real.rpow_logb ten_pos ten_ne_one hx

/-- `logb 10 (10^x) = x` -/
theorem log10_exp10 (x : ℝ) : Real.logb 10 ((10 : ℝ) ^ x) = x :=
  Real.logb_rpow ten_pos ten_ne_one

theorem exp10_pos (x : ℝ) : 0 < (10 : ℝ) ^ x := Real.rpow_pos_of_pos ten_pos x

end Psi.Db
