import PsiProofs.Helper.C03_PauseFifo
/-!
Interleaved and blocked-random queues across pauses: `pause` does not touch the cursor / the
unconsumed block / the oracle streams, the ordering stays `0 … n-1`, and the completion flag is
"no counter is positive" at every point of every history.
-/
namespace Psi.Queue

theorem any_pos_iff (d : List Entry) :
    d.any (fun e => decide (e.trials > 0)) = true ↔ ∃ k, k < d.length ∧ 0 < trv d k := by
  rw [List.any_eq_true]
  constructor
  · rintro ⟨e, he, hp⟩
    obtain ⟨k, hk, rfl⟩ := List.getElem_of_mem he
    exact ⟨k, hk, by simpa [trv, List.getElem?_eq_getElem hk] using hp⟩
  · rintro ⟨k, hk, hp⟩
    exact ⟨d[k], List.getElem_mem hk, by simpa [trv, List.getElem?_eq_getElem hk] using hp⟩

theorem insertFront_of_mem (o : List Nat) (keys : List Nat) (h : ∀ k ∈ keys, k ∈ o) :
    insertFront o keys = o := by
  induction keys with
  | nil => rfl
  | cons k ks ih =>
    have hc : o.contains k = true := by simpa using h k (by simp)
    simp only [insertFront, List.foldl_cons, hc, if_true]
    exact ih (fun k' hk' => h k' (by simp [hk']))

theorem trv_requeue (keys : List Nat) (d : List Entry) (k : Nat) :
    trv (keys.foldl (fun d k => setTrials d k (· + 1)) d) k =
      if k < d.length then trv d k + ((keys.count k : Nat) : Int) else 0 := by
  unfold trv
  rw [foldl_setTrials_get]
  by_cases hk : k < d.length
  · simp [List.getElem?_eq_getElem hk, hk]
  · simp [List.getElem?_eq_none (by omega : d.length ≤ k), hk]

theorem requeue_length (keys : List Nat) (d : List Entry) :
    (keys.foldl (fun d k => setTrials d k (· + 1)) d).length = d.length := by
  induction keys generalizing d with
  | nil => rfl
  | cons k ks ih => simp only [List.foldl_cons]; rw [ih, setTrials_length]

theorem requeue_complete (m : Int) (s : QState) (hk : s.kind = .interleaved ∨ s.kind = .blockedRandom) :
    (requeue m s).complete =
      if ((toRequeue m s).foldl (fun d k => setTrials d k (· + 1)) s.data).any
          (fun e => decide (e.trials > 0)) then false else s.complete := by
  unfold requeue toRequeue
  rcases hk with hk | hk <;> simp only [hk] <;> split <;> simp_all

theorem pause_complete (m : Int) (s : QState) (hk : s.kind = .interleaved ∨ s.kind = .blockedRandom) :
    (pause (some m) s).1.complete =
      if ((toRequeue m s).foldl (fun d k => setTrials d k (· + 1)) s.data).any
          (fun e => decide (e.trials > 0)) then false else s.complete := by
  obtain ⟨x, e⟩ := pause_some_eq m s
  rw [e]
  have := requeue_complete m (cancel m { s with paused := true }) (by simpa [cancel] using hk)
  simp only [this]
  rfl

/-- interleaved / blocked random, common part: holds after every history -/
structure CI (n : Nat) (s : QState) : Prop where
  len : s.data.length = n
  npos : 0 < n
  delays : DelaysOK s.data
  kind : s.kind = .interleaved ∨ s.kind = .blockedRandom
  ord : s.ordering = List.range n
  compl : s.complete = true ↔ ∀ k, k < n → trv s.data k ≤ 0
  gk : ∀ i ∈ s.generated, i.key < n

theorem CI_of_same {n : Nat} {s s' : QState} (h : CI n s) (hv : view s' = view s)
    (hg : s'.generated = s.generated) : CI n s' := by
  have h1 : s'.data = s.data := congrArg PView.data hv
  have h2 : s'.kind = s.kind := congrArg PView.kind hv
  have h3 : s'.ordering = s.ordering := congrArg PView.ordering hv
  have h4 : s'.complete = s.complete := congrArg PView.complete hv
  exact ⟨by rw [h1]; exact h.len, h.npos, by rw [h1]; exact h.delays, by rw [h2]; exact h.kind,
    by rw [h3]; exact h.ord, by rw [h4, h1]; exact h.compl, by rw [hg]; exact h.gk⟩

/-- one successful `next_trial` of an interleaved / blocked-random queue, given its `next_key` -/
theorem CI_step {n : Nat} {s sa s1 : QState} {k : Nat} (hi : CI n s) (hc : s.complete = false)
    (hkey : nextKey s = .ok (some (k, sa))) (hkl : k < n) (hn : nextTrial s = .ok (some s1)) :
    CI n s1 ∧
    view s1 = { view s with data := dataStep s.data k, keys := (view s).keys ++ [k],
                            complete := s1.complete, cursor := sa.cursor, block := sa.block,
                            draws := sa.draws, perms := sa.perms } := by
  have f1 := nextKey_frame hkey
  have hsak : sa.kind = s.kind := by rw [f1]
  have hsao : sa.ordering = s.ordering := by rw [f1]
  have hsad : sa.data = s.data := by rw [f1]
  have hsac : sa.complete = s.complete := by rw [f1]
  have hmem : k ∈ sa.ordering := by rw [hsao, hi.ord]; simp [hkl]
  have hdec := decrementKey_complete (by rw [hsak]; exact hi.kind) hmem
  obtain ⟨s1', hs1, hv⟩ := nextTrial_ok hkey hdec (by rw [hi.len]; exact hkl) hi.delays
  rw [hn] at hs1
  simp only [Except.ok.injEq, Option.some.injEq] at hs1
  subst hs1
  have hdata : s1.data = dataStep s.data k := by have := congrArg PView.data hv; simpa [view] using this
  have hcomp : s1.complete =
      if (setTrials s.data k (· - 1)).all (fun e => decide (e.trials ≤ 0)) then true else s.complete := by
    have := congrArg PView.complete hv
    simpa [view, hsad, hsac] using this
  have hkd : k < s.data.length := by rw [hi.len]; exact hkl
  obtain ⟨info, _, _, _, _, _, _, hg, ha, _⟩ := nextTrial_info hn
  have hkeys : s1.added.map (·.key) = s.added.map (·.key) ++ [k] := by
    have := congrArg PView.keys hv; simpa [view] using this
  have hik : info.key = k := by rw [ha] at hkeys; simpa using hkeys
  refine ⟨⟨by rw [hdata, dataStep_length]; exact hi.len, hi.npos, by rw [hdata]; exact DelaysOK_dataStep hi.delays k,
    ?_, ?_, ?_, ?_⟩, ?_⟩
  · have := congrArg PView.kind hv; simp only [view] at this; rw [this]; exact hi.kind
  · have := congrArg PView.ordering hv; simp only [view] at this; rw [this, hsao]; exact hi.ord
  · rw [hcomp, hdata]
    constructor
    · intro ht k' hk'
      split at ht
      · rename_i hall
        rw [all_le_iff] at hall
        rw [← trv_setTrials_eq_dataStep _ _ _ hkd]
        exact hall k' (by rw [setTrials_length, hi.len]; exact hk')
      · rw [hc] at ht; simp at ht
    · intro hall
      have : (setTrials s.data k (· - 1)).all (fun e => decide (e.trials ≤ 0)) = true := by
        rw [all_le_iff]
        intro k' hk'
        rw [setTrials_length, hi.len] at hk'
        rw [trv_setTrials_eq_dataStep _ _ _ hkd]
        exact hall k' hk'
      simp [this]
  · intro i hi'
    rw [hg] at hi'
    rcases List.mem_append.mp hi' with h' | h'
    · exact hi.gk i h'
    · simp only [List.mem_singleton] at h'; subst h'; rw [hik]; exact hkl
  · rw [hv]
    simp only [view, PView.mk.injEq, true_and, and_true]
    have := congrArg PView.complete hv
    simp only [view] at this
    exact ⟨hsao.symm ▸ rfl, this.symm⟩

theorem CI_pause {n : Nat} (m : Option Int) {s : QState} (hi : CI n s) : CI n (pause m s).1 := by
  cases m with
  | none => exact CI_of_same (s := s) hi rfl rfl
  | some m =>
    obtain ⟨ho, hd, hg, hk, _⟩ := pause_policy m s
    have hkeys : ∀ k ∈ toRequeue m s, k < n := by
      intro k hk'
      simp only [toRequeue, List.mem_map, List.mem_filter, List.mem_reverse] at hk'
      obtain ⟨i, ⟨hi', _⟩, rfl⟩ := hk'
      exact hi.gk i hi'
    have hcomp := pause_complete m s hi.kind
    refine ⟨by rw [hd, requeue_length]; exact hi.len, hi.npos, by rw [hd]; exact DelaysOK_requeue _ hi.delays,
      by rw [hk]; exact hi.kind, ?_, ?_, ?_⟩
    · rw [ho, hi.ord]
      exact insertFront_of_mem _ _ (fun k hk' => List.mem_range.mpr (hkeys k hk'))
    · rw [hcomp, hd]
      have hge : ∀ k, k < n → trv s.data k ≤
          trv ((toRequeue m s).foldl (fun d k => setTrials d k (· + 1)) s.data) k := by
        intro k hk'
        rw [trv_requeue, if_pos (by rw [hi.len]; exact hk')]
        omega
      constructor
      · intro ht k hk'
        split at ht
        · simp at ht
        · rename_i hany
          apply Int.not_lt.mp
          intro hp
          exact hany ((any_pos_iff _).mpr ⟨k, by rw [requeue_length, hi.len]; exact hk', hp⟩)
      · intro hall
        have hany : ¬ ((toRequeue m s).foldl (fun d k => setTrials d k (· + 1)) s.data).any
            (fun e => decide (e.trials > 0)) = true := by
          rw [any_pos_iff]
          rintro ⟨k, hk', hp⟩
          rw [requeue_length, hi.len] at hk'
          have := hall k hk'
          omega
        rw [if_neg hany]
        exact hi.compl.mpr (fun k hk' => by have := hge k hk'; have := hall k hk'; omega)
    · intro i hi'
      rw [hg] at hi'
      exact hi.gk i (List.mem_filter.mp hi').1

theorem CI_resume {n : Nat} (m : Option Int) {s : QState} (hi : CI n s) : CI n (resume m s) := by
  cases m <;> exact CI_of_same (s := s) hi rfl rfl

theorem view_pause {n : Nat} (m : Option Int) {s : QState} (hi : CI n s) :
    (pause m s).1.cursor = s.cursor ∧ (pause m s).1.block = s.block ∧ (pause m s).1.perms = s.perms ∧
    (pause m s).1.draws = s.draws ∧ (pause m s).1.added = s.added ∧ (pause m s).1.keep = s.keep ∧
    (pause m s).1.ordering = s.ordering := by
  cases m with
  | none => simp [pause]
  | some m =>
    obtain ⟨ho, _, _, _, h1, _, h2, h3, h4, h5, h6⟩ := pause_policy m s
    refine ⟨h2, h3, h4, h5, h6, h1, ?_⟩
    rw [(CI_pause (some m) hi).ord, hi.ord]

/-- lifting a `next_trial` step lemma to `tick` -/
theorem tick_inv_of_step {I : QState → Prop}
    (same : ∀ s s', I s → view s' = view s → s'.generated = s.generated → I s')
    (step : ∀ s s1, I s → nextTrial s = .ok (some s1) → I s1)
    {s s' : QState} {c : Cell} (hi : I s) (h : tick s = .ok (c, s')) : I s' := by
  cases tick_cases h with
  | paused _ _ hs => subst hs; exact same _ _ hi rfl rfl
  | play src _ _ _ he =>
    have : s' = (emitSrc s src).2 := by rw [← he]
    subst this
    exact same _ _ hi (view_emitSrc s src) (emitSrc_same s src).2.1
  | gap _ _ _ _ hs => subst hs; exact same _ _ hi rfl rfl
  | dry _ _ _ _ _ hs => subst hs; exact same _ _ hi rfl rfl
  | start s1 src _ _ _ hn _ _ he =>
    have : s' = (emitSrc s1 src).2 := by rw [← he]
    subst this
    have h0 : I (dropSrc s) := same _ _ hi rfl rfl
    exact same _ _ (step _ _ h0 hn) (view_emitSrc s1 src) (emitSrc_same s1 src).2.1

/-! ### Interleaved -/

/-- interleaved queue (either option): the cursor is the stimulus of the most recently *notified*
trial, cancelled or not; with completed waveforms kept the full notification log is `j % n` -/
structure HIL (n : Nat) (s : QState) : Prop where
  ci : CI n s
  kind : s.kind = .interleaved
  cur : s.cursor = lastOr (keyLog s)
  rr : s.keep = true → ∀ j (h : j < (keyLog s).length), (keyLog s)[j] = j % n

theorem HIL_of_same {n : Nat} {s s' : QState} (h : HIL n s) (hv : view s' = view s)
    (hg : s'.generated = s.generated) : HIL n s' := by
  have h2 : s'.kind = s.kind := congrArg PView.kind hv
  have h3 : s'.cursor = s.cursor := congrArg PView.cursor hv
  have h4 : s'.keep = s.keep := congrArg PView.keep hv
  have h5 : keyLog s' = keyLog s := congrArg PView.keys hv
  exact ⟨CI_of_same h.ci hv hg, by rw [h2]; exact h.kind, by rw [h3, h5]; exact h.cur,
    by rw [h4, h5]; exact h.rr⟩

theorem lastOr_mod {n : Nat} (hn : 0 < n) (L : List Nat) (h : ∀ j (hj : j < L.length), L[j] = j % n) :
    (lastOr L + 1) % (n : Int) = ((L.length % n : Nat) : Int) := by
  cases hL : L.getLast? with
  | none =>
    have : L = [] := List.getLast?_eq_none_iff.mp hL
    subst this
    simp [lastOr]
  | some k =>
    obtain ⟨ys, rfl⟩ := List.getLast?_eq_some_iff.mp hL
    have hk := h ys.length (by simp)
    simp only [List.getElem_append_right (Nat.le_refl _), Nat.sub_self, List.getElem_cons_zero] at hk
    simp only [lastOr_snoc, List.length_append, List.length_singleton]
    rw [hk, ← Nat.mod_add_mod]
    push_cast
    rfl

theorem HIL_step {n : Nat} (s s1 : QState) (hi : HIL n s) (hn : nextTrial s = .ok (some s1)) :
    HIL n s1 := by
  have hnpos := hi.ci.npos
  have hord := hi.ci.ord
  cases hc : s.complete with
  | true =>
    have : nextTrial s = .ok none := by
      apply nextTrial_none_of
      rw [nextKey_none_iff]
      simp [Done, hi.kind, hc]
    rw [this] at hn; simp at hn
  | false =>
    cases hkeep : s.keep with
    | true =>
      have hkey := nextKey_interleaved_keep hnpos hi.kind hkeep hord hc
      have hkl := idx_lt hnpos (s.cursor + 1)
      obtain ⟨hci, hv⟩ := CI_step hi.ci hc hkey hkl hn
      have hcur1 : s1.cursor = (s.cursor + 1) % (n : Int) := by
        have := congrArg PView.cursor hv; simpa [view] using this
      have hkeys : keyLog s1 = keyLog s ++ [((s.cursor + 1) % (n : Int)).toNat] := by
        have := congrArg PView.keys hv; simpa [view, keyLog] using this
      have hkeep1 : s1.keep = s.keep := by have := congrArg PView.keep hv; simpa [view] using this
      have hkind1 : s1.kind = s.kind := by have := congrArg PView.kind hv; simpa [view] using this
      have hm := lastOr_mod hnpos (keyLog s) (hi.rr hkeep)
      rw [← hi.cur] at hm
      refine ⟨hci, by rw [hkind1]; exact hi.kind, ?_, ?_⟩
      · rw [hcur1, hkeys, lastOr_snoc, idx_cast hnpos]
      · intro _ j hj
        simp only [hkeys] at hj ⊢
        rw [List.length_append] at hj
        simp only [List.length_singleton] at hj
        by_cases hjl : j < (keyLog s).length
        · rw [List.getElem_append_left hjl]; exact hi.rr hkeep j hjl
        · have : j = (keyLog s).length := by omega
          subst this
          rw [List.getElem_append_right (Nat.le_refl _)]
          simp only [Nat.sub_self, List.getElem_cons_zero]
          rw [hm]; exact Int.toNat_natCast _
    | false =>
      have hex : ∃ k, k < n ∧ 0 < trv s.data k := by
        apply Classical.byContradiction
        intro hne
        have : s.complete = true := hi.ci.compl.mpr (fun k hk => Int.not_lt.mp (fun h => hne ⟨k, hk, h⟩))
        rw [hc] at this; simp at this
      obtain ⟨d, _, _, hkey, _, _⟩ := nextKey_interleaved_nokeep hnpos hi.kind hkeep hord hc hex
      have hkl := idx_lt hnpos (s.cursor + (d : Int))
      obtain ⟨hci, hv⟩ := CI_step hi.ci hc hkey hkl hn
      have hcur1 : s1.cursor = (s.cursor + (d : Int)) % (n : Int) := by
        have := congrArg PView.cursor hv; simpa [view] using this
      have hkeys : keyLog s1 = keyLog s ++ [((s.cursor + (d : Int)) % (n : Int)).toNat] := by
        have := congrArg PView.keys hv; simpa [view, keyLog] using this
      have hkeep1 : s1.keep = s.keep := by have := congrArg PView.keep hv; simpa [view] using this
      have hkind1 : s1.kind = s.kind := by have := congrArg PView.kind hv; simpa [view] using this
      refine ⟨hci, by rw [hkind1]; exact hi.kind, ?_, ?_⟩
      · rw [hcur1, hkeys, lastOr_snoc, idx_cast hnpos]
      · intro hk1; rw [hkeep1, hkeep] at hk1; simp at hk1

theorem HIL_pause {n : Nat} (m : Option Int) {s : QState} (hi : HIL n s) : HIL n (pause m s).1 := by
  obtain ⟨h1, _, _, _, h5, h6, _⟩ := view_pause m hi.ci
  have hk : keyLog (pause m s).1 = keyLog s := by simp only [keyLog, h5]
  have hkind : (pause m s).1.kind = s.kind := by
    cases m with
    | none => rfl
    | some m => exact (pause_policy m s).2.2.2.1
  exact ⟨CI_pause m hi.ci, by rw [hkind]; exact hi.kind, by rw [h1, hk]; exact hi.cur,
    by rw [h6, hk]; exact hi.rr⟩

theorem HIL_resume {n : Nat} (m : Option Int) {s : QState} (hi : HIL n s) : HIL n (resume m s) := by
  cases m <;> exact HIL_of_same (s := s) hi rfl rfl

theorem HIL_init {s : QState} (h : Loaded s) (hk : s.kind = .interleaved) (hg : s.generated = []) :
    HIL s.data.length s := by
  refine ⟨⟨rfl, h.pos, h.delays, Or.inl hk, h.ordering, ?_, by simp [hg]⟩, hk, ?_, ?_⟩
  · constructor
    · intro hc; rw [h.complete] at hc; simp at hc
    · intro hall
      have := h.trials h.pos
      have := hall 0 h.pos
      rw [trialsOf_eq] at *
      omega
  · simp [keyLog, h.added, h.cursor, lastOr]
  · intro _ j hj; simp [keyLog, h.added] at hj

/-! ### Blocked random -/

/-- blocked-random queue: the full notification log followed by the unconsumed part of the current
shuffle is a whole number of the oracle's shuffles -/
structure HBR (n : Nat) (P0 : List (List Nat)) (s : QState) : Prop where
  ci : CI n s
  kind : s.kind = .blockedRandom
  permsOK : ∀ p ∈ P0, p.Perm (List.range n)
  blocks : ∃ b, b ≤ P0.length ∧ s.perms = P0.drop b ∧
    keyLog s ++ s.block.reverse = (P0.take b).flatMap List.reverse
  blockLt : s.block.length < n ∧ ∀ i ∈ s.block, i < n

theorem HBR_of_same {n : Nat} {P0 : List (List Nat)} {s s' : QState} (h : HBR n P0 s)
    (hv : view s' = view s) (hg : s'.generated = s.generated) : HBR n P0 s' := by
  have h2 : s'.kind = s.kind := congrArg PView.kind hv
  have h3 : s'.perms = s.perms := congrArg PView.perms hv
  have h4 : s'.block = s.block := congrArg PView.block hv
  have h5 : keyLog s' = keyLog s := congrArg PView.keys hv
  exact ⟨CI_of_same h.ci hv hg, by rw [h2]; exact h.kind, h.permsOK, by rw [h3, h4, h5]; exact h.blocks,
    by rw [h4]; exact h.blockLt⟩

theorem HBR_step {n : Nat} {P0 : List (List Nat)} (s s1 : QState) (hi : HBR n P0 s)
    (hn : nextTrial s = .ok (some s1)) : HBR n P0 s1 := by
  have hnpos := hi.ci.npos
  have hord := hi.ci.ord
  have hkind := hi.kind
  cases hc : s.complete with
  | true =>
    have : nextTrial s = .ok none := by
      apply nextTrial_none_of
      rw [nextKey_none_iff]
      simp [Done, hi.kind, hc]
    rw [this] at hn; simp at hn
  | false =>
    obtain ⟨b, hbl, hperms, hcat⟩ := hi.blocks
    obtain ⟨hblen, hbmem⟩ := hi.blockLt
    have fin : ∀ {i : Nat} {sa : QState}, nextKey s = .ok (some (i, sa)) → i < n →
        (∃ b, b ≤ P0.length ∧ sa.perms = P0.drop b ∧
          (keyLog s ++ [i]) ++ sa.block.reverse = (P0.take b).flatMap List.reverse) →
        (sa.block.length < n ∧ ∀ x ∈ sa.block, x < n) → HBR n P0 s1 := by
      intro i sa hkey hil hblocks hblt
      obtain ⟨hci, hv⟩ := CI_step hi.ci hc hkey hil hn
      have hkind1 : s1.kind = s.kind := by have := congrArg PView.kind hv; simpa [view] using this
      have hperms1 : s1.perms = sa.perms := by have := congrArg PView.perms hv; simpa [view] using this
      have hblock1 : s1.block = sa.block := by have := congrArg PView.block hv; simpa [view] using this
      have hkeys : keyLog s1 = keyLog s ++ [i] := by
        have := congrArg PView.keys hv; simpa [view, keyLog] using this
      exact ⟨hci, by rw [hkind1]; exact hkind, hi.permsOK, by rw [hperms1, hblock1, hkeys]; exact hblocks,
        by rw [hblock1]; exact hblt⟩
    cases hblk : s.block.getLast? with
    | none =>
      have hb : s.block = [] := List.getLast?_eq_none_iff.mp hblk
      cases hps : s.perms with
      | nil =>
        have : nextKey s = .error .oracle := by
          unfold nextKey; simp [hkind, hc, hb, hps]
        have : nextTrial s = .error .oracle := by unfold nextTrial; rw [this]
        rw [this] at hn; simp at hn
      | cons p pss =>
        have hpget : P0[b]? = some p := by
          have := List.getElem?_drop (xs := P0) (i := b) (j := 0)
          rw [← hperms, hps] at this
          simpa using this.symm
        have hpmem : p ∈ P0 := List.mem_of_getElem? hpget
        have hpp := hi.permsOK p hpmem
        have hplen : p.length = n := by rw [hpp.length_eq]; simp
        have hpne : p ≠ [] := by intro h; rw [h] at hplen; simp at hplen; omega
        obtain ⟨ys, hys⟩ := List.getLast?_eq_some_iff.mp (List.getLast?_eq_some_getLast hpne)
        generalize p.getLast hpne = i at hys
        have hil : i < n := by
          have : i ∈ p := by rw [hys]; simp
          exact List.mem_range.mp ((hpp.mem_iff).mp this)
        have hkey := nextKey_blocked_refill (pss := pss) hkind hord hc hb (by rw [hps, hys]) hil
        have hb1 : b < P0.length := by
          obtain ⟨h, _⟩ := List.getElem?_eq_some_iff.mp hpget; exact h
        refine fin hkey hil ⟨b + 1, hb1, ?_, ?_⟩ ⟨?_, ?_⟩
        · show pss = P0.drop (b + 1)
          rw [List.drop_add_one_eq_tail_drop, ← hperms, hps]; rfl
        · show (keyLog s ++ [i]) ++ ys.reverse = _
          rw [List.take_add_one, hpget, List.flatMap_append, ← hcat, hb, hys]
          simp
        · show ys.length < n
          rw [← hplen, hys]; simp
        · intro x hx
          have : x ∈ p := by rw [hys]; exact List.mem_append_left _ hx
          exact List.mem_range.mp ((hpp.mem_iff).mp this)
    | some i =>
      obtain ⟨ys, hys⟩ := List.getLast?_eq_some_iff.mp hblk
      have hil : i < n := hbmem i (by rw [hys]; simp)
      have hkey := nextKey_blocked_pop hkind hord hc hys hil
      refine fin hkey hil ⟨b, hbl, hperms, ?_⟩ ⟨?_, ?_⟩
      · show (keyLog s ++ [i]) ++ ys.reverse = _
        rw [← hcat, hys]; simp
      · show ys.length < n
        rw [hys] at hblen; simp at hblen; omega
      · intro x hx
        exact hbmem x (by rw [hys]; exact List.mem_append_left _ hx)

theorem HBR_pause {n : Nat} {P0 : List (List Nat)} (m : Option Int) {s : QState} (hi : HBR n P0 s) :
    HBR n P0 (pause m s).1 := by
  obtain ⟨_, h2, h3, _, h5, _, _⟩ := view_pause m hi.ci
  have hk : keyLog (pause m s).1 = keyLog s := by simp only [keyLog, h5]
  have hkind : (pause m s).1.kind = s.kind := by
    cases m with
    | none => rfl
    | some m => exact (pause_policy m s).2.2.2.1
  exact ⟨CI_pause m hi.ci, by rw [hkind]; exact hi.kind, hi.permsOK, by rw [h3, h2, hk]; exact hi.blocks,
    by rw [h2]; exact hi.blockLt⟩

theorem HBR_resume {n : Nat} {P0 : List (List Nat)} (m : Option Int) {s : QState} (hi : HBR n P0 s) :
    HBR n P0 (resume m s) := by
  cases m <;> exact HBR_of_same (s := s) hi rfl rfl

theorem HBR_init {s : QState} (h : Loaded s) (hk : s.kind = .blockedRandom) (hg : s.generated = [])
    (hp : ∀ p ∈ s.perms, p.Perm (List.range s.data.length)) : HBR s.data.length s.perms s := by
  refine ⟨⟨rfl, h.pos, h.delays, Or.inr hk, h.ordering, ?_, by simp [hg]⟩, hk, hp,
    ⟨0, Nat.zero_le _, by simp, by simp [keyLog, h.added, h.block]⟩, ⟨by simp [h.block, h.pos], by simp [h.block]⟩⟩
  constructor
  · intro hc; rw [h.complete] at hc; simp at hc
  · intro hall
    have := h.trials h.pos
    have := hall 0 h.pos
    rw [trialsOf_eq] at *
    omega

end Psi.Queue
