import PsiProofs.Helper.C04_Cons
/-! FIFO policy: the future key sequence is `ordering.flatMap (replicate trials)`. -/
namespace Psi.Queue

structure FifoInv (s : QState) : Prop where
  kind : s.kind = .fifo
  nodup : s.ordering.Nodup
  valid : ∀ k ∈ s.ordering, ∃ e, s.data[k]? = some e ∧ 0 < e.trials
  delays : ∀ (i : Nat) (e : Entry), s.data[i]? = some e → e.delays ≠ [] ∧ ∀ d ∈ e.delays, 0 ≤ d
  done : ∀ (i : Nat) (e : Entry), s.data[i]? = some e → i ∉ s.ordering → e.trials = 0

/-- keys still to be presented, in order -/
def remSeq (s : QState) : List Nat :=
  s.ordering.flatMap (fun k => List.replicate (trialsOf s k).toNat k)

theorem decrementKey_fifo {s : QState} {k : Nat} (hk : s.kind = .fifo) (hm : k ∈ s.ordering) :
    decrementKey s k = .ok { s with
      data := setTrials s.data k (· - 1),
      ordering := if trialsOf { s with data := setTrials s.data k (· - 1) } k ≤ 0
                  then s.ordering.erase k else s.ordering } := by
  have hc : s.ordering.contains k = true := by simpa using hm
  unfold decrementKey
  simp only [hc, not_true_eq_false, if_false, hk]
  split <;> rfl

theorem remSeq_congr {s s' : QState} (l : List Nat) (h : ∀ k ∈ l, trialsOf s' k = trialsOf s k) :
    l.flatMap (fun k => List.replicate (trialsOf s' k).toNat k) =
    l.flatMap (fun k => List.replicate (trialsOf s k).toNat k) := by
  induction l with
  | nil => rfl
  | cons a l ih =>
    simp only [List.flatMap_cons]
    rw [h a (by simp), ih (fun k hk => h k (by simp [hk]))]

theorem fifo_nextTrial_nil {s : QState} (hi : FifoInv s) (ho : s.ordering = []) :
    nextKey s = .ok none := by
  simp [nextKey, hi.kind, ho]

theorem fifo_nextTrial_cons {s : QState} (hi : FifoInv s) {k : Nat} {rest : List Nat}
    (ho : s.ordering = k :: rest) :
    ∃ s1, nextTrial s = .ok (some s1) ∧ FifoInv s1 ∧
      s1.added.map (·.key) = s.added.map (·.key) ++ [k] ∧ remSeq s = k :: remSeq s1 := by
  obtain ⟨e, he, hpos⟩ := hi.valid k (by simp [ho])
  have hm : k ∈ s.ordering := by simp [ho]
  have hk : nextKey s = .ok (some (k, s)) := by simp [nextKey, hi.kind, ho]
  have hdk := decrementKey_fifo hi.kind hm
  have hget : (setTrials s.data k (· - 1))[k]? = some { e with trials := e.trials - 1 } := by
    rw [setTrials_get]; simp [he]
  obtain ⟨hne, hd0⟩ := hi.delays k e he
  have hlen : 0 < e.delays.length := List.length_pos_iff.mpr hne
  have hidx : e.dpos % e.delays.length < e.delays.length := Nat.mod_lt _ hlen
  -- success
  have hsucc : ∃ s1, nextTrial s = .ok (some s1) := by
    unfold nextTrial
    simp only [hk, he, hdk, hget]
    have h1 : ¬ e.delays.length = 0 := by omega
    simp only [h1, if_false, List.getElem?_eq_getElem hidx]
    have h2 : ¬ e.delays[e.dpos % e.delays.length] < 0 := by
      have := hd0 _ (List.getElem_mem hidx); omega
    simp only [h2, if_false]
    exact ⟨_, rfl⟩
  obtain ⟨s1, hs1⟩ := hsucc
  refine ⟨s1, hs1, ?_⟩
  obtain ⟨key, sa, sb, e', d, hk', hd', he', _, _, hs1eq⟩ := nextTrial_some hs1
  rw [hk] at hk'
  simp only [Except.ok.injEq, Option.some.injEq, Prod.mk.injEq] at hk'
  obtain ⟨rfl, rfl⟩ := hk'
  rw [hdk] at hd'
  simp only [Except.ok.injEq] at hd'
  obtain ⟨info, g, hadd, _, _, _, _, _, _, _, _, _, _, hkind1⟩ := nextTrial_obs hs1
  obtain ⟨info', hgen, hdata⟩ := nextTrial_data hs1
  -- ordering and trial counters of the new state
  have hord1 : s1.ordering = if e.trials - 1 ≤ 0 then rest else k :: rest := by
    rw [hs1eq, ← hd']
    simp only [trialsOf, hget, ho]
    split <;> simp
  have hinfo : info.key = k := by
    have := congrArg QState.added hs1eq
    rw [hadd] at this
    simp only [← hd', mkInfo] at this
    have := List.append_inj_right' this rfl
    simp only [List.cons.injEq, and_true] at this
    rw [this]
  have hkey' : info'.key = k := by
    have h1 := congrArg QState.generated hs1eq
    rw [hgen] at h1
    simp only [← hd', mkInfo] at h1
    have := List.append_inj_right' h1 rfl
    simp only [List.cons.injEq, and_true] at this
    rw [this]
  have htr : ∀ k', trialsOf s1 k' = if k' = k then trialsOf s k' - 1 else trialsOf s k' := by
    intro k'
    simp only [trialsOf, hdata k', hkey']
    by_cases hkk : k = k'
    · subst hkk; simp [he]
    · have : ¬ k' = k := fun h => hkk h.symm
      simp [hkk, this]
  have hnd := hi.nodup
  rw [ho, List.nodup_cons] at hnd
  refine ⟨⟨by rw [hkind1, hi.kind], ?_, ?_, ?_, ?_⟩, by rw [hadd]; simp [hinfo], ?_⟩
  · rw [hord1]; split
    · exact hnd.2
    · rw [← ho]; exact hi.nodup
  · intro k' hk'
    rw [hord1] at hk'
    have hk'o : k' ∈ s.ordering := by
      rw [ho]; split at hk'
      · exact List.mem_cons_of_mem _ hk'
      · exact hk'
    obtain ⟨e0, he0, hp0⟩ := hi.valid k' hk'o
    rw [hdata k', hkey']
    by_cases hkk : k = k'
    · subst hkk
      rw [he] at he0; simp only [Option.some.injEq] at he0; subst he0
      refine ⟨{ e with trials := e.trials - 1, dpos := e.dpos + 1 }, by simp [he], ?_⟩
      simp only
      split at hk'
      · exact absurd hk' hnd.1
      · omega
    · exact ⟨e0, by simp [hkk, he0], hp0⟩
  · intro i e0 he0
    rw [hdata i] at he0
    split at he0
    · cases h0 : s.data[i]? with
      | none => simp [h0] at he0
      | some e1 =>
        simp only [h0, Option.map_some, Option.some.injEq] at he0
        subst he0
        exact hi.delays i e1 h0
    · exact hi.delays i e0 he0
  · intro i e0 he0 hni
    rw [hdata i, hkey'] at he0
    rw [hord1] at hni
    by_cases hkk : k = i
    · subst hkk
      simp only [if_true, he, Option.map_some, Option.some.injEq] at he0
      subst he0
      simp only
      split at hni
      · omega
      · exact absurd (List.mem_cons_self) hni
    · simp only [hkk, if_false] at he0
      apply hi.done i e0 he0
      rw [ho]
      intro hmem
      rcases List.mem_cons.mp hmem with h | h
      · exact hkk h.symm
      · split at hni
        · exact hni h
        · exact hni (List.mem_cons_of_mem _ h)
  · -- the sequence: one `k` now, the rest later
    unfold remSeq
    rw [ho, hord1]
    simp only [List.flatMap_cons]
    have hrest : rest.flatMap (fun k' => List.replicate (trialsOf s1 k').toNat k') =
        rest.flatMap (fun k' => List.replicate (trialsOf s k').toNat k') := by
      apply remSeq_congr
      intro k' hk'
      rw [htr k']
      have : ¬ k' = k := fun h => hnd.1 (h ▸ hk')
      simp [this]
    have htk : trialsOf s k = e.trials := by simp [trialsOf, he]
    have htk1 : trialsOf s1 k = e.trials - 1 := by rw [htr k]; simp [htk]
    have hrep : List.replicate (e.trials).toNat k = k :: List.replicate (e.trials - 1).toNat k := by
      have : e.trials.toNat = (e.trials - 1).toNat + 1 := by omega
      rw [this, List.replicate_succ]
    rw [htk, hrep]
    split
    · rename_i hle
      have : (e.trials - 1).toNat = 0 := by omega
      rw [this, hrest]; simp
    · simp only [List.flatMap_cons, htk1, hrest]; simp

end Psi.Queue
