import PsiProofs.Helper.C03_Run
/-!
Policy view of a queue state and the generic "ticks = a sequence of `next_trial`s" lemma.

A tick either leaves the policy view (what `next_key`/`decrement_key` read and write, plus the key
log) unchanged, or performs exactly one successful `next_trial`. Hence an invariant of the view that
is preserved by `next_trial`, and under which `next_trial` does not raise, holds after any number
of ticks, and no tick raises.
-/
namespace Psi.Queue

structure PView where
  kind : Kind
  keep : Bool
  gsize : Nat
  data : List Entry
  ordering : List Nat
  cursor : Int
  complete : Bool
  block : List Nat
  draws : List Nat
  perms : List (List Nat)
  keys : List Nat          -- keys of the `added` notifications so far

def view (s : QState) : PView :=
  ⟨s.kind, s.keep, s.gsize, s.data, s.ordering, s.cursor, s.complete, s.block, s.draws, s.perms,
   s.added.map (·.key)⟩

/-- the key log: keys of the `added` notifications, oldest first -/
def keyLog (s : QState) : List Nat := s.added.map (·.key)

/-- remaining-trials counter read off a data table -/
def trv (d : List Entry) (k : Nat) : Int :=
  match d[k]? with
  | some e => e.trials
  | none => 0

theorem trialsOf_eq (s : QState) (k : Nat) : trialsOf s k = trv s.data k := rfl

theorem view_emitSrc (s : QState) (src : Src) : view (emitSrc s src).2 = view s := by
  simp [view, emitSrc, bump]

theorem tick_view {s s' : QState} {c : Cell} (h : tick s = .ok (c, s')) :
    view s' = view s ∨ ∃ s1, nextTrial (dropSrc s) = .ok (some s1) ∧ view s' = view s1 := by
  cases tick_cases h with
  | paused _ _ hs => subst hs; exact Or.inl rfl
  | play src _ _ _ he =>
    have : s' = (emitSrc s src).2 := by rw [← he]
    subst this; exact Or.inl (view_emitSrc s src)
  | gap _ _ _ _ hs => subst hs; exact Or.inl rfl
  | dry _ _ _ _ _ hs => subst hs; exact Or.inl rfl
  | start s1 src _ _ _ hn _ _ he =>
    have : s' = (emitSrc s1 src).2 := by rw [← he]
    subst this; exact Or.inr ⟨s1, hn, view_emitSrc s1 src⟩

/-- a tick raises only if `next_trial` does -/
theorem tick_ok_of {s : QState} (hw : WF s)
    (h : nextTrial (dropSrc s) = .ok none ∨ ∃ s1, nextTrial (dropSrc s) = .ok (some s1)) :
    ∃ r, tick s = .ok r := by
  have hwd : WF (dropSrc s) := ⟨by simpa [dropSrc] using hw.data, by simp [dropSrc]⟩
  have key : ∃ r, afterSource (dropSrc s) = .ok r := by
    unfold afterSource
    split
    · exact ⟨_, rfl⟩
    · rcases h with h | ⟨s1, hs1⟩
      · rw [h]; exact ⟨_, rfl⟩
      · obtain ⟨_, _, src, hsrc, hoff, hlen⟩ := nextTrial_WF hwd hs1
        have : src.off < src.len := by omega
        simp only [hs1, hsrc, this, if_true]
        exact ⟨_, rfl⟩
  unfold tick
  split
  · exact ⟨_, rfl⟩
  · split
    · split
      · exact ⟨_, rfl⟩
      · exact key
    · rename_i hsn
      have : dropSrc s = s := by cases s; simp_all [dropSrc]
      rw [this] at key; exact key

/-- **Generic run lemma.** `I m v`: invariant of the policy view with a budget `m` of oracle draws.
If `next_trial` never raises under `I (m+1)` and re-establishes `I m`, then `N` ticks from a state
with budget `m + N` never raise and end in a state satisfying `I m`. -/
theorem run_inv {I : Nat → PView → Prop}
    (mono : ∀ m v, I (m + 1) v → I m v)
    (step : ∀ m s, I (m + 1) (view s) →
      nextTrial s = .ok none ∨ ∃ s1, nextTrial s = .ok (some s1) ∧ I m (view s1))
    (N m : Nat) {s : QState} (hw : WF s) (hi : I (m + N) (view s)) :
    ∃ cs s', runTicks N s = .ok (cs, s') ∧ WF s' ∧ I m (view s') := by
  induction N generalizing s with
  | zero => exact ⟨[], s, rfl, hw, hi⟩
  | succ N ih =>
    have hi' : I (m + N + 1) (view (dropSrc s)) := hi
    have hst := step (m + N) (dropSrc s) hi'
    obtain ⟨⟨c, s1⟩, ht⟩ := tick_ok_of hw (by
      rcases hst with h | ⟨s1, h, _⟩
      · exact Or.inl h
      · exact Or.inr ⟨s1, h⟩)
    have hi1 : I (m + N) (view s1) := by
      rcases tick_view ht with hv | ⟨s2, hn, hv⟩
      · rw [hv]; exact mono _ _ hi
      · rcases hst with h | ⟨s3, h, hi3⟩
        · rw [h] at hn; simp at hn
        · rw [h] at hn
          simp only [Except.ok.injEq, Option.some.injEq] at hn
          subst hn; rw [hv]; exact hi3
    obtain ⟨cs, s2, hr, hw2, hi2⟩ := ih (tick_WF hw ht) hi1
    exact ⟨c :: cs, s2, by simp [runTicks, ht, hr], hw2, hi2⟩

/-- invariants without an oracle budget -/
theorem run_inv' {I : PView → Prop}
    (step : ∀ s, I (view s) → nextTrial s = .ok none ∨ ∃ s1, nextTrial s = .ok (some s1) ∧ I (view s1))
    (N : Nat) {s : QState} (hw : WF s) (hi : I (view s)) :
    ∃ cs s', runTicks N s = .ok (cs, s') ∧ WF s' ∧ I (view s') :=
  run_inv (I := fun _ v => I v) (fun _ _ h => h) (fun _ s h => step s h) N 0 hw hi

/-! ### `QueueEmptyError` ⇔ the policy is done -/

/-- the policy has no next key (`next_key` raises `QueueEmptyError`) -/
def Done (s : QState) : Prop :=
  match s.kind with
  | .fifo | .random | .grouped => s.ordering = []
  | .interleaved | .blockedRandom => s.complete = true

theorem nextKey_none_iff (s : QState) : nextKey s = .ok none ↔ Done s := by
  unfold nextKey Done
  cases hk : s.kind <;> simp only
  · cases ho : s.ordering <;> simp
  · cases hc : s.complete
    · simp only [Bool.false_eq_true, if_false, iff_false]
      split
      · simp
      · split <;> simp
    · simp
  · by_cases ho : s.ordering.length = 0
    · simp [List.length_eq_zero_iff.mp ho]
    · have : s.ordering ≠ [] := fun h => ho (by simp [h])
      simp only [ho, if_false, this, iff_false]
      split
      · simp
      · split <;> simp
  · cases hc : s.complete
    · simp only [Bool.false_eq_true, if_false, iff_false]
      split
      · simp
      · split
        · simp
        · split <;> simp
    · simp
  · by_cases ho : s.ordering.length = 0
    · simp [List.length_eq_zero_iff.mp ho]
    · have : s.ordering ≠ [] := fun h => ho (by simp [h])
      simp only [ho, if_false, this, iff_false]
      split
      · simp
      · split <;> simp

/-! ### One successful `next_trial`, given its `next_key` and `decrement_key` -/

/-- the data table after one trial of `k` was set up -/
def dataStep (d : List Entry) (k : Nat) : List Entry :=
  (setTrials d k (· - 1)).modify k (fun e => { e with dpos := e.dpos + 1 })

/-- every stimulus has a non-empty cycle of non-negative delays -/
def DelaysOK (d : List Entry) : Prop :=
  ∀ (i : Nat) (e : Entry), d[i]? = some e → e.delays ≠ [] ∧ ∀ x ∈ e.delays, 0 ≤ x

theorem dataStep_get (d : List Entry) (k k' : Nat) :
    (dataStep d k)[k']? =
      if k = k' then (d[k']?).map (fun e => { e with trials := e.trials - 1, dpos := e.dpos + 1 })
      else d[k']? := by
  unfold dataStep
  rw [List.getElem?_modify, setTrials_get]
  by_cases h : k = k'
  · subst h; cases d[k]? <;> simp
  · simp [h]

theorem dataStep_length (d : List Entry) (k : Nat) : (dataStep d k).length = d.length := by
  simp [dataStep, setTrials]

theorem trv_dataStep (d : List Entry) (k k' : Nat) (hk : k < d.length) :
    trv (dataStep d k) k' = if k' = k then trv d k' - 1 else trv d k' := by
  unfold trv
  rw [dataStep_get]
  by_cases h : k = k'
  · subst h
    simp [List.getElem?_eq_getElem hk]
  · have : ¬ k' = k := fun h' => h h'.symm
    simp [h, this]

theorem trv_setTrials (d : List Entry) (k k' : Nat) (hk : k < d.length) :
    trv (setTrials d k (· - 1)) k' = if k' = k then trv d k' - 1 else trv d k' := by
  unfold trv
  rw [setTrials_get]
  by_cases h : k = k'
  · subst h
    simp [List.getElem?_eq_getElem hk]
  · have : ¬ k' = k := fun h' => h h'.symm
    simp [h, this]

theorem DelaysOK_dataStep {d : List Entry} (h : DelaysOK d) (k : Nat) : DelaysOK (dataStep d k) := by
  intro i e he
  rw [dataStep_get] at he
  split at he
  · cases h0 : d[i]? with
    | none => simp [h0] at he
    | some e0 =>
      simp only [h0, Option.map_some, Option.some.injEq] at he
      subst he
      exact h i e0 h0
  · exact h i e he

/-- `next_trial` succeeds once `next_key` and `decrement_key` do, the key is a valid index and the
delays are well-formed; the new view is the view after `decrement_key` with the trial logged. -/
theorem nextTrial_ok {s sa sb : QState} {k : Nat}
    (hk : nextKey s = .ok (some (k, sa))) (hd : decrementKey sa k = .ok sb)
    (hv : k < s.data.length) (hdel : DelaysOK s.data) :
    ∃ s1, nextTrial s = .ok (some s1) ∧
      view s1 = { view s with data := dataStep s.data k, keys := (view s).keys ++ [k],
                              ordering := sb.ordering, complete := sb.complete,
                              cursor := sa.cursor, block := sa.block, draws := sa.draws,
                              perms := sa.perms } := by
  have f1 := nextKey_frame hk
  have f2 := decrementKey_frame hd
  have hsa : sa.data = s.data := by rw [f1]
  have he0 : sa.data[k]? = some s.data[k] := by rw [hsa]; exact List.getElem?_eq_getElem hv
  have hsb : sb.data = setTrials s.data k (· - 1) := by rw [f2]; simp only; rw [hsa]
  have hget : sb.data[k]? = some { s.data[k] with trials := s.data[k].trials - 1 } := by
    rw [hsb, setTrials_get]; simp [List.getElem?_eq_getElem hv]
  obtain ⟨hne, hd0⟩ := hdel k s.data[k] (List.getElem?_eq_getElem hv)
  have hlen : 0 < (s.data[k]).delays.length := List.length_pos_iff.mpr hne
  have hidx : (s.data[k]).dpos % (s.data[k]).delays.length < (s.data[k]).delays.length :=
    Nat.mod_lt _ hlen
  have hsucc : ∃ s1, nextTrial s = .ok (some s1) := by
    unfold nextTrial
    simp only [hk, he0, hd, hget]
    have h1 : ¬ (s.data[k]).delays.length = 0 := by omega
    simp only [h1, if_false, List.getElem?_eq_getElem hidx]
    have h2 : ¬ (s.data[k]).delays[(s.data[k]).dpos % (s.data[k]).delays.length] < 0 := by
      have := hd0 _ (List.getElem_mem hidx); omega
    simp only [h2, if_false]
    exact ⟨_, rfl⟩
  obtain ⟨s1, hs1⟩ := hsucc
  refine ⟨s1, hs1, ?_⟩
  obtain ⟨key, sa', sb', e', d, hk', hd', he', _, _, hs1eq⟩ := nextTrial_some hs1
  rw [hk] at hk'
  simp only [Except.ok.injEq, Option.some.injEq, Prod.mk.injEq] at hk'
  obtain ⟨rfl, rfl⟩ := hk'
  rw [hd] at hd'
  simp only [Except.ok.injEq] at hd'
  subst hd'
  rw [hs1eq]
  simp only [view, mkInfo, List.map_append, List.map_cons, List.map_nil, PView.mk.injEq,
    true_and]
  have g1 : sb.kind = s.kind := by rw [f2]; simp only; rw [f1]
  have g2 : sb.keep = s.keep := by rw [f2]; simp only; rw [f1]
  have g3 : sb.gsize = s.gsize := by rw [f2]; simp only; rw [f1]
  have g4 : sb.cursor = sa.cursor := by rw [f2]
  have g5 : sb.block = sa.block := by rw [f2]
  have g6 : sb.draws = sa.draws := by rw [f2]
  have g7 : sb.perms = sa.perms := by rw [f2]
  have g8 : sb.added = s.added := by rw [f2]; simp only; rw [f1]
  refine ⟨g1, g2, g3, ?_, g4, g5, g6, g7, by rw [g8]⟩
  rw [hsb]; rfl

end Psi.Queue
