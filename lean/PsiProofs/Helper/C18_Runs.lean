import PsiModel.Epochs
/-! Declarative characterisation of `maximalRuns` (so that the spec of `epochs` is not taken on faith). -/
namespace Psi.Epochs

/-- `[s, e)` is a maximal run of `true` in `x`. -/
def IsMaximalRun (x : List Bool) (s e : Nat) : Prop :=
  s < e ∧ e ≤ x.length ∧ (∀ i, s ≤ i → i < e → x[i]? = some true) ∧
  (s = 0 ∨ x[s - 1]? = some false) ∧ (e = x.length ∨ x[e]? = some false)

/-- invariant of the scan: what the open-run state means w.r.t. the samples already consumed -/
def ScanInv (x : List Bool) (pos : Nat) : Option Nat → Prop
  | none => pos = 0 ∨ x[pos - 1]? = some false
  | some s => s < pos ∧ (∀ i, s ≤ i → i < pos → x[i]? = some true) ∧ (s = 0 ∨ x[s - 1]? = some false)

theorem drop_cons_facts {x : List Bool} {pos : Nat} {b : Bool} {xs : List Bool}
    (h : x.drop pos = b :: xs) : x[pos]? = some b ∧ x.drop (pos + 1) = xs ∧ pos < x.length := by
  have h0 : (x.drop pos)[0]? = some b := by rw [h]; rfl
  rw [List.getElem?_drop] at h0
  have h1 : (x.drop pos).drop 1 = xs := by rw [h]; rfl
  rw [List.drop_drop] at h1
  refine ⟨by simpa using h0, by simpa [Nat.add_comm] using h1, ?_⟩
  have : (x.drop pos).length = xs.length + 1 := by rw [h]; rfl
  rw [List.length_drop] at this; omega

theorem runsAux_sound (x : List Bool) : ∀ (xs : List Bool) (pos : Nat) (cur : Option Nat),
    x.drop pos = xs → pos ≤ x.length → ScanInv x pos cur →
    ∀ p ∈ runsAux pos cur xs, IsMaximalRun x p.1 p.2 := by
  intro xs
  induction xs with
  | nil =>
    intro pos cur hd hle hinv p hp
    have hlen : pos = x.length := by
      have : (x.drop pos).length = 0 := by rw [hd]; rfl
      rw [List.length_drop] at this; omega
    cases cur with
    | none => simp [runsAux] at hp
    | some s =>
      simp [runsAux] at hp; subst hp
      obtain ⟨h1, h2, h3⟩ := hinv
      exact ⟨h1, by simp; omega, h2, h3, Or.inl hlen⟩
  | cons b xs ih =>
    intro pos cur hd hle hinv p hp
    obtain ⟨hb, hd', hlt⟩ := drop_cons_facts hd
    cases cur with
    | none =>
      cases b with
      | true =>
        simp only [runsAux] at hp
        refine ih (pos + 1) (some pos) hd' hlt ⟨by omega, ?_, ?_⟩ p hp
        · intro i h1 h2; have : i = pos := by omega
          subst this; exact hb
        · exact hinv
      | false =>
        simp only [runsAux] at hp
        exact ih (pos + 1) none hd' hlt (Or.inr (by simpa using hb)) p hp
    | some s =>
      obtain ⟨h1, h2, h3⟩ := hinv
      cases b with
      | true =>
        simp only [runsAux] at hp
        refine ih (pos + 1) (some s) hd' hlt ⟨by omega, ?_, h3⟩ p hp
        intro i hi1 hi2
        by_cases hip : i = pos
        · subst hip; exact hb
        · exact h2 i hi1 (by omega)
      | false =>
        simp only [runsAux, List.mem_cons] at hp
        rcases hp with hp | hp
        · subst hp
          exact ⟨h1, by simp; omega, h2, h3, Or.inr hb⟩
        · exact ih (pos + 1) none hd' hlt (Or.inr (by simpa using hb)) p hp

theorem runsAux_lower : ∀ (xs : List Bool) (pos : Nat),
    (∀ p ∈ runsAux pos none xs, pos ≤ p.1) ∧
    (∀ s, ∀ p ∈ runsAux pos (some s) xs, p.1 = s ∨ pos ≤ p.1) := by
  intro xs
  induction xs with
  | nil => intro pos; simp [runsAux]
  | cons b xs ih =>
    intro pos
    obtain ⟨ih1, ih2⟩ := ih (pos + 1)
    cases b
    · refine ⟨?_, ?_⟩
      · intro p hp; simp only [runsAux] at hp; have := ih1 p hp; omega
      · intro s p hp
        simp only [runsAux, List.mem_cons] at hp
        rcases hp with hp | hp
        · subst hp; exact Or.inl rfl
        · have := ih1 p hp; right; omega
    · refine ⟨?_, ?_⟩
      · intro p hp; simp only [runsAux] at hp
        rcases ih2 pos p hp with h | h <;> omega
      · intro s p hp; simp only [runsAux] at hp
        rcases ih2 s p hp with h | h
        · exact Or.inl h
        · right; omega

theorem runsAux_sorted : ∀ (xs : List Bool) (pos : Nat),
    (runsAux pos none xs).Pairwise (fun p q => p.2 < q.1) ∧
    (∀ s, (runsAux pos (some s) xs).Pairwise (fun p q => p.2 < q.1)) := by
  intro xs
  induction xs with
  | nil => intro pos; simp [runsAux]
  | cons b xs ih =>
    intro pos
    obtain ⟨ih1, ih2⟩ := ih (pos + 1)
    cases b
    · refine ⟨by simpa [runsAux] using ih1, ?_⟩
      intro s
      simp only [runsAux, List.pairwise_cons]
      refine ⟨?_, ih1⟩
      intro q hq
      have := (runsAux_lower xs (pos + 1)).1 q hq
      show pos < q.1
      omega
    · exact ⟨by simpa [runsAux] using ih2 pos, fun s => by simpa [runsAux] using ih2 s⟩

theorem runsAux_complete : ∀ (xs : List Bool) (pos : Nat),
    (∀ j, xs[j]? = some true → ∃ p ∈ runsAux pos none xs, p.1 ≤ pos + j ∧ pos + j < p.2) ∧
    (∀ s, s ≤ pos →
      (∃ p ∈ runsAux pos (some s) xs, p.1 = s ∧ pos ≤ p.2) ∧
      (∀ j, xs[j]? = some true → ∃ p ∈ runsAux pos (some s) xs, p.1 ≤ pos + j ∧ pos + j < p.2)) := by
  intro xs
  induction xs with
  | nil => intro pos; simp [runsAux]
  | cons b xs ih =>
    intro pos
    obtain ⟨ih1, ih2⟩ := ih (pos + 1)
    cases b
    · refine ⟨?_, ?_⟩
      · intro j hj
        cases j with
        | zero => simp at hj
        | succ j =>
          obtain ⟨p, hp, h1, h2⟩ := ih1 j (by simpa using hj)
          exact ⟨p, by simpa [runsAux] using hp, by omega, by omega⟩
      · intro s hs
        refine ⟨⟨(s, pos), by simp [runsAux], rfl, Nat.le_refl _⟩, ?_⟩
        intro j hj
        cases j with
        | zero => simp at hj
        | succ j =>
          obtain ⟨p, hp, h1, h2⟩ := ih1 j (by simpa using hj)
          exact ⟨p, by simp [runsAux, hp], by omega, by omega⟩
    · refine ⟨?_, ?_⟩
      · intro j hj
        obtain ⟨⟨p0, hp0, h01, h02⟩, hrest⟩ := ih2 pos (by omega)
        cases j with
        | zero => exact ⟨p0, by simpa [runsAux] using hp0, by omega, by omega⟩
        | succ j =>
          obtain ⟨p, hp, h1, h2⟩ := hrest j (by simpa using hj)
          exact ⟨p, by simpa [runsAux] using hp, by omega, by omega⟩
      · intro s hs
        obtain ⟨⟨p0, hp0, h01, h02⟩, hrest⟩ := ih2 s (by omega)
        refine ⟨⟨p0, by simpa [runsAux] using hp0, h01, by omega⟩, ?_⟩
        intro j hj
        cases j with
        | zero => exact ⟨p0, by simpa [runsAux] using hp0, by omega, by omega⟩
        | succ j =>
          obtain ⟨p, hp, h1, h2⟩ := hrest j (by simpa using hj)
          exact ⟨p, by simpa [runsAux] using hp, by omega, by omega⟩

end Psi.Epochs
