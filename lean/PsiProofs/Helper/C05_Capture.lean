import PsiModel.Extract
/-! Helper lemmas for C05: slices of a stream, and the capture coroutine fed with
consecutive slices. -/
namespace Psi.Extract

/-- `stream[a, a+n)` -/
def slice {α} (S : List α) (a n : Nat) : List α := (S.drop a).take n

theorem slice_length {α} (S : List α) (a n : Nat) (h : a + n ≤ S.length) :
    (slice S a n).length = n := by
  simp [slice]; omega

theorem slice_append {α} (S : List α) (a m k : Nat) :
    slice S a m ++ slice S (a + m) k = slice S a (m + k) := by
  simp only [slice]
  rw [List.take_add, List.drop_drop]

theorem slice_drop_take {α} (S : List α) (T n i d : Nat) :
    ((slice S T n).drop i).take d = slice S (T + i) (min d (n - i)) := by
  simp only [slice]
  rw [List.drop_take, List.take_take, List.drop_drop]

/-- Invariant of a suspended capture coroutine for request `r`, with respect to the whole
stream `S` and the position `T` of the next chunk: it holds exactly `S[s, currentS0)`. -/
def CapInv {α} (S : List α) (T : Nat) (c : Capture α) : Prop :=
  ∃ s got : Nat, c.req.s = (s : Int) ∧ got + c.remaining = c.req.len ∧
    c.currentS0 = ((s + got : Nat) : Int) ∧ c.acc.flatten = slice S s got ∧ T ≤ s + got

/-- The epoch the property asks for. -/
def epochOf {α} (S : List α) (r : Request) : Epoch α :=
  { req := r, missed := false, data := slice S r.s.toNat r.len }

theorem capInv_new {α} (S : List α) (T : Nat) (r : Request) (s : Nat) (hs : r.s = (s : Int)) (h : T ≤ s) :
    CapInv S T (Capture.new r : Capture α) := by
  refine ⟨s, 0, hs, ?_, ?_, ?_, ?_⟩ <;> simp [Capture.new, slice, hs]; exact h

theorem feed_spec {α} (S : List α) (T n : Nat) (ch : List α) (c : Capture α)
    (hch : ch = slice S T n) (hn : ch.length = n) (hc : CapInv S T c) :
    (c.req.s.toNat + c.req.len ≤ T + n → c.feed T ch = .stop (epochOf S c.req)) ∧
    (T + n < c.req.s.toNat + c.req.len →
      ∃ c', c.feed T ch = .more c' ∧ c'.req = c.req ∧ CapInv S (T + n) c') := by
  obtain ⟨s, got, hs, hrem, hcur, hacc, hT⟩ := hc
  have hsn : c.req.s.toNat = s := by omega
  rw [hsn]
  constructor
  · intro hle
    unfold Capture.feed
    have h1 : ¬ c.currentS0 < (T : Int) := by omega
    have h2 : c.currentS0 ≤ ((T + ch.length : Nat) : Int) := by omega
    simp only [h1, h2, if_true, if_false]
    have hi : (c.currentS0 - (T : Int)).toNat = s + got - T := by omega
    have hd : c.remaining - min c.remaining (ch.length - (c.currentS0 - (T : Int)).toNat) = 0 := by omega
    simp only [hd, if_true]
    congr 1
    simp only [epochOf, List.flatten_append, List.flatten_cons, List.flatten_nil, List.append_nil, hacc, hi, hsn]
    rw [hch, slice_drop_take]
    have e1 : T + (s + got - T) = s + got := by omega
    have e2 : min (min c.remaining ((slice S T n).length - (s + got - T))) (n - (s + got - T)) = c.remaining := by
      rw [← hch, hn]; omega
    rw [e1, e2, slice_append, hrem]
  · intro hlt
    unfold Capture.feed
    have h1 : ¬ c.currentS0 < (T : Int) := by omega
    simp only [h1, if_false]
    by_cases h2 : c.currentS0 ≤ ((T + ch.length : Nat) : Int)
    · simp only [h2, if_true]
      have hi : (c.currentS0 - (T : Int)).toNat = s + got - T := by omega
      have hd : ¬ (c.remaining - min c.remaining (ch.length - (c.currentS0 - (T : Int)).toNat) = 0) := by omega
      simp only [hd, if_false]
      refine ⟨_, rfl, rfl, s, got + (n - (s + got - T)), hs, ?_, ?_, ?_, ?_⟩
      · simp only [hi]; omega
      · simp only [hi]; omega
      · simp only [List.flatten_append, List.flatten_cons, List.flatten_nil, List.append_nil, hacc, hi]
        rw [hch, slice_drop_take]
        have e1 : T + (s + got - T) = s + got := by omega
        have e2 : min (min c.remaining ((slice S T n).length - (s + got - T))) (n - (s + got - T)) = n - (s + got - T) := by
          rw [← hch, hn]; omega
        rw [e1, e2, slice_append]
      · omega
    · simp only [h2, if_false]
      exact ⟨c, rfl, rfl, s, got, hs, hrem, hcur, hacc, by omega⟩

/-- `l` is a list of consecutive slices of `S` covering `[a, b)`, each tagged with its start. -/
def Contig {α} (S : List α) : Nat → List (Nat × List α) → Nat → Prop
  | a, [], b => a = b
  | a, (st, ch) :: rest, b => st = a ∧ ch = slice S a ch.length ∧ Contig S (a + ch.length) rest b

theorem contig_append {α} (S : List α) (a b c : Nat) (l m : List (Nat × List α))
    (h1 : Contig S a l b) (h2 : Contig S b m c) : Contig S a (l ++ m) c := by
  induction l generalizing a with
  | nil => simp only [Contig] at h1; subst h1; simpa using h2
  | cons x xs ih =>
    obtain ⟨st, ch⟩ := x
    simp only [Contig, List.cons_append] at h1 ⊢
    exact ⟨h1.1, h1.2.1, ih _ h1.2.2⟩

theorem replay_more {α} (S : List α) (a b : Nat) (prior : List (Nat × List α)) (c : Capture α)
    (hp : Contig S a prior b) (hc : CapInv S a c) (hlt : b < c.req.s.toNat + c.req.len) :
    ∃ c', replay c prior = .more c' ∧ c'.req = c.req ∧ CapInv S b c' := by
  induction prior generalizing a c with
  | nil => simp only [Contig] at hp; subst hp; exact ⟨c, rfl, rfl, hc⟩
  | cons x xs ih =>
    obtain ⟨st, ch⟩ := x
    simp only [Contig] at hp
    obtain ⟨rfl, hch, hrest⟩ := hp
    have hb : st + ch.length ≤ b ∨ True := Or.inr trivial
    by_cases hcase : st + ch.length < c.req.s.toNat + c.req.len
    · obtain ⟨c1, hf, hr1, hi1⟩ := (feed_spec S st ch.length ch c hch rfl hc).2 hcase
      obtain ⟨c', h1, h2, h3⟩ := ih (st + ch.length) c1 hrest hi1 (by rw [hr1]; exact hlt)
      exact ⟨c', by simp only [replay, hf]; exact h1, by rw [h2, hr1], h3⟩
    · -- the chunk would complete the epoch: impossible, `b` is at least its end
      exfalso
      have : st + ch.length ≤ b := by
        clear ih hcase hlt hc hch
        generalize st + ch.length = a' at hrest
        induction xs generalizing a' with
        | nil => simp only [Contig] at hrest; omega
        | cons y ys ih2 =>
          obtain ⟨st2, ch2⟩ := y
          simp only [Contig] at hrest
          have := ih2 _ hrest.2.2
          omega
      omega

theorem contig_le {α} (S : List α) (a b : Nat) (l : List (Nat × List α)) (h : Contig S a l b) : a ≤ b := by
  induction l generalizing a with
  | nil => simp only [Contig] at h; omega
  | cons y ys ih =>
    obtain ⟨st2, ch2⟩ := y
    simp only [Contig] at h
    have := ih _ h.2.2
    omega

theorem replay_stop {α} (S : List α) (a b : Nat) (prior : List (Nat × List α)) (c : Capture α)
    (hne : prior ≠ []) (hp : Contig S a prior b) (hc : CapInv S a c)
    (hle : c.req.s.toNat + c.req.len ≤ b) :
    replay c prior = .stop (epochOf S c.req) := by
  induction prior generalizing a c with
  | nil => exact absurd rfl hne
  | cons x xs ih =>
    obtain ⟨st, ch⟩ := x
    simp only [Contig] at hp
    obtain ⟨rfl, hch, hrest⟩ := hp
    by_cases hcase : c.req.s.toNat + c.req.len ≤ st + ch.length
    · have hf := (feed_spec S st ch.length ch c hch rfl hc).1 hcase
      simp only [replay, hf]
    · obtain ⟨c1, hf, hr1, hi1⟩ := (feed_spec S st ch.length ch c hch rfl hc).2 (by omega)
      simp only [replay, hf]
      cases xs with
      | nil => simp only [Contig] at hrest; omega
      | cons y ys =>
        have := ih (st + ch.length) c1 (by simp) hrest hi1 (by rw [hr1]; exact hle)
        rw [this, hr1]

end Psi.Extract
