import PsiModel.Buffer
/-!
C14 helper: every operation of the buffer model commutes with a cell-wise map.
With `α := ` a column of per-channel values and `f := ` the projection on one channel this
says that a multichannel buffer behaves, channel by channel, like a one-channel buffer.
-/
namespace Psi.Buffer

variable {α β : Type} (f : α → β)

@[simp] theorem State.map_cap (s : State α) : (s.map f).cap = s.cap := rfl
@[simp] theorem State.map_samples (s : State α) : (s.map f).samples = s.samples := rfl
@[simp] theorem State.map_ilb (s : State α) : (s.map f).ilb = s.ilb := rfl
@[simp] theorem State.map_buf (s : State α) : (s.map f).buf = s.buf.map f := rfl
@[simp] theorem State.map_fillv (s : State α) : (s.map f).fillv = f s.fillv := rfl
@[simp] theorem State.map_nanv (s : State α) : (s.map f).nanv = f s.nanv := rfl

theorem map_init (cap : Nat) (a n : α) : (init cap a n).map f = init cap (f a) (f n) := by
  simp [init, State.map]

theorem map_pySlice (l : List α) (a b : Int) : (pySlice l a b).map f = pySlice (l.map f) a b := by
  simp [pySlice, List.map_drop, List.map_take]

theorem map_rangeSamples (s : State α) (lb ub : Int) :
    (rangeSamples s lb ub).map (List.map f) = rangeSamples (s.map f) lb ub := by
  simp only [rangeSamples, toIndex, State.map_cap, State.map_samples, State.map_ilb, State.map_buf]
  by_cases c1 : lb - ↑s.samples + ↑s.cap < (s.ilb : Int)
  · simp [c1, Except.map]
  · by_cases c2 : ub - ↑s.samples + ↑s.cap > (s.cap : Int)
    · simp [c1, c2, Except.map]
    · simp [c1, c2, Except.map, map_pySlice]

theorem map_rangeFilled (s : State α) (a b : Int) (fill : α) :
    (rangeFilled s a b fill).map (List.map f) = rangeFilled (s.map f) a b (f fill) := by
  simp only [rangeFilled, samplesLb, samplesUb, State.map_cap, State.map_samples, State.map_ilb]
  rw [← map_rangeSamples]
  cases rangeSamples s _ _ <;> simp [Except.map]

theorem map_latest (s : State α) (a b : Int) (fill : Option α) :
    (latest s a b fill).map (List.map f) = latest (s.map f) a b (fill.map f) := by
  cases fill with
  | none => simp only [latest, Option.map, samplesUb, State.map_samples]; exact map_rangeSamples f s _ _
  | some x => simp only [latest, Option.map, samplesUb, State.map_samples]; exact map_rangeFilled f s _ _ x

theorem map_append (s : State α) (xs : List α) :
    (append s xs).map f = append (s.map f) (xs.map f) := by
  simp only [append, List.length_map, State.map_cap]
  split <;> simp [State.map, List.map_drop]

theorem map_invalidateIdx (s : State α) (i : Int) :
    (invalidateIdx s i).map f = invalidateIdx (s.map f) i := by
  unfold invalidateIdx
  by_cases h : i ≤ (s.ilb : Int)
  · simp [h, State.map]
  · simp [h, State.map, List.map_take]

theorem map_invalidateSamples (s : State α) (i : Nat) :
    (invalidateSamples s i).map f = invalidateSamples (s.map f) i := by
  unfold invalidateSamples
  by_cases h : i ≥ s.samples
  · simp [h]
  · have e : toIndex (s.map f) i = toIndex s i := rfl
    simp only [h, State.map_samples, if_false, e, ← map_invalidateIdx]
    rfl

theorem map_resizeE (s : State α) (c : Nat) :
    (resizeE s c).map (State.map f) = resizeE (s.map f) c := by
  have h := map_latest f s (-(c : Int)) 0 (some s.fillv)
  simp only [Option.map] at h
  unfold resizeE
  rw [State.map_fillv, ← h]
  generalize latest s (-(c : Int)) 0 (some s.fillv) = r
  cases r <;> simp [Except.map, State.map]

theorem map_resize (s : State α) (c : Nat) : (resize s c).map f = resize (s.map f) c := by
  have h := map_resizeE f s c
  unfold resize
  rw [← h]
  generalize resizeE s c = r
  cases r <;> rfl

theorem map_step (s : State α) (op : Op α) : (step s op).map f = step (s.map f) (op.map f) := by
  cases op with
  | append xs => exact map_append f s xs
  | invalidate i => exact map_invalidateSamples f s i
  | resize c => exact map_resize f s c

theorem map_run (s : State α) (ops : List (Op α)) :
    (run s ops).map f = run (s.map f) (ops.map (Op.map f)) := by
  induction ops generalizing s with
  | nil => rfl
  | cons op ops ih => simp only [run, List.foldl_cons, List.map_cons] at ih ⊢; rw [ih, map_step]

end Psi.Buffer
