import PsiProofs.Helper.C11_Split
/-! Split + concat on each axis of one-, two- and three-dimensional arrays (the six cases of `concat_split`). -/
set_option linter.unusedSimpArgs false
namespace Psi.PData

/-- the index expression that slices axis `dim` of an `nd`-dimensional array with `s`:
`x[..., s]` (time), `x[s]` / `x[:, s]` (channel of a 2-D / 3-D array), `x[s]` (epoch). -/
def cutIndex (nd : Nat) (dim : Dim) (s : PySlice) : Index :=
  match dim, nd with
  | .time, _ => .tuple [.ellipsis, .slice s]
  | .channel, 3 => .tuple [.slice .all, .slice s]
  | .channel, _ => .one (.slice s)
  | .epoch, _ => .one (.slice s)

/-- length of the axis `dim` (`n_time`, `shape[-2]`, `shape[-3]`). -/
def axisLen (a : PD) : Dim → Nat
  | .time => a.nTime
  | .channel => shapeM2 a.shape
  | .epoch => shapeM3 a.shape

theorem cutSlices_pieces {β} (n : Nat) (ks : List Int) (mk : Nat × Nat → β) :
    (cutSlices ks).map (fun s => mk (startNat s n, stopNat s n)) = (pieceBounds 0 (ks.map (cutNat n)) n).map mk := by
  have := cutSlices_bounds n ks none
  simp only at this
  rw [← this, List.map_map]; rfl

theorem cart_std1r (n : Nat) : cart [List.range n] = List.range n := cart_single _
theorem cart_std2r (c n : Nat) : cart [axis c n, List.range n] = List.range (c * n) := by rw [← axis_one, cart_std2]
theorem cart_std3r (e c n : Nat) : cart [axis e (c * n), axis c n, List.range n] = List.range (e * (c * n)) := by
  rw [← axis_one, cart_std3]

theorem split_t1 (n : Nat) (data : List Nat) (s0 : Int) (fs : Rat) (lab : Label) (m : Md) (hd : data.length = n) (ks : List Int)
    (hs : (ks.map (clampPos · n)).Pairwise (· ≤ ·)) :
    ∃ pieces, (cutSlices ks).mapM (fun s => getArr Fixes.all ⟨[n], data, s0, fs, .one lab, .one m⟩ (cutIndex 1 .time s)) = .ok pieces ∧
      concat pieces .time = .ok ⟨[n], data, s0, fs, .one lab, .one m⟩ := by
  let a : PD := ⟨[n], data, s0, fs, .one lab, .one m⟩
  let mk := fun p : Nat × Nat => slab [] [] [] [] 1 a (List.range' p.1 (p.2 - p.1))
    (s0 + p.1) (((fun _ => .one lab) : List Nat → Chan) (List.range' p.1 (p.2 - p.1))) (((fun _ => .one m) : List Nat → Meta) (List.range' p.1 (p.2 - p.1)))
  have hget : ∀ s ∈ cutSlices ks, getArr Fixes.all a (cutIndex 1 .time s) = .ok (mk (startNat s n, stopNat s n)) := by
    intro s hs
    have hstep := cutSlices_step ks none s hs
    have h := slice_t1 data s0 fs s _ n lab m hstep (slicePositions_unit s n (by simp [hstep]))
    simp only [getitem] at h
    simp only [getArr, cutIndex, a, h]
    simp [mk, slab, timeS0, a]
  have hc := chainOK_of_sorted n ks 0 (Nat.zero_le _) (fun _ _ => Nat.zero_le _) hs
  refine ⟨_, mapM_eq_map _ _ _ hget, ?_⟩
  rw [cutSlices_pieces n ks mk]
  have core := split_concat_core .time 1 [] [] [] [] 1 a (by simp [axis_length]) (by simp [axis_length]) rfl
    (by simp [Dim.k]) n (fun x => s0 + x) (fun _ => .one lab) (fun _ => .one m)
    (by
      intro p h1 h2
      have hlt : ∀ q ∈ List.range' p.1 (p.2 - p.1), q < n := by
        intro q hq; simp only [List.mem_range'_1] at hq; omega
      exact WF.d1 _ _ _ _ _ _ (by simp [pick, cart_length, prod_cons, prod_nil, axis_length]))
    rfl (fun h x => by first | simp | cases h) (fun h => by first | exact absurd rfl h | (intro ps; rfl)) (fun h => by first | exact absurd rfl h | (intro ps; rfl)) (ks.map (cutNat n)) hc
  simp only at core
  rw [core]
  simp [construct, a, map_mul_range, cart_std1r, pick_range data _ hd]
  cases lab <;> rfl

theorem split_t2 (c n : Nat) (data : List Nat) (s0 : Int) (fs : Rat) (l : List Label) (m : Md) (hd : data.length = c * n) (hl : l.length = c) (ks : List Int)
    (hs : (ks.map (clampPos · n)).Pairwise (· ≤ ·)) :
    ∃ pieces, (cutSlices ks).mapM (fun s => getArr Fixes.all ⟨[c, n], data, s0, fs, .many l, .one m⟩ (cutIndex 2 .time s)) = .ok pieces ∧
      concat pieces .time = .ok ⟨[c, n], data, s0, fs, .many l, .one m⟩ := by
  let a : PD := ⟨[c, n], data, s0, fs, .many l, .one m⟩
  let mk := fun p : Nat × Nat => slab [c] [] [axis c n] [] 1 a (List.range' p.1 (p.2 - p.1))
    (s0 + p.1) (((fun _ => .many l) : List Nat → Chan) (List.range' p.1 (p.2 - p.1))) (((fun _ => .one m) : List Nat → Meta) (List.range' p.1 (p.2 - p.1)))
  have hget : ∀ s ∈ cutSlices ks, getArr Fixes.all a (cutIndex 2 .time s) = .ok (mk (startNat s n, stopNat s n)) := by
    intro s hs
    have hstep := cutSlices_step ks none s hs
    have h := slice_t2 data s0 fs s _ c n l m hstep (slicePositions_unit s n (by simp [hstep]))
    simp only [getitem] at h
    simp only [getArr, cutIndex, a, h]
    simp [mk, slab, timeS0, a]
  have hc := chainOK_of_sorted n ks 0 (Nat.zero_le _) (fun _ _ => Nat.zero_le _) hs
  refine ⟨_, mapM_eq_map _ _ _ hget, ?_⟩
  rw [cutSlices_pieces n ks mk]
  have core := split_concat_core .time 2 [c] [] [axis c n] [] 1 a (by simp [axis_length]) (by simp [axis_length]) rfl
    (by simp [Dim.k]) n (fun x => s0 + x) (fun _ => .many l) (fun _ => .one m)
    (by
      intro p h1 h2
      have hlt : ∀ q ∈ List.range' p.1 (p.2 - p.1), q < n := by
        intro q hq; simp only [List.mem_range'_1] at hq; omega
      exact WF.d2 c _ _ _ _ _ _ (by simp [pick, cart_length, prod_cons, prod_nil, axis_length]) hl)
    rfl (fun h x => by first | simp | cases h) (fun h => by first | exact absurd rfl h | (intro ps; rfl)) (fun h => by first | exact absurd rfl h | (intro ps; rfl)) (ks.map (cutNat n)) hc
  simp only at core
  rw [core]
  simp [construct, shapeM2, hl, a, map_mul_range, cart_std2r, pick_range data _ hd]

theorem split_t3 (e c n : Nat) (data : List Nat) (s0 : Int) (fs : Rat) (l : List Label) (ms : List Md) (hd : data.length = e * (c * n)) (hl : l.length = c) (hm : ms.length = e) (ks : List Int)
    (hs : (ks.map (clampPos · n)).Pairwise (· ≤ ·)) :
    ∃ pieces, (cutSlices ks).mapM (fun s => getArr Fixes.all ⟨[e, c, n], data, s0, fs, .many l, .many ms⟩ (cutIndex 3 .time s)) = .ok pieces ∧
      concat pieces .time = .ok ⟨[e, c, n], data, s0, fs, .many l, .many ms⟩ := by
  let a : PD := ⟨[e, c, n], data, s0, fs, .many l, .many ms⟩
  let mk := fun p : Nat × Nat => slab [e, c] [] [axis e (c * n), axis c n] [] 1 a (List.range' p.1 (p.2 - p.1))
    (s0 + p.1) (((fun _ => .many l) : List Nat → Chan) (List.range' p.1 (p.2 - p.1))) (((fun _ => .many ms) : List Nat → Meta) (List.range' p.1 (p.2 - p.1)))
  have hget : ∀ s ∈ cutSlices ks, getArr Fixes.all a (cutIndex 3 .time s) = .ok (mk (startNat s n, stopNat s n)) := by
    intro s hs
    have hstep := cutSlices_step ks none s hs
    have h := slice_t3 data s0 fs s _ e c n l ms hstep (slicePositions_unit s n (by simp [hstep]))
    simp only [getitem] at h
    simp only [getArr, cutIndex, a, h]
    simp [mk, slab, timeS0, a]
  have hc := chainOK_of_sorted n ks 0 (Nat.zero_le _) (fun _ _ => Nat.zero_le _) hs
  refine ⟨_, mapM_eq_map _ _ _ hget, ?_⟩
  rw [cutSlices_pieces n ks mk]
  have core := split_concat_core .time 3 [e, c] [] [axis e (c * n), axis c n] [] 1 a (by simp [axis_length]) (by simp [axis_length]) rfl
    (by simp [Dim.k]) n (fun x => s0 + x) (fun _ => .many l) (fun _ => .many ms)
    (by
      intro p h1 h2
      have hlt : ∀ q ∈ List.range' p.1 (p.2 - p.1), q < n := by
        intro q hq; simp only [List.mem_range'_1] at hq; omega
      exact WF.d3 e c _ _ _ _ _ _ (by simp [pick, cart_length, prod_cons, prod_nil, axis_length]) hl hm)
    rfl (fun h x => by first | simp | cases h) (fun h => by first | exact absurd rfl h | (intro ps; rfl)) (fun h => by first | exact absurd rfl h | (intro ps; rfl)) (ks.map (cutNat n)) hc
  simp only at core
  rw [core]
  simp [construct, shapeM2, shapeM3, hl, hm, a, map_mul_range, cart_std3r, pick_range data _ hd]

theorem split_c2 (c n : Nat) (data : List Nat) (s0 : Int) (fs : Rat) (l : List Label) (m : Md) (hd : data.length = c * n) (hl : l.length = c) (ks : List Int)
    (hs : (ks.map (clampPos · c)).Pairwise (· ≤ ·)) :
    ∃ pieces, (cutSlices ks).mapM (fun s => getArr Fixes.all ⟨[c, n], data, s0, fs, .many l, .one m⟩ (cutIndex 2 .channel s)) = .ok pieces ∧
      concat pieces .channel = .ok ⟨[c, n], data, s0, fs, .many l, .one m⟩ := by
  let a : PD := ⟨[c, n], data, s0, fs, .many l, .one m⟩
  let mk := fun p : Nat × Nat => slab [] [n] [] [axis n 1] n a (List.range' p.1 (p.2 - p.1))
    (s0) (((fun ps => .many (listTake l ps)) : List Nat → Chan) (List.range' p.1 (p.2 - p.1))) (((fun _ => .one m) : List Nat → Meta) (List.range' p.1 (p.2 - p.1)))
  have hget : ∀ s ∈ cutSlices ks, getArr Fixes.all a (cutIndex 2 .channel s) = .ok (mk (startNat s c, stopNat s c)) := by
    intro s hs
    have hstep := cutSlices_step ks none s hs
    have h := slice_c2 data s0 fs s _ c n l m hl (slicePositions_unit s c (by simp [hstep]))
    simp only [getitem] at h
    simp only [getArr, cutIndex, a, h]
    simp [mk, slab, timeS0, a]
  have hc := chainOK_of_sorted c ks 0 (Nat.zero_le _) (fun _ _ => Nat.zero_le _) hs
  refine ⟨_, mapM_eq_map _ _ _ hget, ?_⟩
  rw [cutSlices_pieces c ks mk]
  have core := split_concat_core .channel 2 [] [n] [] [axis n 1] n a (by simp [axis_length]) (by simp [axis_length]) rfl
    (by simp [Dim.k]) c (fun _ => s0) (fun ps => .many (listTake l ps)) (fun _ => .one m)
    (by
      intro p h1 h2
      have hlt : ∀ q ∈ List.range' p.1 (p.2 - p.1), q < c := by
        intro q hq; simp only [List.mem_range'_1] at hq; omega
      exact WF.d2 _ n _ _ _ _ _ (by simp [pick, cart_length, prod_cons, prod_nil, axis_length]) (by simp [listTake_length l _ (hl ▸ hlt)]))
    rfl (fun h x => by first | simp | cases h) (fun h => by first | exact absurd rfl h | (intro ps; rfl)) (fun h => by first | exact absurd rfl h | (intro ps; rfl)) (ks.map (cutNat c)) hc
  simp only at core
  rw [core]
  have htl := tile_listTake l (fun p => chanList (mk p)) (fun p => rfl) _ c hc
  simp only [mk, Function.comp_def, List.map_map] at htl ⊢
  rw [htl, ← hl, listTake_range'_all]
  have hall : ∀ q ∈ List.range l.length, q < l.length := by intro q hq; simpa using hq
  subst hl
  simp [construct, shapeM2, a, map_mul_range, cart_std2, pick_range data _ hd, listTake_length l _ hall]

theorem split_c3 (e c n : Nat) (data : List Nat) (s0 : Int) (fs : Rat) (l : List Label) (ms : List Md) (hd : data.length = e * (c * n)) (hl : l.length = c) (hm : ms.length = e) (ks : List Int)
    (hs : (ks.map (clampPos · c)).Pairwise (· ≤ ·)) :
    ∃ pieces, (cutSlices ks).mapM (fun s => getArr Fixes.all ⟨[e, c, n], data, s0, fs, .many l, .many ms⟩ (cutIndex 3 .channel s)) = .ok pieces ∧
      concat pieces .channel = .ok ⟨[e, c, n], data, s0, fs, .many l, .many ms⟩ := by
  let a : PD := ⟨[e, c, n], data, s0, fs, .many l, .many ms⟩
  let mk := fun p : Nat × Nat => slab [e] [n] [axis e (c * n)] [axis n 1] n a (List.range' p.1 (p.2 - p.1))
    (s0) (((fun ps => .many (listTake l ps)) : List Nat → Chan) (List.range' p.1 (p.2 - p.1))) (((fun _ => .many ms) : List Nat → Meta) (List.range' p.1 (p.2 - p.1)))
  have hget : ∀ s ∈ cutSlices ks, getArr Fixes.all a (cutIndex 3 .channel s) = .ok (mk (startNat s c, stopNat s c)) := by
    intro s hs
    have hstep := cutSlices_step ks none s hs
    have h := slice_c3 data s0 fs s _ e c n l ms hl (slicePositions_unit s c (by simp [hstep]))
    simp only [getitem] at h
    simp only [getArr, cutIndex, a, h]
    simp [mk, slab, timeS0, a]
  have hc := chainOK_of_sorted c ks 0 (Nat.zero_le _) (fun _ _ => Nat.zero_le _) hs
  refine ⟨_, mapM_eq_map _ _ _ hget, ?_⟩
  rw [cutSlices_pieces c ks mk]
  have core := split_concat_core .channel 3 [e] [n] [axis e (c * n)] [axis n 1] n a (by simp [axis_length]) (by simp [axis_length]) rfl
    (by simp [Dim.k]) c (fun _ => s0) (fun ps => .many (listTake l ps)) (fun _ => .many ms)
    (by
      intro p h1 h2
      have hlt : ∀ q ∈ List.range' p.1 (p.2 - p.1), q < c := by
        intro q hq; simp only [List.mem_range'_1] at hq; omega
      exact WF.d3 e _ n _ _ _ _ _ (by simp [pick, cart_length, prod_cons, prod_nil, axis_length]) (by simp [listTake_length l _ (hl ▸ hlt)]) hm)
    rfl (fun h x => by first | simp | cases h) (fun h => by first | exact absurd rfl h | (intro ps; rfl)) (fun h => by first | exact absurd rfl h | (intro ps; rfl)) (ks.map (cutNat c)) hc
  simp only at core
  rw [core]
  have htl := tile_listTake l (fun p => chanList (mk p)) (fun p => rfl) _ c hc
  simp only [mk, Function.comp_def, List.map_map] at htl ⊢
  rw [htl, ← hl, listTake_range'_all]
  subst hl
  simp [construct, shapeM2, shapeM3, hm, a, map_mul_range, cart_std3, pick_range data _ hd]

theorem split_e3 (e c n : Nat) (data : List Nat) (s0 : Int) (fs : Rat) (l : List Label) (ms : List Md) (hd : data.length = e * (c * n)) (hl : l.length = c) (hm : ms.length = e) (ks : List Int)
    (hs : (ks.map (clampPos · e)).Pairwise (· ≤ ·)) :
    ∃ pieces, (cutSlices ks).mapM (fun s => getArr Fixes.all ⟨[e, c, n], data, s0, fs, .many l, .many ms⟩ (cutIndex 3 .epoch s)) = .ok pieces ∧
      concat pieces .epoch = .ok ⟨[e, c, n], data, s0, fs, .many l, .many ms⟩ := by
  let a : PD := ⟨[e, c, n], data, s0, fs, .many l, .many ms⟩
  let mk := fun p : Nat × Nat => slab [] [c, n] [] [axis c n, axis n 1] (c * n) a (List.range' p.1 (p.2 - p.1))
    (s0) (((fun _ => .many l) : List Nat → Chan) (List.range' p.1 (p.2 - p.1))) (((fun ps => .many (listTake ms ps)) : List Nat → Meta) (List.range' p.1 (p.2 - p.1)))
  have hget : ∀ s ∈ cutSlices ks, getArr Fixes.all a (cutIndex 3 .epoch s) = .ok (mk (startNat s e, stopNat s e)) := by
    intro s hs
    have hstep := cutSlices_step ks none s hs
    have h := slice_e3 data s0 fs s _ e c n l ms hm (slicePositions_unit s e (by simp [hstep]))
    simp only [getitem] at h
    simp only [getArr, cutIndex, a, h]
    simp [mk, slab, timeS0, a]
  have hc := chainOK_of_sorted e ks 0 (Nat.zero_le _) (fun _ _ => Nat.zero_le _) hs
  refine ⟨_, mapM_eq_map _ _ _ hget, ?_⟩
  rw [cutSlices_pieces e ks mk]
  have core := split_concat_core .epoch 3 [] [c, n] [] [axis c n, axis n 1] (c * n) a (by simp [axis_length]) (by simp [axis_length]) rfl
    (by simp [Dim.k]) e (fun _ => s0) (fun _ => .many l) (fun ps => .many (listTake ms ps))
    (by
      intro p h1 h2
      have hlt : ∀ q ∈ List.range' p.1 (p.2 - p.1), q < e := by
        intro q hq; simp only [List.mem_range'_1] at hq; omega
      exact WF.d3 _ c n _ _ _ _ _ (by simp [pick, cart_length, prod_cons, prod_nil, axis_length]) hl (by simp [listTake_length ms _ (hm ▸ hlt)]))
    rfl (fun h x => by first | simp | cases h) (fun h => by first | exact absurd rfl h | (intro ps; rfl)) (fun h => by first | exact absurd rfl h | (intro ps; rfl)) (ks.map (cutNat e)) hc
  simp only at core
  rw [core]
  have htl := tile_listTake ms (fun p => metaList (mk p)) (fun p => rfl) _ e hc
  simp only [mk, Function.comp_def, List.map_map] at htl ⊢
  rw [htl, ← hm, listTake_range'_all]
  subst hm
  simp [construct, shapeM2, shapeM3, hl, a, map_mul_range, cart_std3, pick_range data _ hd]

/-! ### `concat` of arbitrary adjacent pieces -/

theorem blocks_eq (L : Nat) : ∀ (outer : Nat) (d : List Nat),
    blocks L outer d = (List.range outer).map fun i => (d.drop (i * L)).take L
  | 0, _ => rfl
  | k + 1, d => by
    simp only [blocks]
    split
    · rename_i h0; subst h0
      simp [List.replicate_succ, List.range_succ_eq_map, Function.comp_def]
      symm; rw [List.eq_replicate_iff]; simp
    · rw [blocks_eq L k (d.drop L), List.range_succ_eq_map]
      simp only [List.map_cons, Nat.zero_mul, List.drop_zero, List.map_map, Function.comp_def, List.drop_drop]
      congr 1
      apply List.map_congr_left
      intro i _
      rw [Nat.succ_mul, Nat.add_comm]

/-- block length of an array along axis `ax`. -/
def blockLen (ax : Nat) (sh : List Nat) : Nat := prod (sh.drop ax)

/-- the simplest description of `np.concatenate`: for every outer index, the blocks of all pieces in turn. -/
def joinData (ax outer : Nat) (arrs : List (List Nat × List Nat)) : List Nat :=
  (List.range outer).flatMap fun i => arrs.flatMap fun p => (p.2.drop (i * blockLen ax p.1)).take (blockLen ax p.1)

theorem npConcat_ok (sh0 d0 : List Nat) (rest : List (List Nat × List Nat)) (k : Nat) (hk : k ≤ sh0.length)
    (hsh : ∀ p ∈ rest, p.1.length = sh0.length ∧ p.1.take (sh0.length - k) = sh0.take (sh0.length - k) ∧
      p.1.drop (sh0.length - k + 1) = sh0.drop (sh0.length - k + 1)) :
    npConcat ((sh0, d0) :: rest) k =
      .ok (sh0.take (sh0.length - k) ++ [(((sh0, d0) :: rest).map fun p => p.1.getD (sh0.length - k) 0).sum] ++
          sh0.drop (sh0.length - k + 1),
        joinData (sh0.length - k) (prod (sh0.take (sh0.length - k))) ((sh0, d0) :: rest)) := by
  have h0 : ¬ sh0.length < k := by omega
  have hall : (((sh0, d0) :: rest).all fun (sh, _) =>
      sh.length = sh0.length && sh.take (sh0.length - k) = sh0.take (sh0.length - k) &&
        sh.drop (sh0.length - k + 1) = sh0.drop (sh0.length - k + 1)) = true := by
    simp only [List.all_cons, decide_true, Bool.and_self, Bool.true_and, List.all_eq_true]
    intro p hp
    obtain ⟨a, b, c⟩ := hsh p hp
    simp [a, b, c]
  simp only [npConcat, h0, ↓reduceIte, hall, Bool.not_true, Bool.false_eq_true, foldl_add_sum, Nat.zero_add]
  congr 2
  have := interleave_map ((sh0, d0) :: rest) (List.range (prod (sh0.take (sh0.length - k))))
    (fun p i => (p.2.drop (i * blockLen (sh0.length - k) p.1)).take (blockLen (sh0.length - k) p.1))
  simp only [List.length_range] at this
  simp only [blockLen] at this
  simp only [joinData, blocks_eq, blockLen]
  exact this


theorem WF.chan_len {b : PD} (h : WF b) (h2 : 2 ≤ b.ndim) : (chanList b).length = b.shape.getD (b.ndim - 2) 0 := by
  cases h with
  | d1 => simp [PD.ndim] at h2
  | d2 c n data s0 fs l m hd hl => simp [chanList, PD.ndim, hl]
  | d3 e c n data s0 fs l ms hd hl hm => simp [chanList, PD.ndim, hl]

theorem WF.meta_len {b : PD} (h : WF b) (h3 : 3 ≤ b.ndim) : (metaList b).length = b.shape.getD (b.ndim - 3) 0 := by
  cases h with
  | d1 => simp [PD.ndim] at h3
  | d2 => simp [PD.ndim] at h3
  | d3 e c n data s0 fs l ms hd hl hm => simp [metaList, PD.ndim, hm]

theorem sum_map_congr {α} (f g : α → Nat) : ∀ (l : List α), (∀ x ∈ l, f x = g x) → (l.map f).sum = (l.map g).sum
  | [], _ => rfl
  | x :: xs, h => by
    simp only [List.map_cons, List.sum_cons, h x (by simp), sum_map_congr f g xs (fun y hy => h y (by simp [hy]))]

theorem concat_adjacent_core (dim : Dim) (base : PD) (rest : List PD) (hwf : ∀ b ∈ base :: rest, WF b)
    (hnd : ∀ b ∈ base :: rest, b.ndim = base.ndim) (hk : dim.k ≤ base.ndim) (hj : Joinable dim base rest)
    (hsh : ∀ b ∈ rest, b.shape.take (base.ndim - dim.k) = base.shape.take (base.ndim - dim.k) ∧
      b.shape.drop (base.ndim - dim.k + 1) = base.shape.drop (base.ndim - dim.k + 1)) :
    concat (base :: rest) dim = .ok
      ⟨base.shape.take (base.ndim - dim.k) ++ [((base :: rest).map fun b => b.shape.getD (base.ndim - dim.k) 0).sum] ++
          base.shape.drop (base.ndim - dim.k + 1),
        joinData (base.ndim - dim.k) (prod (base.shape.take (base.ndim - dim.k)))
          ((base :: rest).map fun b => (b.shape, b.data)),
        base.s0, base.fs, joinChan dim base (base :: rest), joinMeta dim base (base :: rest)⟩ := by
  have hnp := npConcat_ok base.shape base.data (rest.map fun b => (b.shape, b.data)) dim.k hk (by
    intro p hp
    simp only [List.mem_map] at hp
    obtain ⟨b, hb, rfl⟩ := hp
    exact ⟨hnd b (by simp [hb]), hsh b hb⟩)
  rw [concat_eval dim base rest base.ndim hwf hnd hk hj _ _ (by simpa [List.map_cons, PD.ndim] using hnp)]
  have hcl : ∀ b ∈ base :: rest, 2 ≤ base.ndim → (chanList b).length = b.shape.getD (base.ndim - 2) 0 := by
    intro b hb h2; have := (hwf b hb).chan_len (by rw [hnd b hb]; exact h2); rwa [hnd b hb] at this
  have hml : ∀ b ∈ base :: rest, 3 ≤ base.ndim → (metaList b).length = b.shape.getD (base.ndim - 3) 0 := by
    intro b hb h3; have := (hwf b hb).meta_len (by rw [hnd b hb]; exact h3); rwa [hnd b hb] at this
  have hsumc : 2 ≤ base.ndim → ((base :: rest).map chanList).flatten.length =
      ((base :: rest).map fun b => b.shape.getD (base.ndim - 2) 0).sum := by
    intro h2
    rw [List.length_flatten, List.map_map]
    exact sum_map_congr _ _ _ (fun b hb => hcl b hb h2)
  have hsumm : 3 ≤ base.ndim → ((base :: rest).map metaList).flatten.length =
      ((base :: rest).map fun b => b.shape.getD (base.ndim - 3) 0).sum := by
    intro h3
    rw [List.length_flatten, List.map_map]
    exact sum_map_congr _ _ _ (fun b hb => hml b hb h3)
  have hb := hwf base (by simp)
  cases hb with
  | d1 n data s0 fs lab m hd =>
    cases dim with
    | time => cases lab <;> simp [Function.comp_def, construct, PD.ndim, Dim.k, joinChan, joinMeta]
    | channel => simp [Dim.k, PD.ndim] at hk
    | epoch => simp [Dim.k, PD.ndim] at hk
  | d2 c n data s0 fs l m hd hl =>
    cases dim with
    | time => simp [Function.comp_def, construct, PD.ndim, Dim.k, joinChan, joinMeta, shapeM2, hl]
    | channel =>
      have := hsumc (by simp [PD.ndim])
      simp only [PD.ndim, List.length_cons, List.length_nil] at this
      simp [Function.comp_def, construct, PD.ndim, Dim.k, joinChan, joinMeta, shapeM2] at this ⊢
      omega
    | epoch => simp [Dim.k, PD.ndim] at hk
  | d3 e c n data s0 fs l ms hd hl hm =>
    cases dim with
    | time => simp [Function.comp_def, construct, PD.ndim, Dim.k, joinChan, joinMeta, shapeM2, shapeM3, hl, hm]
    | channel =>
      have := hsumc (by simp [PD.ndim])
      simp only [PD.ndim, List.length_cons, List.length_nil] at this
      simp [Function.comp_def, construct, PD.ndim, Dim.k, joinChan, joinMeta, shapeM2, shapeM3, hm] at this ⊢
      omega
    | epoch =>
      have := hsumm (by simp [PD.ndim])
      simp only [PD.ndim, List.length_cons, List.length_nil] at this
      simp [Function.comp_def, construct, PD.ndim, Dim.k, joinChan, joinMeta, shapeM2, shapeM3, hl] at this ⊢
      omega

end Psi.PData
