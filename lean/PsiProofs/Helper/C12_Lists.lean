import PsiModel.Stages
/-! List-level lemmas for C12: strided selection, complete blocks, Mealy runs, `np.diff`. -/
namespace Psi.Stages
variable {α β S : Type}

/-! ### stride -/

/-- phase of `strideAux` after consuming `n` elements -/
def phase (q : Nat) : Nat → Nat → Nat
  | k, 0 => k
  | 0, n + 1 => phase q (q - 1) n
  | k + 1, n + 1 => phase q k n

theorem strideAux_append (q : Nat) (a b : List α) (k : Nat) :
    strideAux q k (a ++ b) = strideAux q k a ++ strideAux q (phase q k a.length) b := by
  induction a generalizing k with
  | nil => simp [strideAux, phase]
  | cons x a ih =>
    cases k with
    | zero => simp [strideAux, phase, ih]
    | succ k => simp [strideAux, phase, ih]

theorem phase_add (q k a b : Nat) : phase q k (a + b) = phase q (phase q k a) b := by
  induction a generalizing k with
  | zero => simp [phase]
  | succ a ih =>
    cases k with
    | zero => rw [Nat.succ_add]; simp [phase, ih]
    | succ k => rw [Nat.succ_add]; simp [phase, ih]

theorem phase_self (q k : Nat) : phase q k k = 0 := by
  induction k with
  | zero => simp [phase]
  | succ k ih => simp [phase, ih]

theorem phase_zero_q (q : Nat) (hq : 0 < q) : phase q 0 q = 0 := by
  obtain ⟨p, rfl⟩ : ∃ p, q = p + 1 := ⟨q - 1, by omega⟩
  simp [phase, phase_self]

theorem phase_zero_mul (q : Nat) (hq : 0 < q) (m : Nat) : phase q 0 (m * q) = 0 := by
  induction m with
  | zero => simp [phase]
  | succ m ih => rw [Nat.succ_mul, phase_add, ih, phase_zero_q q hq]

theorem stride_append_of_dvd (q : Nat) (hq : 0 < q) (a b : List α) (h : q ∣ a.length) :
    stride q (a ++ b) = stride q a ++ stride q b := by
  obtain ⟨m, hm⟩ := h
  unfold stride
  rw [strideAux_append, hm, Nat.mul_comm, phase_zero_mul q hq]

theorem take_add_append (a b : List α) (K m : Nat) (h : a.length = K) :
    (a ++ b).take (K + m) = a ++ b.take m := by
  subst h; exact List.take_length_add_append m

/-- the split used by `downsample` / `decimate`: what is complete in `y` now, the rest later -/
theorem stride_take_split (q : Nat) (hq : 0 < q) (y rest : List α) :
    stride q ((y ++ rest).take ((y.length + rest.length) / q * q))
      = stride q (y.take (y.length - y.length % q))
        ++ stride q ((y.drop (y.length - y.length % q) ++ rest).take ((y.length % q + rest.length) / q * q)) := by
  have hy : y.length - y.length % q = y.length / q * q := by
    have := Nat.div_add_mod y.length q
    rw [Nat.mul_comm] at this; omega
  have hdvd : q ∣ (y.take (y.length / q * q)).length := by
    rw [List.length_take, Nat.min_eq_left (Nat.div_mul_le_self _ _)]
    exact Nat.dvd_mul_left _ _
  have htot : (y.length + rest.length) / q * q = y.length / q * q + (y.length % q + rest.length) / q * q := by
    have h1 : y.length + rest.length = (y.length % q + rest.length) + q * (y.length / q) := by
      have := Nat.div_add_mod y.length q; omega
    rw [h1, Nat.add_mul_div_left _ _ hq, Nat.add_mul]; omega
  have e : y ++ rest = y.take (y.length / q * q) ++ (y.drop (y.length / q * q) ++ rest) := by
    rw [← List.append_assoc, List.take_append_drop]
  have hl : (y.take (y.length / q * q)).length = y.length / q * q := by
    rw [List.length_take, Nat.min_eq_left (Nat.div_mul_le_self _ _)]
  rw [hy, htot, e, take_add_append _ _ _ _ hl, stride_append_of_dvd q hq _ _ hdvd]

/-! ### Mealy runs -/

theorem Mealy.run_append (m : Mealy α β S) (s : S) (a b : List α) :
    m.run s (a ++ b) = ((m.run s a).1 ++ (m.run (m.run s a).2 b).1, (m.run (m.run s a).2 b).2) := by
  induction a generalizing s with
  | nil => simp [Mealy.run]
  | cons x a ih => simp [Mealy.run, ih]

theorem Mealy.run_length (m : Mealy α β S) (s : S) (a : List α) : (m.run s a).1.length = a.length := by
  induction a generalizing s with
  | nil => simp [Mealy.run]
  | cons x a ih => simp [Mealy.run, ih]

/-- The kernel assumption on `scipy.signal.lfilter` with carried `zi`: on **non-empty** input it is the
per-sample state machine `m` (output and final state); on empty input it returns no samples and an
**arbitrary** final state (SciPy 1.18 returns uninitialised memory there). -/
def LfilterIs (lf : S → List α → List β × S) (m : Mealy α β S) : Prop :=
  (∀ z x, x ≠ [] → lf z x = m.run z x) ∧ ∀ z, (lf z []).1 = []

/-- with the guard of the stages (`if y.shape[-1] > 0: zo = zf`) the garbage state is never used -/
theorem lfGuard_eq {lf : S → List α → List β × S} {m : Mealy α β S} (h : LfilterIs lf m) (z : S) (y : List α) :
    lfGuard lf z y = m.run z y := by
  cases y with
  | nil => simp [lfGuard, h.2 z, Mealy.run]
  | cons a l => simp [lfGuard, h.1 z (a :: l) (by simp)]

/-! ### np.diff -/

/-- last element of `a :: l` -/
def lastOr (a : α) : List α → α
  | [] => a
  | b :: l => lastOr b l

theorem drop_length_cons (a : α) (c : List α) : (a :: c).drop c.length = [lastOr a c] := by
  induction c generalizing a with
  | nil => simp [lastOr]
  | cons b c ih => simp [lastOr, ih]

theorem diffs_append (d : α → α → β) (a : α) (c r : List α) :
    diffs d (a :: (c ++ r)) = diffs d (a :: c) ++ diffs d (lastOr a c :: r) := by
  induction c generalizing a with
  | nil => simp [diffs, lastOr]
  | cons b c ih => simp [diffs, lastOr, ih]

theorem diffs_length (d : α → α → β) (a : α) (c : List α) : (diffs d (a :: c)).length = c.length := by
  induction c generalizing a with
  | nil => simp [diffs]
  | cons b c ih => simp [diffs, ih]

/-! ### complete blocks -/

/-- consecutive complete blocks of `n` (fuel-free form of the model's `chunksOf`) -/
def blocksOf (n : Nat) (l : List α) : List (List α) := chunksOf n l.length l

theorem chunksOf_fuel (n : Nat) (hn : 0 < n) : ∀ (f1 f2 : Nat) (l : List α),
    l.length ≤ f1 → l.length ≤ f2 → chunksOf n f1 l = chunksOf n f2 l := by
  intro f1
  induction f1 with
  | zero =>
    intro f2 l h1 _
    have : l = [] := List.eq_nil_of_length_eq_zero (by omega)
    subst this
    cases f2 with
    | zero => rfl
    | succ f2 => simp [chunksOf]; omega
  | succ f1 ih =>
    intro f2 l h1 h2
    cases f2 with
    | zero =>
      have : l = [] := List.eq_nil_of_length_eq_zero (by omega)
      subst this; simp [chunksOf]; omega
    | succ f2 =>
      simp only [chunksOf]
      split
      · rw [ih f2 (l.drop n) (by simp; omega) (by simp; omega)]
      · rfl

theorem blocksOf_step (n : Nat) (hn : 0 < n) (l : List α) (h : n ≤ l.length) :
    blocksOf n l = l.take n :: blocksOf n (l.drop n) := by
  unfold blocksOf
  cases hl : l.length with
  | zero => omega
  | succ k =>
    simp only [chunksOf]
    rw [if_pos (by omega), chunksOf_fuel n hn k (l.drop n).length (l.drop n) (by simp; omega) (Nat.le_refl _)]

theorem blocksOf_short (n : Nat) (l : List α) (h : l.length < n) : blocksOf n l = [] := by
  unfold blocksOf
  cases hl : l.length with
  | zero => simp [chunksOf]
  | succ k => simp only [chunksOf]; rw [if_neg (by omega)]

/-- induction along the complete blocks of a list -/
theorem blocks_induction (n : Nat) (hn : 0 < n) (P : List α → Prop)
    (short : ∀ l, l.length < n → P l) (step : ∀ l, n ≤ l.length → P (l.drop n) → P l) : ∀ l, P l := by
  have : ∀ f (l : List α), l.length ≤ f → P l := by
    intro f
    induction f with
    | zero => intro l h; exact short l (by omega)
    | succ f ih =>
      intro l h
      rcases Nat.lt_or_ge l.length n with hlt | hge
      · exact short l hlt
      · exact step l hge (ih (l.drop n) (by simp; omega))
  exact fun l => this l.length l (Nat.le_refl _)

theorem div_mul_step (n m : Nat) (hn : 0 < n) (h : n ≤ m) : m / n * n = n + (m - n) / n * n := by
  rw [Nat.div_eq_sub_div hn h, Nat.add_mul]; omega

/-- complete blocks of `m ++ y`: those of `m`, then those of (what is left of `m`) ++ y -/
theorem blocksOf_append (n : Nat) (hn : 0 < n) (y : List α) (m : List α) :
    blocksOf n (m ++ y) = blocksOf n m ++ blocksOf n (m.drop (m.length / n * n) ++ y) := by
  induction m using blocks_induction n hn with
  | short m hlt => simp [blocksOf_short n m hlt, Nat.div_eq_of_lt hlt]
  | step m hge ih =>
    rw [blocksOf_step n hn (m ++ y) (by simp; omega), blocksOf_step n hn m hge]
    rw [List.take_append_of_le_length hge, List.drop_append_of_le_length hge, ih, List.drop_drop,
      List.length_drop, div_mul_step n m.length hn hge]
    simp

theorem blocksOf_flatten (n : Nat) (hn : 0 < n) (l : List α) :
    (blocksOf n l).flatten = l.take (l.length / n * n) := by
  induction l using blocks_induction n hn with
  | short l hlt => simp [blocksOf_short n l hlt, Nat.div_eq_of_lt hlt]
  | step l hge ih =>
    rw [blocksOf_step n hn l hge, List.flatten_cons, ih, List.length_drop, div_mul_step n l.length hn hge]
    rw [List.take_add]

theorem blocksOf_length_eq (n : Nat) (hn : 0 < n) (l : List α) : ∀ b ∈ blocksOf n l, b.length = n := by
  induction l using blocks_induction n hn with
  | short l hlt => simp [blocksOf_short n l hlt]
  | step l hge ih =>
    rw [blocksOf_step n hn l hge]
    intro b hb
    rcases List.mem_cons.mp hb with rfl | hb
    · simp; omega
    · exact ih b hb

theorem blocksOf_count (n : Nat) (hn : 0 < n) (l : List α) : (blocksOf n l).length = l.length / n := by
  induction l using blocks_induction n hn with
  | short l hlt => simp [blocksOf_short n l hlt, Nat.div_eq_of_lt hlt]
  | step l hge ih =>
    rw [blocksOf_step n hn l hge, List.length_cons, ih, List.length_drop, Nat.div_eq_sub_div hn hge]

/-- the complete blocks only depend on the complete part -/
theorem blocksOf_take (n : Nat) (hn : 0 < n) (l : List α) :
    blocksOf n (l.take (l.length / n * n)) = blocksOf n l := by
  have h := blocksOf_append n hn (l.drop (l.length / n * n)) (l.take (l.length / n * n))
  rw [List.take_append_drop] at h
  have hl : (l.take (l.length / n * n)).length = l.length / n * n := by
    rw [List.length_take, Nat.min_eq_left (Nat.div_mul_le_self _ _)]
  rw [hl, Nat.mul_div_cancel _ hn] at h
  have hshort : blocksOf n (List.drop (l.length / n * n) (List.take (l.length / n * n) l)
      ++ List.drop (l.length / n * n) l) = [] := by
    apply blocksOf_short
    have h1 := Nat.div_add_mod l.length n
    have h2 := Nat.mod_lt l.length hn
    have h3 : n * (l.length / n) = l.length / n * n := Nat.mul_comm _ _
    simp only [List.length_append, List.length_drop, List.length_take]
    rw [Nat.min_eq_left (Nat.div_mul_le_self _ _)]
    omega
  rw [hshort, List.append_nil] at h
  exact h.symm

end Psi.Stages
