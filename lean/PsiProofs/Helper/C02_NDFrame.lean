import PsiProofs.Helper.C02_Inv
/-! `next_trial(decrement=False)`: frame lemmas for `nextTrialND`, and the interface `NTOK` that both
variants of `next_trial` meet (all the timeline development needs to know about them). -/
namespace Psi.Queue

theorem nextTrialND_some {s s' : QState} (h : nextTrialND s = .ok (some s')) :
    ∃ key s1 e d, nextKey s = .ok (some (key, s1)) ∧
      s1.data[key]? = some e ∧ 0 ≤ d ∧ e.delays[e.dpos % e.delays.length]? = some d ∧
      s' = { s1 with data := s1.data.modify key (fun e => { e with dpos := e.dpos + 1 }),
                     source := some { key := key, off := 0, len := e.len, gen := e.gen },
                     delaySamples := d,
                     generated := s1.generated ++ [mkInfo s1 key e d],
                     added := s1.added ++ [mkInfo s1 key e d] } := by
  unfold nextTrialND at h
  split at h
  · simp at h
  · simp at h
  · rename_i key s1 hk
    split at h
    · simp at h
    · rename_i e he
      split at h
      · simp at h
      · split at h
        · simp at h
        · rename_i d hdl
          split at h
          · simp at h
          · rename_i hneg
            simp only [Except.ok.injEq, Option.some.injEq] at h
            exact ⟨key, s1, e, d, hk, he, by omega, hdl, h.symm⟩

theorem nextTrialND_none {s : QState} (h : nextTrialND s = .ok none) : nextKey s = .ok none := by
  unfold nextTrialND at h
  crack h
  assumption

theorem nextTrialND_none_of {s : QState} (h : nextKey s = .ok none) : nextTrialND s = .ok none := by
  unfold nextTrialND; rw [h]

theorem nextTrialND_obs {s s1 : QState} (h : nextTrialND s = .ok (some s1)) :
    ∃ info : Info, ∃ g : Bool, s1.added = s.added ++ [info] ∧ s1.generated = s.generated ++ [info] ∧
      info.k = s.samples ∧ info.uid = s.added.length ∧
      s1.source = some { key := info.key, off := 0, len := info.len, gen := g } ∧
      s1.delaySamples = info.delay ∧ 0 ≤ info.delay ∧ s1.samples = s.samples ∧
      s1.paused = s.paused ∧ s1.empty = s.empty ∧ s1.removed = s.removed ∧ s1.kind = s.kind := by
  obtain ⟨key, sa, e, d, hk, he, hd0, _, rfl⟩ := nextTrialND_some h
  have f1 := nextKey_frame hk
  refine ⟨mkInfo sa key e d, e.gen, ?_, ?_, ?_, ?_, rfl, rfl, hd0, ?_, ?_, ?_, ?_, ?_⟩ <;>
    simp only [mkInfo] <;> rw [f1]

theorem modify_dpos_len {d : List Entry} {key : Nat}
    (h : ∀ (i : Nat) (e : Entry), d[i]? = some e → 0 < e.len) :
    ∀ (i : Nat) (e : Entry),
      (d.modify key (fun e => { e with dpos := e.dpos + 1 }))[i]? = some e → 0 < e.len := by
  intro i e' he'
  rw [List.getElem?_modify] at he'
  cases hd' : d[i]? with
  | none => simp [hd'] at he'
  | some e0 =>
    simp only [hd', Option.map_eq_map, Option.map_some, Option.some.injEq] at he'
    subst he'
    have := h i e0 hd'
    split <;> simpa using this

theorem nextTrialND_WF {s s' : QState} (hw : WF s) (h : nextTrialND s = .ok (some s')) :
    WF s' ∧ s'.paused = s.paused ∧ ∃ src, s'.source = some src ∧ src.off = 0 ∧ 0 < src.len := by
  obtain ⟨key, s1, e, d, hk, he, _, _, rfl⟩ := nextTrialND_some h
  have f1 := nextKey_frame hk
  have hdata : ∀ (i : Nat) (e : Entry), s1.data[i]? = some e → 0 < e.len := by
    rw [f1]; exact hw.data
  have hlen : 0 < e.len := hdata key e he
  refine ⟨⟨modify_dpos_len hdata, ?_⟩, ?_, ⟨_, rfl, rfl, hlen⟩⟩
  · intro src hsrc
    simp only [Option.some.injEq] at hsrc
    subst hsrc
    exact ⟨hlen, Nat.zero_le _, fun _ => hlen⟩
  · simp only; rw [f1]

theorem trialsOf_modify_dpos (s : QState) (d : List Entry) (key k : Nat) :
    trialsOf { s with data := d.modify key (fun e => { e with dpos := e.dpos + 1 }) } k =
      trialsOf { s with data := d } k := by
  simp only [trialsOf, List.getElem?_modify]
  cases d[k]? with
  | none => rfl
  | some e => by_cases hk : key = k <;> simp [hk]

/-- what `next_trial(decrement=False)` leaves alone: the ordering, the completion flag, every counter -/
theorem nextTrialND_counters {s s' : QState} (h : nextTrialND s = .ok (some s')) :
    s'.ordering = s.ordering ∧ s'.complete = s.complete ∧ ∀ k, trialsOf s' k = trialsOf s k := by
  obtain ⟨key, s1, e, d, hk, he, _, _, rfl⟩ := nextTrialND_some h
  have f1 := nextKey_frame hk
  refine ⟨by simp only; rw [f1], by simp only; rw [f1], ?_⟩
  intro k
  have := trialsOf_modify_dpos s1 s1.data key k
  simp only [trialsOf] at this ⊢
  rw [this, f1]

/-- The interface of a `next_trial` variant: it reports "queue empty" exactly when `next_key` does,
it preserves well-formedness and sets up a fresh non-empty source, and it logs one trial that starts
at the current clock. -/
structure NTOK (nt : QState → Except Err (Option QState)) : Prop where
  none_iff : ∀ {s : QState}, nt s = .ok none ↔ nextKey s = .ok none
  wf : ∀ {s s' : QState}, WF s → nt s = .ok (some s') →
    WF s' ∧ s'.paused = s.paused ∧ ∃ src, s'.source = some src ∧ src.off = 0 ∧ 0 < src.len
  obs : ∀ {s s1 : QState}, nt s = .ok (some s1) →
    ∃ info : Info, ∃ g : Bool, s1.added = s.added ++ [info] ∧ s1.generated = s.generated ++ [info] ∧
      info.k = s.samples ∧ info.uid = s.added.length ∧
      s1.source = some { key := info.key, off := 0, len := info.len, gen := g } ∧
      s1.delaySamples = info.delay ∧ 0 ≤ info.delay ∧ s1.samples = s.samples ∧
      s1.paused = s.paused ∧ s1.empty = s.empty ∧ s1.removed = s.removed ∧ s1.kind = s.kind

theorem NTOK_nextTrial : NTOK nextTrial :=
  ⟨⟨nextTrial_none, nextTrial_none_of⟩, nextTrial_WF, nextTrial_obs⟩

theorem NTOK_nextTrialND : NTOK nextTrialND :=
  ⟨⟨nextTrialND_none, nextTrialND_none_of⟩, nextTrialND_WF, nextTrialND_obs⟩

theorem NTOK_nextTrialD (dec : Bool) : NTOK (nextTrialD dec) := by
  cases dec
  · exact NTOK_nextTrialND
  · exact NTOK_nextTrial

end Psi.Queue
