import PsiProofs.Helper.C04_Cons
/-! Every notified trial is either still logged or was removed exactly once. -/
namespace Psi.Queue

def Once (s : QState) : Prop :=
  (s.generated.map (·.uid) ++ s.removed).Perm (List.range s.added.length)

theorem Once_of_same {s s' : QState} (h : Once s) (hg : s'.generated = s.generated)
    (hr : s'.removed = s.removed) (ha : s'.added = s.added) : Once s' := by
  unfold Once at *; rw [hg, hr, ha]; exact h

theorem Once_nextTrial {s s1 : QState} (h : Once s) (hn : nextTrial s = .ok (some s1)) : Once s1 := by
  obtain ⟨info, g, ha, hg, _, hu, _, _, _, _, _, _, hr, _⟩ := nextTrial_obs hn
  unfold Once at *
  rw [hg, hr, ha]
  simp only [List.map_append, List.map_cons, List.map_nil, List.length_append, List.length_cons,
    List.length_nil, hu, List.range_succ]
  have : (s.generated.map (·.uid) ++ [s.added.length] ++ s.removed).Perm
      (s.generated.map (·.uid) ++ s.removed ++ [s.added.length]) := by
    simp only [List.append_assoc]
    exact List.Perm.append_left _ List.perm_append_comm
  exact this.trans (List.Perm.append_right _ h)

theorem Once_tick {s s' : QState} {c : Cell} (ho : Once s) (h : tick s = .ok (c, s')) : Once s' := by
  cases tick_cases h with
  | paused _ _ hs => subst hs; exact Once_of_same ho rfl rfl rfl
  | play src _ _ _ he =>
    have := emitSrc_same s src
    rw [← he] at this
    exact Once_of_same ho this.2.1 this.2.2.1 this.2.2.2
  | gap _ _ _ _ hs => subst hs; exact Once_of_same ho rfl rfl rfl
  | dry _ _ _ _ _ hs => subst hs; exact Once_of_same ho rfl rfl rfl
  | start s1 src _ _ _ hn _ _ he =>
    have h1 : Once s1 := Once_nextTrial (Once_of_same (s' := dropSrc s) ho rfl rfl rfl) hn
    have := emitSrc_same s1 src
    rw [← he] at this
    exact Once_of_same h1 this.2.1 this.2.2.1 this.2.2.2

theorem Once_runTicks (n : Nat) {s s' : QState} {cs : List Cell} (ho : Once s)
    (h : runTicks n s = .ok (cs, s')) : Once s' := by
  induction n generalizing s cs with
  | zero => simp [runTicks] at h; obtain ⟨_, rfl⟩ := h; exact ho
  | succ n ih =>
    rw [runTicks] at h
    cases ht : tick s with
    | error e => simp [ht] at h
    | ok r =>
      obtain ⟨c, s1⟩ := r
      simp only [ht] at h
      cases hr : runTicks n s1 with
      | error e => simp [hr] at h
      | ok r2 =>
        obtain ⟨cs2, s2⟩ := r2
        simp only [hr, Except.ok.injEq, Prod.mk.injEq] at h
        obtain ⟨_, rfl⟩ := h
        exact ih (Once_tick ho ht) hr

theorem Once_pause (m : Option Int) {s : QState} (ho : Once s) : Once (pause m s).1 := by
  unfold pause
  cases m with
  | none => exact Once_of_same ho rfl rfl rfl
  | some m =>
    simp only
    obtain ⟨_, hg, hr, ha, _⟩ := requeue_fields m (cancel m { s with paused := true })
    obtain ⟨_, cg, cr, ca, _⟩ := cancel_fields m { s with paused := true }
    have key : Once (requeue m (cancel m { s with paused := true })) := by
      unfold Once at *
      rw [hg, hr, ha, cg, cr, ca]
      simp only
      refine List.Perm.trans ?_ ho
      rw [List.perm_iff_count]
      intro a
      have hp := (List.filter_append_perm (endsAfter m) s.generated).map (·.uid)
      have hc := hp.count_eq a
      simp only [List.map_append, List.count_append] at hc
      simp only [List.count_append, List.filter_reverse, List.map_reverse, List.count_reverse]
      omega
    split
    · exact key
    · exact Once_of_same key rfl rfl rfl

theorem Once_resume (m : Option Int) {s : QState} (ho : Once s) : Once (resume m s) := by
  unfold resume
  cases m <;> exact Once_of_same ho rfl rfl rfl

theorem Once_nodup {s : QState} (ho : Once s) :
    s.removed.Nodup ∧ (s.generated.map (·.uid)).Nodup ∧
    (∀ u ∈ s.removed, u ∉ s.generated.map (·.uid)) ∧ (∀ u, u < s.added.length ↔ (u ∈ s.generated.map (·.uid) ∨ u ∈ s.removed)) := by
  have hn : (s.generated.map (·.uid) ++ s.removed).Nodup := ho.nodup_iff.mpr List.nodup_range
  rw [List.nodup_append] at hn
  refine ⟨hn.2.1, hn.1, ?_, ?_⟩
  · intro u hu hg
    exact hn.2.2 u hg u hu rfl
  · intro u
    have := ho.mem_iff (a := u)
    simp only [List.mem_append, List.mem_range] at this
    exact this.symm

end Psi.Queue
