import PsiProofs.Helper.C11_Select
/-! Explicit data of 1-D time slices and the evaluation of `concat` on two pieces. -/
set_option linter.unusedSimpArgs false
namespace Psi.PData

theorem cart_single (ps : List Nat) : cart [ps] = ps := by
  induction ps <;> simp_all [cart]

theorem map_getD_range' (data : List Nat) (a cnt : Nat) (h : a + cnt ≤ data.length) :
    (List.range' a cnt).map (fun o => data[o]?.getD 0) = (data.take (a + cnt)).drop a := by
  apply List.ext_getElem
  · simp; omega
  · intro i h1 h2
    simp at h1 h2 ⊢
    rw [List.getElem?_eq_getElem (by omega)]
    simp

/-- 1-D array, bare unit-step slice, with the data spelled out. -/
theorem getitem_slice_1d_explicit (n : Nat) (data : List Nat) (s0 : Int) (fs : Rat) (lab : Label) (m : Md)
    (hd : data.length = n) (s : PySlice) (hunit : s.step = none) :
    getitem ⟨[n], data, s0, fs, .one lab, .one m⟩ (.one (.slice s)) =
      .ok (.arr ⟨[stopNat s n - startNat s n], (data.take (max (startNat s n) (stopNat s n))).drop (startNat s n),
        s0 + startNat s n, fs, .one lab, .one m⟩) := by
  have hs : s.step.getD 1 = 1 := by simp [hunit]
  have hp := slicePositions_unit s n hs
  have hfs : timeFs fs s = fs := by simp [timeFs, hunit]
  have hb := stopNat_le s n
  have ha := startNat_le s n
  simp [getitem, getitemG, Index.items, npGetitem, Item.isEllipsis, Item.consumes, expandEllipsis, assignAxes,
    strides, itemSel, hp, Sel.isFancy, advOffset, plainAxis, Except.map, List.filter, isScalarResult,
    normalizeIndexG, normTuple, normLoop, Item.isNewaxis, fullSlices, PD.ndim, fixups, splitNorm, Fixes.all,
    finalize, NPSel.shape, NPSel.offsets, cart_single]
  cases lab <;>
    simp [fixTime_pos (k := 1) (hk := by omega) (hs := hs), fixChannel, fixEpoch, PD.nTime, timeS0, hfs] <;>
    (rw [map_getD_range' data _ _ (by omega)]; congr 2; omega)





theorem getArr_all_1d (n : Nat) (data : List Nat) (s0 : Int) (fs : Rat) (lab : Label) (m : Md) (hd : data.length = n) :
    getArr Fixes.all ⟨[n], data, s0, fs, .one lab, .one m⟩ (.one (.slice .all)) =
      .ok ⟨[n], data, s0, fs, .one lab, .one m⟩ := by
  have h := getitem_slice_1d_explicit n data s0 fs lab m hd .all rfl
  simp only [getitem] at h
  simp only [getArr, h]
  simp [startNat, stopNat, PySlice.all, ← hd]

theorem prod_single (n : Nat) : prod [n] = n := by simp [prod]

/-- `concat([p1, p2], axis=time)` on two 1-D pieces. -/
theorem concat_two_1d (n1 n2 : Nat) (d1 d2 : List Nat) (s0 s0' : Int) (fs fs' : Rat) (lab lab' : Label) (m m' : Md)
    (h1 : d1.length = n1) (h2 : d2.length = n2) :
    concat [⟨[n1], d1, s0, fs, .one lab, .one m⟩, ⟨[n2], d2, s0', fs', .one lab', .one m'⟩] .time =
      if fs' ≠ fs ∨ s0' ≠ s0 + n1 ∨ lab' ≠ lab ∨ m' ≠ m then .error .valueError
      else .ok ⟨[n1 + n2], d1 ++ d2, s0, fs, .one lab, .one m⟩ := by
  simp only [concat, concatG, PD.ndim, List.length_singleton, ensureIndex, List.mapM_cons, List.mapM_nil,
    getArr_all_1d n1 d1 s0 fs lab m h1, getArr_all_1d n2 d2 s0' fs' lab' m' h2, bind, Except.bind, pure, Except.pure]
  by_cases hfs : fs' = fs
  · by_cases hs : s0' = s0 + n1
    · by_cases hl : lab' = lab
      · by_cases hm : m' = m
        · subst hfs hs hl hm
          simp [checkS0, PD.nTime, npConcat, Dim.k, prod_single, prod, blocks, interleave, construct]
          subst h1 h2
          cases lab' <;> by_cases z1 : d1.length = 0 <;> by_cases z2 : d2.length = 0 <;> simp_all
        · subst hfs hs hl; simp [checkS0, PD.nTime, hm]
      · subst hfs hs; simp [checkS0, PD.nTime, hl]
    · subst hfs; simp [checkS0, PD.nTime, hs]
  · simp [hfs]

end Psi.PData
