import PsiModel.QueueSpec
namespace Psi.Queue
theorem c02_placeholder : zeros 0 = [] := rfl
end Psi.Queue
