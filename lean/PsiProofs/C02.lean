import PsiProofs.Helper.C02_Inv
/-!
C02 — queue output is a faithful, chunk-invariant timeline of the notified trials.

`popBuffer` is the code-faithful `while samples > 0` loop (`PsiModel/Queue.lean`), `runTicks` the
per-sample specification (`PsiModel/QueueSpec.lean`). All theorems hold for every policy, every
oracle of random choices and every state reachable or not, under `WF` (every waveform has at
least one sample; the current source is consistent).
-/
namespace Psi.Queue

/-- a sequence of pop_buffer calls; outputs concatenated -/
def popAll : List Nat → QState → Except Err (List Cell × QState)
  | [], s => .ok ([], s)
  | n :: ns, s =>
    match popBuffer n s with
    | .error e => .error e
    | .ok (o, s') =>
      match popAll ns s' with
      | .error e => .error e
      | .ok (os, s'') => .ok (o ++ os, s'')

/-- nothing is pending: a new queue, or one just resumed after `pause(t)` -/
def Fresh (s : QState) : Prop := s.paused = false ∧ s.source = none ∧ s.delaySamples = 0

/-- **Refinement.** One request of any size is `n` steps of the per-sample timeline
(same output, same final state including the `added` log, same error). -/
theorem popBuffer_refines {n : Nat} {s : QState} (hw : WF s) (hn : 0 < n) :
    popBuffer n s = runTicks n s := by
  unfold popBuffer
  rw [if_neg (by omega)]
  exact popLoop_eq_runTicks _ _ _ hw (by have := slack_le s; omega)

/-- **Chunk invariance (two requests).** Output, final state and notification log of
`pop_buffer(a+b)` equal those of `pop_buffer(a); pop_buffer(b)`. -/
theorem popBuffer_append {a b : Nat} {s : QState} (hw : WF s) (ha : 0 < a) (hb : 0 < b) :
    popBuffer (a + b) s =
      match popBuffer a s with
      | .error e => .error e
      | .ok (o1, s1) =>
        match popBuffer b s1 with
        | .error e => .error e
        | .ok (o2, s2) => .ok (o1 ++ o2, s2) := by
  rw [popBuffer_refines hw (by omega), popBuffer_refines hw ha, runTicks_add]
  cases h : runTicks a s with
  | error e => rfl
  | ok r =>
    obtain ⟨o1, s1⟩ := r
    simp only
    rw [popBuffer_refines (runTicks_inv a hw h).1 hb]
    cases runTicks b s1 with
    | error e => rfl
    | ok r => rfl

/-- **Chunk invariance (any chunking).** Any sequence of positive request sizes gives the output,
state and `added` log of the single request of their sum. -/
theorem popAll_eq_popBuffer_sum {ns : List Nat} {s : QState} (hw : WF s) (hpos : ∀ n ∈ ns, 0 < n)
    (hne : ns ≠ []) : popAll ns s = popBuffer ns.sum s := by
  induction ns generalizing s with
  | nil => exact absurd rfl hne
  | cons n ns ih =>
    have hn : 0 < n := hpos n (by simp)
    by_cases hnil : ns = []
    · subst hnil
      simp only [popAll, List.sum_cons, List.sum_nil, Nat.add_zero]
      cases popBuffer n s with
      | error e => rfl
      | ok r => obtain ⟨o, s'⟩ := r; simp
    · have hsum : 0 < ns.sum := by
        cases ns with
        | nil => exact absurd rfl hnil
        | cons m ms => have := hpos m (by simp); simp; omega
      simp only [popAll, List.sum_cons]
      rw [popBuffer_append hw hn hsum]
      cases h : popBuffer n s with
      | error e => rfl
      | ok r =>
        obtain ⟨o, s'⟩ := r
        simp only
        rw [popBuffer_refines hw hn] at h
        rw [ih (runTicks_inv n hw h).1 (fun m hm => hpos m (by simp [hm])) hnil]

/-- **Clock.** After a request of `n` samples the clock has advanced by exactly `n`
and exactly `n` samples were returned. -/
theorem clock_eq {n : Nat} {s s' : QState} {out : List Cell} (hw : WF s)
    (h : popBuffer n s = .ok (out, s')) : s'.samples = s.samples + (n : Nat) ∧ out.length = n := by
  have hn : 0 < n := by
    rcases Nat.eq_zero_or_pos n with h0 | h0
    · subst h0; simp [popBuffer] at h
    · exact h0
  rw [popBuffer_refines hw hn] at h
  exact (runTicks_inv n hw h).2

/-- **Timeline.** From a state with nothing pending, the output followed by what is still
committed equals the rendering of the newly notified trials (each waveform in full, then its
delay in zeros) followed by zeros. -/
theorem timeline {n : Nat} {s s' : QState} {out : List Cell} (hw : WF s) (hf : Fresh s)
    (h : popBuffer n s = .ok (out, s')) :
    ∃ new z, s'.added = s.added ++ new ∧ out ++ rest s' = render new ++ zeros z ∧
      PosOK s.samples new := by
  have hn : 0 < n := by
    rcases Nat.eq_zero_or_pos n with h0 | h0
    · subst h0; simp [popBuffer] at h
    · exact h0
  rw [popBuffer_refines hw hn] at h
  obtain ⟨_, _, new, z, ha, he, _, hp⟩ := TL_run n (TL_init s hf.1) h
  have hr : rest s = [] := by simp [rest, hf.2.1, hf.2.2]
  simp only [hr, List.nil_append, List.length_nil] at he hp
  exact ⟨new, z, ha, he, by simpa using hp⟩

/-- **Starts on the grid, gaps exact.** The first new trial starts at the clock of the fresh
state; each further trial starts exactly `len + delay` samples after the previous one. -/
theorem gap_exact {n : Nat} {s s' : QState} {out : List Cell} (hw : WF s) (hf : Fresh s)
    (h : popBuffer n s = .ok (out, s')) :
    ∃ new, s'.added = s.added ++ new ∧
      (∀ h0 : 0 < new.length, new[0].k = s.samples) ∧
      (∀ j (hj : j + 1 < new.length),
        new[j + 1].k = new[j].k + (new[j].len : Nat) + (new[j].delay.toNat : Nat)) := by
  obtain ⟨new, z, ha, _, hp⟩ := timeline hw hf h
  refine ⟨new, ha, ?_, ?_⟩
  · intro h0; have := hp 0 h0; simpa [render] using this
  · intro j hj
    have h1 := hp (j + 1) hj
    have h2 := hp j (by omega)
    rw [h1, h2, List.take_succ_eq_append_getElem (by omega), render_append]
    simp [render]; omega

/-- **Waveform embedded in full.** From the notified start sample on, the output is the queued
waveform, sample for sample, for its full length (as far as the output reaches). -/
theorem waveform_embedded {n : Nat} {s s' : QState} {out : List Cell} (hw : WF s) (hf : Fresh s)
    (h : popBuffer n s = .ok (out, s')) :
    ∃ new, s'.added = s.added ++ new ∧
      ∀ j (hj : j < new.length) (i : Nat), i < new[j].len →
        ∀ p : Nat, new[j].k + (i : Nat) = s.samples + (p : Nat) → p < n →
          out[p]? = some (Cell.W new[j].key i) := by
  obtain ⟨new, z, ha, he, hp⟩ := timeline hw hf h
  have hlen := (clock_eq hw h).2
  refine ⟨new, ha, ?_⟩
  intro j hj i hi p hpe hpn
  have hk := hp j hj
  have hpp : p = (render (new.take j)).length + i := by omega
  have : out[p]? = (out ++ rest s')[p]? := by rw [List.getElem?_append_left (by omega)]
  rw [this, he, List.getElem?_append_left, hpp]
  · exact render_wave new j hj i hi
  · -- the position lies inside the rendering
    have := render_wave new j hj i hi
    rw [hpp]
    rcases Nat.lt_or_ge ((render (new.take j)).length + i) (render new).length with hlt | hge
    · exact hlt
    · rw [List.getElem?_eq_none hge] at this
      simp at this

/-- **Everything else is zero.** Every returned sample is either zero or sample `i` of a notified
trial located at `k + i`. -/
theorem uncovered_zero {n : Nat} {s s' : QState} {out : List Cell} (hw : WF s) (hf : Fresh s)
    (h : popBuffer n s = .ok (out, s')) :
    ∃ new, s'.added = s.added ++ new ∧
      ∀ p : Nat, p < n → out[p]? = some Cell.Z ∨
        ∃ j, ∃ hj : j < new.length, ∃ i, i < new[j].len ∧ new[j].k + (i : Nat) = s.samples + (p : Nat) ∧
          out[p]? = some (Cell.W new[j].key i) := by
  obtain ⟨new, z, ha, he, hp⟩ := timeline hw hf h
  have hlen := (clock_eq hw h).2
  refine ⟨new, ha, ?_⟩
  intro p hpn
  have : out[p]? = (out ++ rest s')[p]? := by rw [List.getElem?_append_left (by omega)]
  rw [this, he]
  by_cases hin : p < (render new).length
  · rw [List.getElem?_append_left hin]
    rcases render_classify new p hin with hz | ⟨j, hj, i, hi, hpe, hw'⟩
    · left; exact hz
    · right
      refine ⟨j, hj, i, hi, ?_, hw'⟩
      rw [hp j hj, hpe]; push_cast; omega
  · left
    rw [List.getElem?_append_right (by omega)]
    apply zeros_getElem?
    have : (out ++ rest s').length = (render new ++ zeros z).length := by rw [he]
    simp at this; omega

/-! ### Non-vacuity: a concrete queue meets the hypotheses and produces a non-trivial timeline -/

def demo : QState :=
  (append (append { kind := .interleaved } ⟨3, false, 2, 2, [2], 0, 3⟩).1 ⟨2, true, 1, 1, [0, 1], 0, 2⟩).1

example : WF demo ∧ Fresh demo := by
  refine ⟨⟨?_, by simp [demo, append]⟩, by simp [Fresh, demo, append]⟩
  intro i e h
  simp only [demo, append, List.nil_append, List.cons_append] at h
  match i, h with
  | 0, h => simp at h; subst h; decide
  | 1, h => simp at h; subst h; decide
  | n + 2, h => simp at h

example : (popBuffer 9 demo).toOption.map (·.1) =
    some [.W 0 0, .W 0 1, .W 0 2, .Z, .Z, .W 1 0, .W 1 1, .W 0 0, .W 0 1] := by decide
example : (popAll [4, 1, 4] demo).toOption.map (·.1) = (popBuffer 9 demo).toOption.map (·.1) := by decide
example : (popBuffer 9 demo).toOption.map (fun r => r.2.added.map (fun i => (i.key, i.k))) =
    some [(0, 0), (1, 5), (0, 7)] := by decide

end Psi.Queue
