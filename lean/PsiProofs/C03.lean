import PsiModel.QueueSpec
namespace Psi.Queue
theorem c03_placeholder : zeros 0 = [] := rfl
end Psi.Queue
