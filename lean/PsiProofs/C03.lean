import PsiProofs.Helper.C03_Run
import PsiProofs.C04
/-!
C03 — each stimulus gets its requested trials in the policy order, then silence.

Proved here: the FIFO order/counts/no-exception theorems, and the policy-independent terminal
theorems (silence, requested totals unchanged, stays empty). Exact / at-least counts for every
policy follow from `conservation` / `final_counts` (PsiProofs/C04). The order theorems of the
other policies (round-robin, blocks, groups) are NOT proved; they are covered by the
correspondence run and the direct oracle only (see notes/C02.md).
-/
namespace Psi.Queue

/-- **FIFO never raises.** A well-formed FIFO queue answers every request. -/
theorem fifo_no_exception {n : Nat} {s : QState} (hw : WF s) (hi : FifoInv s) (hn : 0 < n) :
    ∃ out s', popBuffer n s = .ok (out, s') ∧ WF s' ∧ FifoInv s' := by
  obtain ⟨cs, s', hr, hi', _⟩ := fifo_run n hw hi
  exact ⟨cs, s', by rw [popBuffer_refines hw hn, hr], (runTicks_inv n hw hr).1, hi'⟩

/-- **FIFO order (any state).** Keys notified so far followed by
`ordering.flatMap (replicate remaining)` is invariant under requests of any size. -/
theorem fifo_log {n : Nat} {s s' : QState} {out : List Cell} (hw : WF s) (hi : FifoInv s)
    (h : popBuffer n s = .ok (out, s')) :
    s'.added.map (·.key) ++ s'.ordering.flatMap (fun k => List.replicate (trialsOf s' k).toNat k) =
    s.added.map (·.key) ++ s.ordering.flatMap (fun k => List.replicate (trialsOf s k).toNat k) := by
  have hn : 0 < n := by
    rcases Nat.eq_zero_or_pos n with h0 | h0
    · subst h0; simp [popBuffer] at h
    · exact h0
  obtain ⟨cs, s2, hr, _, hk⟩ := fifo_run n hw hi
  rw [popBuffer_refines hw hn, hr] at h
  simp only [Except.ok.injEq, Prod.mk.injEq] at h
  obtain ⟨_, rfl⟩ := h
  exact hk

/-- **FIFO order (whole run).** Once a FIFO queue that had notified nothing has run dry, the keys it
notified are exactly `ordering.flatMap (fun k => replicate (trials k) k)`: stimuli in insertion
order, each exactly its requested number of times. -/
theorem fifo_log_complete {n : Nat} {s s' : QState} {out : List Cell} (hw : WF s) (hi : FifoInv s)
    (hnew : s.added = []) (h : popBuffer n s = .ok (out, s')) (hdry : s'.ordering = []) :
    s'.added.map (·.key) = s.ordering.flatMap (fun k => List.replicate (trialsOf s k).toNat k) := by
  have := fifo_log hw hi h
  simpa [hdry, hnew] using this

/-- **FIFO: nothing remains when dry.** With an empty ordering every counter is 0, so
`count_trials()` is 0. -/
theorem fifo_terminal_counts {s : QState} (hi : FifoInv s) (hdry : s.ordering = []) :
    nextKey s = .ok none ∧ (∀ (i : Nat) (e : Entry), s.data[i]? = some e → e.trials = 0) := by
  refine ⟨fifo_nextTrial_nil hi hdry, ?_⟩
  intro i e he
  exact hi.done i e he (by simp [hdry])

/-- **Terminal silence (every policy).** When nothing is pending and the policy has no next key,
a request returns only zeros, flags the queue empty, starts nothing, changes no counter, and the
queue is in the same situation afterwards (it stays empty). -/
theorem terminal_silence {n : Nat} {s : QState} (hw : WF s) (hp : s.paused = false) (hd : Dry s)
    (hn : 0 < n) :
    popBuffer n s = .ok (zeros n, { s with empty := true, samples := s.samples + (n : Nat) }) ∧
    Dry { s with empty := true, samples := s.samples + (n : Nat) } := by
  obtain ⟨m, rfl⟩ : ∃ m, n = m + 1 := ⟨n - 1, by omega⟩
  refine ⟨?_, ?_⟩
  · rw [popBuffer_refines hw hn]
    exact runTicks_empty m s hp hd.1 hd.2.1 hd.2.2
  · exact ⟨hd.1, hd.2.1, nextKey_none_indep _ _ hd.2.2⟩

theorem requested_tick {s s' : QState} {c : Cell} (h : tick s = .ok (c, s')) :
    s'.data.map (·.requested) = s.data.map (·.requested) := by
  cases tick_cases h with
  | paused _ _ hs => subst hs; rfl
  | play src _ _ _ he => have := (emitSrc_same s src).1; rw [← he] at this; rw [this]
  | gap _ _ _ _ hs => subst hs; rfl
  | dry _ _ _ _ _ hs => subst hs; rfl
  | start s1 src _ _ _ hn _ _ he =>
    have h1 := (emitSrc_same s1 src).1
    rw [← he] at h1
    rw [h1]
    obtain ⟨info, _, hd⟩ := nextTrial_data hn
    apply List.ext_getElem?
    intro i
    simp only [List.getElem?_map, hd i, dropSrc]
    split
    · cases s.data[i]? <;> simp
    · rfl

/-- **Requested totals unchanged (every policy).** No request changes `requested_trials` of any
stimulus, hence `count_requested_trials()`. -/
theorem requested_unchanged {n : Nat} {s s' : QState} {out : List Cell} (hw : WF s)
    (h : popBuffer n s = .ok (out, s')) : countRequested s' = countRequested s := by
  have hn : 0 < n := by
    rcases Nat.eq_zero_or_pos n with h0 | h0
    · subst h0; simp [popBuffer] at h
    · exact h0
  rw [popBuffer_refines hw hn] at h
  have key : ∀ (n : Nat) (s s' : QState) (cs : List Cell), runTicks n s = .ok (cs, s') →
      s'.data.map (·.requested) = s.data.map (·.requested) := by
    intro n
    induction n with
    | zero => intro s s' cs h; simp [runTicks] at h; rw [h.2]
    | succ n ih =>
      intro s s' cs h
      rw [runTicks] at h
      cases ht : tick s with
      | error e => simp [ht] at h
      | ok r =>
        obtain ⟨c, s1⟩ := r
        simp only [ht] at h
        cases hr : runTicks n s1 with
        | error e => simp [hr] at h
        | ok r2 =>
          obtain ⟨cs2, s2⟩ := r2
          simp only [hr, Except.ok.injEq, Prod.mk.injEq] at h
          obtain ⟨_, rfl⟩ := h
          rw [ih _ _ _ hr, requested_tick ht]
  unfold countRequested
  rw [key n s s' out h]

/-! ### Non-vacuity -/

def demo3 : QState :=
  (append (append { kind := .fifo } ⟨3, false, 2, 2, [1], 0, 3⟩).1 ⟨2, true, 3, 3, [0], 0, 2⟩).1

theorem demo3_data (i : Nat) (e : Entry) (h : demo3.data[i]? = some e) :
    e = ⟨3, false, 2, 2, [1], 0, 3⟩ ∨ e = ⟨2, true, 3, 3, [0], 0, 2⟩ := by
  simp only [demo3, append, List.nil_append, List.cons_append] at h
  match i, h with
  | 0, h => simp at h; exact Or.inl h.symm
  | 1, h => simp at h; exact Or.inr h.symm
  | n + 2, h => simp at h

example : WF demo3 ∧ FifoInv demo3 := by
  refine ⟨⟨?_, by simp [demo3, append]⟩, ⟨rfl, by decide, ?_, ?_, ?_⟩⟩
  · intro i e h; rcases demo3_data i e h with rfl | rfl <;> decide
  · intro k hk
    have : k = 0 ∨ k = 1 := by simpa [demo3, append] using hk
    rcases this with rfl | rfl
    · exact ⟨_, rfl, by decide⟩
    · exact ⟨_, rfl, by decide⟩
  · intro i e h; rcases demo3_data i e h with rfl | rfl <;> decide
  · intro i e h hni
    simp only [demo3, append, List.nil_append, List.cons_append] at h hni
    match i, h with
    | 0, h => simp at hni
    | 1, h => simp at hni
    | n + 2, h => simp at h

example : (popBuffer 40 demo3).toOption.map (fun r => (r.2.added.map (·.key), r.2.ordering, r.2.empty)) =
    some ([0, 0, 1, 1, 1], [], true) := by decide +kernel

end Psi.Queue
