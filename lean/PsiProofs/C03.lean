import PsiProofs.Helper.C03_Runs
import PsiProofs.C04
/-!
C03 — each stimulus gets its requested trials in the policy order, then silence.

Part 1 (any state satisfying `FifoInv`): the FIFO order/counts/no-exception theorems, and the
policy-independent terminal theorems (silence, requested totals unchanged, stays empty).

Part 2 (every policy, from a `Loaded` queue = constructor + ≥ 1 `append`s, any number of stimuli,
trial counts ≥ 1, waveform lengths ≥ 1, any chunking `ns` of positive requests, every oracle):
`no_exception`, `empty_done`, `done_no_trials`, `exact_counts`, and per policy the order of the
`added` log (`keyLog`): FIFO `fifo_first_unsatisfied`, interleaved `interleaved_round_robin` /
`interleaved_nokeep_order`, random `random_pick`, blocked random `blocked_random_blocks`, grouped /
blocked FIFO `grouped_order`, `grouped_groups_sequential`, `blocked_fifo_round_robin`.
All are statements about `runTicks (ns.sum)` of the per-sample spec, transported to every chunking by
C02 (`popAll_ticks`). Exact / at-least counts after pauses are `conservation` / `final_counts` (C04).
-/
namespace Psi.Queue

/-- **FIFO never raises.** A well-formed FIFO queue answers every request. -/
theorem fifo_no_exception {n : Nat} {s : QState} (hw : WF s) (hi : FifoInv s) (hn : 0 < n) :
    ∃ out s', popBuffer n s = .ok (out, s') ∧ WF s' ∧ FifoInv s' := by
  obtain ⟨cs, s', hr, hi', _⟩ := fifo_run n hw hi
  exact ⟨cs, s', by rw [popBuffer_refines hw hn, hr], (runTicks_inv n hw hr).1, hi'⟩

/-- **FIFO order (any state).** Keys notified so far followed by
`ordering.flatMap (replicate remaining)` is invariant under requests of any size. -/
theorem fifo_log {n : Nat} {s s' : QState} {out : List Cell} (hw : WF s) (hi : FifoInv s)
    (h : popBuffer n s = .ok (out, s')) :
    s'.added.map (·.key) ++ s'.ordering.flatMap (fun k => List.replicate (trialsOf s' k).toNat k) =
    s.added.map (·.key) ++ s.ordering.flatMap (fun k => List.replicate (trialsOf s k).toNat k) := by
  have hn : 0 < n := by
    rcases Nat.eq_zero_or_pos n with h0 | h0
    · subst h0; simp [popBuffer] at h
    · exact h0
  obtain ⟨cs, s2, hr, _, hk⟩ := fifo_run n hw hi
  rw [popBuffer_refines hw hn, hr] at h
  simp only [Except.ok.injEq, Prod.mk.injEq] at h
  obtain ⟨_, rfl⟩ := h
  exact hk

/-- **FIFO order (whole run).** Once a FIFO queue that had notified nothing has run dry, the keys it
notified are exactly `ordering.flatMap (fun k => replicate (trials k) k)`: stimuli in insertion
order, each exactly its requested number of times. -/
theorem fifo_log_complete {n : Nat} {s s' : QState} {out : List Cell} (hw : WF s) (hi : FifoInv s)
    (hnew : s.added = []) (h : popBuffer n s = .ok (out, s')) (hdry : s'.ordering = []) :
    s'.added.map (·.key) = s.ordering.flatMap (fun k => List.replicate (trialsOf s k).toNat k) := by
  have := fifo_log hw hi h
  simpa [hdry, hnew] using this

/-- **FIFO: nothing remains when dry.** With an empty ordering every counter is 0, so
`count_trials()` is 0. -/
theorem fifo_terminal_counts {s : QState} (hi : FifoInv s) (hdry : s.ordering = []) :
    nextKey s = .ok none ∧ (∀ (i : Nat) (e : Entry), s.data[i]? = some e → e.trials = 0) := by
  refine ⟨fifo_nextTrial_nil hi hdry, ?_⟩
  intro i e he
  exact hi.done i e he (by simp [hdry])

/-- **Terminal silence (every policy).** When nothing is pending and the policy has no next key,
a request returns only zeros, flags the queue empty, starts nothing, changes no counter, and the
queue is in the same situation afterwards (it stays empty). -/
theorem terminal_silence {n : Nat} {s : QState} (hw : WF s) (hp : s.paused = false) (hd : Dry s)
    (hn : 0 < n) :
    popBuffer n s = .ok (zeros n, { s with empty := true, samples := s.samples + (n : Nat) }) ∧
    Dry { s with empty := true, samples := s.samples + (n : Nat) } := by
  obtain ⟨m, rfl⟩ : ∃ m, n = m + 1 := ⟨n - 1, by omega⟩
  refine ⟨?_, ?_⟩
  · rw [popBuffer_refines hw hn]
    exact runTicks_empty m s hp hd.1 hd.2.1 hd.2.2
  · exact ⟨hd.1, hd.2.1, nextKey_none_indep _ _ hd.2.2⟩

theorem requested_tick {s s' : QState} {c : Cell} (h : tick s = .ok (c, s')) :
    s'.data.map (·.requested) = s.data.map (·.requested) := by
  cases tick_cases h with
  | paused _ _ hs => subst hs; rfl
  | play src _ _ _ he => have := (emitSrc_same s src).1; rw [← he] at this; rw [this]
  | gap _ _ _ _ hs => subst hs; rfl
  | dry _ _ _ _ _ hs => subst hs; rfl
  | start s1 src _ _ _ hn _ _ he =>
    have h1 := (emitSrc_same s1 src).1
    rw [← he] at h1
    rw [h1]
    obtain ⟨info, _, hd⟩ := nextTrial_data hn
    apply List.ext_getElem?
    intro i
    simp only [List.getElem?_map, hd i, dropSrc]
    split
    · cases s.data[i]? <;> simp
    · rfl

/-- **Requested totals unchanged (every policy).** No request changes `requested_trials` of any
stimulus, hence `count_requested_trials()`. -/
theorem requested_unchanged {n : Nat} {s s' : QState} {out : List Cell} (hw : WF s)
    (h : popBuffer n s = .ok (out, s')) : countRequested s' = countRequested s := by
  have hn : 0 < n := by
    rcases Nat.eq_zero_or_pos n with h0 | h0
    · subst h0; simp [popBuffer] at h
    · exact h0
  rw [popBuffer_refines hw hn] at h
  have key : ∀ (n : Nat) (s s' : QState) (cs : List Cell), runTicks n s = .ok (cs, s') →
      s'.data.map (·.requested) = s.data.map (·.requested) := by
    intro n
    induction n with
    | zero => intro s s' cs h; simp [runTicks] at h; rw [h.2]
    | succ n ih =>
      intro s s' cs h
      rw [runTicks] at h
      cases ht : tick s with
      | error e => simp [ht] at h
      | ok r =>
        obtain ⟨c, s1⟩ := r
        simp only [ht] at h
        cases hr : runTicks n s1 with
        | error e => simp [hr] at h
        | ok r2 =>
          obtain ⟨cs2, s2⟩ := r2
          simp only [hr, Except.ok.injEq, Prod.mk.injEq] at h
          obtain ⟨_, rfl⟩ := h
          rw [ih _ _ _ hr, requested_tick ht]
  unfold countRequested
  rw [key n s s' out h]

/-! ## Part 2 — every policy, from a loaded queue -/

/-- **`Loaded` is what the constructor and ≥ 1 `append`s build**, for every policy, option,
group size ≥ 1 (BlockedFIFO: `auto`, its group size counts the appends) and oracle streams, any
number of stimuli with ≥ 1 sample, ≥ 1 trial and a non-empty cycle of delays ≥ 0. -/
theorem loaded_by_append (kind : Kind) (keep : Bool) (gsize : Nat) (auto : Bool) (draws : List Nat)
    (perms : List (List Nat)) (es : List Entry) (hne : es ≠ []) (hes : ∀ e ∈ es, GoodEntry e)
    (hg : kind = .grouped → auto = false → 1 ≤ gsize) :
    Loaded (loadAll (newQueue kind keep gsize auto draws perms) es) :=
  Loaded_loadAll kind keep gsize auto draws perms es hne hes hg

section Loaded
variable {ns : List Nat} {s s' : QState} {out : List Cell}

/-- **(e) No exception, every policy.** A queue of any policy/option with ≥ 1 stimuli (trial counts
≥ 1, waveforms of ≥ 1 sample, delays ≥ 0, group size ≥ 1, oracle streams long enough) answers every
sequence of positive requests: `pop_buffer` never raises, never hangs in `Interleaved.next_key`, and
the loop fuel `3n+3` suffices. (Needed for termination: waveform length ≥ 1 — see notes for the
behaviour of the real code on empty waveforms.) -/
theorem no_exception (hl : Loaded s) (hpos : ∀ n ∈ ns, 0 < n) (hne : ns ≠ []) (ho : OracleOK ns.sum s) :
    ∃ out s', popAll ns s = .ok (out, s') ∧ WF s' := by
  rw [popAll_ticks hl.wf hpos hne]
  cases hk : s.kind with
  | fifo => obtain ⟨cs, s', h, hw, _⟩ := run_fifo ns.sum hl hk; exact ⟨cs, s', h, hw⟩
  | interleaved =>
    cases hkeep : s.keep with
    | true => obtain ⟨cs, s', h, hw, _⟩ := run_rr ns.sum hl hk hkeep; exact ⟨cs, s', h, hw⟩
    | false => obtain ⟨cs, s', h, hw, _⟩ := run_skip ns.sum hl hk hkeep; exact ⟨cs, s', h, hw⟩
  | random => obtain ⟨cs, s', h, hw, _⟩ := run_random ns.sum hl hk (ho.draws hk); exact ⟨cs, s', h, hw⟩
  | blockedRandom =>
    obtain ⟨cs, s', h, hw, _⟩ := run_blocked ns.sum hl hk (ho.perms hk).1 (ho.perms hk).2
    exact ⟨cs, s', h, hw⟩
  | grouped => obtain ⟨cs, s', h, hw, _⟩ := run_grouped ns.sum hl hk; exact ⟨cs, s', h, hw⟩

/-- **Reports empty ⇒ the policy is done (every policy).** `is_empty()` is only ever true when
`next_key` has nothing left (`Done`: ordering exhausted, resp. `_complete` set). -/
theorem empty_done (hl : Loaded s) (hpos : ∀ n ∈ ns, 0 < n) (hne : ns ≠ [])
    (h : popAll ns s = .ok (out, s')) (hE : s'.empty = true) : Done s' := by
  rw [popAll_ticks hl.wf hpos hne] at h
  exact runTicks_emptyDone ns.sum (fun h0 => by rw [hl.empty] at h0; simp at h0) h hE

/-- **Done ⇒ no trials remaining, all requests met (every policy).** Once the policy is done,
every remaining-trials counter is ≤ 0, `count_trials()` is 0, and every stimulus was presented at
least its requested number of times. -/
theorem done_no_trials (hl : Loaded s) (hpos : ∀ n ∈ ns, 0 < n) (hne : ns ≠ []) (ho : OracleOK ns.sum s)
    (h : popAll ns s = .ok (out, s')) (hd : Done s') :
    countTrials s' = 0 ∧ (∀ k, k < s.data.length → trialsOf s' k ≤ 0) ∧
    ∀ k, k < s.data.length → trialsOf s k ≤ (((keyLog s').count k : Nat) : Int) := by
  rw [popAll_ticks hl.wf hpos hne] at h
  have key : ∀ (hb : Base s.data.length (reqAt s) (view s'))
      (hle : ∀ k, k < s.data.length → trv s'.data k ≤ 0),
      countTrials s' = 0 ∧ (∀ k, k < s.data.length → trialsOf s' k ≤ 0) ∧
      ∀ k, k < s.data.length → trialsOf s k ≤ (((keyLog s').count k : Nat) : Int) := by
    intro hb hle
    have hlen : s'.data.length = s.data.length := hb.len
    refine ⟨countTrials_zero (by rw [hlen]; exact hle), hle, ?_⟩
    intro k hk
    have h1 := hle k hk
    have h2 := hb.led k hk
    simp only [view] at h2
    rw [h2] at h1
    simp only [keyLog, reqAt] at h1 ⊢
    omega
  cases hk : s.kind with
  | fifo =>
    obtain ⟨cs, s2, h2, _, hi⟩ := run_fifo ns.sum hl hk
    rw [h2] at h; simp only [Except.ok.injEq, Prod.mk.injEq] at h; obtain ⟨_, rfl⟩ := h
    have hk2 : s2.kind = .fifo := hi.kind
    have ho2 : s2.ordering = [] := by simpa [Done, hk2] using hd
    refine key hi.core.base (fun k hk' => ?_)
    have := (hi.core.exact.2 ho2) k hk'
    have hled := hi.core.base.led k hk'
    simp only [view] at hled this
    rw [hled]; omega
  | interleaved =>
    cases hkeep : s.keep with
    | true =>
      obtain ⟨cs, s2, h2, _, hi⟩ := run_rr ns.sum hl hk hkeep
      rw [h2] at h; simp only [Except.ok.injEq, Prod.mk.injEq] at h; obtain ⟨_, rfl⟩ := h
      have hk2 : s2.kind = .interleaved := hi.kind
      exact key hi.base (hi.closed (show s2.complete = true by simpa [Done, hk2] using hd))
    | false =>
      obtain ⟨cs, s2, h2, _, hi⟩ := run_skip ns.sum hl hk hkeep
      rw [h2] at h; simp only [Except.ok.injEq, Prod.mk.injEq] at h; obtain ⟨_, rfl⟩ := h
      have hk2 : s2.kind = .interleaved := hi.kind
      exact key hi.base (hi.closed (show s2.complete = true by simpa [Done, hk2] using hd))
  | random =>
    obtain ⟨cs, s2, h2, _, hi⟩ := run_random ns.sum hl hk (ho.draws hk)
    rw [h2] at h; simp only [Except.ok.injEq, Prod.mk.injEq] at h; obtain ⟨_, rfl⟩ := h
    have hk2 : s2.kind = .random := hi.kind
    have ho2 : s2.ordering = [] := by simpa [Done, hk2] using hd
    refine key hi.core.base (fun k hk' => ?_)
    have := (hi.core.exact.2 ho2) k hk'
    have hled := hi.core.base.led k hk'
    simp only [view] at hled this
    rw [hled]; omega
  | blockedRandom =>
    obtain ⟨cs, s2, h2, _, hi⟩ := run_blocked ns.sum hl hk (ho.perms hk).1 (ho.perms hk).2
    rw [h2] at h; simp only [Except.ok.injEq, Prod.mk.injEq] at h; obtain ⟨_, rfl⟩ := h
    have hk2 : s2.kind = .blockedRandom := hi.kind
    exact key hi.base (hi.closed (show s2.complete = true by simpa [Done, hk2] using hd))
  | grouped =>
    obtain ⟨cs, s2, h2, _, hi⟩ := run_grouped ns.sum hl hk
    rw [h2] at h; simp only [Except.ok.injEq, Prod.mk.injEq] at h; obtain ⟨_, rfl⟩ := h
    have hk2 : s2.kind = .grouped := hi.kind
    have ho2 : s2.ordering = [] := by simpa [Done, hk2] using hd
    obtain ⟨c, hord, hcompl, _, _, _⟩ := hi.grp
    refine key hi.base (fun k hk' => hcompl k ?_ hk')
    have hord' : s2.ordering = List.range' (s.gsize * c) (s.data.length - s.gsize * c) := hord
    rw [ho2] at hord'
    have : s.data.length - s.gsize * c = 0 := by
      have := congrArg List.length hord'; simpa using this.symm
    omega

/-- **Exact counts (FIFO, random, interleaved without completed waveforms).** No stimulus is ever
presented more often than requested, and once the policy is done each was presented exactly its
requested number of times — for every oracle stream of random choices. -/
theorem exact_counts (hl : Loaded s) (hpos : ∀ n ∈ ns, 0 < n) (hne : ns ≠ []) (ho : OracleOK ns.sum s)
    (hk : s.kind = .fifo ∨ s.kind = .random ∨ (s.kind = .interleaved ∧ s.keep = false))
    (h : popAll ns s = .ok (out, s')) :
    (∀ k, k < s.data.length → (((keyLog s').count k : Nat) : Int) ≤ trialsOf s k) ∧
    (Done s' → ∀ k, k < s.data.length → (((keyLog s').count k : Nat) : Int) = trialsOf s k) := by
  rw [popAll_ticks hl.wf hpos hne] at h
  rcases hk with hk | hk | ⟨hk, hkeep⟩
  · obtain ⟨cs, s2, h2, _, hi⟩ := run_fifo ns.sum hl hk
    rw [h2] at h; simp only [Except.ok.injEq, Prod.mk.injEq] at h; obtain ⟨_, rfl⟩ := h
    have hk2 : s2.kind = .fifo := hi.kind
    exact ⟨hi.core.exact.1, fun hd => hi.core.exact.2 (show s2.ordering = [] by simpa [Done, hk2] using hd)⟩
  · obtain ⟨cs, s2, h2, _, hi⟩ := run_random ns.sum hl hk (ho.draws hk)
    rw [h2] at h; simp only [Except.ok.injEq, Prod.mk.injEq] at h; obtain ⟨_, rfl⟩ := h
    have hk2 : s2.kind = .random := hi.kind
    exact ⟨hi.core.exact.1, fun hd => hi.core.exact.2 (show s2.ordering = [] by simpa [Done, hk2] using hd)⟩
  · obtain ⟨cs, s2, h2, _, hi⟩ := run_skip ns.sum hl hk hkeep
    rw [h2] at h; simp only [Except.ok.injEq, Prod.mk.injEq] at h; obtain ⟨_, rfl⟩ := h
    have hk2 : s2.kind = .interleaved := hi.kind
    refine ⟨?_, ?_⟩
    · intro k hk'
      have h1 := hi.nonneg k hk'
      rw [hi.base.led k hk'] at h1
      simp only [view, reqAt] at h1; simp only [keyLog]; omega
    · intro hd k hk'
      have h1 := hi.nonneg k hk'
      have h3 := hi.closed (show s2.complete = true by simpa [Done, hk2] using hd) k hk'
      rw [hi.base.led k hk'] at h1 h3
      simp only [view, reqAt] at h1 h3; simp only [keyLog]; omega

/-- **FIFO order.** Every trial is the first (in insertion order) stimulus not yet satisfied. -/
theorem fifo_first_unsatisfied (hl : Loaded s) (hk : s.kind = .fifo) (hpos : ∀ n ∈ ns, 0 < n)
    (hne : ns ≠ []) (h : popAll ns s = .ok (out, s')) (j : Nat) (hj : j < (keyLog s').length) :
    (unsatList s.data.length (reqAt s) ((keyLog s').take j)).head? = some (keyLog s')[j] := by
  rw [popAll_ticks hl.wf hpos hne] at h
  obtain ⟨cs, s2, h2, _, hi⟩ := run_fifo ns.sum hl hk
  rw [h2] at h; simp only [Except.ok.injEq, Prod.mk.injEq] at h; obtain ⟨_, rfl⟩ := h
  exact hi.pick j hj

/-- **(a) Interleaved, completed waveforms kept: strict round-robin, stops at the first moment.**
`log[j] = j % n` (= `ordering[j % n]`, keys are insertion indices); no trial is ever started when
all stimuli were already satisfied (so the log has the least length with everything satisfied). -/
theorem interleaved_round_robin (hl : Loaded s) (hk : s.kind = .interleaved) (hkeep : s.keep = true)
    (hpos : ∀ n ∈ ns, 0 < n) (hne : ns ≠ []) (h : popAll ns s = .ok (out, s')) :
    (∀ j (hj : j < (keyLog s').length),
      (keyLog s')[j] = j % s.data.length ∧ s.ordering[j % s.data.length]? = some (keyLog s')[j]) ∧
    (∀ m, m < (keyLog s').length →
      ∃ k, k < s.data.length ∧ ((((keyLog s').take m).count k : Nat) : Int) < trialsOf s k) := by
  rw [popAll_ticks hl.wf hpos hne] at h
  obtain ⟨cs, s2, h2, _, hi⟩ := run_rr ns.sum hl hk hkeep
  rw [h2] at h; simp only [Except.ok.injEq, Prod.mk.injEq] at h; obtain ⟨_, rfl⟩ := h
  refine ⟨fun j hj => ⟨hi.rr j hj, ?_⟩, hi.first⟩
  rw [hl.ordering, List.getElem?_range (Nat.mod_lt _ hl.pos)]
  exact congrArg some (hi.rr j hj).symm

/-- **(a) Interleaved, completed waveforms dropped: round-robin that skips satisfied stimuli.**
Every trial is the next unsatisfied stimulus after the previous one in cyclic insertion order
(`NextUnsat`: `d` places further, unsatisfied itself, everything passed over is satisfied). In
particular nothing is presented once all are satisfied. -/
theorem interleaved_nokeep_order (hl : Loaded s) (hk : s.kind = .interleaved) (hkeep : s.keep = false)
    (hpos : ∀ n ∈ ns, 0 < n) (hne : ns ≠ []) (h : popAll ns s = .ok (out, s'))
    (j : Nat) (hj : j < (keyLog s').length) :
    NextUnsat s.data.length (reqAt s) (lastOr ((keyLog s').take j)) ((keyLog s').take j) (keyLog s')[j] := by
  rw [popAll_ticks hl.wf hpos hne] at h
  obtain ⟨cs, s2, h2, _, hi⟩ := run_skip ns.sum hl hk hkeep
  rw [h2] at h; simp only [Except.ok.injEq, Prod.mk.injEq] at h; obtain ⟨_, rfl⟩ := h
  exact hi.order j hj

/-- **(b) Random: every trial is the oracle's pick among the unsatisfied stimuli.** Trial `j` is
entry `draws[j] % len` of the list of stimuli (insertion order) presented fewer times than requested. -/
theorem random_pick (hl : Loaded s) (hk : s.kind = .random) (hpos : ∀ n ∈ ns, 0 < n) (hne : ns ≠ [])
    (ho : OracleOK ns.sum s) (h : popAll ns s = .ok (out, s')) (j : Nat) (hj : j < (keyLog s').length) :
    ∃ d, s.draws[j]? = some d ∧
      (unsatList s.data.length (reqAt s) ((keyLog s').take j))[
        d % (unsatList s.data.length (reqAt s) ((keyLog s').take j)).length]? = some (keyLog s')[j] := by
  rw [popAll_ticks hl.wf hpos hne] at h
  obtain ⟨cs, s2, h2, _, hi⟩ := run_random ns.sum hl hk (ho.draws hk)
  rw [h2] at h; simp only [Except.ok.injEq, Prod.mk.injEq] at h; obtain ⟨_, rfl⟩ := h
  exact hi.pick j hj

/-- **(c) Blocked random: successive permutations, cut at completion.** The log is a prefix of the
concatenation of the oracle's shuffles (each a permutation of all stimuli, consumed from its end as
`list.pop()` does): `b` whole blocks minus a remainder shorter than a block; and no trial is started
once all stimuli were satisfied. -/
theorem blocked_random_blocks (hl : Loaded s) (hk : s.kind = .blockedRandom) (hpos : ∀ n ∈ ns, 0 < n)
    (hne : ns ≠ []) (ho : OracleOK ns.sum s) (h : popAll ns s = .ok (out, s')) :
    keyLog s' <+: s.perms.flatMap List.reverse ∧
    (∃ b rest, b ≤ s.perms.length ∧ rest.length < s.data.length ∧
      keyLog s' ++ rest = (s.perms.take b).flatMap List.reverse) ∧
    (∀ p ∈ s.perms, p.reverse.Perm (List.range s.data.length)) ∧
    (∀ m, m < (keyLog s').length →
      ∃ k, k < s.data.length ∧ ((((keyLog s').take m).count k : Nat) : Int) < trialsOf s k) := by
  rw [popAll_ticks hl.wf hpos hne] at h
  obtain ⟨cs, s2, h2, _, hi⟩ := run_blocked ns.sum hl hk (ho.perms hk).1 (ho.perms hk).2
  rw [h2] at h; simp only [Except.ok.injEq, Prod.mk.injEq] at h; obtain ⟨_, rfl⟩ := h
  obtain ⟨b, hb, _, hcat⟩ := hi.blocks
  have hcat' : keyLog s2 ++ s2.block.reverse = (s.perms.take b).flatMap List.reverse := hcat
  refine ⟨⟨s2.block.reverse ++ (s.perms.drop b).flatMap List.reverse, ?_⟩,
    ⟨b, s2.block.reverse, hb, by rw [List.length_reverse]; exact hi.blockLt.1, hcat'⟩,
    fun p hp => (List.reverse_perm p).trans ((ho.perms hk).2 p hp), hi.first⟩
  rw [← List.append_assoc, hcat', ← List.flatMap_append, List.take_append_drop]

/-- **(d) Grouped / blocked FIFO: every trial is a legitimate grouped pick** (`GroupPick`): all
earlier groups are satisfied (every group finishes before the next starts), the trial's own group
is not (the group stops at the first moment it is satisfied), and the trial sits one place after
the previous one, cyclically within its group (round-robin inside the group; the last group may
be smaller than `group_size`). -/
theorem grouped_order (hl : Loaded s) (hk : s.kind = .grouped) (hpos : ∀ n ∈ ns, 0 < n) (hne : ns ≠ [])
    (h : popAll ns s = .ok (out, s')) (j : Nat) (hj : j < (keyLog s').length) :
    (keyLog s')[j] < s.data.length ∧
    GroupPick s.data.length (reqAt s) s.gsize ((keyLog s').take j) (keyLog s')[j] := by
  rw [popAll_ticks hl.wf hpos hne] at h
  obtain ⟨cs, s2, h2, _, hi⟩ := run_grouped ns.sum hl hk
  rw [h2] at h; simp only [Except.ok.injEq, Prod.mk.injEq] at h; obtain ⟨_, rfl⟩ := h
  exact ⟨hi.base.keysLt _ (List.getElem_mem hj), hi.order j hj⟩

/-- **(d) Groups are sequential.** The group index `key / group_size` never decreases along the log. -/
theorem grouped_groups_sequential (hl : Loaded s) (hk : s.kind = .grouped) (hpos : ∀ n ∈ ns, 0 < n)
    (hne : ns ≠ []) (h : popAll ns s = .ok (out, s')) (i j : Nat) (hij : i ≤ j)
    (hj : j < (keyLog s').length) :
    (keyLog s')[i]'(by omega) / s.gsize ≤ (keyLog s')[j] / s.gsize := by
  obtain ⟨_, hi1, _, _⟩ := grouped_order hl hk hpos hne h i (by omega)
  obtain ⟨_, _, ⟨k', h1, h2, h3, h4⟩, _⟩ := grouped_order hl hk hpos hne h j hj
  apply Classical.byContradiction
  intro hlt
  have hlt' : (keyLog s')[j] / s.gsize + 1 ≤ (keyLog s')[i]'(by omega) / s.gsize := by omega
  have hmul := Nat.mul_le_mul_left s.gsize hlt'
  rw [Nat.mul_succ] at hmul
  have h5 := hi1 k' (by omega) h3
  have hsub : ((keyLog s').take i).Sublist ((keyLog s').take j) := by
    have : (keyLog s').take i = ((keyLog s').take j).take i := by
      rw [List.take_take, Nat.min_eq_left hij]
    rw [this]; exact List.take_sublist _ _
  have := hsub.count_le k'
  simp only [reqAt] at h4 h5
  omega

/-- **(d) Blocked FIFO (one group holding all stimuli): strict round-robin, stops at the first
moment.** With `group_size ≥ n` — `BlockedFIFOSignalQueue` sets it to `n` — `log[j] = j % n`, and no
trial is started once all stimuli were satisfied. -/
theorem blocked_fifo_round_robin (hl : Loaded s) (hk : s.kind = .grouped) (hg : s.data.length ≤ s.gsize)
    (hpos : ∀ n ∈ ns, 0 < n) (hne : ns ≠ []) (h : popAll ns s = .ok (out, s')) :
    (∀ j (hj : j < (keyLog s').length), (keyLog s')[j] = j % s.data.length) ∧
    (∀ m, m < (keyLog s').length →
      ∃ k, k < s.data.length ∧ ((((keyLog s').take m).count k : Nat) : Int) < trialsOf s k) := by
  have hn := hl.pos
  have hdiv : ∀ j (hj : j < (keyLog s').length), (keyLog s')[j] / s.gsize = 0 ∧
      (keyLog s')[j] % s.gsize = (keyLog s')[j] := by
    intro j hj
    have := (grouped_order hl hk hpos hne h j hj).1
    exact ⟨Nat.div_eq_of_lt (by omega), Nat.mod_eq_of_lt (by omega)⟩
  refine ⟨?_, ?_⟩
  · intro j
    induction j with
    | zero =>
      intro hj
      obtain ⟨_, _, _, h4⟩ := grouped_order hl hk hpos hne h 0 hj
      rw [(hdiv 0 hj).1, (hdiv 0 hj).2] at h4
      simp only [List.take_zero, lastMod, List.getLast?_nil, Nat.mul_zero, Nat.sub_zero,
        Nat.min_eq_right hg] at h4
      have : ((-1 : Int) + 1) % (s.data.length : Int) = 0 := by simp
      rw [this] at h4
      simp only [Nat.zero_mod]
      omega
    | succ j ih =>
      intro hj
      have hjl : j < (keyLog s').length := by omega
      obtain ⟨_, _, _, h4⟩ := grouped_order hl hk hpos hne h (j + 1) hj
      rw [(hdiv (j + 1) hj).1, (hdiv (j + 1) hj).2, List.take_add_one,
        List.getElem?_eq_getElem hjl] at h4
      simp only [Option.toList_some, lastMod_snoc, Nat.mul_zero, Nat.sub_zero, Nat.min_eq_right hg] at h4
      rw [(hdiv j hjl).2, ih hjl] at h4
      have e : (((j % s.data.length : Nat) : Int) + 1) % (s.data.length : Int) =
          (((j + 1) % s.data.length : Nat) : Int) := by
        rw [← Nat.mod_add_mod]; push_cast; rfl
      rw [e] at h4
      exact Int.ofNat.inj h4
  · intro m hm
    obtain ⟨_, _, ⟨k', _, _, h3, h4⟩, _⟩ := grouped_order hl hk hpos hne h m hm
    exact ⟨k', h3, h4⟩

end Loaded

/-! ### Non-vacuity -/

def demo3 : QState :=
  (append (append { kind := .fifo } ⟨3, false, 2, 2, [1], 0, 3⟩).1 ⟨2, true, 3, 3, [0], 0, 2⟩).1

theorem demo3_data (i : Nat) (e : Entry) (h : demo3.data[i]? = some e) :
    e = ⟨3, false, 2, 2, [1], 0, 3⟩ ∨ e = ⟨2, true, 3, 3, [0], 0, 2⟩ := by
  simp only [demo3, append, List.nil_append, List.cons_append] at h
  match i, h with
  | 0, h => simp at h; exact Or.inl h.symm
  | 1, h => simp at h; exact Or.inr h.symm
  | n + 2, h => simp at h

example : WF demo3 ∧ FifoInv demo3 := by
  refine ⟨⟨?_, by simp [demo3, append]⟩, ⟨rfl, by decide, ?_, ?_, ?_⟩⟩
  · intro i e h; rcases demo3_data i e h with rfl | rfl <;> decide
  · intro k hk
    have : k = 0 ∨ k = 1 := by simpa [demo3, append] using hk
    rcases this with rfl | rfl
    · exact ⟨_, rfl, by decide⟩
    · exact ⟨_, rfl, by decide⟩
  · intro i e h; rcases demo3_data i e h with rfl | rfl <;> decide
  · intro i e h hni
    simp only [demo3, append, List.nil_append, List.cons_append] at h hni
    match i, h with
    | 0, h => simp at hni
    | 1, h => simp at hni
    | n + 2, h => simp at h

example : (popBuffer 40 demo3).toOption.map (fun r => (r.2.added.map (·.key), r.2.ordering, r.2.empty)) =
    some ([0, 0, 1, 1, 1], [], true) := by decide +kernel

/-! Part 2: three stimuli (array of 3 samples ×2, generator of 2 samples ×3 with delays 0/2, array
of 1 sample ×1) loaded by `append` into every policy; the hypotheses `Loaded` / `OracleOK` /
`popAll … = .ok …` / `Done` of the theorems above hold for them, and the logs are non-trivial. -/

def demoE1 : Entry := ⟨3, false, 2, 2, [1], 0, 3⟩
def demoE2 : Entry := ⟨2, true, 3, 3, [0, 2], 0, 2⟩
def demoE3 : Entry := ⟨1, false, 1, 1, [0], 0, 1⟩

theorem demo_good : ∀ e ∈ [demoE1, demoE2, demoE3], GoodEntry e := by
  intro e he
  simp only [List.mem_cons, List.not_mem_nil, or_false] at he
  rcases he with rfl | rfl | rfl <;> exact ⟨by decide, by decide, by decide, by decide⟩

def demoPerms : List (List Nat) :=
  (List.range 40).map (fun i => if i % 2 = 0 then [2, 0, 1] else [0, 2, 1])

def demoQ (kind : Kind) (keep : Bool) (gsize : Nat) (auto : Bool) : QState :=
  loadAll (newQueue kind keep gsize auto (List.range 40) demoPerms) [demoE1, demoE2, demoE3]

/-- every policy / option, group sizes 1, 2 (does not divide 3), 4 (> n), BlockedFIFO (`auto`) -/
example (kind : Kind) (keep : Bool) (gsize : Nat) (auto : Bool) (hg : 1 ≤ gsize) :
    Loaded (demoQ kind keep gsize auto) :=
  loaded_by_append kind keep gsize auto _ _ _ (by simp) demo_good (fun _ _ => hg)

example (kind : Kind) (keep : Bool) (gsize : Nat) (auto : Bool) :
    OracleOK [7, 13, 20].sum (demoQ kind keep gsize auto) := by
  have hd : (demoQ kind keep gsize auto).draws = List.range 40 := by
    simp [demoQ, loadAll_oracle, newQueue]
  have hpm : (demoQ kind keep gsize auto).perms = demoPerms := by
    simp [demoQ, loadAll_oracle, newQueue]
  refine ⟨fun _ => by rw [hd]; decide, fun _ => ⟨by rw [hpm]; decide, ?_⟩⟩
  intro p hp
  have : p = [2, 0, 1] ∨ p = [0, 2, 1] := by
    have hp' : p ∈ demoPerms := by rw [← hpm]; exact hp
    simp only [demoPerms, List.mem_map] at hp'
    obtain ⟨i, _, rfl⟩ := hp'
    split <;> simp
  have hlen : (demoQ kind keep gsize auto).data.length = 3 := by
    simp [demoQ, loadAll_data, newQueue]
  rw [hlen]
  rcases this with rfl | rfl <;> decide

example : (demoQ .grouped false 0 true).data.length ≤ (demoQ .grouped false 0 true).gsize := by decide

example : (popAll [7, 13, 20] (demoQ .interleaved true 0 false)).toOption.map
    (fun r => (keyLog r.2, r.2.empty, r.2.complete)) = some ([0, 1, 2, 0, 1, 2, 0, 1], true, true) := by
  decide +kernel
example : (popAll [7, 13, 20] (demoQ .interleaved false 0 false)).toOption.map
    (fun r => (keyLog r.2, r.2.empty, r.2.complete)) = some ([0, 1, 2, 0, 1, 1], true, true) := by
  decide +kernel
example : (popAll [7, 13, 20] (demoQ .random false 0 false)).toOption.map
    (fun r => (keyLog r.2, r.2.empty, r.2.ordering)) = some ([0, 1, 2, 1, 0, 1], true, []) := by
  decide +kernel
example : (popAll [7, 13, 20] (demoQ .blockedRandom false 0 false)).toOption.map
    (fun r => (keyLog r.2, r.2.empty, r.2.complete)) = some ([1, 0, 2, 1, 2, 0, 1], true, true) := by
  decide +kernel
example : (popAll [7, 13, 20] (demoQ .grouped false 2 false)).toOption.map
    (fun r => (keyLog r.2, r.2.empty, r.2.ordering)) = some ([0, 1, 0, 1, 0, 1, 2], true, []) := by
  decide +kernel
example : (popAll [7, 13, 20] (demoQ .grouped false 0 true)).toOption.map
    (fun r => (keyLog r.2, r.2.empty, r.2.ordering)) = some ([0, 1, 2, 0, 1, 2, 0, 1], true, []) := by
  decide +kernel
example : (popAll [7, 13, 20] (demoQ .fifo false 0 false)).toOption.map
    (fun r => (keyLog r.2, r.2.empty, r.2.ordering)) = some ([0, 0, 1, 1, 1, 2], true, []) := by
  decide +kernel

end Psi.Queue
