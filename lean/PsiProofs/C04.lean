import PsiProofs.Helper.C04_Once
import PsiProofs.C02
/-!
C04 — pause/resume conserves trials and reports every cancellation exactly once.

Histories are arbitrary lists over {pop n, pause m, pause(), resume m, resume()}; positions `m`
are sample positions (t = t0 + m/fs). All theorems hold for every policy and every oracle.
-/
namespace Psi.Queue

inductive Op
  | pop (n : Nat)
  | pause (m : Option Int)
  | resume (m : Option Int)

def stepOp (s : QState) : Op → Except Err QState
  | .pop n =>
    match popBuffer n s with
    | .error e => .error e
    | .ok (_, s') => .ok s'
  | .pause m => .ok (pause m s).1      -- the state after a rejected pause is the code's state too
  | .resume m => .ok (resume m s)

def runOps : List Op → QState → Except Err QState
  | [], s => .ok s
  | op :: ops, s =>
    match stepOp s op with
    | .error e => .error e
    | .ok s' => runOps ops s'

/-- what holds of a queue after `append`s and before anything was played -/
structure Good (s : QState) : Prop where
  wf : WF s
  cons : Cons s
  once : Once s

/-- a freshly built queue: nothing logged, every counter at its requested value -/
theorem Good_init {s : QState} (hg : s.generated = []) (hr : s.removed = []) (ha : s.added = [])
    (hs : s.source = none) (hd : ∀ (i : Nat) (e : Entry), s.data[i]? = some e → 0 < e.len ∧ e.trials = e.requested) :
    Good s := by
  refine ⟨⟨fun i e h => (hd i e h).1, by simp [hs]⟩, ?_, ?_⟩
  · intro key e he
    simp [keptOf, hg, (hd key e he).2]
  · simp [Once, hg, hr, ha]

theorem WF_pause (m : Option Int) {s : QState} (hw : WF s) : WF (pause m s).1 := by
  unfold pause
  cases m with
  | none => exact ⟨hw.data, hw.src⟩
  | some m =>
    simp only
    obtain ⟨hd, _, _, _, _, hsrc, _⟩ := requeue_fields m (cancel m { s with paused := true })
    obtain ⟨cd, _, _, _, _, csrc, _⟩ := cancel_fields m { s with paused := true }
    have hdata : ∀ (i : Nat) (e : Entry),
        (requeue m (cancel m { s with paused := true })).data[i]? = some e → 0 < e.len := by
      intro i e he
      rw [hd, foldl_setTrials_get, cd] at he
      cases h0 : s.data[i]? with
      | none => simp [h0] at he
      | some e0 => simp [h0] at he; subst he; exact hw.data i e0 h0
    have hsn : (requeue m (cancel m { s with paused := true })).source = none := by rw [hsrc, csrc]
    split
    · exact ⟨hdata, by simp [hsn]⟩
    · exact ⟨hdata, by simp [hsn]⟩

theorem WF_resume (m : Option Int) {s : QState} (hw : WF s) : WF (resume m s) := by
  unfold resume; cases m <;> exact ⟨hw.data, hw.src⟩

theorem Good_step {s s' : QState} {op : Op} (hg : Good s) (h : stepOp s op = .ok s') : Good s' := by
  cases op with
  | pop n =>
    simp only [stepOp] at h
    cases hp : popBuffer n s with
    | error e => simp [hp] at h
    | ok r =>
      obtain ⟨out, s1⟩ := r
      simp only [hp, Except.ok.injEq] at h
      subst h
      have hn : 0 < n := by
        rcases Nat.eq_zero_or_pos n with h0 | h0
        · subst h0; simp [popBuffer] at hp
        · exact h0
      rw [popBuffer_refines hg.wf hn] at hp
      exact ⟨(runTicks_inv n hg.wf hp).1, Cons_runTicks n hg.cons hp, Once_runTicks n hg.once hp⟩
  | pause m =>
    simp only [stepOp, Except.ok.injEq] at h; subst h
    exact ⟨WF_pause m hg.wf, Cons_pause m hg.cons, Once_pause m hg.once⟩
  | resume m =>
    simp only [stepOp, Except.ok.injEq] at h; subst h
    exact ⟨WF_resume m hg.wf, Cons_resume m hg.cons, Once_resume m hg.once⟩

theorem Good_run {ops : List Op} {s s' : QState} (hg : Good s) (h : runOps ops s = .ok s') : Good s' := by
  induction ops generalizing s with
  | nil => simp [runOps] at h; subst h; exact hg
  | cons op ops ih =>
    simp only [runOps] at h
    cases hs : stepOp s op with
    | error e => simp [hs] at h
    | ok s1 => simp only [hs] at h; exact ih (Good_step hg hs) h

/-- **Conservation.** After any history, for every stimulus: non-cancelled presentations logged +
remaining trials = requested trials (whatever the sign of the counter, whatever the policy). -/
theorem conservation {ops : List Op} {s s' : QState} (hg : Good s) (h : runOps ops s = .ok s')
    (key : Nat) (e : Entry) (he : s'.data[key]? = some e) :
    keptOf s' key + e.trials = e.requested :=
  (Good_run hg h).cons key e he

/-- **Removed exactly once.** After any history the logged trials and the removed ones partition the
notified trials: the uids still logged followed by the uids removed are a permutation of
`0 … #added-1`. In particular no trial is removed twice and no logged trial was removed. -/
theorem removed_once {ops : List Op} {s s' : QState} (hg : Good s) (h : runOps ops s = .ok s') :
    (s'.generated.map (·.uid) ++ s'.removed).Perm (List.range s'.added.length) ∧
    s'.removed.Nodup ∧ (∀ u ∈ s'.removed, u ∉ s'.generated.map (·.uid)) := by
  have ho := (Good_run hg h).once
  exact ⟨ho, (Once_nodup ho).1, (Once_nodup ho).2.2.1⟩

/-- **pause(m) cancels exactly the trials ending after m.** The `removed` notifications of this
call are the logged trials with `k + dur > m` (latest first), each restored (+1) to its stimulus;
what stays logged ends by `m`. -/
theorem pause_cancels_exactly (m : Int) (s : QState) :
    (pause (some m) s).1.removed = s.removed ++ ((s.generated.reverse.filter (endsAfter m)).map (·.uid)) ∧
    (pause (some m) s).1.generated = s.generated.filter (fun i => !endsAfter m i) ∧
    (∀ i ∈ (pause (some m) s).1.generated, i.k + i.dur ≤ m) ∧
    (∀ key : Nat, (pause (some m) s).1.data[key]? =
      (s.data[key]?).map (fun e : Entry => { e with trials := e.trials +
        (((s.generated.filter (endsAfter m)).filter (fun i => i.key == key)).length : Nat) })) := by
  obtain ⟨hd, hg, hr, _⟩ := requeue_fields m (cancel m { s with paused := true })
  obtain ⟨cd, cg, cr, _⟩ := cancel_fields m { s with paused := true }
  have e1 : (pause (some m) s).1.removed = (requeue m (cancel m { s with paused := true })).removed := by
    unfold pause; simp only; split <;> rfl
  have e2 : (pause (some m) s).1.generated = (requeue m (cancel m { s with paused := true })).generated := by
    unfold pause; simp only; split <;> rfl
  have e3 : (pause (some m) s).1.data = (requeue m (cancel m { s with paused := true })).data := by
    unfold pause; simp only; split <;> rfl
  refine ⟨by rw [e1, hr, cr], by rw [e2, hg, cg], ?_, ?_⟩
  · intro i hi
    rw [e2, hg, cg] at hi
    simp only [List.mem_filter, endsAfter, Bool.not_eq_true', decide_eq_false_iff_not] at hi
    omega
  · intro key
    rw [e3, hd, foldl_setTrials_get, cd]
    unfold toRequeue
    rw [cg, count_requeue]

/-- **Paused ⇒ silence.** A paused queue returns only zeros, starts no trial, notifies nothing. -/
theorem paused_silent {n : Nat} {s : QState} (hp : s.paused = true) (hn : 0 < n) :
    popBuffer n s = .ok (zeros n, { s with samples := s.samples + (n : Nat) }) := by
  obtain ⟨m, rfl⟩ : ∃ m, n = m + 1 := ⟨n - 1, by omega⟩
  unfold popBuffer
  rw [if_neg (by omega)]
  have : 3 * (m + 1) + 3 = (3 * m + 5) + 1 := by omega
  rw [this, popLoop]
  simp [popIter, hp, popLoop]

/-- **Future pause rejected.** `pause(m)` with `m` after the clock raises ValueError; otherwise it
does not and puts the clock at `m`. -/
theorem pause_future_rejected (m : Int) (s : QState) :
    ((pause (some m) s).2 = true ↔ m > s.samples) ∧
    (m ≤ s.samples → (pause (some m) s).1.samples = m) := by
  obtain ⟨_, _, _, _, hs, _⟩ := requeue_fields m (cancel m { s with paused := true })
  obtain ⟨_, _, _, _, cs, _⟩ := cancel_fields m { s with paused := true }
  have hsm : (requeue m (cancel m { s with paused := true })).samples = s.samples := by rw [hs, cs]
  unfold pause
  simp only [hsm]
  constructor
  · split <;> simp_all
  · intro hle
    rw [if_neg (by omega)]

/-- **Resume position.** After `pause(m)` (any number of silent requests) and `resume(m₂)` nothing is
pending and the clock is `m₂`: the first trial of the next request starts exactly at `m₂`. -/
theorem resume_position {n : Nat} {s s' : QState} {out : List Cell} (m₂ : Int) (hw : WF s)
    (hsrc : s.source = none) (hd : s.delaySamples = 0)
    (h : popBuffer n (resume (some m₂) s) = .ok (out, s')) :
    ∃ new, s'.added = s.added ++ new ∧ ∀ h0 : 0 < new.length, new[0].k = m₂ := by
  have hf : Fresh (resume (some m₂) s) := by simp [Fresh, resume, hsrc, hd]
  obtain ⟨new, ha, h0, _⟩ := gap_exact (WF_resume (some m₂) hw) hf h
  exact ⟨new, by simpa [resume] using ha, by simpa [resume] using h0⟩

/-- the state `pause(m)` leaves is the one `resume_position` asks for -/
theorem pause_leaves_nothing_pending (m : Int) (s : QState) :
    (pause (some m) s).1.source = none ∧ (pause (some m) s).1.delaySamples = 0 ∧
    (pause (some m) s).1.paused = true := by
  obtain ⟨_, _, _, _, _, hsrc, hdl, hp, _⟩ := requeue_fields m (cancel m { s with paused := true })
  obtain ⟨_, _, _, _, _, csrc, cdl, cp, _⟩ := cancel_fields m { s with paused := true }
  unfold pause
  simp only
  split <;> simp [hsrc, hdl, hp, csrc, cdl, cp]

/-- **Final counts.** After any history, a stimulus with no trials remaining has exactly its
requested number of non-cancelled presentations; with a negative counter (keep-completed policies)
it has more. -/
theorem final_counts {ops : List Op} {s s' : QState} (hg : Good s) (h : runOps ops s = .ok s')
    (key : Nat) (e : Entry) (he : s'.data[key]? = some e) :
    (e.trials = 0 → keptOf s' key = e.requested) ∧ (e.trials ≤ 0 → keptOf s' key ≥ e.requested) := by
  have := conservation hg h key e he
  constructor <;> intro _ <;> omega

/-! ### Non-vacuity -/

def demo4 : QState := (append { kind := .fifo } ⟨10, false, 3, 3, [5], 0, 10⟩).1

example : Good demo4 := by
  apply Good_init <;> try rfl
  intro i e h
  simp only [demo4, append, List.nil_append] at h
  match i, h with
  | 0, h => simp at h; subst h; decide
  | n + 1, h => simp at h

/-- pause mid-waveform, resume, drain: 3 kept presentations, one removed, nothing remaining -/
example : (runOps [.pop 5, .pause (some 5), .resume (some 20), .pop 60] demo4).toOption.map
    (fun s => (keptOf s 0, s.removed, s.data.map (·.trials), s.added.map (·.k))) =
    some (3, [0], [0], [0, 20, 35, 50]) := by decide +kernel
example : ((popBuffer 5 demo4).toOption.map (fun r => (pause (some 1000) r.2).2)) = some true := by
  decide +kernel

end Psi.Queue
