import PsiModel.QueueSpec
namespace Psi.Queue
theorem c04_placeholder : zeros 0 = [] := rfl
end Psi.Queue
