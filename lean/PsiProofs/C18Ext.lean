import PsiModel.EpochsExt
import PsiProofs.C18
import PsiProofs.Helper.C18Ext_Search
import PsiProofs.Helper.C18Ext_Bits
import PsiProofs.Helper.C18Ext_Pad
import PsiProofs.Helper.C18Ext_Bisect
/-!
EXT18 — theorems about helpers of util.py that property C18 does not name (NOT part of `./check C18`;
registry `lean/registry/EXT18.txt`).
-/
namespace Psi.EpochsExt
open Psi.Epochs

/-! ### `epochs(x, pad)` -/

/-- For EVERY `pad` (negative ones and those larger than the array included) `util.epochs(x, pad)` never raises and
returns the maximal runs of the array as the two padding loops left it (the caller's array is modified in place). -/
theorem epochs_pad_eq_runs_of_modified_array (x : List Bool) (pad : Int) :
    epochsPad x pad = (.ok (maximalRuns (padded x pad)), padded x pad) := by
  simp [epochsPad, epochs_eq_runs]

/-- what `dilate` is, declaratively: same length, sample `i` high iff a high sample of `x` lies within distance `pad`. -/
theorem dilate_spec (x : List Bool) (pad : Nat) :
    (dilate x pad).length = x.length ∧
    ∀ (i : Nat) (hi : i < (dilate x pad).length),
      ((dilate x pad)[i] = true ↔ ∃ j, x[j]? = some true ∧ i ≤ j + pad ∧ j ≤ i + pad) :=
  ⟨dilate_length x pad, fun i hi => dilate_getElem_iff x pad i hi⟩

/-- `util.epochs(x, pad)`, `pad ≥ 0`, under the guard "no rising edge is closer than `pad` to the start of the array"
(so that no slice `x[s-pad:s]` has a negative start): the result is the run detection of the signal dilated by `pad`
on both sides, and that dilated signal is what the caller's array holds afterwards. -/
theorem epochs_pad_eq_runs_dilate_partial (x : List Bool) (pad : Nat)
    (guard : ∀ s ∈ tsRising x, pad ≤ s) :
    epochsPad x (pad : Int) = (.ok (maximalRuns (dilate x pad)), dilate x pad) := by
  rw [epochs_pad_eq_runs_of_modified_array, padded_eq_dilate x pad guard]

example : (∀ s ∈ tsRising [false, false, true, false, false, false, true, false], 2 ≤ s) ∧
    epochsPad [false, false, true, false, false, false, true, false] 2 = (.ok [(0, 8)], List.replicate 8 true) ∧
    epochsPad [false, false, true, false, false, false, true, false] 1
      = (.ok [(1, 4), (5, 8)], [false, true, true, true, false, true, true, true]) := by decide

/-- the guard is needed — the negative-slice quirk: a rising edge at `s < pad` makes `x[s-pad:s]` count from the END
of the array (an empty slice here), so the samples before the run are NOT padded. -/
theorem epochs_pad_negative_slice_counterexample :
    epochsPad [false, true, false, false] 2 = (.ok [(1, 4)], [false, true, true, true]) ∧
    dilate [false, true, false, false] 2 = [true, true, true, true] ∧
    maximalRuns (dilate [false, true, false, false] 2) = [(0, 4)] ∧
    ¬ (∀ s ∈ tsRising [false, true, false, false], 2 ≤ s) := by decide

/-- the same quirk when `pad` exceeds the array length: the wrapped slice is not empty but partial. -/
example : epochsPad [false, false, true] 4 = (.ok [(1, 3)], [false, true, true]) ∧
    dilate [false, false, true] 4 = [true, true, true] := by decide
/-- a negative `pad` passes `if pad:`; `x[e:e+pad]` is then `x[1:-1]` here: a slice that ends one before the END of the array. -/
example : epochsPad [true, false, false, false] (-2) = (.ok [(0, 3)], [true, true, true, false]) := by decide

/-- with the repair of notes/EXT18_fix_1.diff (`x[max(s-pad, 0):s] = 1`) the guard disappears: for every array and every
`pad ≥ 0` the result is the run detection of the dilated signal. -/
theorem epochs_pad_fixed_eq_runs_dilate (x : List Bool) (pad : Nat) :
    epochsPadFixed x (pad : Int) = (.ok (maximalRuns (dilate x pad)), dilate x pad) := by
  simp [epochsPadFixed, epochs_eq_runs, paddedFixed_eq_dilate]

example : epochsPadFixed [false, true, false, false] 2 = (.ok [(0, 4)], [true, true, true, true]) := by decide

/-! ### `epochs_contain` -/

/-- `util.epochs_contain(e, t)` on a table with `start ≤ end` in every row:
True iff some epoch has `start < t ≤ end` — the LEFT bound is excluded and the RIGHT bound included
(not the `[start, end)` convention of the tables `util.epochs` returns; see the examples below). -/
theorem epochs_contain_iff (e : List (Int × Int)) (t : Int) (h : ∀ p ∈ e, p.1 ≤ p.2) :
    contain1 e t = true ↔ ∃ p ∈ e, p.1 < t ∧ t ≤ p.2 := by
  have hid := count_identity e t t
  have hz : e.countP (fun p => decide (t ≤ p.1) && decide (p.2 < t)) = 0 := by
    apply countP_zero_of_forall
    intro p hp
    have := h p hp
    by_cases h1 : t ≤ p.1 <;> simp [h1]
    omega
  have hpos := @List.countP_pos_iff _ e (fun p => decide (p.1 < t) && decide (t ≤ p.2))
  simp only [Bool.and_eq_true, decide_eq_true_eq] at hpos
  rw [← hpos]
  simp only [contain1, bne_iff_ne, ne_eq]
  omega

/-- the array form: one answer per time, each by the law above. -/
theorem epochs_contain_array (e : List (Int × Int)) (ts : List Int) (h : ∀ p ∈ e, p.1 ≤ p.2) :
    (epochsContain e ts).length = ts.length ∧
    ∀ (k : Nat) (hk : k < ts.length) (hk' : k < (epochsContain e ts).length),
      ((epochsContain e ts)[k] = true ↔ ∃ p ∈ e, p.1 < ts[k] ∧ ts[k] ≤ p.2) := by
  refine ⟨by simp [epochsContain], ?_⟩
  intro k hk hk'
  simp only [epochsContain, List.getElem_map]
  exact epochs_contain_iff e ts[k] h

example : epochsContain [(1, 3), (5, 8)] [0, 1, 2, 3, 4, 5, 6, 7, 8, 9]
    = [false, false, true, true, false, false, true, true, true, false] := by decide
/-- boundary counterexamples to the half-open reading "start ≤ t < end": the first sample of an epoch is
reported outside, the first sample after it inside. -/
example : contain1 [(1, 3)] 1 = false ∧ contain1 [(1, 3)] 3 = true := by decide
/-- the hypothesis `start ≤ end` is needed: a reversed row makes a time "contained" that no row contains. -/
example : contain1 [(5, 1)] 3 = true ∧ ¬ ∃ p ∈ [((5 : Int), (1 : Int))], p.1 < 3 ∧ 3 ≤ p.2 := by
  refine ⟨by decide, ?_⟩
  rintro ⟨p, hp, h1, h2⟩
  simp at hp
  subst hp
  omega

/-- On the table `util.epochs(x)` returns, `epochs_contain(·, t)` answers for sample `t - 1`, not `t`:
it is True iff `t ≥ 1` and sample `t - 1` is high. -/
theorem epochs_contain_runs_shifted (x : List Bool) (t : Nat) :
    contain1 ((maximalRuns x).map (fun p => ((p.1 : Int), (p.2 : Int)))) (t : Int) = true
      ↔ 1 ≤ t ∧ x[t - 1]? = some true := by
  rw [epochs_contain_iff]
  · constructor
    · rintro ⟨p, hp, h1, h2⟩
      obtain ⟨q, hq, rfl⟩ := List.mem_map.mp hp
      have hs := maximalRuns_sound x q hq
      simp only at h1 h2
      refine ⟨by omega, hs.2.2.1 (t - 1) (by omega) (by omega)⟩
    · rintro ⟨h1, hx⟩
      obtain ⟨q, hq, h3, h4⟩ := maximalRuns_complete x (t - 1) hx
      exact ⟨((q.1 : Int), (q.2 : Int)), List.mem_map.mpr ⟨q, hq, rfl⟩, by simp only; omega, by simp only; omega⟩
  · intro p hp
    obtain ⟨q, hq, rfl⟩ := List.mem_map.mp hp
    have hs := maximalRuns_sound x q hq
    have := hs.1
    simp only
    omega

example : maximalRuns [false, true, true, false] = [(1, 3)] ∧
    contain1 [(1, 3)] 1 = false ∧ [false, true, true, false][1]? = some true := by decide

/-! ### `epochs_overlap` -/

/-- `util.epochs_overlap(a, b)` for one row `q` of `b`, `a` with both columns non-decreasing:
True iff `q` lies inside an epoch of `a` that starts STRICTLY earlier (`start < q.start`, `q.end ≤ end`), or an epoch
of `a` lies inside `q` and ends STRICTLY earlier (`q.start ≤ start`, `end < q.end`).  Partial overlaps, and a `q` that
starts exactly where the epoch containing it starts, give False (examples below). -/
theorem epochs_overlap_iff (a : List (Int × Int)) (q : Int × Int)
    (hs : a.Pairwise (fun p r => p.1 ≤ r.1 ∧ p.2 ≤ r.2)) :
    overlap1 a q = true ↔
      (∃ p ∈ a, p.1 < q.1 ∧ q.2 ≤ p.2) ∨ (∃ p ∈ a, q.1 ≤ p.1 ∧ p.2 < q.2) := by
  have hid := count_identity a q.1 q.2
  have hA := @List.countP_pos_iff _ a (fun p => decide (p.1 < q.1) && decide (q.2 ≤ p.2))
  have hB := @List.countP_pos_iff _ a (fun p => decide (q.1 ≤ p.1) && decide (p.2 < q.2))
  simp only [Bool.and_eq_true, decide_eq_true_eq] at hA hB
  rw [← hA, ← hB]
  simp only [overlap1, bne_iff_ne, ne_eq]
  -- both differences cannot be positive at once on sorted columns
  have hex : ¬ (0 < a.countP (fun p => decide (p.1 < q.1) && decide (q.2 ≤ p.2)) ∧
                0 < a.countP (fun p => decide (q.1 ≤ p.1) && decide (p.2 < q.2))) := by
    rw [hA, hB]
    rintro ⟨⟨p, hp, h1, h2⟩, ⟨r, hr, h3, h4⟩⟩
    rcases pairwise_mem_cases hs hp hr with rfl | h | h <;> omega
  omega

theorem epochs_overlap_array (a b : List (Int × Int))
    (hs : a.Pairwise (fun p r => p.1 ≤ r.1 ∧ p.2 ≤ r.2)) :
    (epochsOverlap a b).length = b.length ∧
    ∀ (k : Nat) (hk : k < b.length) (hk' : k < (epochsOverlap a b).length),
      ((epochsOverlap a b)[k] = true ↔
        (∃ p ∈ a, p.1 < b[k].1 ∧ b[k].2 ≤ p.2) ∨ (∃ p ∈ a, b[k].1 ≤ p.1 ∧ p.2 < b[k].2)) := by
  refine ⟨by simp [epochsOverlap], ?_⟩
  intro k hk hk'
  simp only [epochsOverlap, List.getElem_map]
  exact epochs_overlap_iff a b[k] hs

example : [((1 : Int), (3 : Int)), (5, 8)].Pairwise (fun p r => p.1 ≤ r.1 ∧ p.2 ≤ r.2) := by decide
example : epochsOverlap [(1, 3), (5, 8)] [(0, 1), (1, 2), (2, 4), (3, 5), (4, 9), (0, 9), (2, 3), (1, 3)]
    = [false, false, false, false, true, true, true, false] := by decide
/-- counterexamples to the docstring ("True where `b` falls within boundaries of epoch in `a`"):
an epoch is not reported inside itself, nor a prefix of it; a partial overlap is not reported;
an interval that merely CONTAINS an epoch is. -/
example : overlap1 [(1, 3)] (1, 3) = false ∧ overlap1 [(1, 3)] (1, 2) = false ∧
    overlap1 [(1, 3)] (2, 4) = false ∧ overlap1 [(1, 3)] (0, 9) = true := by decide
/-- the sortedness hypothesis is needed: with a nested row the two differences cancel. -/
example : overlap1 [(0, 9), (2, 3)] (1, 5) = false ∧
    (∃ p ∈ [((0 : Int), (9 : Int)), (2, 3)], p.1 < (1 : Int) ∧ (5 : Int) ≤ p.2) := by
  refine ⟨by decide, (0, 9), by simp, by decide, by decide⟩

/-! ### the binary search itself -/

/-- on a column sorted in non-decreasing order the binary search (side left) returns the number of entries `< t` —
the reading of `np.searchsorted` used by `contain1` / `overlap1`. -/
theorem bisectLeft_eq_countLt (col : List Int) (t : Int) (hs : col.Pairwise (· ≤ ·)) :
    bisectLeft col t = countLt col t := bisectLeft_eq_countLt' col t hs

theorem cols_sorted {a : List (Int × Int)} (hs : a.Pairwise (fun p r => p.1 ≤ r.1 ∧ p.2 ≤ r.2)) :
    (a.map (·.1)).Pairwise (· ≤ ·) ∧ (a.map (·.2)).Pairwise (· ≤ ·) := by
  constructor <;> rw [List.pairwise_map]
  · exact hs.imp (fun h => h.1)
  · exact hs.imp (fun h => h.2)

/-- `epochs_contain` computed by binary search, on a table with both columns sorted and `start ≤ end`. -/
theorem epochs_contain_bisect_iff (e : List (Int × Int)) (t : Int)
    (hs : e.Pairwise (fun p r => p.1 ≤ r.1 ∧ p.2 ≤ r.2)) (h : ∀ p ∈ e, p.1 ≤ p.2) :
    contain1B e t = true ↔ ∃ p ∈ e, p.1 < t ∧ t ≤ p.2 := by
  rw [← epochs_contain_iff e t h]
  simp only [contain1B, contain1, bisectLeft_eq_countLt _ _ (cols_sorted hs).1,
    bisectLeft_eq_countLt _ _ (cols_sorted hs).2]

/-- `epochs_overlap` computed by binary search. -/
theorem epochs_overlap_bisect_iff (a : List (Int × Int)) (q : Int × Int)
    (hs : a.Pairwise (fun p r => p.1 ≤ r.1 ∧ p.2 ≤ r.2)) :
    overlap1B a q = true ↔
      (∃ p ∈ a, p.1 < q.1 ∧ q.2 ≤ p.2) ∨ (∃ p ∈ a, q.1 ≤ p.1 ∧ p.2 < q.2) := by
  rw [← epochs_overlap_iff a q hs]
  simp only [overlap1B, overlap1, bisectLeft_eq_countLt _ _ (cols_sorted hs).1,
    bisectLeft_eq_countLt _ _ (cols_sorted hs).2]

example : ([1, 3, 3, 7] : List Int).Pairwise (· ≤ ·) ∧ bisectLeft [1, 3, 3, 7] 3 = 1 ∧ bisectLeft [1, 3, 3, 7] 4 = 3 ∧
    bisectLeft [1, 3, 3, 7] 8 = 4 := by decide
example : contain1B [(1, 3), (5, 8)] 6 = true ∧ overlap1B [(1, 3), (5, 8)] (4, 9) = true := by decide
/-- sortedness is needed: on an unsorted column the search is not the count. -/
example : bisectLeft [7, 7, 8, 7, 8, 1, 1] 6 = 0 ∧ countLt [7, 7, 8, 7, 8, 1, 1] 6 = 2 := by decide

/-! ### `bin_array`, `int_to_TTL` -/

/-- `util.bin_array(number, bits)` has `max(bits, 0)` entries. -/
theorem bin_array_length (n w : Int) : (binArray n w).length = w.toNat := by
  simp [binArray]

/-- entry `k` is bit `k` of the two's-complement representation (`Int.testBit`), for either sign. -/
theorem bin_array_bit (n w : Int) (k : Nat) (hk : k < (binArray n w).length) :
    (binArray n w)[k] = if n.testBit k then 1 else 0 := by
  simp only [binArray, List.getElem_map, List.getElem_range]
  exact bitOf_eq_testBit n k

/-- round trip: the little-endian value of the list is `number mod 2^bits`
(for a negative number: its two's-complement residue). -/
theorem bin_array_round_trip (n w : Int) : fromBits (binArray n w) = n % 2 ^ w.toNat := by
  rw [binArray_eq, fromBits_bitsN]

example : binArray 8 4 = [0, 0, 0, 1] ∧ binArray 3 4 = [1, 1, 0, 0] ∧ binArray (-3) 4 = [1, 0, 1, 1] ∧
    binArray 5 (-1) = [] ∧ fromBits (binArray (-3) 4) = 13 := by decide

/-- `util.int_to_TTL(a, width)` outside the one raising input: `max(width, 0)` rows, row `k` holds bit `k` of every
entry.  Guard = not (empty Python sequence and `width > 0`), see `int_to_TTL_empty_sequence_raises`. -/
theorem int_to_TTL_bits_partial (es : Bool) (a : List Int) (w : Int)
    (guard : ¬ (es = true ∧ a = [] ∧ 0 < w)) :
    intToTTL es a w = .ok ((List.range w.toNat).map (fun k => a.map (fun v => v.testBit k))) := by
  unfold intToTTL
  have hg : (es && a.isEmpty && decide (0 < w)) = false := by
    cases es <;> cases a <;> simp_all
  rw [hg]
  simp only [Bool.false_eq_true, if_false]
  congr 1
  apply List.map_congr_left
  intro k _
  apply List.map_congr_left
  intro v _
  rw [bitOf_eq_testBit]
  cases v.testBit k <;> simp

/-- round trip per column: reading column `j` of the returned table little-endian gives `a[j] mod 2^width`. -/
theorem int_to_TTL_round_trip_partial (es : Bool) (a : List Int) (w : Int)
    (guard : ¬ (es = true ∧ a = [] ∧ 0 < w)) :
    ∃ rows, intToTTL es a w = .ok rows ∧ rows.length = w.toNat ∧ (∀ r ∈ rows, r.length = a.length) ∧
      ∀ (j : Nat) (hj : j < a.length),
        fromBits (rows.map (fun r => if r[j]? = some true then 1 else 0)) = a[j] % 2 ^ w.toNat := by
  refine ⟨_, int_to_TTL_bits_partial es a w guard, by simp, ?_, ?_⟩
  · intro r hr
    obtain ⟨k, _, rfl⟩ := List.mem_map.mp hr
    simp
  · intro j hj
    rw [← fromBits_bitsN]
    congr 1
    simp only [bitsN, List.map_map]
    apply List.map_congr_left
    intro k _
    simp only [Function.comp, List.getElem?_map, List.getElem?_eq_getElem hj, Option.map_some,
      Option.some.injEq]
    rw [bitOf_eq_testBit]

/-- the excluded input: an empty Python sequence is a float64 array for NumPy, and `a >> bit` raises TypeError
as soon as `width ≥ 1`. -/
theorem int_to_TTL_empty_sequence_raises (w : Int) (hw : 0 < w) :
    intToTTL true [] w = .error .typeError := by
  simp [intToTTL, hw]

example : intToTTL true [4, 8, 5] 6 = .ok [[false, false, true], [false, false, false], [true, false, true],
    [false, true, false], [false, false, false], [false, false, false]] := by decide
example : ¬ (true = true ∧ ([4, 8, 5] : List Int) = [] ∧ (0 : Int) < 6) := by simp
example : intToTTL true [] 1 = .error .typeError ∧ intToTTL false [] 1 = .ok [[]] ∧ intToTTL true [] 0 = .ok [] := by
  decide

end Psi.EpochsExt
