import PsiModel.EpochsExt
/-! EXT18 — theorems about the helpers of util.py that property C18 does not name (not part of `./check C18`). -/
namespace Psi.EpochsExt

end Psi.EpochsExt
