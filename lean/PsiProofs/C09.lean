import Mathlib.Analysis.SpecialFunctions.Trigonometric.Basic
import PsiModel.Stim
import PsiProofs.Helper.C09_Book
/-!
# C09 — finite stimuli honour their duration contract and envelope shape

Same model as C01 (`PsiModel/Stim.lean`).  `Stim.total g = some T` singles out the stimuli with
a sample count (GateFactory, EnvelopeFactory, FixedWaveform incl. Repeat).  Histories are
arbitrary chunk lists (`drawAll` / `stateAfter`), including draws past the end.

The hypothesis `g.WFs` of the theorems below is implied by the constructor guard `g.WF`
(`Stim.WF.wfs`: `cycle > 0`, `2·rise ≤ duration`, `fm_samples > 0`) for every tree, including trees
with SquareWaveEnvelopeFactory nodes, since the `square_wave` fragment law is proved (C01,
`square_fragment_eq_slice`).
-/
namespace Psi.Stim
open Psi.Chunk

/-- `n_samples()` is `round(start*fs) + round(duration*fs)` for gates and envelopes, and the
array length for fixed / repeated waveforms. -/
theorem n_samples_eq (start dur off id : Nat) (p : EnvP) (w : List Cell) (inner : Stim) :
    (Stim.gate start dur off inner).nSamples = .fin (start + dur)
      ∧ (Stim.env id p off inner).nSamples = .fin (p.start + p.dur)
      ∧ (Stim.fixed w off).nSamples = .fin w.length :=
  ⟨rfl, rfl, rfl⟩

/-- One draw of `n` samples decreases `n_samples_remaining()` by exactly `n`, truncated at 0. -/
theorem remaining_decreases (g : Stim) (h : g.WFs) (T : Nat) (hT : g.total = some T) (n : Nat) :
    g.remaining = .fin (T - g.drawn) ∧ (g.next n).2.remaining = .fin (T - g.drawn - n) := by
  refine ⟨(remaining_of_total g T hT).1, ?_⟩
  have ht : (g.next n).2.total = some T := by rw [total_next]; exact hT
  rw [(remaining_of_total _ T ht).1, drawn_next g h, Nat.sub_add_eq]

/-- Along every draw history: the sample count never changes and the remaining count is the
total minus everything drawn so far (never negative). -/
theorem remaining_after_history (g : Stim) (h : g.WFs) (T : Nat) (hT : g.total = some T) (ns : List Nat) :
    (stateAfter stimGen g ns).nSamples = .fin T
      ∧ (stateAfter stimGen g ns).remaining = .fin (T - (g.drawn + ns.sum)) := by
  have hd := drawn_stateAfter g h ns
  have ht : (stateAfter stimGen g ns).total = some T := by rw [hd.2]; exact hT
  have := remaining_of_total _ T ht
  rw [hd.1] at this
  exact ⟨this.2.2, this.1⟩

/-- `is_complete()` holds exactly when at least `n_samples()` samples have been drawn, along
every history from a freshly reset stimulus. -/
theorem complete_iff_drawn_ge_total (g : Stim) (h : g.WFs) (T : Nat) (hT : g.total = some T)
    (hfresh : g.drawn = 0) (ns : List Nat) :
    (stateAfter stimGen g ns).complete = true ↔ T ≤ ns.sum := by
  have hd := drawn_stateAfter g h ns
  have ht : (stateAfter stimGen g ns).total = some T := by rw [hd.2]; exact hT
  have := (remaining_of_total _ T ht).2.1
  rw [this, hd.1, hfresh, Nat.zero_add]
  simp

example : (Stim.gate 3 4 0 (.leaf 0 0)).total = some 7 := rfl
example : (Stim.gate 3 4 0 (.sqenv 1 ⟨7 / 2, 2⟩ 0 (.leaf 0 0))).WFs :=
  Stim.WF.wfs (g := .gate 3 4 0 (.sqenv 1 ⟨7 / 2, 2⟩ 0 (.leaf 0 0))) ⟨by decide +kernel, trivial⟩
example : (stateAfter stimGen (Stim.gate 3 4 0 (.leaf 0 0)) [2, 4, 5]).remaining = .fin 0 := by decide
example : (stateAfter stimGen (Stim.gate 3 4 0 (.leaf 0 0)) [2, 4]).complete = false := by decide

/-- Gate: along every history every sample before the start and any amount past the end is the
forced zero. -/
theorem gate_zero_outside (start dur off : Nat) (inner : Stim) (h : inner.WFs) (ns : List Nat)
    (i : Nat) (c : Cell) (hc : (drawAll stimGen (.gate start dur off inner) ns)[i]? = some c)
    (hout : off + i < start ∨ start + dur ≤ off + i) : c = .z := by
  rw [drawAll_getElem? _ (show (Stim.gate start dur off inner).WFs from h)] at hc
  simp only [Stim.next] at hc
  rw [gateMask_eq_applyAt, applyAt_getElem?] at hc
  cases hx : ((inner.next ns.sum).1)[i]? with
  | none => rw [hx] at hc; cases hc
  | some x =>
    rw [hx] at hc
    simp only [Option.map_some, Option.some.injEq, gateAt] at hc
    rw [if_neg (by omega)] at hc
    exact hc.symm

/-- Envelope: outside `[start, start+duration)` every sample is the product of an exact zero
envelope value with the carrier sample. -/
theorem envelope_zero_outside (id : Nat) (p : EnvP) (off : Nat) (inner : Stim)
    (h : (Stim.env id p off inner).WFs) (ns : List Nat)
    (i : Nat) (c : Cell) (hc : (drawAll stimGen (.env id p off inner) ns)[i]? = some c)
    (hout : off + i < p.start ∨ p.start + p.dur ≤ off + i) : c.isZero = true := by
  rw [drawAll_getElem? _ h] at hc
  simp only [Stim.next] at hc
  rw [envelope_ok _ p h.1] at hc
  simp only [] at hc
  rw [zipWith_slice _ _ _ _ (Stim.next_length inner h.2 _), applyAt_getElem?] at hc
  cases hx : ((inner.next ns.sum).1)[i]? with
  | none => rw [hx] at hc; cases hc
  | some x =>
    rw [hx] at hc
    simp only [Option.map_some, Option.some.injEq] at hc
    rw [← hc]
    have hz : envAt (Cell.a .ramp id) p.start p.dur p.riseN (off + i) = Cell.z := by
      have := h.1
      unfold envAt
      rcases hout with ho | ho
      · rw [if_pos ho]; rfl
      · rw [if_neg (by omega), if_neg (by omega), if_neg (by omega), if_neg (by omega)]; rfl
    rw [hz]
    rfl

/-- Fixed / repeated waveform: any amount past the end of the array is the forced zero. -/
theorem fixed_zero_past_end (w : List Cell) (off : Nat) (ns : List Nat) (i : Nat) (c : Cell)
    (hc : (drawAll stimGen (.fixed w off) ns)[i]? = some c) (hout : w.length ≤ off + i) : c = .z := by
  rw [drawAll_getElem? _ (show (Stim.fixed w off).WFs from trivial)] at hc
  simp only [Stim.next] at hc
  rw [fixedNext_eq_slice, slice_getElem?] at hc
  split at hc
  · simp only [Option.some.injEq, fixedAt] at hc
    rw [List.getElem?_eq_none hout] at hc
    exact hc.symm
  · cases hc

example : (drawAll stimGen (.gate 1 2 0 (.leaf 0 0)) [2, 3])[4]? = some .z := by decide

/-- **Envelope shape**: the full envelope is `start` zeros, then exactly `rise` cells
`R 0 … R (rise-1)` (first half of the window), then exact ones, then `R rise … R (2·rise-1)`
(second half of the same window). -/
theorem envelope_shape {α : Type} [Sample α] (ramp : Nat → α) (p : EnvP) (h : p.riseN * 2 ≤ p.dur) :
    envelope ramp p 0 (p.start + p.dur)
      = .ok (List.replicate p.start Sample.zero ++ ((List.range p.riseN).map ramp
          ++ (List.replicate (p.dur - 2 * p.riseN) Sample.one
          ++ (List.range p.riseN).map fun i => ramp (p.riseN + i)))) := by
  unfold envelope
  rw [if_neg (by omega), envelopeFrag_full ramp p.start p.dur p.riseN (by omega)]

example : envelopeFrag (Cell.a .ramp 0) 1 5 2 0 6
    = [.z, .a .ramp 0 0, .a .ramp 0 1, .o, .a .ramp 0 2, .a .ramp 0 3] := by decide

/-- A rise time is rejected (ValueError) exactly when it is longer than half the duration. -/
theorem envelope_rejects_iff {α : Type} [Sample α] (ramp : Nat → α) (p : EnvP) (off n : Nat) :
    envelope ramp p off n = .error .valueError ↔ p.dur < 2 * p.riseN := by
  unfold envelope
  constructor
  · intro h
    split at h
    · omega
    · cases h
  · intro h
    rw [if_pos (by omega)]

/-- The factory raises exactly under the same condition. -/
theorem envelope_factory_rejects_iff (id : Nat) (p : EnvP) (off : Nat) (inner : Stim) (hi : inner.error? = none) :
    (Stim.env id p off inner).error? = some .valueError ↔ p.dur < 2 * p.riseN := by
  simp only [Stim.error?, hi]
  constructor
  · intro h
    split at h
    · omega
    · cases h
  · intro h
    rw [if_pos (by omega)]

example : envelope (Cell.a .ramp 0) ⟨0, 5, some 3⟩ 0 5 = .error .valueError := rfl

/-- `rise_time=None` means half the duration (rounded down). -/
theorem rise_none_is_half_duration (start dur : Nat) : (⟨start, dur, none⟩ : EnvP).riseN = dur / 2 := rfl

/-- The cosine-squared window `sin²` stays within `[0, 1]` (over the reals). -/
theorem cos2ramp_in_unit_interval (x : ℝ) : 0 ≤ Real.sin x ^ 2 ∧ Real.sin x ^ 2 ≤ 1 :=
  ⟨sq_nonneg _, Real.sin_sq_le_one x⟩

end Psi.Stim
