import PsiModel.Stim
namespace Psi.Stim
theorem c09_placeholder : (1 : Nat) = 1 := rfl
end Psi.Stim
