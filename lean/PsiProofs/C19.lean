import PsiProofs.Helper.C19_Check
import PsiGen.Names
/-!
# C19 — no code path can fail on an unresolved name

General theorems (for every scope table): `resolve_sound`, `resolve_complete`, `chainOk_iff`,
`checkEx_iff` (Helper files).  Here: the property for the package under test, obtained by
kernel evaluation of the proved-correct checker on the table regenerated from the sources
(`PsiGen/Names.lean`), plus non-vacuity examples.
-/
namespace Psi.Scope

/-- Soundness of the checker in the form quoted in DESIGN §6: if `check` accepts a package then every
    load of every scope resolves, and every attribute chain off a module import exists. -/
theorem check_sound (p : Package) (h : check p = true) :
    ∀ (mi : Nat) (m : Module), p.modules[mi]? = some m →
      ∀ (i : Nat) (s : Scope), m.scopes[i]? = some s →
        (∀ l ∈ s.loads, Resolves p.builtins m.scopes i l.1) ∧
        (∀ c ∈ s.chains, ∀ w mo, BoundAt p.builtins m.scopes i c.base w →
            importedModule m.scopes i c.base w = some mo → AttrExists p.modobjs mo c.path) := by
  intro mi m hm i s hs
  have := ((checkEx_iff p []).1 h mi m hm).2.1 i s hs
  exact ⟨fun l hl => (this.1 l hl).resolve_right (by simp), this.2⟩

/-- On well-formed tables an unresolved name is exactly a `none` of `resolve`. -/
theorem resolve_none_iff {bi m i n} (wf : WF m) : resolve bi m i n = none ↔ ¬ Resolves bi m i n := by
  rw [← resolves_iff wf]; cases resolve bi m i n <;> simp

end Psi.Scope

namespace Psi.Gen
open Psi.Scope

/-- **C19 for the package under test** (table regenerated from the sources on every check):
    every name load in every scope of every module of `psiaudio` resolves — except the loads listed in
    `Names.excused` (recorded known findings; `[]` when there are none, and then this is the full
    property) —, every attribute read off an imported module exists in that module, and every
    `from M import a` names an existing attribute. -/
theorem psiaudio_names_resolve_partial : PackageOK Names.package Names.excused :=
  (checkEx_iff _ _).1 (by decide +kernel)

/-- The excused loads are genuine defects: none of them resolves. -/
theorem psiaudio_excused_unresolved_counterexample :
    ∀ e ∈ Names.excused, ∃ m, Names.package.modules[e.1]? = some m ∧
      ¬ Resolves Names.package.builtins m.scopes e.2.1 e.2.2 := by
  have h : Names.excused.all (fun e =>
      match Names.package.modules[e.1]? with
      | some m => (resolve Names.package.builtins m.scopes e.2.1 e.2.2).isNone
      | none => false) = true := by decide +kernel
  intro e he
  have := List.all_eq_true.1 h e he
  split at this
  · rename_i m hm
    refine ⟨m, hm, ?_⟩
    have wf : WF m.scopes := (psiaudio_names_resolve_partial e.1 m hm).1
    rw [← resolve_none_iff wf]
    cases hr : resolve Names.package.builtins m.scopes e.2.1 e.2.2 <;> simp_all
  · cases this

end Psi.Gen

/-! ### Non-vacuity: a hand-made table exercising class-scope skipping, closures, `global`, builtins -/
namespace Psi.Scope.Example

/-  names: 0 = `len` (builtin), 1 = `x` (module global), 2 = `y` (class attribute), 3 = `a` (parameter),
    4 = `np` (import), 5 = `pi`, 6 = `nope`, 7 = `__class__`
    scope 0 module: binds x, np, C, f      scope 1 class C: binds y, m; reads x
    scope 2 method m (parent 1): reads x, y, len, __class__      scope 3 function f(a): binds a, g
    scope 4 nested g (parent 3): reads a, np.pi, np.nope -/
def scopes (readY : Bool) : List Scope :=
  [ { kind := .module, parent := 0, bound := [1, 4, 10, 11], globals := [], nonlocals := [], cells := [],
      imports := [(4, 0)], loads := [], chains := [] },
    { kind := .class, parent := 0, bound := [2, 12], globals := [], nonlocals := [], cells := [7],
      imports := [], loads := [(1, 3)], chains := [] },
    { kind := .function, parent := 1, bound := [], globals := [], nonlocals := [], cells := [],
      imports := [], loads := [(1, 5), (0, 5), (7, 5)] ++ (if readY then [(2, 5)] else []), chains := [] },
    { kind := .function, parent := 0, bound := [3, 13], globals := [], nonlocals := [], cells := [],
      imports := [], loads := [], chains := [] },
    { kind := .function, parent := 3, bound := [], globals := [], nonlocals := [], cells := [],
      imports := [], loads := [(3, 9), (4, 9)], chains := [⟨4, [5], 9⟩] } ]

def pkg (readY : Bool) : Package :=
  { builtins := [0], modobjs := [{ attrs := [5], submods := [] }],
    modules := [{ scopes := scopes readY, fromImports := [(0, 5, 1)] }] }

example : check (pkg false) = true := by decide
/-- the method reads the class attribute `y` as a bare name: Python skips the class scope -/
example : check (pkg true) = false := by decide
example : resolve [0] (scopes true) 2 2 = none := by decide
example : ¬ Resolves [0] (scopes true) 2 2 :=
  (resolve_none_iff (wf_of_allIdx (by decide))).1 (by decide)
example : BoundAt [0] (scopes false) 4 3 (.enclosing 3) := resolve_sound (by decide)
example : BoundAt [0] (scopes false) 2 7 (.cell 1) := resolve_sound (by decide)
example : BoundAt [0] (scopes false) 2 0 .builtin := resolve_sound (by decide)
example : AttrExists (pkg false).modobjs 0 [5] := (chainOk_iff _ _).1 (by decide)
example : ¬ AttrExists (pkg false).modobjs 0 [6] := fun h => by
  have := (chainOk_iff _ _).2 h; revert this; decide
/-- the generated package is not empty: it has modules, scopes and loads -/
example : 10 ≤ Psi.Gen.Names.package.modules.length := by decide +kernel
example : 1000 ≤ (Psi.Gen.Names.package.modules.map fun m => (m.scopes.map fun s => s.loads.length).sum).sum := by
  decide +kernel

end Psi.Scope.Example
