import PsiProofs.C02
import PsiProofs.Helper.C02_NDProps
/-!
C02 for histories that mix `pop_buffer(n)` and `pop_buffer(n, decrement=False)`.

`popBufferND` is the code-faithful loop with `next_trial(decrement=False)` (`PsiModel/Queue.lean`);
`tickD dec` / `runSched` is the per-sample specification with the request's flag in force at each sample
instant (`PsiModel/QueueSpec.lean`). What carries over from C02, and what changes:

* a request of either kind is `n` steps of the per-sample timeline run with its flag
  (`popBufferND_refines`, `popReq_sched`);
* a history is determined by its *decrement schedule* (the flag at every sample instant): two histories
  with the same schedule agree in output, final state and `added` log (`popHist_chunk_invariant`).
  Moving a request boundary across a change of flag changes the schedule, and the result
  (see the last examples);
* clock, timeline, exact gaps, embedded waveforms and zeros elsewhere hold for every mixed history
  exactly as for `decrement=True` histories (`clock_eq_hist` … `uncovered_zero_hist`);
* a `decrement=False` request changes no counter, removes no key from the ordering and does not touch
  the completion flag (`popnd_counters_unchanged`), so the same stimuli keep being selected.

As in C02, all theorems hold for every policy, every oracle of random choices and every `WF` state.
-/
namespace Psi.Queue

/-- one request: `pop n` = `pop_buffer(n)`, `popnd n` = `pop_buffer(n, decrement=False)` -/
inductive Req
  | pop (n : Nat)
  | popnd (n : Nat)
  deriving DecidableEq, Repr

def Req.size : Req → Nat
  | .pop n => n
  | .popnd n => n

/-- the `decrement` argument of the request -/
def Req.dec : Req → Bool
  | .pop _ => true
  | .popnd _ => false

def popReq : Req → QState → Except Err (List Cell × QState)
  | .pop n, s => popBuffer n s
  | .popnd n, s => popBufferND n s

/-- a sequence of requests of both kinds; outputs concatenated -/
def popHist : List Req → QState → Except Err (List Cell × QState)
  | [], s => .ok ([], s)
  | r :: rs, s =>
    match popReq r s with
    | .error e => .error e
    | .ok (o, s') =>
      match popHist rs s' with
      | .error e => .error e
      | .ok (os, s'') => .ok (o ++ os, s'')

/-- the decrement schedule of a history: the flag in force at each sample instant -/
def schedOf : List Req → List Bool
  | [] => []
  | r :: rs => List.replicate r.size r.dec ++ schedOf rs

/-- total number of samples requested -/
def histSize (h : List Req) : Nat := (h.map Req.size).sum

theorem schedOf_length (h : List Req) : (schedOf h).length = histSize h := by
  induction h with
  | nil => rfl
  | cons r rs ih => simp [schedOf, histSize, ih] at *

/-! ### (a) one `decrement=False` request -/

/-- **Refinement, `decrement=False`.** One `pop_buffer(n, decrement=False)` request of any size is `n`
steps of the per-sample timeline run with the flag off (same output, same final state including the
`added` log, same error). The exact counterpart of `popBuffer_refines`. -/
theorem popBufferND_refines {n : Nat} {s : QState} (hw : WF s) (hn : 0 < n) :
    popBufferND n s = runTicksD false n s := by
  unfold popBufferND
  rw [if_neg (by omega), popLoopND_eq_G,
    popLoopG_eq_runTicksG NTOK_nextTrialND _ _ _ hw (by have := slack_le s; omega), runTicksD_eq_G]
  rfl

/-- `popBuffer_refines`, restated with the flag-indexed specification (flag on). -/
theorem popBuffer_refinesD {n : Nat} {s : QState} (hw : WF s) (hn : 0 < n) :
    popBuffer n s = runTicksD true n s := by
  rw [popBuffer_refines hw hn, runTicksD_true]

/-- either kind of request is its block of the schedule -/
theorem popReq_sched {r : Req} {s : QState} (hw : WF s) (hr : 0 < r.size) :
    popReq r s = runSched (List.replicate r.size r.dec) s := by
  cases r with
  | pop n => exact popBuffer_refinesD hw hr
  | popnd n => exact popBufferND_refines hw hr

/-- **Chunk invariance (two `decrement=False` requests).** Output, final state and notification log of
`pop_buffer(a+b, decrement=False)` equal those of the two requests of `a` and `b` samples. -/
theorem popBufferND_append {a b : Nat} {s : QState} (hw : WF s) (ha : 0 < a) (hb : 0 < b) :
    popBufferND (a + b) s =
      match popBufferND a s with
      | .error e => .error e
      | .ok (o1, s1) =>
        match popBufferND b s1 with
        | .error e => .error e
        | .ok (o2, s2) => .ok (o1 ++ o2, s2) := by
  rw [popBufferND_refines hw (by omega), popBufferND_refines hw ha]
  unfold runTicksD
  rw [← List.replicate_append_replicate, runSched_append]
  cases h : runSched (List.replicate a false) s with
  | error e => rfl
  | ok r =>
    obtain ⟨o1, s1⟩ := r
    simp only
    rw [popBufferND_refines (runSched_inv _ hw h).1 hb]
    rfl

/-! ### (b) mixed histories -/

/-- a history that succeeds has only positive request sizes (`pop_buffer(0)` raises ValueError) -/
theorem popHist_ok_pos {h : List Req} {s : QState} {r : List Cell × QState}
    (hok : popHist h s = .ok r) : ∀ q ∈ h, 0 < q.size := by
  induction h generalizing s r with
  | nil => intro q hq; simp at hq
  | cons a rs ih =>
    rw [popHist] at hok
    cases h1 : popReq a s with
    | error e => simp [h1] at hok
    | ok r1 =>
      obtain ⟨o, s1⟩ := r1
      simp only [h1] at hok
      cases h2 : popHist rs s1 with
      | error e => simp [h2] at hok
      | ok r2 =>
        intro q hq
        rcases List.mem_cons.1 hq with rfl | hq
        · rcases Nat.eq_zero_or_pos q.size with h0 | h0
          · cases q <;> simp only [Req.size] at h0 <;> subst h0 <;>
              simp [popReq, popBuffer, popBufferND] at h1
          · exact h0
        · exact ih h2 q hq

/-- **A history is its decrement schedule.** A sequence of requests of both kinds (positive sizes) is
the per-sample timeline run with, at each sample instant, the flag of the request that covers it: same
output, same final state including the `added` log, same error. -/
theorem popHist_sched {h : List Req} {s : QState} (hw : WF s) (hpos : ∀ r ∈ h, 0 < r.size) :
    popHist h s = runSched (schedOf h) s := by
  induction h generalizing s with
  | nil => rfl
  | cons r rs ih =>
    rw [popHist, schedOf, runSched_append, popReq_sched hw (hpos r (by simp))]
    cases h1 : runSched (List.replicate r.size r.dec) s with
    | error e => rfl
    | ok r1 =>
      obtain ⟨o, s1⟩ := r1
      simp only
      rw [ih (runSched_inv _ hw h1).1 (fun q hq => hpos q (by simp [hq]))]
      rfl

/-- **Chunk invariance for mixed histories.** Two histories (positive sizes) that apply the same flag at
every sample instant give the same output, final state and `added` log (and the same error). In
particular adjacent requests of the same kind can be merged or split at will. Re-chunking ACROSS a change
of flag is not covered and not invariant: `[pop 5, popnd 4]` and `[pop 6, popnd 3]` differ in the
counters when a trial starts at sample 5 (examples at the end of the file). -/
theorem popHist_chunk_invariant {h1 h2 : List Req} {s : QState} (hw : WF s)
    (hp1 : ∀ r ∈ h1, 0 < r.size) (hp2 : ∀ r ∈ h2, 0 < r.size) (he : schedOf h1 = schedOf h2) :
    popHist h1 s = popHist h2 s := by
  rw [popHist_sched hw hp1, popHist_sched hw hp2, he]

/-- a history of `pop_buffer(n)` requests only is C02's `popAll` -/
theorem popHist_pop (ns : List Nat) (s : QState) : popHist (ns.map Req.pop) s = popAll ns s := by
  induction ns generalizing s with
  | nil => rfl
  | cons n ns ih =>
    simp only [List.map_cons, popHist, popAll, popReq]
    cases popBuffer n s with
    | error e => rfl
    | ok r => obtain ⟨o, s'⟩ := r; simp only [ih]; rfl

/-! ### (c) clock -/

/-- well-formedness survives every mixed history -/
theorem WF_hist {h : List Req} {s s' : QState} {out : List Cell} (hw : WF s)
    (hok : popHist h s = .ok (out, s')) : WF s' := by
  rw [popHist_sched hw (popHist_ok_pos hok)] at hok
  exact (runSched_inv _ hw hok).1

/-- **Clock.** After a mixed history the clock has advanced by exactly the total number of samples
requested and exactly that many samples were returned. -/
theorem clock_eq_hist {h : List Req} {s s' : QState} {out : List Cell} (hw : WF s)
    (hok : popHist h s = .ok (out, s')) :
    s'.samples = s.samples + (histSize h : Nat) ∧ out.length = histSize h := by
  rw [popHist_sched hw (popHist_ok_pos hok)] at hok
  have := (runSched_inv _ hw hok).2
  rwa [schedOf_length] at this

/-! ### (d) timeline -/

/-- **Timeline.** From a state with nothing pending, the output of a mixed history followed by what is
still committed equals the rendering of the newly notified trials (each waveform in full, then its delay
in zeros) followed by zeros. -/
theorem timeline_hist {h : List Req} {s s' : QState} {out : List Cell} (hw : WF s) (hf : Fresh s)
    (hok : popHist h s = .ok (out, s')) :
    ∃ new z, s'.added = s.added ++ new ∧ out ++ rest s' = render new ++ zeros z ∧
      PosOK s.samples new := by
  rw [popHist_sched hw (popHist_ok_pos hok)] at hok
  obtain ⟨_, _, new, z, ha, he, _, hp⟩ := TL_runSched _ (TL_init s hf.1) hok
  have hr : rest s = [] := by simp [rest, hf.2.1, hf.2.2]
  simp only [hr, List.nil_append, List.length_nil] at he hp
  exact ⟨new, z, ha, he, by simpa using hp⟩

/-- **Starts on the grid, gaps exact.** The first new trial starts at the clock of the fresh state; each
further trial starts exactly `len + delay` samples after the previous one — whichever kind of request
started either of them. -/
theorem gap_exact_hist {h : List Req} {s s' : QState} {out : List Cell} (hw : WF s) (hf : Fresh s)
    (hok : popHist h s = .ok (out, s')) :
    ∃ new, s'.added = s.added ++ new ∧
      (∀ h0 : 0 < new.length, new[0].k = s.samples) ∧
      (∀ j (hj : j + 1 < new.length),
        new[j + 1].k = new[j].k + (new[j].len : Nat) + (new[j].delay.toNat : Nat)) := by
  obtain ⟨new, z, ha, _, hp⟩ := timeline_hist hw hf hok
  exact ⟨new, ha, gap_exact_of hp⟩

/-- **Waveform embedded in full.** From the notified start sample on, the output of a mixed history is
the queued waveform, sample for sample, for its full length (as far as the output reaches). -/
theorem waveform_embedded_hist {h : List Req} {s s' : QState} {out : List Cell} (hw : WF s)
    (hf : Fresh s) (hok : popHist h s = .ok (out, s')) :
    ∃ new, s'.added = s.added ++ new ∧
      ∀ j (hj : j < new.length) (i : Nat), i < new[j].len →
        ∀ p : Nat, new[j].k + (i : Nat) = s.samples + (p : Nat) → p < histSize h →
          out[p]? = some (Cell.W new[j].key i) := by
  obtain ⟨new, z, ha, he, hp⟩ := timeline_hist hw hf hok
  exact ⟨new, ha, waveform_embedded_of he hp (clock_eq_hist hw hok).2⟩

/-- **Everything else is zero.** Every sample returned by a mixed history is either zero or sample `i`
of a notified trial located at `k + i`. -/
theorem uncovered_zero_hist {h : List Req} {s s' : QState} {out : List Cell} (hw : WF s)
    (hf : Fresh s) (hok : popHist h s = .ok (out, s')) :
    ∃ new, s'.added = s.added ++ new ∧
      ∀ p : Nat, p < histSize h → out[p]? = some Cell.Z ∨
        ∃ j, ∃ hj : j < new.length, ∃ i, i < new[j].len ∧
          new[j].k + (i : Nat) = s.samples + (p : Nat) ∧ out[p]? = some (Cell.W new[j].key i) := by
  obtain ⟨new, z, ha, he, hp⟩ := timeline_hist hw hf hok
  exact ⟨new, ha, uncovered_zero_of he hp (clock_eq_hist hw hok).2⟩

/-! ### (e) what `decrement=False` changes -/

/-- **No counter changes.** A `pop_buffer(n, decrement=False)` request leaves the ordering (no key is
removed), the completion flag and the remaining-trials counter of every key as they were. (With
`decrement=True` each notified trial decrements its key's counter and may remove keys / set the flag.) -/
theorem popnd_counters_unchanged {n : Nat} {s s' : QState} {out : List Cell}
    (h : popBufferND n s = .ok (out, s')) :
    s'.ordering = s.ordering ∧ s'.complete = s.complete ∧ ∀ k, trialsOf s' k = trialsOf s k := by
  unfold popBufferND at h
  split at h
  · simp at h
  · exact popLoopND_counters _ _ h

/-- the same for a whole history of `decrement=False` requests -/
theorem popHist_nd_counters_unchanged {h : List Req} {s s' : QState} {out : List Cell}
    (hnd : ∀ r ∈ h, r.dec = false) (hok : popHist h s = .ok (out, s')) :
    s'.ordering = s.ordering ∧ s'.complete = s.complete ∧ ∀ k, trialsOf s' k = trialsOf s k := by
  induction h generalizing s out with
  | nil => simp [popHist] at hok; obtain ⟨_, rfl⟩ := hok; exact ⟨rfl, rfl, fun _ => rfl⟩
  | cons r rs ih =>
    rw [popHist] at hok
    cases h1 : popReq r s with
    | error e => simp [h1] at hok
    | ok r1 =>
      obtain ⟨o, s1⟩ := r1
      simp only [h1] at hok
      cases h2 : popHist rs s1 with
      | error e => simp [h2] at hok
      | ok r2 =>
        obtain ⟨os, s2⟩ := r2
        simp only [h2, Except.ok.injEq, Prod.mk.injEq] at hok
        obtain ⟨_, rfl⟩ := hok
        have a : SameCounters s s1 := by
          cases r with
          | pop n => have := hnd (.pop n) (by simp); simp [Req.dec] at this
          | popnd n => exact popnd_counters_unchanged h1
        have b : SameCounters s1 s2 := ih (fun q hq => hnd q (by simp [hq])) h2
        exact a.trans b

/-! ### Non-vacuity: a concrete queue (`demo` of C02: interleaved, key 0 = 3 samples, 2 trials, delay 2;
key 1 = 2-sample generator, 1 trial, delays 0, 1), mixed histories -/

/-- what the examples compare: output, (key, start) log, counters, ordering, completion flag -/
structure View where
  out : List Cell
  log : List (Nat × Int)
  trials : List Int
  ordering : List Nat
  complete : Bool
  deriving DecidableEq, Repr

def view (r : Except Err (List Cell × QState)) : Option View :=
  r.toOption.map (fun r => ⟨r.1, r.2.added.map (fun i => (i.key, i.k)), r.2.data.map (·.trials),
    r.2.ordering, r.2.complete⟩)

-- a mixed history: same timeline as `popBuffer 9 demo`, only the trials started under `pop` are counted
example : view (popHist [.pop 4, .popnd 3, .pop 2] demo) =
    some ⟨[.W 0 0, .W 0 1, .W 0 2, .Z, .Z, .W 1 0, .W 1 1, .W 0 0, .W 0 1],
      [(0, 0), (1, 5), (0, 7)], [0, 1], [0, 1], false⟩ := by decide
example : view (popBuffer 9 demo) =
    some ⟨[.W 0 0, .W 0 1, .W 0 2, .Z, .Z, .W 1 0, .W 1 1, .W 0 0, .W 0 1],
      [(0, 0), (1, 5), (0, 7)], [0, 0], [0, 1], true⟩ := by decide
-- `decrement=False` only: the same output, no counter moved
example : view (popBufferND 9 demo) =
    some ⟨[.W 0 0, .W 0 1, .W 0 2, .Z, .Z, .W 1 0, .W 1 1, .W 0 0, .W 0 1],
      [(0, 0), (1, 5), (0, 7)], [2, 1], [0, 1], false⟩ := by decide
-- same schedule, different chunking: equal
example : schedOf [.pop 4, .popnd 3, .pop 2] = schedOf [.pop 1, .pop 3, .popnd 2, .popnd 1, .pop 2] := by
  decide
example : view (popHist [.pop 1, .pop 3, .popnd 2, .popnd 1, .pop 2] demo) =
    view (popHist [.pop 4, .popnd 3, .pop 2] demo) := by decide
-- re-chunking across a change of flag is NOT invariant: the trial starting at sample 5 is counted or not
example : view (popHist [.pop 5, .popnd 4] demo) ≠ view (popHist [.pop 6, .popnd 3] demo) := by decide
example : (view (popHist [.pop 5, .popnd 4] demo)).map (·.trials) = some [1, 1] ∧
    (view (popHist [.pop 6, .popnd 3] demo)).map (·.trials) = some [1, 0] := by decide

end Psi.Queue
