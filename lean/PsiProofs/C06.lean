import PsiProofs.Helper.C06_Rounding
import PsiProofs.C05
/-!
# C06 — end to end, every presented trial is recovered sample-exactly

Two ingredients (DESIGN §6 C06):

1. `seconds_samples_roundtrip*` — real-number theorem about the only place where the queue and
   the extractor talk in seconds: the queue publishes `t0' = fl(T + fl(k/fs))` from its integer
   sample clock `k`, the extractor computes `round(fl(fl(t0' − p)·fs))`.  In the standard model
   of floating point (`|fl x − x| ≤ u|x|`) the result is the integer the queue meant, whenever
   the exact value is farther than `6u·(T·fs + k + p·fs)` from a half-sample tie.
   **Partial** in the sense spelled out by its hypotheses: `fl` is the standard model (IEEE
   conformance of the platform is assumed, not proved), no overflow/underflow, and the band
   around ties is excluded (the property excludes exact ties; the band is `≤ 2⁻⁴` samples for
   positions up to 2⁴⁹).

2. `e2e_kept` / `e2e_cancelled` — the discrete composition, stated over an *abstract* queue:
   the hypotheses are exactly what the queue model's theorems (C02 `waveform_embedded`,
   `uncovered_zero`; C04 `pause_cancels_exactly`) must provide; the conclusions follow from the
   C05 theorems.  Plugging a concrete queue model in is left to the integrator.
-/
namespace Psi.C06
open Psi.Rounding Psi.Extract

/-! ## 1. seconds ↔ samples -/

/-- **Round trip (general form).**  If the exact position `(T + k/fs − p)·fs` is within
`1/2 − 6u·(T + k/fs + p)·fs` of the integer `n`, then the floating-point value handed to `round`
lies strictly inside `(n − 1/2, n + 1/2)`: every round-to-nearest function — whatever its
tie-breaking rule, Python's half-even included — returns `n`. -/
theorem seconds_samples_roundtrip {u : ℝ} {fl : ℝ → ℝ} (hu0 : 0 ≤ u) (hu1 : u ≤ 1 / 100) (hfl : IsFl u fl)
    (T fs p : ℝ) (k : ℕ) (hfs : 0 < fs) (hT : 0 ≤ T) (hp : 0 ≤ p) (n : ℤ)
    (hclose : |(T + (k : ℝ) / fs - p) * fs - n| + 6 * u * ((T + (k : ℝ) / fs + p) * fs) < 1 / 2) :
    |extractorArg fl T fs p k - n| < 1 / 2 ∧ round (extractorArg fl T fs p k) = n := by
  have herr := extractorArg_error hu0 hu1 hfl T fs p k hfs hT hp
  have h1 : |extractorArg fl T fs p k - n| < 1 / 2 := by
    have := abs_sub_le (extractorArg fl T fs p k) ((T + (k : ℝ) / fs - p) * fs) (n : ℝ)
    linarith
  exact ⟨h1, round_eq_of_close _ _ h1⟩

/-- **Round trip, on-grid start and pre-stimulus time.**  Queue start `T = K₀/fs` and
`p = P/fs` exactly (as reals), positions small enough that `6u·(K₀ + k + P) < 1/2`: the extractor
recovers exactly `K₀ + k − P`. -/
theorem seconds_samples_roundtrip_grid {u : ℝ} {fl : ℝ → ℝ} (hu0 : 0 ≤ u) (hu1 : u ≤ 1 / 100)
    (hfl : IsFl u fl) (T fs p : ℝ) (k K0 P : ℕ) (hfs : 0 < fs)
    (hT : T * fs = K0) (hp : p * fs = P)
    (hsmall : 6 * u * ((K0 : ℝ) + k + P) < 1 / 2) :
    round (extractorArg fl T fs p k) = (K0 : ℤ) + k - P := by
  have hT0 : 0 ≤ T := by
    have : 0 ≤ T * fs := by rw [hT]; positivity
    exact nonneg_of_mul_nonneg_left this hfs
  have hp0 : 0 ≤ p := by
    have : 0 ≤ p * fs := by rw [hp]; positivity
    exact nonneg_of_mul_nonneg_left this hfs
  have hne : fs ≠ 0 := hfs.ne'
  have hx : (T + (k : ℝ) / fs - p) * fs = (K0 : ℝ) + k - P := by
    have : (T + (k : ℝ) / fs - p) * fs = T * fs + k - p * fs := by field_simp
    rw [this, hT, hp]
  have hM : (T + (k : ℝ) / fs + p) * fs = (K0 : ℝ) + k + P := by
    have : (T + (k : ℝ) / fs + p) * fs = T * fs + k + p * fs := by field_simp
    rw [this, hT, hp]
  refine (seconds_samples_roundtrip hu0 hu1 hfl T fs p k hfs hT0 hp0 ((K0 : ℤ) + k - P) ?_).2
  rw [hx, hM]
  have : ((K0 : ℝ) + k - P) - (((K0 : ℤ) + (k : ℤ) - (P : ℤ) : ℤ) : ℝ) = 0 := by push_cast; ring
  rw [this, abs_zero]
  linarith

/-- **Round trip, binary64.**  With unit round-off `u = 2⁻⁵³` every position up to `2⁴⁹` samples
(3.3 years at 195 kHz… 2.8·10⁹ s at 200 kHz) is recovered exactly. -/
theorem seconds_samples_roundtrip_binary64 {fl : ℝ → ℝ} (hfl : IsFl ((2 : ℝ) ^ (-53 : ℤ)) fl)
    (T fs p : ℝ) (k K0 P : ℕ) (hfs : 0 < fs) (hT : T * fs = K0) (hp : p * fs = P)
    (hsmall : K0 + k + P ≤ 2 ^ 49) :
    round (extractorArg fl T fs p k) = (K0 : ℤ) + k - P := by
  have hu : (2 : ℝ) ^ (-53 : ℤ) = 1 / 2 ^ 53 := by
    rw [zpow_neg, one_div]; norm_cast
  apply seconds_samples_roundtrip_grid (by positivity) (by rw [hu]; norm_num) hfl T fs p k K0 P hfs hT hp
  have hs : ((K0 : ℝ) + k + P) ≤ 2 ^ 49 := by exact_mod_cast hsmall
  rw [hu]
  have : 6 * (1 / 2 ^ 53 : ℝ) * ((K0 : ℝ) + k + P) ≤ 6 * (1 / 2 ^ 53) * 2 ^ 49 :=
    mul_le_mul_of_nonneg_left hs (by positivity)
  have h2 : (6 : ℝ) * (1 / 2 ^ 53) * 2 ^ 49 = 3 / 8 := by norm_num
  linarith

/-- non-vacuity: the exact function is an `fl`, and the hypotheses of the binary64 form are met by
fs = 97656.25 Hz, queue start 5 samples, 1 000 000 samples generated, 3 samples pre-stimulus -/
example : round (extractorArg (fun x => x) (5 / 97656.25) 97656.25 (3 / 97656.25) 1000000) = 1000002 := by
  have := seconds_samples_roundtrip_binary64 (fl := fun x => x) (by intro x; simp)
    (5 / 97656.25) 97656.25 (3 / 97656.25) 1000000 5 3 (by norm_num) (by norm_num) (by norm_num) (by norm_num)
  simpa using this

/-! ## 2. composition over an abstract queue -/

/-- A trial as seen at the interface: the request the extractor derives from the queue's
`added` notification (`key`, `s = K − P`, `len = L`), and the source waveform. -/
structure Trial (α : Type) where
  req : Request
  wave : List α

/-- What the queue theorems must say about a kept trial, on the played stream: from the
trial's first sample (`s + P`) the stream holds the waveform, then silence, for the rest of the
epoch (C02 `waveform_embedded` + `uncovered_zero`, using `L − P ≤ len + delay`). -/
def Embedded {α} (zero : α) (stream : List α) (P : Nat) (t : Trial α) : Prop :=
  slice stream (t.req.s.toNat + P) (t.req.len - P) =
    t.wave ++ List.replicate (t.req.len - P - t.wave.length) zero

theorem slice_drop {α} (S : List α) (a n P : Nat) : (slice S a n).drop P = slice S (a + P) (n - P) := by
  simp only [slice]
  rw [List.drop_take, List.drop_drop]

/-- **End to end, kept trial.**  Hypotheses (to be discharged from the queue model):
the extractor history is valid (`hv`: keys distinct, one epoch length, request visible within the
look-back window — the queue notifies at generation time, i.e. before the samples are acquired);
the trial's request arrives in call `opj`; no removal naming it is seen until the acquired
stream reaches its last sample (the trial is not cancelled, C04); the stream holds the
waveform then silence there (C02).  Conclusion: exactly one epoch is delivered for it, and after
the `P` pre-stimulus samples it is bit-for-bit the waveform followed by silence. -/
theorem e2e_kept {α} (zero : α) (B L P : Nat) (pre mid post : List (Op α)) (opj : Op α) (t : Trial α)
    (hv : Valid B L (pre ++ (opj :: mid) ++ post)) (hr : t.req ∈ opj.reqs)
    (hnorem : ∀ o ∈ opj :: mid, t.req.key ∉ o.rems)
    (hend : t.req.s.toNat + t.req.len ≤ total pre + total (opj :: mid))
    (hemb : Embedded zero (streamOf (pre ++ (opj :: mid) ++ post)) P t) :
    ∃ e : Epoch α, (deliveries B (pre ++ (opj :: mid) ++ post) t.req.key).flatten = [e] ∧
      e.req = t.req ∧ e.missed = false ∧
      e.data.drop P = t.wave ++ List.replicate (t.req.len - P - t.wave.length) zero := by
  refine ⟨epochOf (streamOf (pre ++ (opj :: mid) ++ post)) t.req,
    delivered_exact B L pre mid post opj t.req hv hr hnorem hend, rfl, rfl, ?_⟩
  simp only [epochOf]
  rw [slice_drop]
  exact hemb

/-- **End to end, cancelled trial.**  Hypotheses: valid history; the trial's request arrives in
the first call of `seg ++ [opi]`; its removal is seen in call `opi`; the stream acquired before
`opi` does not reach the epoch's last sample — which is what truncating the played stream at the
pause position gives when the epoch covers the stimulus (C04 `pause_cancels_exactly`: the trial
ends after the pause position).  Conclusion: no epoch is ever delivered for it. -/
theorem e2e_cancelled {α} (B L : Nat) (pre seg post : List (Op α)) (opi : Op α) (t : Trial α)
    (hv : Valid B L (pre ++ (seg ++ opi :: post)))
    (hr : ∃ op0 tl, seg ++ [opi] = op0 :: tl ∧ t.req ∈ op0.reqs)
    (hrem : t.req.key ∈ opi.rems)
    (hearly : seg = [] ∨ total pre + total seg < t.req.s.toNat + t.req.len) :
    (deliveries B (pre ++ (seg ++ opi :: post)) t.req.key).flatten = [] :=
  removed_never_delivered B L pre seg post opi t.req hv hr hrem hearly

/-- non-vacuity of `e2e_kept`: two-call history, waveform [7, 8] at sample 1, epoch length 3 -/
example : ∃ e : Epoch Nat,
    (deliveries 0 [⟨[0, 7], [⟨1, 1, 3, 0⟩], [], false⟩, ⟨[8, 0, 0], [], [], true⟩] 1).flatten = [e] ∧
      e.data.drop 0 = [7, 8] ++ List.replicate 1 0 := by
  obtain ⟨e, h1, _, _, h4⟩ := e2e_kept (α := Nat) 0 0 3 0 [] [⟨[8, 0, 0], [], [], true⟩] []
    ⟨[0, 7], [⟨1, 1, 3, 0⟩], [], false⟩ ⟨⟨1, 1, 3, 0⟩, [7, 8]⟩
    (by refine ⟨⟨by decide, by decide, by decide, by decide⟩, ⟨by decide, by decide, by decide, by decide⟩, trivial⟩)
    (by decide) (by decide) (by decide) (by unfold Embedded; decide)
  exact ⟨e, h1, h4⟩

end Psi.C06
