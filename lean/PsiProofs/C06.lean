import PsiProofs.Helper.C06_Rounding
import PsiProofs.Helper.C06_Deque
import Mathlib.Data.Nat.Pairing
/-!
# C06 — end to end, every presented trial is recovered sample-exactly

Two ingredients (DESIGN §6 C06):

1. `seconds_samples_roundtrip*` — real-number theorem about the only place where the queue and
   the extractor talk in seconds: the queue publishes `t0' = fl(T + fl(k/fs))` from its integer
   sample clock `k`, the extractor computes `round(fl(fl(t0' − p)·fs))`.  In the standard model
   of floating point (`|fl x − x| ≤ u|x|`) the result is the integer the queue meant, whenever
   the exact value is farther than `6u·(T·fs + k + p·fs)` from a half-sample tie.
   **Partial** in the sense spelled out by its hypotheses: `fl` is the standard model (IEEE
   conformance of the platform is assumed, not proved), no overflow/underflow, and the band
   around ties is excluded (the property excludes exact ties; the band is `≤ 2⁻⁴` samples for
   positions up to 2⁴⁹).

2. `e2e_kept` / `e2e_cancelled` — the discrete composition, stated over an *abstract* queue:
   the hypotheses are exactly what the queue model's theorems (C02 `waveform_embedded`,
   `uncovered_zero`; C04 `pause_cancels_exactly`) must provide; the conclusions follow from the
   C05 theorems.

3. `e2e_composed_*` — the same statements about the **concrete** composition
   queue model ∘ playback device ∘ extractor model (`Helper/C06_Compose.lean`: `jrun`), for every
   joint history of {pop n, pause m, pause(), resume m, resume(), acquire n with any batch of the
   pending notifications}.  No hypothesis about an abstract queue is left: `Valid`, `hr`,
   `hnorem`/`hend`, `hrem`/`hearly` and `Embedded` are all derived from the run.  What remains
   explicit: the link `s = K − P` (built into `reqOf`, discharged by
   `seconds_samples_roundtrip_binary64`), the property's side conditions read off the queue's own
   log, and — with pauses — `NoReuse` (no two notified trials share `(start, key)`), which C05's
   `Valid` demands; hence the suffix `_partial` there.  Without `pause(m)` it is automatic.
-/
namespace Psi.C06
open Psi.Rounding Psi.Extract

/-! ## 1. seconds ↔ samples -/

/-- **Round trip (general form).**  If the exact position `(T + k/fs − p)·fs` is within
`1/2 − 6u·(T + k/fs + p)·fs` of the integer `n`, then the floating-point value handed to `round`
lies strictly inside `(n − 1/2, n + 1/2)`: every round-to-nearest function — whatever its
tie-breaking rule, Python's half-even included — returns `n`. -/
theorem seconds_samples_roundtrip {u : ℝ} {fl : ℝ → ℝ} (hu0 : 0 ≤ u) (hu1 : u ≤ 1 / 100) (hfl : IsFl u fl)
    (T fs p : ℝ) (k : ℕ) (hfs : 0 < fs) (hT : 0 ≤ T) (hp : 0 ≤ p) (n : ℤ)
    (hclose : |(T + (k : ℝ) / fs - p) * fs - n| + 6 * u * ((T + (k : ℝ) / fs + p) * fs) < 1 / 2) :
    |extractorArg fl T fs p k - n| < 1 / 2 ∧ round (extractorArg fl T fs p k) = n := by
  have herr := extractorArg_error hu0 hu1 hfl T fs p k hfs hT hp
  have h1 : |extractorArg fl T fs p k - n| < 1 / 2 := by
    have := abs_sub_le (extractorArg fl T fs p k) ((T + (k : ℝ) / fs - p) * fs) (n : ℝ)
    linarith
  exact ⟨h1, round_eq_of_close _ _ h1⟩

/-- **Round trip, on-grid start and pre-stimulus time.**  Queue start `T = K₀/fs` and
`p = P/fs` exactly (as reals), positions small enough that `6u·(K₀ + k + P) < 1/2`: the extractor
recovers exactly `K₀ + k − P`. -/
theorem seconds_samples_roundtrip_grid {u : ℝ} {fl : ℝ → ℝ} (hu0 : 0 ≤ u) (hu1 : u ≤ 1 / 100)
    (hfl : IsFl u fl) (T fs p : ℝ) (k K0 P : ℕ) (hfs : 0 < fs)
    (hT : T * fs = K0) (hp : p * fs = P)
    (hsmall : 6 * u * ((K0 : ℝ) + k + P) < 1 / 2) :
    round (extractorArg fl T fs p k) = (K0 : ℤ) + k - P := by
  have hT0 : 0 ≤ T := by
    have : 0 ≤ T * fs := by rw [hT]; positivity
    exact nonneg_of_mul_nonneg_left this hfs
  have hp0 : 0 ≤ p := by
    have : 0 ≤ p * fs := by rw [hp]; positivity
    exact nonneg_of_mul_nonneg_left this hfs
  have hne : fs ≠ 0 := hfs.ne'
  have hx : (T + (k : ℝ) / fs - p) * fs = (K0 : ℝ) + k - P := by
    have : (T + (k : ℝ) / fs - p) * fs = T * fs + k - p * fs := by field_simp
    rw [this, hT, hp]
  have hM : (T + (k : ℝ) / fs + p) * fs = (K0 : ℝ) + k + P := by
    have : (T + (k : ℝ) / fs + p) * fs = T * fs + k + p * fs := by field_simp
    rw [this, hT, hp]
  refine (seconds_samples_roundtrip hu0 hu1 hfl T fs p k hfs hT0 hp0 ((K0 : ℤ) + k - P) ?_).2
  rw [hx, hM]
  have : ((K0 : ℝ) + k - P) - (((K0 : ℤ) + (k : ℤ) - (P : ℤ) : ℤ) : ℝ) = 0 := by push_cast; ring
  rw [this, abs_zero]
  linarith

/-- **Round trip, binary64.**  With unit round-off `u = 2⁻⁵³` every position up to `2⁴⁹` samples
(3.3 years at 195 kHz… 2.8·10⁹ s at 200 kHz) is recovered exactly. -/
theorem seconds_samples_roundtrip_binary64 {fl : ℝ → ℝ} (hfl : IsFl ((2 : ℝ) ^ (-53 : ℤ)) fl)
    (T fs p : ℝ) (k K0 P : ℕ) (hfs : 0 < fs) (hT : T * fs = K0) (hp : p * fs = P)
    (hsmall : K0 + k + P ≤ 2 ^ 49) :
    round (extractorArg fl T fs p k) = (K0 : ℤ) + k - P := by
  have hu : (2 : ℝ) ^ (-53 : ℤ) = 1 / 2 ^ 53 := by
    rw [zpow_neg, one_div]; norm_cast
  apply seconds_samples_roundtrip_grid (by positivity) (by rw [hu]; norm_num) hfl T fs p k K0 P hfs hT hp
  have hs : ((K0 : ℝ) + k + P) ≤ 2 ^ 49 := by exact_mod_cast hsmall
  rw [hu]
  have : 6 * (1 / 2 ^ 53 : ℝ) * ((K0 : ℝ) + k + P) ≤ 6 * (1 / 2 ^ 53) * 2 ^ 49 :=
    mul_le_mul_of_nonneg_left hs (by positivity)
  have h2 : (6 : ℝ) * (1 / 2 ^ 53) * 2 ^ 49 = 3 / 8 := by norm_num
  linarith

/-- non-vacuity: the exact function is an `fl`, and the hypotheses of the binary64 form are met by
fs = 97656.25 Hz, queue start 5 samples, 1 000 000 samples generated, 3 samples pre-stimulus -/
example : round (extractorArg (fun x => x) (5 / 97656.25) 97656.25 (3 / 97656.25) 1000000) = 1000002 := by
  have := seconds_samples_roundtrip_binary64 (fl := fun x => x) (by intro x; simp)
    (5 / 97656.25) 97656.25 (3 / 97656.25) 1000000 5 3 (by norm_num) (by norm_num) (by norm_num) (by norm_num)
  simpa using this

/-! ## 2. composition over an abstract queue -/

/-- A trial as seen at the interface: the request the extractor derives from the queue's
`added` notification (`key`, `s = K − P`, `len = L`), and the source waveform. -/
structure Trial (α : Type) where
  req : Request
  wave : List α

/-- What the queue theorems must say about a kept trial, on the played stream: from the
trial's first sample (`s + P`) the stream holds the waveform, then silence, for the rest of the
epoch (C02 `waveform_embedded` + `uncovered_zero`, using `L − P ≤ len + delay`). -/
def Embedded {α} (zero : α) (stream : List α) (P : Nat) (t : Trial α) : Prop :=
  slice stream (t.req.s.toNat + P) (t.req.len - P) =
    t.wave ++ List.replicate (t.req.len - P - t.wave.length) zero

theorem slice_drop {α} (S : List α) (a n P : Nat) : (slice S a n).drop P = slice S (a + P) (n - P) := by
  simp only [slice]
  rw [List.drop_take, List.drop_drop]

/-- **End to end, kept trial.**  Hypotheses (to be discharged from the queue model):
the extractor history is valid (`hv`: keys distinct, one epoch length, request visible within the
look-back window — the queue notifies at generation time, i.e. before the samples are acquired);
the trial's request arrives in call `opj`; no removal naming it is seen until the acquired
stream reaches its last sample (the trial is not cancelled, C04); the stream holds the
waveform then silence there (C02).  Conclusion: exactly one epoch is delivered for it, and after
the `P` pre-stimulus samples it is bit-for-bit the waveform followed by silence. -/
theorem e2e_kept {α} (zero : α) (B L P : Nat) (pre mid post : List (Op α)) (opj : Op α) (t : Trial α)
    (hv : Valid B L (pre ++ (opj :: mid) ++ post)) (hr : t.req ∈ opj.reqs)
    (hnorem : ∀ o ∈ opj :: mid, t.req.key ∉ o.rems)
    (hend : t.req.s.toNat + t.req.len ≤ total pre + total (opj :: mid))
    (hemb : Embedded zero (streamOf (pre ++ (opj :: mid) ++ post)) P t) :
    ∃ e : Epoch α, (deliveries B (pre ++ (opj :: mid) ++ post) t.req.key).flatten = [e] ∧
      e.req = t.req ∧ e.missed = false ∧
      e.data.drop P = t.wave ++ List.replicate (t.req.len - P - t.wave.length) zero := by
  refine ⟨epochOf (streamOf (pre ++ (opj :: mid) ++ post)) t.req,
    delivered_exact B L pre mid post opj t.req hv hr hnorem hend, rfl, rfl, ?_⟩
  simp only [epochOf]
  rw [slice_drop]
  exact hemb

/-- **End to end, cancelled trial.**  Hypotheses: valid history; the trial's request arrives in
the first call of `seg ++ [opi]`; its removal is seen in call `opi`; the stream acquired before
`opi` does not reach the epoch's last sample — which is what truncating the played stream at the
pause position gives when the epoch covers the stimulus (C04 `pause_cancels_exactly`: the trial
ends after the pause position).  Conclusion: no epoch is ever delivered for it. -/
theorem e2e_cancelled {α} (B L : Nat) (pre seg post : List (Op α)) (opi : Op α) (t : Trial α)
    (hv : Valid B L (pre ++ (seg ++ opi :: post)))
    (hr : ∃ op0 tl, seg ++ [opi] = op0 :: tl ∧ t.req ∈ op0.reqs)
    (hrem : t.req.key ∈ opi.rems)
    (hearly : seg = [] ∨ total pre + total seg < t.req.s.toNat + t.req.len) :
    (deliveries B (pre ++ (seg ++ opi :: post)) t.req.key).flatten = [] :=
  removed_never_delivered B L pre seg post opi t.req hv hr hrem hearly

/-- non-vacuity of `e2e_kept`: two-call history, waveform [7, 8] at sample 1, epoch length 3 -/
example : ∃ e : Epoch Nat,
    (deliveries 0 [⟨[0, 7], [⟨1, 1, 3, 0⟩], [], false⟩, ⟨[8, 0, 0], [], [], true⟩] 1).flatten = [e] ∧
      e.data.drop 0 = [7, 8] ++ List.replicate 1 0 := by
  obtain ⟨e, h1, _, _, h4⟩ := e2e_kept (α := Nat) 0 0 3 0 [] [⟨[8, 0, 0], [], [], true⟩] []
    ⟨[0, 7], [⟨1, 1, 3, 0⟩], [], false⟩ ⟨⟨1, 1, 3, 0⟩, [7, 8]⟩
    (by refine ⟨⟨by decide, by decide, by decide, by decide⟩, ⟨by decide, by decide, by decide, by decide⟩, trivial⟩)
    (by decide) (by decide) (by decide) (by unfold Embedded; decide)
  exact ⟨e, h1, h4⟩

/-! ## 3. composition with the concrete queue model -/

open Psi.E2E Psi.Queue

/-- **The link seconds ↔ samples, kept explicit.**  The start sample `reqOf` gives a request
(`s = K0 + k − P`) is the integer the extractor's own expression `round((t0 − prestim)·fs)` computes
from the `t0` the queue publishes for a trial notified at queue sample `k`, in the standard model of
binary64 arithmetic: `seconds_samples_roundtrip_binary64` with `T·fs = K0`, `p·fs = P`. -/
theorem reqOf_start_roundtrip {fl : ℝ → ℝ} (hfl : IsFl ((2 : ℝ) ^ (-53 : ℤ)) fl) (T fs p : ℝ) (c : Cfg)
    (i : Info) (k : ℕ) (hk : i.k = (k : ℤ)) (hfs : 0 < fs) (hT : T * fs = c.K0) (hp : p * fs = c.P)
    (hsmall : c.K0 + k + c.P ≤ 2 ^ 49) :
    round (extractorArg fl T fs p k) = (reqOf c i).s := by
  rw [seconds_samples_roundtrip_binary64 hfl T fs p k c.K0 c.P hfs hT hp hsmall]
  simp only [reqOf, hk]

/-- the dictionary key `(t0, key)` is an injective function of the start sample and the stimulus -/
def EncInj (c : Cfg) : Prop := ∀ a b a' b', c.enc a b = c.enc a' b' → a = a' ∧ b = b'

/-- no two notified trials (cancelled ones included) share start sample and stimulus: the
extractor's dictionary keys are pairwise distinct over the whole history (C05's `Valid`) -/
def NoReuse (added : List Info) : Prop := (added.map (fun i => (i.k, i.key))).Nodup

theorem keysOK_of {c : Cfg} {added : List Info} (henc : EncInj c) (h : NoReuse added) : KeysOK c added := by
  unfold KeysOK List.Nodup
  unfold NoReuse List.Nodup at h
  rw [List.pairwise_map] at h
  rw [List.pairwise_map, List.pairwise_map]
  refine h.imp ?_
  intro a b hne he
  obtain ⟨h1, h2⟩ := henc _ _ _ _ he
  exact hne (by rw [h1, h2])

/-- **Every notified trial is either still logged (kept) or was cancelled, never both**
(C04 `removed_once`, through the invariant `Once` it is proved from). -/
theorem kept_or_cancelled (c : Cfg) (evs : List Ev) (q0 : QState) (J : JState) (hstart : Start q0)
    (hrun : jrun c evs (JState.init c q0) = .ok J) (henc : EncInj c) (hreuse : NoReuse J.q.added)
    (hside : SideOK c J.q.added) (i : Info) (hi : i ∈ J.q.added) :
    (i ∈ J.q.generated ∧ i.uid ∉ J.q.removed) ∨ (i.uid ∈ J.q.removed ∧ i ∉ J.q.generated) := by
  have inv := JInv_run c evs (JInv_init c q0 hstart) hrun (fun _ => hside) (keysOK_of henc hreuse)
  obtain ⟨_, _, hex, hiff⟩ := Once_nodup inv.q.once
  have hlt : i.uid < J.q.added.length := by
    have : i.uid ∈ J.q.added.map (·.uid) := List.mem_map.2 ⟨i, hi, rfl⟩
    rw [inv.q.uid] at this
    exact List.mem_range.1 this
  rcases (hiff i.uid).1 hlt with h | h
  · obtain ⟨g, hg, he⟩ := List.mem_map.1 h
    have : g = i := uid_inj inv.q.uid (inv.q.emb.gensub g hg) hi he
    subst this
    exact Or.inl ⟨hg, fun hr => hex _ hr h⟩
  · exact Or.inr ⟨h, fun hg => hex _ h (List.mem_map.2 ⟨i, hg, rfl⟩)⟩

/-- **End to end over the concrete queue model, kept trial (histories with pauses).**
Run the composed system over any joint history (`hrun`); let `i` be a trial the queue still
logs at the end (not cancelled) whose `added` notification has been handed to the extractor
(`hseen`) and whose epoch the acquired stream has reached (`hreached`).  Then exactly one epoch is
delivered under its key; it carries the trial's own request; after the `P` pre-stimulus samples it
is the stimulus waveform, sample for sample, and every later sample of the epoch is silence or a
located sample of a trial that starts after the waveform (silence up to the next trial).
Side conditions, read off the queue's own log: `len ≤ dur ≤ L − P` (`hside`).
**Partial** only in `hreuse`: C05's theorems need pairwise distinct dictionary keys. -/
theorem e2e_composed_kept_partial (c : Cfg) (evs : List Ev) (q0 : QState) (J : JState)
    (hstart : Start q0) (hrun : jrun c evs (JState.init c q0) = .ok J) (henc : EncInj c)
    (hreuse : NoReuse J.q.added) (hside : SideOK c J.q.added)
    (i : Info) (hi : i ∈ J.q.generated) (hseen : Note.add i ∉ J.pend)
    (hreached : (c.K0 : Int) + i.k - (c.P : Int) + (c.L : Int) ≤ (J.acq : Int)) :
    ∃ e : Extract.Epoch Cell, (deliveries c.B J.eops (reqOf c i).key).flatten = [e] ∧
      e.req = reqOf c i ∧ e.missed = false ∧ e.data.length = c.L ∧
      (∀ j, j < i.len → e.data[c.P + j]? = some (Cell.W i.key j)) ∧
      (∀ j, i.len ≤ j → c.P + j < c.L → e.data[c.P + j]? = some Cell.Z ∨
        ∃ i' ∈ J.q.added, i.k + (i.len : Int) ≤ i'.k ∧ ∃ j' : Nat, j' < i'.len ∧
          i'.k + (j' : Int) = i.k + (j : Int) ∧ e.data[c.P + j]? = some (Cell.W i'.key j')) := by
  have hk := keysOK_of henc hreuse
  have inv := JInv_run c evs (JInv_init c q0 hstart) hrun (fun _ => hside) hk
  have hia := inv.q.emb.gensub i hi
  obtain ⟨pre, opj, rest, heq, hr, hs0⟩ := locate c inv hk i hia hseen
  have hsv : (reqOf c i).s = (c.K0 : Int) + i.k - (c.P : Int) := rfl
  have hlv : (reqOf c i).len = c.L := rfl
  have hacq : (reqOf c i).s.toNat + (reqOf c i).len ≤ J.acq := by rw [hlv]; omega
  have hv : Valid c.B c.L (pre ++ (opj :: rest) ++ []) := by
    have := inv.n.valid; rw [heq] at this; simpa using this
  have hnorem : ∀ o ∈ opj :: rest, (reqOf c i).key ∉ o.rems := by
    intro o ho hκ
    obtain ⟨r, hra, hu, he⟩ := inv.n.remsSeen o (by rw [heq]; exact List.mem_append_right _ ho) _ hκ
    have : i = r := KeysOK_inj hk hia hra he
    subst this
    exact (Once_nodup inv.q.once).2.2.1 _ hu (List.mem_map.2 ⟨i, hi, rfl⟩)
  have hend : (reqOf c i).s.toNat + (reqOf c i).len ≤ total pre + total (opj :: rest) := by
    have := inv.tot; rw [heq, total_append] at this; omega
  have hdel := delivered_exact c.B c.L pre rest [] opj (reqOf c i) hv hr hnorem hend
  have he0 : pre ++ (opj :: rest) ++ [] = J.eops := by rw [heq]; simp
  rw [he0] at hdel
  have hside_i := hside i hia
  refine ⟨_, hdel, rfl, rfl, epoch_length c inv _ hacq, ?_, ?_⟩
  · intro j hj
    rw [epoch_view c inv _ hacq (c.P + j) (by rw [hlv]; omega)]
    exact inv.q.emb.kept i hi j hj _ (by omega)
  · intro j hj hjL
    rw [epoch_view c inv _ hacq (c.P + j) (by rw [hlv]; exact hjL)]
    have hlen : (reqOf c i).s.toNat + (c.P + j) < (J.tl ++ Queue.rest J.q).length := by
      have := inv.acq; simp only [List.length_append]; omega
    rcases inv.q.emb.after i hi ((reqOf c i).s.toNat + (c.P + j)) (by omega) hlen with h | h
    · exact Or.inl h
    · obtain ⟨i', hi', j', h1, h2, h3, h4⟩ := h
      exact Or.inr ⟨i', hi', by omega, j', h1, by omega, h4⟩

/-- **End to end over the concrete queue model, cancelled trial (histories with pauses).**
A notified trial that the queue has cancelled (`removed` log) never yields an epoch — whether its
notifications have reached the extractor yet or not. -/
theorem e2e_composed_cancelled_partial (c : Cfg) (evs : List Ev) (q0 : QState) (J : JState)
    (hstart : Start q0) (hrun : jrun c evs (JState.init c q0) = .ok J) (henc : EncInj c)
    (hreuse : NoReuse J.q.added) (hside : SideOK c J.q.added)
    (i : Info) (hi : i ∈ J.q.added) (hc : i.uid ∈ J.q.removed) :
    (deliveries c.B J.eops (reqOf c i).key).flatten = [] := by
  have hk := keysOK_of henc hreuse
  have inv := JInv_run c evs (JInv_init c q0 hstart) hrun (fun _ => hside) hk
  rcases inv.n.canc i hi hc with hp | hs
  · -- the removal is still pending: the stream has not reached the epoch's last sample
    obtain ⟨_, _, hlt⟩ := inv.n.remsPend i hp
    by_cases hm : reqOf c i ∈ allReqs J.eops
    · obtain ⟨pre, op, rest, heq, hr⟩ := ReqSeen_of_mem hm
      have hv := inv.n.valid
      rw [heq] at hv ⊢
      apply unreached_never_delivered c.B c.L pre rest op (reqOf c i) hv hr
      rw [← heq, inv.tot]; exact hlt
    · apply never_requested_silent c.B c.L J.eops _ inv.n.valid
      intro r hr he
      have hr' : r ∈ J.q.added.map (reqOf c) := by rw [← inv.n.reqs]; exact List.mem_append_left _ hr
      obtain ⟨i', hi', rfl⟩ := List.mem_map.1 hr'
      have : i' = i := KeysOK_inj hk hi' hi he
      subst this
      exact hm hr
  · -- request and removal were both seen: the hypotheses of `e2e_cancelled`
    obtain ⟨pre0, seg, opi, post, o0, tl, heq, hseg, h1, h2, h3⟩ := hs
    have hv := inv.n.valid
    rw [heq] at hv ⊢
    exact e2e_cancelled c.B c.L pre0 seg post opi ⟨reqOf c i, wave i.key 0 i.len⟩ hv
      ⟨o0, tl, hseg, h1⟩ h2 h3

/-- a history without `pause(m)` (pause(), resume(), resume(m) are allowed) -/
def NoPause (evs : List Ev) : Prop := ∀ ev ∈ evs, isPause ev = false

/-- **End to end over the concrete queue model, histories without pause — full.**
Every notified trial whose notification has been handed to the extractor and whose epoch the
acquired stream has reached yields exactly one epoch, and after the `P` pre-stimulus samples that
epoch is the stimulus waveform followed by zeros — under the property's own side conditions for
that trial: the epoch covers the stimulus (`len + P ≤ L`) and ends before the next trial
(`L − P ≤ len + delay`).  No hypothesis on the keys: starts increase strictly.  The hypotheses of
`e2e_kept` (`Valid`, `hr`, `hnorem`, `hend`, `Embedded`) are all discharged from the run. -/
theorem e2e_composed_nopause (c : Cfg) (evs : List Ev) (q0 : QState) (J : JState)
    (hstart : Start q0) (hrun : jrun c evs (JState.init c q0) = .ok J) (henc : EncInj c)
    (hnp : NoPause evs) (i : Info) (hi : i ∈ J.q.added) (hseen : Note.add i ∉ J.pend)
    (hcover : i.len + c.P ≤ c.L) (hnext : c.L ≤ c.P + i.len + i.delay.toNat)
    (hreached : (c.K0 : Int) + i.k - (c.P : Int) + (c.L : Int) ≤ (J.acq : Int)) :
    J.q.removed = [] ∧
    ∃ e : Extract.Epoch Cell, (deliveries c.B J.eops (reqOf c i).key).flatten = [e] ∧
      e.req = reqOf c i ∧ e.missed = false ∧
      e.data.drop c.P = wave i.key 0 i.len ++ List.replicate (c.L - c.P - i.len) Cell.Z := by
  obtain ⟨inv, np⟩ := JNP_run c evs henc (JInv_init c q0 hstart) (NPInv_init c q0 hstart) hnp hrun
  have hk : KeysOK c J.q.added := KeysOK_of_sorted c _ henc (np.all ▸ inv.q.sorted)
  have hig : i ∈ J.q.generated := by rw [np.all]; exact hi
  obtain ⟨pre, opj, rest, heq, hr, hs0⟩ := locate c inv hk i hi hseen
  have hsv : (reqOf c i).s = (c.K0 : Int) + i.k - (c.P : Int) := rfl
  have hlv : (reqOf c i).len = c.L := rfl
  have hacq : (reqOf c i).s.toNat + (reqOf c i).len ≤ J.acq := by rw [hlv]; omega
  have he0 : pre ++ (opj :: rest) ++ [] = J.eops := by rw [heq]; simp
  have hv : Valid c.B c.L (pre ++ (opj :: rest) ++ []) := by rw [he0]; exact inv.n.valid
  have hnorem : ∀ o ∈ opj :: rest, (reqOf c i).key ∉ o.rems := by
    intro o ho hκ
    obtain ⟨r, _, hu, _⟩ := inv.n.remsSeen o (by rw [heq]; exact List.mem_append_right _ ho) _ hκ
    rw [np.norem] at hu; cases hu
  have hend : (reqOf c i).s.toNat + (reqOf c i).len ≤ total pre + total (opj :: rest) := by
    have := inv.tot; rw [heq, total_append] at this; omega
  have hwl : (wave i.key 0 i.len).length = i.len := by simp [wave]
  have hemb : Embedded Cell.Z (streamOf (pre ++ (opj :: rest) ++ [])) c.P ⟨reqOf c i, wave i.key 0 i.len⟩ := by
    rw [he0]
    unfold Embedded
    simp only [hlv, hwl]
    have hacq' := inv.acq
    have hSlen : (streamOf J.eops).length = J.acq := by rw [inv.stream, List.length_take]; omega
    have hview : ∀ y, y < c.L - c.P →
        (slice (streamOf J.eops) ((reqOf c i).s.toNat + c.P) (c.L - c.P))[y]? =
          (J.tl ++ Queue.rest J.q)[(reqOf c i).s.toNat + c.P + y]? := by
      intro y hy
      rw [slice_getElem? _ _ _ _ hy, inv.stream, List.getElem?_take_of_lt (by omega),
        List.getElem?_append_left (by omega)]
    apply List.ext_getElem?
    intro x
    by_cases hx : x < c.L - c.P
    · rw [hview x hx]
      by_cases hxl : x < i.len
      · rw [List.getElem?_append_left (l₁ := wave i.key 0 i.len) (by rw [hwl]; exact hxl)]
        rw [inv.q.emb.kept i hig x hxl _ (by omega)]
        simpa using (wave_getElem? i.key 0 i.len x hxl).symm
      · rw [List.getElem?_append_right (l₁ := wave i.key 0 i.len) (by rw [hwl]; omega), hwl]
        rw [np.gap.gap i hig _ (by omega) (by omega)]
        rw [List.getElem?_replicate, if_pos (by omega)]
    · have h1 : (slice (streamOf J.eops) ((reqOf c i).s.toNat + c.P) (c.L - c.P)).length = c.L - c.P :=
        slice_length _ _ _ (by omega)
      rw [List.getElem?_eq_none (by omega), List.getElem?_eq_none]
      simp only [List.length_append, hwl, List.length_replicate]; omega
  obtain ⟨e, h1, h2, h3, h4⟩ := e2e_kept Cell.Z c.B c.L c.P pre rest [] opj
    ⟨reqOf c i, wave i.key 0 i.len⟩ hv hr hnorem hend hemb
  rw [he0] at h1
  simp only [hlv, hwl] at h4
  exact ⟨np.norem, e, h1, h2, h3, h4⟩

/-- **The code's own schedule is admissible.**  After any history in which every acquisition call
drained the notification FIFO (what `extract_epochs` does with its two deques), the next draining
call — of any size within what has been played — is neither a `lateRequest` nor a `lateRemoval`,
provided the look-back buffer covers the pre-stimulus time (`P ≤ B`) and no pre-stimulus window
starts before the acquisition (`P ≤ K0 + k`): notifications are issued at generation time, hence
before the corresponding samples are acquired (C05 `visible_of_recent`). -/
theorem deque_schedule_admissible (c : Cfg) (evs : List Ev) (q0 : QState) (J : JState)
    (hstart : Start q0) (hrun : jrun c evs (JState.init c q0) = .ok J) (henc : EncInj c)
    (hreuse : NoReuse J.q.added) (hside : SideOK c J.q.added)
    (hdr : drains c evs (JState.init c q0) = true) (hPB : c.P ≤ c.B)
    (hpre : ∀ i ∈ J.q.added, (c.P : Int) ≤ (c.K0 : Int) + i.k)
    (n : Nat) (complete : Bool) (hn : J.acq + n ≤ J.tl.length) :
    ∃ J', jstep c J (.acq n J.pend.length complete) = .ok J' := by
  have hk := keysOK_of henc hreuse
  have inv := JInv_run c evs (JInv_init c q0 hstart) hrun (fun _ => hside) hk
  have d := DInv_run c evs (JInv_init c q0 hstart) (by intro i hi; simp [JState.init] at hi) hdr hrun hside hk
  exact deque_step_ok c inv d hPB (fun i hi => hpre i (inv.n.addsPend i hi)) n _ complete hn (Nat.le_refl _)

/-! ### Non-vacuity: a concrete joint history (FIFO queue, one 3-sample stimulus × 3, delay 2;
acquisition starts 2 samples early, 1 pre-stimulus sample, epochs of 5, look-back 4):
generate 8, acquire 6, pause at queue sample 6 (cancels the trial at 5, keeps the one at 0),
3 samples of silence, resume, generate 10, acquire 15. -/

def zz (k : Int) : Nat := if 0 ≤ k then 2 * k.toNat else 2 * (-k).toNat + 1

def exC : Cfg := { K0 := 2, P := 1, L := 5, B := 4, enc := fun k key => Nat.pair (zz k) key }

theorem exC_inj : EncInj exC := by
  intro a b a' b' h
  obtain ⟨h1, h2⟩ := Nat.pair_eq_pair.1 h
  refine ⟨?_, h2⟩
  unfold zz at h1
  split at h1 <;> split at h1 <;> omega

def exQ : QState := (append { kind := .fifo } ⟨3, false, 3, 3, [2], 0, 3⟩).1

theorem exQ_start : Start exQ := by
  refine ⟨?_, rfl, rfl, rfl, rfl, rfl⟩
  intro i e h
  simp only [exQ, append, List.nil_append] at h
  match i, h with
  | 0, h => simp at h; subst h; decide
  | n + 1, h => simp at h

def exEvs : List Ev :=
  [.q (.pop 8), .acq 6 5 false, .q (.pause (some 6)), .q (.pop 3), .q (.resume none), .q (.pop 10),
   .acq 15 9 true]

def exJ : JState :=
  match jrun exC exEvs (JState.init exC exQ) with
  | .ok J => J
  | .error _ => JState.init exC exQ

theorem exRun : jrun exC exEvs (JState.init exC exQ) = .ok exJ := by rfl

/-- the played timeline: the cancelled trial's first sample survives at position 7, then silence,
then the re-presented trial at 11 -/
example : exJ.tl = [.Z, .Z, .W 0 0, .W 0 1, .W 0 2, .Z, .Z, .W 0 0, .Z, .Z, .Z, .W 0 0, .W 0 1, .W 0 2,
    .Z, .Z, .W 0 0, .W 0 1, .W 0 2, .Z, .Z] := by decide +kernel
example : exJ.q.added.map (fun i => (i.uid, i.k)) = [(0, 0), (1, 5), (2, 9), (3, 14)] ∧
    exJ.q.removed = [1] ∧ exJ.pend = [] ∧ exJ.acq = 21 := by decide +kernel

/-- the kept trial notified at queue sample 9 (after the resume): one epoch, waveform after the
pre-stimulus sample -/
example : ∃ e : Extract.Epoch Cell,
    (deliveries exC.B exJ.eops (reqOf exC ⟨2, 0, 9, 3, 3, 2⟩).key).flatten = [e] ∧
      ∀ j, j < 3 → e.data[1 + j]? = some (Cell.W 0 j) := by
  obtain ⟨e, h1, _, _, _, h5, _⟩ := e2e_composed_kept_partial exC exEvs exQ exJ exQ_start exRun exC_inj
    (by unfold NoReuse; decide +kernel) (by unfold SideOK; decide +kernel) ⟨2, 0, 9, 3, 3, 2⟩
    (by decide +kernel) (by decide +kernel) (by decide +kernel)
  exact ⟨e, h1, h5⟩

/-- the trial notified at queue sample 5 was cancelled by the pause: no epoch -/
example : (deliveries exC.B exJ.eops (reqOf exC ⟨1, 0, 5, 3, 3, 2⟩).key).flatten = [] :=
  e2e_composed_cancelled_partial exC exEvs exQ exJ exQ_start exRun exC_inj
    (by unfold NoReuse; decide +kernel) (by unfold SideOK; decide +kernel) ⟨1, 0, 5, 3, 3, 2⟩
    (by decide +kernel) (by decide +kernel)

/-- the history above drains the deques in both calls; a further call of 0 samples is admissible -/
example : ∃ J', jstep exC exJ (.acq 0 exJ.pend.length true) = .ok J' :=
  deque_schedule_admissible exC exEvs exQ exJ exQ_start exRun exC_inj
    (by unfold NoReuse; decide +kernel) (by unfold SideOK; decide +kernel) (by rfl) (by decide)
    (by decide +kernel) 0 true (by decide +kernel)

/-- the request start of the kept trial is what the extractor's float expression yields (identity
`fl`, fs = 97656.25 Hz, queue start 2 samples, 1 sample pre-stimulus) -/
example : round (extractorArg (fun x => x) (2 / 97656.25) 97656.25 (1 / 97656.25) 9) =
    (reqOf exC ⟨2, 0, 9, 3, 3, 2⟩).s :=
  reqOf_start_roundtrip (fl := fun x => x) (by intro x; simp) (2 / 97656.25) 97656.25 (1 / 97656.25) exC
    ⟨2, 0, 9, 3, 3, 2⟩ 9 rfl (by norm_num) (by norm_num [exC]) (by norm_num [exC]) (by norm_num [exC])

/-- a history without pause: generate 13 in two requests, acquire in three calls with delayed
notifications; the second trial (queue sample 5) is recovered as waveform then silence -/
def exEvs2 : List Ev :=
  [.q (.pop 6), .acq 4 0 false, .q (.pop 7), .acq 5 1 false, .acq 6 5 true]

def exJ2 : JState :=
  match jrun exC exEvs2 (JState.init exC exQ) with
  | .ok J => J
  | .error _ => JState.init exC exQ

theorem exRun2 : jrun exC exEvs2 (JState.init exC exQ) = .ok exJ2 := by rfl

example : ∃ e : Extract.Epoch Cell,
    (deliveries exC.B exJ2.eops (reqOf exC ⟨1, 0, 5, 3, 3, 2⟩).key).flatten = [e] ∧
      e.data.drop 1 = [.W 0 0, .W 0 1, .W 0 2, .Z] := by
  obtain ⟨_, e, h1, _, _, h4⟩ := e2e_composed_nopause exC exEvs2 exQ exJ2 exQ_start exRun2 exC_inj
    (by unfold NoPause; decide) ⟨1, 0, 5, 3, 3, 2⟩ (by decide +kernel) (by decide +kernel) (by decide) (by decide)
    (by decide +kernel)
  exact ⟨e, h1, h4⟩

end Psi.C06
