import PsiProofs.Helper.C06_Rounding
import PsiProofs.Helper.C06_Deque
import Mathlib.Data.Nat.Pairing
/-!
# C06 — end to end, every presented trial is recovered sample-exactly

Two ingredients (DESIGN §6 C06):

1. `seconds_samples_roundtrip*` — real-number theorem about the only place where the queue and
   the extractor talk in seconds: the queue publishes `t0' = fl(T + fl(k/fs))` from its integer
   sample clock `k`, the extractor computes `round(fl(fl(t0' − p)·fs))`.  In the standard model
   of floating point (`|fl x − x| ≤ u|x|`) the result is the integer the queue meant, whenever
   the exact value is farther than `6u·(T·fs + k + p·fs)` from a half-sample tie.
   **Partial** in the sense spelled out by its hypotheses: `fl` is the standard model (IEEE
   conformance of the platform is assumed, not proved), no overflow/underflow, and the band
   around ties is excluded (the property excludes exact ties; the band is `≤ 2⁻⁴` samples for
   positions up to 2⁴⁹).

2. `e2e_kept` / `e2e_cancelled` — the discrete composition, stated over an *abstract* queue:
   the hypotheses are exactly what the queue model's theorems (C02 `waveform_embedded`,
   `uncovered_zero`; C04 `pause_cancels_exactly`) must provide; the conclusions follow from the
   C05 theorems.

3. `e2e_composed_*` — the same statements about the **concrete** composition
   queue model ∘ playback device ∘ extractor model (`Helper/C06_Compose.lean`: `jrun`), for every
   joint history of {pop n, pause m, pause(), resume m, resume(), acquire n with any batch of the
   pending notifications}.  No hypothesis about an abstract queue is left: `Valid`, `hr`,
   `hnorem`/`hend`, `hrem`/`hearly` and `Embedded` are all derived from the run.  What remains
   explicit: the link `s = K − P` (built into `reqOf`, discharged by
   `seconds_samples_roundtrip_binary64`) and the property's side conditions read off the queue's
   own log.  No hypothesis on dictionary keys: a queue paused exactly on a trial's start and resumed
   presents the same stimulus at the same `t0` again, and the composed run is shown to keep the
   per-key discipline of C05's per-request form (`ValidSeq`): per key the notifications alternate
   `added, removed, added, …` (Helper/C06_Alt, C06_Notes — from `pause_cancels_exactly`, the
   `Once` invariant and the clock rewinding), so the re-presented trial is taken in only after the
   removal of the earlier one.
-/
namespace Psi.C06
open Psi.Rounding Psi.Extract

/-! ## 1. seconds ↔ samples -/

/-- **Round trip (general form).**  If the exact position `(T + k/fs − p)·fs` is within
`1/2 − 6u·(T + k/fs + p)·fs` of the integer `n`, then the floating-point value handed to `round`
lies strictly inside `(n − 1/2, n + 1/2)`: every round-to-nearest function — whatever its
tie-breaking rule, Python's half-even included — returns `n`. -/
theorem seconds_samples_roundtrip {u : ℝ} {fl : ℝ → ℝ} (hu0 : 0 ≤ u) (hu1 : u ≤ 1 / 100) (hfl : IsFl u fl)
    (T fs p : ℝ) (k : ℕ) (hfs : 0 < fs) (hT : 0 ≤ T) (hp : 0 ≤ p) (n : ℤ)
    (hclose : |(T + (k : ℝ) / fs - p) * fs - n| + 6 * u * ((T + (k : ℝ) / fs + p) * fs) < 1 / 2) :
    |extractorArg fl T fs p k - n| < 1 / 2 ∧ round (extractorArg fl T fs p k) = n := by
  have herr := extractorArg_error hu0 hu1 hfl T fs p k hfs hT hp
  have h1 : |extractorArg fl T fs p k - n| < 1 / 2 := by
    have := abs_sub_le (extractorArg fl T fs p k) ((T + (k : ℝ) / fs - p) * fs) (n : ℝ)
    linarith
  exact ⟨h1, round_eq_of_close _ _ h1⟩

/-- **Round trip, on-grid start and pre-stimulus time.**  Queue start `T = K₀/fs` and
`p = P/fs` exactly (as reals), positions small enough that `6u·(K₀ + k + P) < 1/2`: the extractor
recovers exactly `K₀ + k − P`. -/
theorem seconds_samples_roundtrip_grid {u : ℝ} {fl : ℝ → ℝ} (hu0 : 0 ≤ u) (hu1 : u ≤ 1 / 100)
    (hfl : IsFl u fl) (T fs p : ℝ) (k K0 P : ℕ) (hfs : 0 < fs)
    (hT : T * fs = K0) (hp : p * fs = P)
    (hsmall : 6 * u * ((K0 : ℝ) + k + P) < 1 / 2) :
    round (extractorArg fl T fs p k) = (K0 : ℤ) + k - P := by
  have hT0 : 0 ≤ T := by
    have : 0 ≤ T * fs := by rw [hT]; positivity
    exact nonneg_of_mul_nonneg_left this hfs
  have hp0 : 0 ≤ p := by
    have : 0 ≤ p * fs := by rw [hp]; positivity
    exact nonneg_of_mul_nonneg_left this hfs
  have hne : fs ≠ 0 := hfs.ne'
  have hx : (T + (k : ℝ) / fs - p) * fs = (K0 : ℝ) + k - P := by
    have : (T + (k : ℝ) / fs - p) * fs = T * fs + k - p * fs := by field_simp
    rw [this, hT, hp]
  have hM : (T + (k : ℝ) / fs + p) * fs = (K0 : ℝ) + k + P := by
    have : (T + (k : ℝ) / fs + p) * fs = T * fs + k + p * fs := by field_simp
    rw [this, hT, hp]
  refine (seconds_samples_roundtrip hu0 hu1 hfl T fs p k hfs hT0 hp0 ((K0 : ℤ) + k - P) ?_).2
  rw [hx, hM]
  have : ((K0 : ℝ) + k - P) - (((K0 : ℤ) + (k : ℤ) - (P : ℤ) : ℤ) : ℝ) = 0 := by push_cast; ring
  rw [this, abs_zero]
  linarith

/-- **Round trip, binary64.**  With unit round-off `u = 2⁻⁵³` every position up to `2⁴⁹` samples
(3.3 years at 195 kHz… 2.8·10⁹ s at 200 kHz) is recovered exactly. -/
theorem seconds_samples_roundtrip_binary64 {fl : ℝ → ℝ} (hfl : IsFl ((2 : ℝ) ^ (-53 : ℤ)) fl)
    (T fs p : ℝ) (k K0 P : ℕ) (hfs : 0 < fs) (hT : T * fs = K0) (hp : p * fs = P)
    (hsmall : K0 + k + P ≤ 2 ^ 49) :
    round (extractorArg fl T fs p k) = (K0 : ℤ) + k - P := by
  have hu : (2 : ℝ) ^ (-53 : ℤ) = 1 / 2 ^ 53 := by
    rw [zpow_neg, one_div]; norm_cast
  apply seconds_samples_roundtrip_grid (by positivity) (by rw [hu]; norm_num) hfl T fs p k K0 P hfs hT hp
  have hs : ((K0 : ℝ) + k + P) ≤ 2 ^ 49 := by exact_mod_cast hsmall
  rw [hu]
  have : 6 * (1 / 2 ^ 53 : ℝ) * ((K0 : ℝ) + k + P) ≤ 6 * (1 / 2 ^ 53) * 2 ^ 49 :=
    mul_le_mul_of_nonneg_left hs (by positivity)
  have h2 : (6 : ℝ) * (1 / 2 ^ 53) * 2 ^ 49 = 3 / 8 := by norm_num
  linarith

/-- non-vacuity: the exact function is an `fl`, and the hypotheses of the binary64 form are met by
fs = 97656.25 Hz, queue start 5 samples, 1 000 000 samples generated, 3 samples pre-stimulus -/
example : round (extractorArg (fun x => x) (5 / 97656.25) 97656.25 (3 / 97656.25) 1000000) = 1000002 := by
  have := seconds_samples_roundtrip_binary64 (fl := fun x => x) (by intro x; simp)
    (5 / 97656.25) 97656.25 (3 / 97656.25) 1000000 5 3 (by norm_num) (by norm_num) (by norm_num) (by norm_num)
  simpa using this

/-! ## 2. composition over an abstract queue -/

/-- A trial as seen at the interface: the request the extractor derives from the queue's
`added` notification (`key`, `s = K − P`, `len = L`), and the source waveform. -/
structure Trial (α : Type) where
  req : Request
  wave : List α

/-- What the queue theorems must say about a kept trial, on the played stream: from the
trial's first sample (`s + P`) the stream holds the waveform, then silence, for the rest of the
epoch (C02 `waveform_embedded` + `uncovered_zero`, using `L − P ≤ len + delay`). -/
def Embedded {α} (zero : α) (stream : List α) (P : Nat) (t : Trial α) : Prop :=
  slice stream (t.req.s.toNat + P) (t.req.len - P) =
    t.wave ++ List.replicate (t.req.len - P - t.wave.length) zero

theorem slice_drop {α} (S : List α) (a n P : Nat) : (slice S a n).drop P = slice S (a + P) (n - P) := by
  simp only [slice]
  rw [List.drop_take, List.drop_drop]

/-- **End to end, kept trial.**  Hypotheses (to be discharged from the queue model):
the extractor history is valid (`hv`: keys distinct, one epoch length, request visible within the
look-back window — the queue notifies at generation time, i.e. before the samples are acquired);
the trial's request arrives in call `opj`; no removal naming it is seen until the acquired
stream reaches its last sample (the trial is not cancelled, C04); the stream holds the
waveform then silence there (C02).  Conclusion: exactly one epoch is delivered for it, and after
the `P` pre-stimulus samples it is bit-for-bit the waveform followed by silence. -/
theorem e2e_kept {α} (zero : α) (B L P : Nat) (pre mid post : List (Op α)) (opj : Op α) (t : Trial α)
    (hv : Valid B L (pre ++ (opj :: mid) ++ post)) (hr : t.req ∈ opj.reqs)
    (hnorem : ∀ o ∈ opj :: mid, t.req.key ∉ o.rems)
    (hend : t.req.s.toNat + t.req.len ≤ total pre + total (opj :: mid))
    (hemb : Embedded zero (streamOf (pre ++ (opj :: mid) ++ post)) P t) :
    ∃ e : Epoch α, (deliveries B (pre ++ (opj :: mid) ++ post) t.req.key).flatten = [e] ∧
      e.req = t.req ∧ e.missed = false ∧
      e.data.drop P = t.wave ++ List.replicate (t.req.len - P - t.wave.length) zero := by
  refine ⟨epochOf (streamOf (pre ++ (opj :: mid) ++ post)) t.req,
    delivered_exact B L pre mid post opj t.req hv hr hnorem hend, rfl, rfl, ?_⟩
  simp only [epochOf]
  rw [slice_drop]
  exact hemb

/-- **End to end, cancelled trial.**  Hypotheses: valid history; the trial's request arrives in
the first call of `seg ++ [opi]`; its removal is seen in call `opi`; the stream acquired before
`opi` does not reach the epoch's last sample — which is what truncating the played stream at the
pause position gives when the epoch covers the stimulus (C04 `pause_cancels_exactly`: the trial
ends after the pause position).  Conclusion: no epoch is ever delivered for it. -/
theorem e2e_cancelled {α} (B L : Nat) (pre seg post : List (Op α)) (opi : Op α) (t : Trial α)
    (hv : Valid B L (pre ++ (seg ++ opi :: post)))
    (hr : ∃ op0 tl, seg ++ [opi] = op0 :: tl ∧ t.req ∈ op0.reqs)
    (hrem : t.req.key ∈ opi.rems)
    (hearly : seg = [] ∨ total pre + total seg < t.req.s.toNat + t.req.len) :
    (deliveries B (pre ++ (seg ++ opi :: post)) t.req.key).flatten = [] :=
  removed_never_delivered B L pre seg post opi t.req hv hr hrem hearly

/-- non-vacuity of `e2e_kept`: two-call history, waveform [7, 8] at sample 1, epoch length 3 -/
example : ∃ e : Epoch Nat,
    (deliveries 0 [⟨[0, 7], [⟨1, 1, 3, 0⟩], [], false⟩, ⟨[8, 0, 0], [], [], true⟩] 1).flatten = [e] ∧
      e.data.drop 0 = [7, 8] ++ List.replicate 1 0 := by
  obtain ⟨e, h1, _, _, h4⟩ := e2e_kept (α := Nat) 0 0 3 0 [] [⟨[8, 0, 0], [], [], true⟩] []
    ⟨[0, 7], [⟨1, 1, 3, 0⟩], [], false⟩ ⟨⟨1, 1, 3, 0⟩, [7, 8]⟩
    (by refine ⟨⟨by decide, by decide, by decide, by decide⟩, ⟨by decide, by decide, by decide, by decide⟩, trivial⟩)
    (by decide) (by decide) (by decide) (by unfold Embedded; decide)
  exact ⟨e, h1, h4⟩

/-! ## 3. composition with the concrete queue model -/

open Psi.E2E Psi.Queue

/-- **The link seconds ↔ samples, kept explicit.**  The start sample `reqOf` gives a request
(`s = K0 + k − P`) is the integer the extractor's own expression `round((t0 − prestim)·fs)` computes
from the `t0` the queue publishes for a trial notified at queue sample `k`, in the standard model of
binary64 arithmetic: `seconds_samples_roundtrip_binary64` with `T·fs = K0`, `p·fs = P`. -/
theorem reqOf_start_roundtrip {fl : ℝ → ℝ} (hfl : IsFl ((2 : ℝ) ^ (-53 : ℤ)) fl) (T fs p : ℝ) (c : Cfg)
    (i : Info) (k : ℕ) (hk : i.k = (k : ℤ)) (hfs : 0 < fs) (hT : T * fs = c.K0) (hp : p * fs = c.P)
    (hsmall : c.K0 + k + c.P ≤ 2 ^ 49) :
    round (extractorArg fl T fs p k) = (reqOf c i).s := by
  rw [seconds_samples_roundtrip_binary64 hfl T fs p k c.K0 c.P hfs hT hp hsmall]
  simp only [reqOf, hk]

/-- **Every notified trial is either still logged (kept) or was cancelled, never both**
(C04 `removed_once`, through the invariant `Once` it is proved from). -/
theorem kept_or_cancelled (c : Cfg) (evs : List Ev) (q0 : QState) (J : JState) (hstart : Start q0)
    (hrun : jrun c evs (JState.init c q0) = .ok J) (henc : EncInj c)
    (hside : SideOK c J.q.added) (i : Info) (hi : i ∈ J.q.added) :
    (i ∈ J.q.generated ∧ i.uid ∉ J.q.removed) ∨ (i.uid ∈ J.q.removed ∧ i ∉ J.q.generated) := by
  have inv := JInv_run c henc evs (JInv_init c q0 hstart) hrun (fun _ => hside)
  obtain ⟨_, _, hex, hiff⟩ := Once_nodup inv.q.once
  have hlt : i.uid < J.q.added.length := by
    have : i.uid ∈ J.q.added.map (·.uid) := List.mem_map.2 ⟨i, hi, rfl⟩
    rw [inv.q.uid] at this
    exact List.mem_range.1 this
  rcases (hiff i.uid).1 hlt with h | h
  · obtain ⟨g, hg, he⟩ := List.mem_map.1 h
    have : g = i := uid_inj inv.q.uid (inv.q.emb.gensub g hg) hi he
    subst this
    exact Or.inl ⟨hg, fun hr => hex _ hr h⟩
  · exact Or.inr ⟨h, fun hg => hex _ h (List.mem_map.2 ⟨i, hg, rfl⟩)⟩

/-- **End to end over the concrete queue model, kept trial (histories with pauses) — full.**
Run the composed system over any joint history (`hrun`); let `i` be a trial the queue still
logs at the end (not cancelled) whose `added` notification has been handed to the extractor
(`hseen`) and whose epoch the acquired stream has reached (`hreached`).  Then exactly one epoch is
delivered under its key — even when cancelled trials had the same `(t0, key)` before it —; it
carries the trial's own request; after the `P` pre-stimulus samples it is the stimulus waveform,
sample for sample, and every later sample of the epoch is silence or a located sample of a trial
that starts after the waveform (silence up to the next trial).
Side conditions, read off the queue's own log: `len ≤ dur ≤ L − P` (`hside`).  No hypothesis on
the dictionary keys. -/
theorem e2e_composed_kept (c : Cfg) (evs : List Ev) (q0 : QState) (J : JState)
    (hstart : Start q0) (hrun : jrun c evs (JState.init c q0) = .ok J) (henc : EncInj c)
    (hside : SideOK c J.q.added)
    (i : Info) (hi : i ∈ J.q.generated) (hseen : Note.add i ∉ J.pend)
    (hreached : (c.K0 : Int) + i.k - (c.P : Int) + (c.L : Int) ≤ (J.acq : Int)) :
    ∃ e : Extract.Epoch Cell, (deliveries c.B J.eops (reqOf c i).key).flatten = [e] ∧
      e.req = reqOf c i ∧ e.missed = false ∧ e.data.length = c.L ∧
      (∀ j, j < i.len → e.data[c.P + j]? = some (Cell.W i.key j)) ∧
      (∀ j, i.len ≤ j → c.P + j < c.L → e.data[c.P + j]? = some Cell.Z ∨
        ∃ i' ∈ J.q.added, i.k + (i.len : Int) ≤ i'.k ∧ ∃ j' : Nat, j' < i'.len ∧
          i'.k + (j' : Int) = i.k + (j : Int) ∧ e.data[c.P + j]? = some (Cell.W i'.key j')) := by
  have inv := JInv_run c henc evs (JInv_init c q0 hstart) hrun (fun _ => hside)
  have hia := inv.q.emb.gensub i hi
  obtain ⟨hdel, hacq⟩ := kept_delivered c inv i hi hseen hreached
  have hsv : (reqOf c i).s = (c.K0 : Int) + i.k - (c.P : Int) := rfl
  have hlv : (reqOf c i).len = c.L := rfl
  have hs0 : 0 ≤ (reqOf c i).s := by
    obtain ⟨seen, g⟩ := inv.g
    exact (locate c inv g i hia hseen).2.2
  have hside_i := hside i hia
  refine ⟨_, hdel, rfl, rfl, epoch_length c inv _ hacq, ?_, ?_⟩
  · intro j hj
    rw [epoch_view c inv _ hacq (c.P + j) (by rw [hlv]; omega)]
    exact inv.q.emb.kept i hi j hj _ (by omega)
  · intro j hj hjL
    rw [epoch_view c inv _ hacq (c.P + j) (by rw [hlv]; exact hjL)]
    have hlen : (reqOf c i).s.toNat + (c.P + j) < (J.tl ++ Queue.rest J.q).length := by
      have := inv.acq; simp only [List.length_append]; omega
    rcases inv.q.emb.after i hi ((reqOf c i).s.toNat + (c.P + j)) (by omega) hlen with h | h
    · exact Or.inl h
    · obtain ⟨i', hi', j', h1, h2, h3, h4⟩ := h
      exact Or.inr ⟨i', hi', by omega, j', h1, by omega, h4⟩

/-- **Under any key, only kept trials yield epochs.**  Whatever the extractor has delivered under a
dictionary key `κ` is at most one epoch, and it is the epoch `stream[s, s+L)` of a trial that the
queue still logs (not cancelled), that carries this key, and whose last sample the acquired stream
has reached — the one epoch `e2e_composed_kept` owes that trial.  Cancelled trials account for
nothing, however often the key was re-used. -/
theorem e2e_composed_only_kept (c : Cfg) (evs : List Ev) (q0 : QState) (J : JState)
    (hstart : Start q0) (hrun : jrun c evs (JState.init c q0) = .ok J) (henc : EncInj c)
    (hside : SideOK c J.q.added) (κ : Nat) :
    (deliveries c.B J.eops κ).flatten = [] ∨
    ∃ i' ∈ J.q.generated, i'.uid ∉ J.q.removed ∧ (reqOf c i').key = κ ∧
      (reqOf c i').s.toNat + c.L ≤ J.acq ∧
      (deliveries c.B J.eops κ).flatten = [epochOf (streamOf J.eops) (reqOf c i')] := by
  have inv := JInv_run c henc evs (JInv_init c q0 hstart) hrun (fun _ => hside)
  obtain ⟨seen, g⟩ := inv.g
  rw [deliveries_key c inv g κ]
  cases ho : altEnd none (onKey c κ seen) with
  | none => left; rfl
  | some i' =>
    by_cases hd : doneAt (reqOf c i') J.acq = true
    · right
      obtain ⟨h1, h2, _⟩ := outstanding_added g (fun _ hn => List.mem_append_left _ hn) ho
      have hdone : (reqOf c i').s.toNat + c.L ≤ J.acq := by simpa [doneAt, reqOf] using hd
      -- its removal is neither pending (it would have come too late) nor seen: it is still logged
      have halt := g.alt κ
      rw [onKey_append, AltM_append, ho] at halt
      have hpk : onKey c κ J.pend = [] := by
        cases hp : onKey c κ J.pend with
        | nil => rfl
        | cons x xs =>
          exfalso
          obtain ⟨l', hl, _⟩ := AltM_head halt.2 (by rw [hp]; simp)
          have hmem : Note.rem i' ∈ onKey c κ J.pend := by rw [hl]; exact List.mem_cons_self
          have := (inv.n.remsPend i' (mem_onKey.1 hmem).1).2.2
          omega
      have hlast : altEnd none (onKey c κ (seen ++ J.pend)) = some i' := by
        rw [onKey_append, altEnd_append, ho, hpk]; rfl
      have hu := g.last κ i' hlast
      exact ⟨i', logged_of_not_removed inv.q h1 hu, hu, h2, hdone, by simp [Option.filter, hd]⟩
    · left
      have : doneAt (reqOf c i') J.acq = false := by simpa using hd
      simp [Option.filter, this]

/-- **End to end over the concrete queue model, cancelled trial (histories with pauses) — full.**
A notified trial that the queue has cancelled (`removed` log) never yields an epoch — whether its
notifications have reached the extractor yet or not: under its key nothing is delivered at all, or
exactly the one epoch owed to a *kept* trial `i' ≠ i` that was presented at the same start sample
with the same stimulus after `i` was cancelled (`e2e_composed_kept` gives that trial exactly this
epoch, so none is left for `i`).  In particular nothing is delivered under its key whenever no
logged trial shares its (start, stimulus). -/
theorem e2e_composed_cancelled (c : Cfg) (evs : List Ev) (q0 : QState) (J : JState)
    (hstart : Start q0) (hrun : jrun c evs (JState.init c q0) = .ok J) (henc : EncInj c)
    (hside : SideOK c J.q.added)
    (i : Info) (_hi : i ∈ J.q.added) (hc : i.uid ∈ J.q.removed) :
    ((deliveries c.B J.eops (reqOf c i).key).flatten = [] ∨
      ∃ i' ∈ J.q.generated, i'.uid ∉ J.q.removed ∧ i' ≠ i ∧ i'.k = i.k ∧ i'.key = i.key ∧
        (deliveries c.B J.eops (reqOf c i).key).flatten = [epochOf (streamOf J.eops) (reqOf c i')]) ∧
    ((∀ i' ∈ J.q.generated, ¬ (i'.k = i.k ∧ i'.key = i.key)) →
      (deliveries c.B J.eops (reqOf c i).key).flatten = []) := by
  have key := e2e_composed_only_kept c evs q0 J hstart hrun henc hside (reqOf c i).key
  have hsame : ∀ i', (reqOf c i').key = (reqOf c i).key → i'.k = i.k ∧ i'.key = i.key :=
    fun i' h => henc _ _ _ _ h
  constructor
  · rcases key with h | ⟨i', hg, hu, hk, _, hdel⟩
    · exact Or.inl h
    · obtain ⟨h1, h2⟩ := hsame i' hk
      exact Or.inr ⟨i', hg, hu, fun he => hu (he ▸ hc), h1, h2, hdel⟩
  · intro hnone
    rcases key with h | ⟨i', hg, _, hk, _, _⟩
    · exact h
    · exact absurd (hsame i' hk) (hnone i' hg)

/-- **The extractor never raises in a composed run** — in particular never the
`ValueError('Duplicate epochs not supported')` of a key re-used before its removal was seen: the
queue presents a (start, stimulus) again only after cancelling the earlier trial, and the
notifications reach the extractor in issue order.  Every epoch handed on has length `L` and is
`stream[s, s+L)` of the request it carries. -/
theorem e2e_composed_never_raises (c : Cfg) (evs : List Ev) (q0 : QState) (J : JState)
    (hstart : Start q0) (hrun : jrun c evs (JState.init c q0) = .ok J) (henc : EncInj c)
    (hside : SideOK c J.q.added) :
    ∀ out ∈ (Extract.run (State.init c.B) J.eops).2, ∃ batch fired, out = .ok batch fired ∧
      ∀ e ∈ batch, e = epochOf (streamOf J.eops) e.req ∧ e.req ∈ allReqs J.eops ∧ e.data.length = c.L :=
  metadata_paired_seq c.B c.L J.eops
    (JInv_run c henc evs (JInv_init c q0 hstart) hrun (fun _ => hside)).n.valid

/-- a history without `pause(m)` (pause(), resume(), resume(m) are allowed) -/
def NoPause (evs : List Ev) : Prop := ∀ ev ∈ evs, isPause ev = false

/-- **End to end over the concrete queue model, histories without pause — full.**
Every notified trial whose notification has been handed to the extractor and whose epoch the
acquired stream has reached yields exactly one epoch, and after the `P` pre-stimulus samples that
epoch is the stimulus waveform followed by zeros — under the property's own side conditions for
that trial: the epoch covers the stimulus (`len + P ≤ L`) and ends before the next trial
(`L − P ≤ len + delay`).  No hypothesis on the keys: starts increase strictly.  The hypotheses of
`e2e_kept` are all discharged from the run (through `kept_delivered`, as in `e2e_composed_kept`). -/
theorem e2e_composed_nopause (c : Cfg) (evs : List Ev) (q0 : QState) (J : JState)
    (hstart : Start q0) (hrun : jrun c evs (JState.init c q0) = .ok J) (henc : EncInj c)
    (hnp : NoPause evs) (i : Info) (hi : i ∈ J.q.added) (hseen : Note.add i ∉ J.pend)
    (hcover : i.len + c.P ≤ c.L) (hnext : c.L ≤ c.P + i.len + i.delay.toNat)
    (hreached : (c.K0 : Int) + i.k - (c.P : Int) + (c.L : Int) ≤ (J.acq : Int)) :
    J.q.removed = [] ∧
    ∃ e : Extract.Epoch Cell, (deliveries c.B J.eops (reqOf c i).key).flatten = [e] ∧
      e.req = reqOf c i ∧ e.missed = false ∧
      e.data.drop c.P = wave i.key 0 i.len ++ List.replicate (c.L - c.P - i.len) Cell.Z := by
  obtain ⟨inv, np⟩ := JNP_run c evs henc (JInv_init c q0 hstart) (NPInv_init c q0 hstart) hnp hrun
  have hig : i ∈ J.q.generated := by rw [np.all]; exact hi
  obtain ⟨hdel, hacq⟩ := kept_delivered c inv i hig hseen hreached
  have hs0 : 0 ≤ (reqOf c i).s := by
    obtain ⟨seen, g⟩ := inv.g
    exact (locate c inv g i hi hseen).2.2
  have hsv : (reqOf c i).s = (c.K0 : Int) + i.k - (c.P : Int) := rfl
  have hlv : (reqOf c i).len = c.L := rfl
  have hwl : (wave i.key 0 i.len).length = i.len := by simp [wave]
  have hemb : Embedded Cell.Z (streamOf J.eops) c.P ⟨reqOf c i, wave i.key 0 i.len⟩ := by
    unfold Embedded
    simp only [hlv, hwl]
    have hacq' := inv.acq
    have hSlen : (streamOf J.eops).length = J.acq := by rw [inv.stream, List.length_take]; omega
    have hview : ∀ y, y < c.L - c.P →
        (slice (streamOf J.eops) ((reqOf c i).s.toNat + c.P) (c.L - c.P))[y]? =
          (J.tl ++ Queue.rest J.q)[(reqOf c i).s.toNat + c.P + y]? := by
      intro y hy
      rw [slice_getElem? _ _ _ _ hy, inv.stream, List.getElem?_take_of_lt (by omega),
        List.getElem?_append_left (by omega)]
    apply List.ext_getElem?
    intro x
    by_cases hx : x < c.L - c.P
    · rw [hview x hx]
      by_cases hxl : x < i.len
      · rw [List.getElem?_append_left (l₁ := wave i.key 0 i.len) (by rw [hwl]; exact hxl)]
        rw [inv.q.emb.kept i hig x hxl _ (by omega)]
        simpa using (wave_getElem? i.key 0 i.len x hxl).symm
      · rw [List.getElem?_append_right (l₁ := wave i.key 0 i.len) (by rw [hwl]; omega), hwl]
        rw [np.gap.gap i hig _ (by omega) (by omega)]
        rw [List.getElem?_replicate, if_pos (by omega)]
    · have h1 : (slice (streamOf J.eops) ((reqOf c i).s.toNat + c.P) (c.L - c.P)).length = c.L - c.P :=
        slice_length _ _ _ (by omega)
      rw [List.getElem?_eq_none (by omega), List.getElem?_eq_none]
      simp only [List.length_append, hwl, List.length_replicate]; omega
  refine ⟨np.norem, _, hdel, rfl, rfl, ?_⟩
  simp only [epochOf]
  rw [slice_drop]
  unfold Embedded at hemb
  simpa only [hlv, hwl] using hemb

/-- **The code's own schedule is admissible.**  After any history in which every acquisition call
drained the notification FIFO (what `extract_epochs` does with its two deques), the next draining
call — of any size within what has been played — is neither a `lateRequest` nor a `lateRemoval`,
provided the look-back buffer covers the pre-stimulus time (`P ≤ B`) and no pre-stimulus window
starts before the acquisition (`P ≤ K0 + k`): notifications are issued at generation time, hence
before the corresponding samples are acquired (C05 `visible_of_recent`). -/
theorem deque_schedule_admissible (c : Cfg) (evs : List Ev) (q0 : QState) (J : JState)
    (hstart : Start q0) (hrun : jrun c evs (JState.init c q0) = .ok J) (henc : EncInj c)
    (hside : SideOK c J.q.added)
    (hdr : drains c evs (JState.init c q0) = true) (hPB : c.P ≤ c.B)
    (hpre : ∀ i ∈ J.q.added, (c.P : Int) ≤ (c.K0 : Int) + i.k)
    (n : Nat) (complete : Bool) (hn : J.acq + n ≤ J.tl.length) :
    ∃ J', jstep c J (.acq n J.pend.length complete) = .ok J' := by
  have inv := JInv_run c henc evs (JInv_init c q0 hstart) hrun (fun _ => hside)
  have d := DInv_run c henc evs (JInv_init c q0 hstart) (by intro i hi; simp [JState.init] at hi) hdr hrun hside
  exact deque_step_ok c inv d hPB (fun i hi => hpre i (inv.n.addsPend i hi)) n _ complete hn (Nat.le_refl _)

/-! ### Non-vacuity: a concrete joint history (FIFO queue, one 3-sample stimulus × 3, delay 2;
acquisition starts 2 samples early, 1 pre-stimulus sample, epochs of 5, look-back 4):
generate 8, acquire 6, pause at queue sample 6 (cancels the trial at 5, keeps the one at 0),
3 samples of silence, resume, generate 10, acquire 15. -/

def zz (k : Int) : Nat := if 0 ≤ k then 2 * k.toNat else 2 * (-k).toNat + 1

def exC : Cfg := { K0 := 2, P := 1, L := 5, B := 4, enc := fun k key => Nat.pair (zz k) key }

theorem exC_inj : EncInj exC := by
  intro a b a' b' h
  obtain ⟨h1, h2⟩ := Nat.pair_eq_pair.1 h
  refine ⟨?_, h2⟩
  unfold zz at h1
  split at h1 <;> split at h1 <;> omega

def exQ : QState := (append { kind := .fifo } ⟨3, false, 3, 3, [2], 0, 3⟩).1

theorem exQ_start : Start exQ := by
  refine ⟨?_, rfl, rfl, rfl, rfl, rfl⟩
  intro i e h
  simp only [exQ, append, List.nil_append] at h
  match i, h with
  | 0, h => simp at h; subst h; decide
  | n + 1, h => simp at h

def exEvs : List Ev :=
  [.q (.pop 8), .acq 6 5 false, .q (.pause (some 6)), .q (.pop 3), .q (.resume none), .q (.pop 10),
   .acq 15 9 true]

def exJ : JState :=
  match jrun exC exEvs (JState.init exC exQ) with
  | .ok J => J
  | .error _ => JState.init exC exQ

theorem exRun : jrun exC exEvs (JState.init exC exQ) = .ok exJ := by rfl

/-- the played timeline: the cancelled trial's first sample survives at position 7, then silence,
then the re-presented trial at 11 -/
example : exJ.tl = [.Z, .Z, .W 0 0, .W 0 1, .W 0 2, .Z, .Z, .W 0 0, .Z, .Z, .Z, .W 0 0, .W 0 1, .W 0 2,
    .Z, .Z, .W 0 0, .W 0 1, .W 0 2, .Z, .Z] := by decide +kernel
example : exJ.q.added.map (fun i => (i.uid, i.k)) = [(0, 0), (1, 5), (2, 9), (3, 14)] ∧
    exJ.q.removed = [1] ∧ exJ.pend = [] ∧ exJ.acq = 21 := by decide +kernel

/-- the kept trial notified at queue sample 9 (after the resume): one epoch, waveform after the
pre-stimulus sample -/
example : ∃ e : Extract.Epoch Cell,
    (deliveries exC.B exJ.eops (reqOf exC ⟨2, 0, 9, 3, 3, 2⟩).key).flatten = [e] ∧
      ∀ j, j < 3 → e.data[1 + j]? = some (Cell.W 0 j) := by
  obtain ⟨e, h1, _, _, _, h5, _⟩ := e2e_composed_kept exC exEvs exQ exJ exQ_start exRun exC_inj
    (by unfold SideOK; decide +kernel) ⟨2, 0, 9, 3, 3, 2⟩
    (by decide +kernel) (by decide +kernel) (by decide +kernel)
  exact ⟨e, h1, h5⟩

/-- the trial notified at queue sample 5 was cancelled by the pause: no epoch -/
example : (deliveries exC.B exJ.eops (reqOf exC ⟨1, 0, 5, 3, 3, 2⟩).key).flatten = [] :=
  (e2e_composed_cancelled exC exEvs exQ exJ exQ_start exRun exC_inj
    (by unfold SideOK; decide +kernel) ⟨1, 0, 5, 3, 3, 2⟩
    (by decide +kernel) (by decide +kernel)).2 (by decide +kernel)

/-! A history that **re-uses a dictionary key**: generate 4 samples (trial uid 0 at queue sample 0),
pause at queue sample 0 — exactly on its start: it is cancelled, the clock rewinds to 0 —, resume,
generate 8 (trial uid 1 again at queue sample 0 with the same stimulus, trial uid 2 at 5), acquire
10 samples in one call that sees `added, removed, added, added`. -/

def exEvsR : List Ev :=
  [.q (.pop 4), .q (.pause (some 0)), .q (.resume none), .q (.pop 8), .acq 10 9 true]

def exJR : JState :=
  match jrun exC exEvsR (JState.init exC exQ) with
  | .ok J => J
  | .error _ => JState.init exC exQ

theorem exRunR : jrun exC exEvsR (JState.init exC exQ) = .ok exJR := by rfl

example : exJR.q.added.map (fun i => (i.uid, i.k, i.key)) = [(0, 0, 0), (1, 0, 0), (2, 5, 0)] ∧
    exJR.q.removed = [0] ∧ exJR.pend = [] ∧ exJR.acq = 10 ∧
    exJR.eops.map (fun o => (o.reqs.map (·.key), o.rems)) =
      [([Nat.pair 0 0, Nat.pair 0 0, Nat.pair 10 0], [Nat.pair 0 0])] := by decide +kernel

/-- the re-presented trial (uid 1) is recovered: exactly one epoch under the shared key -/
example : ∃ e : Extract.Epoch Cell,
    (deliveries exC.B exJR.eops (reqOf exC ⟨1, 0, 0, 3, 3, 2⟩).key).flatten = [e] ∧
      ∀ j, j < 3 → e.data[1 + j]? = some (Cell.W 0 j) := by
  obtain ⟨e, h1, _, _, _, h5, _⟩ := e2e_composed_kept exC exEvsR exQ exJR exQ_start exRunR exC_inj
    (by unfold SideOK; decide +kernel) ⟨1, 0, 0, 3, 3, 2⟩
    (by decide +kernel) (by decide +kernel) (by decide +kernel)
  exact ⟨e, h1, h5⟩

/-- the cancelled trial (uid 0) has the same key: the one epoch under it is the kept trial's -/
example : ∃ i' ∈ exJR.q.generated, i'.uid ∉ exJR.q.removed ∧ i' ≠ ⟨0, 0, 0, 3, 3, 2⟩ ∧
    (deliveries exC.B exJR.eops (reqOf exC ⟨0, 0, 0, 3, 3, 2⟩).key).flatten =
      [epochOf (streamOf exJR.eops) (reqOf exC i')] := by
  rcases (e2e_composed_cancelled exC exEvsR exQ exJR exQ_start exRunR exC_inj
    (by unfold SideOK; decide +kernel) ⟨0, 0, 0, 3, 3, 2⟩ (by decide +kernel) (by decide +kernel)).1 with h | h
  · exfalso
    obtain ⟨e, h1, _⟩ := e2e_composed_kept exC exEvsR exQ exJR exQ_start exRunR exC_inj
      (by unfold SideOK; decide +kernel) ⟨1, 0, 0, 3, 3, 2⟩
      (by decide +kernel) (by decide +kernel) (by decide +kernel)
    have : reqOf exC ⟨1, 0, 0, 3, 3, 2⟩ = reqOf exC ⟨0, 0, 0, 3, 3, 2⟩ := rfl
    rw [this, h] at h1
    cases h1
  · obtain ⟨i', h1, h2, h3, _, _, h6⟩ := h
    exact ⟨i', h1, h2, h3, h6⟩

/-- the history above drains the deques in both calls; a further call of 0 samples is admissible -/
example : ∃ J', jstep exC exJ (.acq 0 exJ.pend.length true) = .ok J' :=
  deque_schedule_admissible exC exEvs exQ exJ exQ_start exRun exC_inj
    (by unfold SideOK; decide +kernel) (by rfl) (by decide)
    (by decide +kernel) 0 true (by decide +kernel)

/-- the request start of the kept trial is what the extractor's float expression yields (identity
`fl`, fs = 97656.25 Hz, queue start 2 samples, 1 sample pre-stimulus) -/
example : round (extractorArg (fun x => x) (2 / 97656.25) 97656.25 (1 / 97656.25) 9) =
    (reqOf exC ⟨2, 0, 9, 3, 3, 2⟩).s :=
  reqOf_start_roundtrip (fl := fun x => x) (by intro x; simp) (2 / 97656.25) 97656.25 (1 / 97656.25) exC
    ⟨2, 0, 9, 3, 3, 2⟩ 9 rfl (by norm_num) (by norm_num [exC]) (by norm_num [exC]) (by norm_num [exC])

/-- a history without pause: generate 13 in two requests, acquire in three calls with delayed
notifications; the second trial (queue sample 5) is recovered as waveform then silence -/
def exEvs2 : List Ev :=
  [.q (.pop 6), .acq 4 0 false, .q (.pop 7), .acq 5 1 false, .acq 6 5 true]

def exJ2 : JState :=
  match jrun exC exEvs2 (JState.init exC exQ) with
  | .ok J => J
  | .error _ => JState.init exC exQ

theorem exRun2 : jrun exC exEvs2 (JState.init exC exQ) = .ok exJ2 := by rfl

example : ∃ e : Extract.Epoch Cell,
    (deliveries exC.B exJ2.eops (reqOf exC ⟨1, 0, 5, 3, 3, 2⟩).key).flatten = [e] ∧
      e.data.drop 1 = [.W 0 0, .W 0 1, .W 0 2, .Z] := by
  obtain ⟨_, e, h1, _, _, h4⟩ := e2e_composed_nopause exC exEvs2 exQ exJ2 exQ_start exRun2 exC_inj
    (by unfold NoPause; decide) ⟨1, 0, 5, 3, 3, 2⟩ (by decide +kernel) (by decide +kernel) (by decide) (by decide)
    (by decide +kernel)
  exact ⟨e, h1, h4⟩

end Psi.C06
