import PsiModel.PData
namespace Psi.PData
theorem placeholder11 : PySlice.all = ⟨none, none, none⟩ := rfl
end Psi.PData
