import PsiProofs.Helper.C11_Getitem
/-!
# C11 — annotated arrays keep time base, channel labels and metadata aligned

Property theorems about the model `PsiModel/PData.lean` (repaired code).
-/
set_option linter.unusedSimpArgs false
namespace Psi.PData

/-- Python's `l[start:stop]` for a list of length `n` (unit step): drop the clamped start, keep up to the clamped stop. -/
def pySliceList {α} (l : List α) (s : PySlice) : List α :=
  (l.take (stopNat s l.length)).drop (startNat s l.length)

theorem t_length (a : PD) : a.t.length = a.nTime := by simp [PD.t]

private theorem t_slice (s0 : Int) (fs : Rat) (n a b : Nat) (hb : b ≤ n) :
    (List.range (b - a)).map (fun (j : Nat) => (((s0 + (a : Int)) + (j : Int) : Int) : Rat) / fs) =
      (((List.range n).map fun (j : Nat) => ((s0 + (j : Int) : Int) : Rat) / fs).take b).drop a := by
  apply List.ext_getElem
  · simp; omega
  · intro i h1 h2
    simp at h1 h2 ⊢
    rw [Rat.add_assoc]

/-- **Time base of a contiguous slice.** For every well-formed 1-, 2- or 3-D annotated array and every
unit-step slice `x[..., start:stop]` — `start`, `stop` any integers or `None`, positive, negative or out of
range — indexing succeeds and the time axis of the result is the slice of the time axis; rate, channel labels
and metadata are untouched and the time-axis length is the number of selected samples. -/
theorem unit_slice_time (a : PD) (hwf : WF a) (s : PySlice) (hunit : s.step = none ∨ s.step = some 1) :
    ∃ r, getitem a (.tuple [.ellipsis, .slice s]) = .ok (.arr r) ∧
      r.t = pySliceList a.t s ∧ r.fs = a.fs ∧ r.channel = a.channel ∧ r.metadata = a.metadata ∧
      r.shape = a.shape.dropLast ++ [stopNat s a.nTime - startNat s a.nTime] := by
  have hs : s.step.getD 1 = 1 := by rcases hunit with h | h <;> simp [h]
  have hfs : ∀ fs : Rat, timeFs fs s = fs := by
    intro fs; rcases hunit with h | h <;> simp [timeFs, h]
    grind
  cases hwf with
  | d1 n data s0 fs lab m hd =>
    obtain ⟨d, hd⟩ := getitem_tslice_1d data s0 fs s 1 _ n lab m (by omega) hs (slicePositions_unit s n hs)
    refine ⟨_, hd, ?_, ?_, rfl, rfl, ?_⟩
    · simp only [PD.t, PD.nTime, pySliceList, timeS0, hfs, List.length_map, List.length_range, List.getLast?_singleton,
        Option.getD_some, List.length_range']
      exact t_slice s0 fs n _ _ (stopNat_le s n)
    · exact hfs fs
    · simp [PD.nTime]
  | d2 c n data s0 fs l m hd hl =>
    obtain ⟨d, hd⟩ := getitem_tslice_2d data s0 fs s 1 _ c n l m (by omega) hs (slicePositions_unit s n hs)
    refine ⟨_, hd, ?_, ?_, rfl, rfl, ?_⟩
    · simp only [PD.t, PD.nTime, pySliceList, timeS0, hfs, List.length_map, List.length_range, List.getLast?_cons_cons,
        List.getLast?_singleton, Option.getD_some, List.length_range']
      exact t_slice s0 fs n _ _ (stopNat_le s n)
    · exact hfs fs
    · simp [PD.nTime]
  | d3 e c n data s0 fs l ms hd hl hm =>
    obtain ⟨d, hd⟩ := getitem_tslice_3d data s0 fs s 1 _ e c n l ms (by omega) hs (slicePositions_unit s n hs)
    refine ⟨_, hd, ?_, ?_, rfl, rfl, ?_⟩
    · simp only [PD.t, PD.nTime, pySliceList, timeS0, hfs, List.length_map, List.length_range, List.getLast?_cons_cons,
        List.getLast?_singleton, Option.getD_some, List.length_range']
      exact t_slice s0 fs n _ _ (stopNat_le s n)
    · exact hfs fs
    · simp [PD.nTime]

/-- the same for the bare form `x[start:stop]` of a 1-D array. -/
theorem unit_slice_time_1d (n : Nat) (data : List Nat) (s0 : Int) (fs : Rat) (lab : Label) (m : Md)
    (s : PySlice) (hunit : s.step = none ∨ s.step = some 1) :
    ∃ r, getitem ⟨[n], data, s0, fs, .one lab, .one m⟩ (.one (.slice s)) = .ok (.arr r) ∧
      r.t = pySliceList (PD.t ⟨[n], data, s0, fs, .one lab, .one m⟩) s ∧ r.fs = fs ∧
      r.channel = .one lab ∧ r.metadata = .one m ∧ r.shape = [stopNat s n - startNat s n] := by
  have hs : s.step.getD 1 = 1 := by rcases hunit with h | h <;> simp [h]
  have hfs : ∀ fs : Rat, timeFs fs s = fs := by
    intro fs; rcases hunit with h | h <;> simp [timeFs, h]
    grind
  obtain ⟨d, hd⟩ := getitem_tslice_1d_bare data s0 fs s 1 _ n lab m (by omega) hs (slicePositions_unit s n hs)
  refine ⟨_, hd, ?_, hfs fs, rfl, rfl, by simp⟩
  simp only [PD.t, PD.nTime, pySliceList, timeS0, hfs, List.length_map, List.length_range, List.getLast?_singleton,
    Option.getD_some, List.length_range']
  exact t_slice s0 fs n _ _ (stopNat_le s n)

/-- **A strided slice divides the rate.** `x[..., start:stop:k]` with `k ≥ 1` succeeds on every well-formed array,
the rate becomes `fs / k`, labels and metadata are untouched, and the time-axis length is `len(range(start', stop', k))`.
(The first-sample index after a strided slice is not part of the claim.) -/
theorem strided_rate (a : PD) (hwf : WF a) (s : PySlice) (k : Int) (hk : 1 ≤ k) (hs : s.step = some k) :
    ∃ r, getitem a (.tuple [.ellipsis, .slice s]) = .ok (.arr r) ∧
      r.fs = a.fs / (k : Rat) ∧ r.channel = a.channel ∧ r.metadata = a.metadata ∧
      r.shape = a.shape.dropLast ++ [sliceLen (startNat s a.nTime) (stopNat s a.nTime) k] := by
  have hs' : s.step.getD 1 = k := by simp [hs]
  have hfs : ∀ fs : Rat, timeFs fs s = fs / (k : Rat) := by intro fs; simp [timeFs, hs]
  cases hwf with
  | d1 n data s0 fs lab m hd =>
    obtain ⟨d, hd⟩ := getitem_tslice_1d data s0 fs s k _ n lab m (by omega) hs' (slicePositions_pos s n k (by omega) hs')
    exact ⟨_, hd, hfs fs, rfl, rfl, by simp [PD.nTime]⟩
  | d2 c n data s0 fs l m hd hl =>
    obtain ⟨d, hd⟩ := getitem_tslice_2d data s0 fs s k _ c n l m (by omega) hs' (slicePositions_pos s n k (by omega) hs')
    exact ⟨_, hd, hfs fs, rfl, rfl, by simp [PD.nTime]⟩
  | d3 e c n data s0 fs l ms hd hl hm =>
    obtain ⟨d, hd⟩ := getitem_tslice_3d data s0 fs s k _ e c n l ms (by omega) hs' (slicePositions_pos s n k (by omega) hs')
    exact ⟨_, hd, hfs fs, rfl, rfl, by simp [PD.nTime]⟩

end Psi.PData
