import PsiProofs.Helper.C11_Select
/-!
# C11 — annotated arrays keep time base, channel labels and metadata aligned

Property theorems about the model `PsiModel/PData.lean` (repaired code).
-/
set_option linter.unusedSimpArgs false
namespace Psi.PData

/-- Python's `l[start:stop]` for a list of length `n` (unit step): drop the clamped start, keep up to the clamped stop. -/
def pySliceList {α} (l : List α) (s : PySlice) : List α :=
  (l.take (stopNat s l.length)).drop (startNat s l.length)

theorem t_length (a : PD) : a.t.length = a.nTime := by simp [PD.t]

private theorem t_slice (s0 : Int) (fs : Rat) (n a b : Nat) (hb : b ≤ n) :
    (List.range (b - a)).map (fun (j : Nat) => (((s0 + (a : Int)) + (j : Int) : Int) : Rat) / fs) =
      (((List.range n).map fun (j : Nat) => ((s0 + (j : Int) : Int) : Rat) / fs).take b).drop a := by
  apply List.ext_getElem
  · simp; omega
  · intro i h1 h2
    simp at h1 h2 ⊢
    rw [Rat.add_assoc]

/-- **Time base of a contiguous slice.** For every well-formed 1-, 2- or 3-D annotated array and every
unit-step slice `x[..., start:stop]` — `start`, `stop` any integers or `None`, positive, negative or out of
range — indexing succeeds and the time axis of the result is the slice of the time axis; rate, channel labels
and metadata are untouched and the time-axis length is the number of selected samples. -/
theorem unit_slice_time (a : PD) (hwf : WF a) (s : PySlice) (hunit : s.step = none ∨ s.step = some 1) :
    ∃ r, getitem a (.tuple [.ellipsis, .slice s]) = .ok (.arr r) ∧
      r.t = pySliceList a.t s ∧ r.fs = a.fs ∧ r.channel = a.channel ∧ r.metadata = a.metadata ∧
      r.shape = a.shape.dropLast ++ [stopNat s a.nTime - startNat s a.nTime] := by
  have hs : s.step.getD 1 = 1 := by rcases hunit with h | h <;> simp [h]
  have hfs : ∀ fs : Rat, timeFs fs s = fs := by
    intro fs; rcases hunit with h | h <;> simp [timeFs, h]
    grind
  cases hwf with
  | d1 n data s0 fs lab m hd =>
    obtain ⟨d, hd⟩ := getitem_tslice_1d data s0 fs s 1 _ n lab m (by omega) hs (slicePositions_unit s n hs)
    refine ⟨_, hd, ?_, ?_, rfl, rfl, ?_⟩
    · simp only [PD.t, PD.nTime, pySliceList, timeS0, hfs, List.length_map, List.length_range, List.getLast?_singleton,
        Option.getD_some, List.length_range']
      exact t_slice s0 fs n _ _ (stopNat_le s n)
    · exact hfs fs
    · simp [PD.nTime]
  | d2 c n data s0 fs l m hd hl =>
    obtain ⟨d, hd⟩ := getitem_tslice_2d data s0 fs s 1 _ c n l m (by omega) hs (slicePositions_unit s n hs)
    refine ⟨_, hd, ?_, ?_, rfl, rfl, ?_⟩
    · simp only [PD.t, PD.nTime, pySliceList, timeS0, hfs, List.length_map, List.length_range, List.getLast?_cons_cons,
        List.getLast?_singleton, Option.getD_some, List.length_range']
      exact t_slice s0 fs n _ _ (stopNat_le s n)
    · exact hfs fs
    · simp [PD.nTime]
  | d3 e c n data s0 fs l ms hd hl hm =>
    obtain ⟨d, hd⟩ := getitem_tslice_3d data s0 fs s 1 _ e c n l ms (by omega) hs (slicePositions_unit s n hs)
    refine ⟨_, hd, ?_, ?_, rfl, rfl, ?_⟩
    · simp only [PD.t, PD.nTime, pySliceList, timeS0, hfs, List.length_map, List.length_range, List.getLast?_cons_cons,
        List.getLast?_singleton, Option.getD_some, List.length_range']
      exact t_slice s0 fs n _ _ (stopNat_le s n)
    · exact hfs fs
    · simp [PD.nTime]

/-- the same for the bare form `x[start:stop]` of a 1-D array. -/
theorem unit_slice_time_1d (n : Nat) (data : List Nat) (s0 : Int) (fs : Rat) (lab : Label) (m : Md)
    (s : PySlice) (hunit : s.step = none ∨ s.step = some 1) :
    ∃ r, getitem ⟨[n], data, s0, fs, .one lab, .one m⟩ (.one (.slice s)) = .ok (.arr r) ∧
      r.t = pySliceList (PD.t ⟨[n], data, s0, fs, .one lab, .one m⟩) s ∧ r.fs = fs ∧
      r.channel = .one lab ∧ r.metadata = .one m ∧ r.shape = [stopNat s n - startNat s n] := by
  have hs : s.step.getD 1 = 1 := by rcases hunit with h | h <;> simp [h]
  have hfs : ∀ fs : Rat, timeFs fs s = fs := by
    intro fs; rcases hunit with h | h <;> simp [timeFs, h]
    grind
  obtain ⟨d, hd⟩ := getitem_tslice_1d_bare data s0 fs s 1 _ n lab m (by omega) hs (slicePositions_unit s n hs)
  refine ⟨_, hd, ?_, hfs fs, rfl, rfl, by simp⟩
  simp only [PD.t, PD.nTime, pySliceList, timeS0, hfs, List.length_map, List.length_range, List.getLast?_singleton,
    Option.getD_some, List.length_range']
  exact t_slice s0 fs n _ _ (stopNat_le s n)

/-- **A strided slice divides the rate.** `x[..., start:stop:k]` with `k ≥ 1` succeeds on every well-formed array,
the rate becomes `fs / k`, labels and metadata are untouched, and the time-axis length is `len(range(start', stop', k))`.
(The first-sample index after a strided slice is not part of the claim.) -/
theorem strided_rate (a : PD) (hwf : WF a) (s : PySlice) (k : Int) (hk : 1 ≤ k) (hs : s.step = some k) :
    ∃ r, getitem a (.tuple [.ellipsis, .slice s]) = .ok (.arr r) ∧
      r.fs = a.fs / (k : Rat) ∧ r.channel = a.channel ∧ r.metadata = a.metadata ∧
      r.shape = a.shape.dropLast ++ [sliceLen (startNat s a.nTime) (stopNat s a.nTime) k] := by
  have hs' : s.step.getD 1 = k := by simp [hs]
  have hfs : ∀ fs : Rat, timeFs fs s = fs / (k : Rat) := by intro fs; simp [timeFs, hs]
  cases hwf with
  | d1 n data s0 fs lab m hd =>
    obtain ⟨d, hd⟩ := getitem_tslice_1d data s0 fs s k _ n lab m (by omega) hs' (slicePositions_pos s n k (by omega) hs')
    exact ⟨_, hd, hfs fs, rfl, rfl, by simp [PD.nTime]⟩
  | d2 c n data s0 fs l m hd hl =>
    obtain ⟨d, hd⟩ := getitem_tslice_2d data s0 fs s k _ c n l m (by omega) hs' (slicePositions_pos s n k (by omega) hs')
    exact ⟨_, hd, hfs fs, rfl, rfl, by simp [PD.nTime]⟩
  | d3 e c n data s0 fs l ms hd hl hm =>
    obtain ⟨d, hd⟩ := getitem_tslice_3d data s0 fs s k _ e c n l ms (by omega) hs' (slicePositions_pos s n k (by omega) hs')
    exact ⟨_, hd, hfs fs, rfl, rfl, by simp [PD.nTime]⟩

/-- index entries of the property's grammar that address a channel or epoch axis:
ints, slices with step ≥ 1, int lists, boolean masks (as list or ndarray). -/
def Item.selects : Item → Prop
  | .int _ => True
  | .slice s => s.step = none ∨ ∃ k : Int, 1 ≤ k ∧ s.step = some k
  | .ilist _ | .blist _ | .iarr _ | .barr _ => True
  | .newaxis | .ellipsis => False

theorem Item.selects_ne {it : Item} (h : it.selects) : it ≠ .newaxis ∧ it ≠ .ellipsis := by
  cases it <;> simp_all [Item.selects]

/-- positions selected by NumPy lie on the axis. -/
theorem itemSel_lt {it : Item} (hit : it.selects) {n : Nat} {sel : Sel} (h : itemSel it n = .ok sel) :
    ∀ p ∈ sel.positions, p < n := by
  cases it with
  | newaxis => exact absurd hit (by simp [Item.selects])
  | ellipsis => exact absurd hit (by simp [Item.selects])
  | int i =>
    simp only [itemSel, Except.map] at h
    split at h
    · cases h
    · rename_i p hp; cases h; intro q hq; simp [Sel.positions] at hq; subst hq; exact wrapIndex_lt hp
  | slice s =>
    simp only [itemSel, Except.map] at h
    split at h
    · cases h
    · rename_i ps hp
      cases h
      rcases hit with hn | ⟨k, hk, hs⟩
      · exact slicePositions_pos_lt 1 (by omega) (by simp [hn]) hp
      · exact slicePositions_pos_lt k (by omega) (by simp [hs]) hp
  | ilist l =>
    simp only [itemSel] at h
    split at h
    · cases h; simp [Sel.positions]
    · simp only [Except.map] at h
      split at h
      · cases h
      · rename_i ps hp; cases h; exact wrapAll_lt hp
  | iarr l =>
    simp only [itemSel, Except.map] at h
    split at h
    · cases h
    · rename_i ps hp; cases h; exact wrapAll_lt hp
  | blist m =>
    simp only [itemSel] at h
    split at h
    · cases h; simp [Sel.positions]
    · simp only [Except.map] at h
      split at h
      · cases h
      · rename_i ps hp; cases h; exact maskPositions_lt hp
  | barr m =>
    simp only [itemSel, Except.map] at h
    split at h
    · cases h
    · rename_i ps hp; cases h; exact maskPositions_lt hp

/-- number of labels attached by a selection = number of rows it selects (`none`: the axis is dropped). -/
def chanCount : Chan → Option Nat
  | .one _ => none
  | .many l => some l.length

def metaCount : Meta → Option Nat
  | .one _ => none
  | .many l => some l.length

theorem selChan_count (l : List Label) (sel : Sel) (h : ∀ p ∈ sel.positions, p < l.length) :
    chanCount (selChan l sel) = (selShape sel).head? := by
  cases sel with
  | idx p => simp [selChan, chanCount, selShape]
  | basic ps => simpa [selChan, chanCount, selShape] using listTake_length l ps h
  | fancy ps => simpa [selChan, chanCount, selShape] using listTake_length l ps h
  | new => simp [selChan, chanCount, selShape]

theorem selMeta_count (l : List Md) (sel : Sel) (h : ∀ p ∈ sel.positions, p < l.length) :
    metaCount (selMeta l sel) = (selShape sel).head? := by
  cases sel with
  | idx p => simp [selMeta, metaCount, selShape]
  | basic ps => simpa [selMeta, metaCount, selShape] using listTake_length l ps h
  | fancy ps => simpa [selMeta, metaCount, selShape] using listTake_length l ps h
  | new => simp [selMeta, metaCount, selShape]

/-- **Channel selection, 2-D.** For a well-formed `(channel, time)` array and any int / slice / int list / boolean
mask `it` that NumPy accepts on the channel axis (`itemSel it c = ok sel`: `sel` lists the rows NumPy selects),
`x[it]` succeeds, the labels of the result are exactly the labels at those rows, in that order, their number equals
the length of the resulting channel axis, and `s0`, `fs`, metadata are untouched. -/
theorem channel_select_2d (c n : Nat) (data : List Nat) (s0 : Int) (fs : Rat) (l : List Label) (m : Md)
    (hl : l.length = c) (it : Item) (hit : it.selects) (sel : Sel) (h : itemSel it c = .ok sel) :
    ∃ r, getitem ⟨[c, n], data, s0, fs, .many l, .one m⟩ (.one it) = .ok (.arr r) ∧
      r.channel = selChan l sel ∧ r.shape = selShape sel ++ [n] ∧
      chanCount r.channel = (selShape sel).head? ∧
      r.s0 = s0 ∧ r.fs = fs ∧ r.metadata = .one m := by
  obtain ⟨d, hd⟩ := getitem_chan_2d c n data s0 fs l m hl it (Item.selects_ne hit) sel h
  exact ⟨_, hd, rfl, rfl, selChan_count l sel (hl ▸ itemSel_lt hit h), rfl, rfl, rfl⟩

/-- **Channel selection, 3-D**: `x[:, it]` (`it` an int, a slice or a list; an ndarray inside a tuple is
refused with `ValueError`). Labels = labels at the selected rows; epochs' metadata untouched. -/
theorem channel_select_3d (e c n : Nat) (data : List Nat) (s0 : Int) (fs : Rat) (l : List Label) (ms : List Md)
    (hl : l.length = c) (it : Item) (hit : it.selects) (hna : (∀ x, it ≠ .iarr x) ∧ (∀ x, it ≠ .barr x))
    (sel : Sel) (h : itemSel it c = .ok sel) :
    ∃ r, getitem ⟨[e, c, n], data, s0, fs, .many l, .many ms⟩ (.tuple [.slice .all, it]) = .ok (.arr r) ∧
      r.channel = selChan l sel ∧ r.shape = [e] ++ selShape sel ++ [n] ∧
      chanCount r.channel = (selShape sel).head? ∧
      r.s0 = s0 ∧ r.fs = fs ∧ r.metadata = .many ms := by
  obtain ⟨d, hd⟩ := getitem_chan_3d e c n data s0 fs l ms hl it
    ⟨(Item.selects_ne hit).1, (Item.selects_ne hit).2, hna.1, hna.2⟩ sel h
  exact ⟨_, hd, rfl, rfl, selChan_count l sel (hl ▸ itemSel_lt hit h), rfl, rfl, rfl⟩

/-- **Epoch selection**: `x[it]` on a well-formed `(epoch, channel, time)` array: the metadata entries of the
result are exactly those of the selected epochs, in order, as many as the resulting epoch axis is long. -/
theorem epoch_select (e c n : Nat) (data : List Nat) (s0 : Int) (fs : Rat) (lc : List Label) (ms : List Md)
    (hm : ms.length = e) (it : Item) (hit : it.selects) (sel : Sel) (h : itemSel it e = .ok sel) :
    ∃ r, getitem ⟨[e, c, n], data, s0, fs, .many lc, .many ms⟩ (.one it) = .ok (.arr r) ∧
      r.metadata = selMeta ms sel ∧ r.shape = selShape sel ++ [c, n] ∧
      metaCount r.metadata = (selShape sel).head? ∧
      r.s0 = s0 ∧ r.fs = fs ∧ r.channel = .many lc := by
  obtain ⟨d, hd⟩ := getitem_epoch_3d e c n data s0 fs lc ms hm it (Item.selects_ne hit) sel h
  exact ⟨_, hd, rfl, rfl, selMeta_count ms sel (hm ▸ itemSel_lt hit h), rfl, rfl, rfl⟩

/-- a boolean mask selects the labels at its `True` positions (spelled out with `keep`-style filtering). -/
theorem mask_labels {α} (l : List α) (m : List Bool) (h : m.length = l.length) :
    listTake l (trueIdx 0 m) = (l.zip m).filterMap fun (x, b) => if b then some x else none := by
  suffices H : ∀ (pre : List α), listTake (pre ++ l) (trueIdx pre.length m) =
      (l.zip m).filterMap fun (x, b) => if b then some x else none from by simpa using H []
  induction l generalizing m with
  | nil => intro pre; cases m <;> simp_all [trueIdx, listTake]
  | cons x xs ih =>
    intro pre
    cases m with
    | nil => simp at h
    | cons b bs =>
      have ih' := ih bs (by simpa using h) (pre ++ [x])
      simp only [List.append_assoc, List.singleton_append, List.length_append, List.length_singleton] at ih'
      cases b <;> simp [trueIdx, listTake, ih'] <;> simpa [listTake] using ih'

end Psi.PData
