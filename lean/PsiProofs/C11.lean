import PsiProofs.Helper.C11_SplitCases
import PsiProofs.Helper.C11_KF1
/-!
# C11 — annotated arrays keep time base, channel labels and metadata aligned

Property theorems about the model `PsiModel/PData.lean` (repaired code).
-/
set_option linter.unusedSimpArgs false
namespace Psi.PData

/-- Python's `l[start:stop]` for a list of length `n` (unit step): drop the clamped start, keep up to the clamped stop. -/
def pySliceList {α} (l : List α) (s : PySlice) : List α :=
  (l.take (stopNat s l.length)).drop (startNat s l.length)

theorem t_length (a : PD) : a.t.length = a.nTime := by simp [PD.t]

private theorem t_slice (s0 : Int) (fs : Rat) (n a b : Nat) (hb : b ≤ n) :
    (List.range (b - a)).map (fun (j : Nat) => (((s0 + (a : Int)) + (j : Int) : Int) : Rat) / fs) =
      (((List.range n).map fun (j : Nat) => ((s0 + (j : Int) : Int) : Rat) / fs).take b).drop a := by
  apply List.ext_getElem
  · simp; omega
  · intro i h1 h2
    simp at h1 h2 ⊢
    rw [Rat.add_assoc]

/-- **Time base of a contiguous slice.** For every well-formed 1-, 2- or 3-D annotated array and every
unit-step slice `x[..., start:stop]` — `start`, `stop` any integers or `None`, positive, negative or out of
range — indexing succeeds and the time axis of the result is the slice of the time axis; rate, channel labels
and metadata are untouched and the time-axis length is the number of selected samples. -/
theorem unit_slice_time (a : PD) (hwf : WF a) (s : PySlice) (hunit : s.step = none ∨ s.step = some 1) :
    ∃ r, getitem a (.tuple [.ellipsis, .slice s]) = .ok (.arr r) ∧
      r.t = pySliceList a.t s ∧ r.fs = a.fs ∧ r.channel = a.channel ∧ r.metadata = a.metadata ∧
      r.shape = a.shape.dropLast ++ [stopNat s a.nTime - startNat s a.nTime] := by
  have hs : s.step.getD 1 = 1 := by rcases hunit with h | h <;> simp [h]
  have hfs : ∀ fs : Rat, timeFs fs s = fs := by
    intro fs; rcases hunit with h | h <;> simp [timeFs, h]
    grind
  cases hwf with
  | d1 n data s0 fs lab m hd =>
    obtain ⟨d, hd⟩ := getitem_tslice_1d data s0 fs s 1 _ n lab m (by omega) hs (slicePositions_unit s n hs)
    refine ⟨_, hd, ?_, ?_, rfl, rfl, ?_⟩
    · simp only [PD.t, PD.nTime, pySliceList, timeS0, hfs, List.length_map, List.length_range, List.getLast?_singleton,
        Option.getD_some, List.length_range']
      exact t_slice s0 fs n _ _ (stopNat_le s n)
    · exact hfs fs
    · simp [PD.nTime]
  | d2 c n data s0 fs l m hd hl =>
    obtain ⟨d, hd⟩ := getitem_tslice_2d data s0 fs s 1 _ c n l m (by omega) hs (slicePositions_unit s n hs)
    refine ⟨_, hd, ?_, ?_, rfl, rfl, ?_⟩
    · simp only [PD.t, PD.nTime, pySliceList, timeS0, hfs, List.length_map, List.length_range, List.getLast?_cons_cons,
        List.getLast?_singleton, Option.getD_some, List.length_range']
      exact t_slice s0 fs n _ _ (stopNat_le s n)
    · exact hfs fs
    · simp [PD.nTime]
  | d3 e c n data s0 fs l ms hd hl hm =>
    obtain ⟨d, hd⟩ := getitem_tslice_3d data s0 fs s 1 _ e c n l ms (by omega) hs (slicePositions_unit s n hs)
    refine ⟨_, hd, ?_, ?_, rfl, rfl, ?_⟩
    · simp only [PD.t, PD.nTime, pySliceList, timeS0, hfs, List.length_map, List.length_range, List.getLast?_cons_cons,
        List.getLast?_singleton, Option.getD_some, List.length_range']
      exact t_slice s0 fs n _ _ (stopNat_le s n)
    · exact hfs fs
    · simp [PD.nTime]

/-- the same for the bare form `x[start:stop]` of a 1-D array. -/
theorem unit_slice_time_1d (n : Nat) (data : List Nat) (s0 : Int) (fs : Rat) (lab : Label) (m : Md)
    (s : PySlice) (hunit : s.step = none ∨ s.step = some 1) :
    ∃ r, getitem ⟨[n], data, s0, fs, .one lab, .one m⟩ (.one (.slice s)) = .ok (.arr r) ∧
      r.t = pySliceList (PD.t ⟨[n], data, s0, fs, .one lab, .one m⟩) s ∧ r.fs = fs ∧
      r.channel = .one lab ∧ r.metadata = .one m ∧ r.shape = [stopNat s n - startNat s n] := by
  have hs : s.step.getD 1 = 1 := by rcases hunit with h | h <;> simp [h]
  have hfs : ∀ fs : Rat, timeFs fs s = fs := by
    intro fs; rcases hunit with h | h <;> simp [timeFs, h]
    grind
  obtain ⟨d, hd⟩ := getitem_tslice_1d_bare data s0 fs s 1 _ n lab m (by omega) hs (slicePositions_unit s n hs)
  refine ⟨_, hd, ?_, hfs fs, rfl, rfl, by simp⟩
  simp only [PD.t, PD.nTime, pySliceList, timeS0, hfs, List.length_map, List.length_range, List.getLast?_singleton,
    Option.getD_some, List.length_range']
  exact t_slice s0 fs n _ _ (stopNat_le s n)

/-- **A strided slice divides the rate.** `x[..., start:stop:k]` with `k ≥ 1` succeeds on every well-formed array,
the rate becomes `fs / k`, labels and metadata are untouched, and the time-axis length is `len(range(start', stop', k))`.
(The first-sample index after a strided slice is not part of the claim.) -/
theorem strided_rate (a : PD) (hwf : WF a) (s : PySlice) (k : Int) (hk : 1 ≤ k) (hs : s.step = some k) :
    ∃ r, getitem a (.tuple [.ellipsis, .slice s]) = .ok (.arr r) ∧
      r.fs = a.fs / (k : Rat) ∧ r.channel = a.channel ∧ r.metadata = a.metadata ∧
      r.shape = a.shape.dropLast ++ [sliceLen (startNat s a.nTime) (stopNat s a.nTime) k] := by
  have hs' : s.step.getD 1 = k := by simp [hs]
  have hfs : ∀ fs : Rat, timeFs fs s = fs / (k : Rat) := by intro fs; simp [timeFs, hs]
  cases hwf with
  | d1 n data s0 fs lab m hd =>
    obtain ⟨d, hd⟩ := getitem_tslice_1d data s0 fs s k _ n lab m (by omega) hs' (slicePositions_pos s n k (by omega) hs')
    exact ⟨_, hd, hfs fs, rfl, rfl, by simp [PD.nTime]⟩
  | d2 c n data s0 fs l m hd hl =>
    obtain ⟨d, hd⟩ := getitem_tslice_2d data s0 fs s k _ c n l m (by omega) hs' (slicePositions_pos s n k (by omega) hs')
    exact ⟨_, hd, hfs fs, rfl, rfl, by simp [PD.nTime]⟩
  | d3 e c n data s0 fs l ms hd hl hm =>
    obtain ⟨d, hd⟩ := getitem_tslice_3d data s0 fs s k _ e c n l ms (by omega) hs' (slicePositions_pos s n k (by omega) hs')
    exact ⟨_, hd, hfs fs, rfl, rfl, by simp [PD.nTime]⟩

/-- index entries of the property's grammar that address a channel or epoch axis:
ints, slices with step ≥ 1, int lists, boolean masks (as list or ndarray). -/
def Item.selects : Item → Prop
  | .int _ => True
  | .slice s => s.step = none ∨ ∃ k : Int, 1 ≤ k ∧ s.step = some k
  | .ilist _ | .blist _ | .iarr _ | .barr _ => True
  | .newaxis | .ellipsis => False

theorem Item.selects_ne {it : Item} (h : it.selects) : it ≠ .newaxis ∧ it ≠ .ellipsis := by
  cases it <;> simp_all [Item.selects]

/-- positions selected by NumPy lie on the axis. -/
theorem itemSel_lt {it : Item} (hit : it.selects) {n : Nat} {sel : Sel} (h : itemSel it n = .ok sel) :
    ∀ p ∈ sel.positions, p < n := by
  cases it with
  | newaxis => exact absurd hit (by simp [Item.selects])
  | ellipsis => exact absurd hit (by simp [Item.selects])
  | int i =>
    simp only [itemSel, Except.map] at h
    split at h
    · cases h
    · rename_i p hp; cases h; intro q hq; simp [Sel.positions] at hq; subst hq; exact wrapIndex_lt hp
  | slice s =>
    simp only [itemSel, Except.map] at h
    split at h
    · cases h
    · rename_i ps hp
      cases h
      rcases hit with hn | ⟨k, hk, hs⟩
      · exact slicePositions_pos_lt 1 (by omega) (by simp [hn]) hp
      · exact slicePositions_pos_lt k (by omega) (by simp [hs]) hp
  | ilist l =>
    simp only [itemSel] at h
    split at h
    · cases h; simp [Sel.positions]
    · simp only [Except.map] at h
      split at h
      · cases h
      · rename_i ps hp; cases h; exact wrapAll_lt hp
  | iarr l =>
    simp only [itemSel, Except.map] at h
    split at h
    · cases h
    · rename_i ps hp; cases h; exact wrapAll_lt hp
  | blist m =>
    simp only [itemSel] at h
    split at h
    · cases h; simp [Sel.positions]
    · simp only [Except.map] at h
      split at h
      · cases h
      · rename_i ps hp; cases h; exact maskPositions_lt hp
  | barr m =>
    simp only [itemSel, Except.map] at h
    split at h
    · cases h
    · rename_i ps hp; cases h; exact maskPositions_lt hp

/-- number of labels attached by a selection = number of rows it selects (`none`: the axis is dropped). -/
def chanCount : Chan → Option Nat
  | .one _ => none
  | .many l => some l.length

def metaCount : Meta → Option Nat
  | .one _ => none
  | .many l => some l.length

theorem selChan_count (l : List Label) (sel : Sel) (h : ∀ p ∈ sel.positions, p < l.length) :
    chanCount (selChan l sel) = (selShape sel).head? := by
  cases sel with
  | idx p => simp [selChan, chanCount, selShape]
  | basic ps => simpa [selChan, chanCount, selShape] using listTake_length l ps h
  | fancy ps => simpa [selChan, chanCount, selShape] using listTake_length l ps h
  | new => simp [selChan, chanCount, selShape]

theorem selMeta_count (l : List Md) (sel : Sel) (h : ∀ p ∈ sel.positions, p < l.length) :
    metaCount (selMeta l sel) = (selShape sel).head? := by
  cases sel with
  | idx p => simp [selMeta, metaCount, selShape]
  | basic ps => simpa [selMeta, metaCount, selShape] using listTake_length l ps h
  | fancy ps => simpa [selMeta, metaCount, selShape] using listTake_length l ps h
  | new => simp [selMeta, metaCount, selShape]

/-- **Channel selection, 2-D.** For a well-formed `(channel, time)` array and any int / slice / int list / boolean
mask `it` that NumPy accepts on the channel axis (`itemSel it c = ok sel`: `sel` lists the rows NumPy selects),
`x[it]` succeeds, the labels of the result are exactly the labels at those rows, in that order, their number equals
the length of the resulting channel axis, and `s0`, `fs`, metadata are untouched. -/
theorem channel_select_2d (c n : Nat) (data : List Nat) (s0 : Int) (fs : Rat) (l : List Label) (m : Md)
    (hl : l.length = c) (it : Item) (hit : it.selects) (sel : Sel) (h : itemSel it c = .ok sel) :
    ∃ r, getitem ⟨[c, n], data, s0, fs, .many l, .one m⟩ (.one it) = .ok (.arr r) ∧
      r.channel = selChan l sel ∧ r.shape = selShape sel ++ [n] ∧
      chanCount r.channel = (selShape sel).head? ∧
      r.s0 = s0 ∧ r.fs = fs ∧ r.metadata = .one m := by
  obtain ⟨d, hd⟩ := getitem_chan_2d c n data s0 fs l m hl it (Item.selects_ne hit) sel h
  exact ⟨_, hd, rfl, rfl, selChan_count l sel (hl ▸ itemSel_lt hit h), rfl, rfl, rfl⟩

/-- **Channel selection, 3-D**: `x[:, it]` (`it` an int, a slice or a list; an ndarray inside a tuple is
refused with `ValueError`). Labels = labels at the selected rows; epochs' metadata untouched. -/
theorem channel_select_3d (e c n : Nat) (data : List Nat) (s0 : Int) (fs : Rat) (l : List Label) (ms : List Md)
    (hl : l.length = c) (it : Item) (hit : it.selects) (hna : (∀ x, it ≠ .iarr x) ∧ (∀ x, it ≠ .barr x))
    (sel : Sel) (h : itemSel it c = .ok sel) :
    ∃ r, getitem ⟨[e, c, n], data, s0, fs, .many l, .many ms⟩ (.tuple [.slice .all, it]) = .ok (.arr r) ∧
      r.channel = selChan l sel ∧ r.shape = [e] ++ selShape sel ++ [n] ∧
      chanCount r.channel = (selShape sel).head? ∧
      r.s0 = s0 ∧ r.fs = fs ∧ r.metadata = .many ms := by
  obtain ⟨d, hd⟩ := getitem_chan_3d e c n data s0 fs l ms hl it
    ⟨(Item.selects_ne hit).1, (Item.selects_ne hit).2, hna.1, hna.2⟩ sel h
  exact ⟨_, hd, rfl, rfl, selChan_count l sel (hl ▸ itemSel_lt hit h), rfl, rfl, rfl⟩

/-- **Epoch selection**: `x[it]` on a well-formed `(epoch, channel, time)` array: the metadata entries of the
result are exactly those of the selected epochs, in order, as many as the resulting epoch axis is long. -/
theorem epoch_select (e c n : Nat) (data : List Nat) (s0 : Int) (fs : Rat) (lc : List Label) (ms : List Md)
    (hm : ms.length = e) (it : Item) (hit : it.selects) (sel : Sel) (h : itemSel it e = .ok sel) :
    ∃ r, getitem ⟨[e, c, n], data, s0, fs, .many lc, .many ms⟩ (.one it) = .ok (.arr r) ∧
      r.metadata = selMeta ms sel ∧ r.shape = selShape sel ++ [c, n] ∧
      metaCount r.metadata = (selShape sel).head? ∧
      r.s0 = s0 ∧ r.fs = fs ∧ r.channel = .many lc := by
  obtain ⟨d, hd⟩ := getitem_epoch_3d e c n data s0 fs lc ms hm it (Item.selects_ne hit) sel h
  exact ⟨_, hd, rfl, rfl, selMeta_count ms sel (hm ▸ itemSel_lt hit h), rfl, rfl, rfl⟩

/-- a boolean mask selects the labels at its `True` positions (spelled out with `keep`-style filtering). -/
theorem mask_labels {α} (l : List α) (m : List Bool) (h : m.length = l.length) :
    listTake l (trueIdx 0 m) = (l.zip m).filterMap fun (x, b) => if b then some x else none := by
  suffices H : ∀ (pre : List α), listTake (pre ++ l) (trueIdx pre.length m) =
      (l.zip m).filterMap fun (x, b) => if b then some x else none from by simpa using H []
  induction l generalizing m with
  | nil => intro pre; cases m <;> simp_all [trueIdx, listTake]
  | cons x xs ih =>
    intro pre
    cases m with
    | nil => simp at h
    | cons b bs =>
      have ih' := ih bs (by simpa using h) (pre ++ [x])
      simp only [List.append_assoc, List.singleton_append, List.length_append, List.length_singleton] at ih'
      cases b <;> simp [trueIdx, listTake, ih'] <;> simpa [listTake] using ih'

/-- **Split + concat restores the array (time axis, 1-D).** For every cut `k ∈ ℤ` (negative or out of range
alike), the two pieces `x[:k]`, `x[k:]` exist and `concat` of them is `x` itself: data, shape, `s0`, `fs`,
label and metadata. -/
theorem concat_split_time_1d (n : Nat) (data : List Nat) (s0 : Int) (fs : Rat) (lab : Label) (m : Md)
    (hd : data.length = n) (k : Int) :
    ∃ p1 p2, getitem ⟨[n], data, s0, fs, .one lab, .one m⟩ (.one (.slice ⟨none, some k, none⟩)) = .ok (.arr p1) ∧
      getitem ⟨[n], data, s0, fs, .one lab, .one m⟩ (.one (.slice ⟨some k, none, none⟩)) = .ok (.arr p2) ∧
      concat [p1, p2] .time = .ok ⟨[n], data, s0, fs, .one lab, .one m⟩ := by
  subst hd
  have hK : (clampPos k data.length).toNat ≤ data.length := by
    have := clampPos_le k data.length; have := clampPos_nonneg k data.length; omega
  refine ⟨_, _, getitem_slice_1d_explicit _ data s0 fs lab m rfl ⟨none, some k, none⟩ rfl,
    getitem_slice_1d_explicit _ data s0 fs lab m rfl ⟨some k, none, none⟩ rfl, ?_⟩
  simp only [startNat, stopNat]
  rw [concat_two_1d _ _ _ _ _ _ _ _ _ _ _ _ (by simp; omega) (by simp; omega)]
  have e1 : max 0 (clampPos k data.length).toNat = (clampPos k data.length).toNat := by omega
  have e2 : max (clampPos k data.length).toNat data.length = data.length := by omega
  simp [e1, e2]
  omega

/-- **concat refuses non-adjacent or mismatched pieces (1-D, time axis).** If the second piece does not start at
the sample after the first one's last, or its rate, label or metadata differ, `concat` raises `ValueError`. -/
theorem concat_rejects_1d (n1 n2 : Nat) (d1 d2 : List Nat) (s0 s0' : Int) (fs fs' : Rat) (lab lab' : Label) (m m' : Md)
    (h1 : d1.length = n1) (h2 : d2.length = n2)
    (hbad : s0' ≠ s0 + n1 ∨ fs' ≠ fs ∨ lab' ≠ lab ∨ m' ≠ m) :
    concat [⟨[n1], d1, s0, fs, .one lab, .one m⟩, ⟨[n2], d2, s0', fs', .one lab', .one m'⟩] .time =
      .error .valueError := by
  rw [concat_two_1d _ _ _ _ _ _ _ _ _ _ _ _ h1 h2, if_pos]
  rcases hbad with h | h | h | h <;> simp [h]

/-- and adjacent, matching 1-D pieces are joined: data appended, annotations of the first piece. -/
theorem concat_adjacent_1d (n1 n2 : Nat) (d1 d2 : List Nat) (s0 : Int) (fs : Rat) (lab : Label) (m : Md)
    (h1 : d1.length = n1) (h2 : d2.length = n2) :
    concat [⟨[n1], d1, s0, fs, .one lab, .one m⟩, ⟨[n2], d2, s0 + n1, fs, .one lab, .one m⟩] .time =
      .ok ⟨[n1 + n2], d1 ++ d2, s0, fs, .one lab, .one m⟩ := by
  rw [concat_two_1d _ _ _ _ _ _ _ _ _ _ _ _ h1 h2, if_neg]
  simp

/-- `a[index]` when the result is an array: `getArr … = ok r ↔ getitem … = ok (arr r)`. -/
theorem getArr_iff (a : PD) (index : Index) (r : PD) :
    getArr Fixes.all a index = .ok r ↔ getitem a index = .ok (.arr r) := by
  unfold getArr getitem
  cases h : getitemG Fixes.all a index with
  | error e => simp
  | ok res => cases res <;> simp

/-- **Split + concat restores the array — every axis, every dimensionality, any number of cuts.**
For a well-formed 1-, 2- or 3-D annotated array `a`, an axis `dim` it has (time; channel for ≥ 2-D; epoch for 3-D) and any
list of cut positions `ks ∈ ℤ*` (negative and out-of-range alike) whose clamped values are nondecreasing, the unit-step
slices `a[:k₁], a[k₁:k₂], …, a[kₘ:]` of that axis (`cutIndex`: `x[..., s]` for time, `x[s]` / `x[:, s]` for channel,
`x[s]` for epoch) all exist, there are `m + 1` of them, and `concat` of them along `dim` is `a` itself: shape, data
placement, `s0`, `fs`, channel labels and metadata.  (`ks = []`: `concat([a[:]]) = a`.) -/
theorem concat_split (a : PD) (hwf : WF a) (dim : Dim) (hk : dim.k ≤ a.ndim) (ks : List Int)
    (hsorted : (ks.map (clampPos · (axisLen a dim))).Pairwise (· ≤ ·)) :
    ∃ pieces, (cutSlices ks).mapM (fun s => getArr Fixes.all a (cutIndex a.ndim dim s)) = .ok pieces ∧
      pieces.length = ks.length + 1 ∧ concat pieces dim = .ok a := by
  suffices H : ∃ pieces, (cutSlices ks).mapM (fun s => getArr Fixes.all a (cutIndex a.ndim dim s)) = .ok pieces ∧
      concat pieces dim = .ok a by
    obtain ⟨pieces, h1, h2⟩ := H
    exact ⟨pieces, h1, by rw [mapM_ok_length _ _ _ h1]; exact cutSlices_length ks none, h2⟩
  cases hwf with
  | d1 n data s0 fs lab m hd =>
    cases dim with
    | time => exact split_t1 n data s0 fs lab m hd ks hsorted
    | channel => simp [Dim.k, PD.ndim] at hk
    | epoch => simp [Dim.k, PD.ndim] at hk
  | d2 c n data s0 fs l m hd hl =>
    cases dim with
    | time => exact split_t2 c n data s0 fs l m hd hl ks hsorted
    | channel => exact split_c2 c n data s0 fs l m hd hl ks hsorted
    | epoch => simp [Dim.k, PD.ndim] at hk
  | d3 e c n data s0 fs l ms hd hl hm =>
    cases dim with
    | time => exact split_t3 e c n data s0 fs l ms hd hl hm ks hsorted
    | channel => exact split_c3 e c n data s0 fs l ms hd hl hm ks hsorted
    | epoch => exact split_e3 e c n data s0 fs l ms hd hl hm ks hsorted

/-- **One cut at any `k ∈ ℤ`** (no ordering hypothesis needed): `concat([x[:k], x[k:]]) = x` on every axis of every
well-formed 1-, 2- or 3-D array. -/
theorem concat_split_one (a : PD) (hwf : WF a) (dim : Dim) (hk : dim.k ≤ a.ndim) (k : Int) :
    ∃ p1 p2, getitem a (cutIndex a.ndim dim ⟨none, some k, none⟩) = .ok (.arr p1) ∧
      getitem a (cutIndex a.ndim dim ⟨some k, none, none⟩) = .ok (.arr p2) ∧
      concat [p1, p2] dim = .ok a := by
  obtain ⟨pieces, h1, _, h3⟩ := concat_split a hwf dim hk [k] (by simp)
  simp only [cutSlices, cutSlicesFrom, List.mapM_cons, List.mapM_nil] at h1
  cases e1 : getArr Fixes.all a (cutIndex a.ndim dim ⟨none, some k, none⟩) with
  | error e => rw [e1] at h1; cases h1
  | ok p1 =>
    cases e2 : getArr Fixes.all a (cutIndex a.ndim dim ⟨some k, none, none⟩) with
    | error e => rw [e1, e2] at h1; cases h1
    | ok p2 =>
      rw [e1, e2] at h1
      cases h1
      exact ⟨p1, p2, (getArr_iff _ _ _).1 e1, (getArr_iff _ _ _).1 e2, h3⟩

/-- **concat refuses non-adjacent or mismatched pieces — every dimensionality, any number of pieces.**
For well-formed arrays of one dimensionality `≥ dim.k`: if some piece has another rate, or (time axis) some piece does
not start at the sample after the previous piece's last (`s0ᵢ ≠ s0₀ + Σ_{j<i} n_time j`), or (not concatenating
channels) some piece has other channel labels, or (not concatenating epochs) other metadata, `concat` raises
`ValueError`. -/
theorem concat_rejects (dim : Dim) (base : PD) (rest : List PD) (hwf : ∀ b ∈ base :: rest, WF b)
    (hnd : ∀ b ∈ rest, b.ndim = base.ndim) (hk : dim.k ≤ base.ndim)
    (hbad : (∃ b ∈ rest, b.fs ≠ base.fs) ∨
      (dim = .time ∧ ∃ i, ∃ h : i < rest.length,
        rest[i].s0 ≠ base.s0 + base.nTime + ((rest.take i).map fun b => (b.nTime : Int)).sum) ∨
      (dim ≠ .channel ∧ ∃ b ∈ rest, b.channel ≠ base.channel) ∨
      (dim ≠ .epoch ∧ ∃ b ∈ rest, b.metadata ≠ base.metadata)) :
    concat (base :: rest) dim = .error .valueError := by
  apply concat_not_joinable dim base rest base.ndim hwf
    (by intro b hb; simp only [List.mem_cons] at hb; rcases hb with rfl | hb; rfl; exact hnd b hb) hk
  rcases hbad with h | ⟨hd, i, hi, h⟩ | h | h
  · exact .inl h
  · refine .inr (.inl ⟨hd, ?_⟩)
    cases hc : checkS0 (base.s0 + base.nTime) rest with
    | false => rfl
    | true => exact absurd ((checkS0_iff rest _).1 hc i hi) h
  · exact .inr (.inr (.inl h))
  · exact .inr (.inr (.inr h))

/-- **Adjacent, matching pieces are joined — every dimensionality, any number of pieces.** Well-formed arrays of one
dimensionality `≥ dim.k` with the same rate, (time axis) each starting at the sample after its predecessor's last,
(not concatenating channels) the same labels, (not concatenating epochs) the same metadata, and the same shape off
the concatenation axis: `concat` succeeds; the result has the first piece's `s0` and `fs`, the labels / metadata of the
pieces in order along a concatenated channel / epoch axis (else the common ones), the axis lengths added, and the data
of `np.concatenate` in its simplest form (`joinData`: for every outer index, the blocks of all pieces in turn). -/
theorem concat_adjacent (dim : Dim) (base : PD) (rest : List PD) (hwf : ∀ b ∈ base :: rest, WF b)
    (hnd : ∀ b ∈ rest, b.ndim = base.ndim) (hk : dim.k ≤ base.ndim)
    (hfs : ∀ b ∈ rest, b.fs = base.fs)
    (hs0 : dim = .time → ∀ (i : Nat) (h : i < rest.length),
      rest[i].s0 = base.s0 + base.nTime + ((rest.take i).map fun b => (b.nTime : Int)).sum)
    (hch : dim ≠ .channel → ∀ b ∈ rest, b.channel = base.channel)
    (hmd : dim ≠ .epoch → ∀ b ∈ rest, b.metadata = base.metadata)
    (hsh : ∀ b ∈ rest, b.shape.take (base.ndim - dim.k) = base.shape.take (base.ndim - dim.k) ∧
      b.shape.drop (base.ndim - dim.k + 1) = base.shape.drop (base.ndim - dim.k + 1)) :
    concat (base :: rest) dim = .ok
      ⟨base.shape.take (base.ndim - dim.k) ++ [((base :: rest).map fun b => b.shape.getD (base.ndim - dim.k) 0).sum] ++
          base.shape.drop (base.ndim - dim.k + 1),
        joinData (base.ndim - dim.k) (prod (base.shape.take (base.ndim - dim.k)))
          ((base :: rest).map fun b => (b.shape, b.data)),
        base.s0, base.fs, joinChan dim base (base :: rest), joinMeta dim base (base :: rest)⟩ :=
  concat_adjacent_core dim base rest hwf
    (by intro b hb; simp only [List.mem_cons] at hb; rcases hb with rfl | hb; rfl; exact hnd b hb) hk
    ⟨hfs, fun hd => (checkS0_iff rest _).2 (hs0 hd), hch, hmd⟩ hsh

/-- **Arithmetic, copies and dtype casts keep annotations**: `__array_finalize__` on a result of the same shape
copies `s0`, `fs`, channel and metadata unchanged (for every well-formed array). -/
theorem finalize_keeps (a : PD) (hwf : WF a) (data' : List Nat) :
    (finalize a a.shape data').s0 = a.s0 ∧ (finalize a a.shape data').fs = a.fs ∧
    (finalize a a.shape data').channel = a.channel ∧ (finalize a a.shape data').metadata = a.metadata ∧
    (finalize a a.shape data').shape = a.shape := by
  cases hwf with
  | d1 n data s0 fs lab m hd => cases lab <;> simp [finalize]
  | d2 c n data s0 fs l m hd hl => simp [finalize]
  | d3 e c n data s0 fs l ms hd hl hm => simp [finalize]

/-! ### Known finding C11-KF1: its boundary as a theorem -/

/-- the oracle's "counts equal the axis lengths": a channel list has `shape[-2]` entries, a metadata list `shape[-3]`
(`shape[-2]` on a 2-D result); lists only on ≥ 2-D results. -/
def countsMatch (r : PD) : Prop :=
  (∀ l, r.channel = .many l → 2 ≤ r.ndim ∧ l.length = shapeM2 r.shape) ∧
  (∀ ms, r.metadata = .many ms → 2 ≤ r.ndim ∧ ms.length = (if 3 ≤ r.ndim then shapeM3 r.shape else shapeM2 r.shape))

theorem itemSel_fancy_lt {it : Item} {n : Nat} {ps : List Nat} (h : itemSel it n = .ok (.fancy ps)) : ∀ p ∈ ps, p < n := by
  cases it with
  | int i => simp only [itemSel, Except.map] at h; split at h <;> cases h
  | slice s => simp only [itemSel, Except.map] at h; split at h <;> cases h
  | newaxis => cases h
  | ellipsis => cases h
  | ilist l => exact itemSel_lt (it := .ilist l) trivial h
  | iarr l => exact itemSel_lt (it := .iarr l) trivial h
  | blist l => exact itemSel_lt (it := .blist l) trivial h
  | barr l => exact itemSel_lt (it := .barr l) trivial h

/-- **C11-KF1 boundary, inside: at most one list/mask entry ⇒ counts always equal the axis lengths.**
For every well-formed 3-D array and every index expression `x[eIt, cIt, ts]` with `eIt`, `cIt` an int, a slice (step ≥ 1),
an int list or a bool list that NumPy accepts on its axis and `ts` any slice NumPy accepts on the time axis: if at most one
of `eIt`, `cIt` is a list/mask, indexing succeeds, every entry keeps its own axis (`shape = axes(eIt) ++ axes(cIt) ++ [len]`),
the labels / metadata are those of the selected rows, and their counts equal the lengths of these axes (`countsMatch`: the
harness oracle's check). -/
theorem single_advanced_counts (e c n : Nat) (data : List Nat) (s0 : Int) (fs : Rat) (l : List Label) (ms : List Md)
    (hl : l.length = c) (hm : ms.length = e) (eIt cIt : Item) (he : eIt.simple ∧ eIt.selects)
    (hc : cIt.simple ∧ cIt.selects) (ts : PySlice) (selE selC : Sel) (tps : List Nat)
    (hE : itemSel eIt e = .ok selE) (hC : itemSel cIt c = .ok selC) (hT : slicePositions ts n = .ok tps)
    (h1 : ¬ (selE.isFancy = true ∧ selC.isFancy = true)) :
    ∃ r, getitem ⟨[e, c, n], data, s0, fs, .many l, .many ms⟩ (.tuple [eIt, cIt, .slice ts]) = .ok (.arr r) ∧
      r.shape = selShape selE ++ selShape selC ++ [tps.length] ∧
      r.channel = selChan l selC ∧ r.metadata = selMeta ms selE ∧
      chanCount r.channel = (selShape selC).head? ∧ metaCount r.metadata = (selShape selE).head? ∧
      countsMatch r := by
  obtain ⟨sel, hnp, hsh⟩ := npOfSels_single selE selC tps (c * n) n (itemSel_ne_new he.1 hE) (itemSel_ne_new hc.1 hC) h1
  rw [← npGetitem_ecs e c n eIt cIt he.1 hc.1 ts selE selC tps hE hC hT] at hnp
  obtain ⟨S, F, hg⟩ := getitem_ecs e c n data s0 fs l ms hl hm eIt cIt he.1 hc.1 ts selE selC tps hE hC hT sel hnp
  have hcl := selChan_count l selC (hl ▸ itemSel_lt hc.2 hC)
  have hml := selMeta_count ms selE (hm ▸ itemSel_lt he.2 hE)
  refine ⟨_, hg, hsh, rfl, rfl, hcl, hml, ?_⟩
  simp only [countsMatch, hsh, PD.ndim]
  have hne := itemSel_ne_new he.1 hE
  have hnc := itemSel_ne_new hc.1 hC
  cases selE <;> cases selC <;>
    simp_all [selChan, selMeta, selShape, shapeM2, shapeM3, chanCount, metaCount, Sel.isFancy]


/-- **C11-KF1 boundary, outside: two list/mask entries.** With a list/mask on the epoch AND on the channel axis, whenever
indexing returns at all it returns an array whose two selected axes are merged into ONE axis of the broadcast length `k`
(NumPy pairs the two lists element-wise) while `len(pc)` labels and `len(pe)` metadata entries are attached per axis;
the counts equal the axis length **iff the two lists have the same length** — so the finding consists exactly of the
expressions with two list/mask entries of different lengths (one of them of length 1, broadcast). -/
theorem two_advanced_boundary (e c n : Nat) (data : List Nat) (s0 : Int) (fs : Rat) (l : List Label) (ms : List Md)
    (hl : l.length = c) (hm : ms.length = e) (eIt cIt : Item) (he : eIt.simple) (hc : cIt.simple) (ts : PySlice)
    (pe pc tps : List Nat) (hE : itemSel eIt e = .ok (.fancy pe)) (hC : itemSel cIt c = .ok (.fancy pc))
    (hT : slicePositions ts n = .ok tps) (res : Res)
    (hres : getitem ⟨[e, c, n], data, s0, fs, .many l, .many ms⟩ (.tuple [eIt, cIt, .slice ts]) = .ok res) :
    ∃ r k, res = .arr r ∧ r.shape = [k, tps.length] ∧
      r.channel = .many (listTake l pc) ∧ r.metadata = .many (listTake ms pe) ∧
      (listTake l pc).length = pc.length ∧ (listTake ms pe).length = pe.length ∧
      (countsMatch r ↔ pe.length = pc.length) := by
  have hnpe := npGetitem_ecs e c n eIt cIt he hc ts _ _ tps hE hC hT
  cases hnp : npGetitem [e, c, n] [eIt, cIt, .slice ts] with
  | error err =>
    simp [getitem, getitemG, Index.items, hnp] at hres
  | ok sel =>
    obtain ⟨S, F, hg⟩ := getitem_ecs e c n data s0 fs l ms hl hm eIt cIt he hc ts _ _ tps hE hC hT sel hnp
    rw [hg] at hres
    cases hres
    rw [hnpe] at hnp
    obtain ⟨k, hk, hiff⟩ := npOfSels_two pe pc tps (c * n) n sel hnp
    have hlc : (listTake l pc).length = pc.length := listTake_length l pc (hl ▸ itemSel_fancy_lt hC)
    have hlm : (listTake ms pe).length = pe.length := listTake_length ms pe (hm ▸ itemSel_fancy_lt hE)
    refine ⟨_, k, rfl, hk, rfl, rfl, hlc, hlm, ?_⟩
    rw [← hiff]
    simp only [countsMatch, selChan, selMeta, hk, PD.ndim, shapeM2, shapeM3]
    simp [hlc, hlm]
    omega


/-- **C11-KF1, the witness pinned by the repository's test** (`data3d[[0, 2], [0]]`): two list entries are paired
element-wise — one merged axis of length 2 — while one channel label and two metadata entries are attached. -/
theorem kf1_counterexample :
    (getitem ⟨[3, 2, 1], [0, 1, 2, 3, 4, 5], 0, 1, .many [some "a", some "b"], .many [10, 11, 12]⟩
        (.tuple [.ilist [0, 2], .ilist [0]])).toOption.map
      (fun r => match r with | .arr b => (b.shape, b.channel, b.metadata) | .scalar _ => ([], .one none, .one 0)) =
      some ([2, 1], .many [some "a"], .many [10, 12]) := by
  decide +kernel


/-! ### The code as found (`getitemOrig`) violates the property: counterexamples -/

/-- defect 17: `x[-2:]` on one sample moves `s0` from 0 to −1 (the time axis of the slice is shifted). -/
theorem orig_slice_start_counterexample :
    (getitemOrig ⟨[1], [0], 0, 1, .one none, .one 0⟩ (.one (.slice ⟨some (-2), none, none⟩))).toOption.map
      (fun r => match r with | .arr b => (b.shape, b.s0) | .scalar _ => ([], 0)) = some ([1], -1) := by
  decide +kernel

/-- defect 18: a boolean list on the channel axis is used as integer positions: `[True, False, True]` on labels
`a, b, c` yields three labels `b, a, b` for the two selected rows. -/
theorem orig_channel_mask_counterexample :
    (getitemOrig ⟨[3, 1], [0, 1, 2], 0, 1, .many [some "a", some "b", some "c"], .one 0⟩
        (.one (.blist [true, false, true]))).toOption.map
      (fun r => match r with | .arr b => (b.shape, b.channel) | .scalar _ => ([], .one none)) =
      some ([2, 1], .many [some "b", some "a", some "b"]) := by
  decide +kernel

/-- defect 19: an integer ndarray without a zero entry is taken for an all-True mask: `x[np.array([1, 2])]` on three
epochs keeps all three metadata entries for the two selected epochs. -/
theorem orig_intarray_counterexample :
    (getitemOrig ⟨[3, 1, 1], [0, 1, 2], 0, 1, .many [none], .many [10, 11, 12]⟩ (.one (.iarr [1, 2]))).toOption.map
      (fun r => match r with | .arr b => (b.shape, b.metadata) | .scalar _ => ([], .one 0)) =
      some ([2, 1, 1], .many [10, 11, 12]) := by
  decide +kernel

/-- the repaired model on the same three inputs. -/
example : (getitem ⟨[1], [0], 0, 1, .one none, .one 0⟩ (.one (.slice ⟨some (-2), none, none⟩))).toOption.map
    (fun r => match r with | .arr b => (b.shape, b.s0) | .scalar _ => ([], 0)) = some ([1], 0) := by decide +kernel
example : (getitem ⟨[3, 1], [0, 1, 2], 0, 1, .many [some "a", some "b", some "c"], .one 0⟩
    (.one (.blist [true, false, true]))).toOption.map
    (fun r => match r with | .arr b => (b.shape, b.channel) | .scalar _ => ([], .one none)) =
    some ([2, 1], .many [some "a", some "c"]) := by decide +kernel
example : (getitem ⟨[3, 1, 1], [0, 1, 2], 0, 1, .many [none], .many [10, 11, 12]⟩ (.one (.iarr [1, 2]))).toOption.map
    (fun r => match r with | .arr b => (b.shape, b.metadata) | .scalar _ => ([], .one 0)) =
    some ([2, 1, 1], .many [11, 12]) := by decide +kernel

/-! ### Non-vacuity: concrete inputs meeting the hypotheses -/

example : WF ⟨[2, 3], [0, 1, 2, 3, 4, 5], -7, 1728, .many [some "a", some "b"], .one 0⟩ :=
  WF.d2 2 3 _ _ _ _ _ rfl rfl
example : WF ⟨[2, 1, 3], [0, 1, 2, 3, 4, 5], 5, 1728, .many [none], .many [0, 1]⟩ :=
  WF.d3 2 1 3 _ _ _ _ _ rfl rfl rfl
/-- `x[..., -13:]` on 10 samples: a unit-step slice with an out-of-range start. -/
example : (⟨some (-13), none, none⟩ : PySlice).step = none ∨ (⟨some (-13), none, none⟩ : PySlice).step = some 1 := .inl rfl
example : startNat ⟨some (-13), none, none⟩ 10 = 0 ∧ stopNat ⟨some (-13), none, none⟩ 10 = 10 := by decide
example : (Item.blist [true, false, true]).selects ∧ itemSel (.blist [true, false, true]) 3 = .ok (.fancy [0, 2]) := by
  exact ⟨trivial, rfl⟩
example : (Item.slice ⟨some (-5), some 9, some 2⟩).selects := .inr ⟨2, by omega, rfl⟩
example : itemSel (.iarr [1, 2]) 3 = .ok (.fancy [1, 2]) := rfl
example : itemSel (.int (-1)) 3 = .ok (.idx 2) := rfl
/-- a rejected pair: the second piece starts one sample late. -/
example : (5 : Int) ≠ 0 + (4 : Nat) ∨ (1 : Rat) ≠ 1 ∨ (none : Label) ≠ none ∨ (0 : Md) ≠ 0 := .inl (by decide)

/-- `x[[0, 2], 0, 1:]` on (3, 2, 4): one list entry — hypotheses of `single_advanced_counts`. -/
example : (Item.ilist [0, 2]).simple ∧ (Item.ilist [0, 2]).selects ∧ (Item.int 0).simple ∧ (Item.int 0).selects ∧
    itemSel (.ilist [0, 2]) 3 = .ok (.fancy [0, 2]) ∧ itemSel (.int 0) 2 = .ok (.idx 0) ∧
    slicePositions ⟨some 1, none, none⟩ 4 = .ok [1, 2, 3] ∧
    ¬ ((Sel.fancy [0, 2]).isFancy = true ∧ (Sel.idx 0).isFancy = true) :=
  ⟨trivial, trivial, trivial, trivial, rfl, rfl, rfl, by simp [Sel.isFancy]⟩
/-- `x[[0, 2], [0], :]`: two list entries of lengths 2 and 1 — hypotheses of `two_advanced_boundary`; lengths differ. -/
example : itemSel (.ilist [0, 2]) 3 = .ok (.fancy [0, 2]) ∧ itemSel (.ilist [0]) 2 = .ok (.fancy [0]) ∧
    ([0, 2] : List Nat).length ≠ ([0] : List Nat).length := ⟨rfl, rfl, by decide⟩
/-- two 3-D pieces joined along the channel axis: hypotheses of `concat_adjacent` (shapes agree off axis 1). -/
example : ([1, 2, 3] : List Nat).take (3 - Dim.channel.k) = ([1, 1, 3] : List Nat).take (3 - Dim.channel.k) ∧
    ([1, 2, 3] : List Nat).drop (3 - Dim.channel.k + 1) = ([1, 1, 3] : List Nat).drop (3 - Dim.channel.k + 1) := by decide
/-- cuts `[-1, 5]` on the channel axis (2 channels) of a 3-D array: clamped to `[1, 2]`, nondecreasing. -/
example : Dim.channel.k ≤ PD.ndim ⟨[2, 2, 1], [0, 1, 2, 3], 5, 1728, .many [none, some "b"], .many [0, 1]⟩ ∧
    (([-1, 5] : List Int).map (clampPos · (axisLen ⟨[2, 2, 1], [0, 1, 2, 3], 5, 1728, .many [none, some "b"], .many [0, 1]⟩
      .channel))).Pairwise (· ≤ ·) := by decide
example : WF ⟨[2, 2, 1], [0, 1, 2, 3], 5, 1728, .many [none, some "b"], .many [0, 1]⟩ :=
  WF.d3 2 2 1 _ _ _ _ _ rfl rfl rfl
/-- two 2-D pieces, the second one sample late: `concat_rejects`' hypotheses hold (`i = 0`). -/
example : (⟨[1, 2], [2, 3], 3, 1, .many [none], .one 0⟩ : PD).s0 ≠
    (⟨[1, 2], [0, 1], 0, 1, .many [none], .one 0⟩ : PD).s0 + (⟨[1, 2], [0, 1], 0, 1, .many [none], .one 0⟩ : PD).nTime +
      (([] : List PD).map fun b => (b.nTime : Int)).sum := by decide

end Psi.PData
