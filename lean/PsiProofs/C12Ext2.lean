import PsiProofs.Helper.C12Ext2_Capture
import PsiProofs.Helper.C12Ext2_Band
import PsiProofs.Helper.C12Ext_Acc
import PsiProofs.C12
/-!
# EXT12 (continued) — `rms_band`, `capture`, `events_to_info` of psiaudio/pipeline.py

Model: `PsiModel/StagesExt2.lean` (the code **as it is**; notes/EXT12.md §9–§12).  Every theorem quantifies over
**every list of chunks** (any number, any sizes incl. empty ones) and, for `capture`, over **every history before the
request** (hence every arrival time of the request relative to the data).  Registered in `lean/registry/EXT12.txt`,
not in `C12.txt`/`C13.txt`/`C05.txt`: not part of the verdict of any listed property.  Theorems named `…_partial` hold
under the spelled-out guard that excludes a behaviour of the unchanged library; the excluded input is an `example`
right after them.
-/
namespace Psi.StagesExt2
open Psi.Stages Psi.StagesExt
variable {α β ρ χ μ τ κ ι : Type}

/-! ## rms_band

`rms_band` is the block loop of `rms` with another block function and another annotation of the result — **not** a
composition of `iirfilter` and `rms` (notes/EXT12.md §9).  The composition theorem is therefore stated against the
`rms` model of C12: `rms_band = renumber ∘ rms[block function := band]`; chunk invariance follows from
`Psi.Stages.rms_chunk_invariant`. -/

/-- **composition**: on any sequence of annotated chunks with the rate `f` (aligned or not), `rms_band` with block
length `n ≥ 1` raises `ValueError` exactly when `rms` does (a chunk that does not start where the previous one ended),
and otherwise emits the blocks that `rms` with the block function `band` emits, renumbered from output sample 0 and
annotated `fs = f / n`, default channel, empty metadata. -/
theorem rms_band_simulates_rms (band : List α → β) (divFs : ρ → Nat → ρ) (chDef : χ) (mdEmpty : μ) (n : Nat)
    (hn : 0 < n) (f : ρ) (ys : List (PD α ρ χ μ)) (hf : ∀ y ∈ ys, y.ann.fs = f) :
    (∀ e, outputs (runStage (rmsStep band divFs n) {} ys) = .error e →
        outs (run (rmsBandStep band divFs chDef mdEmpty n) {} (ys.map Arr.pd)) = .error .valueError)
    ∧ (∀ bs, outputs (runStage (rmsStep band divFs n) {} ys) = .ok bs →
        outs (run (rmsBandStep band divFs chDef mdEmpty n) {} (ys.map Arr.pd))
          = .ok (renumber ⟨divFs f n, chDef, mdEmpty⟩ 0 bs)) := by
  have h := band_sim band divFs chDef mdEmpty n hn f ys {} {} rfl rfl (Or.inr rfl) hf
  cases hr : runStage (rmsStep band divFs n) {} ys with
  | error e =>
    rw [hr] at h; simp only at h
    exact ⟨fun _ _ => by rw [h]; rfl, fun bs hb => by simp [outputs] at hb⟩
  | ok p =>
    obtain ⟨bs, st⟩ := p
    rw [hr] at h
    obtain ⟨bst', hb⟩ := h
    refine ⟨fun e he => by simp [outputs] at he, fun bs' hb' => ?_⟩
    simp only [outputs, Except.ok.injEq] at hb'
    subst hb'
    rw [hb]; rfl

example : outs (run (rmsBandStep (α := Nat) (χ := Unit) (μ := Unit) List.sum (fun (fs : Nat) n => fs / n) () () 2) {}
      ([⟨[1, 2, 3], 7, ⟨100, (), ()⟩⟩, ⟨[4, 5], 10, ⟨100, (), ()⟩⟩].map Arr.pd))
    = .ok (renumber ⟨50, (), ()⟩ 0 [⟨[3], 7, ⟨50, (), ()⟩⟩, ⟨[7], 9, ⟨50, (), ()⟩⟩]) :=
  (rms_band_simulates_rms List.sum (fun (fs : Nat) n => fs / n) () () 2 (by decide) 100
    [⟨[1, 2, 3], 7, ⟨100, (), ()⟩⟩, ⟨[4, 5], 10, ⟨100, (), ()⟩⟩] (by simp)).2 _ rfl

/-- **`rms_band(n)` is chunk-invariant**: for every chunking of an annotated stream (any start sample `s`, any channel
labels and metadata) the stage never raises and the concatenation of everything emitted is the band value of the
consecutive complete `n`-blocks of the whole signal; the emitted blocks are contiguous **from output sample 0**
(recorded behaviour: the input's `s0` is not carried over), with rate `fs / n`, the default channel and empty
metadata (the input's labels and metadata are dropped). -/
theorem rms_band_chunk_invariant (band : List α → β) (divFs : ρ → Nat → ρ) (chDef : χ) (mdEmpty : μ) (n : Nat)
    (hn : 0 < n) (ann : Ann ρ χ μ) (s : Int) (cs : List (List α)) :
    ∃ bs, outs (run (rmsBandStep band divFs chDef mdEmpty n) {} ((stream ann s cs).map Arr.pd)) = .ok bs
      ∧ Emits bs ((blocksOf n cs.flatten).map band) 1 0 ⟨divFs ann.fs n, chDef, mdEmpty⟩ := by
  obtain ⟨bs, h1, h2⟩ := rms_chunk_invariant band divFs n hn ann s cs
  have hf : ∀ y ∈ stream ann s cs, y.ann.fs = ann.fs := by
    intro y hy; rw [(stream_emits ann cs s).ann y hy]
  refine ⟨_, (rms_band_simulates_rms band divFs chDef mdEmpty n hn ann.fs _ hf).2 bs h1, ?_⟩
  exact emits_renumber h2 _ 0

example : ∃ bs, outs (run (rmsBandStep (α := Nat) (χ := String) (μ := String) List.sum (fun (fs : Nat) n => fs / n) "None" "{}" 2) {}
      ((stream ⟨100, "c", "md"⟩ 7 [[1, 2, 3], [], [4, 5]]).map Arr.pd)) = .ok bs
    ∧ Emits bs ((blocksOf 2 [[1, 2, 3], [], [4, 5]].flatten).map List.sum) 1 0 ⟨100 / 2, "None", "{}"⟩ :=
  rms_band_chunk_invariant _ _ _ _ 2 (by decide) _ 7 _

/-- a plain `ndarray` as first chunk: `data[0].fs` raises `AttributeError` (recorded behaviour; `rms` accepts it) -/
theorem rms_band_plain_first_chunk_raises (band : List α → β) (divFs : ρ → Nat → ρ) (chDef : χ) (mdEmpty : μ) (n : Nat)
    (d : List α) (rest : List (Arr α ρ χ μ)) :
    run (rmsBandStep band divFs chDef mdEmpty n) {} (.plain d :: rest) = .error .attributeError := rfl

example : run (rmsBandStep (α := Nat) (ρ := Nat) (χ := Unit) (μ := Unit) List.sum (fun fs n => fs / n) () () 2) {}
    [.plain [1, 2, 3]] = .error .attributeError := rms_band_plain_first_chunk_raises _ _ _ _ _ _ _

/-- block length 0 (`round(fs * duration) = 0`): `fs / n` raises `ZeroDivisionError` at the first chunk -/
theorem rms_band_zero_block_raises (band : List α → β) (divFs : ρ → Nat → ρ) (chDef : χ) (mdEmpty : μ)
    (y : PD α ρ χ μ) (rest : List (Arr α ρ χ μ)) :
    run (rmsBandStep band divFs chDef mdEmpty 0) {} (.pd y :: rest) = .error .zeroDivision := rfl

example : run (rmsBandStep (α := Nat) (χ := Unit) (μ := Unit) List.sum (fun (fs : Nat) n => fs / n) () () 0) {}
    [.pd ⟨[1, 2, 3], 0, ⟨100, (), ()⟩⟩] = .error .zeroDivision := rms_band_zero_block_raises _ _ _ _ _ _

/-! ## capture -/

/-- the samples of a history, whatever was requested meanwhile -/
def samplesOf (h : List (Option (Cmd τ) × Arr α ρ χ μ)) : List α := (h.map fun i => i.2.data).flatten

theorem run_segment_start (addCap : Option τ → μ → μ) (st : CapSt τ) (t : τ) (r : Int)
    (y : PD α ρ χ μ) (ys : List (PD α ρ χ μ)) :
    run (captureCore addCap) st (segment (.start t r) (y :: ys))
      = (match run (captureCore addCap) { s0 := st.s0, tStart := some t, sNext := some r } (quiet (y :: ys)) with
         | .ok (o, s') => .ok (.restart :: o, s')
         | .error e => .error e) := by
  simp only [segment, quiet, List.map_cons, run, core_start]
  cases captureCore addCap { s0 := st.s0, tStart := some t, sNext := some r } (none, Arr.pd y) with
  | error e => rfl
  | ok p =>
    obtain ⟨o1, s1⟩ := p
    simp only
    cases run (captureCore addCap) s1 (List.map (fun y => (none, Arr.pd y)) ys) with
    | error e => rfl
    | ok q => rfl

/-- **`capture`: a request that arrives in time.**  After *any* history `h0` that did not raise (any chunks, any
earlier requests; `N` samples have arrived), let a request for start sample `N + k` (`k ≥ 0`: not yet gone by) be
taken from the queue when the next chunk arrives, and let the stream continue in any chunking `c :: cs` (annotated,
starting at `s`).  Then `target` receives what it had received, then `Ellipsis` **once**, then blocks `bs` that carry
exactly the samples of the continuing stream from its `k`-th sample on — each sample once, in order —, contiguous
from `s + k`, annotated like the input with `metadata['capture'] = t0`; no empty block is forwarded. -/
theorem capture_request_forwards_from_start (addCap : Option τ → μ → μ) (ann : Ann ρ χ μ)
    (h0 : List (Option (Cmd τ) × Arr α ρ χ μ)) (o0 : List (Sig (Arr α ρ χ μ))) (st : CapSt τ)
    (hh : run (captureCore addCap) {} h0 = .ok (o0, st))
    (t : τ) (k : Nat) (s : Int) (c : List α) (cs : List (List α)) :
    ∃ bs, outs (run (captureCore addCap) {}
          (h0 ++ segment (.start t (((samplesOf h0).length : Int) + k)) (stream ann s (c :: cs))))
        = .ok (o0 ++ .restart :: dataBlocks bs)
      ∧ Emits bs ((c :: cs).flatten.drop k) 1 (s + k) (capAnn addCap (some t) ann)
      ∧ ∀ b ∈ bs, b.data ≠ [] := by
  have hN : st.s0 = (samplesOf h0).length := by
    have := run_counts addCap h0 {} st o0 hh
    simpa [samplesOf] using this
  obtain ⟨bs, st', hrun, hem, hne, -⟩ := quiet_active addCap ann (some t) (c :: cs) st.s0 k s
  refine ⟨bs, ?_, hem, hne⟩
  rw [run_append _ _ _ _ _ _ hh, stream_cons, run_segment_start, ← stream_cons, ← hN, hrun]
  rfl

example : ∃ bs, outs (run (captureCore (fun t (_ : Option Nat) => t)) {}
      ([(none, Arr.pd ⟨[10, 11], 5, ⟨(), (), none⟩⟩)]
        ++ segment (.start 77 ((2 : Nat) + (1 : Nat))) (stream (⟨(), (), none⟩ : Ann Unit Unit (Option Nat)) 7 [[12, 13], [], [14]])))
      = .ok ([] ++ Sig.restart :: dataBlocks bs)
    ∧ Emits bs ([[12, 13], [], [14]].flatten.drop 1) 1 (7 + (1 : Nat)) (capAnn (fun t (_ : Option Nat) => t) (some 77) ⟨(), (), none⟩)
    ∧ ∀ b ∈ bs, b.data ≠ [] :=
  capture_request_forwards_from_start (fun t (_ : Option Nat) => t) ⟨(), (), none⟩
    [(none, Arr.pd ⟨[10, 11], 5, ⟨(), (), none⟩⟩)] [] _ rfl 77 1 7 [12, 13] [[], [14]]

/-- **`capture`: a request that arrives late** (recorded behaviour, notes/EXT12.md §10): if the requested start
sample is smaller than the number of samples that have already arrived when the request is taken from the queue,
`target` receives `Ellipsis` and then **nothing**, however long the stream continues. -/
theorem capture_late_request_forwards_nothing (addCap : Option τ → μ → μ)
    (h0 : List (Option (Cmd τ) × Arr α ρ χ μ)) (o0 : List (Sig (Arr α ρ χ μ))) (st : CapSt τ)
    (hh : run (captureCore addCap) {} h0 = .ok (o0, st))
    (t : τ) (r : Int) (hr : r < ((samplesOf h0).length : Int)) (y : PD α ρ χ μ) (ys : List (PD α ρ χ μ)) :
    outs (run (captureCore addCap) {} (h0 ++ segment (.start t r) (y :: ys))) = .ok (o0 ++ [.restart]) := by
  have hN : st.s0 = (samplesOf h0).length := by
    have := run_counts addCap h0 {} st o0 hh
    simpa [samplesOf] using this
  rw [run_append _ _ _ _ _ _ hh, run_segment_start, quiet_late addCap (y :: ys) st.s0 (some t) r (by omega)]
  rfl

example : outs (run (captureCore (fun t (_ : Option Nat) => t)) {}
      ([(none, Arr.pd ⟨[10, 11, 12], 0, ⟨(), (), none⟩⟩)]
        ++ segment (.start 77 2) [(⟨[13, 14], 3, ⟨(), (), none⟩⟩ : PD Nat Unit Unit (Option Nat)), ⟨[15], 5, ⟨(), (), none⟩⟩]))
    = .ok [.restart] :=
  capture_late_request_forwards_nothing _ [(none, Arr.pd ⟨[10, 11, 12], 0, ⟨(), (), none⟩⟩)] [] _ rfl 77 2 (by decide) _ _

/-- `None` in the queue ends the capture: after any history, nothing is forwarded (and no `Ellipsis`) until the next
request -/
theorem capture_stop_forwards_nothing (addCap : Option τ → μ → μ)
    (h0 : List (Option (Cmd τ) × Arr α ρ χ μ)) (o0 : List (Sig (Arr α ρ χ μ))) (st : CapSt τ)
    (hh : run (captureCore addCap) {} h0 = .ok (o0, st)) (y : PD α ρ χ μ) (ys : List (PD α ρ χ μ)) :
    outs (run (captureCore addCap) {} (h0 ++ segment .stop (y :: ys))) = .ok o0 := by
  rw [run_append _ _ _ _ _ _ hh]
  simp only [segment, run, core_stop]
  rw [quiet_idle]
  simp [outs]

example : outs (run (captureCore (fun t (_ : Option Nat) => t)) {}
      ([(some (.start 77 0), Arr.pd ⟨[10, 11], 0, ⟨(), (), none⟩⟩)]
        ++ segment .stop [(⟨[12], 2, ⟨(), (), none⟩⟩ : PD Nat Unit Unit (Option Nat))]))
    = .ok [.restart, .data (.pd ⟨[10, 11], 0, ⟨(), (), some 77⟩⟩)] :=
  capture_stop_forwards_nothing _ [(some (.start 77 0), Arr.pd ⟨[10, 11], 0, ⟨(), (), none⟩⟩)] _ _ rfl _ _

/-- without any request nothing is forwarded -/
theorem capture_idle_forwards_nothing (addCap : Option τ → μ → μ) (ys : List (PD α ρ χ μ)) :
    outs (run (captureCore (τ := τ) addCap) {} (quiet ys)) = .ok [] := by
  have := quiet_idle (τ := τ) addCap ys 0 none
  simp only [Nat.zero_add] at this
  show outs (run (captureCore addCap) { s0 := 0, tStart := none, sNext := none } (quiet ys)) = .ok []
  rw [this]; rfl

example : outs (run (captureCore (τ := Nat) (fun t (_ : Option Nat) => t)) {}
    (quiet [(⟨[1, 2], 0, ⟨(), (), none⟩⟩ : PD Nat Unit Unit (Option Nat))])) = .ok [] := capture_idle_forwards_nothing _ _

/-- plain `ndarray` chunks are counted silently, but the chunk that would be forwarded raises `AttributeError`
(`d.metadata['capture'] = …`) -/
theorem capture_plain_chunk_raises (addCap : Option τ → μ → μ)
    (h0 : List (Option (Cmd τ) × Arr α ρ χ μ)) (o0 : List (Sig (Arr α ρ χ μ))) (st : CapSt τ)
    (hh : run (captureCore addCap) {} h0 = .ok (o0, st))
    (t : τ) (k : Nat) (d : List α) (hk : k < d.length) (rest : List (Option (Cmd τ) × Arr α ρ χ μ)) :
    run (captureCore addCap) {}
      (h0 ++ (some (.start t (((samplesOf h0).length : Int) + k)), .plain d) :: rest) = .error .attributeError := by
  have hN : st.s0 = (samplesOf h0).length := by
    have := run_counts addCap h0 {} st o0 hh
    simpa [samplesOf] using this
  rw [run_append _ _ _ _ _ _ hh]
  have hc : ((st.s0 : Int) ≤ ((samplesOf h0).length : Int) + k
      ∧ ((samplesOf h0).length : Int) + k - (st.s0 : Int) < (d.length : Int)) := by omega
  simp [run, captureCore, Arr.data, hc]

example : run (captureCore (ρ := Unit) (χ := Unit) (fun t (_ : Option Nat) => t)) {}
    ([(none, Arr.plain [1, 2])] ++ (some (.start 77 ((2 : Nat) + (0 : Nat))), Arr.plain [3]) :: [])
      = .error .attributeError :=
  capture_plain_chunk_raises _ [(none, Arr.plain [1, 2])] [] _ rfl 77 0 [3] (by decide) []

/-- **the queue**: exactly one `popleft()` per chunk.  Running the stage with the real deque is running the core with
the entries `schedule` hands out chunk by chunk; the entries are taken in FIFO order, none is lost or duplicated
(what was taken, followed by what is still queued, is what was in the deque followed by what was appended). -/
theorem capture_queue_one_entry_per_chunk (addCap : Option τ → μ → μ) :
    ∀ (h : List (List (Cmd τ) × Arr α ρ χ μ)) (st : CapQSt τ),
    (match run (captureCore addCap) st.core (schedule st.queue h) with
     | .ok (o, c) => run (captureStep addCap) st h = .ok (o, { core := c, queue := queueAfter st.queue h })
     | .error e => run (captureStep addCap) st h = .error e)
    ∧ (schedule st.queue h).filterMap (·.1) ++ queueAfter st.queue h = st.queue ++ (h.map (·.1)).flatten := by
  intro h
  induction h with
  | nil => intro st; simp [schedule, queueAfter, run]
  | cons i h ih =>
    intro st
    obtain ⟨enq, d⟩ := i
    constructor
    · simp only [schedule, queueAfter, run, captureStep]
      cases h1 : captureCore addCap st.core ((st.queue ++ enq).head?, d) with
      | error e => rfl
      | ok p =>
        obtain ⟨o1, c1⟩ := p
        simp only
        have := (ih { core := c1, queue := (st.queue ++ enq).tail }).1
        simp only at this
        cases h2 : run (captureCore addCap) c1 (schedule (st.queue ++ enq).tail h) with
        | error e => rw [h2] at this; simp only at this; rw [this]
        | ok q =>
          obtain ⟨o2, c2⟩ := q
          rw [h2] at this; simp only at this; rw [this]
    · have := (ih { core := st.core, queue := (st.queue ++ enq).tail }).2
      simp only at this
      simp only [schedule, queueAfter, List.filterMap_cons, List.map_cons, List.flatten_cons]
      cases hq : st.queue ++ enq with
      | nil =>
        rw [hq] at this
        simp only [List.head?_nil, List.tail_nil, List.nil_append] at this ⊢
        rw [this]
        have : st.queue = [] ∧ enq = [] := by simpa using hq
        simp [this.1, this.2]
      | cons a q =>
        rw [hq] at this
        simp only [List.head?_cons, List.tail_cons] at this ⊢
        rw [List.cons_append, this, ← List.append_assoc, hq]
        simp

example : outs (run (captureStep (fun t (_ : Option Nat) => t)) {}
      [([.start 77 1, .stop], Arr.pd (⟨[10, 11], 0, ⟨(), (), none⟩⟩ : PD Nat Unit Unit (Option Nat))),
       ([], .pd ⟨[12], 2, ⟨(), (), none⟩⟩), ([], .pd ⟨[13], 3, ⟨(), (), none⟩⟩)])
    = .ok [.restart, .data (.pd ⟨[11], 1, ⟨(), (), some 77⟩⟩)] := rfl

/-! ## events_to_info -/

/-- the infos of a sequence of `(edge, ts)` pairs: one per pair whose edge is the trigger edge, in order, `t0 = ts` -/
def infosOf [DecidableEq κ] (setT0 : τ → ι → ι) (edge : κ) (base : ι) (l : List (κ × τ)) : List ι :=
  (l.filter (fun p => p.1 = edge)).map (fun p => setT0 p.2 base)

/-- **`events_to_info` on sequences of `(edge, ts)` pairs** (guard: no `Events` object is sent): `target` is called
exactly once per block, with one info per qualifying event of that block, in order, each `base_info` with `t0` set to
the event's time stamp; concatenated over the blocks this is the info list of the concatenated events (chunk
invariance). -/
theorem events_to_info_chunk_invariant_partial [DecidableEq κ] (setT0 : τ → ι → ι) (edge : κ) (base : ι)
    (ls : List (List (κ × τ))) :
    outs (run (eventsToInfoStep setT0 edge base) () (ls.map EvIn.pairs)) = .ok (ls.map (infosOf setT0 edge base))
    ∧ (ls.map (infosOf setT0 edge base)).flatten = infosOf setT0 edge base ls.flatten := by
  constructor
  · have h : ∀ l : List (List (κ × τ)),
        run (eventsToInfoStep setT0 edge base) () (l.map EvIn.pairs) = .ok (l.map (infosOf setT0 edge base), ()) := by
      intro l
      induction l with
      | nil => rfl
      | cons a l ih => simp [run, eventsToInfoStep, ih, infosOf]
    rw [h]; rfl
  · induction ls with
    | nil => rfl
    | cons a l ih => simp [infosOf, List.filter_append] at ih ⊢; rw [ih]

example : outs (run (eventsToInfoStep (fun (ts : Nat) (_ : Nat) => ts) true 0) ()
      ([[(true, 3), (false, 4)], [], [(true, 9)]].map EvIn.pairs)) = .ok [[3], [], [9]] :=
  (events_to_info_chunk_invariant_partial _ _ _ _).1

/-- the excluded input (recorded behaviour, notes/EXT12.md §11): an `Events` object — what `edges` emits — is not
iterable; the stage raises `TypeError` whatever the events are and whatever came before -/
theorem events_to_info_refuses_Events_objects [DecidableEq κ] (setT0 : τ → ι → ι) (edge : κ) (base : ι)
    (ls : List (List (κ × τ))) (b : Psi.Edges.Block) (rest : List (EvIn κ τ)) :
    run (eventsToInfoStep setT0 edge base) () (ls.map EvIn.pairs ++ .events b :: rest) = .error .typeError := by
  induction ls with
  | nil => rfl
  | cons a l ih => simp only [List.map_cons, List.cons_append, run, eventsToInfoStep, ih]

example : run (eventsToInfoStep (fun (ts : Nat) (_ : Nat) => ts) true 0) ()
    [.events ⟨[⟨.rising, 3⟩], 0, 10⟩] = .error .typeError :=
  events_to_info_refuses_Events_objects _ _ _ [] _ []

end Psi.StagesExt2
