import PsiModel.StagesExt2
namespace Psi.StagesExt2
end Psi.StagesExt2
