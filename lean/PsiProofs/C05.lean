import PsiModel.Extract
namespace Psi.Extract
end Psi.Extract
