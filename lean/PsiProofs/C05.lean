import PsiProofs.Helper.C05_Spec
import PsiProofs.Helper.C05_SeqSpec
import PsiProofs.Helper.C05_Late
/-!
# C05 — epoch extraction returns exactly the requested samples, once, for any chunking

Model: `PsiModel/Extract.lean` (`Capture.feed` = `capture_epoch`, `step` = one `send` to
`extract_epochs`).  A history is a list of `Op`s: the chunk sent plus the requests / removals /
`source_complete` flag made visible since the previous `send`.  Every theorem below quantifies
over **all** histories (any number of calls, any chunk lengths including 0, any arrival call of
every request and removal), any sample type `α` (scalar or multichannel column), any buffer size.

`Valid B L ops` is the property's quantifier: request keys pairwise distinct, one epoch length `L`
per extractor, every request made visible while its first sample is still in the look-back
window (`lookbackStart`, derived from the prune rule; `lookbackStart_le` gives the
chunking-independent sufficient condition "at most `B` samples past its start were acquired").

**Per-request form** (second half of the file).  The real extractor tolerates a dictionary key that
is re-used after the earlier request carrying it is gone (a queue paused exactly on a trial's start
and resumed presents the same stimulus at the same `t0` again).  `ValidSeq B L ops` is the wider
quantifier: instead of pairwise distinct keys it demands, call by call and key by key, the
discipline `KeyOK` (Helper/C05_SeqDefs) — a key re-appears only once the earlier request with that
key has been removed (removal seen in this call or before) or delivered (before).  `Valid` is the
special case (`valid_validSeq`), so the theorems of the first half are instances of the
per-request ones; the point excluded by `ValidSeq` is exactly the code's
`ValueError('Duplicate epochs not supported')` (`duplicate_key_rejected`).

**Requests appended during a call** (third part).  `queue` is shared: a request may be appended to
it while a call is running, after the call's intake loop and before its done test — by `target`
itself (a consumer that schedules the next epoch when it is handed one) or by another thread.  A
`Call` is an `Op` plus these `late` requests; `call` is the model of one `send` (`step` is `call`
with no late request, `run_is_runCalls`).  Such a request stays in `queue`: it is *pending*, the
done test must see it (`len(queue) == 0`), and the next call takes it in ahead of its own requests.
`ValidCalls` is `Valid` of the history as the intake loops see it (`effective`).  The `calls_…`
theorems are the statements of the first part for histories of calls; the done callback fires at
most once, only when the source is complete, nothing is being captured **and the queue is empty**,
and then every request made so far — late ones included — has been taken in and is settled
(`calls_done_after_all_settled`).
-/
namespace Psi.Extract

/-- The histories the property quantifies over. -/
def Valid {α} (B L : Nat) (ops : List (Op α)) : Prop := AllValid B L [] ops

/-- all epochs delivered under key `k` during a run, call by call -/
def deliveries {α} (B : Nat) (ops : List (Op α)) (k : Nat) : List (List (Epoch α)) :=
  (run (State.init B) ops).2.map (delivK k)

/-- **Capture accumulator invariant.**  A capture coroutine that holds `stream[s, currentS0)`
(`CapInv`) and is sent the next consecutive chunk either finishes with exactly
`stream[s, s+len)` — iff that chunk reaches the epoch's end — or keeps the invariant. -/
theorem capture_acc_inv {α} (S : List α) (T n : Nat) (ch : List α) (c : Capture α)
    (hch : ch = slice S T n) (hn : ch.length = n) (hc : CapInv S T c) :
    (c.req.s.toNat + c.req.len ≤ T + n → c.feed T ch = .stop (epochOf S c.req)) ∧
    (T + n < c.req.s.toNat + c.req.len →
      ∃ c', c.feed T ch = .more c' ∧ c'.req = c.req ∧ CapInv S (T + n) c') :=
  feed_spec S T n ch c hch hn hc

/-- **Refinement.**  For a request `r` made visible in call `op` of a valid history, the epochs
delivered under its key, call by call, are exactly those of the spec `specDeliver`: nothing
before its arrival; afterwards nothing while samples are missing, nothing ever once a removal
has been seen, and the exact epoch `stream[s, s+len)` with `r`'s own metadata in the first call
whose chunk reaches its last sample (the arrival call itself when the look-back buffer already
holds it), nothing afterwards. -/
theorem extract_refines_spec {α} (B L : Nat) (pre rest : List (Op α)) (op : Op α) (r : Request)
    (hv : Valid B L (pre ++ op :: rest)) (hr : r ∈ op.reqs) :
    deliveries B (pre ++ op :: rest) r.key =
      pre.map (fun _ => []) ++
        (specDeliver r (total pre) (op :: rest)).map (emit (streamOf (pre ++ op :: rest)) r) := by
  have hS : ChunksOf (streamOf (pre ++ op :: rest)) 0 (pre ++ op :: rest) := by
    have := chunksOf_streamOf ([] : List α) (pre ++ op :: rest)
    simpa using this
  generalize streamOf (pre ++ op :: rest) = S at hS ⊢
  obtain ⟨hc1, hc2⟩ := chunksOf_split S 0 pre (op :: rest) hS
  rw [Nat.zero_add] at hc2
  obtain ⟨hv1, hv2⟩ := (allValid_append B L [] pre (op :: rest)).1 hv
  rw [List.nil_append] at hv2
  have hinv0 : Inv S B L [] (State.init B : State α) := inv_init S B L
  have hc1' : ChunksOf S (total ([] : List (Op α))) pre := by simpa [total] using hc1
  obtain ⟨hinv1, _⟩ := run_inv S B L pre [] (State.init B) hinv0 hv1 hc1'
  rw [List.nil_append] at hinv1
  have hvop : OpValid B L pre op := by simp only [AllValid] at hv2; exact hv2.1
  have hno_pre : ∀ o ∈ pre, ∀ q ∈ o.reqs, q.key ≠ r.key := by
    intro o ho q hq
    exact hvop.fresh r hr q (List.mem_flatMap.2 ⟨o, ho, hq⟩)
  obtain ⟨hidle, hpk⟩ := run_idle S B L r.key pre [] (State.init B) hinv0 hv1 hc1'
    (by simp [pendK, State.init]) hno_pre
  have hno_rest : ∀ o ∈ rest, ∀ q ∈ o.reqs, q.key ≠ r.key := by
    simp only [AllValid] at hv2
    apply allValid_fresh B L (pre ++ [op]) rest r.key hv2.2
    exact ⟨r, by rw [allReqs_append]; apply List.mem_append_right; simp [allReqs]; exact hr, rfl⟩
  obtain ⟨hlive, _⟩ := run_live S B L r rest pre op (run (State.init B) pre).1 hinv1 hv2 hc2
    (Or.inr ⟨hpk, hr⟩) hno_rest
  simp only [deliveries, run_append, List.map_append, hidle, hlive]

/-- **Delivered exactly once, exact content.**  `r` becomes visible in the first call of the
segment `opj :: mid`, no removal naming it is seen during the segment, and the segment's
chunks reach its last sample.  Then over the whole run — whatever follows, including later
removals — exactly one epoch is delivered under its key, and it is `stream[s, s+len)` carrying
`r` itself (its metadata). -/
theorem delivered_exact {α} (B L : Nat) (pre mid post : List (Op α)) (opj : Op α) (r : Request)
    (hv : Valid B L (pre ++ (opj :: mid) ++ post)) (hr : r ∈ opj.reqs)
    (hnorem : ∀ o ∈ opj :: mid, r.key ∉ o.rems)
    (hend : r.s.toNat + r.len ≤ total pre + total (opj :: mid)) :
    (deliveries B (pre ++ (opj :: mid) ++ post) r.key).flatten =
      [epochOf (streamOf (pre ++ (opj :: mid) ++ post)) r] := by
  have e : pre ++ (opj :: mid) ++ post = pre ++ opj :: (mid ++ post) := by simp
  rw [e] at hv ⊢
  rw [extract_refines_spec B L pre (mid ++ post) opj r hv hr]
  have := spec_once (streamOf (pre ++ opj :: (mid ++ post))) r (opj :: mid) post (total pre)
    (by simp) hnorem hend
  simp only [List.cons_append] at this
  rw [List.flatten_append, this]
  have : ((pre.map (fun _ => ([] : List (Epoch α))))).flatten = [] := by
    induction pre with
    | nil => rfl
    | cons x xs ih => simpa using ih
  rw [this]; rfl

/-- **Removed before its last sample ⇒ never delivered.**  `r` becomes visible in the first
call of `seg ++ [opi]`, a removal naming it is seen in call `opi`, and the chunks received
before `opi` do not reach its last sample (no condition when the removal is seen in the arrival
call itself).  Then no epoch is ever delivered under its key. -/
theorem removed_never_delivered {α} (B L : Nat) (pre seg post : List (Op α)) (opi : Op α) (r : Request)
    (hv : Valid B L (pre ++ (seg ++ opi :: post)))
    (hr : ∃ op0 tl, seg ++ [opi] = op0 :: tl ∧ r ∈ op0.reqs)
    (hrem : r.key ∈ opi.rems)
    (hearly : seg = [] ∨ total pre + total seg < r.s.toNat + r.len) :
    (deliveries B (pre ++ (seg ++ opi :: post)) r.key).flatten = [] := by
  obtain ⟨op0, tl, htl, hr0⟩ := hr
  have e : seg ++ opi :: post = op0 :: (tl ++ post) := by
    have : seg ++ opi :: post = (seg ++ [opi]) ++ post := by simp
    rw [this, htl]; rfl
  have hspec := spec_never (streamOf (pre ++ (seg ++ opi :: post))) r seg post opi (total pre) hrem hearly
  rw [e] at hv hspec ⊢
  rw [extract_refines_spec B L pre (tl ++ post) op0 r hv hr0, List.flatten_append, hspec]
  have : ((pre.map (fun _ => ([] : List (Epoch α))))).flatten = [] := by
    induction pre with
    | nil => rfl
    | cons x xs ih => simpa using ih
  rw [this]; rfl

/-- **Removal after completion is a no-op.**  Two valid histories that agree up to and including
the call that completed `r` (chunks reach its last sample, no removal seen until then) and have
equally many later calls deliver `r`'s epoch in the same call: whatever removals arrive later. -/
theorem removed_after_completion_noop {α} (B L : Nat) (pre mid post post' : List (Op α)) (opj : Op α)
    (r : Request)
    (hv : Valid B L (pre ++ opj :: (mid ++ post))) (hv' : Valid B L (pre ++ opj :: (mid ++ post')))
    (hr : r ∈ opj.reqs) (hnorem : ∀ o ∈ opj :: mid, r.key ∉ o.rems)
    (hend : r.s.toNat + r.len ≤ total pre + total (opj :: mid)) (hlen : post'.length = post.length) :
    (deliveries B (pre ++ opj :: (mid ++ post')) r.key).map List.length =
      (deliveries B (pre ++ opj :: (mid ++ post)) r.key).map List.length := by
  rw [extract_refines_spec B L pre (mid ++ post) opj r hv hr,
    extract_refines_spec B L pre (mid ++ post') opj r hv' hr]
  have := spec_tail_irrelevant r (opj :: mid) post post' (total pre) (by simp) hnorem hend hlen
  simp only [List.cons_append] at this
  rw [this]
  simp only [List.map_append, List.map_map]
  congr 1
  apply List.map_congr_left
  intro b _
  cases b <;> simp [emit]

/-- **Soundness of everything delivered / metadata pairing.**  In a valid history the extractor
never raises, and every epoch it hands to its target is `stream[s, s+len)` of the request it
carries (`e.req`, i.e. its `info`/`metadata`), which is one of the requests made. -/
theorem metadata_paired {α} (B L : Nat) (ops : List (Op α)) (hv : Valid B L ops) :
    ∀ out ∈ (run (State.init B) ops).2, ∃ batch fired, out = .ok batch fired ∧
      ∀ e ∈ batch, e = epochOf (streamOf ops) e.req ∧ e.req ∈ allReqs ops ∧ e.data.length = L := by
  have hS : ChunksOf (streamOf ops) 0 ops := by
    have := chunksOf_streamOf ([] : List α) ops
    simpa using this
  have := (run_inv (streamOf ops) B L ops [] (State.init B) (inv_init _ B L) hv
    (by simpa [total] using hS)).2
  simpa [EpochOK] using this

/-- **Done callback: at most once**, in every history (valid or not). -/
theorem done_at_most_once {α} (B : Nat) (ops : List (Op α)) :
    ((run (State.init B) ops).2.filter Outcome.fired).length ≤ 1 := by
  have := done_count (State.init B) ops
  simpa [State.init] using this

/-- **Done callback: only when** the source is flagged complete, no capture is pending (and the
queue has just been drained), and it has not fired before; it then stays disabled. -/
theorem done_only_when {α} (st : State α) (op : Op α) (h : (step st op).2.fired = true) :
    op.complete = true ∧ (step st op).1.pending = [] ∧ (step st op).1.queue = [] ∧
      st.doneFired = false ∧ (step st op).1.doneFired = true := by
  obtain ⟨h1, h2, h3, h4, h5⟩ := (step_done st op).1 h
  exact ⟨h3, h4, h5, h1, h2⟩

/-- **Done callback fires** as soon as, in a valid history, the source is complete and nothing is
pending after a call (unless it fired earlier). -/
theorem done_fires {α} (B L : Nat) (pre : List (Op α)) (op : Op α) (hv : Valid B L (pre ++ [op]))
    (hcomplete : op.complete = true)
    (hpend : (run (State.init B) (pre ++ [op])).1.pending = []) :
    (run (State.init B) (pre ++ [op])).1.doneFired = true := by
  have hS : ChunksOf (streamOf (pre ++ [op])) 0 (pre ++ [op]) := by
    have := chunksOf_streamOf ([] : List α) (pre ++ [op])
    simpa using this
  generalize streamOf (pre ++ [op]) = S at hS
  obtain ⟨hc1, hc2⟩ := chunksOf_split S 0 pre [op] hS
  obtain ⟨hv1, hv2⟩ := (allValid_append B L [] pre [op]).1 hv
  have hinv1 := (run_inv S B L pre [] (State.init B) (inv_init S B L) hv1 (by simpa [total] using hc1)).1
  simp only [List.nil_append, Nat.zero_add, ChunksOf, AllValid] at hinv1 hc2 hv2
  obtain ⟨hstep, _, _⟩ := step_spec S B L pre _ op hinv1 hv2.1 hc2.1 hc2.2.1
  simp only [run_append, run] at hpend ⊢
  rw [hstep] at hpend ⊢
  simp only [nextState] at hpend ⊢
  simp only [fireOf, hpend, hcomplete, List.isEmpty_nil, Bool.true_and]
  cases (run (State.init B) pre).1.doneFired <;> rfl

/-- **Nothing pending means every request is settled.**  If after a valid history no capture is
pending (which `done_only_when` guarantees whenever the callback fires), then every request made
so far has either been removed or has received its last sample (hence, by
`extract_refines_spec`, been delivered). -/
theorem pending_empty_all_settled {α} (B L : Nat) (pre rest : List (Op α)) (op : Op α) (r : Request)
    (hv : Valid B L (pre ++ op :: rest)) (hr : r ∈ op.reqs)
    (hpend : (run (State.init B) (pre ++ op :: rest)).1.pending = []) :
    specPending r (total pre) (op :: rest) = false := by
  have hS : ChunksOf (streamOf (pre ++ op :: rest)) 0 (pre ++ op :: rest) := by
    have := chunksOf_streamOf ([] : List α) (pre ++ op :: rest)
    simpa using this
  generalize streamOf (pre ++ op :: rest) = S at hS
  obtain ⟨hc1, hc2⟩ := chunksOf_split S 0 pre (op :: rest) hS
  rw [Nat.zero_add] at hc2
  obtain ⟨hv1, hv2⟩ := (allValid_append B L [] pre (op :: rest)).1 hv
  rw [List.nil_append] at hv2
  have hinv0 : Inv S B L [] (State.init B : State α) := inv_init S B L
  have hc1' : ChunksOf S (total ([] : List (Op α))) pre := by simpa [total] using hc1
  obtain ⟨hinv1, _⟩ := run_inv S B L pre [] (State.init B) hinv0 hv1 hc1'
  rw [List.nil_append] at hinv1
  have hvop : OpValid B L pre op := by simp only [AllValid] at hv2; exact hv2.1
  have hno_pre : ∀ o ∈ pre, ∀ q ∈ o.reqs, q.key ≠ r.key := by
    intro o ho q hq
    exact hvop.fresh r hr q (List.mem_flatMap.2 ⟨o, ho, hq⟩)
  obtain ⟨_, hpk⟩ := run_idle S B L r.key pre [] (State.init B) hinv0 hv1 hc1'
    (by simp [pendK, State.init]) hno_pre
  have hno_rest : ∀ o ∈ rest, ∀ q ∈ o.reqs, q.key ≠ r.key := by
    simp only [AllValid] at hv2
    apply allValid_fresh B L (pre ++ [op]) rest r.key hv2.2
    exact ⟨r, by rw [allReqs_append]; apply List.mem_append_right; simp [allReqs]; exact hr, rfl⟩
  obtain ⟨_, hiff⟩ := run_live S B L r rest pre op (run (State.init B) pre).1 hinv1 hv2 hc2
    (Or.inr ⟨hpk, hr⟩) hno_rest
  apply hiff.1
  simp only [run_append] at hpend
  simp [pendK, hpend]

/-- **Visibility, chunking-free.**  A request whose first sample `s` satisfies
`samples acquired so far ≤ s + B` is inside the look-back window, whatever the chunking. -/
theorem visible_of_recent {α} (B : Nat) (hist : List (Op α)) (s : Nat) (h : total hist ≤ s + B) :
    lookbackStart B hist ≤ s :=
  lookbackStart_le B hist s h

/-! ### Non-vacuity: a concrete valid history meeting the hypotheses, with its run -/

/-- stream 10..17 in chunks 3+0+5; request key 7 = [12,16) arrives late (call 2, look-back 1
sample... buffer 2), request key 8 = [11,14) arrives in call 0 and is removed in call 2. -/
def exOps : List (Op Nat) :=
  [ { chunk := [10, 11, 12], reqs := [⟨8, 1, 4, 80⟩], rems := [], complete := false },
    { chunk := [], reqs := [], rems := [], complete := false },
    { chunk := [13, 14, 15, 16, 17], reqs := [⟨7, 2, 4, 70⟩, ⟨9, 4, 4, 90⟩], rems := [8], complete := true } ]

example : Valid 2 4 exOps := by
  refine ⟨⟨by decide, by decide, by decide, by decide⟩, ⟨by decide, by decide, by decide, by decide⟩,
    ⟨by decide, by decide, by decide, by decide⟩, trivial⟩

example : (run (State.init 2) exOps).2.map (fun o => match o with
      | .ok b f => (b.map (fun e => (e.req.key, e.data)), f) | _ => ([], false)) =
    [([], false), ([], false), ([(7, [12, 13, 14, 15]), (9, [14, 15, 16, 17])], true)] := by decide

example : (deliveries 2 exOps 7).flatten = [epochOf (streamOf exOps) ⟨7, 2, 4, 70⟩] :=
  delivered_exact 2 4 [exOps[0], exOps[1]] [] [] exOps[2] ⟨7, 2, 4, 70⟩
    (by refine ⟨⟨by decide, by decide, by decide, by decide⟩, ⟨by decide, by decide, by decide, by decide⟩,
      ⟨by decide, by decide, by decide, by decide⟩, trivial⟩)
    (by decide) (by decide) (by decide)

example : (deliveries 2 exOps 8).flatten = [] :=
  removed_never_delivered 2 4 [] [exOps[0], exOps[1]] [] exOps[2] ⟨8, 1, 4, 80⟩
    (by refine ⟨⟨by decide, by decide, by decide, by decide⟩, ⟨by decide, by decide, by decide, by decide⟩,
      ⟨by decide, by decide, by decide, by decide⟩, trivial⟩)
    ⟨exOps[0], [exOps[1], exOps[2]], rfl, by decide⟩ (by decide) (Or.inr (by decide))

/-! ## Per-request form: keys may be re-used -/

/-- The wider quantifier: one epoch length, every request inside the look-back window, and for
every key the discipline `KeyOK` in every call. -/
def ValidSeq {α} (B L : Nat) (ops : List (Op α)) : Prop := AllValidSeq B L [] ops

/-- pairwise distinct keys are a special case of the key discipline -/
theorem valid_validSeq {α} (B L : Nat) (ops : List (Op α)) (h : Valid B L ops) : ValidSeq B L ops :=
  allValidSeq_of_allValid B L [] ops h

/-- `r` is the request of call `op` that is taken in under its key: the removals of this call
naming the key are used up by the capture pending under it after `pre` (if any) and by the earlier
requests of this call with the same key (each swallowed by the `skip` list).  With distinct keys
this reads "no removal of this call names `r`". -/
def TakenIn {α} (pre : List (Op α)) (op : Op α) (r : Request) : Prop :=
  ∃ a b, op.reqs = a ++ r :: b ∧
    (a.filter (fun q => q.key == r.key)).length = skipCount r.key (openAfter r.key pre) op

/-- **Refinement, per request sequence.**  In a history whose keys are re-used with discipline,
the epochs delivered under any key `κ`, call by call, are those of the per-key spec machine
`specReqs` (state: the one request being captured under `κ`; per call: removals first — one hits
the pending capture, the others swallow the first requests of the call —, then the chunk, then the
requests): at most one epoch per call, `stream[s, s+len)` of the very request the machine names. -/
theorem extract_refines_spec_seq {α} (B L : Nat) (ops : List (Op α)) (hv : ValidSeq B L ops) (κ : Nat) :
    deliveries B ops κ =
      (specReqs κ 0 none ops).map (fun o => o.toList.map (epochOf (streamOf ops))) := by
  have hS : ChunksOf (streamOf ops) 0 ops := by
    have := chunksOf_streamOf ([] : List α) ops
    simpa using this
  have := (run_seq (streamOf ops) B L ops [] (State.init B) (inv_init _ B L) (openLink_init B) hv
    (by simpa [total] using hS)).2.2.2 κ
  simpa [deliveries, total, openAfter, openK] using this

theorem takenIn_taken {α} (B L : Nat) (pre : List (Op α)) (op : Op α) (r : Request)
    (hv : OpValidSeq B L pre op) (ht : TakenIn pre op r) :
    takenK r.key (openAfter r.key pre) op = [r] := by
  obtain ⟨a, b, hab, hcount⟩ := ht
  have hadds : addsK r.key op = a.filter (fun q => q.key == r.key) ++ r :: b.filter (fun q => q.key == r.key) := by
    simp [addsK, hab, List.filter_append]
  have htk : takenK r.key (openAfter r.key pre) op = r :: b.filter (fun q => q.key == r.key) := by
    unfold takenK
    rw [hadds, ← hcount, List.drop_left]
  have hle := (hv.reuse r.key).1
  rw [htk] at hle ⊢
  simp only [List.length_cons] at hle
  have : b.filter (fun q => q.key == r.key) = [] := List.length_eq_zero_iff.1 (by omega)
  rw [this]

/-- the deliveries under a key in the window of calls `[a, a+n)` -/
def deliveriesIn {α} (B : Nat) (ops : List (Op α)) (k a n : Nat) : List (List (Epoch α)) :=
  ((deliveries B ops k).drop a).take n

theorem window_spec {α} (B L : Nat) (pre win post : List (Op α)) (κ : Nat)
    (hv : ValidSeq B L (pre ++ win ++ post)) :
    (deliveriesIn B (pre ++ win ++ post) κ pre.length win.length).flatten =
      ((specReqs κ (total pre) (openAfter κ pre) win).filterMap id).map
        (epochOf (streamOf (pre ++ win ++ post))) := by
  unfold deliveriesIn
  rw [extract_refines_spec_seq B L _ hv κ, List.append_assoc, specReqs_append, List.map_append,
    List.drop_left' (by simp [specReqs_length]), specReqs_append, List.map_append,
    List.take_left' (by simp [specReqs_length]), flatten_emit]
  simp [openAfter]

/-- **Delivered exactly once, exact content — per request.**  `r` is the request taken in under its
key by call `opj`; during the following calls `mid` its key is neither requested again nor named
by a removal, and the chunks of `opj :: mid` reach its last sample.  Then the calls `opj :: mid`
deliver exactly one epoch under its key, and it is `stream[s, s+len)` carrying `r` itself.
(`mid` may be extended up to the call that re-uses the key; with distinct keys: to the end.) -/
theorem delivered_exact_seq {α} (B L : Nat) (pre mid post : List (Op α)) (opj : Op α) (r : Request)
    (hv : ValidSeq B L (pre ++ (opj :: mid) ++ post)) (ht : TakenIn pre opj r)
    (hnoreq : ∀ o ∈ mid, ∀ q ∈ o.reqs, q.key ≠ r.key) (hnorem : ∀ o ∈ mid, r.key ∉ o.rems)
    (hend : r.s.toNat + r.len ≤ total pre + total (opj :: mid)) :
    (deliveriesIn B (pre ++ (opj :: mid) ++ post) r.key pre.length (mid.length + 1)).flatten =
      [epochOf (streamOf (pre ++ (opj :: mid) ++ post)) r] := by
  have hvj : OpValidSeq B L pre opj := by
    have := (allValidSeq_append B L [] pre ((opj :: mid) ++ post)).1 (by simpa [ValidSeq] using hv)
    simpa [AllValidSeq] using this.2.1
  have htk := takenIn_taken B L pre opj r hvj ht
  have hw := window_spec B L pre (opj :: mid) post r.key hv
  simp only [List.length_cons] at hw
  rw [hw, ((spec_window r.key (total pre) _ r opj mid htk (fun o ho => ⟨hnoreq o ho, hnorem o ho⟩)).1 hend).1]
  rfl

/-- **Removed before its last sample ⇒ not delivered — per request.**  `r` is taken in by call
`op0`; the following calls `seg` are quiet for its key and do not reach its last sample; then call
`opi` brings a removal naming the key.  Then (a) the calls `op0 :: seg` deliver nothing under the
key; (b) `r` was still the request being captured under it; (c) the removal discards it: whatever
call `opi` delivers under the key, and whatever is being captured under it afterwards, is a request
made in `opi` itself (a re-use of the key), never `r`'s capture. -/
theorem removed_never_delivered_seq {α} (B L : Nat) (pre seg post : List (Op α)) (op0 opi : Op α)
    (r : Request)
    (hv : ValidSeq B L (pre ++ (op0 :: seg) ++ opi :: post)) (ht : TakenIn pre op0 r)
    (hnoreq : ∀ o ∈ seg, ∀ q ∈ o.reqs, q.key ≠ r.key) (hnorem : ∀ o ∈ seg, r.key ∉ o.rems)
    (hrem : r.key ∈ opi.rems)
    (hearly : total pre + total (op0 :: seg) < r.s.toNat + r.len) :
    (deliveriesIn B (pre ++ (op0 :: seg) ++ opi :: post) r.key pre.length (seg.length + 1)).flatten = [] ∧
    openAfter r.key (pre ++ (op0 :: seg)) = some r ∧
    ∀ q, (keyEmit r.key (total (pre ++ (op0 :: seg))) (some r) opi = some q ∨
          openAfter r.key (pre ++ (op0 :: seg) ++ [opi]) = some q) → q ∈ opi.reqs := by
  have hvj : OpValidSeq B L pre op0 := by
    have := (allValidSeq_append B L [] pre ((op0 :: seg) ++ opi :: post)).1 (by simpa [ValidSeq] using hv)
    simpa [AllValidSeq] using this.2.1
  have htk := takenIn_taken B L pre op0 r hvj ht
  have hw := window_spec B L pre (op0 :: seg) (opi :: post) r.key hv
  simp only [List.length_cons] at hw
  obtain ⟨s1, s2⟩ := (spec_window r.key (total pre) _ r op0 seg htk
    (fun o ho => ⟨hnoreq o ho, hnorem o ho⟩)).2 hearly
  have hopen : openAfter r.key (pre ++ (op0 :: seg)) = some r := by
    simp only [openAfter, openK_append, Nat.zero_add]; exact s2
  refine ⟨by rw [hw, s1]; rfl, hopen, ?_⟩
  intro q hq
  rw [openAfter_snoc, hopen] at hq
  exact (takenK_sub r.key _ opi q (removal_discards r.key _ (some r) opi hrem q hq)).1

/-- **Soundness of everything delivered / metadata pairing — keys re-usable.**  The extractor never
raises on a history in `ValidSeq`, and every epoch it hands to its target is `stream[s, s+len)` of
the request it carries, which is one of the requests made; length `L`. -/
theorem metadata_paired_seq {α} (B L : Nat) (ops : List (Op α)) (hv : ValidSeq B L ops) :
    ∀ out ∈ (run (State.init B) ops).2, ∃ batch fired, out = .ok batch fired ∧
      ∀ e ∈ batch, e = epochOf (streamOf ops) e.req ∧ e.req ∈ allReqs ops ∧ e.data.length = L := by
  have hS : ChunksOf (streamOf ops) 0 ops := by
    have := chunksOf_streamOf ([] : List α) ops
    simpa using this
  have := (run_seq (streamOf ops) B L ops [] (State.init B) (inv_init _ B L) (openLink_init B) hv
    (by simpa [total] using hS)).2.2.1
  simpa [EpochOK] using this

/-! ### Non-vacuity of the per-request form, and the excluded point -/

/-- stream 10..16 in chunks 3+1+3, look-back 4.  Key 8 = [11,15): requested in call 0 (tag 80);
call 1 sees its removal *and* the same key again (tag 81, same samples) — the re-presented trial;
call 2 first sees key 9 requested, removed and requested again within one call. -/
def exSeq : List (Op Nat) :=
  [ { chunk := [10, 11, 12], reqs := [⟨8, 1, 4, 80⟩], rems := [], complete := false },
    { chunk := [13], reqs := [⟨8, 1, 4, 81⟩], rems := [8], complete := false },
    { chunk := [14, 15, 16], reqs := [⟨9, 2, 4, 90⟩, ⟨9, 2, 4, 91⟩], rems := [9], complete := true } ]

theorem exSeq_valid : ValidSeq 4 4 exSeq := by
  have key : ∀ (hist : List (Op Nat)) (op : Op Nat) (ks : List Nat),
      (∀ q ∈ op.reqs, q.key ∈ ks) → (∀ κ ∈ ks, KeyOK κ (openAfter κ hist) op) →
      ∀ κ, KeyOK κ (openAfter κ hist) op := by
    intro hist op ks h1 h2 κ
    by_cases hk : κ ∈ ks
    · exact h2 κ hk
    · exact keyOK_of_no_adds κ _ op (addsK_nil_of κ op (fun q hq he => hk (he ▸ h1 q hq)))
  refine ⟨⟨by decide, by decide, key _ _ [8] (by decide) (by decide)⟩,
    ⟨by decide, by decide, key _ _ [8] (by decide) (by decide)⟩,
    ⟨by decide, by decide, key _ _ [9] (by decide) (by decide)⟩, trivial⟩

/-- not in the old quantifier: key 8 occurs twice -/
example : ¬ Valid 4 4 exSeq := by
  intro h
  exact h.2.1.fresh ⟨8, 1, 4, 81⟩ (by decide) ⟨8, 1, 4, 80⟩ (by decide) rfl

/-- the run: the first request of key 8 is discarded, the second one delivered; of key 9 the
first request is swallowed by the removal seen in the same call, the second one delivered -/
example : (run (State.init 4) exSeq).2.map (fun o => match o with
      | .ok b f => (b.map (fun e => (e.req.tag, e.data)), f) | _ => ([], false)) =
    [([], false), ([], false), ([(81, [11, 12, 13, 14]), (91, [12, 13, 14, 15])], true)] := by decide

example : (deliveriesIn 4 exSeq 8 1 2).flatten = [epochOf (streamOf exSeq) ⟨8, 1, 4, 81⟩] :=
  delivered_exact_seq 4 4 [exSeq[0]] [exSeq[2]] [] exSeq[1] ⟨8, 1, 4, 81⟩ exSeq_valid
    ⟨[], [], rfl, by decide⟩ (by decide) (by decide) (by decide)

example : (deliveriesIn 4 exSeq 8 0 1).flatten = [] :=
  (removed_never_delivered_seq 4 4 [] [] [exSeq[2]] exSeq[0] exSeq[1] ⟨8, 1, 4, 80⟩ exSeq_valid
    ⟨[], [], rfl, by decide⟩ (by decide) (by decide) (by decide) (by decide)).1

/-- **The excluded point.**  A key re-used while the earlier request with it is still being
captured (its removal not yet seen): the extractor raises — line 829,
`ValueError('Duplicate epochs not supported')` — and is dead afterwards. -/
theorem duplicate_key_rejected :
    (run (State.init 4)
      [ ({ chunk := [10, 11, 12], reqs := [⟨8, 1, 4, 80⟩], rems := [], complete := false } : Op Nat),
        { chunk := [13], reqs := [⟨8, 1, 4, 81⟩], rems := [], complete := false },
        { chunk := [14], reqs := [], rems := [8], complete := false } ]).2.map
      (fun o => match o with | .ok _ _ => 0 | .valueError => 1 | .dead => 2) = [0, 1, 2] := by decide

/-! ## Requests appended to `queue` during a call -/

/-- The histories of calls the property quantifies over: as the intake loops see them (a late
request of one call is found by the next call, ahead of that call's own requests), keys pairwise
distinct, one epoch length, every request taken in while its first sample is in the look-back
window. -/
def ValidCalls {α} (B L : Nat) (cs : List (Call α)) : Prop := Valid B L (effective [] cs)

/-- all epochs delivered under key `k` during a run of calls, call by call -/
def deliveriesCalls {α} (B : Nat) (cs : List (Call α)) (k : Nat) : List (List (Epoch α)) :=
  (runCalls (State.init B) cs).2.map (delivK k)

/-- **No late request = the model of the first part.** -/
theorem run_is_runCalls {α} (st : State α) (ops : List (Op α)) :
    run st ops = runCalls st (ops.map (fun op => { op with late := [] })) :=
  run_eq_runCalls st ops

theorem sim_init {α} (B : Nat) (cs : List (Call α)) :
    Sim (runCalls (State.init B) cs).1 (run (State.init B) (effective [] cs)).1 ∧
    (runCalls (State.init B) cs).2.map Outcome.unfire =
      (run (State.init B) (effective [] cs)).2.map Outcome.unfire :=
  runCalls_sim cs (State.init B) (State.init B) [] ⟨rfl, rfl, rfl, rfl, rfl⟩ rfl (fun _ => rfl)

theorem deliveriesCalls_eq {α} (B : Nat) (cs : List (Call α)) (k : Nat) :
    deliveriesCalls B cs k = deliveries B (effective [] cs) k := by
  have h1 : ∀ (l : List (Outcome α)), l.map (delivK k) = (l.map Outcome.unfire).map (delivK k) := by
    intro l
    rw [List.map_map]
    apply List.map_congr_left
    intro o _
    exact (delivK_unfire k o).symm
  unfold deliveriesCalls deliveries
  rw [h1, (sim_init B cs).2, ← h1]

theorem effective_split {α} (pre rest : List (Call α)) (c : Call α) :
    effective [] (pre ++ c :: rest) =
      effective [] pre ++ { c.toOp with reqs := queueAfter [] pre ++ c.reqs } :: effective c.late rest := by
  rw [effective_append]; rfl

/-- **Refinement, with late requests.**  `r` is taken in by call `c`: it is one of `c`'s own
requests or was left in `queue` by the calls before (appended during the last of them).  Then the
epochs delivered under its key, call by call, are those of the spec of the first part — which
looks at chunks and removals only. -/
theorem calls_refine_spec {α} (B L : Nat) (pre rest : List (Call α)) (c : Call α) (r : Request)
    (hv : ValidCalls B L (pre ++ c :: rest)) (hr : r ∈ queueAfter [] pre ++ c.reqs) :
    deliveriesCalls B (pre ++ c :: rest) r.key =
      pre.map (fun _ => []) ++
        (specDeliver r (total (plain pre)) (plain (c :: rest))).map
          (emit (streamOf (plain (pre ++ c :: rest))) r) := by
  unfold ValidCalls at hv
  rw [deliveriesCalls_eq, ← streamOf_effective [], effective_split] at *
  rw [extract_refines_spec B L _ _ _ r hv hr, effective_map_const, total_effective]
  have : specDeliver r (total (plain pre))
        ({ c.toOp with reqs := queueAfter [] pre ++ c.reqs } :: effective c.late rest) =
      specDeliver r (total (plain pre)) (plain (c :: rest)) :=
    specDeliver_effective r (total (plain pre)) (queueAfter [] pre) (c :: rest)
  rw [this]

theorem flatten_map_nil' {α β} (l : List β) : (l.map (fun _ => ([] : List α))).flatten = [] := by
  induction l with
  | nil => rfl
  | cons x xs ih => simpa using ih

/-- **Delivered exactly once, exact content, with late requests.**  `r` is taken in by the first
call of the segment `cj :: mid` (own request of `cj`, or left in `queue` by the call before), no
removal naming it is seen during the segment, and the segment's chunks reach its last sample. -/
theorem calls_delivered_exact {α} (B L : Nat) (pre mid post : List (Call α)) (cj : Call α) (r : Request)
    (hv : ValidCalls B L (pre ++ (cj :: mid) ++ post)) (hr : r ∈ queueAfter [] pre ++ cj.reqs)
    (hnorem : ∀ o ∈ cj :: mid, r.key ∉ o.rems)
    (hend : r.s.toNat + r.len ≤ total (plain pre) + total (plain (cj :: mid))) :
    (deliveriesCalls B (pre ++ (cj :: mid) ++ post) r.key).flatten =
      [epochOf (streamOf (plain (pre ++ (cj :: mid) ++ post))) r] := by
  have e : pre ++ (cj :: mid) ++ post = pre ++ cj :: (mid ++ post) := by simp
  rw [e] at hv ⊢
  rw [calls_refine_spec B L pre (mid ++ post) cj r hv hr]
  have hp : plain (cj :: (mid ++ post)) = plain (cj :: mid) ++ plain post := by simp [plain]
  have hn : ∀ o ∈ plain (cj :: mid), r.key ∉ o.rems := by
    intro o ho
    obtain ⟨c, hc, rfl⟩ := List.mem_map.1 ho
    exact hnorem c hc
  rw [hp, List.flatten_append, flatten_map_nil',
    spec_once _ r (plain (cj :: mid)) (plain post) (total (plain pre)) (by simp [plain]) hn hend]
  rfl

/-- **Removed before its last sample ⇒ never delivered, with late requests.** -/
theorem calls_removed_never_delivered {α} (B L : Nat) (pre seg post : List (Call α)) (ci : Call α)
    (r : Request) (hv : ValidCalls B L (pre ++ (seg ++ ci :: post)))
    (hr : ∃ c0 tl, seg ++ [ci] = c0 :: tl ∧ r ∈ queueAfter [] pre ++ c0.reqs)
    (hrem : r.key ∈ ci.rems)
    (hearly : seg = [] ∨ total (plain pre) + total (plain seg) < r.s.toNat + r.len) :
    (deliveriesCalls B (pre ++ (seg ++ ci :: post)) r.key).flatten = [] := by
  obtain ⟨c0, tl, htl, hr0⟩ := hr
  have e : seg ++ ci :: post = c0 :: (tl ++ post) := by
    have : seg ++ ci :: post = (seg ++ [ci]) ++ post := by simp
    rw [this, htl]; rfl
  have hearly' : plain seg = [] ∨ total (plain pre) + total (plain seg) < r.s.toNat + r.len := by
    rcases hearly with h | h
    · exact Or.inl (by rw [h]; rfl)
    · exact Or.inr h
  have hspec := spec_never (streamOf (plain (pre ++ (seg ++ ci :: post)))) r (plain seg) (plain post)
    ci.toOp (total (plain pre)) hrem hearly'
  have hp : plain seg ++ ci.toOp :: plain post = plain (seg ++ ci :: post) := by simp [plain]
  rw [hp, e] at hspec
  rw [e] at hv ⊢
  rw [calls_refine_spec B L pre (tl ++ post) c0 r hv hr0, List.flatten_append, hspec, flatten_map_nil']
  rfl

/-- **Soundness of everything delivered, with late requests.**  A valid history of calls never
raises, and every epoch handed to the target is `stream[s, s+len)` of the request it carries,
which is one of the requests made (in the caller's turn or during a call). -/
theorem calls_metadata_paired {α} (B L : Nat) (cs : List (Call α)) (hv : ValidCalls B L cs) :
    ∀ out ∈ (runCalls (State.init B) cs).2, ∃ batch fired, out = .ok batch fired ∧
      ∀ e ∈ batch, e = epochOf (streamOf (plain cs)) e.req ∧ e.req ∈ allMade cs ∧ e.data.length = L := by
  intro out hout
  have hmem : out.unfire ∈ (run (State.init B) (effective [] cs)).2.map Outcome.unfire := by
    rw [← (sim_init B cs).2]; exact List.mem_map_of_mem hout
  obtain ⟨out', hout', he⟩ := List.mem_map.1 hmem
  obtain ⟨batch, fired, ho, hall⟩ := metadata_paired B L (effective [] cs) hv out' hout'
  rw [ho] at he
  obtain ⟨f', hf'⟩ := unfire_eq_ok out batch fired he.symm
  refine ⟨batch, f', hf', ?_⟩
  intro e hb
  obtain ⟨h1, h2, h3⟩ := hall e hb
  rw [streamOf_effective] at h1
  refine ⟨h1, ?_, h3⟩
  rcases allReqs_effective_sub [] cs e.req h2 with h | h
  · cases h
  · exact h

/-- **Done callback: at most once**, in every history of calls (valid or not). -/
theorem calls_done_at_most_once {α} (B : Nat) (cs : List (Call α)) :
    ((runCalls (State.init B) cs).2.filter Outcome.fired).length ≤ 1 := by
  have := calls_done_count (State.init B) cs
  simpa [State.init] using this

/-- **Done callback: only when** the source is flagged complete, no capture is pending, **`queue`
is empty** — no request was appended to it since the intake loop of this very call — and it has
not fired before; it then stays disabled. -/
theorem calls_done_only_when {α} (st : State α) (c : Call α) (h : (call st c).2.fired = true) :
    c.complete = true ∧ (call st c).1.pending = [] ∧ (call st c).1.queue = [] ∧ c.late = [] ∧
      st.doneFired = false ∧ (call st c).1.doneFired = true := by
  obtain ⟨h1, h2, h3, h4, h5, h6⟩ := (call_done st c).1 h
  exact ⟨h3, h4, h5, h6, h1, h2⟩

/-- **Done callback fires** as soon as, in a valid history of calls, the source is complete,
nothing is pending and the queue is empty after a call (unless it fired earlier). -/
theorem calls_done_fires {α} (B L : Nat) (pre : List (Call α)) (c : Call α)
    (hv : ValidCalls B L (pre ++ [c])) (hcomplete : c.complete = true)
    (hpend : (runCalls (State.init B) (pre ++ [c])).1.pending = [])
    (hqueue : (runCalls (State.init B) (pre ++ [c])).1.queue = []) :
    (runCalls (State.init B) (pre ++ [c])).1.doneFired = true := by
  have hok := calls_metadata_paired B L (pre ++ [c]) hv
    (call (runCalls (State.init B) pre).1 c).2 (by simp [runCalls_append, runCalls])
  obtain ⟨batch, fired, ho, _⟩ := hok
  simp only [runCalls_append, runCalls] at hpend hqueue ⊢
  rw [(call_ok_doneFired _ c batch fired ho).1, hpend, hqueue, hcomplete]
  cases (runCalls (State.init B) pre).1.doneFired <;> rfl

/-- **Nothing pending means every request taken in is settled**, with late requests. -/
theorem calls_pending_empty_all_settled {α} (B L : Nat) (pre rest : List (Call α)) (c : Call α)
    (r : Request) (hv : ValidCalls B L (pre ++ c :: rest)) (hr : r ∈ queueAfter [] pre ++ c.reqs)
    (hpend : (runCalls (State.init B) (pre ++ c :: rest)).1.pending = []) :
    specPending r (total (plain pre)) (plain (c :: rest)) = false := by
  unfold ValidCalls at hv
  have hp := (sim_init B (pre ++ c :: rest)).1.2.1
  rw [hpend, effective_split] at hp
  rw [effective_split] at hv
  have := pending_empty_all_settled B L _ _ _ r hv hr hp.symm
  rw [total_effective] at this
  rw [← this]
  exact (specPending_effective r (total (plain pre)) (queueAfter [] pre) (c :: rest)).symm

/-- **The callback fires only after every request made has been dealt with.**  If it fires in the
last call of a valid history of calls, then every request made so far — in the caller's turn or
during a call, this one included — was taken in by the intake loop of some call (none is left in
`queue`) and is settled since: removed, or its last sample has arrived, in which case
`calls_refine_spec` says its epoch was delivered in that call — not later. -/
theorem calls_done_after_all_settled {α} (B L : Nat) (hist : List (Call α)) (last : Call α)
    (hv : ValidCalls B L (hist ++ [last]))
    (hf : (call (runCalls (State.init B) hist).1 last).2.fired = true) :
    ∀ r ∈ allMade (hist ++ [last]), ∃ pre c rest, hist ++ [last] = pre ++ c :: rest ∧
      r ∈ queueAfter [] pre ++ c.reqs ∧
      specPending r (total (plain pre)) (plain (c :: rest)) = false := by
  obtain ⟨_, hpend, _, hlate, _, _⟩ := calls_done_only_when _ last hf
  have hq : queueAfter [] (hist ++ [last]) = [] := by
    have : ∀ (q : List Request) (l : List (Call α)), queueAfter q (l ++ [last]) = last.late := by
      intro q l
      induction l generalizing q with
      | nil => rfl
      | cons x xs ih => simpa [queueAfter] using ih x.late
    rw [this, hlate]
  intro r hr
  obtain ⟨pre, c, rest, e, hin⟩ := made_taken [] (hist ++ [last]) r (Or.inr hr) hq
  refine ⟨pre, c, rest, e, hin, ?_⟩
  rw [e] at hv
  apply calls_pending_empty_all_settled B L pre rest c r hv hin
  rw [← e]
  simpa [runCalls_append, runCalls] using hpend

/-! ### Non-vacuity: a consumer that posts the next request when it is handed an epoch -/

/-- stream 10..17 in chunks 4+2+2, no look-back needed.  Key 1 = [11,13) is requested before the
first call; when its epoch is handed over (call 0), the consumer posts key 2 = [14,16): late in
call 0, taken in by call 1, complete in call 1.  The source is complete throughout. -/
def exCalls : List (Call Nat) :=
  [ { chunk := [10, 11, 12, 13], reqs := [⟨1, 1, 2, 10⟩], rems := [], complete := true, late := [⟨2, 4, 2, 20⟩] },
    { chunk := [14, 15], reqs := [], rems := [], complete := true, late := [] },
    { chunk := [16, 17], reqs := [], rems := [], complete := true, late := [] } ]

theorem exCalls_valid : ValidCalls 0 2 exCalls := by
  refine ⟨⟨by decide, by decide, by decide, by decide⟩, ⟨by decide, by decide, by decide, by decide⟩,
    ⟨by decide, by decide, by decide, by decide⟩, trivial⟩

/-- the callback does not fire in call 0 (the queue holds key 2) but in call 1, after the delivery -/
example : (runCalls (State.init 0) exCalls).2.map (fun o => match o with
      | .ok b f => (b.map (fun e => (e.req.key, e.data)), f) | _ => ([], false)) =
    [([(1, [11, 12])], false), ([(2, [14, 15])], true), ([], false)] := by decide

example : (deliveriesCalls 0 exCalls 2).flatten = [epochOf (streamOf (plain exCalls)) ⟨2, 4, 2, 20⟩] :=
  calls_delivered_exact 0 2 [exCalls[0]] [] [exCalls[2]] exCalls[1] ⟨2, 4, 2, 20⟩ exCalls_valid
    (by decide) (by decide) (by decide)

/-- the hypotheses of `calls_done_after_all_settled` (and of `calls_done_only_when`) are met at call 1 -/
example : ∀ r ∈ allMade ([exCalls[0]] ++ [exCalls[1]]), ∃ pre c rest,
    [exCalls[0]] ++ [exCalls[1]] = pre ++ c :: rest ∧ r ∈ queueAfter [] pre ++ c.reqs ∧
      specPending r (total (plain pre)) (plain (c :: rest)) = false :=
  calls_done_after_all_settled 0 2 [exCalls[0]] exCalls[1]
    (by refine ⟨⟨by decide, by decide, by decide, by decide⟩, ⟨by decide, by decide, by decide, by decide⟩,
      trivial⟩)
    (by decide)

example : (runCalls (State.init 0) ([exCalls[0]] ++ [exCalls[1]])).1.doneFired = true :=
  calls_done_fires 0 2 [exCalls[0]] exCalls[1]
    (by refine ⟨⟨by decide, by decide, by decide, by decide⟩, ⟨by decide, by decide, by decide, by decide⟩,
      trivial⟩)
    (by decide) (by decide) (by decide)

end Psi.Extract
