import PsiProofs.Helper.C14_Filled
import PsiProofs.Helper.C14_Channels
/-!
# C14 — the signal buffer returns exactly the retained window of the logical stream

Property theorems about the model `PsiModel/Buffer.lean` of `psiaudio/buffer.py`
(with the two repairs notes/C14_fix_1.diff, notes/C14_fix_2.diff).  All are stated for every
capacity ≥ 1, every cell type `α` (so every channel count: take `α` = a column) and every
finite history of appends (any size), invalidations (any sample ≥ 0) and resizes (≥ 1).

`Spec` (PsiModel/Buffer.lean) is the property text: a logical stream, and after every operation
the most recent `min capacity available` samples retained (`Spec.retain`).
-/
namespace Psi.Buffer

variable {α : Type}

/-- Well-formed operation: a resize asks for at least one sample. -/
def Op.WF : Op α → Prop
  | .resize c => 0 < c
  | _ => True

theorem refines_step {s : State α} {sp : Spec α} (r : Refines s sp) (op : Op α) (h : op.WF) :
    Refines (step s op) (sp.step op) := by
  cases op with
  | append xs => exact refines_append r xs
  | invalidate i => exact refines_invalidate r i
  | resize c => exact refines_resize r c h

theorem refines_run {s : State α} {sp : Spec α} (r : Refines s sp) (ops : List (Op α))
    (h : ∀ op ∈ ops, op.WF) : Refines (run s ops) (sp.run ops) := by
  induction ops generalizing s sp with
  | nil => exact r
  | cons op ops ih =>
    simp only [run, Spec.run, List.foldl_cons]
    exact ih (refines_step r op (h op (by simp))) (fun o ho => h o (by simp [ho]))

/-- **Refinement, for every history**: after any history from a fresh buffer the storage
represents exactly the window `[lo, hi)` of the logical stream that the specification retains. -/
theorem refines_history (cap : Nat) (hc : 0 < cap) (fillv nanv : α) (ops : List (Op α))
    (h : ∀ op ∈ ops, op.WF) :
    Refines (run (init cap fillv nanv) ops) (Spec.run (Spec.init cap) ops) :=
  refines_run (refines_init cap hc fillv nanv) ops h

/-- **Bounds**: after every history `lower ≤ upper = length of the logical stream`, the lower
bound is the specification's, and the internal invariant `_ilb ≤ capacity = len(_buffer)` holds. -/
theorem bounds_history (cap : Nat) (hc : 0 < cap) (fillv nanv : α) (ops : List (Op α))
    (h : ∀ op ∈ ops, op.WF) :
    let s := run (init cap fillv nanv) ops
    let sp := Spec.run (Spec.init cap) ops
    samplesLb s ≤ samplesUb s ∧ samplesUb s = sp.stream.length ∧ samplesLb s = sp.lo
      ∧ s.ilb ≤ s.cap ∧ s.buf.length = s.cap ∧ s.cap = sp.cap := by
  intro s sp
  have r : Refines s sp := refines_history cap hc fillv nanv ops h
  have hlo := r.lo_le
  refine ⟨?_, ?_, r.samplesLb_eq, r.ilb_le, r.len, r.cap_eq⟩
  · rw [r.samplesLb_eq, r.samplesUb_eq]; simp only [Spec.hi]; omega
  · rw [r.samplesUb_eq]; rfl

/-- **The retained window is the most recent `min capacity available` samples** (specification
side, each operation): `available` is the old window plus the chunk for an append, the part of
the old window below `i` for an invalidation at `i < hi`, the old window for a resize. -/
theorem window_is_recent (sp : Spec α) (hlo : sp.lo ≤ sp.stream.length)
    (hw : sp.stream.length - sp.lo ≤ sp.cap) :
    (∀ xs, (sp.append xs).hi - (sp.append xs).lo = min sp.cap ((sp.hi - sp.lo) + xs.length)
          ∧ (sp.append xs).stream = sp.stream ++ xs)
    ∧ (∀ i, i < sp.hi → (sp.invalidate i).hi - (sp.invalidate i).lo = min sp.cap (i - sp.lo)
          ∧ (sp.invalidate i).stream = sp.stream.take i ∧ (sp.invalidate i).hi = i)
    ∧ (∀ i, sp.hi ≤ i → sp.invalidate i = sp)
    ∧ (∀ c, (sp.resize c).hi - (sp.resize c).lo = min c (sp.hi - sp.lo)
          ∧ (sp.resize c).stream = sp.stream ∧ (sp.resize c).cap = c) := by
  refine ⟨fun xs => ⟨?_, rfl⟩, fun i hi => ?_, fun i hi => Spec.invalidate_of_ge sp i hi,
    fun c => ⟨?_, rfl, rfl⟩⟩
  · simp only [Spec.append, Spec.retain, Spec.hi, List.length_append]; omega
  · simp only [Spec.hi] at hi
    have hst := Spec.invalidate_stream sp i hi
    have hl := Spec.invalidate_lo sp i hi hw
    refine ⟨?_, hst, ?_⟩
    · simp only [Spec.hi, hst, hl, List.length_take]; omega
    · simp only [Spec.hi, hst, List.length_take]; omega
  · simp only [Spec.resize, Spec.retain, Spec.hi]; omega

/-- … and after every history the buffer's default read `get_range_samples()` returns exactly
that window: the last `hi - lo ≤ capacity` samples of the logical stream. -/
theorem window_history (cap : Nat) (hc : 0 < cap) (fillv nanv : α) (ops : List (Op α))
    (h : ∀ op ∈ ops, op.WF) :
    let s := run (init cap fillv nanv) ops
    let sp := Spec.run (Spec.init cap) ops
    window s = .ok (sp.stream.drop sp.lo) ∧ (sp.stream.drop sp.lo).length = sp.hi - sp.lo
      ∧ sp.hi - sp.lo ≤ s.cap := by
  intro s sp
  have r : Refines s sp := refines_history cap hc fillv nanv ops h
  refine ⟨r.window_eq, by simp [Spec.hi], ?_⟩
  have := r.window_le; rw [r.cap_eq]; exact this

/-- **A range query inside the window returns exactly those samples of the logical stream.** -/
theorem read_inside (cap : Nat) (hc : 0 < cap) (fillv nanv : α) (ops : List (Op α))
    (h : ∀ op ∈ ops, op.WF) (lb ub : Nat) :
    let s := run (init cap fillv nanv) ops
    let sp := Spec.run (Spec.init cap) ops
    sp.lo ≤ lb → lb ≤ ub → ub ≤ sp.stream.length →
    rangeSamples s lb ub = .ok ((sp.stream.drop lb).take (ub - lb)) := by
  intro s sp h1 h2 h3
  have r : Refines s sp := refines_history cap hc fillv nanv ops h
  have := r.rangeSamples_inside (lb : Int) (ub : Int) (by omega) (by omega) (by simp only [Spec.hi]; omega)
  simpa [Spec.slice] using this

/-- **A query reaching outside the window raises IndexError** (below the lower bound, above
the upper bound, or a negative sample number). -/
theorem read_outside (cap : Nat) (hc : 0 < cap) (fillv nanv : α) (ops : List (Op α))
    (h : ∀ op ∈ ops, op.WF) (lb ub : Int) :
    let s := run (init cap fillv nanv) ops
    let sp := Spec.run (Spec.init cap) ops
    (lb < sp.lo ∨ (sp.stream.length : Int) < ub) →
    rangeSamples s lb ub = .error .indexError := by
  intro s sp hout
  have r : Refines s sp := refines_history cap hc fillv nanv ops h
  exact r.rangeSamples_outside lb ub hout

/-- **The filled variant pads precisely the missing part**: for every request `[a, b)`
(overlapping the window, disjoint from it, or empty) `get_range_filled` succeeds with exactly
`b - a` cells; cell `j` is sample `a + j` of the logical stream if that sample is retained and
the fill value otherwise. -/
theorem filled_pads_exactly (cap : Nat) (hc : 0 < cap) (fillv nanv : α) (ops : List (Op α))
    (h : ∀ op ∈ ops, op.WF) (a b : Int) (hab : a ≤ b) (fill : α) :
    let s := run (init cap fillv nanv) ops
    let sp := Spec.run (Spec.init cap) ops
    ∃ out, rangeFilled s a b fill = .ok out ∧ out.length = (b - a).toNat
      ∧ (∀ j : Nat, a + j < b → (sp.lo : Int) ≤ a + j → a + j < sp.stream.length →
            out[j]? = sp.stream[(a + j).toNat]?)
      ∧ (∀ j : Nat, a + j < b → (a + j < sp.lo ∨ (sp.stream.length : Int) ≤ a + j) →
            out[j]? = some fill) := by
  intro s sp
  have r : Refines s sp := refines_history cap hc fillv nanv ops h
  refine ⟨sp.filled a b fill, r.rangeFilled_eq a b fill, Spec.filled_length sp r.lo_le a b fill hab,
    fun j h1 h2 h3 => Spec.filled_getElem?_inside sp a b fill j h2 h3 h1,
    fun j h1 h2 => Spec.filled_getElem?_outside sp r.lo_le a b fill j h1 h2⟩

/-- **`get_latest`** is the same read relative to the newest sample: without fill value it is the
exact slice or IndexError, with a fill value it is the filled read. -/
theorem latest_history (cap : Nat) (hc : 0 < cap) (fillv nanv : α) (ops : List (Op α))
    (h : ∀ op ∈ ops, op.WF) (lb ub : Int) (hle : lb ≤ ub) :
    let s := run (init cap fillv nanv) ops
    let sp := Spec.run (Spec.init cap) ops
    latest s lb ub none = sp.read (lb + sp.hi) (ub + sp.hi)
      ∧ ∀ fill, latest s lb ub (some fill) = .ok (sp.filled (lb + sp.hi) (ub + sp.hi) fill) := by
  intro s sp
  have r : Refines s sp := refines_history cap hc fillv nanv ops h
  exact ⟨r.latest_none lb ub hle, fun fill => r.latest_some lb ub fill⟩

/-- **Resize never fails and takes effect as requested** (growing *and* shrinking — the docstring
of `resize` says shrink requests are ignored, the code honours them). -/
theorem resize_ok (cap : Nat) (hc : 0 < cap) (fillv nanv : α) (ops : List (Op α))
    (h : ∀ op ∈ ops, op.WF) (c : Nat) (hpos : 0 < c) :
    ∃ s', resizeE (run (init cap fillv nanv) ops) c = .ok s' ∧ s'.cap = c
      ∧ Refines s' ((Spec.run (Spec.init cap) ops).resize c) := by
  have r := refines_history cap hc fillv nanv ops h
  obtain ⟨s', h1, h2⟩ := refines_resizeE r c hpos
  exact ⟨s', h1, h2.cap_eq, h2⟩

/-- **Channels are independent columns**: running a history on cells of type `α` and then
applying `f` to every cell (e.g. projecting a column on one channel) is the same as running
the `f`-image of the history; the same holds for every read. -/
theorem channels_independent {β : Type} (f : α → β) (cap : Nat) (fillv nanv : α) (ops : List (Op α))
    (lb ub : Int) (fill : α) :
    let s := run (init cap fillv nanv) ops
    let t := run (init cap (f fillv) (f nanv)) (ops.map (Op.map f))
    s.map f = t
      ∧ (rangeSamples s lb ub).map (List.map f) = rangeSamples t lb ub
      ∧ (rangeFilled s lb ub fill).map (List.map f) = rangeFilled t lb ub (f fill)
      ∧ samplesLb s = samplesLb t ∧ samplesUb s = samplesUb t := by
  intro s t
  have e : s.map f = t := by
    show (run (init cap fillv nanv) ops).map f = _
    rw [map_run, map_init]
  refine ⟨e, ?_, ?_, ?_, ?_⟩
  · rw [← e]; exact map_rangeSamples f s lb ub
  · rw [← e]; exact map_rangeFilled f s lb ub fill
  · rw [← e]; rfl
  · rw [← e]; rfl

/-! ## The code as found: the two defects, on concrete witnesses -/

/-- `_invalidate` with the original guard `i <= 0`: `cap 5; append 9; resize 10; invalidate 0`
leaves lower bound 4 > upper bound 0 and `_ilb = 14 > capacity = 10`. -/
theorem invalidate_orig_counterexample :
    let s := invalidateSamplesOrig
      (resize (append (init 5 0 0 : State Nat) [1, 2, 3, 4, 5, 6, 7, 8, 9]) 10) 0
    samplesLb s = 4 ∧ samplesUb s = 0 ∧ s.ilb = 14 ∧ s.cap = 10 := by
  decide

/-- … and what is appended afterwards cannot be read back. -/
theorem invalidate_orig_unreachable :
    let s := append (invalidateSamplesOrig
      (resize (append (init 5 0 0 : State Nat) [1, 2, 3, 4, 5, 6, 7, 8, 9]) 10) 0) [21, 22]
    samplesUb s = 2 ∧ rangeSamples s 0 2 = .error .indexError := by
  decide

/-- `get_range_filled` with the original arithmetic: on a fresh buffer a request for the two
samples `[-3, -1)` returns three cells, and one for `[1, 3)` returns three cells. -/
theorem filled_orig_counterexample :
    rangeFilledOrig (init 1 0 0 : State Nat) (-3) (-1) 7 = .ok [7, 7, 7]
      ∧ rangeFilledOrig (init 1 0 0 : State Nat) 1 3 7 = .ok [7, 7, 7] := by
  decide

/-! ## Non-vacuity: concrete non-trivial instances of the hypotheses -/

/-- the recon history, with a 2-channel column type -/
def exOps : List (Op (Nat × Nat)) :=
  [.append [(1, 11), (2, 12), (3, 13), (4, 14), (5, 15), (6, 16), (7, 17), (8, 18), (9, 19)],
   .resize 10, .invalidate 0, .append [(21, 31), (22, 32), (23, 33)], .resize 2, .invalidate 2]

theorem exOps_wf : ∀ op ∈ exOps, op.WF := by
  intro op h
  simp only [exOps, List.mem_cons, List.not_mem_nil, or_false] at h
  rcases h with h | h | h | h | h | h <;> subst h <;> simp [Op.WF]

example : Refines (run (init 5 (0, 0) (0, 0)) exOps) (Spec.run (Spec.init 5) exOps) :=
  refines_history 5 (by decide) _ _ exOps exOps_wf
example : (Spec.run (Spec.init 5) exOps : Spec (Nat × Nat)) = ⟨[(21, 31), (22, 32)], 1, 2⟩ := by decide
example : samplesLb (run (init 5 (0, 0) (0, 0)) exOps) = 1 ∧ samplesUb (run (init 5 (0, 0) (0, 0)) exOps) = 2 := by
  decide
example := bounds_history 5 (by decide) (0, 0) (0, 0) exOps exOps_wf
example := window_history 5 (by decide) (0, 0) (0, 0) exOps exOps_wf
-- read inside: lo = 1 ≤ 1 ≤ 2 ≤ hi = 2
example : rangeSamples (run (init 5 (0, 0) (0, 0)) exOps) 1 2 = .ok [(22, 32)] :=
  read_inside 5 (by decide) (0, 0) (0, 0) exOps exOps_wf 1 2 (by decide) (by decide) (by decide)
-- read outside: lb = 0 < lo = 1
example : rangeSamples (run (init 5 (0, 0) (0, 0)) exOps) 0 2 = .error .indexError :=
  read_outside 5 (by decide) (0, 0) (0, 0) exOps exOps_wf 0 2 (by decide)
example := filled_pads_exactly 5 (by decide) (0, 0) (0, 0) exOps exOps_wf (-1) 4 (by decide) (7, 7)
example : rangeFilled (run (init 5 (0, 0) (0, 0)) exOps) (-1) 4 (7, 7)
    = .ok [(7, 7), (7, 7), (22, 32), (7, 7), (7, 7)] := by decide
example := latest_history 5 (by decide) (0, 0) (0, 0) exOps exOps_wf (-2) 0 (by decide)
example := resize_ok 5 (by decide) (0, 0) (0, 0) exOps exOps_wf 1 (by decide)
example := channels_independent Prod.fst 5 (0, 0) (0, 0) exOps 1 2 (7, 7)
-- window_is_recent: its hypotheses hold in a state with a full window
example : let sp : Spec Nat := ⟨[1, 2, 3, 4, 5], 2, 3⟩
    sp.lo ≤ sp.stream.length ∧ sp.stream.length - sp.lo ≤ sp.cap := by decide
example := window_is_recent (⟨[1, 2, 3, 4, 5], 2, 3⟩ : Spec Nat) (by decide) (by decide)

end Psi.Buffer
