import PsiModel.Buffer
namespace Psi.Buffer
theorem placeholder : (init 1 0 0 : State Nat).samples = 0 := rfl
end Psi.Buffer
