import PsiModel.Cache
namespace Psi.Cache
theorem placeholder : True := trivial
end Psi.Cache
