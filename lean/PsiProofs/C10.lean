import PsiProofs.Helper.C10_Inv
import PsiProofs.Helper.C10_Disj
import PsiProofs.Helper.C10_Gen
/-!
C10 — generation is deterministic and isolated from other objects and global state.
Property theorems only (lemmas: Helper/C10_Heap, C10_Inv, C10_Gen).

(a) memoised stimulus functions: for EVERY history of calls and caller writes, the repaired
    wrapper (copy on return) returns the value of its arguments; the wrapper as originally
    written does not (counterexample: call, mutate, call).
(b) generators: reset after any use = fresh construction from the same parameters; carriers and
    transforms are lawful; every lawful generator's state is determined by its lineage.
(c) world: operations on other objects, global-RNG use and caller writes never change an object;
    deepcopy / queue.append / clone take the value.
-/
namespace Psi.Cache

section memo
variable {κ ω α : Type} [DecidableEq κ] [DecidableEq ω]

/-- **Results depend on the arguments only.**  After any history of calls of memoised functions
(leaf or wrapper, hit or miss), in-place writes by the caller into any component of any result it
was ever handed, and wholesale overwrites of all of them, a call with key `k` hands the caller an
object whose contents are `value k`. -/
theorem result_depends_on_args_only (sg : Sig κ ω α) (ops : List (Op κ ω α)) (k : Key κ ω) :
    readHandle (call .copy sg (run .copy sg ops State.init) k)
      (run .copy sg ops State.init).handles.length = some (sg.value k) :=
  call_copy_read (run_copy_inv ops (Inv.init sg)) k

/-- The memo tables themselves are never corrupted: every entry holds the value of its key. -/
theorem memo_never_corrupted (sg : Sig κ ω α) (ops : List (Op κ ω α)) (k : Key κ ω) (as : List Nat)
    (h : (k, as) ∈ (run .copy sg ops State.init).cache) :
    readAll (run .copy sg ops State.init).heap as = some (sg.value k) :=
  (run_copy_inv ops (Inv.init sg)).cached k as h

/-- No address the caller holds is an address stored in a memo table. -/
theorem caller_never_holds_memo_storage (sg : Sig κ ω α) (ops : List (Op κ ω α)) (k : Key κ ω)
    (as h : List Nat) (hc : (k, as) ∈ (run .copy sg ops State.init).cache)
    (hh : h ∈ (run .copy sg ops State.init).handles) : ∀ a ∈ h, a ∉ as :=
  (run_copy_inv ops (Inv.init sg)).priv k as hc h hh

/-- Two different results ever handed out share no storage (so `e1 = f(a); e2 = f(a)` are
independent arrays even though both come from one memo entry). -/
theorem distinct_results_share_no_storage (sg : Sig κ ω α) (ops : List (Op κ ω α)) (h h' : Nat)
    (as bs : List Nat) (hne : h ≠ h') (ha : (run .copy sg ops State.init).handles[h]? = some as)
    (hb : (run .copy sg ops State.init).handles[h']? = some bs) : ∀ x ∈ as, x ∉ bs :=
  (run_copy_disj ops (Inv.init sg) Disj.init).apart hne ha hb

/-- After any history, a write through one result leaves every *other* result the caller holds
exactly as it was. -/
theorem write_through_one_result_leaves_others (sg : Sig κ ω α) (ops : List (Op κ ω α))
    (h c i : Nat) (x : α) (s' : State κ ω α)
    (hm : mutate (run .copy sg ops State.init) h c i x = .ok s') (h' : Nat) (hne : h' ≠ h) :
    readHandle s' h' = readHandle (run .copy sg ops State.init) h' :=
  mutate_other_handle (run_copy_disj ops (Inv.init sg) Disj.init) hm hne

end memo

/-- Witness for the counterexample: one leaf function whose value is `[[0, 0]]`, one wrapper. -/
def sgWitness : Sig Nat Nat Nat := { compute := fun _ => [[0, 0]], wraps := fun w => w }

/-- **The code as originally written violates the property**: call, write into the result, call
again with the same arguments — the second result is not the value of the arguments. -/
theorem cache_alias_counterexample :
    ¬ (∀ (ops : List (Op Nat Nat Nat)) (k : Key Nat Nat),
        readHandle (call .alias sgWitness (run .alias sgWitness ops State.init) k)
          (run .alias sgWitness ops State.init).handles.length = some (sgWitness.value k)) := by
  intro h
  have := h [.call (.leaf 0), .mutate 0 0 1 7] (.leaf 0)
  revert this
  decide

/-- The same through a wrapper: a write into the result of `cos2envelope(…)` changes what
`envelope(…)` returns (the wrapper's memo entry *is* the wrapped function's memo entry). -/
theorem cache_alias_wrapper_counterexample :
    readHandle (call .alias sgWitness
        (run .alias sgWitness [.call (.wrap 3), .mutate 0 0 0 9] State.init) (.leaf 3)) 1
      = some [[9, 0]] := by
  decide

-- non-vacuity: a history that mixes everything, on the repaired wrapper
example : readHandle (call .copy sgWitness
      (run .copy sgWitness [.call (.wrap 3), .mutate 0 0 0 9, .call (.leaf 3), .scribble 5] State.init)
      (.wrap 3)) 2 = some [[0, 0]] := by decide

-- non-vacuity: the write is accepted (`.ok`) and the other handle exists
example : (mutate (run .copy sgWitness [.call (.leaf 1), .call (.leaf 1)] State.init) 0 0 1 7).toOption.map
      (fun s => (readHandle s 0, readHandle s 1)) = some (some [[0, 7]], some [[0, 0]]) := by decide

section generators
variable {P S O : Type}

/-- **Reset restores.**  Whatever was drawn before, after `reset` a lawful generator produces the
stream of a freshly constructed generator with the same parameters (seed included). -/
theorem reset_restores {g : Gen P S O} (hl : g.Lawful) (s : S) (hist ns : List Nat) :
    g.drawAll (g.reset (g.runAll s hist)) ns = g.drawAll (g.init (g.params s)) ns := by
  rw [Gen.reset_runAll hl]

/-- **Same parameters, same stream**, whatever happened to either object before its reset: the
stream is a function of the parameters and the chunk sizes — `init` takes nothing else. -/
theorem same_params_same_stream {g : Gen P S O} (hl : g.Lawful) (p : P) (h1 h2 ns : List Nat) :
    g.drawAll (g.reset (g.runAll (g.init p) h1)) ns = g.drawAll (g.reset (g.runAll (g.init p) h2)) ns := by
  rw [Gen.reset_runAll hl, Gen.reset_runAll hl]

end generators

/-- Every carrier (`offset`, private `RandomState(seed)`, filter state, optional warm-up draw) is lawful:
`reset` re-assigns each mutable attribute from the parameters. -/
theorem carrier_lawful {P R F O : Type} (k : Kern P R F O) : k.gen.Lawful := k.lawful

/-- Every transform over a lawful input is lawful (`Transform.reset` resets its input). -/
theorem transform_lawful {P F O PI S : Type} (t : TKern P F O) {g : Gen PI S O} (hl : g.Lawful) :
    (t.gen g).Lawful := t.lawful hl

/-- Reset restores for an arbitrary carrier, stated on the code-shaped model directly. -/
theorem carrier_reset_restores {P R F O : Type} (k : Kern P R F O) (s : GState P R F) (hist ns : List Nat) :
    k.gen.drawAll (k.reset (k.gen.runAll s hist)) ns = k.gen.drawAll (k.init s.params) ns :=
  reset_restores k.lawful s hist ns

/-- … and for a transform stacked on a transform stacked on a carrier (e.g. Gate ∘ SAM ∘ noise). -/
theorem nested_reset_restores {P R F O P1 F1 P2 F2 : Type} (k : Kern P R F O) (t1 : TKern P1 F1 O)
    (t2 : TKern P2 F2 O) (s : TState P2 F2 (TState P1 F1 (GState P R F))) (hist ns : List Nat) :
    let g := t2.gen (t1.gen k.gen)
    g.drawAll (g.reset (g.runAll s hist)) ns = g.drawAll (g.init (g.params s)) ns :=
  reset_restores (t2.lawful (t1.lawful k.lawful)) s hist ns

/-- **Lineage determines state.**  For every lawful generator, the concrete state reached is a
function of the lineage `(spec, chunks since construction/reset)` that the driver prints:
construction, `next` and `reset` on lineages commute with the concrete operations. -/
theorem lineage_determines_state {P S O : Type} {g : Gen P S O} (hl : g.Lawful) (spec : Nat → P) :
    (∀ p, g.interp spec (freeGen.init p) = g.init (spec p)) ∧
    (∀ l n, g.interp spec (freeGen.next l n).1 = (g.next (g.interp spec l) n).1) ∧
    (∀ l, g.interp spec (freeGen.reset l) = g.reset (g.interp spec l)) := by
  refine ⟨fun p => rfl, ?_, ?_⟩
  · intro l n
    show g.runAll _ (l.chunks ++ [n]) = _
    rw [Gen.runAll_append]; rfl
  · intro l
    show g.init (spec l.spec) = g.reset (g.runAll (g.init (spec l.spec)) l.chunks)
    rw [Gen.reset_runAll hl, hl.params_init]

-- non-vacuity: a concrete lawful carrier (counter "rng", sum "filter", warm-up 2) and transform
def kExample : Kern Nat Nat Nat Nat :=
  { seedRng := fun p => p, initFilt := fun _ => 0, warm := fun _ => 2,
    chunk := fun p off r f n => ((List.range n).map (fun i => p + off + r + f + i), r + n, f + 1) }
def tExample : TKern Nat Nat Nat :=
  { initFilt := fun p => p, apply := fun p off f xs => (xs.map (· + p + off + f), f + xs.length) }
example : (tExample.gen kExample.gen).drawAll
      ((tExample.gen kExample.gen).reset ((tExample.gen kExample.gen).runAll ((tExample.gen kExample.gen).init (3, 5)) [4, 1]))
      [2, 3]
    = (tExample.gen kExample.gen).drawAll ((tExample.gen kExample.gen).init (3, 5)) [2, 3] := by decide
-- … and the stream is not constant: offset, rng, filter state and warm-up all show
example : (tExample.gen kExample.gen).drawAll ((tExample.gen kExample.gen).init (3, 5)) [2, 3]
    = [[19, 20], [28, 29, 30]] := by decide

/-! world -/

/-- **Isolation.**  Whatever happens to other objects — construction, draws, resets, deep copies,
queue appends/pops/clones, global-RNG seeding and draws, caller overwrites of returned chunks —
an object that no operation targets keeps its value (hence its future stream). -/
theorem other_objects_untouched (ops : List WOp) (w : World) (j : Nat) (hj : j < w.objs.length)
    (ht : ∀ op ∈ ops, op.target ≠ some j) : (wrun ops w).objs[j]? = w.objs[j]? :=
  wrun_frame ops w j hj ht

/-- Global NumPy RNG use and caller writes (into returned chunks, into its own parameter arrays)
are not inputs of any object's transition. -/
theorem global_state_and_caller_writes_ignored (w : World) (x n a : Nat) :
    (wstep w (.seed x)).1 = w ∧ (wstep w (.rand n)).1 = w ∧ (wstep w .scribble).1 = w ∧
      (wstep w (.wwrite a)).1.objs = w.objs := by
  refine ⟨rfl, rfl, rfl, ?_⟩
  simp only [wstep]; split <;> rfl

/-- `copy.deepcopy` yields an object with the same value under a new identity. -/
theorem deepcopy_takes_value (w : World) (o : Nat) (x : Obj) (h : w.objs[o]? = some x) :
    (wstep w (.copy o)).1.objs[w.objs.length]? = some x ∧ (wstep w (.copy o)).1.objs[o]? = some x := by
  have ho : o < w.objs.length := (List.getElem?_eq_some_iff.mp h).1
  simp only [wstep, h]
  exact ⟨by simp, by rw [List.getElem?_append_left ho]; exact h⟩

/-- `queue.append(source, …)` stores the source's value at that moment; later use of the source
(any operations not targeting the queue) leaves the queue as it was. -/
theorem queued_source_unaffected_by_later_use (w : World) (q g t d : Nat) (k : String) (p : Nat)
    (e : List Ev) (l : Lin) (hq : w.objs[q]? = some (.queue k p e)) (hg : w.objs[g]? = some (.gen l))
    (later : List WOp) (ht : ∀ op ∈ later, op.target ≠ some q) :
    (wrun later (wstep w (.append q g t d)).1).objs[q]? = some (.queue k p (e ++ [.app l t d])) := by
  have hlt : q < w.objs.length := (List.getElem?_eq_some_iff.mp hq).1
  have h1 : (wstep w (.append q g t d)).1.objs[q]? = some (.queue k p (e ++ [.app l t d])) := by
    simp only [wstep, hq, hg]
    simp [hlt]
  have hlt' : q < (wstep w (.append q g t d)).1.objs.length :=
    Nat.lt_of_lt_of_le hlt (wstep_length_le _ _)
  rw [wrun_frame later _ q hlt' ht, h1]

/-- `clone()` yields a queue with the same value; afterwards each evolves by its own operations only. -/
theorem clone_evolves_independently (w : World) (q : Nat) (k : String) (p : Nat) (e : List Ev)
    (hq : w.objs[q]? = some (.queue k p e)) (later : List WOp)
    (ht : ∀ op ∈ later, op.target ≠ some w.objs.length) :
    (wrun later (wstep w (.clone q)).1).objs[w.objs.length]? = some (.queue k p e) := by
  have h1 : (wstep w (.clone q)).1.objs[w.objs.length]? = some (.queue k p e) := by
    simp only [wstep, hq]; simp
  have hlt : w.objs.length < (wstep w (.clone q)).1.objs.length := by
    simp only [wstep, hq]; simp
  rw [wrun_frame later _ _ hlt ht, h1]

/-- What `next` / `pop` return is named by the target's own value only. -/
theorem output_determined_by_own_lineage (w w' : World) (o o' n : Nat) (l : Lin)
    (h : w.objs[o]? = some (.gen l)) (h' : w'.objs[o']? = some (.gen l)) :
    (wstep w (.next o n)).2 = .chunk ⟨l.spec, l.chunks, n⟩ ∧
      (wstep w' (.next o' n)).2 = .chunk ⟨l.spec, l.chunks, n⟩ := by
  simp only [wstep, h, h', and_self]

-- non-vacuity: one generator queued, then used, reset, copied, global RNG touched: queue untouched
example : (wrun [.next 0 3, .seed 1, .reset 0, .copy 0, .scribble, .next 2 4, .rand 5, .wwrite 0]
      (wstep (wrun [.new 0, .next 0 5, .qnew "brand" 7] { World.init with nspecs := 1 }) (.append 1 0 2 3)).1).objs[1]?
    = some (.queue "brand" 7 [.app ⟨0, [5]⟩ 2 3]) := by decide

end Psi.Cache
