import PsiProofs.Helper.C15_Serial
import PsiGen.Locks
/-!
# C15 — signal buffer operations are atomic under concurrent use

* `serialisable` (general, proved once): if every pending operation of every thread is `Atomic`
  (one outermost span of the re-entrant lock, nothing outside it) then for **every** schedule — any
  length, any number of threads and operations, no pre-emption bound — the configuration reached
  (shared state, every thread's local state = the results its operations returned, remaining
  programs) is a serial execution of whole operations in lock-acquisition order, plus the partial
  progress of the unique lock holder; `serialisable_complete` is the case where the lock is free.
* `buffer_ops_atomic`: the footprint table regenerated from `psiaudio/buffer.py` makes every public
  operation atomic (kernel evaluation).
* `buffer_serialisable`: the two combined.
-/
namespace Psi.Conc
variable {S L : Type}

theorem reachable_good (c0 : Config S L) (h0 : Quiescent c0) (sch : List Nat) : Good c0 (run sch c0) :=
  good_run sch c0 ⟨[], c0, .nil, h0, by simp, Or.inl rfl⟩

/-- **Serialisability for every schedule.**  From a configuration `c0` in which the lock is free, no
    operation is in progress, the acquisition log is empty and every pending operation is atomic:
    whatever the schedule, the configuration reached is `cs` — the result of running whole operations
    one at a time in the order `cs.log` in which they took the lock — or `cs` followed by `j` steps of
    the one thread `t` that currently holds the lock. -/
theorem serialisable (c0 : Config S L) (h0 : Quiescent c0) (hlog : c0.log = []) (sch : List Nat) :
    ∃ cs, SerialRun c0 cs.log cs ∧ Quiescent cs ∧
      (run sch c0 = cs ∨
       ∃ t j, 0 < j ∧ run sch c0 = stepN t j cs ∧ (run sch c0).owner = some t ∧
         (run sch c0).log = cs.log ++ [t]) := by
  obtain ⟨order, cs, hs, hq, hl, hc⟩ := reachable_good c0 h0 sch
  rw [hlog, List.nil_append] at hl
  refine ⟨cs, by rw [hl]; exact hs, hq, ?_⟩
  rcases hc with h | ⟨t, j, hj, hcj, hh, hlg, _⟩
  · exact Or.inl h
  · exact Or.inr ⟨t, j, hj, hcj, hh.1, hlg⟩

/-- When the lock is free (in particular when every thread has finished) the whole configuration —
    final shared state and all results — is that of the serial execution in acquisition order. -/
theorem serialisable_complete (c0 : Config S L) (h0 : Quiescent c0) (hlog : c0.log = []) (sch : List Nat)
    (hfree : (run sch c0).owner = none) :
    SerialRun c0 (run sch c0).log (run sch c0) := by
  obtain ⟨cs, hs, _, h | ⟨t, j, _, _, ho, _⟩⟩ := serialisable c0 h0 hlog sch
  · rw [h]; exact hs
  · rw [ho] at hfree; cases hfree

/-- Mutual exclusion: at every moment every thread other than the lock owner is between operations. -/
theorem only_owner_in_progress (c0 : Config S L) (h0 : Quiescent c0) (sch : List Nat) (i : Nat)
    (hi : (run sch c0).owner ≠ some i) : ((run sch c0).threads i).cur = [] := by
  obtain ⟨order, cs, _, hq, _, h | ⟨t, j, _, _, hh, _, _⟩⟩ := reachable_good c0 h0 sch
  · rw [h]; exact hq.2.1 i
  · exact hh.2.2.1 i (by intro hit; apply hi; rw [hit]; exact hh.1)

end Psi.Conc

namespace Psi.Gen
open Psi.Conc

/-- The operations the property lists (writer: append / invalidate / resize; reader: get_latest,
    get_range*, bound queries). `samples_to_index` / `time_to_index` are not among them. -/
def publicOps : List String :=
  ["append_data", "invalidate", "invalidate_samples", "resize", "get_latest", "get_range",
   "get_range_filled", "get_range_samples", "get_samples_lb", "get_samples_ub", "get_time_lb", "get_time_ub"]

/-- **Every public buffer operation is atomic** in the footprint regenerated from the source:
    all its accesses to `_buffer`, `_buffer_samples`, `_ilb`, `_samples` — its own and those of
    every method it calls — lie inside one outermost span of `self._lock`. -/
theorem buffer_ops_atomic : ∀ n ∈ publicOps, atomicByName Locks.names Locks.methods n = true := by
  decide +kernel

/-- An operation (list of micro-steps) implements a public buffer method when its lock/access
    skeleton is the inlined footprint of that method. -/
def ImplementsPublicOp {S L : Type} (op : List (MStep S L)) : Prop :=
  ∃ n ∈ publicOps, ∃ m, indexOf n Locks.names 0 = some m ∧ op.map MStep.kind = footprint Locks.methods m

/-- **C15**: threads that run public `SignalBuffer` operations — whatever the actions compute — are
    serialisable under every schedule. -/
theorem buffer_serialisable {S L : Type} (c0 : Config S L)
    (hfree : c0.owner = none) (hidle : ∀ i, (c0.threads i).cur = []) (hlog : c0.log = [])
    (hops : ∀ i, ∀ op ∈ (c0.threads i).rest, ImplementsPublicOp op) (sch : List Nat) :
    ∃ cs, SerialRun c0 cs.log cs ∧ Quiescent cs ∧
      (run sch c0 = cs ∨
       ∃ t j, 0 < j ∧ run sch c0 = stepN t j cs ∧ (run sch c0).owner = some t ∧
         (run sch c0).log = cs.log ++ [t]) := by
  refine serialisable c0 ⟨hfree, hidle, ?_⟩ hlog sch
  intro i op hop
  obtain ⟨n, hn, m, hm, hk⟩ := hops i op hop
  have := buffer_ops_atomic n hn
  unfold atomicByName at this
  rw [hm] at this
  rw [hk]; exact this

end Psi.Gen

/-! ### Non-vacuity, and why the hypothesis is needed -/
namespace Psi.Conc.Example

/-- shared state: two fields that must change together; local state: what a reader saw -/
abbrev Sh := Nat × Nat
abbrev Lo := Nat × Nat

def writerOp : List (MStep Sh Lo) :=
  [.acq, .act (fun s l => ((s.1 + 1, s.2), l)), .act (fun s l => ((s.1, s.2 + 1), l)), .rel]
def readerOp : List (MStep Sh Lo) :=
  [.acq, .act (fun s l => (s, (s.1, l.2))), .act (fun s l => (s, (l.1, s.2))), .rel]
/-- the same reader with the `with` removed -/
def tornReaderOp : List (MStep Sh Lo) :=
  [.act (fun s l => (s, (s.1, l.2))), .act (fun s l => (s, (l.1, s.2)))]

def cfg (reader : List (MStep Sh Lo)) : Config Sh Lo :=
  { sh := (0, 0), owner := none, depth := 0, log := [],
    threads := fun i => if i = 0 then ⟨[], [writerOp, writerOp], (0, 0)⟩
                        else if i = 1 then ⟨[], [reader], (9, 9)⟩ else ⟨[], [], (0, 0)⟩ }

example : atomicK (writerOp.map MStep.kind) = true := by decide
example : atomicK (readerOp.map MStep.kind) = true := by decide
example : atomicK (tornReaderOp.map MStep.kind) = false := by decide

theorem cfg_quiescent : Quiescent (cfg readerOp) := by
  refine ⟨rfl, ?_, ?_⟩
  · intro i; simp only [cfg]; split
    · rfl
    · split <;> rfl
  · intro i op hop
    simp only [cfg] at hop
    split at hop
    · simp at hop; rcases hop with rfl | rfl <;> decide
    · split at hop
      · simp at hop; subst hop; decide
      · simp at hop

/-- A schedule that tries to pre-empt the writer inside its span: with the locked reader the read is
    consistent — (1, 1), the state after the first write operation … -/
example : ((run [0, 0, 1, 1, 0, 0, 1, 1, 1, 1, 0, 0, 0, 0] (cfg readerOp)).threads 1).loc = (1, 1) := by decide
example : (run [0, 0, 1, 1, 0, 0, 1, 1, 1, 1, 0, 0, 0, 0] (cfg readerOp)).log = [0, 1, 0] := by decide
example : (run [0, 0, 1, 1, 0, 0, 1, 1, 1, 1, 0, 0, 0, 0] (cfg readerOp)).sh = (2, 2) := by decide
/-- … and it is the serial execution writer, reader, writer (instance of `serialisable_complete`) -/
example : SerialRun (cfg readerOp) [0, 1, 0] (run [0, 0, 1, 1, 0, 0, 1, 1, 1, 1, 0, 0, 0, 0] (cfg readerOp)) := by
  have h := serialisable_complete (cfg readerOp) cfg_quiescent rfl [0, 0, 1, 1, 0, 0, 1, 1, 1, 1, 0, 0, 0, 0]
    (by decide)
  have hl : (run [0, 0, 1, 1, 0, 0, 1, 1, 1, 1, 0, 0, 0, 0] (cfg readerOp)).log = [0, 1, 0] := by decide
  rw [hl] at h; exact h
/-- … whereas the reader without the lock sees a half-updated pair, (1, 0), under the same schedule:
    no serial order of the operations produces it (serial outcomes: (0,0), (1,1), (2,2)). -/
example : ((run [0, 0, 1, 1, 0, 0] (cfg tornReaderOp)).threads 1).loc = (1, 0) := by decide

/-- the generated table is not trivial: footprints of the compound readers are long -/
example : 10 ≤ (footprint Psi.Gen.Locks.methods 12).length := by decide +kernel
/-- an excluded method is indeed not atomic: `samples_to_index` reads two fields without the lock -/
example : atomicByName Psi.Gen.Locks.names Psi.Gen.Locks.methods "samples_to_index" = false := by decide +kernel
/-- `get_time_lb` has no `with` of its own but is a single locked unit through `get_samples_lb` -/
example : atomicByName Psi.Gen.Locks.names Psi.Gen.Locks.methods "get_time_lb" = true := by decide +kernel

end Psi.Conc.Example
