import PsiProofs.Helper.C03_PausePolicy
import PsiProofs.C03
/-!
C03, part 3 — what can be said about the policy ORDER across pauses.

Histories are arbitrary lists over {pop n, pause m, pause(), resume m, resume()} (`runOps`, C04) from
a queue as `append` builds it and before anything was played (`Started`). `generated` is the log of
non-cancelled trials, `added` (`keyLog`) the full notification log, cancelled trials included.

* FIFO: the FIFO invariant (hence no exception, and every later request presents the pending stimuli
  in the order of `ordering`, each its remaining count — `fifo_log`) holds after EVERY history; when
  time never runs backwards (`HistMono`: accepted pauses, resume positions not before the clock) and no
  declared duration overlaps the next trial (`DurOK`), the non-cancelled log followed by what is still
  to come is at every point the insertion-order schedule `0^r0 1^r1 …`. Both side conditions are
  needed (`…_counterexample`).
* Interleaved: `pause` does not rewind the cursor: it stays on the stimulus of the most recently
  NOTIFIED trial, cancelled or not. With completed waveforms kept the FULL notification log is strict
  round-robin `j % n` across all pauses; the non-cancelled log is round-robin only per segment between
  pauses (`interleaved_kept_log_counterexample`).
* Blocked random: the unconsumed part of the current shuffle survives a pause; the FULL notification
  log followed by it is a whole number of the oracle's shuffles; the non-cancelled log is not.
* Interleaved / blocked random: the queue is complete exactly when no counter is positive, at every
  point of every history (stops at the first moment all are satisfied by non-cancelled presentations).
* Every policy: `pause` leaves cursor, block and random streams alone and re-inserts the keys of
  cancelled trials that had left the ordering at its front (`pause_keeps_cursor`); for grouped queues
  this re-groups stimuli (`grouped_pause_regroups_counterexample`).
-/
namespace Psi.Queue

/-- a queue as the constructor and ≥ 1 `append`s leave it: loaded, nothing logged, every counter at its
requested value -/
structure Started (s : QState) : Prop where
  loaded : Loaded s
  gen : s.generated = []
  rem : s.removed = []
  req : ∀ (i : Nat) (e : Entry), s.data[i]? = some e → e.trials = e.requested

theorem Started.good {s : QState} (h : Started s) : Good s :=
  Good_init h.gen h.rem h.loaded.added h.loaded.source
    (fun i e he => ⟨(h.loaded.entries i e he).1, h.req i e he⟩)

theorem loadAll_log (s : QState) (es : List Entry) :
    (loadAll s es).generated = s.generated ∧ (loadAll s es).removed = s.removed := by
  induction es generalizing s with
  | nil => simp [loadAll]
  | cons e es ih =>
    have := ih (append s e).1
    simp only [loadAll, List.foldl_cons] at this ⊢
    rw [this.1, this.2]; simp [append]

/-- **`Started` is what the constructor and ≥ 1 `append`s build** (every policy and option). -/
theorem started_by_append (kind : Kind) (keep : Bool) (gsize : Nat) (auto : Bool) (draws : List Nat)
    (perms : List (List Nat)) (es : List Entry) (hne : es ≠ []) (hes : ∀ e ∈ es, GoodEntry e)
    (hreq : ∀ e ∈ es, e.trials = e.requested) (hg : kind = .grouped → auto = false → 1 ≤ gsize) :
    Started (loadAll (newQueue kind keep gsize auto draws perms) es) := by
  refine ⟨loaded_by_append kind keep gsize auto draws perms es hne hes hg, ?_, ?_, ?_⟩
  · rw [(loadAll_log _ _).1]; rfl
  · rw [(loadAll_log _ _).2]; rfl
  · intro i e he
    rw [loadAll_data] at he
    simp only [newQueue, List.nil_append] at he
    exact hreq e (List.mem_of_getElem? he)

theorem FifoInv_of_Loaded {s : QState} (h : Loaded s) (hk : s.kind = .fifo) : FifoInv s := by
  refine ⟨hk, by rw [h.ordering]; exact List.nodup_range, ?_, h.delays, ?_⟩
  · intro k hk'
    rw [h.ordering, List.mem_range] at hk'
    have he : s.data[k]? = some s.data[k] := List.getElem?_eq_getElem hk'
    exact ⟨_, he, by have := (h.entries k _ he).2.1; omega⟩
  · intro i e he hni
    obtain ⟨hlt, _⟩ := List.getElem?_eq_some_iff.mp he
    rw [h.ordering, List.mem_range] at hni
    exact absurd hlt hni

theorem TimeInv_init {s : QState} (hg : s.generated = []) (hd : DurOK s.data) : TimeInv s :=
  ⟨by simp [hg], by simp [hg], by simp [hg], hd⟩

section Histories
variable {ops : List Op} {s s' : QState}

/-! ## FIFO -/

/-- **FIFO never raises, whatever the history.** Any sequence of positive requests, pauses (accepted or
rejected) and resumes on a FIFO queue runs without an exception. -/
theorem fifo_history_no_exception (hs : Started s) (hk : s.kind = .fifo)
    (hpos : ∀ n, Op.pop n ∈ ops → 0 < n) : ∃ s', runOps ops s = .ok s' :=
  hist_ok (I := FifoH s.data.length) (C := fun _ _ => True)
    (fun _ _ _ _ hi h => FifoH_tick hi h) (fun m _ _ hi _ => FifoH_pause m hi)
    (fun m _ _ hi _ => FifoH_resume m hi)
    (fun n s hw hi => by obtain ⟨cs, s', h, _⟩ := fifo_run n hw hi.fi; exact ⟨_, h⟩)
    hs.loaded.wf ⟨FifoInv_of_Loaded hs.loaded hk, rfl, by simp [hs.gen]⟩ (HistOK_true ops s) hpos

/-- **The FIFO invariant survives every history.** After any history the ordering has no duplicate and
holds exactly the stimuli with trials remaining, so `fifo_log` / `fifo_log_complete` /
`fifo_terminal_counts` apply to whatever is requested next: the pending stimuli are presented in the
order of `ordering`, each exactly its remaining number of times, then silence. -/
theorem fifo_history_inv (hs : Started s) (hk : s.kind = .fifo) (h : runOps ops s = .ok s') :
    WF s' ∧ FifoInv s' := by
  obtain ⟨hw, hi⟩ := hist_inv' (I := FifoH s.data.length)
    (fun _ _ _ _ hi h => FifoH_tick hi h) (fun m _ _ hi => FifoH_pause m hi)
    (fun m _ _ hi => FifoH_resume m hi)
    hs.loaded.wf ⟨FifoInv_of_Loaded hs.loaded hk, rfl, by simp [hs.gen]⟩ h
  exact ⟨hw, hi.fi⟩

theorem fifo_sched_run (hs : Started s) (hk : s.kind = .fifo) (hd : DurOK s.data)
    (hm : HistMono ops s) (h : runOps ops s = .ok s') :
    TimeInv s' ∧ FifoSched s.data.length (reqAt s) s' := by
  have h0 : FifoSched s.data.length (reqAt s) s := by
    refine ⟨⟨FifoInv_of_Loaded hs.loaded hk, rfl, by simp [hs.gen]⟩, ?_, ?_⟩
    · rw [hs.loaded.ordering]; exact List.pairwise_lt_range
    · simp [hs.gen, remSeq, schedule, hs.loaded.ordering]
  exact (hist_inv (I := fun s' => TimeInv s' ∧ FifoSched s.data.length (reqAt s) s') (C := OpMono)
    (fun _ _ _ _ hi h => ⟨TimeInv_tick hi.1 h, FifoSched_tick hi.2 h⟩)
    (fun m _ _ hi hc => ⟨TimeInv_pause m hi.1 hc, FifoSched_pause m hi.1 hi.2⟩)
    (fun m _ _ hi hc => ⟨TimeInv_resume m hi.1 hc, FifoSched_resume m hi.2⟩)
    hs.loaded.wf ⟨TimeInv_init hs.gen hd, h0⟩ hm h).2

/-- **FIFO order across pauses.** If time never runs backwards in the history (every `pause(m)` is
accepted, every `resume(m₂)` is at or after the clock) and no stimulus declares a duration reaching
into the next trial, then at every point the non-cancelled presentations followed by everything
still to come are the insertion-order schedule: stimulus 0 its requested number of times, then
stimulus 1, … — `requeue` restores exactly the cancelled suffix, in order. -/
theorem fifo_schedule_across_pauses (hs : Started s) (hk : s.kind = .fifo) (hd : DurOK s.data)
    (hm : HistMono ops s) (h : runOps ops s = .ok s') :
    s'.generated.map (·.key) ++ remSeq s' = schedule s.data.length (reqAt s) ∧
    s'.ordering.Pairwise (· < ·) :=
  ⟨(fifo_sched_run hs hk hd hm h).2.sched, (fifo_sched_run hs hk hd hm h).2.sorted⟩

/-- **The non-cancelled FIFO log is always a prefix of the schedule**, and stimuli still pending are
queued in insertion order: the remaining presentations exhaust stimuli in insertion order after
every pause / resume. -/
theorem fifo_kept_log_prefix (hs : Started s) (hk : s.kind = .fifo) (hd : DurOK s.data)
    (hm : HistMono ops s) (h : runOps ops s = .ok s') :
    s'.generated.map (·.key) <+: schedule s.data.length (reqAt s) ∧
    (s'.generated.map (·.key)).Pairwise (· ≤ ·) ∧
    ∀ i ∈ s'.generated, ∀ k ∈ s'.ordering, i.key ≤ k := by
  obtain ⟨hsch, _⟩ := fifo_schedule_across_pauses hs hk hd hm h
  have hsorted := schedule_sorted s.data.length (reqAt s)
  rw [← hsch] at hsorted
  refine ⟨⟨_, hsch⟩, (List.pairwise_append.mp hsorted).1, ?_⟩
  intro i hi k hk'
  have hfi := (fifo_sched_run hs hk hd hm h).2.h.fi
  obtain ⟨e, he, hp⟩ := hfi.valid k hk'
  have hmem : k ∈ remSeq s' := by
    rw [remSeq_eq_rs]
    exact mem_rs_of_pos hk' (by simp [trv, he, hp])
  exact (List.pairwise_append.mp hsorted).2.2 i.key (List.mem_map.mpr ⟨i, hi, rfl⟩) k hmem

/-- **A pause cancels the most recent trials (every policy).** Under the same side conditions the
non-cancelled log is ordered in time, so for every position `m` the logged trials ending after `m`
are a suffix of the log: a pause never removes a trial from the middle of the log. -/
theorem pause_cancels_most_recent (hs : Started s) (hd : DurOK s.data) (hm : HistMono ops s)
    (h : runOps ops s = .ok s') (m : Int) :
    s'.generated = s'.generated.filter (fun i => !endsAfter m i) ++ s'.generated.filter (endsAfter m) ∧
    s'.generated.Pairwise (fun a b => a.k + a.dur ≤ b.k) := by
  have ht := (hist_inv (I := TimeInv) (C := OpMono)
    (fun _ _ _ _ hi h => TimeInv_tick hi h) (fun m _ _ hi hc => TimeInv_pause m hi hc)
    (fun m _ _ hi hc => TimeInv_resume m hi hc) hs.loaded.wf (TimeInv_init hs.gen hd) hm h).2
  exact ⟨cancelled_suffix ht m, ht.chain⟩

/-! ## Interleaved -/

theorem interleaved_run (hs : Started s) (hk : s.kind = .interleaved) (h : runOps ops s = .ok s') :
    HIL s.data.length s' :=
  (hist_inv' (I := HIL s.data.length)
    (fun _ _ _ _ hi h => tick_inv_of_step (fun _ _ => HIL_of_same) HIL_step hi h)
    (fun m _ _ hi => HIL_pause m hi) (fun m _ _ hi => HIL_resume m hi)
    hs.loaded.wf (HIL_init hs.loaded hk hs.gen) h).2

/-- **Interleaved, completed waveforms kept: the FULL notification log is strict round-robin across
every pause.** After any history, notification `j` (cancelled or not) is stimulus `j % n`: a pause
does not rewind the cursor, the first trial after a resume is the stimulus after the last one
notified before the pause, even when that trial was cancelled. -/
theorem interleaved_full_log_round_robin (hs : Started s) (hk : s.kind = .interleaved)
    (hkeep : s.keep = true) (h : runOps ops s = .ok s') (j : Nat) (hj : j < (keyLog s').length) :
    (keyLog s')[j] = j % s.data.length := by
  have hi := interleaved_run hs hk h
  have hkeep' : s'.keep = true := by
    have := (hist_inv' (I := fun t => t.keep = s.keep)
      (fun a _ b _ hi h => by
        rcases tick_view h with hv | ⟨s1, hn, hv⟩
        · rw [show b.keep = a.keep from congrArg PView.keep hv]; exact hi
        · obtain ⟨key, sa, sb, _, _, hk', hd', _, _, _, rfl⟩ := nextTrial_some hn
          have f1 := nextKey_frame hk'
          have f2 := decrementKey_frame hd'
          rw [show b.keep = sb.keep from congrArg PView.keep hv, f2]; simp only; rw [f1]; exact hi)
      (fun m a _ hi => by
        cases m with
        | none => exact hi
        | some m => rw [(pause_policy m a).2.2.2.2.1]; exact hi)
      (fun m a _ hi => by cases m <;> exact hi) hs.loaded.wf rfl h).2
    rw [this, hkeep]
  exact hi.rr hkeep' j hj

/-- **Interleaved (either option): where the cursor is after any history.** The cursor is the stimulus
of the most recently notified trial (−1 before the first), whether or not that trial was cancelled;
the ordering is still `0 … n-1`; and the queue is complete exactly when no counter is positive. -/
theorem interleaved_cursor_after_history (hs : Started s) (hk : s.kind = .interleaved)
    (h : runOps ops s = .ok s') :
    s'.cursor = lastOr (keyLog s') ∧ s'.ordering = List.range s.data.length ∧
    (s'.complete = true ↔ ∀ k, k < s.data.length → trialsOf s' k ≤ 0) := by
  have hi := interleaved_run hs hk h
  exact ⟨hi.cur, hi.ci.ord, hi.ci.compl⟩

/-- **Interleaved, completed waveforms dropped: the next trial after any history.** If the queue is not
complete, the next trial is the first stimulus with a positive counter (= fewer non-cancelled
presentations than requested, by `conservation`) found going round from the stimulus of the last
NOTIFIED trial: `d ∈ [1, n]` places further, everything passed over has no trial left. -/
theorem interleaved_nokeep_next_after_history (hs : Started s) (hk : s.kind = .interleaved)
    (h : runOps ops s = .ok s') (hkeep : s'.keep = false) (hc : s'.complete = false) :
    ∃ d : Nat, 1 ≤ d ∧ d ≤ s.data.length ∧
      nextKey s' = .ok (some (((lastOr (keyLog s') + (d : Int)) % (s.data.length : Int)).toNat,
        { s' with cursor := (lastOr (keyLog s') + (d : Int)) % (s.data.length : Int) })) ∧
      0 < trialsOf s' ((lastOr (keyLog s') + (d : Int)) % (s.data.length : Int)).toNat ∧
      ∀ t : Nat, 1 ≤ t → t < d →
        trialsOf s' ((lastOr (keyLog s') + (t : Int)) % (s.data.length : Int)).toNat ≤ 0 := by
  have hi := interleaved_run hs hk h
  have hex : ∃ k, k < s.data.length ∧ 0 < trv s'.data k := by
    apply Classical.byContradiction
    intro hne
    have : s'.complete = true := hi.ci.compl.mpr (fun k hk => Int.not_lt.mp (fun h => hne ⟨k, hk, h⟩))
    rw [hc] at this; simp at this
  have := nextKey_interleaved_nokeep hi.ci.npos hi.kind hkeep hi.ci.ord hc hex
  rw [hi.cur] at this
  exact this

/-! ## Blocked random -/

theorem blocked_run (hs : Started s) (hk : s.kind = .blockedRandom)
    (hp : ∀ p ∈ s.perms, p.Perm (List.range s.data.length)) (h : runOps ops s = .ok s') :
    HBR s.data.length s.perms s' :=
  (hist_inv' (I := HBR s.data.length s.perms)
    (fun _ _ _ _ hi h => tick_inv_of_step (fun _ _ => HBR_of_same) HBR_step hi h)
    (fun m _ _ hi => HBR_pause m hi) (fun m _ _ hi => HBR_resume m hi)
    hs.loaded.wf (HBR_init hs.loaded hk hs.gen hp) h).2

/-- **Blocked random: the unconsumed part of the current shuffle survives every pause.** After any
history the FULL notification log (cancelled trials included) followed by what is left of the current
shuffle (`block`, read from its end) is exactly the first `b` shuffles of the oracle: the trials after
a resume are the rest of the shuffle that was being played, then fresh shuffles. Cancelled trials are
not put back into a block; they are made up for by later whole blocks. -/
theorem blocked_random_full_log (hs : Started s) (hk : s.kind = .blockedRandom)
    (hp : ∀ p ∈ s.perms, p.Perm (List.range s.data.length)) (h : runOps ops s = .ok s') :
    (∃ b, b ≤ s.perms.length ∧ s'.perms = s.perms.drop b ∧
      keyLog s' ++ s'.block.reverse = (s.perms.take b).flatMap List.reverse) ∧
    s'.block.length < s.data.length ∧ keyLog s' <+: s.perms.flatMap List.reverse := by
  have hi := blocked_run hs hk hp h
  obtain ⟨b, hb, hperms, hcat⟩ := hi.blocks
  refine ⟨⟨b, hb, hperms, hcat⟩, hi.blockLt.1, ⟨s'.block.reverse ++ (s.perms.drop b).flatMap List.reverse, ?_⟩⟩
  rw [← List.append_assoc, hcat, ← List.flatMap_append, List.take_append_drop]

/-- **Interleaved / blocked random: complete ⇔ nothing left, at every point of every history.** The
completion flag is set exactly when no counter is positive — by `conservation` (C04): when every
stimulus has at least its requested number of NON-CANCELLED presentations — so the queue stops at
the first such moment and a pause that cancels trials re-opens it. -/
theorem complete_iff_satisfied (hs : Started s) (hk : s.kind = .interleaved ∨ s.kind = .blockedRandom)
    (hp : s.kind = .blockedRandom → ∀ p ∈ s.perms, p.Perm (List.range s.data.length))
    (h : runOps ops s = .ok s') :
    s'.complete = true ↔ ∀ (k : Nat) (e : Entry), s'.data[k]? = some e → e.requested ≤ keptOf s' k := by
  have hci : CI s.data.length s' := by
    rcases hk with hk | hk
    · exact (interleaved_run hs hk h).ci
    · exact (blocked_run hs hk (hp hk) h).ci
  have hcons := conservation hs.good h
  rw [hci.compl]
  constructor
  · intro hall k e he
    obtain ⟨hlt, _⟩ := List.getElem?_eq_some_iff.mp he
    have := hall k (by rw [← hci.len]; exact hlt)
    have := hcons k e he
    simp only [trv, he] at *
    omega
  · intro hall k hk'
    have hkd : k < s'.data.length := by rw [hci.len]; exact hk'
    have he : s'.data[k]? = some s'.data[k] := List.getElem?_eq_getElem hkd
    have := hall k _ he
    have := hcons k _ he
    simp only [trv, he]
    omega

end Histories

/-! ## Every policy: what `pause` does to the policy state -/

/-- **`pause` does not rewind anything.** `pause(m)` (accepted or rejected) leaves the round-robin
cursor, the unconsumed block, both random streams and the options alone; the ordering afterwards is
the old ordering with the keys of cancelled trials that had left it re-inserted at the front (walking
the cancelled trials latest first), and it is unchanged when every cancelled trial's stimulus is still
queued. -/
theorem pause_keeps_cursor (m : Int) (s : QState) :
    (pause (some m) s).1.cursor = s.cursor ∧ (pause (some m) s).1.block = s.block ∧
    (pause (some m) s).1.perms = s.perms ∧ (pause (some m) s).1.draws = s.draws ∧
    (pause (some m) s).1.ordering = insertFront s.ordering (toRequeue m s) ∧
    ((∀ i ∈ s.generated, endsAfter m i = true → i.key ∈ s.ordering) →
      (pause (some m) s).1.ordering = s.ordering) := by
  obtain ⟨ho, _, _, _, _, _, h2, h3, h4, h5, _⟩ := pause_policy m s
  refine ⟨h2, h3, h4, h5, ho, ?_⟩
  intro hall
  rw [ho]
  apply insertFront_of_mem
  intro k hk
  simp only [toRequeue, List.mem_map, List.mem_filter, List.mem_reverse] at hk
  obtain ⟨i, ⟨hi, he⟩, rfl⟩ := hk
  exact hall i hi he

/-! ## Witnesses -/

def stim (len : Nat) (trials : Int) (delay : Int) (dur : Int) : Entry :=
  ⟨len, false, trials, trials, [delay], 0, dur⟩

def mkQ (kind : Kind) (keep : Bool) (gsize : Nat) (es : List Entry) : QState :=
  loadAll (newQueue kind keep gsize false (List.range 40) demoPerms) es

theorem stim_good {len : Nat} {trials delay dur : Int} (h1 : 0 < len) (h2 : 1 ≤ trials) (h3 : 0 ≤ delay) :
    GoodEntry (stim len trials delay dur) :=
  ⟨h1, h2, by simp [stim], by simp [stim]; exact h3⟩

/-- the hypotheses of the history theorems are met by concrete queues and histories -/
example (kind : Kind) (keep : Bool) :
    Started (mkQ kind keep 2 [stim 10 2 0 10, stim 10 2 0 10, stim 10 2 0 10]) :=
  started_by_append kind keep 2 false _ _ _ (by simp)
    (by intro e he; simp at he; subst he; exact stim_good (by decide) (by decide) (by decide))
    (by intro e he; simp at he; subst he; rfl) (fun _ _ => by decide)

example (kind : Kind) (keep : Bool) :
    DurOK (mkQ kind keep 2 [stim 10 2 0 10, stim 10 2 0 10, stim 10 2 0 10]).data := by
  intro i e he
  simp only [mkQ, loadAll_data, newQueue, List.nil_append] at he
  have := List.mem_of_getElem? he
  simp at this; subst this
  simp [stim]

def hist1 : List Op := [.pop 40, .pause (some 25), .resume (some 25), .pop 60]

/-- `hist1` never moves the clock backwards, on any well-formed queue whose clock is at 0 -/
example (q : QState) (hw : WF q) (hq : q.samples = 0) : HistMono hist1 q := by
  refine ⟨trivial, fun s1 h1 => ⟨?_, fun s2 h2 => ⟨?_, fun _ _ => ⟨trivial, fun _ _ => trivial⟩⟩⟩⟩
  · simp only [stepOp] at h1
    cases hp : popBuffer 40 q with
    | error e => simp [hp] at h1
    | ok r =>
      obtain ⟨out, s1'⟩ := r
      simp only [hp, Except.ok.injEq] at h1
      subst h1
      have := (clock_eq hw hp).1
      simp only [OpMono]; omega
  · simp only [stepOp] at h1 h2
    cases hp : popBuffer 40 q with
    | error e => simp [hp] at h1
    | ok r =>
      obtain ⟨out, s1'⟩ := r
      simp only [hp, Except.ok.injEq] at h1
      subst h1
      simp only [Except.ok.injEq] at h2
      subst h2
      have h40 := (clock_eq hw hp).1
      have := (pause_future_rejected 25 s1').2 (by omega)
      simp only [OpMono]; omega

example : ∀ p ∈ (mkQ .blockedRandom true 0 [stim 10 2 0 10, stim 10 2 0 10, stim 10 2 0 10]).perms,
    p.Perm (List.range (mkQ .blockedRandom true 0 [stim 10 2 0 10, stim 10 2 0 10, stim 10 2 0 10]).data.length) := by
  intro p hp
  have hpm : (mkQ .blockedRandom true 0 [stim 10 2 0 10, stim 10 2 0 10, stim 10 2 0 10]).perms = demoPerms := by
    simp [mkQ, loadAll_oracle, newQueue]
  rw [hpm] at hp
  simp only [demoPerms, List.mem_map] at hp
  obtain ⟨i, _, rfl⟩ := hp
  have hlen : (mkQ .blockedRandom true 0 [stim 10 2 0 10, stim 10 2 0 10, stim 10 2 0 10]).data.length = 3 := by
    simp [mkQ, loadAll_data, newQueue]
  rw [hlen]
  split <;> decide

/-- FIFO, three stimuli × 2: pause at 25 cancels `1@20, 1@30`, the schedule is kept -/
example : (runOps hist1 (mkQ .fifo true 0 [stim 10 2 0 10, stim 10 2 0 10, stim 10 2 0 10])).toOption.map
    (fun s => (s.generated.map (·.key), s.ordering, keyLog s)) =
    some ([0, 0, 1, 1, 2, 2], [], [0, 0, 1, 1, 1, 1, 2, 2]) := by decide +kernel

/-- **FIFO order needs `DurOK`.** A stimulus whose declared duration (9) reaches beyond its waveform and
delay (4 + 2): `pop 24; pause 20; pause 17` leaves the ordering `[1, 0]` — stimulus 1 would be presented
before stimulus 0 again. -/
theorem fifo_order_long_duration_counterexample :
    (runOps [.pop 24, .pause (some 20), .pause (some 17)]
      (mkQ .fifo true 0 [stim 4 3 2 9, stim 1 1 0 1])).toOption.map (·.ordering) = some [1, 0] := by
  decide +kernel

/-- **FIFO order needs time not to run backwards.** With default durations, resuming at positions
before the clock: the ordering ends as `[1, 0]`. -/
theorem fifo_order_backwards_resume_counterexample :
    (runOps [.resume (some 100), .pop 10, .pause (some 110), .resume (some 0), .pop 60, .pause (some 50),
        .resume (some 0), .pop 10, .pause (some 5)]
      (mkQ .fifo true 0 [stim 10 1 0 10, stim 10 1 0 10])).toOption.map (·.ordering) = some [1, 0] := by
  decide +kernel

/-- **Interleaved: the NON-cancelled log is round-robin only per segment.** Three stimuli, `pop 40;
pause 25; resume 25; pop 60`: the full log is `0 1 2 0 1 2 …`, the pause cancels `2@20, 0@30`, the
non-cancelled log reads `0 1 | 1 2 0 1 2 0` — stimulus 1 twice in a row. -/
theorem interleaved_kept_log_counterexample :
    (runOps hist1 (mkQ .interleaved true 0 [stim 10 3 0 10, stim 10 3 0 10, stim 10 3 0 10])).toOption.map
      (fun s => (keyLog s, s.generated.map (·.key))) =
    some ([0, 1, 2, 0, 1, 2, 0, 1, 2, 0], [0, 1, 1, 2, 0, 1, 2, 0]) := by decide +kernel

/-- **Blocked random: the NON-cancelled log is not a sequence of whole shuffles.** Shuffles (read from
the end) `1 0 2 | 1 2 0 | 1 0 2`; `pop 40; pause 25; resume 25; pop 100` cancels `2@20, 1@30`; after the
resume come the rest `2 0` of the second shuffle and a fresh one: the non-cancelled log
`1 0 | 2 0 | 1 0 2` has stimulus 0 twice among its second three entries, and 0 is presented 3 times. -/
theorem blocked_random_kept_log_counterexample :
    (runOps [.pop 40, .pause (some 25), .resume (some 25), .pop 100]
      (mkQ .blockedRandom true 0 [stim 10 2 0 10, stim 10 2 0 10, stim 10 2 0 10])).toOption.map
      (fun s => (keyLog s, s.generated.map (·.key), s.complete)) =
    some ([1, 0, 2, 1, 2, 0, 1, 0, 2], [1, 0, 2, 0, 1, 0, 2], true) := by decide +kernel

/-- **Grouped: a pause can re-group stimuli.** Four stimuli × 2, group size 2 (groups {0,1}, {2,3});
`pop 80` generates `0 1 0 1 2 3 2 3`; `pause 35` cancels `1@30` and the whole second group; re-queueing
puts the keys back as `[1, 2, 3]`, so stimulus 2 is now grouped with stimulus 1 and the non-cancelled log
ends `… 1 2 1 2 3 3`: group {2,3} is not presented as a group and stimulus 1 is presented 3 times. -/
theorem grouped_pause_regroups_counterexample :
    (runOps [.pop 80, .pause (some 35)]
      (mkQ .grouped true 2 [stim 10 2 0 10, stim 10 2 0 10, stim 10 2 0 10, stim 10 2 0 10])).toOption.map
      (·.ordering) = some [1, 2, 3] ∧
    (runOps [.pop 80, .pause (some 35), .resume (some 35), .pop 100]
      (mkQ .grouped true 2 [stim 10 2 0 10, stim 10 2 0 10, stim 10 2 0 10, stim 10 2 0 10])).toOption.map
      (fun s => s.generated.map (·.key)) = some [0, 1, 0, 1, 2, 1, 2, 3, 3] := by
  constructor <;> decide +kernel

end Psi.Queue
