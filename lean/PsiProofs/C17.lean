import PsiModel.Reject
import PsiProofs.C11
import PsiProofs.Helper.C17_Rows
/-!
# C17 — artifact rejection forwards exactly the epochs under threshold, metadata aligned

Theorems about `PsiModel/Reject.lean` (`step` = one `send`, `run` = the coroutine over a sequence of sends).
-/
set_option linter.unusedSimpArgs false
namespace Psi.Reject
open Psi.PData

/-- the property's criterion: an epoch is accepted iff its criterion exists and is strictly below the threshold. -/
def accepted (mode : Mode) (th : Int) (e : List Int) : Bool :=
  match criterion mode e with
  | some c => decide (c < th)
  | none => false

theorem accept_eq (mode : Mode) (th : Int) (e : List Int) (b : Bool) (h : accept mode th e = some b) :
    b = accepted mode th e := by
  unfold accept at h
  unfold accepted
  cases hc : criterion mode e <;> simp_all

/-- the mask computed for a batch is the per-epoch verdict, in order. -/
theorem mask_eq_map (mode : Mode) (th : Int) : ∀ (epochs : List (List Int)) (mask : List Bool),
    epochs.mapM (accept mode th) = some mask → mask = epochs.map (accepted mode th)
  | [], mask, h => by simp at h; simp [h]
  | e :: es, mask, h => by
    simp only [List.mapM_cons] at h
    cases h1 : accept mode th e <;> cases h2 : List.mapM (accept mode th) es <;> simp [h1, h2] at h
    subst h
    rename_i b bs
    simp [accept_eq mode th e b h1, mask_eq_map mode th es bs h2]

theorem criterion_isSome (mode : Mode) (e : List Int) (h : e ≠ []) : ∃ c, criterion mode e = some c := by
  cases e with
  | nil => exact absurd rfl h
  | cons x xs => cases mode <;> simp [criterion, maxList, minList]

theorem mapM_accept_some (mode : Mode) (th : Int) : ∀ (epochs : List (List Int)), (∀ e ∈ epochs, e ≠ []) →
    ∃ mask, epochs.mapM (accept mode th) = some mask
  | [], _ => ⟨[], rfl⟩
  | e :: es, h => by
    obtain ⟨c, hc⟩ := criterion_isSome mode e (h e (by simp))
    obtain ⟨bs, hbs⟩ := mapM_accept_some mode th es (fun x hx => h x (by simp [hx]))
    exact ⟨decide (c < th) :: bs, by simp [List.mapM_cons, accept, hc, hbs]⟩

theorem rows_length (nt : Nat) : ∀ (ne : Nat) (values : List Int), values.length = ne * nt →
    ∀ e ∈ rows nt ne values, e.length = nt
  | 0, _, _ => by simp [rows]
  | ne + 1, values, h => by
    intro e he
    simp only [rows, List.mem_cons] at he
    rcases he with rfl | he
    · simp; rw [h, Nat.succ_mul]; omega
    · exact rows_length nt ne (values.drop nt) (by simp [h, Nat.succ_mul]) e he

theorem rows_count (nt : Nat) : ∀ (ne : Nat) (values : List Int), (rows nt ne values).length = ne
  | 0, _ => rfl
  | ne + 1, values => by simp [rows, rows_count nt ne]

/-- `keep` with the verdict mask is `filter`. -/
theorem keep_map_eq_filter {α} (p : α → Bool) : ∀ l : List α, keep l (l.map p) = l.filter p
  | [] => rfl
  | x :: xs => by
    cases hp : p x <;> simp [keep, hp, keep_map_eq_filter p xs]

/-- keeping by a mask two aligned lists keeps aligned pairs (metadata stays with its epoch). -/
theorem keep_zip {α β} : ∀ (l : List α) (l' : List β) (m : List Bool),
    (keep l m).zip (keep l' m) = keep (l.zip l') m
  | [], _, m => by cases m <;> simp [keep]
  | _ :: _, [], m => by
    cases m with
    | nil => simp [keep]
    | cons b bs => cases b <;> simp [keep]
  | x :: xs, y :: ys, [] => by simp [keep]
  | x :: xs, y :: ys, true :: bs => by simp [keep, keep_zip xs ys bs]
  | x :: xs, y :: ys, false :: bs => by simp [keep, keep_zip xs ys bs]

/-- a plain `(epoch, 1, time)` batch. -/
def plainBatch (ne nt : Nat) (values : List Int) : Batch :=
  { annotated := false, shape := [ne, 1, nt], values := values }

/-- **Forwarded = filter (plain input).** For every batch of `ne` single-channel epochs of `nt ≥ 1` samples, every
criterion and threshold: the status callback receives the per-epoch verdict `criterion < th` (strict) and the
target receives exactly the accepted epochs, in their original order — or is not called when none is accepted. -/
theorem forwarded_eq_filter (mode : Mode) (th : Int) (ne nt : Nat) (values : List Int) (hnt : 0 < nt)
    (hv : values.length = ne * nt) :
    ∃ o, step mode th (plainBatch ne nt values) = .ok o ∧
      o.mask = (rows nt ne values).map (accepted mode th) ∧
      o.forwarded = (if ((rows nt ne values).filter (accepted mode th)).isEmpty then none
                     else some ((rows nt ne values).filter (accepted mode th))) := by
  have hne : ∀ e ∈ rows nt ne values, e ≠ [] := by
    intro e he h0
    have := rows_length nt ne values hv e he
    simp [h0] at this; omega
  obtain ⟨mask, hm⟩ := mapM_accept_some mode th _ hne
  have hmask := mask_eq_map mode th _ _ hm
  have h0 : ¬ (nt = 0) := by omega
  simp [step, plainBatch, validate, hm, h0]
  subst hmask
  simp [keep_map_eq_filter]

/-- **Order preserved, nothing but accepted epochs**: what is forwarded is a sub-list of the batch and every
forwarded epoch is accepted; every accepted epoch is forwarded. -/
theorem forwarded_sublist (mode : Mode) (th : Int) (epochs : List (List Int)) :
    (epochs.filter (accepted mode th)).Sublist epochs ∧
    ∀ e, e ∈ epochs.filter (accepted mode th) ↔ e ∈ epochs ∧ accepted mode th e = true := by
  exact ⟨List.filter_sublist, fun e => by simp⟩

/-- **Strictness**: an epoch whose criterion EQUALS the threshold is rejected; one just below is accepted. -/
theorem strict (mode : Mode) (th : Int) (e : List Int) (h : criterion mode e = some th) :
    accepted mode th e = false ∧ accepted mode (th + 1) e = true := by
  refine ⟨by simp [accepted, h], ?_⟩
  simp [accepted, h]
  omega

/-- **An all-rejected batch forwards nothing** (the target is not called), and the callback still gets the mask. -/
theorem all_rejected_forwards_nothing (mode : Mode) (th : Int) (ne nt : Nat) (values : List Int) (hnt : 0 < nt)
    (hv : values.length = ne * nt) (hall : ∀ e ∈ rows nt ne values, accepted mode th e = false) :
    ∃ o, step mode th (plainBatch ne nt values) = .ok o ∧ o.forwarded = none ∧ o.mask = List.replicate ne false := by
  obtain ⟨o, ho, hmask, hf⟩ := forwarded_eq_filter mode th ne nt values hnt hv
  refine ⟨o, ho, ?_, ?_⟩
  · have : (rows nt ne values).filter (accepted mode th) = [] := by
      simp only [List.filter_eq_nil_iff]; intro e he; simp [hall e he]
    simp [hf, this]
  · rw [hmask, List.eq_replicate_iff]
    exact ⟨by simp [rows_count], by intro b hb; simp only [List.mem_map] at hb; obtain ⟨e, he, rfl⟩ := hb; exact hall e he⟩

/-- **Time-varying threshold**: in a sequence of sends every batch is judged with the threshold in force at
that send (as long as no send raises, the coroutine is a `map` of the one-batch step). -/
theorem time_varying (mode : Mode) : ∀ (sends : List (Int × Batch)),
    (∀ p ∈ sends, ∃ o, step mode p.1 p.2 = .ok o) →
    run mode true sends = sends.map fun p => step mode p.1 p.2
  | [], _ => rfl
  | (th, b) :: rest, h => by
    obtain ⟨o, ho⟩ := h (th, b) (by simp)
    simp [run, ho, time_varying mode rest (fun p hp => h p (by simp [hp]))]

/-- **Refusal**: plain input that is not 3-D or has more than one channel, and annotated input that is not epoched
or has more than one channel, raises `ValueError`; afterwards the coroutine is finished (`StopIteration`). -/
theorem refuses (mode : Mode) (th : Int) (b : Batch)
    (hbad : (b.annotated = false ∧ (b.shape.length ≠ 3 ∨ b.shape.getD 1 0 ≠ 1)) ∨
            (b.annotated = true ∧ (b.shape.length < 3 ∨ (b.shape.length ≠ 1 ∧ shapeM2 b.shape ≠ 1)))) :
    step mode th b = .error .valueError ∧
    ∀ rest, run mode true ((th, b) :: rest) = .error .valueError :: rest.map fun _ => .error .stopIteration := by
  have hstep : step mode th b = .error .valueError := by
    rcases hbad with ⟨ha, h⟩ | ⟨ha, h⟩
    · rcases h with h | h
      · simp [step, validate, ha, h]
      · have h' : ¬ (b.shape[1]?.getD 0 = 1) := by simpa using h
        simp [step, validate, ha, h']
    · rcases h with h | h
      · have : ¬ (3 ≤ b.shape.length) := by omega
        simp [step, validate, ha, this]
      · simp [step, validate, ha, h.1, h.2]
  refine ⟨hstep, fun rest => ?_⟩
  simp only [run, hstep]
  congr 1
  induction rest with
  | nil => rfl
  | cons p ps ih => simp [run, ih]

theorem filterMap_zip_eq_keep {α} : ∀ (l : List α) (m : List Bool), m.length = l.length →
    (l.zip m).filterMap (fun (x, b) => if b then some x else none) = keep l m
  | [], m, _ => by cases m <;> simp [keep]
  | x :: xs, [], h => by simp at h
  | x :: xs, true :: bs, h => by simp [keep, filterMap_zip_eq_keep xs bs (by simpa using h)]
  | x :: xs, false :: bs, h => by simp [keep, filterMap_zip_eq_keep xs bs (by simpa using h)]

/-- an annotated `(epoch, 1, time)` batch. -/
def annotBatch (ne nt : Nat) (values : List Int) (s0 : Int) (fs : Rat) (c : Label) (ms : List Md) : Batch :=
  { annotated := true, shape := [ne, 1, nt], values := values, s0 := s0, fs := fs, channel := .many [c], metadata := .many ms }

/-- **Metadata stays paired (annotated input).** The forwarded array carries exactly the metadata entries of the
accepted epochs, in order, as many as it has epochs; time base, rate and channel label are those of the batch.
(Proved through C11's `epoch_select` for a boolean mask.) -/
theorem metadata_paired (mode : Mode) (th : Int) (ne nt : Nat) (values : List Int) (s0 : Int) (fs : Rat) (c : Label)
    (ms : List Md) (hnt : 0 < nt) (hv : values.length = ne * nt) (hm : ms.length = ne) :
    ∃ o, step mode th (annotBatch ne nt values s0 fs c ms) = .ok o ∧
      o.mask = (rows nt ne values).map (accepted mode th) ∧
      o.metadata = some (.many (keep ms o.mask)) ∧
      o.shape = [(keep ms o.mask).length, 1, nt] ∧
      (keep ms o.mask).zip (keep (rows nt ne values) o.mask) = keep (ms.zip (rows nt ne values)) o.mask ∧
      o.s0 = s0 ∧ o.fs = fs ∧ o.channel = .many [c] := by
  have hne : ∀ e ∈ rows nt ne values, e ≠ [] := by
    intro e he h0
    have := rows_length nt ne values hv e he
    simp [h0] at this; omega
  obtain ⟨mask, hmk⟩ := mapM_accept_some mode th _ hne
  have hmask := mask_eq_map mode th _ _ hmk
  have hlen : mask.length = ne := by rw [hmask]; simp [rows_count]
  have h0 : ¬ (nt = 0) := by omega
  have hsel : itemSel (.barr mask) ne = .ok (.fancy (trueIdx 0 mask)) := by
    simp [itemSel, maskPositions, hlen, Except.map]
  obtain ⟨r, hr, hmeta, hshape, hcount, hs0, hfs, hch⟩ :=
    epoch_select ne 1 nt (List.range (prod [ne, 1, nt])) s0 fs [c] ms hm (.barr mask) trivial _ hsel
  have hk : listTake ms (trueIdx 0 mask) = keep ms mask := by
    rw [mask_labels ms mask (by omega)]
    exact filterMap_zip_eq_keep ms mask (by omega)
  have hlk : (listTake ms (trueIdx 0 mask)).length = (trueIdx 0 mask).length :=
    listTake_length ms _ (by intro p hp; have := trueIdx_lt mask 0 p hp; omega)
  simp only [step, annotBatch, validate]
  simp only [shapeM2, List.length_cons, List.length_nil, List.reverse_cons, List.reverse_nil, List.nil_append,
    List.cons_append, List.getD_cons_succ, List.getD_cons_zero, Nat.reduceAdd, Nat.reduceEqDiff, ↓reduceIte,
    decide_true, Bool.and_self, Bool.not_true, Bool.false_eq_true, Nat.le_refl, hmk, h0, and_false, hr]
  refine ⟨⟨mask, (if r.shape.getD 0 0 = 0 then none else
      some (rows nt (r.shape.getD 0 0) (r.data.map fun i => values.getD i 0))), some r.metadata, r.shape, r.s0, r.fs,
      r.channel⟩, by simp, hmask, ?_, ?_, ?_, hs0, hfs, hch⟩
  · simp [hmeta, selMeta, hk]
  · simp [hshape, selShape, ← hk, hlk]
  · exact keep_zip _ _ _

theorem keep_length_eq {α β} : ∀ (l : List α) (l' : List β) (m : List Bool), l.length = l'.length →
    (keep l m).length = (keep l' m).length
  | [], [], m, _ => by cases m <;> simp [keep]
  | [], _ :: _, _, h => by simp at h
  | _ :: _, [], _, h => by simp at h
  | x :: xs, y :: ys, [], _ => by simp [keep]
  | x :: xs, y :: ys, true :: bs, h => by simp [keep, keep_length_eq xs ys bs (by simpa using h)]
  | x :: xs, y :: ys, false :: bs, h => by simp [keep, keep_length_eq xs ys bs (by simpa using h)]

/-- **The mask selects the same rows for data and metadata — for every mask.** For an annotated `(ne, 1, nt)` batch
(`data` = the index-valued array the model's `step` builds, `values` the batch's samples) and EVERY boolean mask of
length `ne`, `batch[mask]` succeeds and: the data rows of the result, read back through `values`, are exactly
`keep epochs mask` (the epochs at the mask's `True` positions, in order); its metadata are `keep ms mask` (the entries
at the same positions); the two have the same length, which is the length of the result's epoch axis; `s0`, `fs`,
channel label untouched.  Data placement comes from the NumPy layer through `getitem_data` (the annotation fix-ups
never touch data), metadata from C11's `epoch_select`. -/
theorem mask_selects_same_rows (ne nt : Nat) (values : List Int) (s0 : Int) (fs : Rat) (c : Label) (ms : List Md)
    (hv : values.length = ne * nt) (hm : ms.length = ne) (mask : List Bool) (hlen : mask.length = ne) :
    ∃ r, getitem ⟨[ne, 1, nt], List.range (prod [ne, 1, nt]), s0, fs, .many [c], .many ms⟩ (.one (.barr mask)) =
        .ok (.arr r) ∧
      rows nt (r.shape.getD 0 0) (r.data.map fun i => values.getD i 0) = keep (rows nt ne values) mask ∧
      r.metadata = .many (keep ms mask) ∧
      (keep ms mask).length = (keep (rows nt ne values) mask).length ∧
      r.shape = [(keep ms mask).length, 1, nt] ∧ r.s0 = s0 ∧ r.fs = fs ∧ r.channel = .many [c] := by
  have hsel : itemSel (.barr mask) ne = .ok (.fancy (trueIdx 0 mask)) := by
    simp [itemSel, maskPositions, hlen, Except.map]
  obtain ⟨r, hr, hmeta, hshape, _, hs0, hfs, hch⟩ :=
    epoch_select ne 1 nt (List.range (prod [ne, 1, nt])) s0 fs [c] ms hm (.barr mask) trivial _ hsel
  have hk : listTake ms (trueIdx 0 mask) = keep ms mask := by
    rw [mask_labels ms mask (by omega)]
    exact filterMap_zip_eq_keep ms mask (by omega)
  have hlk : (listTake ms (trueIdx 0 mask)).length = (trueIdx 0 mask).length :=
    listTake_length ms _ (by intro p hp; have := trueIdx_lt mask 0 p hp; omega)
  obtain ⟨sel, hnp, hdata, _⟩ := getitem_data hr
  have hoff := npGetitem_mask_3d ne 1 nt mask hlen
  simp only [Index.items] at hnp
  rw [hnp] at hoff
  simp only [Except.map, Except.ok.injEq] at hoff
  rw [hoff, mask_offsets ne nt mask hlen] at hdata
  refine ⟨r, hr, ?_, ?_, ?_, ?_, hs0, hfs, hch⟩
  · rw [hshape, hdata, keep_rows nt ne values hv mask hlen]
    simp only [selShape, List.cons_append, List.nil_append, List.getD_cons_zero, List.map_flatMap, List.map_map,
      Function.comp_def]
    exact rows_flatMap nt _ (trueIdx 0 mask) (by intro x _; simp)
  · simp [hmeta, selMeta, hk]
  · exact keep_length_eq _ _ _ (by rw [hm, rows_count])
  · simp [hshape, selShape, ← hk, hlk]


/-- **Forwarded data rows of annotated input.** For an annotated `(ne, 1, nt)` batch, `nt ≥ 1`: `step` succeeds, the
status mask is the per-epoch verdict, the epochs handed to the target are exactly the accepted epochs in their original
order (`filter accepted`; target not called when there is none), the forwarded metadata are the entries of the accepted
epochs, and zipping forwarded metadata with forwarded epochs gives the accepted (metadata, epoch) pairs of the batch:
every forwarded epoch is positionally paired with its own metadata entry. -/
theorem forwarded_rows_annotated (mode : Mode) (th : Int) (ne nt : Nat) (values : List Int) (s0 : Int) (fs : Rat)
    (c : Label) (ms : List Md) (hnt : 0 < nt) (hv : values.length = ne * nt) (hm : ms.length = ne) :
    ∃ o, step mode th (annotBatch ne nt values s0 fs c ms) = .ok o ∧
      o.mask = (rows nt ne values).map (accepted mode th) ∧
      o.forwarded = (if ((rows nt ne values).filter (accepted mode th)).isEmpty then none
                     else some ((rows nt ne values).filter (accepted mode th))) ∧
      o.metadata = some (.many (keep ms o.mask)) ∧
      (keep ms o.mask).zip ((rows nt ne values).filter (accepted mode th)) = keep (ms.zip (rows nt ne values)) o.mask ∧
      (keep ms o.mask).length = ((rows nt ne values).filter (accepted mode th)).length := by
  have hne : ∀ e ∈ rows nt ne values, e ≠ [] := by
    intro e he h0
    have := rows_length nt ne values hv e he
    simp [h0] at this; omega
  obtain ⟨mask, hmk⟩ := mapM_accept_some mode th _ hne
  have hmask := mask_eq_map mode th _ _ hmk
  have hlen : mask.length = ne := by rw [hmask]; simp [rows_count]
  have h0 : ¬ (nt = 0) := by omega
  obtain ⟨r, hr, hrows, hmeta, hlk, hshape, _, _, _⟩ :=
    mask_selects_same_rows ne nt values s0 fs c ms hv hm mask hlen
  have hfilt : keep (rows nt ne values) mask = (rows nt ne values).filter (accepted mode th) := by
    rw [hmask]; exact keep_map_eq_filter _ _
  simp only [step, annotBatch, validate]
  simp only [shapeM2, List.length_cons, List.length_nil, List.reverse_cons, List.reverse_nil, List.nil_append,
    List.cons_append, List.getD_cons_succ, List.getD_cons_zero, Nat.reduceAdd, Nat.reduceEqDiff, ↓reduceIte,
    decide_true, Bool.and_self, Bool.not_true, Bool.false_eq_true, Nat.le_refl, hmk, h0, and_false, hr]
  refine ⟨⟨mask, (if r.shape.getD 0 0 = 0 then none else
      some (rows nt (r.shape.getD 0 0) (r.data.map fun i => values.getD i 0))), some r.metadata, r.shape, r.s0, r.fs,
      r.channel⟩, by simp, hmask, ?_, by simp [hmeta], ?_, ?_⟩
  · rw [hshape] at hrows
    simp only [List.getD_cons_zero, hlk, hfilt] at hrows
    simp only [hshape, List.getD_cons_zero, hlk, hfilt, hrows, List.isEmpty_iff_length_eq_zero]
  · simp only [← hfilt]; exact keep_zip _ _ _
  · simp only [← hfilt]; exact hlk

/-! ### Non-vacuity -/

example : accepted .absValue 4 [1, -3, 2] = true ∧ accepted .absValue 4 [1, -4, 2] = false ∧
    accepted .amplitude 4 [1, -3, 0] = false ∧ accepted .amplitude 4 [1, -2, 0] = true := by decide
example : criterion .absValue [1, -4, 2] = some 4 := by decide
example : (plainBatch 2 3 [1, -3, 2, 1, -4, 2]).values.length = 2 * 3 := rfl
example : ∀ e ∈ rows 2 2 [4, 0, -5, 1], accepted .absValue 4 e = false := by decide
example : (({ annotated := false, shape := [2, 2, 3], values := [] } : Batch).shape.getD 1 0) ≠ 1 := by decide

/-- an annotated batch of two epochs of three samples meeting the hypotheses of `forwarded_rows_annotated` /
`mask_selects_same_rows` (mask `[true, false]`). -/
example : (0 < 3) ∧ ([1, -3, 2, 1, -4, 2] : List Int).length = 2 * 3 ∧ ([7, 8] : List Md).length = 2 ∧
    ([true, false] : List Bool).length = 2 := by decide

end Psi.Reject
