import PsiModel.Reject
namespace Psi.Reject
theorem placeholder17 : keep ([] : List Nat) [] = [] := rfl
end Psi.Reject
