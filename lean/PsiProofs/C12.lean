import PsiModel.Stages
namespace Psi.Stages
theorem placeholder : stride 2 [1, 2, 3] = [1, 3] := rfl
end Psi.Stages
