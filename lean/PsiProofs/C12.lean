import PsiProofs.Helper.C12_Stages3
import PsiProofs.Helper.C12_Rate
import PsiProofs.Helper.C12_Restart
import PsiProofs.Helper.C12_Annot
import PsiProofs.Helper.C12_Concat
import PsiProofs.Helper.C12_Channels
/-!
# C12 — streaming stages are chunk-invariant and keep a contiguous time base

For every stage, every parameter, every annotation record, every start sample `s` and **every list
of chunks `cs`** (any number of chunks, any sizes incl. empty ones — no bound), running the
code-faithful transducer over the stream `stream ann s cs` never raises and emits blocks `bs` with
`Emits bs (spec cs.flatten) u t ann'`, i.e.

* `outData bs = spec cs.flatten` — the concatenation of everything emitted is the stage's
  whole-signal definition, a function of the concatenated input only (chunk invariance);
* `Contig u t bs` — the first block starts at `t` and every block starts where the previous ended;
* every block carries the annotations `ann'` (rate, channel labels, metadata).

`Emits.catAll_ok` turns this into: the emitted blocks can always be concatenated by `concat`.
-/
namespace Psi.Stages
variable {α β ρ χ μ S τ : Type}

/-! ## meaning of `Emits` -/

/-- consecutive emitted blocks: the next one starts where the previous one ended -/
theorem Emits.next_s0 {bs : List (PD β ρ χ μ)} {x : List β} {u t : Int} {a : Ann ρ χ μ}
    (h : Emits bs x u t a) (l r : List (PD β ρ χ μ)) (b1 b2 : PD β ρ χ μ)
    (hbs : bs = l ++ b1 :: b2 :: r) : b2.s0 = b1.s0 + u * b1.len := by
  have key : ∀ (l : List (PD β ρ χ μ)) (t : Int), Contig u t (l ++ b1 :: b2 :: r) →
      b2.s0 = b1.s0 + u * b1.len := by
    intro l
    induction l with
    | nil => intro t hc; obtain ⟨h1, h2, _⟩ := hc; rw [h2, h1]
    | cons c l ih => intro t hc; exact ih _ hc.2
  exact key l t (hbs ▸ h.contig)

/-- the first emitted block starts at `t` -/
theorem Emits.first_s0 {bs : List (PD β ρ χ μ)} {x : List β} {u t : Int} {a : Ann ρ χ μ}
    (h : Emits bs x u t a) (b : PD β ρ χ μ) (r : List (PD β ρ χ μ)) (hbs : bs = b :: r) : b.s0 = t := by
  subst hbs; exact h.contig.1

/-- rate, channel labels and metadata of every emitted block -/
theorem Emits.rate_labels_metadata {bs : List (PD β ρ χ μ)} {x : List β} {u t : Int} {a : Ann ρ χ μ}
    (h : Emits bs x u t a) : ∀ b ∈ bs, b.ann.fs = a.fs ∧ b.ann.channel = a.channel ∧ b.ann.metadata = a.metadata := by
  intro b hb; rw [h.ann b hb]; exact ⟨rfl, rfl, rfl⟩

/-- two chunkings of the same signal give the same concatenated output -/
theorem Emits.same_data {bs bs' : List (PD β ρ χ μ)} {x : List β} {u u' t t' : Int} {a a' : Ann ρ χ μ}
    (h : Emits bs x u t a) (h' : Emits bs' x u' t' a') : outData bs = outData bs' := by
  rw [h.data, h'.data]

/-- consecutive outputs can always be concatenated (`concat` does not raise), giving the whole output -/
theorem emitted_blocks_concatenate {bs : List (PD β ρ χ μ)} {x : List β} {t : Int} {a : Ann ρ χ μ}
    (h : Emits bs x 1 t a) (hne : bs ≠ []) : catAll bs = .ok { data := x, s0 := t, ann := a } :=
  h.catAll_ok hne

/-! ## the stages -/

/-- `blocked(b)`: the first ⌊N/b⌋·b samples, in blocks of exactly `b`, contiguous from the input `s0` -/
theorem blocked_chunk_invariant (b : Nat) (hb : 0 < b) (ann : Ann ρ χ μ) (s : Int) (cs : List (List α)) :
    ∃ bs, outputs (runStage (blockedStep b) {} (stream ann s cs)) = .ok bs
      ∧ Emits bs (cs.flatten.take (cs.flatten.length / b * b)) 1 s ann
      ∧ ∀ blk ∈ bs, blk.len = b := by
  have := blocked_run b hb ann cs [] s {} (Or.inl ⟨rfl, rfl⟩) (Nat.le_refl _) hb
  simpa using this

/-- `downsample(q)` (as repaired): `x[0::q]` over the complete multiples of `q`, rate `fs/q`,
blocks contiguous in output samples from the input `s0` -/
theorem downsample_chunk_invariant (divFs : ρ → Nat → ρ) (twoD : Bool) (q : Nat) (hq : 0 < q)
    (ann : Ann ρ χ μ) (s : Int) (cs : List (List α)) :
    ∃ bs, outputs (runStage (downsampleStep divFs twoD q) {} (stream ann s cs)) = .ok bs
      ∧ Emits bs (stride q (cs.flatten.take (cs.flatten.length / q * q))) 1 s
          { ann with fs := divFs ann.fs q } := by
  have := downsample_run divFs twoD q hq ann cs [] s s {} (Or.inl ⟨rfl, rfl⟩) hq (Or.inr ⟨rfl, rfl, rfl⟩)
  simpa using this

/-- `decimate(q)` (as repaired): filter the whole signal, keep every `q`-th sample.  `lf` is SciPy's
`lfilter`: the state machine `m` on non-empty input, an **arbitrary** final state on empty input
(`LfilterIs`); empty chunks anywhere in the stream are covered. -/
theorem decimate_chunk_invariant (m : Mealy α β S) (lf : S → List α → List β × S) (hlf : LfilterIs lf m)
    (zi : S) (divFs : ρ → Nat → ρ) (q : Nat) (hq : 0 < q)
    (ann : Ann ρ χ μ) (s : Int) (cs : List (List α)) :
    ∃ bs, outputs (runStage (decimateStep lf zi divFs q) none (stream ann s cs)) = .ok bs
      ∧ Emits bs (stride q ((m.run zi cs.flatten).1.take (cs.flatten.length / q * q))) 1 s
          { ann with fs := divFs ann.fs q } := by
  cases cs with
  | nil => exact ⟨[], rfl, by simpa [Mealy.run, stride, strideAux] using Emits.nil _ _ _⟩
  | cons c cs =>
    have := decimate_run m lf hlf zi divFs q hq ann (c :: cs) [] s s zi none (Or.inl ⟨rfl, rfl⟩) hq
    have e : runStage (decimateStep lf zi divFs q) none (stream ann s (c :: cs))
        = runStage (decimateStep lf zi divFs q) (some { zf := zi, rem := none, s0 := s }) (stream ann s (c :: cs)) := by
      rw [stream_cons]; rfl
    rw [e]
    simpa using this

/-- `discard(d)`: the signal without its first `d` samples, first block at `s0 + d` -/
theorem discard_chunk_invariant (d : Nat) (ann : Ann ρ χ μ) (s : Int) (cs : List (List α)) :
    ∃ bs, outputs (runStage discardStep d (stream ann s cs)) = .ok bs
      ∧ Emits bs (cs.flatten.drop d) 1 (s + d) ann :=
  discard_run ann cs d s

/-- `rms(n)` (as repaired): the block function of consecutive complete `n`-blocks, rate `fs/n`;
`s0` fields are numerators over `n`, advancing by `n` per emitted value -/
theorem rms_chunk_invariant (blockFn : List α → β) (divFs : ρ → Nat → ρ) (n : Nat) (hn : 0 < n)
    (ann : Ann ρ χ μ) (s : Int) (cs : List (List α)) :
    ∃ bs, outputs (runStage (rmsStep blockFn divFs n) {} (stream ann s cs)) = .ok bs
      ∧ Emits bs ((blocksOf n cs.flatten).map blockFn) n s { ann with fs := divFs ann.fs n } := by
  have := rms_run blockFn divFs n hn ann cs [] s {} (Or.inl ⟨rfl, rfl⟩) rfl hn
  simpa using this

/-- what `blocksOf` is: consecutive blocks of exactly `n` samples covering the first ⌊N/n⌋·n samples -/
theorem blocksOf_characterisation (n : Nat) (hn : 0 < n) (x : List α) :
    (blocksOf n x).flatten = x.take (x.length / n * n) ∧ (∀ b ∈ blocksOf n x, b.length = n)
      ∧ (blocksOf n x).length = x.length / n :=
  ⟨blocksOf_flatten n hn x, blocksOf_length_eq n hn x, blocksOf_count n hn x⟩

/-- `derivative(init)`: `np.diff` of `init` followed by the whole signal -/
theorem derivative_chunk_invariant (init : α) (d : α → α → β) (ann : Ann ρ χ μ) (s : Int)
    (cs : List (List α)) :
    ∃ bs, outputs (runStage (derivativeStep init d) none (stream ann s cs)) = .ok bs
      ∧ Emits bs (diffs d (init :: cs.flatten)) 1 s ann := by
  cases cs with
  | nil => exact ⟨[], rfl, by simpa [diffs] using Emits.nil _ _ _⟩
  | cons c cs =>
    have := derivative_run init d ann (c :: cs) init s
    have e : runStage (derivativeStep init d) none (stream ann s (c :: cs))
        = runStage (derivativeStep init d) (some { data := [init], s0 := s - 1, ann := ann })
            (stream ann s (c :: cs)) := by
      rw [stream_cons]; rfl
    rw [e]; exact this

/-- `iirfilter`: the state machine `m` (what `lfilter` computes on non-empty input, `LfilterIs`) started in
the state scaled by the very first sample, run over the whole signal; annotations (incl. channel and
metadata, as repaired) kept.  Empty chunks after the first are covered although `lfilter` returns an
arbitrary state for them. -/
theorem iirfilter_chunk_invariant (m : Mealy α β S) (lf : S → List α → List β × S) (hlf : LfilterIs lf m)
    (init : α → S) (ann : Ann ρ χ μ) (s : Int)
    (x0 : α) (c0 : List α) (cs : List (List α)) :
    ∃ bs, outputs (runStage (iirStep lf init) none (stream ann s ((x0 :: c0) :: cs))) = .ok bs
      ∧ Emits bs (m.run (init x0) ((x0 :: c0) :: cs).flatten).1 1 s ann := by
  have := iir_run m lf hlf init ann ((x0 :: c0) :: cs) (init x0) s
  have e : runStage (iirStep lf init) none (stream ann s ((x0 :: c0) :: cs))
      = runStage (iirStep lf init) (some (init x0)) (stream ann s ((x0 :: c0) :: cs)) := by
    rw [stream_cons]; rfl
  rw [e]; exact this

/-- domain note: an empty first chunk cannot initialise the filter state (`ValueError`) -/
theorem iirfilter_empty_first_chunk (lf : S → List α → List β × S) (init : α → S) (ann : Ann ρ χ μ) (s : Int)
    (cs : List (List α)) :
    outputs (runStage (iirStep lf init) none (stream ann s ([] :: cs))) = .error .valueError := by
  rw [stream_cons]; rfl

/-- the empty-chunk case spelled out: a zero-length chunk inserted anywhere (after a non-empty first chunk
for `iirfilter`, anywhere for `decimate`) changes neither the concatenated output nor the first `s0` nor
the annotations, whatever final state `lfilter` reports for the empty input -/
theorem lfilter_stages_empty_chunk_invariant (m : Mealy α β S) (lf : S → List α → List β × S)
    (hlf : LfilterIs lf m) (init : α → S) (zi : S) (divFs : ρ → Nat → ρ) (q : Nat) (hq : 0 < q)
    (ann : Ann ρ χ μ) (s : Int) (x0 : α) (c0 : List α) (pre post : List (List α)) :
    (∃ bs bs' x, outputs (runStage (iirStep lf init) none (stream ann s ((x0 :: c0) :: pre ++ [] :: post))) = .ok bs
      ∧ outputs (runStage (iirStep lf init) none (stream ann s ((x0 :: c0) :: pre ++ post))) = .ok bs'
      ∧ Emits bs x 1 s ann ∧ Emits bs' x 1 s ann)
    ∧ (∃ bs bs' x, outputs (runStage (decimateStep lf zi divFs q) none (stream ann s (pre ++ [] :: post))) = .ok bs
      ∧ outputs (runStage (decimateStep lf zi divFs q) none (stream ann s (pre ++ post))) = .ok bs'
      ∧ Emits bs x 1 s { ann with fs := divFs ann.fs q }
      ∧ Emits bs' x 1 s { ann with fs := divFs ann.fs q }) := by
  constructor
  · obtain ⟨bs, h1, h2⟩ := iirfilter_chunk_invariant m lf hlf init ann s x0 c0 (pre ++ [] :: post)
    obtain ⟨bs', h1', h2'⟩ := iirfilter_chunk_invariant m lf hlf init ann s x0 c0 (pre ++ post)
    refine ⟨bs, bs', _, h1, h1', h2, ?_⟩
    simpa using h2'
  · obtain ⟨bs, h1, h2⟩ := decimate_chunk_invariant m lf hlf zi divFs q hq ann s (pre ++ [] :: post)
    obtain ⟨bs', h1', h2'⟩ := decimate_chunk_invariant m lf hlf zi divFs q hq ann s (pre ++ post)
    refine ⟨bs, bs', _, h1, h1', h2, ?_⟩
    simpa using h2'

/-- why the guard is needed (the recorded finding `C12-lfilter-empty-chunk`, repaired by
notes/C12_fix_5.diff): a stage that adopts the final state `lfilter` reports for an empty chunk is not
chunk-invariant for a kernel that is correct on every non-empty input.  Kernel: running sum, state 99 after
an empty input. -/
theorem lfilter_unguarded_not_chunk_invariant :
    ∃ (m : Mealy Nat Nat Nat) (lf : Nat → List Nat → List Nat × Nat), LfilterIs lf m ∧
      let unguarded : Option Nat → PD Nat Unit Unit Unit → Except Err (List (PD Nat Unit Unit Unit) × Option Nat) :=
        fun st y => match iirInit (fun _ => 0) st y.data with
          | .error e => .error e
          | .ok z => .ok ([y.withData (lf z y.data).1], some (lf z y.data).2)
      (outputs (runStage unguarded none (stream ⟨(), (), ()⟩ 0 [[1], [], [2]]))).toOption.map outData
        ≠ (outputs (runStage unguarded none (stream ⟨(), (), ()⟩ 0 [[1], [2]]))).toOption.map outData
      ∧ (outputs (runStage (iirStep lf (fun _ => 0)) none (stream ⟨(), (), ()⟩ 0 [[1], [], [2]]))).toOption.map outData
        = (outputs (runStage (iirStep lf (fun _ => 0)) none (stream ⟨(), (), ()⟩ 0 [[1], [2]]))).toOption.map outData := by
  refine ⟨⟨fun s a => (s + a, s + a)⟩, fun z x => if x = [] then ([], 99) else
    (⟨fun s a => (s + a, s + a)⟩ : Mealy Nat Nat Nat).run z x, ⟨?_, ?_⟩, ?_⟩
  · intro z x hx; simp [hx]
  · intro z; simp
  · decide

/-- `transform(f)` with a pointwise `f`: `f` applied to every sample of the whole signal -/
theorem transform_pointwise_chunk_invariant (g : α → β) (ann : Ann ρ χ μ) (s : Int) (cs : List (List α)) :
    ∃ bs, outputs (runStage (transformStep (pointwise g)) () (stream ann s cs)) = .ok bs
      ∧ Emits bs (cs.flatten.map g) 1 s ann :=
  pointwise_run g ann cs s

/-- `mc_reference(matrix)`: `matrix @ ·` acts on each time column, i.e. it is `transform` with the
pointwise function `mat` -/
theorem mc_reference_chunk_invariant (mat : α → β) (ann : Ann ρ χ μ) (s : Int) (cs : List (List α)) :
    ∃ bs, outputs (runStage (transformStep (pointwise mat)) () (stream ann s cs)) = .ok bs
      ∧ Emits bs (cs.flatten.map mat) 1 s ann :=
  pointwise_run mat ann cs s

/-- the pointwise hypothesis is needed: a function of the whole chunk (here: add the chunk length
to every sample) gives different outputs for two chunkings of the same signal -/
theorem transform_not_chunk_invariant_without_pointwise :
    ∃ (f : PD Nat Unit Unit Unit → PD Nat Unit Unit Unit) (cs cs' : List (List Nat)),
      cs.flatten = cs'.flatten ∧
      (outputs (runStage (transformStep f) () (stream ⟨(), (), ()⟩ 0 cs))).toOption.map outData
        ≠ (outputs (runStage (transformStep f) () (stream ⟨(), (), ()⟩ 0 cs'))).toOption.map outData := by
  refine ⟨fun y => y.withData (y.data.map (· + y.data.length)), [[1, 2]], [[1], [2]], rfl, ?_⟩
  decide

/-- `auto_th(baseline)`: nothing until `baseline` samples are known; then every sample of the whole
signal compared with the threshold of its first `baseline` samples; metadata gains the threshold -/
theorem auto_th_chunk_invariant (thr : List α → τ) (cmp : τ → α → β) (addTh : τ → μ → μ) (bl : Nat)
    (ann : Ann ρ χ μ) (s : Int) (cs : List (List α)) :
    ∃ bs, outputs (runStage (autoThStep thr cmp addTh bl) .first (stream ann s cs)) = .ok bs
      ∧ Emits bs (autoSpec thr cmp bl cs.flatten) 1 s
          { ann with metadata := addTh (thr (cs.flatten.take bl)) ann.metadata } := by
  cases cs with
  | nil =>
    refine ⟨[], rfl, ?_⟩
    have : autoSpec thr cmp bl ([] : List (List α)).flatten = [] := by simp [autoSpec]
    rw [this]; exact Emits.nil _ _ _
  | cons c cs =>
    have := autoTh_acc thr cmp addTh bl ann (c :: cs) [] s (Or.inr rfl)
    have e : runStage (autoThStep thr cmp addTh bl) .first (stream ann s (c :: cs))
        = runStage (autoThStep thr cmp addTh bl) (.acc { data := [], s0 := s - ([] : List α).length, ann := ann })
            (stream ann s (c :: cs)) := by
      rw [stream_cons]
      simp only [runStage, autoThStep, cat, PD.len, List.length_nil, Int.natCast_zero, Int.sub_zero,
        Int.add_zero, if_true, List.nil_append]
    rw [e]
    simpa using this

/-! ### event_rate -/

/-- `event_rate(block_size, block_step)`, value theorem.  For **every chunking** of a well-formed event
stream into at least two adjacent `Events` objects (`WFEvents`: adjacent spans, empty spans allowed, one
sampling rate, every event inside the span of the object that carries it, events listed in **any order**):
the stage never raises, and the concatenation of the emitted count blocks is the whole-stream
computation `rateSpec` — entry `j` is the number of events of the whole stream in
`[start + j·step, start + j·step + size)`, for exactly the windows `j` with
`start + j·step + size < end` (`rateSpec_length`, `rateSpec_window_completed`, `rateSpec_getElem`).
The emitted rate is `count / block_size * fs` (a fixed function of the count).  Blocks are contiguous from
`s0 = start + block_size/2` (`s0` field = twice that, one unit per rate sample: `u = 2`), and every block
carries `fs/block_step`, the default channel and empty metadata. -/
theorem event_rate_chunk_invariant [DecidableEq ρ] (divFs : ρ → Nat → ρ) (chDef : χ) (mdEmpty : μ)
    (size step : Nat) (hs : 0 < step) (fs : ρ) (e0 : Ev ρ) (es : List (Ev ρ)) (hne : es ≠ [])
    (hwf : WFEvents fs e0.start (e0 :: es)) :
    ∃ bs, outputs (runStage (eventRateStep divFs chDef mdEmpty size step) none (e0 :: es)) = .ok bs
      ∧ Emits bs (rateSpec size step e0.start (endOf e0.start (e0 :: es)) (allEvents (e0 :: es)))
          2 (2 * e0.start + size : Nat) ⟨divFs fs step, chDef, mdEmpty⟩ := by
  obtain ⟨_, _, hfs, hev, hwf'⟩ := hwf
  have h0 : step ≠ 0 := Nat.ne_of_gt hs
  obtain ⟨bs, hrun, hem⟩ := eventRate_run divFs chDef mdEmpty size step hs fs (divFs fs step) es e0.events
    e0.start e0.stop (2 * e0.start + size) hwf' (fun x hx => (hev x hx).2) (fun h => absurd h hne)
  refine ⟨bs, ?_, ?_⟩
  · have hstep : eventRateStep divFs chDef mdEmpty size step none e0
        = .ok ([], some ⟨⟨e0.events, e0.start, e0.stop, fs⟩, 2 * e0.start + size, divFs fs step⟩) := by
      simp only [eventRateStep, h0, if_false, ← hfs]
    simp only [runStage, hstep]
    cases hr : runStage (eventRateStep divFs chDef mdEmpty size step)
        (some ⟨⟨e0.events, e0.start, e0.stop, fs⟩, 2 * e0.start + size, divFs fs step⟩) es with
    | error e => simp [hr, outputs] at hrun
    | ok p => obtain ⟨os, s''⟩ := p; simp [hr, outputs] at hrun ⊢; exact hrun
  · simpa [endOf, allEvents] using hem

/-- the whole-stream definition has one entry per completed window … -/
theorem rateSpec_length (size step a b : Nat) (all : List Nat) :
    (rateSpec size step a b all).length = nWindows size step a b := by
  simp [rateSpec]

/-- … the completed windows are exactly those satisfying the stage's loop condition
`events.range_samples > block_size` when the whole span `[a, b)` is known … -/
theorem rateSpec_window_completed (size step a b : Nat) (hs : 0 < step) (j : Nat) :
    j < nWindows size step a b ↔ a + j * step + size < b :=
  nWindows_spec hs j

/-- … and entry `j` counts the events `x` of the stream (a multiset: any listing order) with
`a + j·step ≤ x < a + j·step + size` -/
theorem rateSpec_getElem (size step a b : Nat) (all : List Nat) (j : Nat)
    (hj : j < (rateSpec size step a b all).length) :
    (rateSpec size step a b all)[j]
      = all.countP (fun x => decide (a + j * step ≤ x) && decide (x < a + j * step + size)) := by
  simp only [rateSpec, List.getElem_map, List.getElem_range]
  rfl

/-- the whole-stream value depends only on the multiset of events -/
theorem rateSpec_perm (size step a b : Nat) {all all' : List Nat} (h : all.Perm all') :
    rateSpec size step a b all = rateSpec size step a b all' := by
  unfold rateSpec
  apply List.map_congr_left
  intro j _
  exact h.countP_eq _

/-- chunk invariance: two chunkings (each into ≥ 2 objects, with possibly different listing orders) of
the same event stream — same span, same multiset of events — give the same concatenated output, the same
first `s0` and the same annotations -/
theorem event_rate_same_for_all_chunkings [DecidableEq ρ] (divFs : ρ → Nat → ρ) (chDef : χ) (mdEmpty : μ)
    (size step : Nat) (hs : 0 < step) (fs : ρ) (e0 e0' : Ev ρ) (es es' : List (Ev ρ))
    (hne : es ≠ []) (hne' : es' ≠ [])
    (hwf : WFEvents fs e0.start (e0 :: es)) (hwf' : WFEvents fs e0'.start (e0' :: es'))
    (hstart : e0.start = e0'.start) (hend : endOf e0.start (e0 :: es) = endOf e0'.start (e0' :: es'))
    (hperm : (allEvents (e0 :: es)).Perm (allEvents (e0' :: es'))) :
    ∃ bs bs' x, outputs (runStage (eventRateStep divFs chDef mdEmpty size step) none (e0 :: es)) = .ok bs
      ∧ outputs (runStage (eventRateStep divFs chDef mdEmpty size step) none (e0' :: es')) = .ok bs'
      ∧ Emits bs x 2 (2 * e0.start + size : Nat) ⟨divFs fs step, chDef, mdEmpty⟩
      ∧ Emits bs' x 2 (2 * e0.start + size : Nat) ⟨divFs fs step, chDef, mdEmpty⟩ := by
  obtain ⟨bs, h1, h2⟩ := event_rate_chunk_invariant divFs chDef mdEmpty size step hs fs e0 es hne hwf
  obtain ⟨bs', h1', h2'⟩ := event_rate_chunk_invariant divFs chDef mdEmpty size step hs fs e0' es' hne' hwf'
  refine ⟨bs, bs', _, h1, h1', h2, ?_⟩
  have hend2 : endOf e0.start (e0' :: es') = endOf e0.start (e0 :: es) := by
    simpa [endOf] using hend.symm
  rw [← hstart, hend2, ← rateSpec_perm size step _ _ hperm] at h2'
  exact h2'

/-- `event_rate` on **any** sequence of `Events` objects (events may lie outside the spans): whenever the
stage does not raise, the emitted blocks are contiguous from `start + block_size/2` and carry
`fs/block_step` of the first object, default channel, empty metadata -/
theorem event_rate_blocks_contiguous [DecidableEq ρ] (divFs : ρ → Nat → ρ) (chDef : χ) (mdEmpty : μ)
    (size step : Nat) (e0 : Ev ρ) (es : List (Ev ρ)) (bs : List (PD Nat ρ χ μ))
    (h : outputs (runStage (eventRateStep divFs chDef mdEmpty size step) none (e0 :: es)) = .ok bs) :
    Contig 2 (2 * e0.start + size : Nat) bs ∧ ∀ b ∈ bs, b.ann = ⟨divFs e0.fs step, chDef, mdEmpty⟩ := by
  obtain ⟨o, s', bs', hstep, hrest, rfl⟩ := outputs_cons_ok h
  unfold eventRateStep at hstep
  split at hstep
  · cases hstep
  · injection hstep with hstep
    injection hstep with h1 h2
    subst h1 h2
    exact eventRate_contig divFs chDef mdEmpty size step es _ _ hrest

/-- `event_rate`: the first `Events` object is only buffered (a stream delivered as a single object emits
nothing); a gap between two objects, or a different sampling rate, raises `ValueError` -/
theorem event_rate_first_buffered_and_gap_raises [DecidableEq ρ] (divFs : ρ → Nat → ρ) (chDef : χ) (mdEmpty : μ)
    (size step : Nat) (hs : 0 < step) (e0 e1 : Ev ρ) :
    outputs (runStage (eventRateStep divFs chDef mdEmpty size step) none [e0]) = .ok []
    ∧ (e1.start ≠ e0.stop ∨ e1.fs ≠ e0.fs →
        outputs (runStage (eventRateStep divFs chDef mdEmpty size step) none [e0, e1]) = .error .valueError) := by
  have h0 : step ≠ 0 := Nat.ne_of_gt hs
  refine ⟨by simp [runStage, eventRateStep, h0, outputs], ?_⟩
  intro hne
  by_cases h1 : e1.start = e0.stop
  · have h2 : e1.fs ≠ e0.fs := by
      rcases hne with h | h
      · exact absurd h1 h
      · exact h
    simp [runStage, eventRateStep, h0, h1, h2, outputs]
  · simp [runStage, eventRateStep, h0, h1, outputs]

/-! ### the restart signal (`Ellipsis`) of `blocked` and `discard` -/

/-- `blocked(b)` over **any number of streams separated by the restart signal** (`restartInput`: the first
stream, then for every further stream `Ellipsis` followed by that stream; every stream has its own annotation
record, first sample and chunking — any number of chunks of any sizes).  The code's restart branch only
empties the buffer and leaves the counter `n` as it is; nevertheless the stage never raises, passes every signal
on exactly once and in place (`restartOutput`), and on each stream emits **exactly the blocks a freshly created
`blocked(b)` emits on it** (`AllPairs`, first conjunct) — which are the first ⌊N/b⌋·b samples of that stream in
blocks of exactly `b`, contiguous from that stream's `s0`, annotated like it (chunk-invariant per stream). -/
theorem blocked_restart_like_fresh (b : Nat) (hb : 0 < b) (sg0 : Seg α ρ χ μ) (rest : List (Seg α ρ χ μ)) :
    ∃ bs0 bss,
      outputs (runStage (blockedStepE b) {} (restartInput sg0 rest)) = .ok (restartOutput bs0 bss)
      ∧ AllPairs (fun sg bs =>
          outputs (runStage (blockedStep b) {} sg.stream) = .ok bs
          ∧ Emits bs (sg.chunks.flatten.take (sg.chunks.flatten.length / b * b)) 1 sg.s0 sg.ann
          ∧ ∀ blk ∈ bs, blk.len = b) (sg0 :: rest) (bs0 :: bss) := by
  obtain ⟨bs0, bss, hF, hrun⟩ := restart_run (blockedStep (α := α) (ρ := ρ) (χ := χ) (μ := μ) b)
    (fun st => { st with data := [] }) {} (fun st => st.n < b) hb
    (fun st d o st' h1 h2 => blockedStep_inv b hb st d o st' h1 h2)
    (fun st h => h)
    (fun st h sg => blocked_restart_fresh b hb st h sg)
    (fun sg => by
      obtain ⟨bs, h, _⟩ := blocked_chunk_invariant b hb sg.ann sg.s0 sg.chunks
      exact ⟨bs, h⟩)
    sg0 rest
  refine ⟨bs0, bss, hrun, AllPairs.imp ?_ hF⟩
  intro sg bs h
  obtain ⟨bs', h1, h2, h3⟩ := blocked_chunk_invariant b hb sg.ann sg.s0 sg.chunks
  have e : bs = bs' := by
    have := h.symm.trans h1
    simpa using this
  subst e
  exact ⟨h, h2, h3⟩

/-- `discard(d)` over any number of streams separated by the restart signal: never raises, every signal is passed
on exactly once and in place, and on each stream the stage emits exactly what a freshly created `discard(d)` emits
on it: that stream without its first `d` samples, first block at that stream's `s0 + d`, annotations kept. -/
theorem discard_restart_like_fresh (d : Nat) (sg0 : Seg α ρ χ μ) (rest : List (Seg α ρ χ μ)) :
    ∃ bs0 bss,
      outputs (runStage (discardStepE d) d (restartInput sg0 rest)) = .ok (restartOutput bs0 bss)
      ∧ AllPairs (fun sg bs =>
          outputs (runStage discardStep d sg.stream) = .ok bs
          ∧ Emits bs (sg.chunks.flatten.drop d) 1 (sg.s0 + d) sg.ann) (sg0 :: rest) (bs0 :: bss) := by
  obtain ⟨bs0, bss, hF, hrun⟩ := restart_run (discardStep (α := α) (ρ := ρ) (χ := χ) (μ := μ))
    (fun _ => d) d (fun _ => True) trivial
    (fun _ _ _ _ _ _ => trivial) (fun _ _ => trivial) (fun _ _ _ => rfl)
    (fun sg => by
      obtain ⟨bs, h, _⟩ := discard_chunk_invariant (α := α) d sg.ann sg.s0 sg.chunks
      exact ⟨bs, h⟩)
    sg0 rest
  refine ⟨bs0, bss, hrun, AllPairs.imp ?_ hF⟩
  intro sg bs h
  obtain ⟨bs', h1, h2⟩ := discard_chunk_invariant (α := α) d sg.ann sg.s0 sg.chunks
  have e : bs = bs' := by
    have := h.symm.trans h1
    simpa using this
  subst e
  exact ⟨h, h2⟩

/-- whole-input form: the samples that come out of `blocked` / `discard`, with a mark at every forwarded signal,
are a function of the **concatenated** streams only (`restartSpec`: the whole-signal definition per stream, one
mark between consecutive streams) — the same for every chunking of every stream -/
theorem restart_samples_chunk_invariant (b : Nat) (hb : 0 < b) (d : Nat) (sg0 : Seg α ρ χ μ)
    (rest : List (Seg α ρ χ μ)) :
    (∃ out, outputs (runStage (blockedStepE b) {} (restartInput sg0 rest)) = .ok out
      ∧ sigSamples out = restartSpec (fun x => x.take (x.length / b * b)) sg0.chunks.flatten
          (rest.map (·.chunks.flatten)))
    ∧ (∃ out, outputs (runStage (discardStepE d) d (restartInput sg0 rest)) = .ok out
      ∧ sigSamples out = restartSpec (fun x => x.drop d) sg0.chunks.flatten (rest.map (·.chunks.flatten))) := by
  constructor
  · obtain ⟨bs0, bss, hrun, ⟨h0, hF⟩⟩ := blocked_restart_like_fresh b hb sg0 rest
    refine ⟨_, hrun, ?_⟩
    unfold restartOutput restartSpec
    rw [sigSamples_append, sigSamples_data, h0.2.1.data,
      sigSamples_restartOutput (fun x => x.take (x.length / b * b)) rest bss
        (AllPairs.imp (fun sg bs h => h.2.1.data) hF)]
  · obtain ⟨bs0, bss, hrun, ⟨h0, hF⟩⟩ := discard_restart_like_fresh d sg0 rest
    refine ⟨_, hrun, ?_⟩
    unfold restartOutput restartSpec
    rw [sigSamples_append, sigSamples_data, h0.2.data,
      sigSamples_restartOutput (fun x => x.drop d) rest bss (AllPairs.imp (fun sg bs h => h.2.data) hF)]

/-- meaning of `AllPairs`: same number of entries, related position by position -/
theorem AllPairs.spelled_out {A B : Type} {R : A → B → Prop} {l : List A} {l' : List B} (h : AllPairs R l l') :
    l.length = l'.length ∧ ∀ (i : Nat) (h1 : i < l.length) (h2 : i < l'.length), R l[i] l'[i] :=
  ⟨h.length_eq, h.getElem⟩

/-! ## annotation bookkeeping at full strength: `rms`, `auto_th`, and the full `concat` of C11 -/

/-- `rms(n)` with the **true** first-sample index `s0 / n` of every block (`result.s0 /= n`; the model's field is the
numerator).  For a stream starting at a multiple `n·k` of the block length — any `k ∈ ℤ` — and every chunking:
every division is exact (`b.s0 = n · (b.s0 / n)`), the first emitted block starts at output sample `k = s0 / n`, every
block starts where the previous one ended **counted in output samples**, carries the rate `fs / n` and the input's
channel labels and metadata, and the values are the block function of the consecutive complete `n`-blocks. -/
theorem rms_annotations_output_samples (blockFn : List α → β) (divFs : ρ → Nat → ρ) (n : Nat) (hn : 0 < n)
    (ann : Ann ρ χ μ) (k : Int) (cs : List (List α)) :
    ∃ bs, outputs (runStage (rmsStep blockFn divFs n) {} (stream ann ((n : Int) * k) cs)) = .ok bs
      ∧ (∀ b ∈ bs, b.s0 = (n : Int) * (b.s0 / (n : Int)))
      ∧ Emits (bs.map (PD.divS0 n)) ((blocksOf n cs.flatten).map blockFn) 1 k { ann with fs := divFs ann.fs n } := by
  obtain ⟨bs, h1, h2⟩ := rms_chunk_invariant blockFn divFs n hn ann ((n : Int) * k) cs
  obtain ⟨h3, h4⟩ := h2.divS0 hn
  exact ⟨bs, h1, h4, h3⟩

/-- `rms(n)` for **any** first sample `s` (not a multiple of `n`): the true first-sample indices `s0 / n ∈ ℚ` of the
emitted blocks are contiguous in output samples from `s / n` (exact rational arithmetic; the code computes them in
floating point) -/
theorem rms_true_s0_contiguous (blockFn : List α → β) (divFs : ρ → Nat → ρ) (n : Nat) (hn : 0 < n)
    (ann : Ann ρ χ μ) (s : Int) (cs : List (List α)) :
    ∃ bs, outputs (runStage (rmsStep blockFn divFs n) {} (stream ann s cs)) = .ok bs
      ∧ RContig ((s : Rat) / n) (bs.map fun b => ((b.s0 : Rat) / n, b.len)) := by
  obtain ⟨bs, h1, h2⟩ := rms_chunk_invariant blockFn divFs n hn ann s cs
  exact ⟨bs, h1, Contig.rat n hn bs s h2.contig⟩

/-- `auto_th` with the metadata dict as a key/value map (`metadata['auto_th'] = th` is `setKey key th`): for every
chunking, the emitted blocks are contiguous from the stream's first sample (the first block carries everything
accumulated for the baseline), every block keeps the rate and the channel labels, its metadata maps `key` to the
threshold of the first `bl` samples of the whole stream and agrees with the input metadata on **every other key** -/
theorem auto_th_annotations {κ ν : Type} [DecidableEq κ] (key : κ) (thr : List α → ν) (cmp : ν → α → β) (bl : Nat)
    (ann : Ann ρ χ (κ → Option ν)) (s : Int) (cs : List (List α)) :
    ∃ bs, outputs (runStage (autoThStep thr cmp (setKey key) bl) .first (stream ann s cs)) = .ok bs
      ∧ outData bs = autoSpec thr cmp bl cs.flatten ∧ Contig 1 s bs
      ∧ ∀ b ∈ bs, b.ann.fs = ann.fs ∧ b.ann.channel = ann.channel
          ∧ b.ann.metadata key = some (thr (cs.flatten.take bl))
          ∧ ∀ k, k ≠ key → b.ann.metadata k = ann.metadata k := by
  obtain ⟨bs, h1, h2⟩ := auto_th_chunk_invariant thr cmp (setKey key) bl ann s cs
  refine ⟨bs, h1, h2.data, h2.contig, ?_⟩
  intro b hb
  rw [h2.ann b hb]
  exact ⟨rfl, rfl, setKey_same _ _ _, fun k hk => setKey_other _ _ _ k hk⟩

/-- **`emitted_blocks_concatenate` against the full `concat` of C11** (`Psi.PData.concat`: `ensure_dim`, equal `ndim`,
equal rate, contiguity of `s0`, equal channel labels, equal metadata, `np.concatenate`, the checks of
`PipelineData.__new__`).  Whatever a stage emits (`Emits … 1 t a`) — 1-D blocks, or 2-D blocks of `c` channels with
one label per channel — passes every check, and the result is the whole output as one array (`[N]` resp. row-major
`[c, N]`) with `s0 = t` and the common rate, labels and metadata. -/
theorem emitted_blocks_concatenate_full_concat :
    (∀ (bs : List (PD Nat Rat PData.Label PData.Md)) (x : List Nat) (t : Int) (a : Ann Rat PData.Label PData.Md),
      Emits bs x 1 t a → bs ≠ [] →
      PData.concat (bs.map toPData1) .time = .ok (toPData1 { data := x, s0 := t, ann := a }))
    ∧ (∀ (c : Nat) (bs : List (PD (Fin c → Nat) Rat (List PData.Label) PData.Md)) (x : List (Fin c → Nat)) (t : Int)
        (a : Ann Rat (List PData.Label) PData.Md),
      Emits bs x 1 t a → a.channel.length = c → bs ≠ [] →
      PData.concat (bs.map toPData2) .time = .ok (toPData2 { data := x, s0 := t, ann := a })) :=
  ⟨fun _ _ _ _ h hne => h.concat_ok_1d hne, fun _ _ _ _ _ h hl hne => h.concat_ok_2d hl hne⟩

/-- **the two-piece `cat` used inside the stage model is the full `concat`** on the pieces of one stream: with one
annotation record, `cat` succeeds exactly when `concat` does (second piece starts where the first ends) and yields
the same array, otherwise both raise `ValueError`; pieces with different rate, label or metadata — which the stage
model does not compare — are refused by `concat` (never the case inside a stream) -/
theorem stage_cat_is_full_concat (p q : PD Nat Rat PData.Label PData.Md) :
    (q.ann = p.ann → q.s0 = p.s0 + p.len →
      ∃ r, cat p q = .ok r ∧ PData.concat [toPData1 p, toPData1 q] .time = .ok (toPData1 r))
    ∧ (q.ann = p.ann → q.s0 ≠ p.s0 + p.len →
      cat p q = .error .valueError ∧ PData.concat [toPData1 p, toPData1 q] .time = .error .valueError)
    ∧ (q.ann ≠ p.ann → PData.concat [toPData1 p, toPData1 q] .time = .error .valueError) :=
  ⟨fun h => (cat_is_concat_1d p q h).1, fun h => (cat_is_concat_1d p q h).2,
   concat_rejects_other_annotations_1d p q⟩

/-- end to end for `rms` (not covered by `emitted_blocks_concatenate`, whose `s0` unit is 1): the blocks `rms(n)` emits
on a 1-D stream starting at `n·k`, with their true `s0`, are accepted by the full `concat` and give the block values of
the whole stream at `s0 = k`, rate `fs / n` -/
theorem rms_blocks_concatenate_full_concat (blockFn : List α → Nat) (n : Nat) (hn : 0 < n)
    (ann : Ann Rat PData.Label PData.Md) (k : Int) (cs : List (List α)) (hlen : n ≤ cs.flatten.length) :
    ∃ bs, outputs (runStage (rmsStep blockFn (fun (fs : Rat) (q : Nat) => fs / q) n) {} (stream ann ((n : Int) * k) cs)) = .ok bs
      ∧ PData.concat ((bs.map (PD.divS0 n)).map toPData1) .time
        = .ok (toPData1 { data := (blocksOf n cs.flatten).map blockFn, s0 := k, ann := { ann with fs := ann.fs / n } }) := by
  obtain ⟨bs, h1, _, h3⟩ := rms_annotations_output_samples blockFn (fun (fs : Rat) (q : Nat) => fs / q) n hn ann k cs
  refine ⟨bs, h1, h3.concat_ok_1d ?_⟩
  intro hnil
  have hd := h3.data
  rw [hnil] at hd
  have hc := blocksOf_count n hn cs.flatten
  have : (List.map blockFn (blocksOf n cs.flatten)).length = 0 := by rw [← hd]; rfl
  rw [List.length_map, hc] at this
  have := Nat.div_pos hlen hn
  omega

/-! ## multi-channel (2-D) streams: a time column is a `Fin c → α`

The chunk-invariance theorems above hold for any column type, hence for `c`-channel columns.  What is specific to 2-D
— the per-channel filter state of `decimate` / `iirfilter`, per-channel block values, the matrix shapes of
`mc_reference` — is proved here: channel `r` of the 2-D output is the **1-D whole-signal definition applied to
channel `r`** of the input (channel independence), resp. the matrix–vector product of every column. -/

/-- `decimate(q)` on `c` channels.  `lfilter(axis=-1)` filters the rows independently (`m.channels c`, one state per
row; on an empty chunk it may report any state) and the stage starts every channel in the same state `zi`
(`zf[np.newaxis]`).  For every chunking (empty chunks included): never raises, blocks contiguous from the input `s0`
at rate `fs/q` with labels and metadata kept, and **channel `r` of the output is the 1-D definition on channel `r`**:
filter row `r` of the whole signal from `zi`, keep every `q`-th sample of the complete multiples of `q`. -/
theorem decimate_multichannel (m : Mealy α β S) (c : Nat)
    (lf : (Fin c → S) → List (Fin c → α) → List (Fin c → β) × (Fin c → S)) (hlf : LfilterIs lf (m.channels c))
    (zi : S) (divFs : ρ → Nat → ρ) (q : Nat) (hq : 0 < q) (ann : Ann ρ χ μ) (s : Int)
    (cs : List (List (Fin c → α))) :
    ∃ bs, outputs (runStage (decimateStep lf (fun _ => zi) divFs q) none (stream ann s cs)) = .ok bs
      ∧ Contig 1 s bs ∧ (∀ b ∈ bs, b.ann = { ann with fs := divFs ann.fs q })
      ∧ ∀ r : Fin c, (outData bs).map (· r)
          = stride q ((m.run zi (cs.flatten.map (· r))).1.take ((cs.flatten.map (· r)).length / q * q)) := by
  obtain ⟨bs, h1, h2⟩ := decimate_chunk_invariant (m.channels c) lf hlf (fun _ => zi) divFs q hq ann s cs
  refine ⟨bs, h1, h2.contig, h2.ann, ?_⟩
  intro r
  rw [h2.data, ← stride_map, List.map_take, (Mealy.channels_run m c r cs.flatten (fun _ => zi)).1, List.length_map]

/-- `iirfilter` on `c` channels: every channel starts in its own state `init (first sample of that channel)`
(`zi * y[..., :1]`); channel `r` of the output is the 1-D filter run over channel `r` of the whole signal -/
theorem iirfilter_multichannel (m : Mealy α β S) (c : Nat)
    (lf : (Fin c → S) → List (Fin c → α) → List (Fin c → β) × (Fin c → S)) (hlf : LfilterIs lf (m.channels c))
    (init : α → S) (ann : Ann ρ χ μ) (s : Int) (x0 : Fin c → α) (c0 : List (Fin c → α))
    (cs : List (List (Fin c → α))) :
    ∃ bs, outputs (runStage (iirStep lf (fun col r => init (col r))) none (stream ann s ((x0 :: c0) :: cs))) = .ok bs
      ∧ Contig 1 s bs ∧ (∀ b ∈ bs, b.ann = ann)
      ∧ ∀ r : Fin c, (outData bs).map (· r)
          = (m.run (init (x0 r)) (((x0 :: c0) :: cs).flatten.map (· r))).1 := by
  obtain ⟨bs, h1, h2⟩ := iirfilter_chunk_invariant (m.channels c) lf hlf (fun col r => init (col r)) ann s x0 c0 cs
  refine ⟨bs, h1, h2.contig, h2.ann, ?_⟩
  intro r
  rw [h2.data, (Mealy.channels_run m c r _ _).1]

/-- the selecting stages on `c` channels (`blocked`, `downsample` (2-D flag set), `discard`): channel `r` of the
concatenated output is the 1-D whole-signal definition on channel `r` of the input -/
theorem selection_stages_multichannel (c : Nat) (divFs : ρ → Nat → ρ) (p : Nat) (hp : 0 < p) (ann : Ann ρ χ μ) (s : Int)
    (cs : List (List (Fin c → α))) :
    (∃ bs, outputs (runStage (blockedStep p) {} (stream ann s cs)) = .ok bs ∧ Contig 1 s bs ∧ (∀ b ∈ bs, b.ann = ann)
      ∧ ∀ r : Fin c, (outData bs).map (· r)
          = (cs.flatten.map (· r)).take ((cs.flatten.map (· r)).length / p * p))
    ∧ (∃ bs, outputs (runStage (downsampleStep divFs true p) {} (stream ann s cs)) = .ok bs ∧ Contig 1 s bs
      ∧ (∀ b ∈ bs, b.ann = { ann with fs := divFs ann.fs p })
      ∧ ∀ r : Fin c, (outData bs).map (· r)
          = stride p ((cs.flatten.map (· r)).take ((cs.flatten.map (· r)).length / p * p)))
    ∧ (∃ bs, outputs (runStage discardStep p (stream ann s cs)) = .ok bs ∧ Contig 1 (s + p) bs ∧ (∀ b ∈ bs, b.ann = ann)
      ∧ ∀ r : Fin c, (outData bs).map (· r) = (cs.flatten.map (· r)).drop p) := by
  refine ⟨?_, ?_, ?_⟩
  · obtain ⟨bs, h1, h2, _⟩ := blocked_chunk_invariant p hp ann s cs
    exact ⟨bs, h1, h2.contig, h2.ann, fun r => by rw [h2.data, List.map_take, List.length_map]⟩
  · obtain ⟨bs, h1, h2⟩ := downsample_chunk_invariant divFs true p hp ann s cs
    exact ⟨bs, h1, h2.contig, h2.ann, fun r => by rw [h2.data, ← stride_map, List.map_take, List.length_map]⟩
  · obtain ⟨bs, h1, h2⟩ := discard_chunk_invariant p ann s cs
    exact ⟨bs, h1, h2.contig, h2.ann, fun r => by rw [h2.data, List.map_drop]⟩

/-- `rms(n)` on `c` channels: the block value is computed per channel (`np.mean(d ** 2, axis=-1) ** 0.5` keeps the
channel axis); channel `r` of the output is the 1-D block function over the consecutive complete `n`-blocks of
channel `r`.  `derivative` with a scalar `initial_state` (broadcast to every channel) likewise: `np.diff` of channel `r`. -/
theorem rms_derivative_multichannel (c : Nat) (blockFn : List α → β) (divFs : ρ → Nat → ρ) (n : Nat) (hn : 0 < n)
    (init : α) (d : α → α → β) (ann : Ann ρ χ μ) (s : Int) (cs : List (List (Fin c → α))) :
    (∃ bs, outputs (runStage (rmsStep (fun blk r => blockFn (blk.map (· r))) divFs n) {} (stream ann s cs)) = .ok bs
      ∧ Contig n s bs ∧ (∀ b ∈ bs, b.ann = { ann with fs := divFs ann.fs n })
      ∧ ∀ r : Fin c, (outData bs).map (· r) = (blocksOf n (cs.flatten.map (· r))).map blockFn)
    ∧ (∃ bs, outputs (runStage (derivativeStep (fun _ => init) (fun p x r => d (p r) (x r))) none (stream ann s cs)) = .ok bs
      ∧ Contig 1 s bs ∧ (∀ b ∈ bs, b.ann = ann)
      ∧ ∀ r : Fin c, (outData bs).map (· r) = diffs d (init :: cs.flatten.map (· r))) := by
  refine ⟨?_, ?_⟩
  · obtain ⟨bs, h1, h2⟩ := rms_chunk_invariant (fun (blk : List (Fin c → α)) r => blockFn (blk.map (· r))) divFs n hn ann s cs
    refine ⟨bs, h1, h2.contig, h2.ann, fun r => ?_⟩
    rw [h2.data, blocksOf_map, List.map_map, List.map_map]
    rfl
  · obtain ⟨bs, h1, h2⟩ := derivative_chunk_invariant (fun (_ : Fin c) => init) (fun p x r => d (p r) (x r)) ann s cs
    refine ⟨bs, h1, h2.contig, h2.ann, fun r => ?_⟩
    rw [h2.data]
    exact diffs_map_proj d r (fun (_ : Fin c) => init) cs.flatten

/-- `matrix @ column` for a `c' × c` matrix -/
def matVec {R : Type} [Add R] [Mul R] [Zero R] {c c' : Nat} (M : Fin c' → Fin c → R) (col : Fin c → R) : Fin c' → R :=
  fun i => (List.finRange c).foldl (fun acc j => acc + M i j * col j) 0

/-- `mc_reference(matrix)` with the shapes spelled out: a `c' × c` matrix, `c`-channel input, `c'`-channel output.
`matrix @ data` on a `c × n` chunk is the matrix–vector product of every time column, so for every chunking the output
has as many columns as the input and entry `(i, k)` of the concatenated output is `Σ_j matrix[i, j] · input[j, k]` of
the whole input; `s0`, rate and metadata are those of the input (`__array_finalize__` also copies the `c` channel
labels — meaningful for a square matrix, as in the harness) -/
theorem mc_reference_multichannel {R : Type} [Add R] [Mul R] [Zero R] {c c' : Nat} (M : Fin c' → Fin c → R)
    (ann : Ann ρ χ μ) (s : Int) (cs : List (List (Fin c → R))) :
    ∃ bs, outputs (runStage (transformStep (pointwise (matVec M))) () (stream ann s cs)) = .ok bs
      ∧ Contig 1 s bs ∧ (∀ b ∈ bs, b.ann = ann)
      ∧ (outData bs).length = cs.flatten.length
      ∧ ∀ (k : Nat) (h : k < (outData bs).length) (h' : k < cs.flatten.length) (i : Fin c'),
          (outData bs)[k] i = (List.finRange c).foldl (fun acc j => acc + M i j * cs.flatten[k] j) 0 := by
  obtain ⟨bs, h1, h2⟩ := mc_reference_chunk_invariant (matVec M) ann s cs
  refine ⟨bs, h1, h2.contig, h2.ann, by rw [h2.data, List.length_map], ?_⟩
  intro k h h' i
  have e : (outData bs)[k] = (cs.flatten.map (matVec M))[k]'(by rw [List.length_map]; exact h') := by
    congr 1
    exact h2.data
  rw [e, List.getElem_map]
  rfl

/-! ## non-vacuity: concrete streams (chunks shorter than q / block, length not divisible) -/

example : outputs (runStage (blockedStep 2) {} (stream (⟨(), (), ()⟩ : Ann Unit Unit Unit) 6 [[1], [], [2, 3, 4], [5]]))
    = .ok [⟨[1, 2], 6, ⟨(), (), ()⟩⟩, ⟨[3, 4], 8, ⟨(), (), ()⟩⟩] := by rfl

example : outputs (runStage (downsampleStep (fun (r : Nat) q => r / q) false 3) {}
      (stream (⟨900, (), ()⟩ : Ann Nat Unit Unit) 6 [[0, 1], [2, 3, 4], [5, 6]]))
    = .ok [⟨[0], 6, ⟨300, (), ()⟩⟩, ⟨[3], 7, ⟨300, (), ()⟩⟩] := by rfl

/-- running sum as a stand-in for `lfilter`: q = 3, chunks 5 + 5 (the recon counterexample of the unrepaired code) -/
example : outputs (runStage (decimateStep (⟨fun s a => (s + a, s + a)⟩ : Mealy Nat Nat Nat).run 0 (fun (r : Nat) q => r / q) 3) none
      (stream (⟨900, (), ()⟩ : Ann Nat Unit Unit) 0 [[1, 1, 1, 1, 1], [1, 1, 1, 1, 1]]))
    = .ok [⟨[1], 0, ⟨300, (), ()⟩⟩, ⟨[4, 7], 1, ⟨300, (), ()⟩⟩] := by rfl

example : outputs (runStage discardStep 3 (stream (⟨(), (), ()⟩ : Ann Unit Unit Unit) 0 [[1, 2], [3, 4], [5]]))
    = .ok [⟨[4], 3, ⟨(), (), ()⟩⟩, ⟨[5], 4, ⟨(), (), ()⟩⟩] := by rfl

example : outputs (runStage (rmsStep List.sum (fun (r : Nat) q => r / q) 2) {}
      (stream (⟨1000, (), ()⟩ : Ann Nat Unit Unit) 4 [[1], [2, 3], [4, 5]]))
    = .ok [⟨[3], 4, ⟨500, (), ()⟩⟩, ⟨[7], 6, ⟨500, (), ()⟩⟩] := by rfl

example : outputs (runStage (derivativeStep 0 (fun (p c : Int) => c - p)) none
      (stream (⟨(), (), ()⟩ : Ann Unit Unit Unit) 5 [[1, 4], [], [9]]))
    = .ok [⟨[1, 3], 5, ⟨(), (), ()⟩⟩, ⟨[], 7, ⟨(), (), ()⟩⟩, ⟨[5], 7, ⟨(), (), ()⟩⟩] := by rfl

example : outputs (runStage (iirStep (⟨fun s a => (s + a, s + a)⟩ : Mealy Nat Nat Nat).run (fun x0 => 10 * x0)) none
      (stream (⟨(), (), ()⟩ : Ann Unit Unit Unit) 0 [[1, 2], [3]]))
    = .ok [⟨[11, 13], 0, ⟨(), (), ()⟩⟩, ⟨[16], 2, ⟨(), (), ()⟩⟩] := by rfl

/-- a kernel like SciPy's: running sum on non-empty input, final state 99 ("garbage") on empty input;
with the guard an empty chunk in the middle is harmless (iirfilter, and decimate q = 2) -/
example : LfilterIs (fun (z : Nat) (x : List Nat) => if x = [] then ([], 99) else
    (⟨fun s a => (s + a, s + a)⟩ : Mealy Nat Nat Nat).run z x) ⟨fun s a => (s + a, s + a)⟩ :=
  ⟨fun z x hx => by simp [hx], fun z => by simp⟩

example : outputs (runStage (iirStep (fun (z : Nat) (x : List Nat) => if x = [] then ([], 99) else
      (⟨fun s a => (s + a, s + a)⟩ : Mealy Nat Nat Nat).run z x) (fun x0 => 10 * x0)) none
      (stream (⟨(), (), ()⟩ : Ann Unit Unit Unit) 0 [[1, 2], [], [3]]))
    = .ok [⟨[11, 13], 0, ⟨(), (), ()⟩⟩, ⟨[], 2, ⟨(), (), ()⟩⟩, ⟨[16], 2, ⟨(), (), ()⟩⟩] := by rfl

example : outputs (runStage (decimateStep (fun (z : Nat) (x : List Nat) => if x = [] then ([], 99) else
      (⟨fun s a => (s + a, s + a)⟩ : Mealy Nat Nat Nat).run z x) 0 (fun (r : Nat) q => r / q) 2) none
      (stream (⟨900, (), ()⟩ : Ann Nat Unit Unit) 0 [[], [1, 1, 1], [], [1]]))
    = .ok [⟨[1], 0, ⟨450, (), ()⟩⟩, ⟨[3], 1, ⟨450, (), ()⟩⟩] := by rfl

example : outputs (runStage (autoThStep (fun l => l.sum) (fun th (x : Nat) => decide (th ≤ x)) (fun th m => th :: m) 3) .first
      (stream (⟨(), (), ([] : List Nat)⟩ : Ann Unit Unit (List Nat)) 0 [[1, 2], [0, 9], [4]]))
    = .ok [⟨[false, false, false, true], 0, ⟨(), (), [3]⟩⟩, ⟨[true], 4, ⟨(), (), [3]⟩⟩] := by rfl

/-- block_size 20, block_step 20; events at 3, 4, 25 in [0,30), then [30,100): rates 2,1,0,0 (the recon run) -/
example : outputs (runStage (eventRateStep (fun (r : Nat) q => r / q) () () 20 20) none
      [⟨[3, 4, 25], 0, 30, 1000⟩, ⟨[], 30, 100, 1000⟩])
    = .ok [⟨[2, 1, 0, 0], 20, ⟨50, (), ()⟩⟩] := by rfl

/-- a well-formed stream in three objects: events listed out of order, an empty span, overlapping windows
(size 4, step 2); the whole-stream value is the same as for the two-object chunking with another order -/
example : WFEvents (1000 : Nat) 5 [⟨[9, 7, 6, 9], 5, 10, 1000⟩, ⟨[], 10, 10, 1000⟩, ⟨[12], 10, 16, 1000⟩] := by
  simp [WFEvents]

example : outputs (runStage (eventRateStep (fun (r : Nat) q => r / q) () () 4 2) none
      [⟨[9, 7, 6, 9], 5, 10, 1000⟩, ⟨[], 10, 10, 1000⟩, ⟨[12], 10, 16, 1000⟩])
    = .ok [⟨[2], 14, ⟨500, (), ()⟩⟩, ⟨[3, 3, 1], 16, ⟨500, (), ()⟩⟩] := by rfl

example : outputs (runStage (eventRateStep (fun (r : Nat) q => r / q) () () 4 2) none
      [⟨[6], 5, 7, 1000⟩, ⟨[9, 12, 9, 7], 7, 16, 1000⟩])
    = .ok [⟨[2, 3, 3, 1], 14, ⟨500, (), ()⟩⟩] := by rfl

example : rateSpec 4 2 5 16 [9, 7, 6, 9, 12] = [2, 3, 3, 1] := by decide

example : Contig 2 20 [(⟨[2, 1, 0, 0], 20, ⟨(), (), ()⟩⟩ : PD Nat Unit Unit Unit), ⟨[5], 28, ⟨(), (), ()⟩⟩] :=
  ⟨rfl, rfl, trivial⟩

/-- restart: `blocked(3)` holds 2 buffered samples (`n = 2`) when the signal arrives; the code keeps `n = 2`, the
next stream (own s0 = 100, chunks 1 + 3) still comes out as a fresh stage would emit it -/
example : outputs (runStage (blockedStepE 3) {} (restartInput
      (⟨⟨(), (), ()⟩, 6, [[1, 2, 3, 4], [5]]⟩ : Seg Nat Unit Unit Unit) [⟨⟨(), (), ()⟩, 100, [[7], [8, 9, 10]]⟩]))
    = .ok [.data ⟨[1, 2, 3], 6, ⟨(), (), ()⟩⟩, .restart, .data ⟨[7, 8, 9], 100, ⟨(), (), ()⟩⟩] := by rfl

example : outputs (runStage (discardStepE 2) 2 (restartInput
      (⟨⟨(), (), ()⟩, 0, [[1], [2, 3]]⟩ : Seg Nat Unit Unit Unit) [⟨⟨(), (), ()⟩, 50, [[7, 8, 9]]⟩, ⟨⟨(), (), ()⟩, 9, [[4]]⟩]))
    = .ok [.data ⟨[3], 2, ⟨(), (), ()⟩⟩, .restart, .data ⟨[9], 52, ⟨(), (), ()⟩⟩, .restart] := by rfl

/-- rms(2) on a stream starting at 2·2: numerators 4, 6 ↦ true s0 2, 3 -/
example : (outputs (runStage (rmsStep List.sum (fun (r : Nat) q => r / q) 2) {}
      (stream (⟨1000, (), ()⟩ : Ann Nat Unit Unit) (2 * 2) [[1], [2, 3], [4, 5]]))).toOption.map (List.map (PD.divS0 2))
    = some [⟨[3], 2, ⟨500, (), ()⟩⟩, ⟨[7], 3, ⟨500, (), ()⟩⟩] := by rfl

/-- two 2-channel blocks (columns as functions) through the C11 `concat`: row-major `2 × 3` result -/
example : PData.concat ([(⟨[fun i => 1 + 9 * i.val, fun i => 2 + 18 * i.val], 5, ⟨1000, [some "a", none], 0⟩⟩ :
        PD (Fin 2 → Nat) Rat _ _),
      ⟨[fun i => 3 + 27 * i.val], 7, ⟨1000, [some "a", none], 0⟩⟩].map toPData2) .time
    = .ok ⟨[2, 3], [1, 2, 3, 10, 20, 30], 5, 1000, .many [some "a", none], .one 0⟩ := by rfl

/-- the 2-channel product of the running-sum machine meets the kernel hypothesis of the multi-channel theorems; a
re-referencing matrix `[[1, -1], [-1, 1]]` applied to the column `(5, 3)` -/
example : LfilterIs ((⟨fun s a => (s + a, s + a)⟩ : Mealy Nat Nat Nat).channels 2).run
    ((⟨fun s a => (s + a, s + a)⟩ : Mealy Nat Nat Nat).channels 2) :=
  ⟨fun _ _ _ => rfl, fun _ => rfl⟩

example : (((⟨fun s a => (s + a, s + a)⟩ : Mealy Nat Nat Nat).channels 2).run (fun _ => 0)
    [fun r => 1 + r.val, fun r => 10 + r.val]).1.map (· 1) = [2, 13] := by decide

example : matVec (fun (i j : Fin 2) => if i = j then (1 : Int) else -1) (fun j => if j = 0 then 5 else 3) 0 = 2
    ∧ matVec (fun (i j : Fin 2) => if i = j then (1 : Int) else -1) (fun j => if j = 0 then 5 else 3) 1 = -2 := by
  decide

end Psi.Stages
