import PsiModel.Edges
import PsiProofs.Helper.C13_Tiling
import PsiProofs.Helper.C13_Clean
/-!
C13 — edge detection reports every clean transition once, at its exact sample.

`run m det (init m i0 s0in) cs` is the code-faithful model of feeding the chunks `cs` to
`pipeline.edges(min_samples = m, initial_state = i0, detect = det)` whose first chunk starts at
absolute sample `s0in`.  `edgesOf i0 s0in x` is the specification: all positions of `x = cs.flatten`
whose value differs from the predecessor (the first one is compared with `i0`), with absolute sample
numbers.  `Clean m i0 x`: any two transitions are more than `m` samples apart.
The chunking `cs`, `i0`, `det`, `s0in` and `m ≥ 1` are universally quantified everywhere.
-/
set_option linter.unusedSimpArgs false
namespace Psi.Edges
open Psi.Epochs

/-- **Main theorem.** On a clean stream the detector never raises and the block emitted for chunk
`j` is exactly `specBlocks`: span `[s0_j, s0_j + n_j)` with `s0_0 = s0in - m`, and events = the
transitions of the stream selected by `sel`: rising at `p` iff `s0_j < p ≤ s0_j + n_j`, falling at
`p` iff `s0_j + m ≤ p < s0_j + m + n_j` (and the detect mode wants the kind).  The final state
carries the last `m` samples. -/
theorem run_eq_spec (m : Nat) (det : Detect) (i0 : Bool) (s0in : Int) (cs : List (List Bool))
    (hm : 1 ≤ m) (hc : Clean m i0 cs.flatten) :
    run m det (init m i0 s0in) cs
      = .ok (⟨(List.replicate m i0 ++ cs.flatten).drop cs.flatten.length,
              s0in - m + cs.flatten.length⟩,
             specBlocks det m (edgesOf i0 s0in cs.flatten) (s0in - m) cs) := by
  have h := run_spec_aux m det i0 (s0in - m) hm cs []
  simp only [List.append_nil, List.nil_append, List.length_nil, List.drop_zero] at h
  rw [edges_pad] at h
  have := h (clean_at hc s0in)
  simpa [init] using this

/-- One block per chunk and the declared spans tile the timeline without gap or overlap, starting
at `s0in - m` — for every input stream whatsoever (no precondition), every chunking. -/
theorem one_block_per_chunk_blocks_tile (m : Nat) (det : Detect) (i0 : Bool) (s0in : Int)
    (cs : List (List Bool)) :
    ∃ st' bs, run m det (init m i0 s0in) cs = .ok (st', bs) ∧
      bs.length = cs.length ∧
      bs.map (fun b => (b.start, b.stop)) = spans (s0in - m) cs ∧
      adjacent (s0in - m) bs = true := by
  obtain ⟨st', bs, h1, h2, _⟩ := run_spans m det cs (init m i0 s0in)
  refine ⟨st', bs, h1, ?_, h2, adjacent_of_spans cs _ bs h2⟩
  have := congrArg List.length h2
  simp only [List.length_map] at this
  rw [this, spans_length]

/-- `rising_once` / `falling_once` / `exact_sample`: an event is in the block `b` of a chunk iff it
is a transition of the stream (same kind, same absolute sample) wanted by the detect mode and
* rising: `b.start < p ≤ b.stop`, i.e. input sample `p + m - 1` belongs to that chunk;
* falling: `b.start + m ≤ p < b.stop + m`, i.e. input sample `p` itself belongs to that chunk
(the chunk's input samples are `[b.start + m, b.stop + m)`).  These ranges tile ℤ. -/
theorem block_events_iff (m : Nat) (det : Detect) (i0 : Bool) (s0in : Int) (cs : List (List Bool))
    (hm : 1 ≤ m) (hc : Clean m i0 cs.flatten) :
    ∃ st' bs, run m det (init m i0 s0in) cs = .ok (st', bs) ∧
    ∀ b ∈ bs, ∀ ev : Event, ev ∈ b.events ↔
      ev ∈ edgesOf i0 s0in cs.flatten ∧ det.wants ev.kind = true ∧
      ((ev.kind = .rising ∧ b.start < ev.sample ∧ ev.sample ≤ b.stop) ∨
       (ev.kind = .falling ∧ b.start + m ≤ ev.sample ∧ ev.sample < b.stop + m)) := by
  refine ⟨_, _, run_eq_spec m det i0 s0in cs hm hc, ?_⟩
  intro b hb ev
  obtain ⟨n, h1, h2⟩ := specBlocks_mem det m _ cs _ b hb
  rw [h2, List.mem_filter, sel_iff, h1]
  constructor
  · rintro ⟨g1, g2, g3⟩
    refine ⟨g1, g2, ?_⟩
    rcases g3 with ⟨k, a1, a2⟩ | ⟨k, a1, a2⟩
    · exact Or.inl ⟨k, a1, a2⟩
    · exact Or.inr ⟨k, a1, by omega⟩
  · rintro ⟨g1, g2, g3⟩
    refine ⟨g1, g2, ?_⟩
    rcases g3 with ⟨k, a1, a2⟩ | ⟨k, a1, a2⟩
    · exact Or.inl ⟨k, a1, a2⟩
    · exact Or.inr ⟨k, a1, by omega⟩

/-- `exactly_once`, `in_order`: the concatenation of all emitted blocks IS the list of the stream's
transitions (in stream order, each once) that the detect mode wants, restricted to those already
decidable: every falling edge, and every rising edge followed by at least `m - 1` further samples
(`p + m ≤ s0in + N`, `N` = samples received). -/
theorem all_events (m : Nat) (det : Detect) (i0 : Bool) (s0in : Int) (cs : List (List Bool))
    (hm : 1 ≤ m) (hc : Clean m i0 cs.flatten) :
    ∃ st' bs, run m det (init m i0 s0in) cs = .ok (st', bs) ∧
    bs.flatMap (·.events) = (edgesOf i0 s0in cs.flatten).filter (fun ev =>
      det.wants ev.kind &&
        (ev.kind != .rising || decide (ev.sample + m ≤ s0in + cs.flatten.length))) := by
  refine ⟨_, _, run_eq_spec m det i0 s0in cs hm hc, ?_⟩
  rw [specBlocks_flat det m hm _ (clean_at hc s0in), total_eq_length_flatten]
  apply List.filter_congr
  intro ev hev
  have hb := edgesOf_bounds _ _ _ ev hev
  generalize cs.flatten.length = N at hb ⊢
  rw [Bool.eq_iff_iff, sel_iff]
  cases hk : ev.kind <;> simp [hk] <;> intros <;> omega

/-- transitions of a clean stream have strictly increasing, hence distinct, sample numbers -/
theorem edges_strictly_increasing (m : Nat) (i0 : Bool) (s0in : Int) (x : List Bool)
    (hc : Clean m i0 x) : (edgesOf i0 s0in x).Pairwise (fun a b => a.sample < b.sample) := by
  refine List.Pairwise.imp ?_ (clean_at hc s0in)
  intro a b h; simp only [Gap] at h; omega

/-- `in_order` / no duplicate: over all blocks together the sample numbers strictly increase. -/
theorem in_order (m : Nat) (det : Detect) (i0 : Bool) (s0in : Int) (cs : List (List Bool))
    (hm : 1 ≤ m) (hc : Clean m i0 cs.flatten) :
    ∃ st' bs, run m det (init m i0 s0in) cs = .ok (st', bs) ∧
    (bs.flatMap (·.events)).Pairwise (fun a b => a.sample < b.sample) := by
  obtain ⟨st', bs, h1, h2⟩ := all_events m det i0 s0in cs hm hc
  refine ⟨st', bs, h1, ?_⟩
  rw [h2]
  exact (edges_strictly_increasing m i0 s0in _ hc).filter _

/-- `lag_le_m`: once the chunks `cs1` have been received, every wanted transition at `p` with
`p + m ≤ s0in + (samples received)` — i.e. followed by at least `m - 1` further samples — has been
reported in one of the blocks emitted so far, whatever comes later (`cs2`). -/
theorem lag_le_m (m : Nat) (det : Detect) (i0 : Bool) (s0in : Int) (cs1 cs2 : List (List Bool))
    (hm : 1 ≤ m) (hc : Clean m i0 (cs1 ++ cs2).flatten) :
    ∃ st' bs, run m det (init m i0 s0in) (cs1 ++ cs2) = .ok (st', bs) ∧
    ∀ ev ∈ edgesOf i0 s0in (cs1 ++ cs2).flatten, det.wants ev.kind = true →
      ev.sample + m ≤ s0in + cs1.flatten.length →
      ev ∈ (bs.take cs1.length).flatMap (·.events) := by
  refine ⟨_, _, run_eq_spec m det i0 s0in _ hm hc, ?_⟩
  intro ev hev hw hlag
  rw [specBlocks_append, List.take_left' (specBlocks_length det m _ cs1 _),
    specBlocks_flat det m hm _ (clean_at hc s0in), total_eq_length_flatten,
    List.mem_filter, sel_iff]
  have hb := edgesOf_bounds _ _ _ ev hev
  refine ⟨hev, hw, ?_⟩
  cases hk : ev.kind
  · left; refine ⟨rfl, ?_, ?_⟩ <;> omega
  · right; refine ⟨rfl, ?_, ?_⟩ <;> omega

/-- causality: a block never contains an event at a sample not yet received
(`b.stop + m` = `s0in` + number of samples received when `b` is emitted). -/
theorem causal (m : Nat) (det : Detect) (i0 : Bool) (s0in : Int) (cs : List (List Bool))
    (hm : 1 ≤ m) (hc : Clean m i0 cs.flatten) :
    ∃ st' bs, run m det (init m i0 s0in) cs = .ok (st', bs) ∧
    ∀ b ∈ bs, ∀ ev ∈ b.events, ev.sample < b.stop + m := by
  obtain ⟨st', bs, h1, h2⟩ := block_events_iff m det i0 s0in cs hm hc
  refine ⟨st', bs, h1, ?_⟩
  intro b hb ev hev
  obtain ⟨_, _, h | h⟩ := (h2 b hb ev).mp hev <;> omega

/-! ### `Events` container -/

/-- `get_range_samples` succeeds exactly when the range lies inside the block's span, and then
returns the block's events inside `[s, e)` — same order, nothing added, span `[s, e)`. -/
theorem getRangeSamples_spec (b : Block) (s e : Int) :
    (b.start ≤ s ∧ e ≤ b.stop →
      getRangeSamples b s e = .ok ⟨b.events.filter
        (fun ev => decide (s ≤ ev.sample) && decide (ev.sample < e)), s, e⟩) ∧
    (¬ (b.start ≤ s ∧ e ≤ b.stop) → getRangeSamples b s e = .error .valueError) := by
  unfold getRangeSamples
  constructor
  · intro ⟨h1, h2⟩
    have : ¬ (s < b.start ∨ e > b.stop) := by omega
    simp [this]
  · intro h
    have : s < b.start ∨ e > b.stop := by omega
    simp [this]

theorem getRangeSamples_mem (b r : Block) (s e : Int) (h : getRangeSamples b s e = .ok r) :
    (∀ ev, ev ∈ r.events ↔ ev ∈ b.events ∧ s ≤ ev.sample ∧ ev.sample < e) ∧
    r.events.Sublist b.events ∧ r.start = s ∧ r.stop = e := by
  unfold getRangeSamples at h
  split at h
  · cases h
  · cases h
    refine ⟨?_, List.filter_sublist, rfl, rfl⟩
    intro ev; simp [List.mem_filter]

/-- `get_latest_samples(lb, ub)` is the range query shifted by the block's end -/
theorem getLatestSamples_spec (b : Block) (lb ub : Int) :
    getLatestSamples b lb ub = getRangeSamples b (b.stop + lb) (b.stop + ub) := by
  unfold getLatestSamples
  rw [Int.add_comm lb, Int.add_comm ub]

/-- `combine_events` accepts a non-empty list iff each block starts where the previous one ended;
the result is the concatenation of the events (nothing lost, nothing duplicated, order kept) over
the union span. -/
theorem combineEvents_spec (b : Block) (bs : List Block) :
    (adjacent b.stop bs = true →
      combineEvents (b :: bs) = .ok ⟨(b :: bs).flatMap (·.events), b.start, lastStop b bs⟩) ∧
    (adjacent b.stop bs = false → combineEvents (b :: bs) = .error .valueError) := by
  constructor <;> intro h <;> simp [combineEvents, h]

/-- a gap or an overlap between two consecutive blocks anywhere in the list is rejected -/
theorem combineEvents_rejects (b1 b2 : Block) (pre post : List Block) (h : b1.stop ≠ b2.start) :
    combineEvents (pre ++ b1 :: b2 :: post) = .error .valueError := by
  cases pre with
  | nil => simp [combineEvents, adjacent, Ne.symm h]
  | cons p pre => simp [combineEvents, adjacent_false_of_gap b1 b2 post h pre]

/-- merging all the blocks a detector has emitted gives one block over the whole span whose events
are the full list of `all_events` — no loss, no duplicate. -/
theorem combine_detector_blocks (m : Nat) (det : Detect) (i0 : Bool) (s0in : Int)
    (c : List Bool) (cs : List (List Bool)) (hm : 1 ≤ m) (hc : Clean m i0 (c :: cs).flatten) :
    ∃ st' bs r, run m det (init m i0 s0in) (c :: cs) = .ok (st', bs) ∧
      combineEvents bs = .ok r ∧ r.start = s0in - m ∧
      r.events = (edgesOf i0 s0in (c :: cs).flatten).filter
        (sel det m (s0in - m) (c :: cs).flatten.length) := by
  obtain ⟨st', bs, h1, _, h3, h4⟩ := one_block_per_chunk_blocks_tile m det i0 s0in (c :: cs)
  have h5 := run_eq_spec m det i0 s0in (c :: cs) hm hc
  rw [h1] at h5
  have hbs : bs = specBlocks det m (edgesOf i0 s0in (c :: cs).flatten) (s0in - m) (c :: cs) := by
    injection h5 with h5; injection h5
  cases hb : bs with
  | nil => rw [hb] at hbs; simp [specBlocks] at hbs
  | cons b bs' =>
    rw [hb] at h4 h3
    simp only [List.map_cons, spans, List.cons.injEq, Prod.mk.injEq] at h3
    simp only [adjacent, h3.1.1, bne_self_eq_false, Bool.false_eq_true, if_false] at h4
    refine ⟨st', b :: bs', _, by rw [← hb]; exact h1, ((combineEvents_spec b bs').1 h4), h3.1.1, ?_⟩
    simp only
    rw [← hb, hbs, specBlocks_flat det m hm _ (clean_at hc s0in), total_eq_length_flatten]

/-! ### the hypothesis covers the property's quantifier -/

/-- every stream of the property's quantifier — alternating runs (`ofRuns v ls`), each run non-empty,
all but possibly the last longer than `m`; any first value `v`, any initial state `i0` — satisfies
`Clean`.  (`Clean` is weaker: it does not constrain the first run when it continues the initial
state, so the theorems above hold for more streams than the property demands.) -/
theorem clean_ofRuns (m : Nat) (i0 v : Bool) (ls : List Nat)
    (h1 : ∀ l ∈ ls, 1 ≤ l) (h2 : ∀ l ∈ ls.dropLast, m < l) : Clean m i0 (ofRuns v ls) :=
  gap_ofRuns m ls v i0 0 h1 h2

example : ofRuns false [4, 3, 5] =
    [false, false, false, false, true, true, true, false, false, false, false, false] := rfl

/-! ### non-vacuity -/

-- a stream with runs 4,3,5 (m = 2, initial state low, first s0 = 100) is clean
example : Clean 2 false [false, false, false, false, true, true, true, false, false, false, false, false] := by
  simp [Clean, edgesOf, Gap]

-- chunk boundaries inside the debounce window of both edges; events outside their block's span
example : run 2 .both (init 2 false 100)
    [[false, false, false, false, true], [true], [true, false], [false, false, false, false]]
    = .ok (⟨[false, false], 110⟩,
        [⟨[], 98, 103⟩, ⟨[⟨.rising, 104⟩], 103, 104⟩, ⟨[⟨.falling, 107⟩], 104, 106⟩, ⟨[], 106, 110⟩]) := by
  rfl

end Psi.Edges
