import PsiModel.Edges
namespace Psi.Edges
theorem placeholder : edgesOf false 0 [] = [] := rfl
end Psi.Edges
