import PsiProofs.Helper.C08_Lemmas
/-!
# C08 — stimuli have the requested calibrated level; level and polarity scale exactly

Every stimulus of `psiaudio/stim.py` is modelled (`PsiModel/DbField.lean`) as
`polarity · sf(level) · proto(params, k)`, optionally followed by `lfilter` from an initial state `z0`.

* level linearity: over ℝ (round-off not bounded);
* exact polarity: over any arithmetic satisfying `SignSymm` (true of IEEE-754 round-to-nearest with
  values compared numerically) — an assumption about NumPy's arithmetic, checked bit-exactly by the harness;
* calibrated level of a whole-cycle tone: `Helper/C16_*` (DFT orthogonality) + C07, see the end of the file.
-/
namespace Psi.Db

/-! ## level linearity over ℝ -/

/-- `tone`: +d dB of level multiplies every sample by `10^(d/20)`, through any calibration. -/
theorem tone_level_linear (c : Cal ℝ) (f L d x : ℝ) (h : getSf c f L 0 = .val x) :
    ∃ x', getSf c f (L + d) 0 = .val x' ∧
      ∀ pol fs ph off j, tone pol x' fs f ph off j = (10 : ℝ) ^ (d / 20) * tone pol x fs f ph off j := by
  obtain ⟨S, hS, hx⟩ := Res.map_eq_val h
  refine ⟨(10 : ℝ) ^ (d / 20) * x, ?_, ?_⟩
  · subst hx; simp only [getSf, hS, Res.map_val, sfOf_add_level]
  · intro pol fs ph off j; simp only [tone]; ring

/-- `sam_tone`: the three components' scale factors all carry the factor `10^(d/20)`, hence every sample does. -/
theorem samTone_level_linear (g pol sfl sfc sfu eq fs fc fm phl phc phu : ℝ) (off j : ℕ) :
    samTone pol (g * sfl) (g * sfc) (g * sfu) eq fs fc fm phl phc phu off j
      = g * samTone pol sfl sfc sfu eq fs fc fm phl phc phu off j := by
  simp only [samTone]
  have e : ∀ s w : ℝ, g * s * w / eq = g * (s * w / eq) := by intro s w; ring
  rw [e, e, e, samPart_scale, samPart_scale, samPart_scale]; ring

/-- pointwise stimuli (click, chirp, band-limited click, wav): `polarity * sf * proto`. -/
theorem scaled_level_linear (g pol sf : ℝ) (proto : List ℝ) :
    scaled pol (g * sf) proto = (scaled pol sf proto).map (g * ·) := by
  simp only [scaled, List.map_map]
  apply List.map_congr_left; intro p _; simp only [Function.comp]; ring

theorem bbn_bounds_scale (g sf : ℝ) : bbnLow (g * sf) = g * bbnLow sf ∧ bbnHigh (g * sf) = g * bbnHigh sf := by
  constructor <;> simp only [bbnLow, bbnHigh] <;> ring

/-- Filtered noise (`notch_noise`, `bandlimited_noise`, `shaped_noise`, `bandlimited_fir_noise`, and
`broadband_noise` as the identity filter): if the noise bounds scale with the level **and the initial
filter state scales with it** (hypothesis `InitScales`, here: the state at the higher level is `g ·` the
state at the lower level), every returned sample is multiplied by `g = 10^(d/20)`. -/
theorem filtStim_level_linear (g polIn polOut low high b0 : ℝ) (bt atl z0 : List ℝ) (discard : ℕ) (u : List ℝ) :
    filtStim polIn polOut (g * low) (g * high) b0 bt atl (z0.map (g * ·)) discard u
      = (filtStim polIn polOut low high b0 bt atl z0 discard u).map (g * ·) := by
  have hx : (u.map fun r => polIn * uniform (g * low) (g * high) r)
      = (u.map fun r => polIn * uniform low high r).map (g * ·) := by
    rw [List.map_map]; apply List.map_congr_left; intro r _
    simp only [Function.comp, uniform_scale]; ring
  unfold filtStim
  rw [hx, lfilter_scale]
  dsimp only
  rw [← List.map_drop, List.map_map, List.map_map]
  apply List.map_congr_left; intro y _; simp only [Function.comp]; ring

/-- …in particular when the filter starts at rest (the notch filter after `C08_fix_1`). -/
theorem filtStim_level_linear_zero (g polIn polOut low high b0 : ℝ) (bt atl : List ℝ) (n discard : ℕ)
    (u : List ℝ) :
    filtStim polIn polOut (g * low) (g * high) b0 bt atl (zeroState n) discard u
      = (filtStim polIn polOut low high b0 bt atl (zeroState n) discard u).map (g * ·) := by
  have := filtStim_level_linear g polIn polOut low high b0 bt atl (zeroState n) discard u
  rwa [zeroState_scale] at this

/-! ### a state that does not scale (BandlimitedNoiseFactory as it is) -/

/-- the response of the filter to its initial state alone (zero input), as it appears among the returned samples -/
noncomputable def zeroInputResponse (polOut b0 : ℝ) (bt atl z0 : List ℝ) (discard : ℕ) (u : List ℝ) : List ℝ :=
  ((lfilter b0 bt atl z0 (u.map fun _ => (0 : ℝ))).1.drop discard).map (· * polOut)

/-- If the initial state does **not** scale with the level (it is the same `z0` at both levels — what
`BandlimitedNoiseFactory` does with `lfilter_zi`), the departure from level linearity is exactly
`(1 - g) ·` the zero-input response of `z0` that survives the discarded onset.  The harness measures that
response on the real filter designs (< 1e-12 of the quietest noise amplitude; typically 1e-80). -/
theorem filtStim_level_defect (g polIn polOut low high b0 : ℝ) (bt atl z0 : List ℝ) (discard : ℕ) (u : List ℝ) :
    filtStim polIn polOut (g * low) (g * high) b0 bt atl z0 discard u
      = ladd ((filtStim polIn polOut low high b0 bt atl z0 discard u).map (g * ·))
             ((zeroInputResponse polOut b0 bt atl z0 discard u).map ((1 - g) * ·)) := by
  have hx : (u.map fun r => polIn * uniform (g * low) (g * high) r)
      = (u.map fun r => polIn * uniform low high r).map (g * ·) := by
    rw [List.map_map]; apply List.map_congr_left; intro r _
    simp only [Function.comp, uniform_scale]; ring
  have hzero : (u.map fun _ => (0 : ℝ)) = ((u.map fun r => polIn * uniform low high r).map fun _ => (0 : ℝ)) := by
    simp [List.map_map, Function.comp_def]
  set x := u.map fun r => polIn * uniform low high r with hxdef
  have hin : x.map (g * ·) = ladd (x.map (g * ·)) ((x.map fun _ => (0 : ℝ)).map ((1 - g) * ·)) :=
    (ladd_zero_input g x).symm
  have hst : z0 = ladd (z0.map (g * ·)) (z0.map ((1 - g) * ·)) := (ladd_split g z0).symm
  unfold filtStim zeroInputResponse
  rw [hx, hzero]
  conv_lhs => rw [hin, hst]
  rw [lfilter_add _ _ _ _ _ _ _ (by simp) (by simp), lfilter_scale, lfilter_scale]
  dsimp only
  simp only [ladd, List.drop_zipWith, List.map_zipWith, List.zipWith_map_left,
    List.zipWith_map_right]
  congr 1
  funext a b
  ring

/-! ## exact polarity over a sign-symmetric arithmetic -/
section Polarity
variable {α : Type} [TrigField α] [SignSymm α]

/-- `tone(polarity=-1)` is the exact negation of `tone(polarity=+1)`, sample by sample. -/
theorem tone_polarity (sf fs f ph : α) (off j : ℕ) :
    tone (-(nat 1)) sf fs f ph off j = -(tone (nat 1) sf fs f ph off j) := by
  simp only [tone, SignSymm.neg_mul]

theorem samTone_polarity (sfl sfc sfu eq fs fc fm phl phc phu : α) (off j : ℕ) :
    samTone (-(nat 1)) sfl sfc sfu eq fs fc fm phl phc phu off j
      = -(samTone (nat 1) sfl sfc sfu eq fs fc fm phl phc phu off j) := by
  simp only [samTone, samPart_polarity, SignSymm.neg_add]

theorem scaled_polarity (sf : α) (proto : List α) :
    scaled (-(nat 1)) sf proto = (scaled (nat 1) sf proto).map (- ·) := by
  simp only [scaled, List.map_map]
  apply List.map_congr_left; intro p _; simp only [Function.comp, SignSymm.neg_mul]

/-- Polarity applied to the filter *input* (`notch_noise`, `broadband_noise`): exact negation provided the
initial state is its own negation (the zero state). -/
theorem filtStim_polarity_in (low high b0 : α) (bt atl z0 : List α) (hz : z0.map (- ·) = z0) (discard : ℕ)
    (u : List α) :
    filtStim (-(nat 1)) (nat 1) low high b0 bt atl z0 discard u
      = (filtStim (nat 1) (nat 1) low high b0 bt atl z0 discard u).map (- ·) := by
  have hx : (u.map fun r => (-(nat 1) : α) * uniform low high r)
      = (u.map fun r => (nat 1 : α) * uniform low high r).map (- ·) := by
    rw [List.map_map]; apply List.map_congr_left; intro r _
    simp only [Function.comp, SignSymm.neg_mul]
  have hl := lfilter_neg b0 bt atl z0 (u.map fun r => (nat 1 : α) * uniform low high r)
  rw [hz] at hl
  unfold filtStim
  rw [hx, hl]
  dsimp only
  rw [← List.map_drop, List.map_map, List.map_map]
  apply List.map_congr_left; intro y _; simp only [Function.comp, SignSymm.neg_mul]

theorem filtStim_polarity_in_zero (low high b0 : α) (bt atl : List α) (n discard : ℕ) (u : List α) :
    filtStim (-(nat 1)) (nat 1) low high b0 bt atl (zeroState n) discard u
      = (filtStim (nat 1) (nat 1) low high b0 bt atl (zeroState n) discard u).map (- ·) :=
  filtStim_polarity_in low high b0 bt atl (zeroState n) (zeroState_neg n) discard u

/-- Polarity applied to the filter *output* (`bandlimited_noise`, `shaped_noise`, `bandlimited_fir_noise`):
exact negation whatever the initial state. -/
theorem filtStim_polarity_out (polIn low high b0 : α) (bt atl z0 : List α) (discard : ℕ) (u : List α) :
    filtStim polIn (-(nat 1)) low high b0 bt atl z0 discard u
      = (filtStim polIn (nat 1) low high b0 bt atl z0 discard u).map (- ·) := by
  simp only [filtStim, List.map_map]
  apply List.map_congr_left; intro y _
  simp only [Function.comp, SignSymm.mul_neg]

end Polarity

/-! ## calibrated level of a tone -/

/-- **A tone requested at level `L` and frequency `f` through any calibration has RMS equal to the calibration's
scale factor for `(f, L)`, so that measuring it back through the same calibration reads `L`** (whole cycles). -/
theorem tone_calibrated_level (c : Cal ℝ) (n k : ℕ) (fs ph L sf : ℝ) (hfs : fs ≠ 0) (hk : 0 < k)
    (hkn : 2 * k < n) (h : getSf c (k * fs / n) L 0 = .val sf) :
    rms n (tone (nat 1) sf fs (k * fs / n) ph 0) = sf ∧
    getDb c (k * fs / n) (rms n (tone (nat 1) sf fs (k * fs / n) ph 0)) = .val L := by
  have hn : 0 < n := by omega
  have hpos : 0 < sf := by
    obtain ⟨S, _, hx⟩ := Res.map_eq_val h
    rw [← hx]; exact sfOf_pos _ _ _
  have hfun : tone (nat 1) sf fs (k * fs / n) ph 0 = toneSig n k sf ph := by
    funext j; exact tone_eq_toneSig n k sf fs ph hfs hn j
  have hr : rms n (tone (nat 1) sf fs (k * fs / n) ph 0) = sf := by
    rw [hfun, tone_rms n k sf ph hk hkn, abs_of_pos hpos]
  refine ⟨hr, ?_⟩
  rw [hr]
  have := getDb_getSf_C08 c (k * fs / n) L sf h
  exact this

/-! ## non-vacuity -/

example : ∃ x', getSf (Cal.fromSpl (94 : ℝ) 1 0) 1000 (60 + 20) 0 = .val x' ∧
    ∀ pol fs ph off j, tone pol x' fs 1000 ph off j
      = (10 : ℝ) ^ ((20 : ℝ) / 20) * tone pol ((10 : ℝ) ^ ((60 - (94 - db1 (1 : ℝ)) + 0) / 20)) fs 1000 ph off j :=
  tone_level_linear _ _ _ _ _ (by simp [getSf, getSens, Cal.fromSpl, sensFromDb, sfOf_real])

example : filtStim (-(nat 1)) (nat 1) (-1 : ℝ) 1 1 [0.5] [-0.9] (zeroState 1) 0 [0.25, 0.75]
    = (filtStim (nat 1) (nat 1) (-1 : ℝ) 1 1 [0.5] [-0.9] (zeroState 1) 0 [0.25, 0.75]).map (- ·) :=
  filtStim_polarity_in_zero _ _ _ _ _ _ _ _

end Psi.Db
