import PsiModel.DbField
namespace Psi.Db
theorem C08_placeholder : True := trivial
end Psi.Db
