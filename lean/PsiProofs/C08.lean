import PsiProofs.Helper.C08_Lemmas
import PsiProofs.Helper.C08_Shapes
/-!
# C08 — stimuli have the requested calibrated level; level and polarity scale exactly

Every stimulus of `psiaudio/stim.py` is modelled (`PsiModel/DbField.lean`) as
`polarity · sf(level) · proto(params, k)`, optionally followed by `lfilter` from an initial state `z0`.

* level linearity: over ℝ (round-off not bounded);
* exact polarity: over any arithmetic satisfying `SignSymm` (true of IEEE-754 round-to-nearest with
  values compared numerically) — an assumption about NumPy's arithmetic, checked bit-exactly by the harness;
* calibrated level of a whole-cycle tone: `Helper/C16_*` (DFT orthogonality) + C07, see the end of the file.
-/
namespace Psi.Db

/-! ## level linearity over ℝ -/

/-- `tone`: +d dB of level multiplies every sample by `10^(d/20)`, through any calibration. -/
theorem tone_level_linear (c : Cal ℝ) (f L d x : ℝ) (h : getSf c f L 0 = .val x) :
    ∃ x', getSf c f (L + d) 0 = .val x' ∧
      ∀ pol fs ph off j, tone pol x' fs f ph off j = (10 : ℝ) ^ (d / 20) * tone pol x fs f ph off j := by
  obtain ⟨S, hS, hx⟩ := Res.map_eq_val h
  refine ⟨(10 : ℝ) ^ (d / 20) * x, ?_, ?_⟩
  · subst hx; simp only [getSf, hS, Res.map_val, sfOf_add_level]
  · intro pol fs ph off j; simp only [tone]; ring

/-- `sam_tone`: the three components' scale factors all carry the factor `10^(d/20)`, hence every sample does. -/
theorem samTone_level_linear (g pol sfl sfc sfu eq fs fc fm phl phc phu : ℝ) (off j : ℕ) :
    samTone pol (g * sfl) (g * sfc) (g * sfu) eq fs fc fm phl phc phu off j
      = g * samTone pol sfl sfc sfu eq fs fc fm phl phc phu off j := by
  simp only [samTone]
  have e : ∀ s w : ℝ, g * s * w / eq = g * (s * w / eq) := by intro s w; ring
  rw [e, e, e, samPart_scale, samPart_scale, samPart_scale]; ring

/-- pointwise stimuli (click, chirp, band-limited click, wav): `polarity * sf * proto`. -/
theorem scaled_level_linear (g pol sf : ℝ) (proto : List ℝ) :
    scaled pol (g * sf) proto = (scaled pol sf proto).map (g * ·) := by
  simp only [scaled, List.map_map]
  apply List.map_congr_left; intro p _; simp only [Function.comp]; ring

theorem bbn_bounds_scale (g sf : ℝ) : bbnLow (g * sf) = g * bbnLow sf ∧ bbnHigh (g * sf) = g * bbnHigh sf := by
  constructor <;> simp only [bbnLow, bbnHigh] <;> ring

/-- Filtered noise (`notch_noise`, `bandlimited_noise`, `shaped_noise`, `bandlimited_fir_noise`, and
`broadband_noise` as the identity filter): if the noise bounds scale with the level **and the initial
filter state scales with it** (hypothesis `InitScales`, here: the state at the higher level is `g ·` the
state at the lower level), every returned sample is multiplied by `g = 10^(d/20)`. -/
theorem filtStim_level_linear (g polIn polOut low high b0 : ℝ) (bt atl z0 : List ℝ) (discard : ℕ) (u : List ℝ) :
    filtStim polIn polOut (g * low) (g * high) b0 bt atl (z0.map (g * ·)) discard u
      = (filtStim polIn polOut low high b0 bt atl z0 discard u).map (g * ·) := by
  have hx : (u.map fun r => polIn * uniform (g * low) (g * high) r)
      = (u.map fun r => polIn * uniform low high r).map (g * ·) := by
    rw [List.map_map]; apply List.map_congr_left; intro r _
    simp only [Function.comp, uniform_scale]; ring
  unfold filtStim
  rw [hx, lfilter_scale]
  dsimp only
  rw [← List.map_drop, List.map_map, List.map_map]
  apply List.map_congr_left; intro y _; simp only [Function.comp]; ring

/-- …in particular when the filter starts at rest (the notch filter after `C08_fix_1`). -/
theorem filtStim_level_linear_zero (g polIn polOut low high b0 : ℝ) (bt atl : List ℝ) (n discard : ℕ)
    (u : List ℝ) :
    filtStim polIn polOut (g * low) (g * high) b0 bt atl (zeroState n) discard u
      = (filtStim polIn polOut low high b0 bt atl (zeroState n) discard u).map (g * ·) := by
  have := filtStim_level_linear g polIn polOut low high b0 bt atl (zeroState n) discard u
  rwa [zeroState_scale] at this

/-! ### a state that does not scale (BandlimitedNoiseFactory as it is) -/

/-- the response of the filter to its initial state alone (zero input), as it appears among the returned samples -/
noncomputable def zeroInputResponse (polOut b0 : ℝ) (bt atl z0 : List ℝ) (discard : ℕ) (u : List ℝ) : List ℝ :=
  ((lfilter b0 bt atl z0 (u.map fun _ => (0 : ℝ))).1.drop discard).map (· * polOut)

/-- If the initial state does **not** scale with the level (it is the same `z0` at both levels — what
`BandlimitedNoiseFactory` does with `lfilter_zi`), the departure from level linearity is exactly
`(1 - g) ·` the zero-input response of `z0` that survives the discarded onset.  The harness measures that
response on the real filter designs (< 1e-12 of the quietest noise amplitude; typically 1e-80). -/
theorem filtStim_level_defect (g polIn polOut low high b0 : ℝ) (bt atl z0 : List ℝ) (discard : ℕ) (u : List ℝ) :
    filtStim polIn polOut (g * low) (g * high) b0 bt atl z0 discard u
      = ladd ((filtStim polIn polOut low high b0 bt atl z0 discard u).map (g * ·))
             ((zeroInputResponse polOut b0 bt atl z0 discard u).map ((1 - g) * ·)) := by
  have hx : (u.map fun r => polIn * uniform (g * low) (g * high) r)
      = (u.map fun r => polIn * uniform low high r).map (g * ·) := by
    rw [List.map_map]; apply List.map_congr_left; intro r _
    simp only [Function.comp, uniform_scale]; ring
  have hzero : (u.map fun _ => (0 : ℝ)) = ((u.map fun r => polIn * uniform low high r).map fun _ => (0 : ℝ)) := by
    simp [List.map_map, Function.comp_def]
  set x := u.map fun r => polIn * uniform low high r with hxdef
  have hin : x.map (g * ·) = ladd (x.map (g * ·)) ((x.map fun _ => (0 : ℝ)).map ((1 - g) * ·)) :=
    (ladd_zero_input g x).symm
  have hst : z0 = ladd (z0.map (g * ·)) (z0.map ((1 - g) * ·)) := (ladd_split g z0).symm
  unfold filtStim zeroInputResponse
  rw [hx, hzero]
  conv_lhs => rw [hin, hst]
  rw [lfilter_add _ _ _ _ _ _ _ (by simp) (by simp), lfilter_scale, lfilter_scale]
  dsimp only
  simp only [ladd, List.drop_zipWith, List.map_zipWith, List.zipWith_map_left,
    List.zipWith_map_right]
  congr 1
  funext a b
  ring

/-! ## exact polarity over a sign-symmetric arithmetic -/
section Polarity
variable {α : Type} [TrigField α] [SignSymm α]

/-- `tone(polarity=-1)` is the exact negation of `tone(polarity=+1)`, sample by sample. -/
theorem tone_polarity (sf fs f ph : α) (off j : ℕ) :
    tone (-(nat 1)) sf fs f ph off j = -(tone (nat 1) sf fs f ph off j) := by
  simp only [tone, SignSymm.neg_mul]

theorem samTone_polarity (sfl sfc sfu eq fs fc fm phl phc phu : α) (off j : ℕ) :
    samTone (-(nat 1)) sfl sfc sfu eq fs fc fm phl phc phu off j
      = -(samTone (nat 1) sfl sfc sfu eq fs fc fm phl phc phu off j) := by
  simp only [samTone, samPart_polarity, SignSymm.neg_add]

theorem scaled_polarity (sf : α) (proto : List α) :
    scaled (-(nat 1)) sf proto = (scaled (nat 1) sf proto).map (- ·) := by
  simp only [scaled, List.map_map]
  apply List.map_congr_left; intro p _; simp only [Function.comp, SignSymm.neg_mul]

/-- Polarity applied to the filter *input* (`notch_noise`, `broadband_noise`): exact negation provided the
initial state is its own negation (the zero state). -/
theorem filtStim_polarity_in (low high b0 : α) (bt atl z0 : List α) (hz : z0.map (- ·) = z0) (discard : ℕ)
    (u : List α) :
    filtStim (-(nat 1)) (nat 1) low high b0 bt atl z0 discard u
      = (filtStim (nat 1) (nat 1) low high b0 bt atl z0 discard u).map (- ·) := by
  have hx : (u.map fun r => (-(nat 1) : α) * uniform low high r)
      = (u.map fun r => (nat 1 : α) * uniform low high r).map (- ·) := by
    rw [List.map_map]; apply List.map_congr_left; intro r _
    simp only [Function.comp, SignSymm.neg_mul]
  have hl := lfilter_neg b0 bt atl z0 (u.map fun r => (nat 1 : α) * uniform low high r)
  rw [hz] at hl
  unfold filtStim
  rw [hx, hl]
  dsimp only
  rw [← List.map_drop, List.map_map, List.map_map]
  apply List.map_congr_left; intro y _; simp only [Function.comp, SignSymm.neg_mul]

theorem filtStim_polarity_in_zero (low high b0 : α) (bt atl : List α) (n discard : ℕ) (u : List α) :
    filtStim (-(nat 1)) (nat 1) low high b0 bt atl (zeroState n) discard u
      = (filtStim (nat 1) (nat 1) low high b0 bt atl (zeroState n) discard u).map (- ·) :=
  filtStim_polarity_in low high b0 bt atl (zeroState n) (zeroState_neg n) discard u

/-- Polarity applied to the filter *output* (`bandlimited_noise`, `shaped_noise`, `bandlimited_fir_noise`):
exact negation whatever the initial state. -/
theorem filtStim_polarity_out (polIn low high b0 : α) (bt atl z0 : List α) (discard : ℕ) (u : List α) :
    filtStim polIn (-(nat 1)) low high b0 bt atl z0 discard u
      = (filtStim polIn (nat 1) low high b0 bt atl z0 discard u).map (- ·) := by
  simp only [filtStim, List.map_map]
  apply List.map_congr_left; intro y _
  simp only [Function.comp, SignSymm.mul_neg]

/-- … and exact polarity of the carrier (`env * (-tok) = -(env * tok)`). -/
theorem modulate_polarity (env tok : List α) :
    modulate env (tok.map (- ·)) = (modulate env tok).map (- ·) :=
  modulate_neg env tok

/-- `Cos2EnvelopeFactory` over `ToneFactory(polarity=-1)` is the exact negation, chunk by chunk. -/
theorem rampedTone_polarity (env : List α) (sf fs f ph : α) (off : ℕ) :
    rampedTone env (-(nat 1)) sf fs f ph off = (rampedTone env (nat 1) sf fs f ph off).map (- ·) := by
  unfold rampedTone
  rw [← modulate_neg, List.map_map]
  congr 1
  apply List.map_congr_left; intro j _
  simp only [Function.comp, tone_neg]

end Polarity

/-! ## calibrated level of a tone -/

/-- **A tone requested at level `L` and frequency `f` through any calibration has RMS equal to the calibration's
scale factor for `(f, L)`, so that measuring it back through the same calibration reads `L`** (whole cycles). -/
theorem tone_calibrated_level (c : Cal ℝ) (n k : ℕ) (fs ph L sf : ℝ) (hfs : fs ≠ 0) (hk : 0 < k)
    (hkn : 2 * k < n) (h : getSf c (k * fs / n) L 0 = .val sf) :
    rms n (tone (nat 1) sf fs (k * fs / n) ph 0) = sf ∧
    getDb c (k * fs / n) (rms n (tone (nat 1) sf fs (k * fs / n) ph 0)) = .val L := by
  have hn : 0 < n := by omega
  have hpos : 0 < sf := by
    obtain ⟨S, _, hx⟩ := Res.map_eq_val h
    rw [← hx]; exact sfOf_pos _ _ _
  have hfun : tone (nat 1) sf fs (k * fs / n) ph 0 = toneSig n k sf ph := by
    funext j; exact tone_eq_toneSig n k sf fs ph hfs hn j
  have hr : rms n (tone (nat 1) sf fs (k * fs / n) ph 0) = sf := by
    rw [hfun, tone_rms n k sf ph hk hkn, abs_of_pos hpos]
  refine ⟨hr, ?_⟩
  rw [hr]
  have := getDb_getSf_C08 c (k * fs / n) L sf h
  exact this

/-! ## FIR noise: the unscaled `lfilter_zi` state is flushed before the first returned sample -/

/-- `ShapedNoiseFactory` / `BandlimitedFIRNoiseFactory` (`a = [1]`: every entry of `atl` is 0) start from
`lfilter_zi(taps)` and discard `len(zi) = ntaps - 1` samples: what they return does not depend on that state. -/
theorem filtStim_fir_state_flushed (polIn polOut low high b0 : ℝ) (bt atl z0 z0' : List ℝ)
    (ha : ∀ a ∈ atl, a = 0) (hb : bt.length = z0.length) (hal : atl.length = z0.length)
    (hlen : z0'.length = z0.length) (discard : ℕ) (hd : z0.length ≤ discard) (u : List ℝ) :
    filtStim polIn polOut low high b0 bt atl z0 discard u
      = filtStim polIn polOut low high b0 bt atl z0' discard u := by
  unfold filtStim
  rw [lfilter_fir_flush b0 bt atl ha _ z0 z0' hb hal hlen discard hd]

/-- `shaped_noise`: the level is in the noise bounds, the FIR state is the same (unscaled) at both levels —
every returned sample is still multiplied by `g = 10^(d/20)`, with **no hypothesis on the state**. -/
theorem shapedNoise_level_linear (g polIn polOut low high b0 : ℝ) (bt atl z0 : List ℝ)
    (ha : ∀ a ∈ atl, a = 0) (hb : bt.length = z0.length) (hal : atl.length = z0.length)
    (discard : ℕ) (hd : z0.length ≤ discard) (u : List ℝ) :
    filtStim polIn polOut (g * low) (g * high) b0 bt atl z0 discard u
      = (filtStim polIn polOut low high b0 bt atl z0 discard u).map (g * ·) := by
  rw [filtStim_fir_state_flushed polIn polOut (g * low) (g * high) b0 bt atl z0 (z0.map (g * ·)) ha hb hal
    (by simp) discard hd u]
  exact filtStim_level_linear g polIn polOut low high b0 bt atl z0 discard u

/-- `bandlimited_fir_noise`: the level is in the taps (`firwin2(gain = sf)`, linear in its gains — an input
cell), the noise bounds are `±√3` whatever the level, the state is `lfilter_zi` of the respective taps
(any `z0`, `z0'` here): every returned sample is multiplied by `g`. -/
theorem firNoise_level_linear (g polIn polOut low high b0 : ℝ) (bt atl z0 z0' : List ℝ)
    (ha : ∀ a ∈ atl, a = 0) (hb : bt.length = z0.length) (hal : atl.length = z0.length)
    (hlen : z0'.length = z0.length) (discard : ℕ) (hd : z0.length ≤ discard) (u : List ℝ) :
    filtStim polIn polOut low high (g * b0) (bt.map (g * ·)) atl z0' discard u
      = (filtStim polIn polOut low high b0 bt atl z0 discard u).map (g * ·) := by
  rw [filtStim_fir_state_flushed polIn polOut low high (g * b0) (bt.map (g * ·)) atl z0' (z0.map (g * ·)) ha
    (by simp [hb, hlen]) (by simp [hal, hlen]) (by simp [hlen]) discard (by omega) u]
  unfold filtStim
  rw [lfilter_scale_b]
  dsimp only
  rw [← List.map_drop, List.map_map, List.map_map]
  apply List.map_congr_left; intro y _; simp only [Function.comp]; ring

/-! ## stimuli scaled by `get_mean_sf` / `get_sf`, through any calibration -/

/-- `get_mean_sf(flb, fub, L + d) = 10^(d/20)·get_mean_sf(flb, fub, L)` for flat, interpolated and point
calibrations: the scale factor of `chirp`, `broadband_noise`, `notch_noise`, `bandlimited_noise`, `shaped_noise`
and (inside `firwin2`'s gains) `bandlimited_fir_noise`. -/
theorem meanSf_level_linear (c : Cal ℝ) (flb : ℝ) (freqs : List ℝ) (L d x : ℝ)
    (h : getMeanSf c flb freqs L 0 = .val x) :
    getMeanSf c flb freqs (L + d) 0 = .val ((10 : ℝ) ^ (d / 20) * x) := by
  rw [getMeanSf_level_map, h, Res.map_val]

/-- `chirp` (model `chirp`: `√2·sf·(w/rms w)·sin(2π·cumsum(ifreq)/fs)` from the window samples `w`) with
`sf = get_mean_sf(f0, f1, level)`: +d dB multiplies every sample by `10^(d/20)`, through any calibration. -/
theorem chirp_level_linear (c : Cal ℝ) (fs f0 f1 : ℝ) (freqs : List ℝ) (L d x : ℝ) (w : List ℝ)
    (h : getMeanSf c f0 freqs L 0 = .val x) :
    ∃ x', getMeanSf c f0 freqs (L + d) 0 = .val x' ∧
      chirp fs f0 f1 x' w = (chirp fs f0 f1 x w).map ((10 : ℝ) ^ (d / 20) * ·) :=
  ⟨_, meanSf_level_linear c f0 freqs L d x h, chirp_scale _ fs f0 f1 x w⟩

/-- the chirp's envelope `w / util.rms(w)` has RMS exactly 1 (so that `√2·sf·envelope·sin` is a unit-RMS-envelope
sinusoid of RMS amplitude `sf`; the 1 s RMS itself is `sf` only up to the sweep's cross terms — oracle, 0.5 dB). -/
theorem chirp_envelope_unit_rms (w : List ℝ) (hw : rmsL w ≠ 0) : rmsL (w.map (· / rmsL w)) = 1 :=
  rmsL_normalized w hw

/-- `ClickFactory`: `polarity * get_sf(0, level) * ones(n)` — level through the calibration. -/
theorem click_level_linear (c : Cal ℝ) (L d x pol : ℝ) (n : ℕ) (h : getSf c 0 L 0 = .val x) :
    ∃ x', getSf c 0 (L + d) 0 = .val x' ∧
      scaled pol x' (List.replicate n 1) = (scaled pol x (List.replicate n 1)).map ((10 : ℝ) ^ (d / 20) * ·) :=
  ⟨(10 : ℝ) ^ (d / 20) * x, by rw [getSf_level_map, h, Res.map_val], scaled_level_linear _ _ _ _⟩

/-! ## envelope × carrier (`Cos2EnvelopeFactory`, any `Modulator` / `GateFactory`) -/

/-- multiplying by an envelope keeps level linearity of the carrier … -/
theorem modulate_level_linear (g : ℝ) (env tok : List ℝ) :
    modulate env (tok.map (g * ·)) = (modulate env tok).map (g * ·) :=
  modulate_scale g env tok

/-- `Cos2EnvelopeFactory` over `ToneFactory`: +d dB multiplies every sample of every chunk by `g`. -/
theorem rampedTone_level_linear (g : ℝ) (env : List ℝ) (pol sf fs f ph : ℝ) (off : ℕ) :
    rampedTone env pol (g * sf) fs f ph off = (rampedTone env pol sf fs f ph off).map (g * ·) := by
  unfold rampedTone
  rw [← modulate_scale, List.map_map]
  congr 1
  apply List.map_congr_left; intro j _
  simp only [Function.comp, tone_scale]

/-! ## wav playback (`load_wav`, `WavFileFactory`) -/

/-- `waveform *= sf`: +d dB multiplies every sample by `g`, whatever the normalisation. -/
theorem loadWav_level_linear (g : ℝ) (norm : WavNorm) (sf : ℝ) (x : List ℝ) :
    loadWav norm (g * sf) x = (loadWav norm sf x).map (g * ·) := by
  simp only [loadWav, List.map_map]
  apply List.map_congr_left; intro v _; simp only [Function.comp]; ring

/-- **`normalization='rms'` delivers the requested level**: the RMS of what is played is `get_sf(1e3, level)`. -/
theorem loadWav_rms_level (sf : ℝ) (x : List ℝ) (hx : rmsL x ≠ 0) (hsf : 0 ≤ sf) :
    rmsL (loadWav .rms sf x) = sf := by
  have hr : 0 < rmsL x := lt_of_le_of_ne (by rw [rmsL_real]; exact Real.sqrt_nonneg _) (Ne.symm hx)
  have e : loadWav .rms sf x = x.map ((sf / rmsL x) * ·) := by
    simp only [loadWav, wavNormalize, List.map_map]
    apply List.map_congr_left; intro v _; simp only [Function.comp]; ring
  rw [e, rmsL_scale, abs_of_nonneg (div_nonneg hsf hr.le)]
  field_simp

/-- **`normalization='pe'` delivers the requested peak**: the maximum of what is played is `get_sf(1e3, level)`
(for a waveform whose maximum is positive). -/
theorem loadWav_pe_level (sf a : ℝ) (t : List ℝ) (hm : 0 < lmaxFrom a t) (hsf : 0 ≤ sf) :
    ∃ b t', loadWav .pe sf (a :: t) = b :: t' ∧ lmaxFrom b t' = sf := by
  have e : loadWav .pe sf (a :: t) = (sf / lmaxFrom a t * a) :: t.map ((sf / lmaxFrom a t) * ·) := by
    simp only [loadWav, wavNormalize, List.map_map, List.map_cons]
    congr 1
    · ring
    · apply List.map_congr_left; intro v _; simp only [Function.comp]; ring
  refine ⟨_, _, e, ?_⟩
  rw [lmaxFrom_scale _ (div_nonneg hsf hm.le)]
  field_simp

/-! ## band-limited click -/

/-- `bandlimited_click`: the level enters through the flat pass-band magnitude `sf` of the spectrum handed to
`csd_to_signal`, which is linear: every sample of the click is multiplied by `g`. -/
theorem blClick_level_linear (g : ℝ) (n nw : ℕ) (fs sf : ℝ) (klo khi i : ℕ) :
    blClick n nw fs (g * sf) klo khi i = g * blClick n nw fs sf klo khi i := by
  unfold blClick
  rw [← csdToSignal_smul]
  congr 1
  funext k
  exact clickSpec_scale g n fs sf klo khi k

/-- …and that magnitude is the mean over the pass band of `get_sf(f, band_to_spectrum_level(level, count))`,
each term of which carries the factor `10^(d/20)`. -/
theorem blClick_sf_level_linear (c : Cal ℝ) (f L d cnt x : ℝ) (h : getSf c f (bandToSpectrum L cnt) 0 = .val x) :
    getSf c f (bandToSpectrum (L + d) cnt) 0 = .val ((10 : ℝ) ^ (d / 20) * x) := by
  have e : bandToSpectrum (L + d) cnt = bandToSpectrum L cnt + d := by
    simp only [bandToSpectrum]; ring
  rw [e, getSf_level_map, h, Res.map_val]

/-! ## non-vacuity -/

example : ∃ x', getSf (Cal.fromSpl (94 : ℝ) 1 0) 1000 (60 + 20) 0 = .val x' ∧
    ∀ pol fs ph off j, tone pol x' fs 1000 ph off j
      = (10 : ℝ) ^ ((20 : ℝ) / 20) * tone pol ((10 : ℝ) ^ ((60 - (94 - db1 (1 : ℝ)) + 0) / 20)) fs 1000 ph off j :=
  tone_level_linear _ _ _ _ _ (by simp [getSf, getSens, Cal.fromSpl, sensFromDb, sfOf_real])

example : filtStim (-(nat 1)) (nat 1) (-1 : ℝ) 1 1 [0.5] [-0.9] (zeroState 1) 0 [0.25, 0.75]
    = (filtStim (nat 1) (nat 1) (-1 : ℝ) 1 1 [0.5] [-0.9] (zeroState 1) 0 [0.25, 0.75]).map (- ·) :=
  filtStim_polarity_in_zero _ _ _ _ _ _ _ _

example := shapedNoise_level_linear 10 1 (-1) (-1) 1 0.5 [0.25, 0.125] [0, 0] [3, 4] (by simp) rfl rfl 2 (by simp)
  [0.25, 0.75, 0.5]
example := firNoise_level_linear 10 1 (-1) (-1) 1 0.5 [0.25, 0.125] [0, 0] [3, 4] [30, 40] (by simp) rfl rfl rfl 2
  (by simp) [0.25, 0.75, 0.5]
example := loadWav_rms_level 2 [3, -4] (by rw [rmsL_real]; simp; norm_num) (by norm_num)
example := loadWav_pe_level 2 (-1) [3, 2] (by rw [lmaxFrom_real]; simp; norm_num) (by norm_num)
example := rampedTone_polarity ([0, 0.5, 1] : List ℝ) 2 1000 100 0 0
example := meanSf_level_linear (Cal.fromSpl (94 : ℝ) 1 0) 1000 [] 60 20 _ rfl
example := chirp_level_linear (Cal.fromSpl (94 : ℝ) 1 0) 20000 1000 2000 [] 60 20 _ [1, 1, 1] rfl
example := chirp_envelope_unit_rms [3, -4] (by rw [rmsL_real]; simp; norm_num)

end Psi.Db
