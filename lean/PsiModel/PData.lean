/-
Model of the annotated array `PipelineData` of psiaudio/pipeline.py:
`normalize_index`, `PipelineData.__getitem__`, `__array_finalize__`, the `t`,
`n_channels`, `n_epochs` properties, `ensure_dim` and `concat`.

Two layers:
* the *NumPy layer* (`npGetitem`, `npConcat`): which source sample sits at which
  position of the result of `ndarray.__getitem__` / `np.concatenate` (documented NumPy
  semantics: basic indexing, one broadcast group of advanced indices).  Modelled, not
  verified; compared on every check with NumPy on an index-valued array.
* the *annotation layer* (`normalizeIndex`, `fixups`, `getitem`, `concat`):
  transcribed branch by branch from the Python source (with the three repairs of
  notes/C11_fix_*.diff applied; the unrepaired variants are kept as `…Orig` for the
  counterexample theorems).

Sample values are abstract: `data` holds the identity (a natural number) of the
sample at each position, row-major.  Core Lean only.
-/
namespace Psi.PData

inductive Err
  | indexError | valueError | typeError | keyError | notImplemented | unboundLocal
  deriving Repr, DecidableEq

/-! ### Python slices (`slice.indices`, language reference / CPython `PySlice_AdjustIndices`) -/

structure PySlice where
  start : Option Int
  stop : Option Int
  step : Option Int
  deriving Repr, DecidableEq

def PySlice.all : PySlice := ⟨none, none, none⟩

/-- clamp of one bound for a positive step: negative values count from the end. -/
def clampPos (v : Int) (n : Nat) : Int :=
  if v < 0 then (if v + n < 0 then 0 else v + n) else (if v < n then v else n)

/-- clamp of one bound for a negative step. -/
def clampNeg (v : Int) (n : Nat) : Int :=
  if v < 0 then (if v + n < -1 then -1 else v + n) else (if v < n then v else (n : Int) - 1)

/-- `slice(start, stop, step).indices(n)`; `step = 0` is a `ValueError`. -/
def sliceIndices (s : PySlice) (n : Nat) : Except Err (Int × Int × Int) :=
  let step := s.step.getD 1
  if step = 0 then .error .valueError
  else if step > 0 then
    .ok ((match s.start with | none => 0 | some v => clampPos v n),
         (match s.stop with | none => (n : Int) | some v => clampPos v n), step)
  else
    .ok ((match s.start with | none => (n : Int) - 1 | some v => clampNeg v n),
         (match s.stop with | none => -1 | some v => clampNeg v n), step)

/-- number of selected positions (`len(range(start, stop, step))`). -/
def sliceLen (start stop step : Int) : Nat :=
  if step > 0 then (if start < stop then ((stop - start - 1) / step + 1).toNat else 0)
  else (if stop < start then ((start - stop - 1) / (-step) + 1).toNat else 0)

/-- the positions a slice selects on an axis of length `n`, in order. -/
def slicePositions (s : PySlice) (n : Nat) : Except Err (List Nat) :=
  match sliceIndices s n with
  | .error e => .error e
  | .ok (a, b, st) => .ok ((List.range (sliceLen a b st)).map fun (k : Nat) => (a + (k : Int) * st).toNat)

/-! ### Index expressions -/

/-- one entry of an index expression. `ilist`/`blist` are Python lists of ints / bools,
`iarr`/`barr` are 1-D integer / boolean ndarrays. -/
inductive Item
  | int (i : Int)
  | slice (s : PySlice)
  | ilist (l : List Int)
  | blist (l : List Bool)
  | iarr (l : List Int)
  | barr (l : List Bool)
  | newaxis
  | ellipsis
  deriving Repr, DecidableEq

/-- `a[x]` (`one x`) versus `a[x, y, …]` (`tuple`); `a[(x,)]` is `tuple [x]`. -/
inductive Index
  | one (i : Item)
  | tuple (l : List Item)
  deriving Repr, DecidableEq

def Index.items : Index → List Item
  | .one i => [i]
  | .tuple l => l

/-! ### NumPy layer -/

/-- a Python/NumPy integer index on an axis of length `n` (negative wraps once). -/
def wrapIndex (i : Int) (n : Nat) : Except Err Nat :=
  if i < -(n : Int) ∨ i ≥ n then .error .indexError
  else .ok (if i < 0 then (i + n).toNat else i.toNat)

def wrapAll (l : List Int) (n : Nat) : Except Err (List Nat) := l.mapM (wrapIndex · n)

/-- positions of the `true` entries, counted from `pos`. -/
def trueIdx : Nat → List Bool → List Nat
  | _, [] => []
  | pos, b :: bs => (if b then [pos] else []) ++ trueIdx (pos + 1) bs

/-- a boolean mask on an axis of length `n`. -/
def maskPositions (m : List Bool) (n : Nat) : Except Err (List Nat) :=
  if m.length = n then .ok (trueIdx 0 m) else .error .indexError

/-- what one index entry selects on one source axis. -/
inductive Sel
  | idx (p : Nat)            -- integer: the axis disappears
  | basic (ps : List Nat)    -- slice: the axis stays, these positions in this order
  | fancy (ps : List Nat)    -- list / array / mask: joins the advanced-index group
  | new                      -- np.newaxis: a fresh axis of length 1 (no source axis)
  deriving Repr, DecidableEq

/-- selection made by an entry that consumes an axis of length `n`. -/
def itemSel (it : Item) (n : Nat) : Except Err Sel :=
  match it with
  | .int i => (wrapIndex i n).map .idx
  | .slice s => (slicePositions s n).map .basic
  | .ilist l => if l.isEmpty then .ok (.fancy []) else (wrapAll l n).map .fancy
  | .iarr l => (wrapAll l n).map .fancy
  | .blist l => if l.isEmpty then .ok (.fancy []) else (maskPositions l n).map .fancy
  | .barr l => (maskPositions l n).map .fancy
  | .newaxis => .ok .new
  | .ellipsis => .ok .new   -- not reached: the Ellipsis is expanded before

def Item.consumes : Item → Bool
  | .newaxis | .ellipsis => false
  | _ => true

def Item.isEllipsis : Item → Bool
  | .ellipsis => true
  | _ => false

def Item.isNewaxis : Item → Bool
  | .newaxis => true
  | _ => false

/-- replace the (single) Ellipsis by `k` full slices. -/
def expandEllipsis (k : Nat) : List Item → List Item
  | [] => []
  | .ellipsis :: rest => List.replicate k (.slice .all) ++ rest
  | it :: rest => it :: expandEllipsis k rest

/-- pair every entry with the source axis it consumes (length, stride). -/
def assignAxes : List Item → List (Nat × Nat) → Except Err (List (Sel × Nat))
  | [], _ => .ok []
  | it :: rest, dims =>
    if it.consumes then
      match dims with
      | [] => .error .indexError
      | (n, stride) :: dims' =>
        match itemSel it n with
        | .error e => .error e
        | .ok s => (assignAxes rest dims').map ((s, stride) :: ·)
    else (assignAxes rest dims).map ((.new, 0) :: ·)

/-- row-major strides of a shape. -/
def strides : List Nat → List Nat
  | [] => []
  | _ :: rest => rest.foldl (· * ·) 1 :: strides rest

def Sel.isAdvanced : Sel → Bool
  | .idx _ | .fancy _ => true
  | _ => false

def Sel.isFancy : Sel → Bool
  | .fancy _ => true
  | _ => false

/-- broadcast length of the advanced group: all lengths other than 1 must agree. -/
def broadcastLen : List (Sel × Nat) → Except Err (Option Nat)
  | [] => .ok none
  | (.fancy ps, _) :: rest =>
    match broadcastLen rest with
    | .error e => .error e
    | .ok none => .ok (some ps.length)
    | .ok (some k) =>
      if ps.length = k then .ok (some k)
      else if ps.length = 1 then .ok (some k)
      else if k = 1 then .ok (some ps.length)
      else .error .indexError
  | _ :: rest => broadcastLen rest

/-- source offset contributed by the advanced group at broadcast position `j`. -/
def advOffset (j : Nat) : List (Sel × Nat) → Nat
  | [] => 0
  | (.idx p, st) :: rest => p * st + advOffset j rest
  | (.fancy ps, st) :: rest =>
    (if ps.length = 1 then ps.headD 0 else ps.getD j 0) * st + advOffset j rest
  | _ :: rest => advOffset j rest

/-- offsets of a non-advanced output axis. -/
def plainAxis : Sel × Nat → Option (List Nat)
  | (.basic ps, st) => some (ps.map (· * st))
  | (.new, _) => some [0]
  | _ => none

/-- integer, list, array and mask entries form the advanced-index group (when a list/array is present). -/
def Item.isAdv : Item → Bool
  | .int _ | .ilist _ | .blist _ | .iarr _ | .barr _ => true
  | _ => false

/-- are the advanced entries next to each other in the index expression as written?  A slice, a new axis or
the Ellipsis (even one that expands to nothing) in between separates them. -/
def itemsAdjacent (items : List Item) : Bool :=
  let trimmed := (items.dropWhile (fun it => !it.isAdv)).reverse.dropWhile (fun it => !it.isAdv)
  trimmed.all Item.isAdv

/-- output axes when the advanced group stays in place: the group's axis replaces its first member. -/
def axesInPlace (grp : List Nat) : Bool → List (Sel × Nat) → List (List Nat)
  | _, [] => []
  | placed, e :: rest =>
    match plainAxis e with
    | some ax => ax :: axesInPlace grp placed rest
    | none => if placed then axesInPlace grp true rest else grp :: axesInPlace grp true rest

/-- result of `ndarray.__getitem__`: for every output axis the list of source offsets it
steps through, plus a constant offset. -/
structure NPSel where
  base : Nat
  axes : List (List Nat)
  sels : List (Sel × Nat)
  deriving Repr

def NPSel.shape (r : NPSel) : List Nat := r.axes.map List.length

/-- all sums of one offset per axis, row-major. -/
def cart : List (List Nat) → List Nat
  | [] => [0]
  | ax :: rest => ax.flatMap fun o => (cart rest).map (o + ·)

def NPSel.offsets (r : NPSel) : List Nat := (cart r.axes).map (r.base + ·)

/-- `ndarray.__getitem__(index)` on an array of the given shape. -/
def npGetitem (shape : List Nat) (items : List Item) : Except Err NPSel :=
  if (items.filter Item.isEllipsis).length > 1 then .error .indexError else
  let consumed := (items.filter Item.consumes).length
  if consumed > shape.length then .error .indexError else
  let expanded := if items.any Item.isEllipsis then expandEllipsis (shape.length - consumed) items
                  else items ++ List.replicate (shape.length - consumed) (.slice .all)
  match assignAxes expanded (shape.zip (strides shape)) with
  | .error e => .error e
  | .ok sels =>
    if sels.any (fun e => e.1.isFancy) then
      match broadcastLen sels with
      | .error e => .error e
      | .ok none => .error .indexError
      | .ok (some k) =>
        let grp := (List.range k).map fun j => advOffset j sels
        if itemsAdjacent items then .ok ⟨0, axesInPlace grp false sels, sels⟩
        else .ok ⟨0, grp :: sels.filterMap plainAxis, sels⟩
    else
      .ok ⟨advOffset 0 sels, sels.filterMap plainAxis, sels⟩

/-- does the result come back as a NumPy scalar (no `metadata` attribute)?
Only for an all-integer index without Ellipsis. -/
def isScalarResult (shape : List Nat) (items : List Item) : Bool :=
  items.length = shape.length && items.all (fun it => match it with | .int _ => true | _ => false)

/-! ### Annotated arrays -/

/-- a channel label: `None` or a name. -/
abbrev Label := Option String

/-- `channel` is a single label (1-D data) or a list (one per row of axis −2). -/
inductive Chan
  | one (l : Label)
  | many (l : List Label)
  deriving Repr, DecidableEq

/-- a metadata dict is abstract: only its identity matters. -/
abbrev Md := Nat

/-- `metadata` is one dict (≤ 2-D data) or a list (one per entry of axis −3). -/
inductive Meta
  | one (m : Md)
  | many (l : List Md)
  deriving Repr, DecidableEq

structure PD where
  shape : List Nat
  data : List Nat
  s0 : Int
  fs : Rat
  channel : Chan
  metadata : Meta
  deriving Repr, DecidableEq

def PD.ndim (a : PD) : Nat := a.shape.length
def PD.nTime (a : PD) : Nat := a.shape.getLast?.getD 0
/-- `shape[-2]` -/
def shapeM2 (shape : List Nat) : Nat := shape.reverse.getD 1 0
/-- `shape[-3]` -/
def shapeM3 (shape : List Nat) : Nat := shape.reverse.getD 2 0
def PD.nChannels (a : PD) : Nat := if a.ndim = 1 then 1 else shapeM2 a.shape
def PD.nEpochs (a : PD) : Option Nat := if a.ndim < 3 then none else some (shapeM3 a.shape)

/-- `PipelineData.t`: `np.arange(s0, s0 + n_time) / fs`. -/
def PD.t (a : PD) : List Rat := (List.range a.nTime).map fun (j : Nat) => ((a.s0 + (j : Int) : Int) : Rat) / a.fs

/-- `__array_finalize__`: the four annotations are copied onto the new array; a `None`
channel becomes a list of `None` when the new array has more than one dimension. -/
def finalize (a : PD) (shape : List Nat) (data : List Nat) : PD :=
  { shape := shape, data := data, s0 := a.s0, fs := a.fs,
    channel := (match a.channel with
      | .one none => if shape.length > 1 then .many (List.replicate (shapeM2 shape) none) else .one none
      | c => c),
    metadata := a.metadata }

/-! ### normalize_index -/

/-- entries of a normalised index. -/
inductive NItem
  | int (i : Int)
  | slice (s : PySlice)
  | ilist (l : List Int)
  | blist (l : List Bool)
  | newaxis
  deriving Repr, DecidableEq

def fullSlices (k : Nat) : List NItem := List.replicate k (.slice .all)

/-- the loop over the entries of an indexing tuple (`len` = `len(index)`, `ndim` already
increased by the number of new axes). -/
def normLoop (ndim len : Nat) : List Item → Except Err (List NItem)
  | [] => .ok []
  | .int i :: rest => (normLoop ndim len rest).map (.int i :: ·)
  | .slice s :: rest => (normLoop ndim len rest).map (.slice s :: ·)
  | .ilist l :: rest => (normLoop ndim len rest).map (.ilist l :: ·)
  | .blist l :: rest => (normLoop ndim len rest).map (.blist l :: ·)
  | .newaxis :: rest => (normLoop ndim len rest).map (.newaxis :: ·)
  | .ellipsis :: rest => (normLoop ndim len rest).map (fullSlices (ndim + 1 - len) ++ ·)
  | .iarr _ :: _ => .error .valueError
  | .barr _ :: _ => .error .valueError

/-- the part of `normalize_index` that handles an indexing tuple. -/
def normTuple (items : List Item) (ndim : Nat) : Except Err (List NItem) :=
  if (items.filter Item.isEllipsis).length > 1 then .error .indexError else
  let ndim := ndim + (items.filter Item.isNewaxis).length
  match normLoop ndim items.length items with
  | .error e => .error e
  | .ok norm => .ok (norm ++ fullSlices (ndim - norm.length))

/-- `normalize_index(index, ndim)`.  `strict = true` is the repaired code (the all-True
shortcut applies to boolean arrays only); `false` is the code as found. -/
def normalizeIndexG (strict : Bool) (index : Index) (ndim : Nat) : Except Err (List NItem) :=
  match index with
  | .one .newaxis => .ok (.newaxis :: fullSlices ndim)
  | .one .ellipsis => .ok (fullSlices ndim)
  | .one (.slice s) => .ok (.slice s :: fullSlices (ndim - 1))
  | .one (.int i) => .ok (.int i :: fullSlices (ndim - 1))
  | .one (.barr l) =>
    if l.all id then .ok (fullSlices ndim) else normTuple [.blist l] ndim
  | .one (.iarr l) =>
    if !strict && l.all (· != 0) then .ok (fullSlices ndim) else normTuple [.ilist l] ndim
  | .one (.ilist l) => normTuple [.ilist l] ndim
  | .one (.blist l) => normTuple [.blist l] ndim
  | .tuple items => normTuple items ndim

def normalizeIndex := normalizeIndexG true

/-! ### `__getitem__` annotation fix-ups -/

/-- Python list indexing `l[i]`. -/
def listGet {α} (l : List α) (i : Int) : Except Err α :=
  match wrapIndex i l.length with
  | .error e => .error e
  | .ok p => match l[p]? with
    | some x => .ok x
    | none => .error .indexError

/-- Python list slicing `l[slice]`. -/
def listSlice {α} (l : List α) (s : PySlice) : Except Err (List α) :=
  match slicePositions s l.length with
  | .error e => .error e
  | .ok ps => .ok (ps.filterMap (l[·]?))

/-- `np.array(l)[list]` / `np.arange(len(l))[list]`: NumPy selection on a 1-D sequence. -/
def listTake {α} (l : List α) (ps : List Nat) : List α := ps.filterMap (l[·]?)

/-- the time entry. `clamp = true`: repaired (`s0 += slice.indices(n)[0]`); `false`: as found. -/
def fixTime (clamp : Bool) (self obj : PD) (ts : NItem) : Except Err PD :=
  match ts with
  | .int _ => .error .notImplemented
  | .newaxis => .error .indexError
  | .ilist l => if l.all (· != 0) then .ok obj else .error .valueError
  | .blist l => if l.all id then .ok obj else .error .valueError
  | .slice s =>
    let s0 : Int :=
      match s.start with
      | none => obj.s0
      | some v =>
        if clamp then
          -- repaired: the first selected sample, as `slice.indices` computes it
          (if s.step.getD 1 < 0 then obj.s0 + clampNeg v self.nTime else obj.s0 + clampPos v self.nTime)
        else if v > 0 then obj.s0 + v
        else if v < 0 then self.s0 + self.nTime + v
        else obj.s0
    match s.step with
    | none => .ok { obj with s0 := s0 }
    | some st => if st = 0 then .error .valueError else .ok { obj with s0 := s0, fs := obj.fs / (st : Rat) }

/-- the channel entry. `mask = true`: repaired (NumPy selection on the label list);
`false`: as found (`[channel[s] for s in list]`, booleans used as 0/1). -/
def fixChannel (mask : Bool) (obj : PD) (cs : Option NItem) : Except Err PD :=
  match cs with
  | none => .ok obj                                  -- `skip`
  | some .newaxis =>
    (match obj.channel with
     | .one l => .ok { obj with channel := .many [l] }
     | .many l => if l.length = 1 then .ok obj else .error .valueError)
  | some (.ilist idx) =>
    (match obj.channel with
     | .one _ => if idx.isEmpty && !mask then .ok { obj with channel := .many [] } else .error .typeError
     | .many l =>
       if mask then
         (match wrapAll idx l.length with
          | .error e => .error e
          | .ok ps => .ok { obj with channel := .many (listTake l ps) })
       else
         (match idx.mapM (listGet l) with
          | .error e => .error e
          | .ok r => .ok { obj with channel := .many r }))
  | some (.blist m) =>
    (match obj.channel with
     | .one _ => if m.isEmpty && !mask then .ok { obj with channel := .many [] } else .error .typeError
     | .many l =>
       if mask then
         (if m.isEmpty then .ok { obj with channel := .many [] } else
          match maskPositions m l.length with
          | .error e => .error e
          | .ok ps => .ok { obj with channel := .many (listTake l ps) })
       else
         (match (m.map fun b => if b then (1 : Int) else 0).mapM (listGet l) with
          | .error e => .error e
          | .ok r => .ok { obj with channel := .many r }))
  | some (.int i) =>
    (match obj.channel with
     | .one _ => .error .typeError
     | .many l => match listGet l i with
       | .error e => .error e
       | .ok c => .ok { obj with channel := .one c })
  | some (.slice s) =>
    (match obj.channel with
     | .one _ => .error .typeError
     | .many l => match listSlice l s with
       | .error e => .error e
       | .ok r => .ok { obj with channel := .many r })

/-- the epoch entry. -/
def fixEpoch (obj : PD) (es : Option NItem) : Except Err PD :=
  match es with
  | none => .ok obj
  | some .newaxis =>
    (match obj.metadata with
     | .one m => .ok { obj with metadata := .many [m] }
     | .many l => if l.length = 1 then .ok obj else .error .valueError)
  | some (.ilist idx) =>
    (match obj.metadata with
     | .one _ => .error .indexError                    -- 0-d object array indexed by a list
     | .many l =>
       if idx.isEmpty then .ok { obj with metadata := .many [] } else
       match wrapAll idx l.length with
       | .error e => .error e
       | .ok ps => .ok { obj with metadata := .many (listTake l ps) })
  | some (.blist m) =>
    (match obj.metadata with
     | .one _ => .error .indexError
     | .many l =>
       if m.isEmpty then .ok { obj with metadata := .many [] } else
       match maskPositions m l.length with
       | .error e => .error e
       | .ok ps => .ok { obj with metadata := .many (listTake l ps) })
  | some (.int i) =>
    (match obj.metadata with
     | .one _ => .error .keyError                      -- `dict[int]`
     | .many l => match listGet l i with
       | .error e => .error e
       | .ok m => .ok { obj with metadata := .one m })
  | some (.slice s) =>
    (match obj.metadata with
     | .one _ => .error .keyError                      -- `dict[slice]` (slices are hashable in 3.12)
     | .many l => match listSlice l s with
       | .error e => .error e
       | .ok r => .ok { obj with metadata := .many r })

/-- repairs applied: (clamp the time start, NumPy selection of channel labels, strict all-True shortcut). -/
structure Fixes where
  clamp : Bool
  mask : Bool
  strict : Bool
  deriving Repr, DecidableEq

def Fixes.all : Fixes := ⟨true, true, true⟩
def Fixes.none : Fixes := ⟨false, false, false⟩

/-- split a normalised index into (epoch, channel, time) entries. -/
def splitNorm : List NItem → Except Err (Option NItem × Option NItem × NItem)
  | [t] => .ok (none, none, t)
  | [c, t] => .ok (none, some c, t)
  | [e, c, t] => .ok (some e, some c, t)
  | _ => .error .unboundLocal

def fixups (fx : Fixes) (self obj : PD) (norm : List NItem) : Except Err PD :=
  match splitNorm norm with
  | .error e => .error e
  | .ok (es, cs, ts) =>
    match fixTime fx.clamp self obj ts with
    | .error e => .error e
    | .ok o1 => match fixChannel fx.mask o1 cs with
      | .error e => .error e
      | .ok o2 => fixEpoch o2 es

/-- result of `a[index]`: a bare sample or an annotated array. -/
inductive Res
  | scalar (v : Nat)
  | arr (a : PD)
  deriving Repr, DecidableEq

def getitemG (fx : Fixes) (a : PD) (index : Index) : Except Err Res :=
  match npGetitem a.shape index.items with
  | .error e => .error e
  | .ok sel =>
    let data := sel.offsets.map fun o => a.data.getD o 0
    if isScalarResult a.shape index.items then .ok (.scalar (data.headD 0)) else
    let obj := finalize a sel.shape data
    match normalizeIndexG fx.strict index a.ndim with
    | .error e => .error e
    | .ok norm => (fixups fx a obj norm).map .arr

/-- `PipelineData.__getitem__` (repaired code). -/
def getitem := getitemG Fixes.all
/-- `PipelineData.__getitem__` (code as found). -/
def getitemOrig := getitemG Fixes.none

/-- `getitem` when the result must be an array. -/
def getArr (fx : Fixes) (a : PD) (index : Index) : Except Err PD :=
  match getitemG fx a index with
  | .error e => .error e
  | .ok (.arr r) => .ok r
  | .ok (.scalar _) => .error .typeError

/-! ### concat -/

inductive Dim | time | channel | epoch
  deriving Repr, DecidableEq

/-- `ensure_dim(arrays, dim)`: the index applied to every array is chosen from the first one. -/
def ensureIndex (ndim : Nat) (dim : Dim) : Index :=
  match dim, ndim with
  | .channel, 1 => .tuple [.newaxis, .slice .all]
  | .epoch, 1 => .tuple [.newaxis, .newaxis, .slice .all]
  | .epoch, 2 => .tuple [.newaxis, .slice .all, .slice .all]
  | _, _ => .one (.slice .all)

/-- `np.concatenate` along axis `−k` (`k = 1, 2, 3`): every array is cut into blocks of
`blockLen = shape[−k] · … · shape[−1]` samples; the result interleaves the blocks. -/
def blocks (len : Nat) (fuel : Nat) (l : List Nat) : List (List Nat) :=
  match fuel with
  | 0 => []
  | fuel + 1 => if len = 0 then List.replicate (fuel + 1) [] else l.take len :: blocks len fuel (l.drop len)

def interleave : List (List (List Nat)) → Nat → List Nat
  | _, 0 => []
  | bs, outer + 1 => (bs.flatMap fun b => b.headD []) ++ interleave (bs.map List.tail) outer

def prod (l : List Nat) : Nat := l.foldl (· * ·) 1

/-- shape and data of `np.concatenate(arrays, axis=-k)`; `ValueError` on mismatching shapes. -/
def npConcat (arrs : List (List Nat × List Nat)) (k : Nat) : Except Err (List Nat × List Nat) :=
  match arrs with
  | [] => .error .valueError
  | (sh0, _) :: _ =>
    let nd := sh0.length
    if nd < k then .error .valueError else
    let ax := nd - k
    let okShape := arrs.all fun (sh, _) =>
      sh.length = nd && sh.take ax = sh0.take ax && sh.drop (ax + 1) = sh0.drop (ax + 1)
    if !okShape then .error .valueError else
    let outer := prod (sh0.take ax)
    let axLen := (arrs.map fun (sh, _) => sh.getD ax 0).foldl (· + ·) 0
    let bs := arrs.map fun (sh, d) => blocks (prod (sh.drop ax)) outer d
    .ok (sh0.take ax ++ [axLen] ++ sh0.drop (ax + 1), interleave bs outer)

def Dim.k : Dim → Nat
  | .time => 1
  | .channel => 2
  | .epoch => 3

/-- the contiguity loop of `concat` along time. -/
def checkS0 (cur : Int) : List PD → Bool
  | [] => true
  | a :: rest => a.s0 == cur && checkS0 (cur + a.nTime) rest

/-- `PipelineData.__new__` validations on the result. -/
def construct (shape data : List Nat) (fs : Rat) (s0 : Int) (channel : Chan) (metadata : Meta) : Except Err PD :=
  let chOk := if shape.length > 1 then
      (match channel with | .many l => l.length = shapeM2 shape | .one none => true | .one (some s) => s.length = shapeM2 shape)
    else true
  let mdOk := if shape.length > 2 then
      (match metadata with | .many l => l.length = shapeM3 shape | .one _ => shapeM3 shape = 1)
    else true
  if !chOk then .error .valueError else if !mdOk then .error .valueError else
  .ok { shape := shape, data := data, s0 := s0, fs := fs,
        channel := (match channel with
          | .one none => if shape.length > 1 then .many (List.replicate (shapeM2 shape) none) else .one none
          | c => c),
        metadata := metadata }

def concatG (fx : Fixes) (arrays : List PD) (dim : Dim) : Except Err PD :=
  match arrays with
  | [] => .error .valueError
  | first :: _ =>
    match arrays.mapM (fun a => getArr fx a (ensureIndex first.ndim dim)) with
    | .error e => .error e
    | .ok arrs =>
      match arrs with
      | [] => .error .valueError
      | base :: rest =>
        if rest.any (fun a => a.ndim != base.ndim) then .error .valueError else
        if rest.any (fun a => a.fs != base.fs) then .error .valueError else
        if dim == .time && !checkS0 (base.s0 + base.nTime) rest then .error .valueError else
        let chan : Except Err Chan :=
          if dim != .channel then
            (if rest.any (fun a => a.channel != base.channel) then .error .valueError else .ok base.channel)
          else
            (arrs.mapM fun (a : PD) => match a.channel with
              | Chan.many l => Except.ok l
              | Chan.one _ => Except.error Err.typeError).map fun (ls : List (List Label)) => Chan.many ls.flatten
        match chan with
        | .error e => .error e
        | .ok channel =>
          let md : Except Err Meta :=
            if dim != .epoch then
              (if rest.any (fun a => a.metadata != base.metadata) then .error .valueError else .ok base.metadata)
            else
              .ok (.many (arrs.flatMap fun a => match a.metadata with
                | .many l => if a.ndim ≥ 3 then l else []
                | .one m => if a.ndim ≥ 3 then [] else [m]))
          match md with
          | .error e => .error e
          | .ok metadata =>
            match npConcat (arrs.map fun a => (a.shape, a.data)) dim.k with
            | .error e => .error e
            | .ok (shape, data) => construct shape data base.fs base.s0 channel metadata

/-- `pipeline.concat(arrays, axis)` on annotated arrays (repaired `__getitem__`). -/
def concat := concatG Fixes.all

end Psi.PData
