/-
Model of the continuous-data stages of psiaudio/pipeline.py
(`transform`, `rms`, `iirfilter`, `blocked`, `downsample`, `decimate`, `discard`,
`auto_th`, `derivative`, `event_rate`, `mc_reference`) as transducers over chunks.

Code-faithful: each `step` transcribes what one `send(chunk)` does to the coroutine's
local variables (its carry state) and which objects it passes to `target`.
Sample values are abstract (`α`); the numeric kernels (`lfilter`, the block RMS,
`np.diff(...)*fs`, `std`, the comparison with the threshold, the user function of
`transform`, `matrix @ ·`) are parameters.  A chunk / emitted block is a `PD`:
the list of its time columns together with the annotations of `PipelineData`
(`s0`, `fs`, `channel`, `metadata`); for plain `ndarray` input the annotation fields
are simply not observed.  `concat` checks that the second array starts where the
first ends (a stream carries one annotation record, so its `fs`/`channel`/`metadata` equality
checks always pass; `PsiProofs.C12.stage_cat_is_full_concat` proves that on such pieces `cat` is the
full `concat` of the C11 model).  `blocked` / `discard` also have their `Ellipsis` (restart)
branch: `withRestart`, `blockedStepE`, `discardStepE`.  Core Lean only.

`downsample`, `decimate`, `iirfilter`, `rms` are modelled **as repaired** by
notes/C12_fix_1..5.diff (see notes/C12.md).
-/
namespace Psi.Stages

inductive Err | valueError | diverges
  deriving Repr, DecidableEq

/-- `fs`, `channel`, `metadata` of a `PipelineData`. -/
structure Ann (ρ χ μ : Type) where
  fs : ρ
  channel : χ
  metadata : μ

/-- An array with its time axis as a list of columns, first-sample index and annotations. -/
structure PD (α ρ χ μ : Type) where
  data : List α
  s0 : Int
  ann : Ann ρ χ μ

section
variable {α β γ ρ χ μ S τ : Type}

namespace PD
/-- `x.shape[-1]` -/
def len (x : PD α ρ χ μ) : Nat := x.data.length
/-- `x[..., :k]` (start `None`: `s0` unchanged) -/
def takeN (x : PD α ρ χ μ) (k : Nat) : PD α ρ χ μ := { x with data := x.data.take k }
/-- `x[..., k:]`, `k ≥ 0` (`if start > 0: s0 += start`) -/
def dropN (x : PD α ρ χ μ) (k : Nat) : PD α ρ χ μ := { x with data := x.data.drop k, s0 := x.s0 + k }
/-- `x[..., -r:]`, `1 ≤ r ≤ len` (`start < 0: s0 = s0 + n_time + start`) -/
def lastN (x : PD α ρ χ μ) (r : Nat) : PD α ρ χ μ :=
  { x with data := x.data.drop (x.len - r), s0 := x.s0 + x.len - r }
/-- same annotations, other values (what `__array_finalize__` gives an elementwise result) -/
def withData (x : PD α ρ χ μ) (d : List β) : PD β ρ χ μ := { data := d, s0 := x.s0, ann := x.ann }
end PD

/-- `concat((a, b), axis=-1)`: annotations of `a`; `ValueError` unless `b` starts where `a` ends. -/
def cat (a b : PD α ρ χ μ) : Except Err (PD α ρ χ μ) :=
  if b.s0 = a.s0 + a.len then .ok { a with data := a.data ++ b.data } else .error .valueError

/-- `concat(list, axis=-1)` -/
def catAll : List (PD α ρ χ μ) → Except Err (PD α ρ χ μ)
  | [] => .error .valueError
  | a :: rest => rest.foldlM cat a

/-- `y = y_new if remainder is None else concat((remainder, y_new))` -/
def catOpt (rem : Option (PD α ρ χ μ)) (y : PD α ρ χ μ) : Except Err (PD α ρ χ μ) :=
  match rem with
  | none => .ok y
  | some r => cat r y

/-- `l[::q]` starting with phase `k` (number of elements to skip before the next kept one). -/
def strideAux (q : Nat) : Nat → List α → List α
  | _, [] => []
  | 0, a :: l => a :: strideAux q (q - 1) l
  | k + 1, _ :: l => strideAux q k l

/-- `l[::q]` -/
def stride (q : Nat) (l : List α) : List α := strideAux q 0 l

/-- `x[..., ::q]`: `s0` unchanged, `fs /= q`. -/
def PD.strided (divFs : ρ → Nat → ρ) (q : Nat) (x : PD α ρ χ μ) : PD α ρ χ μ :=
  { data := stride q x.data, s0 := x.s0, ann := { x.ann with fs := divFs x.ann.fs q } }

/-! ### transform / mc_reference -/

/-- `transform(function, target)`: `target(function(data))`.  `mc_reference(matrix, target)` is the
instance `function = (matrix @ ·)`. -/
def transformStep (f : PD α ρ χ μ → PD β ρ χ μ) (_ : Unit) (y : PD α ρ χ μ) :
    Except Err (List (PD β ρ χ μ) × Unit) :=
  .ok ([f y], ())

/-- a function that acts column by column and keeps the annotations (e.g. `matrix @ ·`, `2 * ·`) -/
def pointwise (g : α → β) (y : PD α ρ χ μ) : PD β ρ χ μ := y.withData (y.data.map g)

/-! ### blocked -/

/-- the inner `while merged.shape[-1] >= block_size` loop (`fuel ≥ merged.len` suffices for `b ≥ 1`) -/
def blockLoop (b : Nat) : Nat → PD α ρ χ μ → List (PD α ρ χ μ) × PD α ρ χ μ
  | 0, m => ([], m)
  | fuel + 1, m =>
    if b ≤ m.len then
      let r := blockLoop b fuel (m.dropN b)
      (m.takeN b :: r.1, r.2)
    else ([], m)

structure BlockedSt (α ρ χ μ : Type) where
  data : List (PD α ρ χ μ) := []
  n : Nat := 0

def blockedStep (b : Nat) (st : BlockedSt α ρ χ μ) (d : PD α ρ χ μ) :
    Except Err (List (PD α ρ χ μ) × BlockedSt α ρ χ μ) :=
  if b = 0 then .error .diverges else
  let n := st.n + d.len
  let data := st.data ++ [d]
  if b ≤ n then
    match catAll data with
    | .error e => .error e
    | .ok merged =>
      let r := blockLoop b merged.len merged
      .ok (r.1, { data := [r.2], n := r.2.len })
  else .ok ([], { data := data, n := n })

/-! ### downsample (as repaired: output `s0` counted in output samples) / decimate core -/

/-- remainder handling shared by `downsample` and `decimate`:
`remainder = y.shape[-1] % q; y_remainder = y[..., -remainder:]; y = y[..., :-remainder]; result = y[..., ::q]` -/
def dsSplit (divFs : ρ → Nat → ρ) (q : Nat) (y : PD α ρ χ μ) :
    PD α ρ χ μ × Option (PD α ρ χ μ) :=
  let r := y.len % q
  if r ≠ 0 then ((y.takeN (y.len - r)).strided divFs q, some (y.lastN r))
  else (y.strided divFs q, none)

structure DownSt (α ρ χ μ : Type) where
  rem : Option (PD α ρ χ μ) := none
  s0 : Option Int := none

/-- `twoD`: `if len(result)` tests the number of channels for 2-D input, so empty blocks are emitted. -/
def downsampleStep (divFs : ρ → Nat → ρ) (twoD : Bool) (q : Nat) (st : DownSt α ρ χ μ) (yNew : PD α ρ χ μ) :
    Except Err (List (PD α ρ χ μ) × DownSt α ρ χ μ) :=
  if q = 0 then .error .diverges else
  match catOpt st.rem yNew with
  | .error e => .error e
  | .ok y =>
    let (res, rem) := dsSplit divFs q y
    let s0 := match st.s0 with | none => res.s0 | some s => s
    let res := { res with s0 := s0 }
    .ok (if twoD || res.len ≠ 0 then [res] else [], { rem := rem, s0 := some (s0 + res.len) })

/-! ### Mealy machines (what `scipy.signal.lfilter` with carried `zi` computes on non-empty input) -/

structure Mealy (α β S : Type) where
  step : S → α → β × S

def Mealy.run (m : Mealy α β S) : S → List α → List β × S
  | s, [] => ([], s)
  | s, a :: l =>
    let r := m.step s a
    let r' := m.run r.2 l
    (r.1 :: r'.1, r'.2)

/-- `signal.lfilter(b, a, y, zi=z, axis=-1)` is a parameter `lf : S → List α → List β × S` (output, final
state).  SciPy leaves the final state **undefined for an empty `y`** (it returns uninitialised memory), so the
stages keep the current state in that case (`if y.shape[-1] > 0: zo = zf`, notes/C12_fix_5.diff). -/
def lfGuard (lf : S → List α → List β × S) (z : S) (y : List α) : List β × S :=
  let r := lf z y
  (r.1, if y.length ≠ 0 then r.2 else z)

/-! ### iirfilter (as repaired: channel and metadata are passed on; state kept over an empty chunk) -/

/-- `init x0` is `lfilter_zi(b, a) * y[..., :1]` of the first chunk; an empty first chunk cannot be
broadcast against `zi` (`ValueError`). -/
def iirInit (init : α → S) (st : Option S) (y : List α) : Except Err S :=
  match st, y with
  | some s, _ => .ok s
  | none, [] => .error .valueError
  | none, x0 :: _ => .ok (init x0)

def iirStep (lf : S → List α → List β × S) (init : α → S) (st : Option S) (y : PD α ρ χ μ) :
    Except Err (List (PD β ρ χ μ) × Option S) :=
  match iirInit init st y.data with
  | .error e => .error e
  | .ok s =>
    let r := lfGuard lf s y.data
    .ok ([y.withData r.1], some r.2)

/-! ### decimate (as repaired: only new samples are filtered, the filtered remainder is kept; state kept
over an empty chunk) -/

structure DecSt (β ρ χ μ S : Type) where
  zf : S
  rem : Option (PD β ρ χ μ)
  s0 : Int

def decimateStep (lf : S → List α → List β × S) (zi : S) (divFs : ρ → Nat → ρ) (q : Nat)
    (st : Option (DecSt β ρ χ μ S)) (y : PD α ρ χ μ) :
    Except Err (List (PD β ρ χ μ) × Option (DecSt β ρ χ μ S)) :=
  if q = 0 then .error .diverges else
  let st := match st with | some s => s | none => { zf := zi, rem := none, s0 := y.s0 }
  let r := lfGuard lf st.zf y.data
  let yf : PD β ρ χ μ := y.withData r.1
  match catOpt st.rem yf with
  | .error e => .error e
  | .ok yf =>
    let (res, rem) := dsSplit divFs q yf
    let res := { res with s0 := st.s0 }
    .ok (if res.len ≠ 0 then [res] else [], some { zf := r.2, rem := rem, s0 := st.s0 + res.len })

/-! ### discard -/

def discardStep (st : Nat) (y : PD α ρ χ μ) : Except Err (List (PD α ρ χ μ) × Nat) :=
  if st = 0 then .ok ([y], 0)
  else if y.len ≤ st then .ok ([], st - y.len)
  else .ok ([y.dropN st], 0)

/-! ### rms (as repaired: the channel labels of the input are kept) -/

/-- consecutive complete blocks of `n` (the `d.shape = shape` reshape); `fuel ≥ l.length`. -/
def chunksOf (n : Nat) : Nat → List α → List (List α)
  | 0, _ => []
  | fuel + 1, l => if n ≤ l.length then l.take n :: chunksOf n fuel (l.drop n) else []

structure RmsSt (α ρ χ μ : Type) where
  data : List (PD α ρ χ μ) := []
  samples : Nat := 0

/-- The emitted block's `s0` field holds the **numerator** of `data.s0 / n` (`result.s0 /= n` is a
true division); the denominator is the block length `n`. -/
def rmsStep (blockFn : List α → β) (divFs : ρ → Nat → ρ) (n : Nat) (st : RmsSt α ρ χ μ) (d : PD α ρ χ μ) :
    Except Err (List (PD β ρ χ μ) × RmsSt α ρ χ μ) :=
  if n = 0 then .error .diverges else
  let data := st.data ++ [d]
  let samples := st.samples + d.len
  if n ≤ samples then
    match catAll data with
    | .error e => .error e
    | .ok merged =>
      let nb := merged.len / n
      let res : PD β ρ χ μ :=
        { data := (chunksOf n merged.len (merged.data.take (nb * n))).map blockFn
          s0 := merged.s0
          ann := { merged.ann with fs := divFs merged.ann.fs n } }
      let rest := merged.dropN (nb * n)
      .ok ([res], { data := [rest], samples := rest.len })
  else .ok ([], { data := data, samples := samples })

/-! ### derivative -/

/-- `np.diff` with the kernel `d prev cur = (cur - prev) * fs` -/
def diffs (d : α → α → β) : List α → List β
  | [] => []
  | [_] => []
  | a :: b :: l => d a b :: diffs d (b :: l)

/-- state: `initial_state` (a one-column array), `none` before the first chunk. -/
def derivativeStep (init : α) (d : α → α → β) (st : Option (PD α ρ χ μ)) (y : PD α ρ χ μ) :
    Except Err (List (PD β ρ χ μ) × Option (PD α ρ χ μ)) :=
  let ini : PD α ρ χ μ := match st with
    | some s => s
    | none => { data := [init], s0 := y.s0 - 1, ann := y.ann }
  match cat ini y with
  | .error e => .error e
  | .ok samples =>
    -- np.diff(samples) = samples[..., 1:] - samples[..., :-1]: annotations of samples[..., 1:]
    .ok ([{ data := diffs d samples.data, s0 := samples.s0 + 1, ann := samples.ann }],
         some (samples.lastN 1))

/-! ### auto_th -/

inductive AutoSt (α ρ χ μ τ : Type)
  | first
  | acc (data : PD α ρ χ μ)
  | running (th : τ)

/-- `thr` is `data[..., :baseline].std() * n`, `cmp th x` the comparison of `mode`,
`addTh` is `metadata['auto_th'] = th`. -/
def autoThStep (thr : List α → τ) (cmp : τ → α → β) (addTh : τ → μ → μ) (baseline : Nat)
    (st : AutoSt α ρ χ μ τ) (y : PD α ρ χ μ) :
    Except Err (List (PD β ρ χ μ) × AutoSt α ρ χ μ τ) :=
  let emit (th : τ) (d : PD α ρ χ μ) : PD β ρ χ μ :=
    { data := d.data.map (cmp th), s0 := d.s0, ann := { d.ann with metadata := addTh th d.ann.metadata } }
  match st with
  | .running th => .ok ([emit th y], .running th)
  | _ =>
    match (match st with | .acc d => cat d y | _ => Except.ok y) with
    | .error e => .error e
    | .ok data =>
      if data.len < baseline then .ok ([], .acc data)
      else
        let th := thr (data.data.take baseline)
        .ok ([emit th data], .running th)

/-! ### event_rate -/

/-- an `Events` object: sample positions of its events **in the order they are listed** (any order),
its span `[start, stop)` and its sampling rate -/
structure Ev (ρ : Type) where
  events : List Nat
  start : Nat
  stop : Nat
  fs : ρ

/-- `Events.get_range_samples` as used by `event_rate` (its range check never fires there) -/
def Ev.range (e : Ev ρ) (a b : Nat) : Ev ρ :=
  { e with events := e.events.filter (fun s => a ≤ s && s < b), start := a, stop := b }

/-- the inner `while events.range_samples > block_size` loop; returns the event count of each block
(`Events.rate()` is `count / block_size * fs`) and the remaining events. -/
def rateLoop (size step : Nat) : Nat → Ev ρ → List Nat × Ev ρ
  | 0, e => ([], e)
  | fuel + 1, e =>
    if e.start + size < e.stop then
      let blk := e.range e.start (e.start + size)
      let r := rateLoop size step fuel (e.range (e.start + step) e.stop)
      (blk.events.length :: r.1, r.2)
    else ([], e)

structure RateSt (ρ : Type) where
  ev : Ev ρ
  /-- twice the `s0` of the next emitted block (`s0 = start + block_size * 0.5`) -/
  s0x2 : Nat
  /-- `fs = events.fs / block_step`, computed once from the first `Events` object -/
  fs : ρ

/-- An emitted block is `PipelineData([rate], s0=s0, fs=fs)`: its `data` are the event **counts** of the
windows (the rate is `count / block_size * events.fs`), its `s0` field holds **twice** the `s0`
(`start + block_size * 0.5` is a half-integer), `chDef`/`mdEmpty` are the constructor defaults
(`[None]`, `{}`).  `combine_events` raises `ValueError` on a gap and on a different sampling rate. -/
def eventRateStep [DecidableEq ρ] (divFs : ρ → Nat → ρ) (chDef : χ) (mdEmpty : μ) (size step : Nat)
    (st : Option (RateSt ρ)) (e : Ev ρ) :
    Except Err (List (PD Nat ρ χ μ) × Option (RateSt ρ)) :=
  if step = 0 then .error .diverges else
  match st with
  | none => .ok ([], some { ev := e, s0x2 := 2 * e.start + size, fs := divFs e.fs step })
  | some st =>
    if e.start ≠ st.ev.stop then .error .valueError else
    if e.fs ≠ st.ev.fs then .error .valueError else
    let ev : Ev ρ := { events := st.ev.events ++ e.events, start := st.ev.start, stop := e.stop, fs := st.ev.fs }
    let r := rateLoop size step (ev.stop - ev.start) ev
    if r.1.isEmpty then .ok ([], some { st with ev := r.2 })
    else
      .ok ([{ data := r.1, s0 := (st.s0x2 : Int), ann := { fs := st.fs, channel := chDef, metadata := mdEmpty } }],
           some { st with ev := r.2, s0x2 := st.s0x2 + 2 * r.1.length })

/-! ### running a stage over a stream -/

/-- feed the chunks one by one; collect everything passed to `target` -/
def runStage {σ I O : Type} (step : σ → I → Except Err (List O × σ)) : σ → List I → Except Err (List O × σ)
  | s, [] => .ok ([], s)
  | s, c :: cs =>
    match step s c with
    | .error e => .error e
    | .ok (o, s') =>
      match runStage step s' cs with
      | .error e => .error e
      | .ok (os, s'') => .ok (o ++ os, s'')

/-! ### the restart signal (`Ellipsis`) of `blocked` and `discard` -/

/-- what is sent to / passed on by a stage that understands the restart signal: an array or `Ellipsis` -/
inductive Sig (X : Type)
  | data (x : X)
  | restart
  deriving Repr, DecidableEq

/-- `d = (yield); if d is Ellipsis: <onRestart>; target(d); continue` in front of the ordinary body `step`:
the signal is passed on once, nothing else is emitted for it. -/
def withRestart {σ I O : Type} (step : σ → I → Except Err (List O × σ)) (onRestart : σ → σ) (st : σ) :
    Sig I → Except Err (List (Sig O) × σ)
  | .restart => .ok ([.restart], onRestart st)
  | .data d =>
    match step st d with
    | .error e => .error e
    | .ok (o, st') => .ok (o.map .data, st')

/-- `blocked` with its `Ellipsis` branch: `data = []` — the counter `n` is **not** cleared by the code. -/
def blockedStepE (b : Nat) :
    BlockedSt α ρ χ μ → Sig (PD α ρ χ μ) → Except Err (List (Sig (PD α ρ χ μ)) × BlockedSt α ρ χ μ) :=
  withRestart (blockedStep b) (fun st => { st with data := [] })

/-- `discard` with its `Ellipsis` branch: `to_discard = discard_samples`. -/
def discardStepE (d : Nat) : Nat → Sig (PD α ρ χ μ) → Except Err (List (Sig (PD α ρ χ μ)) × Nat) :=
  withRestart discardStep (fun _ => d)

/-- the annotated chunks of a stream that starts at sample `s0` -/
def stream (ann : Ann ρ χ μ) : Int → List (List α) → List (PD α ρ χ μ)
  | _, [] => []
  | s0, c :: cs => { data := c, s0 := s0, ann := ann } :: stream ann (s0 + c.length) cs

end
end Psi.Stages
