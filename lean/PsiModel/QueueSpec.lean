import PsiModel.Queue
/-
Per-sample timeline specification of the queue: `tick` emits exactly one sample.
No loop, no request size: what the queue plays at the next sample instant.
`runTicks n` is `n` ticks. The refinement theorem (PsiProofs/C02) says
`popBuffer n = runTicks n` for every request size, which is chunk invariance.
-/
namespace Psi.Queue

def bump (s : QState) : QState := { s with samples := s.samples + 1 }

/-- play sample `src.off` of the current source -/
def emitSrc (s : QState) (src : Src) : Cell × QState :=
  let off := src.off + 1
  (Cell.W src.key src.off,
   bump { s with source := if src.gen && off ≥ src.len then none else some { src with off := off } })

/-- no source is playing (and not paused): the gap, else the next trial, else silence for good -/
def afterSource (s : QState) : Except Err (Cell × QState) :=
  if s.delaySamples > 0 then .ok (Cell.Z, bump { s with delaySamples := s.delaySamples - 1 })
  else match nextTrial s with
    | .error e => .error e
    | .ok none => .ok (Cell.Z, bump { s with empty := true })
    | .ok (some s') =>
      match s'.source with
      | some src => if src.off < src.len then .ok (emitSrc s' src) else .error .fuel
      | none => .error .fuel

def tick (s : QState) : Except Err (Cell × QState) :=
  if s.paused then .ok (Cell.Z, bump s)
  else match s.source with
    | some src => if src.off < src.len then .ok (emitSrc s src) else afterSource { s with source := none }
    | none => afterSource s

def runTicks : Nat → QState → Except Err (List Cell × QState)
  | 0, s => .ok ([], s)
  | n + 1, s =>
    match tick s with
    | .error e => .error e
    | .ok (c, s') =>
      match runTicks n s' with
      | .error e => .error e
      | .ok (cs, s'') => .ok (c :: cs, s'')

/-! ### Flag-indexed timeline: `pop_buffer(n, decrement=...)`

The same per-sample step with the flag `dec` of the request in force at that sample instant:
`dec = true` is `tick` (next_trial decrements the counter), `dec = false` uses `nextTrialND`
(no counter changes, no key leaves the ordering). A *decrement schedule* is the list of the flags
in force at consecutive sample instants; `runSched` plays one sample per element. -/

def nextTrialD (dec : Bool) (s : QState) : Except Err (Option QState) :=
  if dec then nextTrial s else nextTrialND s

def afterSourceD (dec : Bool) (s : QState) : Except Err (Cell × QState) :=
  if s.delaySamples > 0 then .ok (Cell.Z, bump { s with delaySamples := s.delaySamples - 1 })
  else match nextTrialD dec s with
    | .error e => .error e
    | .ok none => .ok (Cell.Z, bump { s with empty := true })
    | .ok (some s') =>
      match s'.source with
      | some src => if src.off < src.len then .ok (emitSrc s' src) else .error .fuel
      | none => .error .fuel

def tickD (dec : Bool) (s : QState) : Except Err (Cell × QState) :=
  if s.paused then .ok (Cell.Z, bump s)
  else match s.source with
    | some src => if src.off < src.len then .ok (emitSrc s src) else afterSourceD dec { s with source := none }
    | none => afterSourceD dec s

/-- one `tickD d` per element `d` of the schedule -/
def runSched : List Bool → QState → Except Err (List Cell × QState)
  | [], s => .ok ([], s)
  | d :: ds, s =>
    match tickD d s with
    | .error e => .error e
    | .ok (c, s') =>
      match runSched ds s' with
      | .error e => .error e
      | .ok (cs, s'') => .ok (c :: cs, s'')

/-- `n` samples with the same flag -/
def runTicksD (dec : Bool) (n : Nat) (s : QState) : Except Err (List Cell × QState) :=
  runSched (List.replicate n dec) s

end Psi.Queue
