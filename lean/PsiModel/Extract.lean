/-
Model of `capture_epoch` and `extract_epochs` (psiaudio/pipeline.py).

Code-faithful: one `Capture` per `capture_epoch` coroutine, one `State` for the
locals of `extract_epochs`, one `step` per `(yield)` of `extract_epochs`, executed
in the order of the source (append to prior -> removals with the per-call `skip`
list -> feed pending -> intake with replay over `prior` -> `tlb` update -> emit
batch -> prune -> done-callback test).

`queue` is shared with the rest of the program: requests may be appended to it *during* a
call, after its intake loop has drained it and before its done test reads `len(queue)` —
re-entrantly by `target` (a consumer that schedules the next epoch when it is handed one) or
by another thread (the generation thread posting the queue's `added` notifications).  A
`Call` carries them as `late`; they stay in `queue` (`State.queue`), the done test sees them,
and the intake loop of the next call takes them in before that call's own requests.

Sample values are abstract (`α` = one *column* of the input: a scalar for 1-D
input, the vector of all channels for 2-D input).  Time is in samples; the two
`round(...)` conversions of lines 816-817 are done by the caller (harness), a
request carries the resulting integers `(s, len)`.

Core Lean only.
-/
namespace Psi.Extract

/-- One entry of `queue` after the conversion to samples (pipeline.py 812-818).
`key` stands for the dictionary key `(info['t0'], info.get('key'))`;
`tag` stands for everything else the entry carries (`info`, `metadata`). -/
structure Request where
  key : Nat
  s : Int
  len : Nat
  tag : Nat
  deriving DecidableEq, Repr

/-- What a `capture_epoch` coroutine passes to its `target`. `missed = true` is
the `PipelineData([], ...)` of the "missed the start" branch. -/
structure Epoch (α : Type) where
  req : Request
  missed : Bool
  data : List α
  deriving Repr

/-- Locals of a suspended `capture_epoch` coroutine (pipeline.py 619-626). -/
structure Capture (α : Type) where
  req : Request            -- epoch_s0 (= req.s), info, md
  currentS0 : Int          -- current_s0
  remaining : Nat          -- epoch_samples (counted down)
  acc : List (List α)      -- accumulated_data

/-- `capture_epoch(t0, epoch_samples, info, ...)` up to its first `(yield)`. -/
def Capture.new {α} (r : Request) : Capture α :=
  { req := r, currentS0 := r.s, remaining := r.len, acc := [] }

/-- Result of one `send((slb, data))` to a `capture_epoch` coroutine. -/
inductive Fed (α : Type) where
  | stop (e : Epoch α)     -- `target(...)` was called, then `break` (StopIteration)
  | more (c : Capture α)   -- back at `(yield)`

/-- One pass of the `while True` body of `capture_epoch` (pipeline.py 628-672,
`auto_send = False`). -/
def Capture.feed {α} (c : Capture α) (slb : Nat) (chunk : List α) : Fed α :=
  if c.currentS0 < (slb : Int) then
    -- missed the start of the epoch
    .stop { req := c.req, missed := true, data := [] }
  else if c.currentS0 ≤ ((slb + chunk.length : Nat) : Int) then
    let i := (c.currentS0 - (slb : Int)).toNat
    let d := min c.remaining (chunk.length - i)
    let acc := c.acc ++ [(chunk.drop i).take d]
    if c.remaining - d = 0 then
      .stop { req := c.req, missed := false, data := acc.flatten }
    else
      .more { c with currentS0 := c.currentS0 + (d : Int), remaining := c.remaining - d, acc := acc }
  else
    .more c

/-- `for prior_sample in prior_samples: epoch_coroutine.send(prior_sample)`
(pipeline.py 826-827); stops at the first StopIteration. -/
def replay {α} : Capture α → List (Nat × List α) → Fed α
  | c, [] => .more c
  | c, (slb, ch) :: rest =>
    match c.feed slb ch with
    | .stop e => .stop e
    | .more c' => replay c' rest

/-- `epoch_coroutines`: an insertion-ordered dict.  Its key `(info['t0'], info.get('key'))`
is computed from the very `info` handed to the coroutine, so the model keeps the list of
coroutines and reads the key off `c.req.key`. -/
abbrev Pending (α : Type) := List (Capture α)

def hasKey {α} (p : Pending α) (k : Nat) : Bool := p.any (fun c => c.req.key == k)

/-- The `while removed_queue:` loop (pipeline.py 768-783): returns the remaining
`epoch_coroutines` and the `skip` list (in append order). -/
def removeAll {α} : Pending α → List Nat → Pending α × List Nat
  | p, [] => (p, [])
  | p, k :: ks =>
    if hasKey p k then removeAll (p.filter (fun c => c.req.key != k)) ks
    else
      let r := removeAll p ks
      (r.1, k :: r.2)

/-- The `for key, epoch_coroutine in list(epoch_coroutines.items())` loop
(pipeline.py 792-796): remaining coroutines (dict order kept) and the epochs
appended to `epochs`, in order. -/
def feedAll {α} : Pending α → Nat → List α → Pending α × List (Epoch α)
  | [], _, _ => ([], [])
  | c :: rest, slb, ch =>
    let r := feedAll rest slb ch
    match c.feed slb ch with
    | .stop e => (r.1, e :: r.2)
    | .more c' => (c' :: r.1, r.2)

/-- The `while queue:` loop (pipeline.py 803-833). `none` = the
`ValueError('Duplicate epochs not supported')` of line 829. -/
def intakeAll {α} (prior : List (Nat × List α)) :
    Pending α → List Nat → List Request → Option (Pending α × List (Epoch α))
  | p, _, [] => some (p, [])
  | p, skip, r :: rs =>
    if skip.contains r.key then
      intakeAll prior p (skip.erase r.key) rs
    else
      match replay (Capture.new r) prior with
      | .stop e =>
        match intakeAll prior p skip rs with
        | some (p', es) => some (p', e :: es)
        | none => none
      | .more c =>
        if hasKey p r.key then none
        else intakeAll prior (p ++ [c]) skip rs

/-- Can `concat(epochs, axis=-3)` / `np.concatenate([e[np.newaxis] ...])`
(pipeline.py 843-846) succeed: all epochs of the batch have the shape of the first. -/
def mergeOk {α} : List (Epoch α) → Bool
  | [] => true
  | e :: rest => rest.all (fun e' => e'.missed == e.missed && e'.data.length == e.data.length)

/-- The prune loop (pipeline.py 852-858): `tub < tlb - buffer_samples`. -/
def prune {α} (B tlb : Nat) (prior : List (Nat × List α)) : List (Nat × List α) :=
  prior.dropWhile (fun x => decide (x.1 + x.2.length + B < tlb))

/-- Locals of `extract_epochs` between two `(yield)`s, and what `queue` holds then. -/
structure State (α : Type) where
  tlb : Nat
  pending : Pending α                -- epoch_coroutines (insertion order)
  prior : List (Nat × List α)        -- prior_samples
  bufferSamples : Nat                -- buffer_samples
  doneFired : Bool                   -- empty_queue_cb is None
  dead : Bool                        -- the generator raised and is finished
  queue : List Request               -- `queue`: requests appended after the intake loop of the last call

def State.init {α} (B : Nat) : State α :=
  { tlb := 0, pending := [], prior := [], bufferSamples := B, doneFired := false, dead := false,
    queue := [] }

/-- One `send(data)` together with what the caller put into `queue`,
`removed_queue` and `source_complete` since the previous `send`. -/
structure Op (α : Type) where
  chunk : List α
  reqs : List Request
  rems : List Nat
  complete : Bool          -- source_complete.is_set() at the end of this call

/-- One `send(data)` as it runs: besides the `Op`, the requests appended to `queue` while the
call is running, after its intake loop (`while queue:` 803-833) has ended and before its done
test (860-863) — by `target(merged)` (line 847) re-entrantly, or by another thread. -/
structure Call (α : Type) extends Op α where
  late : List Request

inductive Outcome (α : Type) where
  | ok (batch : List (Epoch α)) (fired : Bool)   -- `target(merged)` iff batch ≠ []; `empty_queue_cb()` iff fired
  | valueError                                   -- raised out of `send`
  | dead                                         -- `send` on the finished generator (StopIteration)

/-- One iteration of the `while True` of `extract_epochs` (763-867). -/
def call {α} (st : State α) (c : Call α) : State α × Outcome α :=
  if st.dead then (st, .dead) else
  let prior1 := st.prior ++ [(st.tlb, c.chunk)]
  let rm := removeAll st.pending c.rems
  let fd := feedAll rm.1 st.tlb c.chunk
  -- `queue` holds what the previous call left there, then what the caller appended since
  match intakeAll prior1 fd.1 rm.2 (st.queue ++ c.reqs) with
  | none => ({ st with dead := true }, .valueError)
  | some (pending, es2) =>
    let epochs := fd.2 ++ es2
    let tlb := st.tlb + c.chunk.length
    if !mergeOk epochs then ({ st with dead := true }, .valueError) else
    let prior := prune st.bufferSamples tlb prior1
    -- the intake loop has drained `queue`; by now it holds `c.late`
    let queue := c.late
    -- source_complete.is_set() and len(queue) == 0 and len(epoch_coroutines) == 0 and empty_queue_cb is not None
    let fire := c.complete && queue.isEmpty && pending.isEmpty && !st.doneFired
    ({ st with tlb := tlb, pending := pending, prior := prior, queue := queue,
               doneFired := st.doneFired || fire }, .ok epochs fire)

/-- A call during which nothing is appended to `queue` (single-threaded use with a `target`
that does not post requests). -/
def step {α} (st : State α) (op : Op α) : State α × Outcome α :=
  call st { op with late := [] }

/-- Run a whole history of calls; one outcome per call. -/
def runCalls {α} : State α → List (Call α) → State α × List (Outcome α)
  | st, [] => (st, [])
  | st, c :: cs =>
    let r := call st c
    let rr := runCalls r.1 cs
    (rr.1, r.2 :: rr.2)

/-- Run a whole history; one outcome per call. -/
def run {α} : State α → List (Op α) → State α × List (Outcome α)
  | st, [] => (st, [])
  | st, op :: ops =>
    let r := step st op
    let rr := run r.1 ops
    (rr.1, r.2 :: rr.2)

end Psi.Extract
