import PsiModel.PData
/-
Model of `pipeline.reject_epochs` (psiaudio/pipeline.py): one `send` of a batch of
epochs = validation, threshold look-up, accept mask, boolean indexing of the batch on
the epoch axis (for annotated input: `PipelineData.__getitem__`, i.e. the model of
PsiModel/PData.lean), forwarding, status callback.

Sample values live on an integer lattice (the harness scales by a power of two), the
criterion is exact integer arithmetic: `max |e| < th` or `max e − min e < th`.
Core Lean only.
-/
namespace Psi.Reject
open Psi.PData

inductive Mode | absValue | amplitude
  deriving Repr, DecidableEq

inductive RErr | valueError | stopIteration | other (e : Err)
  deriving Repr, DecidableEq

def maxList : List Int → Option Int
  | [] => none
  | x :: xs => some (xs.foldl max x)

def minList : List Int → Option Int
  | [] => none
  | x :: xs => some (xs.foldl min x)

/-- the criterion of one epoch: `np.max(np.abs(s))` / `np.ptp(s)`; `none` for an empty epoch
(NumPy refuses to reduce a zero-size axis). -/
def criterion (mode : Mode) (e : List Int) : Option Int :=
  match mode with
  | .absValue => maxList (e.map Int.natAbs |>.map Int.ofNat)
  | .amplitude =>
    match maxList e, minList e with
    | some hi, some lo => some (hi - lo)
    | _, _ => none

/-- accepted iff the criterion is STRICTLY below the threshold. -/
def accept (mode : Mode) (th : Int) (e : List Int) : Option Bool :=
  (criterion mode e).map fun c => decide (c < th)

/-- a batch handed to the coroutine. -/
structure Batch where
  annotated : Bool
  shape : List Nat
  values : List Int          -- row-major samples
  s0 : Int := 0              -- annotations (annotated input only)
  fs : Rat := 1
  channel : Chan := .one none
  metadata : Meta := .one 0
  deriving Repr

/-- cut `l` into `k` rows of `len` samples. -/
def rows (len : Nat) : Nat → List Int → List (List Int)
  | 0, _ => []
  | k + 1, l => l.take len :: rows len k (l.drop len)

/-- the checks at the top of the loop body. -/
def validate (b : Batch) : Bool :=
  if b.annotated then
    let nch := if b.shape.length = 1 then 1 else shapeM2 b.shape
    nch = 1 && b.shape.length ≥ 3
  else
    b.shape.length = 3 && b.shape.getD 1 0 = 1

/-- keep the entries whose flag is set. -/
def keep {α} : List α → List Bool → List α
  | x :: xs, true :: ms => x :: keep xs ms
  | _ :: xs, false :: ms => keep xs ms
  | _, _ => []

/-- what one `send` produces. -/
structure Out where
  mask : List Bool                    -- argument of the status callback
  forwarded : Option (List (List Int))  -- epochs passed to the target (`none`: target not called)
  metadata : Option Meta              -- metadata of the forwarded array (annotated input)
  shape : List Nat                    -- shape of the forwarded array
  s0 : Int
  fs : Rat
  channel : Chan
  deriving Repr

/-- one `send(data)` with threshold `th` in force. -/
def step (mode : Mode) (th : Int) (b : Batch) : Except RErr Out :=
  if !validate b then .error .valueError else
  let ne := b.shape.getD 0 0
  let nt := b.shape.getD 2 0
  let epochs := rows nt ne b.values
  match epochs.mapM (accept mode th) with
  | none => .error .valueError                       -- zero-length epochs: np.max refuses
  | some mask =>
    if ne = 0 && nt = 0 then .error .valueError else
    if b.annotated then
      let pd : PD := ⟨b.shape, List.range (prod b.shape), b.s0, b.fs, b.channel, b.metadata⟩
      match getitem pd (.one (.barr mask)) with
      | .error e => .error (.other e)
      | .ok (.scalar _) => .error (.other .typeError)
      | .ok (.arr r) =>
        let fwd := rows nt (r.shape.getD 0 0) (r.data.map fun i => b.values.getD i 0)
        .ok ⟨mask, if r.shape.getD 0 0 = 0 then none else some fwd, some r.metadata, r.shape, r.s0, r.fs, r.channel⟩
    else
      let fwd := keep epochs mask
      .ok ⟨mask, if fwd.isEmpty then none else some fwd, none, [fwd.length, 1, nt], 0, 1, .one none⟩

/-- the coroutine over a sequence of sends: an exception ends it (later sends raise StopIteration). -/
def run (mode : Mode) : Bool → List (Int × Batch) → List (Except RErr Out)
  | _, [] => []
  | false, _ :: rest => .error .stopIteration :: run mode false rest
  | true, (th, b) :: rest =>
    match step mode th b with
    | .error e => .error e :: run mode false rest
    | .ok o => .ok o :: run mode true rest

end Psi.Reject
