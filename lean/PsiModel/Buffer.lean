/-
Model of `psiaudio/buffer.py :: SignalBuffer` (C14), working in *samples*.

Code-faithful, branch by branch (line numbers of buffer.py at the pinned commit):
  `init`              __init__ 42-52        right-aligned storage, `_ilb = capacity`
  `toIndex`           samples_to_index 88-91
  `samplesLb/Ub`      get_samples_lb/ub 226-232
  `rangeSamples`      get_range_samples 126-141 (two bound checks, then a Python slice)
  `rangeFilled`       get_range_filled 93-114  (FIXED arithmetic, see notes/C14_fix_2.diff;
                                               `rangeFilledOrig` is the code as found)
  `latest`            get_latest 188-217
  `append`            append_data 143-162
  `invalidateIdx`     _invalidate 164-173   (FIXED guard `i <= self._ilb`, see notes/C14_fix_1.diff;
                                               `invalidateIdxOrig` is the code as found)
  `invalidateSamples` invalidate_samples 179-186
  `resizeE/resize`    resize 54-72 (re-reads the latest `size` samples with fill)

Sample values are abstract (`α`): the model says *which* value sits at *which* position.
For an `n_channels` buffer take `α := ` a column of per-channel values: every NumPy statement
of buffer.py acts on the last axis only (`[..., a:b]`) or on the whole array, so channels are
independent columns (see `State.map` and theorem `channels_independent` in PsiProofs.C14).
The seconds API (`round(t*fs)`) is outside the model: the harness feeds times that map to
samples exactly. Core Lean only.
-/
namespace Psi.Buffer

inductive Err | indexError | valueError
  deriving Repr, DecidableEq

/-- The mutable attributes of a `SignalBuffer`. -/
structure State (α : Type) where
  /-- `_buffer_samples` -/
  cap : Nat
  /-- `_buffer` along its last axis -/
  buf : List α
  /-- `_samples` -/
  samples : Nat
  /-- `_ilb`: index in `buf` of the oldest valid sample -/
  ilb : Nat
  /-- `_fill_value` -/
  fillv : α
  /-- the cell written by `self._buffer[..., :-i] = np.nan` -/
  nanv : α
  deriving Repr, DecidableEq

variable {α : Type}

/-- `__init__` (capacity already converted to samples: `int(np.ceil(fs*size))`). -/
def init (cap : Nat) (fillv nanv : α) : State α :=
  { cap := cap, buf := List.replicate cap fillv, samples := 0, ilb := cap,
    fillv := fillv, nanv := nanv }

/-- `get_samples_lb`: `self._samples - self._buffer_samples + self._ilb`. -/
def samplesLb (s : State α) : Int := (s.samples : Int) - s.cap + s.ilb

/-- `get_samples_ub`. -/
def samplesUb (s : State α) : Int := s.samples

/-- `samples_to_index`: `i - self._samples + self._buffer_samples`. -/
def toIndex (s : State α) (i : Int) : Int := i - s.samples + s.cap

/-- Normalisation of one Python slice bound for a sequence of length `n`. -/
def pyNorm (n : Nat) (a : Int) : Nat :=
  if a < 0 then (a + n).toNat else min a.toNat n

/-- Python `l[a:b]` (step 1), negative bounds counted from the end. -/
def pySlice (l : List α) (a b : Int) : List α :=
  (l.take (pyNorm l.length b)).drop (pyNorm l.length a)

/-- `get_range_samples(lb, ub)`. -/
def rangeSamples (s : State α) (lb ub : Int) : Except Err (List α) :=
  let ilb := toIndex s lb
  let iub := toIndex s ub
  if ilb < s.ilb then .error .indexError
  else if iub > s.cap then .error .indexError
  else .ok (pySlice s.buf ilb iub)

/-- `get_range_samples()` with both defaults: the whole retained window. -/
def window (s : State α) : Except Err (List α) :=
  rangeSamples s (samplesLb s) (samplesUb s)

/-- `get_range_filled` as found in the repository (argument already in samples). -/
def rangeFilledOrig (s : State α) (ilb iub : Int) (fill : α) : Except Err (List α) :=
  let slb := samplesLb s
  let sub := samplesUb s
  let lpadding := max (slb - ilb) 0
  let elb := max slb ilb
  let rpadding := max (iub - sub) 0
  let eub := min sub iub
  match rangeSamples s elb eub with
  | .error e => .error e
  | .ok data => .ok (List.replicate lpadding.toNat fill ++ data ++ List.replicate rpadding.toNat fill)

/-- `get_range_filled` with the repaired bound arithmetic (notes/C14_fix_2.diff):
the padding never exceeds the request and the effective range is clipped into the window. -/
def rangeFilled (s : State α) (ilb iub : Int) (fill : α) : Except Err (List α) :=
  let slb := samplesLb s
  let sub := samplesUb s
  let lpadding := max (min slb iub - ilb) 0
  let elb := min (max slb ilb) sub
  let rpadding := max (iub - max sub ilb) 0
  let eub := max (min sub iub) elb
  match rangeSamples s elb eub with
  | .error e => .error e
  | .ok data => .ok (List.replicate lpadding.toNat fill ++ data ++ List.replicate rpadding.toNat fill)

/-- `get_latest(lb, ub, fill_value)`: bounds relative to the newest sample. -/
def latest (s : State α) (lb ub : Int) (fill : Option α) : Except Err (List α) :=
  let lb := lb + samplesUb s
  let ub := ub + samplesUb s
  match fill with
  | none => rangeSamples s lb ub
  | some f => rangeFilled s lb ub f

/-- `append_data` for `1 ≤ len data` (an empty chunk raises, see `appendE`). -/
def append (s : State α) (xs : List α) : State α :=
  let n := xs.length
  if n > s.cap then
    -- self._buffer[..., :] = data[..., -self._buffer_samples:]; self._ilb = 0
    { s with buf := xs.drop (n - s.cap), ilb := 0, samples := s.samples + n }
  else
    -- buffer[..., :-n] = buffer[..., n:]; buffer[..., -n:] = data; _ilb = max(0, _ilb - n)
    { s with buf := s.buf.drop n ++ xs, ilb := s.ilb - n, samples := s.samples + n }

/-- `append_data` including the failure on an empty chunk: `buffer[..., :-0] = buffer[..., 0:]`
assigns `cap` values to an empty slice (ValueError from NumPy, state untouched). -/
def appendE (s : State α) (xs : List α) : Except Err (State α) :=
  if xs.length = 0 ∧ 0 < s.cap then .error .valueError else .ok (append s xs)

/-- `_invalidate(i)` with the repaired guard `if i <= self._ilb` (notes/C14_fix_1.diff). -/
def invalidateIdx (s : State α) (i : Int) : State α :=
  if i ≤ s.ilb then
    { s with buf := List.replicate s.buf.length s.fillv, ilb := s.cap }
  else
    let k := i.toNat
    -- buffer[..., -i:] = buffer[..., :i]; buffer[..., :-i] = nan; _ilb = _ilb + cap - i
    { s with buf := List.replicate (s.buf.length - k) s.nanv ++ s.buf.take k,
             ilb := s.ilb + s.cap - k }

/-- `_invalidate(i)` as found in the repository (guard `if i <= 0`). -/
def invalidateIdxOrig (s : State α) (i : Int) : State α :=
  if i ≤ 0 then
    { s with buf := List.replicate s.buf.length s.fillv, ilb := s.cap }
  else
    let k := i.toNat
    { s with buf := List.replicate (s.buf.length - k) s.nanv ++ s.buf.take k,
             ilb := s.ilb + s.cap - k }

/-- `invalidate_samples(i)` for a sample number `i ≥ 0`. -/
def invalidateSamples (s : State α) (i : Nat) : State α :=
  if i ≥ s.samples then s
  else
    let s' := invalidateIdx s (toIndex s i)
    -- di = self.get_samples_ub() - i; self._samples -= di
    { s' with samples := s'.samples - (s'.samples - i) }

def invalidateSamplesOrig (s : State α) (i : Nat) : State α :=
  if i ≥ s.samples then s
  else
    let s' := invalidateIdxOrig s (toIndex s i)
    { s' with samples := s'.samples - (s'.samples - i) }

/-- `resize(size)` with `size` already in samples: the storage becomes
`get_latest(-size, fill_value=self._fill_value)`; an exception leaves the object untouched. -/
def resizeE (s : State α) (c : Nat) : Except Err (State α) :=
  match latest s (-(c : Int)) 0 (some s.fillv) with
  | .error e => .error e
  | .ok b =>
    let new := b.length
    .ok { s with buf := b, cap := new,
                 ilb := ((s.ilb : Int) + ((new : Int) - s.cap)).toNat }

def resize (s : State α) (c : Nat) : State α :=
  match resizeE s c with
  | .ok s' => s'
  | .error _ => s

/-- The state-changing operations of a history. -/
inductive Op (α : Type)
  | append (xs : List α)
  | invalidate (i : Nat)
  | resize (c : Nat)
  deriving Repr

def step (s : State α) : Op α → State α
  | .append xs => append s xs
  | .invalidate i => invalidateSamples s i
  | .resize c => resize s c

def run (s : State α) (ops : List (Op α)) : State α := ops.foldl step s

/-- Apply a function to every stored cell (used to project one channel out of a column). -/
def State.map {β : Type} (f : α → β) (s : State α) : State β :=
  { cap := s.cap, buf := s.buf.map f, samples := s.samples, ilb := s.ilb,
    fillv := f s.fillv, nanv := f s.nanv }

def Op.map {β : Type} (f : α → β) : Op α → Op β
  | .append xs => .append (xs.map f)
  | .invalidate i => .invalidate i
  | .resize c => .resize c

/-! ## Specification: the logical stream and the lower bound of what is retained -/

structure Spec (α : Type) where
  /-- everything appended so far and not invalidated -/
  stream : List α
  /-- sample number of the oldest retained sample -/
  lo : Nat
  cap : Nat
  deriving Repr, DecidableEq

namespace Spec

def init (cap : Nat) : Spec α := { stream := [], lo := 0, cap := cap }

def hi (sp : Spec α) : Nat := sp.stream.length

/-- Retained window: the samples `[lo, hi)` of the logical stream. -/
def window (sp : Spec α) : List α := sp.stream.drop sp.lo

/-- After an operation that leaves `avail` candidate samples ending at the new end of the
stream, the most recent `min cap avail` of them are retained. -/
def retain (stream : List α) (cap avail : Nat) : Spec α :=
  { stream := stream, lo := stream.length - min cap avail, cap := cap }

/-- append: the old window plus the new chunk are available. -/
def append (sp : Spec α) (xs : List α) : Spec α :=
  retain (sp.stream ++ xs) sp.cap ((sp.hi - sp.lo) + xs.length)

/-- invalidate at sample `i`: the stream is cut at `i`; what was retained below `i` is available. -/
def invalidate (sp : Spec α) (i : Nat) : Spec α :=
  if i ≥ sp.hi then sp else retain (sp.stream.take i) sp.cap (i - sp.lo)

/-- resize: new capacity, the old window is available. -/
def resize (sp : Spec α) (c : Nat) : Spec α :=
  retain sp.stream c (sp.hi - sp.lo)

/-- The samples `[lb, ub)` of the logical stream. -/
def slice (sp : Spec α) (lb ub : Nat) : List α := (sp.stream.drop lb).take (ub - lb)

/-- A range read: exactly the requested samples when the request lies inside the window,
`IndexError` when it reaches outside. -/
def read (sp : Spec α) (lb ub : Int) : Except Err (List α) :=
  if lb < sp.lo ∨ (sp.hi : Int) < ub then .error .indexError else .ok (sp.slice lb.toNat ub.toNat)

/-- Clip a sample number into the window `[lo, hi]`. -/
def clip (sp : Spec α) (x : Int) : Nat := (min (max (sp.lo : Int) x) sp.hi).toNat

/-- A filled read of `[a, b)`: `fill` for the requested samples before the window, the
requested samples that are retained, `fill` for the requested samples after the window. -/
def filled (sp : Spec α) (a b : Int) (fill : α) : List α :=
  List.replicate (min (sp.lo : Int) b - a).toNat fill
    ++ sp.slice (sp.clip a) (sp.clip b)
    ++ List.replicate (b - max (sp.hi : Int) a).toNat fill

def step (sp : Spec α) : Op α → Spec α
  | .append xs => sp.append xs
  | .invalidate i => sp.invalidate i
  | .resize c => sp.resize c

def run (sp : Spec α) (ops : List (Op α)) : Spec α := ops.foldl step sp

end Spec

end Psi.Buffer
