/-!
# C19 — Python name resolution over scope tables (core Lean only)

The data (`Package`) is produced from the source AST by `harness/translate_names.py`;
nothing here is specific to psiaudio.  `resolve` implements Python's compile-time
LEGB rule the way CPython's `symtable.c` does:

* a name declared `global` in the reading scope goes straight to the module/builtins;
* a name declared `nonlocal` must be bound by an enclosing *function-like* scope;
* a name bound in the reading scope is local (class bodies included; flow-insensitive);
* otherwise the enclosing scopes are walked outwards: **class scopes are skipped**
  (only their implicit `__class__` cell is visible to nested functions), a function-like
  scope binding the name captures it, a function-like scope declaring it `global`
  sends it to the module, and the module scope ends the walk with
  "module globals, then builtins".

`BoundAt` is the same rule as a declarative (fuel-free) inductive relation; soundness and
completeness of `resolve`/`check` against it are proved in `PsiProofs/C19.lean`.
-/
namespace Psi.Scope

inductive Kind where
  | module | function | lambda | comprehension | «class»
  deriving DecidableEq, Repr, Inhabited

/-- An attribute chain `base.a₁.a₂…` read at `line`. -/
structure Chain where
  base : Nat
  path : List Nat
  line : Nat
  deriving DecidableEq, Repr

structure Scope where
  kind : Kind
  /-- index of the lexically enclosing scope (the module scope, index 0, is its own parent) -/
  parent : Nat
  /-- names bound here: parameters, assignment/for/with/except/walrus targets, imports, def/class
      names — minus those declared `global`/`nonlocal` here -/
  bound : List Nat
  globals : List Nat
  nonlocals : List Nat
  /-- implicit cells a class offers to the functions nested in it (`__class__`) -/
  cells : List Nat
  /-- names bound here solely by an import of a module: name ↦ module object -/
  imports : List (Nat × Nat)
  /-- every evaluated `Name(Load)` of the scope: (name, line) -/
  loads : List (Nat × Nat)
  chains : List Chain
  deriving Repr

/-- A module object as seen by attribute access: its attribute names, and which of those
    attributes are themselves modules. -/
structure ModObj where
  attrs : List Nat
  submods : List (Nat × Nat)
  deriving Repr

structure Module where
  scopes : List Scope
  /-- `from M import a`: (module object of M, a, line) -/
  fromImports : List (Nat × Nat × Nat)
  deriving Repr

structure Package where
  builtins : List Nat
  modobjs : List ModObj
  modules : List Module
  deriving Repr

/-- Where a name read in some scope is bound. -/
inductive Binding where
  | «local»                 -- bound in the reading scope itself
  | enclosing (j : Nat)     -- closure variable of function-like scope `j`
  | cell (j : Nat)          -- implicit cell of class scope `j`
  | global                  -- module-level binding
  | builtin
  deriving DecidableEq, Repr

def mem (n : Nat) : List Nat → Bool
  | [] => false
  | a :: as => Nat.beq n a || mem n as

def lookup (n : Nat) : List (Nat × Nat) → Option Nat
  | [] => none
  | (a, v) :: as => if Nat.beq n a then some v else lookup n as

def Kind.functionLike : Kind → Bool
  | .function | .lambda | .comprehension => true
  | _ => false

/-- Module globals, then builtins. -/
def globalLookup (bi : List Nat) (m : List Scope) (n : Nat) : Option Binding :=
  match m[0]? with
  | none => none
  | some g =>
    if mem n g.bound then some .global
    else if mem n bi then some .builtin
    else none

/-- Walk outwards starting *at* enclosing scope `j` (fuel bounds the walk; `parent < j` is demanded
    at every step, so fuel `j + 1` always suffices). -/
def enclosing (bi : List Nat) (m : List Scope) (n : Nat) : Nat → Nat → Option Binding
  | 0, _ => none
  | fuel + 1, j =>
    match m[j]? with
    | none => none
    | some s =>
      match s.kind with
      | .module => if j = 0 then globalLookup bi m n else none
      | .class =>
        if mem n s.cells then some (.cell j)
        else if s.parent < j then enclosing bi m n fuel s.parent else none
      | _ =>
        if mem n s.bound then some (.enclosing j)
        else if mem n s.globals then globalLookup bi m n
        else if s.parent < j then enclosing bi m n fuel s.parent else none

/-- Resolution of name `n` read in scope `i` of module `m`. -/
def resolve (bi : List Nat) (m : List Scope) (i n : Nat) : Option Binding :=
  match m[i]? with
  | none => none
  | some s =>
    if mem n s.globals then globalLookup bi m n
    else match s.kind with
      | .module => if i = 0 then globalLookup bi m n else none
      | _ =>
        if mem n s.nonlocals then
          (if s.parent < i then
            match enclosing bi m n i s.parent with
            | some (.enclosing j) => some (.enclosing j)
            | _ => none
           else none)
        else if mem n s.bound then some .local
        else if s.parent < i then enclosing bi m n i s.parent else none

/-- `mo.a₁.a₂…`: every attribute exists, following sub-module objects as far as the chain stays
    inside modules (what lies beyond a non-module attribute is an instance attribute: outside the claim). -/
def chainOk (mods : List ModObj) : Nat → List Nat → Bool
  | _, [] => true
  | mo, a :: rest =>
    match mods[mo]? with
    | none => false
    | some M =>
      mem a M.attrs &&
        (match lookup a M.submods with
         | some mo' => chainOk mods mo' rest
         | none => true)

/-- The scope whose import table decides whether a binding denotes a module. -/
def bindingScope (i : Nat) : Binding → Option Nat
  | .local => some i
  | .enclosing j => some j
  | .global => some 0
  | _ => none

/-- The module object a resolved name denotes, if it is bound solely by module imports. -/
def importedModule (m : List Scope) (i n : Nat) (w : Binding) : Option Nat :=
  match bindingScope i w with
  | none => none
  | some j =>
    match m[j]? with
    | none => none
    | some s => lookup n s.imports

def chainCheck (p : Package) (m : List Scope) (i : Nat) (c : Chain) : Bool :=
  match resolve p.builtins m i c.base with
  | none => true      -- an unresolved base is reported as a load
  | some w =>
    match importedModule m i c.base w with
    | none => true    -- the base is not (only) a module import here: outside the claim
    | some mo => chainOk p.modobjs mo c.path

/-- `all` over a list with the element's index. -/
def allIdx {α} (f : Nat → α → Bool) : Nat → List α → Bool
  | _, [] => true
  | k, a :: as => f k a && allIdx f (k + 1) as

def excusedMem (e : Nat × Nat × Nat) : List (Nat × Nat × Nat) → Bool
  | [] => false
  | (a, b, c) :: r => (Nat.beq e.1 a && Nat.beq e.2.1 b && Nat.beq e.2.2 c) || excusedMem e r

def Kind.isModule : Kind → Bool
  | .module => true
  | _ => false

/-- Well-formedness of the table entry: a non-module scope's parent precedes it. -/
def wfScope (i : Nat) (s : Scope) : Bool := s.kind.isModule || Nat.blt s.parent i

def checkScope (p : Package) (ex : List (Nat × Nat × Nat)) (mi : Nat) (m : List Scope) (i : Nat) (s : Scope) : Bool :=
  wfScope i s &&
  s.loads.all (fun l => (resolve p.builtins m i l.1).isSome || excusedMem (mi, i, l.1) ex) &&
  s.chains.all (chainCheck p m i)

def checkModule (p : Package) (ex : List (Nat × Nat × Nat)) (mi : Nat) (m : Module) : Bool :=
  allIdx (checkScope p ex mi m.scopes) 0 m.scopes &&
  m.fromImports.all (fun f => chainOk p.modobjs f.1 [f.2.1])

/-- The whole-package check with a list of excused `(module, scope, name)` loads. -/
def checkEx (p : Package) (ex : List (Nat × Nat × Nat)) : Bool :=
  allIdx (checkModule p ex) 0 p.modules

def check (p : Package) : Bool := checkEx p []

/-! ### Diagnostics (used by the driver; not part of any statement) -/

inductive Failure where
  | load (mi si name line : Nat)
  | chain (mi si base line : Nat)
  | fromImport (mi mo attr line : Nat)
  deriving Repr

def enumFrom {α} : Nat → List α → List (Nat × α)
  | _, [] => []
  | k, a :: as => (k, a) :: enumFrom (k + 1) as

def failures (p : Package) : List Failure :=
  (enumFrom 0 p.modules).flatMap fun (mi, m) =>
    ((enumFrom 0 m.scopes).flatMap fun (si, s) =>
      (s.loads.filterMap fun l =>
        if (resolve p.builtins m.scopes si l.1).isSome then none else some (Failure.load mi si l.1 l.2)) ++
      (s.chains.filterMap fun c =>
        if chainCheck p m.scopes si c then none else some (Failure.chain mi si c.base c.line))) ++
    (m.fromImports.filterMap fun f =>
      if chainOk p.modobjs f.1 [f.2.1] then none else some (Failure.fromImport mi f.1 f.2.1 f.2.2))

end Psi.Scope
