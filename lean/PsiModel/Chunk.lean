/-
Chunked generators: the algebra shared by the stimulus models (C01/C09).

A generator hands out samples chunk by chunk (`next state n`).  `drawAll` is a
whole history of `next` calls; `ChunkInvariant` says every history yields the
stream of a single request.  The combinators below are the *shapes* of the
psiaudio factories:

* `pointwise f`      – sample `k` is `f k` (Tone, SAMTone, Silence, …);
* `stream draw`      – `n` draws from a sequential source (`RandomState.uniform`);
* `mapG f g`         – sample-wise function of the inner output (affine, polarity);
* `mealy step t g`   – a state machine fed one inner sample at a time (`lfilter` with `zi`);
* `transformAt h g`  – inner sample at absolute index `k` becomes `h k x`
                       (Gate, envelopes, modulators once their fragment theorem is proved).

Core Lean only.
-/
namespace Psi.Chunk

structure Gen (σ α : Type) where
  next : σ → Nat → List α × σ

/-- Concatenation of the chunks of one draw history. -/
def drawAll {σ α : Type} (g : Gen σ α) : σ → List Nat → List α
  | _, [] => []
  | s, n :: ns => (g.next s n).1 ++ drawAll g (g.next s n).2 ns

/-- State after one draw history. -/
def stateAfter {σ α : Type} (g : Gen σ α) : σ → List Nat → σ
  | s, [] => s
  | s, n :: ns => stateAfter g (g.next s n).2 ns

/-- Every sequence of chunk sizes yields what a single request for the total yields. -/
def ChunkInvariant {σ α : Type} (g : Gen σ α) (s₀ : σ) : Prop :=
  ∀ ns : List Nat, drawAll g s₀ ns = (g.next s₀ ns.sum).1

/-! ### combinators -/

/-- `[f off, f (off+1), …, f (off+n-1)]` -/
def slice {α : Type} (f : Nat → α) (off n : Nat) : List α :=
  (List.range n).map fun i => f (off + i)

/-- Output `k` is `f k`; the state is the running offset. -/
def pointwise {α : Type} (f : Nat → α) : Gen Nat α where
  next off n := (slice f off n, off + n)

/-- `n` successive draws. -/
def drawN {τ α : Type} (draw : τ → α × τ) : τ → Nat → List α × τ
  | t, 0 => ([], t)
  | t, n + 1 =>
    let r := draw t
    let rest := drawN draw r.2 n
    (r.1 :: rest.1, rest.2)

def stream {τ α : Type} (draw : τ → α × τ) : Gen τ α where
  next := drawN draw

def mapG {σ α β : Type} (f : α → β) (g : Gen σ α) : Gen σ β where
  next s n := ((g.next s n).1.map f, (g.next s n).2)

/-- Run a Mealy machine over a list. -/
def runMealy {τ α β : Type} (step : τ → α → β × τ) : τ → List α → List β × τ
  | t, [] => ([], t)
  | t, x :: xs =>
    let r := step t x
    let rest := runMealy step r.2 xs
    (r.1 :: rest.1, rest.2)

def mealy {σ τ α β : Type} (step : τ → α → β × τ) (g : Gen σ α) : Gen (τ × σ) β where
  next s n :=
    let inner := g.next s.2 n
    let r := runMealy step s.1 inner.1
    (r.1, (r.2, inner.2))

/-- `[h off x₀, h (off+1) x₁, …]` -/
def applyAt {α β : Type} (h : Nat → α → β) : Nat → List α → List β
  | _, [] => []
  | off, x :: xs => h off x :: applyAt h (off + 1) xs

/-- Inner sample at absolute index `k` becomes `h k x`; the offset advances by the
length of the inner chunk (`Transform.next`: `self.offset += len(waveform)`). -/
def transformAt {σ α β : Type} (h : Nat → α → β) (g : Gen σ α) : Gen (Nat × σ) β where
  next s n :=
    let inner := g.next s.2 n
    (applyAt h s.1 inner.1, (s.1 + inner.1.length, inner.2))

end Psi.Chunk
