import PsiModel.Epochs
/-!
EXT18 — model of the integer/boolean helpers of psiaudio/util.py that property C18 does not name:
`epochs(x, pad)` with `pad ≠ 0`, `epochs_contain`, `epochs_overlap`, `int_to_TTL`, `bin_array`.
NOT part of property C18.  Core Lean only.

Code-faithful: the two padding loops of `epochs` use Python slices `x[s-pad:s]`, `x[e:e+pad]` whose
bounds may be negative (then they count from the END of the array) — `adjust` transcribes CPython's
`PySlice_AdjustIndices`; `np.searchsorted(col, t)` (side = 'left') on a sorted column is the number of
entries `< t`; `bisectLeft` is a binary search, equal to that count on sorted columns.
-/
namespace Psi.EpochsExt
open Psi.Epochs

/-! ### `epochs(x, pad)` -/

/-- CPython `PySlice_AdjustIndices` (step 1) for one bound of a slice of a sequence of length `n`:
negative bounds count from the end, then everything is clipped into `[0, n]`. -/
def adjust (n : Nat) (i : Int) : Nat :=
  if i < 0 then (if i + n < 0 then 0 else (i + n).toNat)
  else (if i ≥ n then n else i.toNat)

/-- the index range `[lo', hi')` that `x[lo:hi] = 1` writes (empty when `hi' ≤ lo'`) -/
def pySlice (n : Nat) (lo hi : Int) : Nat × Nat := (adjust n lo, adjust n hi)

def inSlices (sl : List (Nat × Nat)) (i : Nat) : Bool :=
  sl.any (fun p => decide (p.1 ≤ i) && decide (i < p.2))

/-- `for s in start: x[s-pad:s] = 1` and `for e in end: x[e:e+pad] = 1`
(`start`, `end` are computed BEFORE the loops, so the order of the writes is irrelevant). -/
def padSlices (x : List Bool) (pad : Int) : List (Nat × Nat) :=
  (tsRising x).map (fun (s : Nat) => pySlice x.length ((s : Int) - pad) (s : Int)) ++
  (tsFalling x).map (fun (e : Nat) => pySlice x.length (e : Int) ((e : Int) + pad))

/-- the caller's array after `epochs(x, pad)` (it is modified in place; `if pad:` skips the loops for 0) -/
def padded (x : List Bool) (pad : Int) : List Bool :=
  if pad = 0 then x else x.mapIdx (fun i b => b || inSlices (padSlices x pad) i)

/-- `util.epochs(x, pad)`: the returned table (or the exception) and the array `x` afterwards. -/
def epochsPad (x : List Bool) (pad : Int) : Except Err (List (Nat × Nat)) × List Bool :=
  (epochs (padded x pad), padded x pad)

/-- the same with the repair proposed in notes/EXT18_fix_1.diff: `x[max(s-pad, 0):s] = 1`. -/
def padSlicesFixed (x : List Bool) (pad : Int) : List (Nat × Nat) :=
  (tsRising x).map (fun (s : Nat) => pySlice x.length (max ((s : Int) - pad) 0) (s : Int)) ++
  (tsFalling x).map (fun (e : Nat) => pySlice x.length (e : Int) ((e : Int) + pad))

def paddedFixed (x : List Bool) (pad : Int) : List Bool :=
  if pad = 0 then x else x.mapIdx (fun i b => b || inSlices (padSlicesFixed x pad) i)

def epochsPadFixed (x : List Bool) (pad : Int) : Except Err (List (Nat × Nat)) × List Bool :=
  (epochs (paddedFixed x pad), paddedFixed x pad)

/-- SPEC: dilation by `pad` samples on both sides: sample `i` is high iff some high sample `j` of `x`
lies within distance `pad`. -/
def dilate (x : List Bool) (pad : Nat) : List Bool :=
  x.mapIdx (fun i _ => (List.range x.length).any
    (fun j => x[j]? == some true && decide (i ≤ j + pad) && decide (j ≤ i + pad)))

/-! ### `epochs_contain`, `epochs_overlap` -/

/-- `np.searchsorted(col, t)` with the default `side='left'` on a column sorted in non-decreasing order:
the number of entries `< t`. -/
def countLt (col : List Int) (t : Int) : Nat := col.countP (fun v => decide (v < t))

/-- the textbook binary search (side left): `lo = 0, hi = n;
while lo < hi: mid = lo + (hi - lo) / 2; if col[mid] < t then lo = mid + 1 else hi = mid`.
On a sorted column it returns `countLt` (`bisectLeft_eq_countLt`); on unsorted columns NumPy's own search
returns other indices (observed with NumPy 2.5) — outside the precondition of `np.searchsorted`, not modelled. -/
def bisectGo (col : Array Int) (t : Int) : Nat → Nat → Nat → Nat
  | 0, lo, _ => lo
  | fuel + 1, lo, hi =>
    if lo < hi then
      let mid := lo + (hi - lo) / 2
      match col[mid]? with
      | some v => if v < t then bisectGo col t fuel (mid + 1) hi else bisectGo col t fuel lo mid
      | none => lo
    else lo

def bisectLeft (col : List Int) (t : Int) : Nat :=
  bisectGo col.toArray t (col.length + 1) 0 col.length

/-- `util.epochs_contain(epochs, t)` for one time `t`: `i != j`. -/
def contain1 (e : List (Int × Int)) (t : Int) : Bool :=
  countLt (e.map (·.1)) t != countLt (e.map (·.2)) t

/-- `util.epochs_contain(epochs, ts)` for an array of times (searchsorted is elementwise in the key). -/
def epochsContain (e : List (Int × Int)) (ts : List Int) : List Bool := ts.map (contain1 e)

/-- one row `q` of `b` in `util.epochs_overlap(a, b)`. -/
def overlap1 (a : List (Int × Int)) (q : Int × Int) : Bool :=
  countLt (a.map (·.1)) q.1 != countLt (a.map (·.2)) q.2

def epochsOverlap (a b : List (Int × Int)) : List Bool := b.map (overlap1 a)

/-- the same two functions with the binary search in place of the count (identical on sorted columns:
`bisectLeft_eq_countLt`; the driver exposes both so that the correspondence run sees the search itself). -/
def contain1B (e : List (Int × Int)) (t : Int) : Bool :=
  bisectLeft (e.map (·.1)) t != bisectLeft (e.map (·.2)) t

def overlap1B (a : List (Int × Int)) (q : Int × Int) : Bool :=
  bisectLeft (a.map (·.1)) q.1 != bisectLeft (a.map (·.2)) q.2

/-! ### `bin_array`, `int_to_TTL` -/

/-- `(v >> k) & 1` on Python / two's-complement integers: `>>` is the arithmetic (floor) shift,
`& 1` of an integer of either sign is its residue mod 2. -/
def bitOf (v : Int) (k : Nat) : Nat := ((v >>> k) % 2).toNat

/-- `util.bin_array(number, bits)`: `range(bits)` is empty for `bits ≤ 0`. -/
def binArray (number : Int) (bits : Int) : List Nat :=
  (List.range bits.toNat).map (bitOf number)

inductive XErr | typeError
  deriving Repr, DecidableEq

/-- `util.int_to_TTL(a, width)`: row `k` = bit `k` of every entry.
`emptySeq`: the argument is an empty Python sequence — `np.array([])` is a float64 array and
`a >> bit` raises TypeError as soon as the loop runs once. -/
def intToTTL (emptySeq : Bool) (a : List Int) (width : Int) : Except XErr (List (List Bool)) :=
  if emptySeq && a.isEmpty && decide (0 < width) then .error .typeError
  else .ok ((List.range width.toNat).map (fun k => a.map (fun v => bitOf v k == 1)))

/-- SPEC: little-endian value of a bit list. -/
def fromBits : List Nat → Int
  | [] => 0
  | b :: bs => (b : Int) + 2 * fromBits bs

end Psi.EpochsExt
