import PsiModel.Epochs
/-
Model of the streaming edge detector `psiaudio.pipeline.edges` (pipeline.py 1064-1106), of the
`Events` container (334-423: `get_range_samples`, `get_latest_samples`) and of `combine_events`
(426-440), on top of the `util.epochs` / `util.debounce_epochs` model of `PsiModel.Epochs`.

Code-faithful: state = (the last `min_samples` samples, absolute index `s0` of the first of them);
one step = join with the new chunk, `debounce_epochs(epochs(joined), min_samples)`, drop the edges
at the array borders (`lb > 0`, `ub < len`), emit `Events(events, s0, s0 + n)`, advance.
Sample values are booleans (the code casts with `astype('bool')`).  Core Lean only.
-/
namespace Psi.Edges
open Psi.Epochs

inductive Kind | rising | falling
  deriving Repr, DecidableEq

inductive Detect | rising | falling | both
  deriving Repr, DecidableEq

/-- `detect in ('rising', 'both')` -/
def Detect.wantsRising : Detect → Bool
  | .rising => true | .both => true | .falling => false

/-- `detect in ('falling', 'both')` -/
def Detect.wantsFalling : Detect → Bool
  | .falling => true | .both => true | .rising => false

def Detect.wants (d : Detect) : Kind → Bool
  | .rising => d.wantsRising
  | .falling => d.wantsFalling

structure Event where
  kind : Kind
  sample : Int
  deriving Repr, DecidableEq

/-- an `Events` object: the events and the declared span `[start, stop)` -/
structure Block where
  events : List Event
  start : Int
  stop : Int
  deriving Repr, DecidableEq

/-- coroutine state between two chunks: `prior_samples` and `s0` (absolute index of `prior[0]`). -/
structure State where
  prior : List Bool
  s0 : Int
  deriving Repr, DecidableEq

/-- state after the first `(yield)`: `np.tile(initial_state, min_samples)`;
`s0 = first_chunk.s0 - min_samples` (`first_chunk.s0 = 0` for plain arrays). -/
def init (m : Nat) (initial : Bool) (s0in : Int) : State :=
  ⟨List.replicate m initial, s0in - m⟩

def toIntPairs (l : List (Nat × Nat)) : List (Int × Int) := l.map fun p => ((p.1 : Int), (p.2 : Int))

/-- body of the `for lb, ub in epochs:` loop: the events contributed by one debounced epoch -/
def evOfRun (detect : Detect) (s0 : Int) (len : Nat) (r : Int × Int) : List Event :=
  (if detect.wantsRising && decide (r.1 > 0) then [Event.mk .rising (r.1 + s0)] else []) ++
  (if detect.wantsFalling && decide (r.2 < (len : Int)) then [Event.mk .falling (r.2 + s0)] else [])

/-- the `for lb, ub in epochs:` loop building the event list -/
def blockEvents (detect : Detect) (s0 : Int) (len : Nat) (eps : List (Int × Int)) : List Event :=
  eps.flatMap (evOfRun detect s0 len)

/-- one iteration of the `while True:` loop -/
def step (m : Nat) (detect : Detect) (st : State) (chunk : List Bool) : Except Err (State × Block) :=
  let samples := st.prior ++ chunk
  match epochs samples with
  | .error e => .error e
  | .ok ep =>
    let eps := debounceEpochs (toIntPairs ep) m
    let events := blockEvents detect st.s0 samples.length eps
    .ok (⟨samples.drop (samples.length - m), st.s0 + chunk.length⟩,
         ⟨events, st.s0, st.s0 + chunk.length⟩)

/-- feed a list of chunks; collects the emitted blocks -/
def run (m : Nat) (detect : Detect) : State → List (List Bool) → Except Err (State × List Block)
  | st, [] => .ok (st, [])
  | st, c :: cs =>
    match step m detect st c with
    | .error e => .error e
    | .ok (st', b) =>
      match run m detect st' cs with
      | .error e => .error e
      | .ok (st'', bs) => .ok (st'', b :: bs)

/-! ### Events container -/

/-- `Events.get_range_samples(start, end)` -/
def getRangeSamples (b : Block) (s e : Int) : Except Err Block :=
  if s < b.start ∨ e > b.stop then .error .valueError
  else .ok ⟨b.events.filter (fun ev => decide (s ≤ ev.sample) && decide (ev.sample < e)), s, e⟩

/-- `Events.get_latest_samples(lb, ub)` -/
def getLatestSamples (b : Block) (lb ub : Int) : Except Err Block :=
  getRangeSamples b (lb + b.stop) (ub + b.stop)

/-- the adjacency loop of `combine_events` -/
def adjacent : Int → List Block → Bool
  | _, [] => true
  | s0, b :: bs => if b.start != s0 then false else adjacent b.stop bs

/-- `combine_events(list)` (equal sampling rates; `events[0]` on an empty list is an IndexError) -/
def lastStop (b : Block) (bs : List Block) : Int :=
  match bs.getLast? with
  | some l => l.stop
  | none => b.stop

def combineEvents : List Block → Except Err Block
  | [] => .error .indexError
  | b :: bs =>
    if adjacent b.stop bs then
      .ok ⟨(b :: bs).flatMap (·.events), b.start, lastStop b bs⟩
    else .error .valueError

/-! ### Specification -/

/-- all transitions of a stream: positions where the value differs from its predecessor
(`prev` is the value before the first sample, `pos` the absolute index of the first sample). -/
def edgesOf : Bool → Int → List Bool → List Event
  | _, _, [] => []
  | prev, pos, b :: xs =>
    (if b != prev then [Event.mk (if b then .rising else .falling) pos] else []) ++
      edgesOf b (pos + 1) xs

end Psi.Edges
