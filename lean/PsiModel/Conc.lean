/-!
# C15 — threads, one re-entrant lock, arbitrary schedules (core Lean only)

Two layers.

* **Footprints** (`Tok`, `footprint`, `Atomic`): what `harness/translate_locks.py` extracts from the
  source of `SignalBuffer` — per method, in program order, `acq`/`rel` for entering/leaving a
  `with self._lock:` block (the nesting depth *d* of DESIGN §6 is the number of unmatched `acq`),
  `read f` / `write f` for accesses to the mutable shared fields, `call m` for calls of other
  methods of the class.  `footprint` inlines the call graph (fixed point by fuel = number of
  methods; anything left over — recursion, unknown callee — is `bad`).  `Atomic`: the inlined
  footprint is exactly one outermost lock span and nothing outside it.

* **Semantics** (`MStep`, `Thread`, `Config`, `step`, `run`): any number of threads, each a list of
  operations, each operation a list of micro-steps (`acq`, `rel`, or an arbitrary action on shared
  state `S` and thread-local state `L`); a schedule is any list of thread ids; a step of a thread
  that would block on the lock (or has nothing left to do) leaves the configuration unchanged.
  Actions are executed whether or not the lock is held — the semantics does not assume the
  discipline, the theorem (`PsiProofs/C15.lean`) does.
-/
namespace Psi.Conc

/-! ### footprints -/

/-- Kinds of micro-steps as far as locking is concerned. -/
inductive K where
  | acq | rel | other | bad
  deriving DecidableEq, Repr

inductive Tok where
  | acq | rel
  | read (f : Nat)
  | write (f : Nat)
  | call (m : Nat)
  deriving DecidableEq, Repr

def Tok.kind : Tok → K
  | .acq => .acq
  | .rel => .rel
  | .read _ => .other
  | .write _ => .other
  | .call _ => .bad

def nth {α} : List α → Nat → Option α
  | [], _ => none
  | a :: _, 0 => some a
  | _ :: as, n + 1 => nth as n

/-- One round of inlining: every `call m` is replaced by the body of `m`. -/
def inline1 (ms : List (List Tok)) : List Tok → List Tok
  | [] => []
  | .call m :: r =>
    (match nth ms m with
     | some body => body
     | none => [.call m]) ++ inline1 ms r
  | t :: r => t :: inline1 ms r

def inlineN (ms : List (List Tok)) : Nat → List Tok → List Tok
  | 0, l => l
  | n + 1, l => inlineN ms n (inline1 ms l)

/-- The inlined footprint of method `m` (calls that survive `ms.length` rounds are `bad`). -/
def footprint (ms : List (List Tok)) (m : Nat) : List K :=
  match nth ms m with
  | some body => (inlineN ms ms.length body).map Tok.kind
  | none => [.bad]

/-- Inside a lock span at depth `d ≥ 1`: the span closes exactly at the end of the list. -/
def insideK : Nat → List K → Bool
  | _, [] => false
  | 0, _ :: _ => false
  | d + 1, .acq :: r => insideK (d + 2) r
  | d + 1, .rel :: r => if d = 0 then r.isEmpty else insideK d r
  | d + 1, .other :: r => insideK (d + 1) r
  | _ + 1, .bad :: _ => false

/-- Exactly one outermost lock span, and nothing before, after or outside it. -/
def atomicK : List K → Bool
  | .acq :: r => insideK 1 r
  | _ => false

/-- Method `m` of the footprint table `ms` is atomic. -/
def Atomic (ms : List (List Tok)) (m : Nat) : Prop := atomicK (footprint ms m) = true

instance (ms : List (List Tok)) (m : Nat) : Decidable (Atomic ms m) := by
  unfold Atomic; exact inferInstance

def indexOf (s : String) : List String → Nat → Option Nat
  | [], _ => none
  | a :: as, k => if a == s then some k else indexOf s as (k + 1)

/-- Atomicity of the method called `name` (false when the class has no such method). -/
def atomicByName (names : List String) (ms : List (List Tok)) (name : String) : Bool :=
  match indexOf name names 0 with
  | some m => atomicK (footprint ms m)
  | none => false

/-! ### semantics -/

inductive MStep (S L : Type) where
  | acq
  | rel
  | act (g : S → L → S × L)

def MStep.kind {S L} : MStep S L → K
  | .acq => .acq
  | .rel => .rel
  | .act _ => .other

structure Thread (S L : Type) where
  /-- remaining micro-steps of the operation in progress (`[]` between operations) -/
  cur : List (MStep S L)
  /-- operations not yet started -/
  rest : List (List (MStep S L))
  /-- thread-local state: arguments, temporaries, results of the operations -/
  loc : L

structure Config (S L : Type) where
  sh : S
  /-- holder of the re-entrant lock and its hold count -/
  owner : Option Nat
  depth : Nat
  /-- thread `i` (all but finitely many have nothing to do) -/
  threads : Nat → Thread S L
  /-- ghost: the threads that acquired the free lock, in order -/
  log : List Nat

variable {S L : Type}

def setThread (c : Config S L) (t : Nat) (th : Thread S L) : Config S L :=
  { c with threads := fun i => if i = t then th else c.threads i }

/-- Thread `t` executes micro-step `s`; `th'` is the thread with `s` already consumed.
    A blocked `acq` (and a `rel` of a lock one does not hold) consumes nothing. -/
def exec (c : Config S L) (t : Nat) (th' : Thread S L) : MStep S L → Config S L
  | .act g =>
    let r := g c.sh th'.loc
    { setThread c t { th' with loc := r.2 } with sh := r.1 }
  | .acq =>
    match c.owner with
    | none => { setThread c t th' with owner := some t, depth := 1, log := c.log ++ [t] }
    | some o => if o = t then { setThread c t th' with depth := c.depth + 1 } else c
  | .rel =>
    match c.owner with
    | none => c
    | some o =>
      if o = t then
        (if c.depth ≤ 1 then { setThread c t th' with owner := none, depth := 0 }
         else { setThread c t th' with depth := c.depth - 1 })
      else c

/-- One step of thread `t`. -/
def step (c : Config S L) (t : Nat) : Config S L :=
  let th := c.threads t
  match th.cur with
  | s :: cur' => exec c t { th with cur := cur' } s
  | [] =>
    match th.rest with
    | [] => c
    | [] :: rest' => setThread c t { th with rest := rest' }
    | (s :: cur') :: rest' => exec c t { th with cur := cur', rest := rest' } s

/-- Run a schedule. -/
def run (sch : List Nat) (c : Config S L) : Config S L := sch.foldl step c

/-- `j` consecutive steps of thread `t`. -/
def stepN (t : Nat) : Nat → Config S L → Config S L
  | 0, c => c
  | j + 1, c => step (stepN t j c) t

end Psi.Conc
