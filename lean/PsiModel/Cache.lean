/-
C10 — determinism and isolation.  Executable model, core Lean only.

(a) `fast_cache` (psiaudio/stim.py 18-27) with a heap, so that *aliasing* is expressible:
    the memo table stores addresses, a call returns an address, the caller may write through
    every address it was handed.  Two variants of the wrapper:
      * `alias` — the code as originally written: `return cache[key]` hands out the stored object;
      * `copy`  — the repaired code (notes/C10_fix_1.diff): `return _copy_result(cache[key])`.
    The same picture covers `FixedWaveform.next`, which handed out a view of the stored waveform
    (notes/C10_fix_2.diff): read "memo table" as "the object's stored array".
(b) generators as explicit state machines `(params, offset, rng, filter)` whose `reset`
    re-assigns every mutable component from the parameters, `init` being a function of the
    parameters (seed included) only; wrappers (Transform) reset their input; and the *free*
    generator `(spec, chunks drawn since init/reset)` through which every lawful generator factors.
(c) a world of objects with value semantics (deepcopy = the value, queue.append stores the
    value of the source, clone = the value), global-RNG and caller-write ops that do not occur
    in any object's transition function.
-/
namespace Psi.Cache

/-! ## (a) memoisation with aliasing -/

abbrev Addr := Nat   -- documentation only: signatures say `Nat` so that `omega` sees through

/-- Memoised functions.  `compute k` is what the undecorated leaf function returns for argument
tuple `k` (a tuple of arrays: one component for `envelope`, three for the filter design, none for
a float result).  Wrapper functions (`cos2envelope`, `sam_envelope`) only forward to a leaf
memoised function: `wraps w` is the leaf key they call. -/
structure Sig (κ ω α : Type) where
  compute : κ → List (List α)
  wraps : ω → κ

inductive Key (κ ω : Type) where
  | leaf (k : κ)
  | wrap (w : ω)
  deriving DecidableEq, Repr

/-- What a call with this key must return according to the property: a function of the key. -/
def Sig.value {κ ω α} (sg : Sig κ ω α) : Key κ ω → List (List α)
  | .leaf k => sg.compute k
  | .wrap w => sg.compute (sg.wraps w)

structure State (κ ω α : Type) where
  heap : List (List α)                      -- address = index
  cache : List (Key κ ω × List Nat)        -- all memo tables (the key names the function too)
  handles : List (List Nat)                -- results handed to the caller so far: h0, h1, …

def State.init {κ ω α} : State κ ω α := { heap := [], cache := [], handles := [] }

def lookup {κ β} [DecidableEq κ] : List (κ × β) → κ → Option β
  | [], _ => none
  | (k', v) :: c, k => if k' = k then some v else lookup c k

/-- Contents of a tuple of addresses; `none` if one of them dangles. -/
def readAll {α} (heap : List (List α)) : List Nat → Option (List (List α))
  | [] => some []
  | a :: as =>
    match heap[a]?, readAll heap as with
    | some v, some vs => some (v :: vs)
    | _, _ => none

/-- Allocate fresh arrays holding `vs`. -/
def allocAll {κ ω α} (s : State κ ω α) (vs : List (List α)) : State κ ω α × List Nat :=
  ({ s with heap := s.heap ++ vs }, List.range' s.heap.length vs.length)

/-- `_copy_result(cache[key])`: fresh arrays with the stored contents. -/
def copyOut {κ ω α} (s : State κ ω α) (as : List Nat) : State κ ω α × List Nat :=
  match readAll s.heap as with
  | some vs => allocAll s vs
  | none => (s, [])

inductive Variant where
  | alias
  | copy
  deriving DecidableEq, Repr

section
variable {κ ω α : Type} [DecidableEq κ] [DecidableEq ω]

/-- `if key not in cache: cache[key] = f(*args)` for a leaf function; returns the stored object. -/
def ensureLeaf (sg : Sig κ ω α) (s : State κ ω α) (k : κ) : State κ ω α × List Nat :=
  match lookup s.cache (Key.leaf k) with
  | some as => (s, as)
  | none =>
    let r := allocAll s (sg.compute k)
    ({ r.1 with cache := (Key.leaf k, r.2) :: r.1.cache }, r.2)

/-- The decorated leaf function as seen by a caller (the wrapper functions are such callers). -/
def leafCall (v : Variant) (sg : Sig κ ω α) (s : State κ ω α) (k : κ) : State κ ω α × List Nat :=
  let r := ensureLeaf sg s k
  match v with
  | .alias => r
  | .copy => copyOut r.1 r.2

/-- A decorated function called by the user: the object it returns (not yet recorded as handle). -/
def callRaw (v : Variant) (sg : Sig κ ω α) (s : State κ ω α) : Key κ ω → State κ ω α × List Nat
  | .leaf k => leafCall v sg s k
  | .wrap w =>
    let r : State κ ω α × List Nat :=
      match lookup s.cache (Key.wrap w) with
      | some as => (s, as)
      | none =>
        -- body of the wrapper function: `return envelope(...)`; its result object is stored
        let q := leafCall v sg s (sg.wraps w)
        ({ q.1 with cache := (Key.wrap w, q.2) :: q.1.cache }, q.2)
    match v with
    | .alias => r
    | .copy => copyOut r.1 r.2

/-- `h = f(*args)`: the caller now holds the returned object as handle number `handles.length`. -/
def call (v : Variant) (sg : Sig κ ω α) (s : State κ ω α) (k : Key κ ω) : State κ ω α :=
  let r := callRaw v sg s k
  { r.1 with handles := r.1.handles ++ [r.2] }

end

/-- `heap[a][i] = x` (no effect when out of range). -/
def setCell {α} (heap : List (List α)) (a : Nat) (i : Nat) (x : α) : List (List α) :=
  match heap[a]? with
  | some arr => heap.set a (arr.set i x)
  | none => heap

/-- `heap[a][:] = x`. -/
def fillCell {α} (heap : List (List α)) (a : Nat) (x : α) : List (List α) :=
  match heap[a]? with
  | some arr => heap.set a (arr.map fun _ => x)
  | none => heap

inductive MutErr where
  | badHandle
  | badIndex
  deriving DecidableEq, Repr

/-- The caller writes `x` at index `i` of component `c` of the result it holds as handle `h`. -/
def mutate {κ ω α} (s : State κ ω α) (h c i : Nat) (x : α) : Except MutErr (State κ ω α) :=
  match s.handles[h]? with
  | none => .error .badHandle
  | some as =>
    match as[c]? with
    | none => .error .badIndex
    | some a =>
      match s.heap[a]? with
      | none => .error .badIndex
      | some arr =>
        if i < arr.length then .ok { s with heap := setCell s.heap a i x } else .error .badIndex

/-- The caller overwrites every array it was ever handed. -/
def scribble {κ ω α} (s : State κ ω α) (x : α) : State κ ω α :=
  { s with heap := s.handles.flatten.foldl (fun hp a => fillCell hp a x) s.heap }

/-- What the caller sees in the object it holds as handle `h`. -/
def readHandle {κ ω α} (s : State κ ω α) (h : Nat) : Option (List (List α)) :=
  match s.handles[h]? with
  | some as => readAll s.heap as
  | none => none

inductive Op (κ ω α : Type) where
  | call (k : Key κ ω)
  | mutate (h c i : Nat) (x : α)
  | scribble (x : α)

section
variable {κ ω α : Type} [DecidableEq κ] [DecidableEq ω]

def step (v : Variant) (sg : Sig κ ω α) (s : State κ ω α) : Op κ ω α → State κ ω α
  | .call k => call v sg s k
  | .mutate h c i x =>
    match mutate s h c i x with
    | .ok s' => s'
    | .error _ => s
  | .scribble x => scribble s x

def run (v : Variant) (sg : Sig κ ω α) (ops : List (Op κ ω α)) (s : State κ ω α) : State κ ω α :=
  ops.foldl (step v sg) s

end

/-! ## (b) generators -/

/-- Interface of a stimulus factory: `init` = `__init__` (which ends in `self.reset()`),
`params` = the constructor arguments the object keeps. There is no global-state argument. -/
structure Gen (P S O : Type) where
  init : P → S
  reset : S → S
  next : S → Nat → S × List O
  params : S → P

structure Gen.Lawful {P S O} (g : Gen P S O) : Prop where
  reset_eq : ∀ s, g.reset s = g.init (g.params s)
  params_next : ∀ s n, g.params (g.next s n).1 = g.params s
  params_init : ∀ p, g.params (g.init p) = p

def Gen.runAll {P S O} (g : Gen P S O) (s : S) : List Nat → S
  | [] => s
  | n :: ns => g.runAll (g.next s n).1 ns

def Gen.drawAll {P S O} (g : Gen P S O) (s : S) : List Nat → List (List O)
  | [] => []
  | n :: ns => (g.next s n).2 :: g.drawAll (g.next s n).1 ns

/-- Numeric kernels of a carrier, abstract: the private `RandomState(seed)`, the initial filter
state (`lfilter_zi`, memoised `zi`), the number of samples `reset` draws and discards
(BandlimitedNoise: `ceil(fs)`, FIR/Shaped: `len(zi)`, others 0), and one `next`. -/
structure Kern (P R F O : Type) where
  seedRng : P → R
  initFilt : P → F
  warm : P → Nat
  chunk : P → Nat → R → F → Nat → List O × R × F

structure GState (P R F : Type) where
  params : P
  offset : Nat
  rng : R
  filt : F

namespace Kern
variable {P R F O : Type}

/-- `next(samples)`: stim.py 533-534, 673-678, 777-780, 863-866, 1018-1025. -/
def next (k : Kern P R F O) (s : GState P R F) (n : Nat) : GState P R F × List O :=
  let r := k.chunk s.params s.offset s.rng s.filt n
  ({ s with offset := s.offset + n, rng := r.2.1, filt := r.2.2 }, r.1)

/-- `reset()`: stim.py 530-531, 667-671, 772-775, 858-861, 1015-1016: every mutable attribute is
re-assigned from attributes set once in `__init__`, then the warm-up draw. -/
def reset (k : Kern P R F O) (s : GState P R F) : GState P R F :=
  let s0 := { s with offset := 0, rng := k.seedRng s.params, filt := k.initFilt s.params }
  if k.warm s.params = 0 then s0 else
    -- `self.next(warm)`; the factories with a warm-up keep no offset
    { (k.next s0 (k.warm s.params)).1 with offset := 0 }

/-- `__init__`: store the parameters, then `self.reset()`. -/
def init (k : Kern P R F O) (p : P) : GState P R F :=
  k.reset { params := p, offset := 0, rng := k.seedRng p, filt := k.initFilt p }

def gen (k : Kern P R F O) : Gen P (GState P R F) O :=
  { init := k.init, reset := k.reset, next := k.next, params := fun s => s.params }

end Kern

/-- A `Transform` (Gate, Envelope, SAM, square-wave envelope, notch filter): output chunk from
its parameters, its offset, its own filter state and the input chunk. -/
structure TKern (P F O : Type) where
  initFilt : P → F
  apply : P → Nat → F → List O → List O × F

structure TState (P F S : Type) where
  params : P
  offset : Nat
  filt : F
  input : S

namespace TKern
variable {P F O PI S : Type}

/-- `Transform.next` (stim.py 162-166), `GateFactory.next` 205-214, `EnvelopeFactory.next` 331-339. -/
def next (t : TKern P F O) (g : Gen PI S O) (s : TState P F S) (n : Nat) : TState P F S × List O :=
  let i := g.next s.input n
  let r := t.apply s.params s.offset s.filt i.2
  ({ s with offset := s.offset + n, filt := r.2, input := i.1 }, r.1)

/-- `Transform.reset` (158-160) / `NotchFilterFactory.reset` (562-564). -/
def reset (t : TKern P F O) (g : Gen PI S O) (s : TState P F S) : TState P F S :=
  { s with offset := 0, filt := t.initFilt s.params, input := g.reset s.input }

def init (t : TKern P F O) (g : Gen PI S O) (p : P × PI) : TState P F S :=
  { params := p.1, offset := 0, filt := t.initFilt p.1, input := g.init p.2 }

def gen (t : TKern P F O) (g : Gen PI S O) : Gen (P × PI) (TState P F S) O :=
  { init := t.init g, reset := t.reset g, next := t.next g,
    params := fun s => (s.params, g.params s.input) }

end TKern

/-- The free generator: its state is the parameter (a spec number) and the chunk sizes drawn
since construction / the last reset; a chunk is *named* by that state and its length. -/
structure Chunk where
  spec : Nat
  before : List Nat
  n : Nat
  deriving DecidableEq, Repr

structure Lin where
  spec : Nat
  chunks : List Nat
  deriving DecidableEq, Repr

def freeGen : Gen Nat Lin Chunk :=
  { init := fun p => { spec := p, chunks := [] }
    reset := fun s => { s with chunks := [] }
    next := fun s n => ({ s with chunks := s.chunks ++ [n] }, [{ spec := s.spec, before := s.chunks, n := n }])
    params := fun s => s.spec }

/-- The concrete state a lineage stands for. -/
def Gen.interp {P S O} (g : Gen P S O) (spec : Nat → P) (l : Lin) : S :=
  g.runAll (g.init (spec l.spec)) l.chunks

/-! ## (c) a world of objects -/

inductive Ev where
  | app (src : Lin) (trials delay : Nat)      -- queue.append(factory, trials, delays): deep copy of the source
  | appw (w trials delay : Nat) (overwritten : Bool)   -- queue.append(ndarray, …): the array's value then
  | pop (n : Nat)
  deriving DecidableEq, Repr

inductive Obj where
  | gen (l : Lin)
  | queue (kind : String) (param : Nat) (evs : List Ev)
  deriving DecidableEq, Repr

structure World where
  objs : List Obj
  nspecs : Nat
  narrays : Nat
  written : List Nat          -- parameter arrays the caller has overwritten (they are the caller's own)
  deriving Repr

def World.init : World := { objs := [], nspecs := 0, narrays := 0, written := [] }

inductive WOp where
  | new (spec : Nat)
  | qnew (kind : String) (param : Nat)
  | next (o n : Nat)
  | reset (o : Nat)
  | copy (o : Nat)                 -- copy.deepcopy(obj)
  | clone (o : Nat)                -- queue.clone()
  | append (q g trials delay : Nat)
  | appendw (q w trials delay : Nat)
  | pop (q n : Nat)
  | seed (x : Nat)                 -- np.random.seed(x)
  | rand (n : Nat)                 -- draws on the global generator
  | scribble                       -- caller overwrites every returned chunk
  | wwrite (a : Nat)               -- caller overwrites an array it had appended to a queue
  deriving Repr

def queueKinds : List String := ["fifo", "inter", "blocked", "brand"]

inductive Out where
  | ok
  | obj (id : Nat)
  | chunk (c : Chunk)
  | qchunk (kind : String) (param : Nat) (before : List Ev) (n : Nat)
  | bad
  deriving Repr

/-- One operation on the world.  Value semantics: `copy`/`clone`/`append` duplicate the value. -/
def wstep (w : World) : WOp → World × Out
  | .new s =>
    if s < w.nspecs then
      ({ w with objs := w.objs ++ [.gen (freeGen.init s)] }, .obj w.objs.length)
    else (w, .bad)
  | .qnew kind p =>
    if kind ∈ queueKinds then
      ({ w with objs := w.objs ++ [.queue kind p []] }, .obj w.objs.length)
    else (w, .bad)
  | .next o n =>
    match w.objs[o]? with
    | some (.gen l) =>
      ({ w with objs := w.objs.set o (.gen (freeGen.next l n).1) }, .chunk ⟨l.spec, l.chunks, n⟩)
    | _ => (w, .bad)
  | .reset o =>
    match w.objs[o]? with
    | some (.gen l) => ({ w with objs := w.objs.set o (.gen (freeGen.reset l)) }, .ok)
    | _ => (w, .bad)
  | .copy o =>
    match w.objs[o]? with
    | some x => ({ w with objs := w.objs ++ [x] }, .obj w.objs.length)
    | none => (w, .bad)
  | .clone o =>
    match w.objs[o]? with
    | some (.queue k p e) => ({ w with objs := w.objs ++ [.queue k p e] }, .obj w.objs.length)
    | _ => (w, .bad)
  | .append q g t d =>
    match w.objs[q]?, w.objs[g]? with
    | some (.queue k p e), some (.gen l) =>
      ({ w with objs := w.objs.set q (.queue k p (e ++ [.app l t d])) }, .ok)
    | _, _ => (w, .bad)
  | .appendw q a t d =>
    match w.objs[q]? with
    | some (.queue k p e) =>
      if a < w.narrays then
        ({ w with objs := w.objs.set q (.queue k p (e ++ [.appw a t d (w.written.contains a)])) }, .ok)
      else (w, .bad)
    | _ => (w, .bad)
  | .pop q n =>
    match w.objs[q]? with
    | some (.queue k p e) =>
      ({ w with objs := w.objs.set q (.queue k p (e ++ [.pop n])) }, .qchunk k p e n)
    | _ => (w, .bad)
  | .seed _ => (w, .ok)
  | .rand _ => (w, .ok)
  | .scribble => (w, .ok)
  | .wwrite a => if a < w.narrays then ({ w with written := a :: w.written }, .ok) else (w, .bad)

/-- The object an operation acts on (creation and noise operations act on none). -/
def WOp.target : WOp → Option Nat
  | .next o _ => some o
  | .reset o => some o
  | .append q _ _ _ => some q
  | .appendw q _ _ _ => some q
  | .pop q _ => some q
  | _ => none

def wrun (ops : List WOp) (w : World) : World :=
  ops.foldl (fun w op => (wstep w op).1) w

end Psi.Cache
