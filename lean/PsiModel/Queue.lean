/-
Code-faithful executable model of `psiaudio/queue.py` (AbstractSignalQueue and its six
policies), core Lean only.

Conventions
* time is in samples (`Int`); the harness converts seconds at the API boundary;
* keys are insertion indices (`Nat`) into `data`;
* sample values are abstract cells: `W key j` = j-th sample of that stimulus' waveform, `Z` = 0;
* the two random policies read their random choices from oracle streams stored in the state
  (`draws` for `np.random.randint`, `perms` for `RandomState.shuffle`);
* `added` / `removed` are the ordered notification logs (ghost state: what a connected
  callback would have seen). A trial's identity is its index in `added` (`uid`).
* pop_buffer is always called with `decrement=True` (automatic decrementing).

The model follows the code WITH the repairs proposed in notes/C02_fix_*.diff, C03_fix_*, C04_fix_*
(grouped modulo, single restore, trimmed log, cleared completion/empty flags, grid comparison).
-/
namespace Psi.Queue

inductive Err
  | valueError | indexError | keyError | zeroDivision | stopIteration
  | hang        -- `while True` in Interleaved.next_key would never leave
  | oracle      -- oracle stream exhausted (never with recorded draws)
  | fuel        -- loop fuel exhausted (excluded by theorem for non-empty waveforms)
  deriving DecidableEq, Repr, Inhabited

inductive Cell
  | Z
  | W (key : Nat) (j : Nat)
  deriving DecidableEq, Repr, Inhabited

inductive Kind
  | fifo | interleaved | random | blockedRandom | grouped
  deriving DecidableEq, Repr, Inhabited

/-- `_data[key]` -/
structure Entry where
  len : Nat            -- number of samples of the waveform (array length / generator total)
  gen : Bool           -- generator factory (reset/next/is_complete) or plain ndarray
  trials : Int
  requested : Int
  delays : List Int    -- cyclic inter-trial delays, already `int(round(delay*fs))`
  dpos : Nat           -- position in the cycle
  dur : Int            -- samples the trial occupies on the grid: round(duration·fs), as `_ends_after` computes it
  deriving DecidableEq, Repr, Inhabited

/-- entry of `_generated` -/
structure Info where
  uid : Nat
  key : Nat
  k : Int              -- start sample (t0 = queue t0 + k/fs)
  dur : Int
  len : Nat := 0       -- ghost: number of samples of the waveform set up for this trial
  delay : Int := 0     -- ghost: inter-trial delay drawn for this trial (samples)
  deriving DecidableEq, Repr, Inhabited

/-- `_source`: for an array the leftover `source[off:]`, for a generator its offset -/
structure Src where
  key : Nat
  off : Nat
  len : Nat
  gen : Bool
  deriving DecidableEq, Repr, Inhabited

structure QState where
  kind : Kind := .fifo
  keep : Bool := true          -- keep_complete_waveforms
  gsize : Nat := 0             -- _group_size
  auto : Bool := false         -- BlockedFIFO: group size grows with every append
  data : List Entry := []
  ordering : List Nat := []
  source : Option Src := none
  delaySamples : Int := 0
  samples : Int := 0
  paused : Bool := false
  empty : Bool := false
  generated : List Info := []
  cursor : Int := -1           -- `_i` of interleaved / grouped
  complete : Bool := false     -- `_complete`
  block : List Nat := []       -- `_i` of blocked random (popped from the end)
  draws : List Nat := []       -- oracle: future results of np.random.randint
  perms : List (List Nat) := []-- oracle: future results of RandomState.shuffle(arange n)
  added : List Info := []
  removed : List Nat := []
  deriving Repr, Inhabited

def trialsOf (s : QState) (key : Nat) : Int :=
  match s.data[key]? with
  | some e => e.trials
  | none => 0

def setTrials (data : List Entry) (key : Nat) (f : Int → Int) : List Entry :=
  data.modify key (fun e => { e with trials := f e.trials })

/-- `append(source, trials, delays)` -/
def append (s : QState) (e : Entry) : QState × Nat :=
  let key := s.data.length
  ({ s with data := s.data ++ [e], ordering := s.ordering ++ [key],
            gsize := if s.auto then s.gsize + 1 else s.gsize }, key)

/-! ### next_key — `none` is QueueEmptyError -/

/-- Interleaved `while True` loop; `fuel` = len(ordering) probes, after which every key was
seen without positive trials and the Python loop would spin forever. -/
def interleavedScan (s : QState) : Nat → Int → Except Err (Nat × Int)
  | 0, _ => .error .hang
  | fuel + 1, i =>
    let n : Int := s.ordering.length
    let i' := (i + 1) % n
    match s.ordering[i'.toNat]? with
    | none => .error .indexError
    | some key =>
      if s.keep then .ok (key, i')
      else if trialsOf s key > 0 then .ok (key, i')
      else interleavedScan s fuel i'

def nextKey (s : QState) : Except Err (Option (Nat × QState)) :=
  match s.kind with
  | .fifo =>
    match s.ordering with
    | [] => .ok none
    | k :: _ => .ok (some (k, s))
  | .random =>
    if s.ordering.length = 0 then .ok none else
    match s.draws with
    | [] => .error .oracle
    | d :: ds =>
      match s.ordering[d % s.ordering.length]? with
      | some k => .ok (some (k, { s with draws := ds }))
      | none => .error .indexError
  | .interleaved =>
    if s.complete then .ok none
    else if s.ordering.length = 0 then .error .zeroDivision
    else match interleavedScan s s.ordering.length s.cursor with
      | .error e => .error e
      | .ok (k, i) => .ok (some (k, { s with cursor := i }))
  | .blockedRandom =>
    if s.complete then .ok none else
    let refill : Except Err (List Nat × List (List Nat)) :=
      if s.block.isEmpty then
        match s.perms with
        | [] => .error .oracle
        | p :: ps => .ok (p, ps)
      else .ok (s.block, s.perms)
    match refill with
    | .error e => .error e
    | .ok (blk, ps) =>
      match blk.getLast? with
      | none => .error .indexError          -- pop from empty list (no stimuli)
      | some i =>
        match s.ordering[i]? with
        | some k => .ok (some (k, { s with block := blk.dropLast, perms := ps }))
        | none => .error .indexError
  | .grouped =>
    if s.ordering.length = 0 then .ok none else
    let g := min s.gsize s.ordering.length
    if g = 0 then .error .zeroDivision else
    let i' := (s.cursor + 1) % (g : Int)
    match s.ordering[i'.toNat]? with
    | some k => .ok (some (k, { s with cursor := i' }))
    | none => .error .indexError

/-! ### decrement_key -/

def decrementKey (s : QState) (key : Nat) : Except Err QState :=
  if ¬ s.ordering.contains key then .error .keyError else
  let data := setTrials s.data key (· - 1)
  let s := { s with data := data }
  match s.kind with
  | .fifo | .random =>
    if trialsOf s key ≤ 0 then .ok { s with ordering := s.ordering.erase key } else .ok s
  | .interleaved | .blockedRandom =>
    if s.data.all (fun e => e.trials ≤ 0) then .ok { s with complete := true } else .ok s
  | .grouped =>
    let grp := s.ordering.take s.gsize
    if grp.all (fun k => trialsOf s k ≤ 0) then
      .ok { s with ordering := grp.foldl (fun o k => o.erase k) s.ordering }
    else .ok s

/-! ### next_trial -/

/-- `none` = QueueEmptyError raised by next_key (nothing modified). -/
def nextTrial (s : QState) : Except Err (Option QState) :=
  match nextKey s with
  | .error e => .error e
  | .ok none => .ok none
  | .ok (some (key, s)) =>
    match s.data[key]? with
    | none => .error .keyError
    | some _ =>
      match decrementKey s key with
      | .error e => .error e
      | .ok s =>
        match s.data[key]? with
        | none => .error .keyError
        | some e =>
          if e.delays.length = 0 then .error .stopIteration else
          match e.delays[e.dpos % e.delays.length]? with
          | none => .error .stopIteration
          | some d =>
            if d < 0 then .error .valueError else
            let info : Info := { uid := s.added.length, key := key, k := s.samples, dur := e.dur, len := e.len, delay := d }
            .ok (some { s with
              data := s.data.modify key (fun e => { e with dpos := e.dpos + 1 }),
              source := some { key := key, off := 0, len := e.len, gen := e.gen },
              delaySamples := d,
              generated := s.generated ++ [info],
              added := s.added ++ [info] })

/-! ### pop_buffer -/

def wave (key off n : Nat) : List Cell := (List.range n).map (fun i => Cell.W key (off + i))
def zeros (n : Nat) : List Cell := List.replicate n Cell.Z

/-- One iteration of the `while samples > 0` loop of pop_buffer with `n` samples still wanted
(`n > 0`): `_pop_buffer`'s four branches, the QueueEmptyError handler, and
`self._samples += len(waveform)`. Returns the emitted cells. -/
def popIter (n : Nat) (s : QState) : Except Err (List Cell × QState) :=
  if s.paused then
    .ok (zeros n, { s with samples := s.samples + n })
  else match s.source with
  | some src =>
    if src.gen then
      -- _get_samples_generator
      let j := min (src.len - src.off) n
      let off := src.off + j
      .ok (wave src.key src.off j,
           { s with source := if off ≥ src.len then none else some { src with off := off },
                    samples := s.samples + j })
    else
      -- _get_samples_waveform
      let rem := src.len - src.off
      if n > rem then
        .ok (wave src.key src.off rem, { s with source := none, samples := s.samples + rem })
      else
        .ok (wave src.key src.off n,
             { s with source := some { src with off := src.off + n }, samples := s.samples + n })
  | none =>
    if s.delaySamples > 0 then
      let j := min s.delaySamples.toNat n
      .ok (zeros j, { s with delaySamples := s.delaySamples - j, samples := s.samples + j })
    else
      match nextTrial s with
      | .error e => .error e
      | .ok none => .ok (zeros n, { s with empty := true, samples := s.samples + n })
      | .ok (some s') => .ok ([], s')

def popLoop : Nat → Nat → QState → Except Err (List Cell × QState)
  | _, 0, s => .ok ([], s)
  | 0, _ + 1, _ => .error .fuel
  | fuel + 1, n + 1, s =>
    match popIter (n + 1) s with
    | .error e => .error e
    | .ok (w, s') =>
      match popLoop fuel (n + 1 - w.length) s' with
      | .error e => .error e
      | .ok (ws, s'') => .ok (w ++ ws, s'')

/-- `pop_buffer(n)`; `np.concatenate([])` raises ValueError when the loop body never ran. -/
def popBuffer (n : Nat) (s : QState) : Except Err (List Cell × QState) :=
  if n = 0 then .error .valueError else popLoop (3 * n + 3) n s

/-! ### pop_buffer(n, decrement=False)

The same loop with `next_trial(decrement=False)`: `pop_key` does not call `decrement_key`, so no counter
changes and no key leaves the ordering. (The log entry's `decrement` flag, which `requeue` consults, is not
modelled: these definitions are for pause-free histories only. Theorems: `PsiProofs/C02ND.lean` — refinement,
the decrement schedule, timeline theorems for histories mixing both kinds of request.) -/

def nextTrialND (s : QState) : Except Err (Option QState) :=
  match nextKey s with
  | .error e => .error e
  | .ok none => .ok none
  | .ok (some (key, s)) =>
    match s.data[key]? with
    | none => .error .keyError
    | some e =>
      if e.delays.length = 0 then .error .stopIteration else
      match e.delays[e.dpos % e.delays.length]? with
      | none => .error .stopIteration
      | some d =>
        if d < 0 then .error .valueError else
        let info : Info := { uid := s.added.length, key := key, k := s.samples, dur := e.dur, len := e.len, delay := d }
        .ok (some { s with
          data := s.data.modify key (fun e => { e with dpos := e.dpos + 1 }),
          source := some { key := key, off := 0, len := e.len, gen := e.gen },
          delaySamples := d,
          generated := s.generated ++ [info],
          added := s.added ++ [info] })

/-- `popIter` with `next_trial(decrement=False)` in its last branch; every other branch is `popIter`'s. -/
def popIterND (n : Nat) (s : QState) : Except Err (List Cell × QState) :=
  if s.paused then popIter n s
  else match s.source with
  | some _ => popIter n s
  | none =>
    if s.delaySamples > 0 then popIter n s
    else
      match nextTrialND s with
      | .error e => .error e
      | .ok none => .ok (zeros n, { s with empty := true, samples := s.samples + n })
      | .ok (some s') => .ok ([], s')

def popLoopND : Nat → Nat → QState → Except Err (List Cell × QState)
  | _, 0, s => .ok ([], s)
  | 0, _ + 1, _ => .error .fuel
  | fuel + 1, n + 1, s =>
    match popIterND (n + 1) s with
    | .error e => .error e
    | .ok (w, s') =>
      match popLoopND fuel (n + 1 - w.length) s' with
      | .error e => .error e
      | .ok (ws, s'') => .ok (w ++ ws, s'')

def popBufferND (n : Nat) (s : QState) : Except Err (List Cell × QState) :=
  if n = 0 then .error .valueError else popLoopND (3 * n + 3) n s

/-! ### pause / cancel / requeue / rewind / resume -/

def endsAfter (m : Int) (i : Info) : Bool := i.k + i.dur > m

/-- `cancel(t)`: notify `removed` for every logged trial ending after t (latest first),
drop the current source, reset the delay (delay = 0). -/
def cancel (m : Int) (s : QState) : QState :=
  { s with removed := s.removed ++ ((s.generated.reverse.filter (endsAfter m)).map (·.uid)),
           source := none, delaySamples := 0 }

def insertFront (ordering : List Nat) (keys : List Nat) : List Nat :=
  keys.foldl (fun o k => if o.contains k then o else k :: o) ordering

/-- `requeue(t)`: restore one trial per logged trial ending after t, re-insert keys, trim the log,
clear the empty / completion flags when something became pending again. -/
def requeue (m : Int) (s : QState) : QState :=
  let toRequeue := (s.generated.reverse.filter (endsAfter m)).map (·.key)
  let data := toRequeue.foldl (fun d k => setTrials d k (· + 1)) s.data
  let s := { s with ordering := insertFront s.ordering toRequeue, data := data,
                    generated := s.generated.filter (fun i => !endsAfter m i),
                    empty := if toRequeue.isEmpty then s.empty else false }
  match s.kind with
  | .interleaved | .blockedRandom =>
    if s.data.any (fun e => e.trials > 0) then { s with complete := false } else s
  | _ => s

/-- `pause(t)`; `m = none` is `pause()`; the Bool is "raised ValueError" (state is modified anyway,
as in the code: the check sits in rewind_samples, called last). -/
def pause (m : Option Int) (s : QState) : QState × Bool :=
  let s := { s with paused := true }
  match m with
  | none => (s, false)
  | some m =>
    let s := requeue m (cancel m s)
    if m > s.samples then (s, true) else ({ s with samples := m }, false)

def resume (m : Option Int) (s : QState) : QState :=
  match m with
  | none => { s with paused := false }
  | some m => { s with samples := m, paused := false }

def countTrials (s : QState) : Int := (s.data.map (fun e => max e.trials 0)).sum
def countRequested (s : QState) : Int := (s.data.map (·.requested)).sum

end Psi.Queue
