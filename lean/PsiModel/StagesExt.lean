import PsiModel.Stages
/-!
Extension of the `Stages` model (EXT12, not part of property C12): the coroutine stages of
psiaudio/pipeline.py that C12 does not name —
`delay`, `average`, `accumulate`, `mc_select`, `detrend`, `broadcast`.

Same conventions as `PsiModel/Stages.lean`: each `step` transcribes what one `send(chunk)` does to the
coroutine's local variables and which objects it passes to `target`; sample values / rows / epochs /
whole blocks are abstract; numeric kernels (`mean`, `signal.detrend`, `np.nan`) are parameters.
The code is modelled **as it is** (see notes/EXT12.md):
* `delay` passes its `n` NaNs to `target` when the stage is *created* (the `coroutine` decorator primes the
  generator), as a plain 1-D `ndarray`, and forwards every chunk untouched (`s0` is not shifted);
* `average` indexes with a *list* (`data[s]`, `s = [slice, Ellipsis, …]`), which NumPy ≥ 1.23 refuses with
  `IndexError`: the stage dies as soon as `n` rows are available (`averageStep`).  `averageFixedStep` is
  the stage with the index passed as a tuple of slices (notes/EXT12_fix_1.diff);
* `detrend('linear')` raises `ValueError` on a batch of zero epochs (SciPy's LAPACK call).
Core Lean only.
-/
namespace Psi.StagesExt
open Psi.Stages

inductive XErr | valueError | indexError | diverges
  deriving Repr, DecidableEq

section
variable {α β ε ρ χ μ σ I O B : Type}

/-- feed the chunks one by one; collect everything passed to `target` (and to `status_cb`) in call order -/
def run {E : Type} (step : σ → I → Except E (List O × σ)) : σ → List I → Except E (List O × σ)
  | s, [] => .ok ([], s)
  | s, c :: cs =>
    match step s c with
    | .error e => .error e
    | .ok (o, s') =>
      match run step s' cs with
      | .error e => .error e
      | .ok (os, s'') => .ok (o ++ os, s'')

/-- everything passed on, forgetting the final state -/
def outs {E : Type} (r : Except E (List O × σ)) : Except E (List O) :=
  match r with
  | .ok p => .ok p.1
  | .error e => .error e

/-- a chunk of a continuous stream: a plain `ndarray` or an annotated `PipelineData`
(time axis = list of columns, as in `Stages.PD`) -/
inductive Arr (α ρ χ μ : Type)
  | plain (d : List α)
  | pd (x : PD α ρ χ μ)

namespace Arr
def data : Arr α ρ χ μ → List α
  | .plain d => d
  | .pd x => x.data
def isPd : Arr α ρ χ μ → Bool
  | .plain _ => false
  | .pd _ => true
def pd? : Arr α ρ χ μ → Option (PD α ρ χ μ)
  | .plain _ => none
  | .pd x => some x
end Arr

/-- `concat(arrays, axis=-1)` on a mix of plain and annotated 1-D arrays (pipeline.py 274-283 in front of
`Stages.catAll`): no `PipelineData` at all → `np.concatenate` (which refuses an empty list); some but not
all → `ValueError('Cannot concatenate pipeline and non-pipeline data')`. -/
def concatArr (l : List (Arr α ρ χ μ)) : Except XErr (Arr α ρ χ μ) :=
  if l.all (fun a => !a.isPd) then
    (if l.isEmpty then .error .valueError else .ok (.plain (l.map Arr.data).flatten))
  else if !(l.all Arr.isPd) then .error .valueError
  else match catAll (l.filterMap Arr.pd?) with
    | .ok x => .ok (.pd x)
    | .error _ => .error .valueError

/-! ### delay -/

/-- `data = np.full(n, np.nan); while True: target(data); data = (yield)`: what `target` receives while the
stage is being created (before any input exists). -/
def delayCreate (nan : α) (n : Nat) : List (Arr α ρ χ μ) := [.plain (List.replicate n nan)]

/-- one `send`: `data = (yield); target(data)` — the chunk itself, untouched. -/
def delayStep (_ : Unit) (d : Arr α ρ χ μ) : Except XErr (List (Arr α ρ χ μ) × Unit) := .ok ([d], ())

/-- creation followed by the chunks -/
def delayAll (nan : α) (n : Nat) (cs : List (Arr α ρ χ μ)) : Except XErr (List (Arr α ρ χ μ)) :=
  match run delayStep () cs with
  | .ok (o, _) => .ok (delayCreate nan n ++ o)
  | .error e => .error e

/-! ### average (rows along axis 0 are abstract) -/

/-- `average(n, target)` **as it is**: `data = first chunk` / `np.concatenate((data, new_data), axis=0)`, then
`while data.shape[0] >= n: s = [Ellipsis] * data.ndim; s[0] = np.s_[:n]; target(data[s].mean(axis=0))`:
`data[s]` with a list `s` raises `IndexError` (NumPy ≥ 1.23), before anything is passed to `target`. -/
def averageStep (n : Nat) (st : Option (List α)) (d : List α) : Except XErr (List β × Option (List α)) :=
  let data := match st with | none => d | some r => r ++ d
  if n ≤ data.length then .error .indexError else .ok ([], some data)

/-- the inner `while data.shape[0] >= n` loop of the repaired stage (`fuel ≥ data.length` suffices for `n ≥ 1`) -/
def avgLoop (mean : List α → β) (n : Nat) : Nat → List α → List β × List α
  | 0, l => ([], l)
  | fuel + 1, l =>
    if n ≤ l.length then
      let r := avgLoop mean n fuel (l.drop n)
      (mean (l.take n) :: r.1, r.2)
    else ([], l)

/-- `average` with the index passed as a tuple of slices (notes/EXT12_fix_1.diff); `n = 0` never leaves the loop. -/
def averageFixedStep (mean : List α → β) (n : Nat) (st : Option (List α)) (d : List α) :
    Except XErr (List β × Option (List α)) :=
  if n = 0 then .error .diverges else
  let data := match st with | none => d | some r => r ++ d
  let r := avgLoop mean n data.length data
  .ok (r.1, some r.2)

/-! ### accumulate (whole blocks are abstract) -/

/-- what the two callbacks of `accumulate` receive, in call order -/
inductive AccEv (O : Type)
  | emit (o : O)        -- `target(concat(data, axis=axis))`
  | restart             -- `target(Ellipsis)`
  | status (k : Nat)    -- `status_cb(len(data))`
  deriving Repr, DecidableEq

/-- `accumulate(n, axis, newaxis, status_cb, target)`.  `nx` is `d[np.newaxis]` (the identity when `newaxis` is
false), `join` is `concat(data, axis=axis)`, `cb` says whether `status_cb` is given.  The test is
`len(data) == n` (so `n = 0` buffers for ever); `Ellipsis` empties the buffer, is passed on and skips the
status callback. -/
def accumulateStep (n : Nat) (nx : B → B) (join : List B → Except XErr O) (cb : Bool) (st : List B) :
    Sig B → Except XErr (List (AccEv O) × List B)
  | .restart => .ok ([.restart], [])
  | .data d =>
    let data := st ++ [nx d]
    if data.length = n then
      match join data with
      | .error e => .error e
      | .ok o => .ok (.emit o :: (if cb then [.status 0] else []), [])
    else .ok (if cb then [.status data.length] else [], data)

/-- `concat(data, axis=-1)` as the `join` of `accumulate` on a 1-D stream -/
def joinTime (l : List (PD α ρ χ μ)) : Except XErr (PD α ρ χ μ) :=
  match catAll l with
  | .ok x => .ok x
  | .error _ => .error .valueError

/-! ### mc_select -/

/-- the `channel` argument: a Python `int` or a label -/
inductive Chan (χ : Type)
  | idx (i : Int)
  | label (c : χ)

/-- creation: `i = channel` for an `int`, else `labels.index(channel)` (`ValueError` when absent), else
`ValueError('Unsupported channel')`.  The error is raised while the stage is created. -/
def mcSelectCreate [DecidableEq χ] (channel : Chan χ) (labels : Option (List χ)) : Except XErr Int :=
  match channel, labels with
  | .idx i, _ => .ok i
  | .label c, some ls =>
    (match ls.idxOf? c with
     | some i => .ok (i : Int)
     | none => .error .valueError)
  | .label _, none => .error .valueError

/-- Python's `seq[i]` for an integer `i`: negative indices count from the end -/
def pyGet (l : List β) (i : Int) : Option β :=
  if 0 ≤ i then l[i.toNat]?
  else if -(l.length : Int) ≤ i then l[(i + l.length).toNat]?
  else none

/-- a `channel × time` `PipelineData`: one list per row -/
structure PD2 (α ρ χ μ : Type) where
  rows : List (List α)
  s0 : Int
  fs : ρ
  channel : List χ
  metadata : μ

/-- what is sent to `mc_select` -/
inductive In2 (α ρ χ μ : Type)
  | other (ndim : Nat)                -- an array whose `ndim` is not 2
  | plain (rows : List (List α))
  | pd (x : PD2 α ρ χ μ)

/-- `if data.ndim != 2: raise ValueError; target(data[i])`.  On a `PipelineData`, `data[i]` keeps `s0`, `fs`,
`metadata` and sets `channel = channel[i]` (`__getitem__` 162-185). -/
def mcSelectStep (i : Int) (_ : Unit) : In2 α ρ χ μ → Except XErr (List (Arr α ρ χ μ) × Unit)
  | .other _ => .error .valueError
  | .plain rows =>
    (match pyGet rows i with
     | some r => .ok ([.plain r], ())
     | none => .error .indexError)
  | .pd x =>
    (match pyGet x.rows i, pyGet x.channel i with
     | some r, some c => .ok ([.pd { data := r, s0 := x.s0, ann := { fs := x.fs, channel := c, metadata := x.metadata } }], ())
     | _, _ => .error .indexError)

/-! ### detrend (epochs are abstract) -/

inductive Mode | none | constant | linear
  deriving Repr, DecidableEq

/-- a batch of epochs: plain array (any `ndim`; `rows` = its slices along the first axis) or a `PipelineData`
of dimension `ndim` whose `metadata` has one entry per epoch -/
inductive EIn (ε ρ χ μ : Type)
  | plain (epochs : List ε)
  | pd (ndim : Nat) (x : PD ε ρ χ (List μ))

/-- `signal.detrend(data, axis=-1, type=mode)`: epoch by epoch (`dt`); for `'linear'` SciPy raises
`ValueError` on an array without any epoch. -/
def detrendKernel (mode : Mode) (dt : ε → ε) (es : List ε) : Except XErr (List ε) :=
  if mode = .linear ∧ es.isEmpty then .error .valueError else .ok (es.map dt)

/-- `detrend(mode, target)`: a `PipelineData` must be 3-D; `mode is None` forwards the input; otherwise the
result is re-wrapped with the `fs`, `s0`, `channel`, `metadata` of the input. -/
def detrendStep (mode : Mode) (dt : ε → ε) (_ : Unit) : EIn ε ρ χ μ → Except XErr (List (EIn ε ρ χ μ) × Unit)
  | .plain es =>
    if mode = .none then .ok ([.plain es], ()) else
    (match detrendKernel mode dt es with
     | .ok r => .ok ([.plain r], ())
     | .error e => .error e)
  | .pd ndim x =>
    if ndim ≠ 3 then .error .valueError else
    if mode = .none then .ok ([.pd ndim x], ()) else
    (match detrendKernel mode dt x.data with
     | .ok r => .ok ([.pd ndim { x with data := r }], ())
     | .error e => .error e)

/-! ### broadcast -/

/-- `broadcast(*targets)`: `for target in targets: target(data)` — `(j, d)` = target `j` received `d`. -/
def broadcastStep (k : Nat) (_ : Unit) (d : I) : Except XErr (List (Nat × I) × Unit) :=
  .ok ((List.range k).map (fun j => (j, d)), ())

end
end Psi.StagesExt
