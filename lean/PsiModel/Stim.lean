/-
Model of the chunked stimulus generators of `psiaudio/stim.py` (C01, C09).

Sample *values* are abstract: the model says which value sits at which position.
The list-level functions (`envelopeFrag`, `gateMask`, `samEnvelope`, `squareWave`,
`squareWaveNext`, `fixedNext`, `repeatWave`) transcribe the integer arithmetic of the
Python code branch by branch over an arbitrary sample type with `zero`, `one`, `mul`.
`Stim` is the deep embedding of every finite nesting of factories over the free
sample type `Cell`; `Stim.next` is `factory.next(samples)`.

Where a defect of the unchanged code is repaired by a proposed fix
(notes/C01_fix_*.diff) the model follows the FIXED code; the unchanged arithmetic
is kept as `…Legacy` for the counterexample theorems.

Core Lean only.
-/
import PsiModel.Chunk
namespace Psi.Stim
open Psi.Chunk

class Sample (α : Type) where
  zero : α
  one : α
  mul : α → α → α

inductive Err | valueError | zeroDivisionError
  deriving Repr, DecidableEq

/-! ### Python / NumPy integer helpers -/

/-- `np.clip(x, lo, hi)` = `minimum(maximum(x, lo), hi)`. -/
def clip (x lo hi : Int) : Int := min (max x lo) hi

/-- `l[a:b]` for `a, b ≥ 0` (every slice taken by the modelled code has non-negative bounds). -/
def sliceNN {α : Type} (l : List α) (a b : Int) : List α := (l.take b.toNat).drop a.toNat

/-- `l[:k] = 0` for `k ≥ 0`. -/
def zeroPrefix {α : Type} [Sample α] (k : Nat) (l : List α) : List α :=
  List.replicate (min k l.length) Sample.zero ++ l.drop k

/-- `l[k:] = 0` for `k ≥ 0`. -/
def zeroFrom {α : Type} [Sample α] (k : Nat) (l : List α) : List α :=
  l.take k ++ List.replicate (l.length - k) Sample.zero

/-- `l[a:b] = v` (scalar broadcast) for `0 ≤ a`, `0 ≤ b`. -/
def setRange {α : Type} (l : List α) (a b : Nat) (v : α) : List α :=
  l.take a ++ List.replicate (min b l.length - a) v ++ l.drop (max a (min b l.length))

/-- `l[a:a+len(v)] = v` (array of exactly the right size) for `a + len(v) ≤ len(l)`. -/
def setSlice {α : Type} (l : List α) (a : Nat) (v : List α) : List α :=
  l.take a ++ v ++ l.drop (a + v.length)

/-! ### `envelope()` (stim.py 224-308) -/

structure EnvP where
  start : Nat          -- i_env_lb = int(round(start_time*fs))
  dur : Nat            -- i_duration = int(round(duration*fs))
  rise : Option Nat    -- int(round(rise_time*fs)), or `none` for rise_time=None
  deriving Repr, DecidableEq

/-- `i_rise_time`: `int(np.floor(i_duration / 2))` when `rise_time is None`. -/
def EnvP.riseN (p : EnvP) : Nat :=
  match p.rise with
  | none => p.dur / 2
  | some r => r

def getI (offset iStart : Int) : Int := max (offset - iStart) 0

def getN (iMax offset iStart maxN : Int) : Int :=
  clip (iMax - (offset - iStart)) 0 (min iMax maxN)

/-- The window table: `cos2ramp(2*r)` / `getattr(signal.windows, window)(2*r)`. -/
def rampTable {α : Type} (ramp : Nat → α) (r : Nat) : List α := (List.range (2 * r)).map ramp

/-- Body of `envelope()` after the rise-time guard. -/
def envelopeFrag {α : Type} [Sample α] (ramp : Nat → α) (lb dur r : Nat) (offset samples : Nat) : List α :=
  let tbl := rampTable ramp r
  let iLb : Int := lb
  let iDur : Int := dur
  let iR : Int := r
  let iUb := iLb + iDur
  let off : Int := offset
  let s0 : Int := samples
  let nSsMax := iDur - 2 * iR
  let nPre := getN iLb off 0 s0
  let s1 := s0 - nPre
  let iOn := getI off iLb
  let nOn := getN iR off iLb s1
  let s2 := s1 - nOn
  let nSs := getN nSsMax off (iLb + iR) s2
  let s3 := s2 - nSs
  let iOff := getI off (iUb - iR)
  let nOff := getN iR off (iUb - iR) s3
  let s4 := s3 - nOff
  List.replicate nPre.toNat Sample.zero
    ++ sliceNN tbl iOn (iOn + nOn)
    ++ List.replicate nSs.toNat Sample.one
    ++ sliceNN tbl (iR + iOff) (iR + iOff + nOff)
    ++ List.replicate s4.toNat Sample.zero

/-- `envelope(window, fs, duration, rise_time, offset, start_time, samples)`;
`ValueError` when `i_duration < 2*i_rise_time`. -/
def envelope {α : Type} [Sample α] (ramp : Nat → α) (p : EnvP) (offset samples : Nat) : Except Err (List α) :=
  if p.dur < p.riseN * 2 then .error .valueError
  else .ok (envelopeFrag ramp p.start p.dur p.riseN offset samples)

/-- Specification: the envelope value at absolute sample `k`. -/
def envAt {α : Type} [Sample α] (ramp : Nat → α) (lb dur r : Nat) (k : Nat) : α :=
  if k < lb then Sample.zero
  else if k < lb + r then ramp (k - lb)
  else if k < lb + dur - r then Sample.one
  else if k < lb + dur then ramp (r + (k - (lb + dur - r)))
  else Sample.zero

/-! ### `GateFactory.next` (stim.py 205-214) -/

/-- The masking done on the token returned by the input factory
(with the proposed fix C01_fix_1: a chunk with `ub <= 0` is zeroed completely). -/
def gateMask {α : Type} [Sample α] (start dur offset : Nat) (token : List α) : List α :=
  let lb : Int := (start : Int) - offset
  let ub : Int := lb + dur
  let t1 := if lb ≥ 0 then zeroPrefix lb.toNat token else token
  if ub > 0 then zeroFrom ub.toNat t1 else List.replicate t1.length Sample.zero

/-- The unchanged code: nothing happens when `ub <= 0`. -/
def gateMaskLegacy {α : Type} [Sample α] (start dur offset : Nat) (token : List α) : List α :=
  let lb : Int := (start : Int) - offset
  let ub : Int := lb + dur
  let t1 := if lb ≥ 0 then zeroPrefix lb.toNat token else token
  if ub > 0 then zeroFrom ub.toNat t1 else t1

/-- Specification of the gate at absolute sample `k`. -/
def gateAt {α : Type} [Sample α] (start dur : Nat) (k : Nat) (x : α) : α :=
  if start ≤ k ∧ k < start + dur then x else Sample.zero

/-! ### `_sam_envelope` (stim.py 371-385) -/

/-- `sam k` is the modulator value at modulation time `k/fs`; `delay = int(delay*fs)`.
With the proposed fix C01_fix_2 the time origin is the modulation onset in every chunk
(`sam_offset = offset + delay_n - int(delay*fs)`). -/
def samEnvelope {α : Type} [Sample α] (sam : Int → α) (delay offset samples : Nat) : List α :=
  let delayN : Int := clip ((delay : Int) - offset) 0 samples
  let samN : Int := samples - delayN
  let samOffset : Int := offset + delayN - delay
  List.replicate delayN.toNat Sample.one
    ++ (List.range samN.toNat).map fun (j : Nat) => sam (samOffset + (j : Int))

/-- The unchanged code: `sam_offset = offset - delay_n`. -/
def samEnvelopeLegacy {α : Type} [Sample α] (sam : Int → α) (delay offset samples : Nat) : List α :=
  let delayN : Int := clip ((delay : Int) - offset) 0 samples
  let samN : Int := samples - delayN
  let samOffset : Int := offset - delayN
  List.replicate delayN.toNat Sample.one
    ++ (List.range samN.toNat).map fun (j : Nat) => sam (samOffset + (j : Int))

def samAt {α : Type} [Sample α] (sam : Int → α) (delay : Nat) (k : Nat) : α :=
  if k < delay then Sample.one else sam ((k : Int) - delay)

/-! ### `square_wave` (stim.py 430-481) -/

/-- Python `round` / `np.round`: round half to even. -/
def roundHalfEven (q : Rat) : Int :=
  let f := q.floor
  let d := q - f
  if d < 1 / 2 then f
  else if 1 / 2 < d then f + 1
  else if f % 2 = 0 then f else f + 1

structure SqP where
  period : Rat     -- fm_samples = fs / fm (the exact value of that double)
  duty : Nat       -- duty_samples = int(round(duty_cycle * fm_samples))
  deriving Repr, DecidableEq

/-- Rounded absolute start of modulation period `i` (`int(np.round(fm_samples * i))`). -/
def SqP.startOf (p : SqP) (i : Int) : Int := roundHalfEven (p.period * i)

/-- One pass of the stride loop for period `i`. -/
def squareStep {α : Type} (tukey : List α) (p : SqP) (offset samples : Nat) (env : List α) (i : Int) : List α :=
  let s : Int := p.startOf i - offset
  if s < 0 then
    let nRem : Int := (p.duty : Int) + s
    if nRem > 0 then
      let k := clip nRem 0 samples
      setSlice env 0 ((tukey.drop (p.duty - nRem.toNat)).take k.toNat)
    else env
  else
    let lb := clip s 0 samples
    let ub := clip (s + p.duty) 0 samples
    setSlice env lb.toNat (tukey.take (ub - lb).toNat)

/-- The `while True` loop; the Python loop runs `fuel`-many times at most because
`fm_samples * i - offset > samples` eventually (period > 0). -/
def squareLoop {α : Type} (tukey : List α) (p : SqP) (offset samples : Nat) : Nat → Int → List α → List α
  | 0, _, env => env
  | fuel + 1, i, env =>
    let env' := squareStep tukey p offset samples env i
    let i' := i + 1
    if p.period * i' - offset > samples then env' else squareLoop tukey p offset samples fuel i' env'

/-- Number of passes that certainly suffices. -/
def squareFuel (p : SqP) (samples : Nat) : Nat :=
  (((samples : Rat) + 1) / p.period).floor.toNat + 3

/-- `square_wave(fs, offset, samples, depth, fm, duty_cycle, alpha)` with the proposed fixes
C01_fix_4 (period starts are rounded as absolute positions, `fm_samples * i`). `low` is `1-depth`,
`tukey i` the i-th entry of `tukey(duty_samples, alpha)*depth + (1-depth)`. -/
def squareWave {α : Type} (tukey : Nat → α) (low : α) (p : SqP) (offset samples : Nat) : List α :=
  let tbl := (List.range p.duty).map tukey
  let env := List.replicate samples low
  let i0 : Int := ((offset : Rat) / p.period).floor
  squareLoop tbl p offset samples (squareFuel p samples) i0 env

/-- Specification: the modulation period in progress at absolute sample `k`, i.e. the last
period whose rounded start is `≤ k` (`startOf (periodAt k) ≤ k < startOf (periodAt k + 1)`,
proved in `PsiProofs/Helper/C01_SquareEnv.lean`).  `fm_samples * i ≤ k + 1/2` with the
half-even tie (`fm_samples * i = k + 1/2` rounds up to `k + 1` when `k` is odd) taken out. -/
def SqP.periodAt (p : SqP) (k : Nat) : Int :=
  let m : Int := (((k : Rat) + 1 / 2) / p.period).floor
  if p.startOf m ≤ (k : Int) then m else m - 1

/-- Specification of `square_wave` at absolute sample `k`: inside the first `duty` samples
of the period in progress the Tukey table entry, else the minimum modulation depth. -/
def squareAt {α : Type} (tukey : Nat → α) (low : α) (p : SqP) (k : Nat) : α :=
  let d : Int := (k : Int) - p.startOf (p.periodAt k)
  if d < (p.duty : Int) then tukey d.toNat else low

/-! ### `SquareWaveFactory.next` (stim.py 1174-1180) -/

def sqwLoop {α : Type} (cycle on : Nat) (high : α) (samples : Nat) : Nat → Int → List α → List α
  | 0, _, w => w
  | fuel + 1, o, w =>
    if o < samples then
      sqwLoop cycle on high samples fuel (o + cycle) (setRange w (max o 0).toNat (max (o + on) 0).toNat high)
    else w

/-- With the proposed fix C01_fix_3: `o = -(offset % cycle)`, slice bounds clipped at 0,
offset advanced. -/
def squareWaveNext {α : Type} [Sample α] (cycle on : Nat) (high : α) (offset samples : Nat) : List α :=
  let o : Int := -((offset : Int) % cycle)
  sqwLoop cycle on high samples (samples + 1) o (List.replicate samples Sample.zero)

def sqwAt {α : Type} [Sample α] (cycle on : Nat) (high : α) (k : Nat) : α :=
  if k % cycle < on then high else Sample.zero

/-! ### `FixedWaveform.next` (stim.py 102-111) -/

def fixedNext {α : Type} [Sample α] (w : List α) (offset samples : Nat) : List α :=
  let seg := (w.take (offset + samples)).drop offset
  if seg.length < samples then seg ++ List.replicate (samples - seg.length) Sample.zero else seg

def fixedAt {α : Type} [Sample α] (w : List α) (k : Nat) : α :=
  match w[k]? with
  | some x => x
  | none => Sample.zero

/-! ### `repeat()` (stim.py 1206-1221) -/

structure RepP where
  n : Nat
  skip : Nat
  period : Nat    -- s_period = int(round(fs / rate))
  delay : Nat     -- s_delay = int(round(fs * delay))
  deriving Repr, DecidableEq

def repeatWave {α : Type} [Sample α] (p : RepP) (w : List α) : Except Err (List α) :=
  if (w.length : Int) > (p.period : Int) - p.delay then .error .valueError
  else
    let row := List.replicate p.delay Sample.zero ++ w
      ++ List.replicate (p.period - p.delay - w.length) Sample.zero
    .ok ((List.replicate p.skip (List.replicate p.period Sample.zero)).flatten
      ++ (List.replicate p.n row).flatten)

def repeatAt {α : Type} [Sample α] (p : RepP) (w : List α) (k : Nat) : α :=
  if k < (p.n + p.skip) * p.period ∧ p.skip ≤ k / p.period ∧ p.delay ≤ k % p.period then
    fixedAt w (k % p.period - p.delay)
  else Sample.zero

/-! ### The free sample type -/

inductive Src | carrier | ramp | sam | tukey | low | high
  deriving Repr, DecidableEq

/-- Symbolic sample values. `a s id i`: entry `i` of table/source `s` of node `id`;
`c s id`: a constant of node `id`; `f id j x`: j-th output of filter `id`, which consumed `x`. -/
inductive Cell where
  | z
  | o
  | a (s : Src) (id : Nat) (i : Nat)
  | c (s : Src) (id : Nat)
  | bad
  | mul (x y : Cell)
  | f (id : Nat) (j : Nat) (x : Cell)
  deriving Repr, DecidableEq

instance : Sample Cell := ⟨.z, .o, .mul⟩

/-- A cell that is certainly zero (as a real number): a forced zero, or a product with one. -/
def Cell.isZero : Cell → Bool
  | .z => true
  | .mul x y => x.isZero || y.isZero
  | _ => false

def samCell (id : Nat) (i : Int) : Cell := if 0 ≤ i then .a .sam id i.toNat else .bad

/-! ### Deep embedding of the factories -/

inductive Stim where
  /-- Carrier whose sample `k` is a function of `k` alone: Tone, SAMTone, Silence; also a
  whole noise pipeline viewed as one sequential source. -/
  | leaf (id : Nat) (off : Nat)
  | sqwave (id cycle on : Nat) (off : Nat)
  /-- FixedWaveform and subclasses (Click, Chirp, Repeat after `repeat()`): a stored array. -/
  | fixed (w : List Cell) (off : Nat)
  | gate (start dur : Nat) (off : Nat) (inner : Stim)
  | env (id : Nat) (p : EnvP) (off : Nat) (inner : Stim)
  | sam (id delay : Nat) (off : Nat) (inner : Stim)
  | sqenv (id : Nat) (p : SqP) (off : Nat) (inner : Stim)
  /-- A `Transform` that runs a stateful filter over its input (NotchFilterFactory);
  `j` counts the samples consumed. -/
  | filt (id : Nat) (j : Nat) (off : Nat) (inner : Stim)
  deriving Repr

def filtRun (id : Nat) : Nat → List Cell → List Cell
  | _, [] => []
  | j, x :: xs => Cell.f id j x :: filtRun id (j + 1) xs

/-- `factory.next(samples)` (when it does not raise, see `Stim.error?`). -/
def Stim.next : Stim → Nat → List Cell × Stim
  | .leaf id off, n => (slice (Cell.a .carrier id) off n, .leaf id (off + n))
  | .sqwave id cycle on off, n =>
    (squareWaveNext cycle on (Cell.c .high id) off n, .sqwave id cycle on (off + n))
  | .fixed w off, n => (fixedNext w off n, .fixed w (off + n))
  | .gate start dur off inner, n =>
    let r := inner.next n
    (gateMask start dur off r.1, .gate start dur (off + n) r.2)
  | .env id p off inner, n =>
    let r := inner.next n
    match envelope (Cell.a .ramp id) p off n with
    | .ok e => (List.zipWith Cell.mul e r.1, .env id p (off + n) r.2)
    | .error _ => ([], .env id p off r.2)
  | .sam id delay off inner, n =>
    let r := inner.next n
    (List.zipWith Cell.mul (samEnvelope (samCell id) delay off r.1.length) r.1,
      .sam id delay (off + r.1.length) r.2)
  | .sqenv id p off inner, n =>
    let r := inner.next n
    (List.zipWith Cell.mul (squareWave (Cell.a .tukey id) (Cell.c .low id) p off r.1.length) r.1,
      .sqenv id p (off + r.1.length) r.2)
  | .filt id j off inner, n =>
    let r := inner.next n
    (filtRun id j r.1, .filt id (j + r.1.length) (off + r.1.length) r.2)

/-- Does `next` raise?  (`envelope`: ValueError when the rise does not fit; SquareWaveFactory:
`offset % 0`.) -/
def Stim.error? : Stim → Option Err
  | .leaf _ _ => none
  | .sqwave _ cycle _ _ => if cycle = 0 then some .zeroDivisionError else none
  | .fixed _ _ => none
  | .gate _ _ _ inner => inner.error?
  | .env _ p _ inner =>
    match inner.error? with
    | some e => some e
    | none => if p.dur < p.riseN * 2 then some .valueError else none
  | .sam _ _ _ inner => inner.error?
  | .sqenv _ _ _ inner => inner.error?
  | .filt _ _ _ inner => inner.error?

/-- The guard under which `next` never raises. -/
def Stim.WF : Stim → Prop
  | .leaf _ _ => True
  | .sqwave _ cycle _ _ => 0 < cycle
  | .fixed _ _ => True
  | .gate _ _ _ inner => inner.WF
  | .env _ p _ inner => p.riseN * 2 ≤ p.dur ∧ inner.WF
  | .sam _ _ _ inner => inner.WF
  | .sqenv _ p _ inner => 0 < p.period ∧ inner.WF
  | .filt _ _ _ inner => inner.WF

/-- All running offsets are zero (a freshly constructed / reset factory). -/
def Stim.Fresh : Stim → Prop
  | .leaf _ off => off = 0
  | .sqwave _ _ _ off => off = 0
  | .fixed _ off => off = 0
  | .gate _ _ off inner => off = 0 ∧ inner.Fresh
  | .env _ _ off inner => off = 0 ∧ inner.Fresh
  | .sam _ _ off inner => off = 0 ∧ inner.Fresh
  | .sqenv _ _ off inner => off = 0 ∧ inner.Fresh
  | .filt _ j off inner => j = 0 ∧ off = 0 ∧ inner.Fresh

def stimGen : Gen Stim Cell := ⟨Stim.next⟩

/-! ### Sample bookkeeping (C09) -/

inductive Ext | na | inf | fin (n : Nat)
  deriving Repr, DecidableEq

/-- `n_samples()`: defined by GateFactory (and EnvelopeFactory) and FixedWaveform only. -/
def Stim.nSamples : Stim → Ext
  | .fixed w _ => .fin w.length
  | .gate start dur _ _ => .fin (start + dur)
  | .env _ p _ _ => .fin (p.start + p.dur)
  | _ => .na

/-- `n_samples_remaining()`. -/
def Stim.remaining : Stim → Ext
  | .leaf _ _ => .inf
  | .sqwave _ _ _ _ => .inf
  | .fixed w off => .fin (w.length - off)
  | .gate start dur off _ => .fin (start + dur - off)
  | .env _ p off _ => .fin (p.start + p.dur - off)
  | .sam _ _ _ inner => inner.remaining
  | .sqenv _ _ _ inner => inner.remaining
  | .filt _ _ _ inner => inner.remaining

/-- `is_complete()`. -/
def Stim.complete : Stim → Bool
  | .leaf _ _ => false
  | .sqwave _ _ _ _ => false
  | .fixed w off => decide (w.length ≤ off)
  | .gate start dur off _ => decide (start + dur ≤ off)
  | .env _ p off _ => decide (p.start + p.dur ≤ off)
  | .sam _ _ _ inner => inner.complete
  | .sqenv _ _ _ inner => inner.complete
  | .filt _ _ _ inner => inner.complete

/-- `RepeatFactory.__init__/reset`: draw the whole input (`get_samples_remaining`), lay it
out with `repeat()`, serve it as a FixedWaveform. -/
def mkRepeat (p : RepP) (inner : Stim) : Except Err Stim :=
  match inner.remaining with
  | .fin m =>
    match inner.error? with
    | some e => .error e
    | none =>
      match repeatWave p (inner.next m).1 with
      | .ok w => .ok (.fixed w 0)
      | .error e => .error e
  | _ => .error .valueError

end Psi.Stim
