import PsiModel.StagesExt
import PsiModel.Edges
/-!
Second extension of the `Stages` model (EXT12, work-stream x-pipe2; not part of property C12):
`rms_band`, `capture`, `events_to_info` of psiaudio/pipeline.py.  (`combine_events` is already modelled in
`PsiModel/Edges.lean` — `Psi.Edges.combineEvents`, theorems `combineEvents_spec/_rejects` of C13;
`coroutine` is the priming of every stage, `broadcast` is in `StagesExt.lean`.)

Same conventions as `PsiModel/Stages.lean` / `StagesExt.lean`: one `step` = one `send`, sample values abstract,
numeric kernels parameters.  The code is modelled **as it is** (notes/EXT12.md §9-§12):
* `rms_band(fs, fl, fh, duration, target)` is **not** a composition of `iirfilter` and `rms`: it is the block loop
  of `rms` (buffer, `concat`, `⌊len/n⌋` complete blocks of `n = round(fs·duration)` samples, remainder kept) with
  another block function (`detrend` → `util.psd` → `rms_rfft` of the bins `fli:fhi`, parameter `band`) and
  another annotation of the result: `PipelineData(result, fs=data[0].fs / n, s0=<number of values emitted so far>)`
  — the input's `s0`, channel labels and metadata are dropped.  `data[0].fs` makes a plain first chunk an
  `AttributeError`; `fs / n` makes `n = 0` a `ZeroDivisionError` at the first send;
* `capture(fs, queue, target)` counts the samples it has received **itself** (`s0 = 0` at creation; the `s0` of the
  chunks is not looked at), pops **at most one** queue entry per chunk, and forwards `data[..., i:]` only while
  `s_next >= s0`: a request whose start sample already went by is answered by `Ellipsis` and **nothing else**;
  `d.metadata['capture'] = …` makes a plain chunk that would be forwarded an `AttributeError`;
* `events_to_info(trigger_edge, base_info, target)` iterates `for e, ts in events`: an `Events` object (what
  `edges` emits) is not iterable — `TypeError`; a sequence of `(edge, ts)` pairs is processed.
Core Lean only.
-/
namespace Psi.StagesExt2
open Psi.Stages Psi.StagesExt

inductive PErr | valueError | attributeError | zeroDivision | typeError
  deriving Repr, DecidableEq

section
variable {α β ρ χ μ τ κ ι : Type}

/-- `data[..., k:]` on a plain array or a `PipelineData` -/
def dropArr (a : Arr α ρ χ μ) (k : Nat) : Arr α ρ χ μ :=
  match a with
  | .plain d => .plain (d.drop k)
  | .pd x => .pd (x.dropN k)

/-! ### rms_band -/

structure BandSt (α ρ χ μ : Type) where
  /-- `data` (list of buffered arrays) -/
  data : List (Arr α ρ χ μ) := []
  /-- `samples` -/
  samples : Nat := 0
  /-- `fs = data[0].fs`, read at the first send (`none` before it) -/
  fs : Option ρ := none
  /-- `s0`: number of values emitted so far -/
  s0 : Nat := 0

/-- the lines between the first `(yield)` and the loop: `fs = data[0].fs` (plain array: `AttributeError`),
`rms_fs = fs / n` (`ZeroDivisionError` for `n = 0`) -/
def bandFs (n : Nat) (st : BandSt α ρ χ μ) (d : Arr α ρ χ μ) : Except PErr ρ :=
  match st.fs with
  | some f => .ok f
  | none =>
    match d with
    | .plain _ => .error .attributeError
    | .pd x => if n = 0 then .error .zeroDivision else .ok x.ann.fs

/-- one `send` of `rms_band` (`n = int(round(fs * duration))`; `band` = detrend → psd → `rms_rfft[fli:fhi]` of one
block; `chDef`, `mdEmpty` = the constructor defaults `None` / `[None]·nch`, `{}`).  The emitted block's `s0` is the
count of values emitted before it, its rate `divFs fs n`. -/
def rmsBandStep (band : List α → β) (divFs : ρ → Nat → ρ) (chDef : χ) (mdEmpty : μ) (n : Nat)
    (st : BandSt α ρ χ μ) (d : Arr α ρ χ μ) : Except PErr (List (PD β ρ χ μ) × BandSt α ρ χ μ) :=
  match bandFs n st d with
  | .error e => .error e
  | .ok fs =>
    let data := st.data ++ [d]
    let samples := st.samples + d.data.length
    if n ≤ samples then
      match concatArr data with
      | .error _ => .error .valueError
      | .ok merged =>
        let nb := merged.data.length / n
        let res : PD β ρ χ μ :=
          { data := (chunksOf n merged.data.length (merged.data.take (nb * n))).map band
            s0 := (st.s0 : Int)
            ann := { fs := divFs fs n, channel := chDef, metadata := mdEmpty } }
        let rest := dropArr merged (nb * n)
        .ok ([res], { data := [rest], samples := rest.data.length, fs := some fs, s0 := st.s0 + res.data.length })
    else .ok ([], { data := data, samples := samples, fs := some fs, s0 := st.s0 })

/-- what `rms_band` does to the blocks of `rms` (same block loop, block function `band`): renumber them from the
count `k` of values emitted so far and replace the annotations -/
def renumber (a : Ann ρ χ μ) : Nat → List (PD β ρ χ μ) → List (PD β ρ χ μ)
  | _, [] => []
  | k, b :: bs => { data := b.data, s0 := (k : Int), ann := a } :: renumber a (k + b.data.length) bs

/-! ### capture -/

/-- a queue entry: an info dict (`t0` and `round(t0 * fs)`; the rounding is a parameter) or `None` -/
inductive Cmd (τ : Type)
  | start (t0 : τ) (sNext : Int)
  | stop
  deriving Repr, DecidableEq

structure CapSt (τ : Type) where
  /-- `s0`: samples received so far (counted from the creation of the stage) -/
  s0 : Nat := 0
  tStart : Option τ := none
  sNext : Option Int := none
  deriving Repr, DecidableEq

/-- one `send` of `capture`, given what `queue.popleft()` returned (`none` = `IndexError`, queue empty).
`addCap t md` is `md` with `md['capture'] = t` (on the copy of the metadata that the slice carries). -/
def captureCore (addCap : Option τ → μ → μ) (st : CapSt τ) (inp : Option (Cmd τ) × Arr α ρ χ μ) :
    Except PErr (List (Sig (Arr α ρ χ μ)) × CapSt τ) :=
  let cmd : List (Sig (Arr α ρ χ μ)) × Option τ × Option Int :=
    match inp.1 with
    | none => ([], st.tStart, st.sNext)
    | some (.start t s) => ([.restart], some t, some s)         -- `target(Ellipsis)`
    | some .stop => ([], st.tStart, none)
  let len := inp.2.data.length
  match cmd.2.2 with
  | none => .ok (cmd.1, { s0 := st.s0 + len, tStart := cmd.2.1, sNext := none })
  | some s =>
    -- `if (s_next is not None) and (s_next >= s0): i = s_next - s0; if i < data.shape[-1]:`
    if (st.s0 : Int) ≤ s ∧ s - (st.s0 : Int) < (len : Int) then
      match inp.2 with
      | .plain _ => .error .attributeError                       -- `d.metadata[...]` on an ndarray
      | .pd x =>
        let i := (s - (st.s0 : Int)).toNat
        let d : PD α ρ χ μ :=
          { data := x.data.drop i, s0 := x.s0 + i, ann := { x.ann with metadata := addCap cmd.2.1 x.ann.metadata } }
        .ok (cmd.1 ++ [.data (.pd d)], { s0 := st.s0 + len, tStart := cmd.2.1, sNext := some (s + ((len - i : Nat) : Int)) })
    else .ok (cmd.1, { s0 := st.s0 + len, tStart := cmd.2.1, sNext := some s })

structure CapQSt (τ : Type) where
  core : CapSt τ := {}
  /-- the deque shared with the producer of the requests -/
  queue : List (Cmd τ) := []

/-- one `send` with the real queue: `enq` = the entries appended to the deque since the previous `send`;
exactly one `popleft()` per chunk. -/
def captureStep (addCap : Option τ → μ → μ) (st : CapQSt τ) (inp : List (Cmd τ) × Arr α ρ χ μ) :
    Except PErr (List (Sig (Arr α ρ χ μ)) × CapQSt τ) :=
  let q := st.queue ++ inp.1
  match captureCore addCap st.core (q.head?, inp.2) with
  | .error e => .error e
  | .ok (o, c) => .ok (o, { core := c, queue := q.tail })

/-- what `popleft()` returns chunk by chunk, as a function of the queue history alone -/
def schedule : List (Cmd τ) → List (List (Cmd τ) × Arr α ρ χ μ) → List (Option (Cmd τ) × Arr α ρ χ μ)
  | _, [] => []
  | q, (enq, d) :: rest => ((q ++ enq).head?, d) :: schedule (q ++ enq).tail rest

/-- the queue after the history -/
def queueAfter : List (Cmd τ) → List (List (Cmd τ) × Arr α ρ χ μ) → List (Cmd τ)
  | q, [] => q
  | q, (enq, _) :: rest => queueAfter (q ++ enq).tail rest

/-! ### events_to_info -/

/-- what is sent to `events_to_info`: an `Events` object (as emitted by `edges`) or a sequence of
`(edge, ts)` pairs -/
inductive EvIn (κ τ : Type)
  | events (b : Psi.Edges.Block)
  | pairs (l : List (κ × τ))

/-- one `send`: `results = [base_info.copy() with ['t0'] = ts for e, ts in events if e == trigger_edge]`,
`target(results)` once (also for an empty list).  `setT0 ts base` is the copy with `t0` set. -/
def eventsToInfoStep [DecidableEq κ] (setT0 : τ → ι → ι) (edge : κ) (base : ι) (_ : Unit) :
    EvIn κ τ → Except PErr (List (List ι) × Unit)
  | .events _ => .error .typeError                               -- `'Events' object is not iterable`
  | .pairs l => .ok ([(l.filter (fun p => p.1 = edge)).map (fun p => setT0 p.2 base)], ())

end
end Psi.StagesExt2
