/-
Model of the boolean-epoch utilities of psiaudio/util.py
(`edge_rising`, `edge_falling`, `epochs` (pad = 0), `smooth_epochs`, `debounce_epochs`).

Code-faithful: the control flow of `epochs` (its special cases, the two boundary
fix-ups, the failure modes of `end[0]` on an empty array and of `np.c_` on
unequal lengths) is transcribed branch by branch.  Core Lean only.
-/
namespace Psi.Epochs

/-- `ts(np.r_[0, np.diff(x)] == 1)` restricted to positions ≥ `pos`, where `prev`
is the sample just before position `pos`. -/
def risingIdx : Nat → Bool → List Bool → List Nat
  | _, _, [] => []
  | pos, prev, b :: xs => (if b && !prev then [pos] else []) ++ risingIdx (pos + 1) b xs

/-- `ts(np.r_[0, np.diff(x)] == -1)` restricted to positions ≥ `pos`. -/
def fallingIdx : Nat → Bool → List Bool → List Nat
  | _, _, [] => []
  | pos, prev, b :: xs => (if !b && prev then [pos] else []) ++ fallingIdx (pos + 1) b xs

/-- `ts(edge_rising(x))`: the leading `0` of `np.r_[0, …]` means index 0 is never an edge. -/
def tsRising : List Bool → List Nat
  | [] => []
  | b :: xs => risingIdx 1 b xs

/-- `ts(edge_falling(x))`. -/
def tsFalling : List Bool → List Nat
  | [] => []
  | b :: xs => fallingIdx 1 b xs

inductive Err | indexError | valueError
  deriving Repr, DecidableEq

/-- `util.epochs(x)` with `pad = 0`. -/
def epochs (x : List Bool) : Except Err (List (Nat × Nat)) :=
  let n := x.length
  let start := tsRising x
  let stop := tsFalling x
  if start.length == 0 && stop.length == 0 then
    -- no edge at all: all-False (no run) or all-True (one run spanning the array)
    if x.head? == some true then .ok [(0, n)] else .ok []
  else
    let (start, stop) :=
      if stop.length == 0 && start.length == 1 then (start, stop ++ [n])
      else if stop.length == 1 && start.length == 0 then (0 :: start, stop)
      else (start, stop)
    match start.head?, stop.head? with
    | some s0, some e0 =>
      let start := if e0 < s0 then 0 :: start else start
      match start.getLast?, stop.getLast? with
      | some sl, some el =>
        let stop := if el < sl then stop ++ [n] else stop
        if start.length == stop.length then .ok (start.zip stop) else .error .valueError
      | _, _ => .error .indexError
    | _, _ => .error .indexError

/-! ### smooth_epochs -/

/-- insertion sort (what `ndarray.sort` computes on one column, as a function). -/
def insertSorted (a : Int) : List Int → List Int
  | [] => [a]
  | b :: bs => if a ≤ b then a :: b :: bs else b :: insertSorted a bs

def sortInts : List Int → List Int
  | [] => []
  | a :: as => insertSorted a (sortInts as)

/-- The `while` sweep of `smooth_epochs` once a current `(lb, ub)` is open:
`while ub >= epochs[i,0]: ub = epochs[i,1]`. -/
def sweepGo (lb ub : Int) : List (Int × Int) → List (Int × Int)
  | [] => [(lb, ub)]
  | (a, b) :: rest =>
    if ub ≥ a then sweepGo lb b rest else (lb, ub) :: sweepGo a b rest

def sweep : List (Int × Int) → List (Int × Int)
  | [] => []
  | (a, b) :: rest => sweepGo a b rest

/-- `util.smooth_epochs`: `epochs.sort(axis=0)` sorts each column independently, then sweeps. -/
def smoothEpochs (e : List (Int × Int)) : List (Int × Int) :=
  sweep ((sortInts (e.map (·.1))).zip (sortInts (e.map (·.2))))

/-- `util.debounce_epochs`. -/
def debounceEpochs (e : List (Int × Int)) (d : Int) : List (Int × Int) :=
  let kept := e.filter (fun r => decide (r.2 - r.1 ≥ d))
  let padded := kept.map (fun r => (r.1, r.2 + d))
  (smoothEpochs padded).map (fun r => (r.1, r.2 - d))

/-! ### Specifications (what the property says, stated as simply as possible) -/

/-- Maximal runs of `true`, by a single left-to-right scan. `cur` is the start of the open run. -/
def runsAux : Nat → Option Nat → List Bool → List (Nat × Nat)
  | _, none, [] => []
  | pos, some s, [] => [(s, pos)]
  | pos, none, true :: xs => runsAux (pos + 1) (some pos) xs
  | pos, none, false :: xs => runsAux (pos + 1) none xs
  | pos, some s, true :: xs => runsAux (pos + 1) (some s) xs
  | pos, some s, false :: xs => (s, pos) :: runsAux (pos + 1) none xs

def maximalRuns (x : List Bool) : List (Nat × Nat) := runsAux 0 none x

/-- insert an interval in order of (lb, ub). -/
def insertPair (p : Int × Int) : List (Int × Int) → List (Int × Int)
  | [] => [p]
  | q :: qs => if p.1 < q.1 ∨ (p.1 = q.1 ∧ p.2 ≤ q.2) then p :: q :: qs else q :: insertPair p qs

def sortPairs : List (Int × Int) → List (Int × Int)
  | [] => []
  | p :: ps => insertPair p (sortPairs ps)

/-- merge a list of intervals sorted by lower bound: join when overlapping or touching, keep the max upper bound. -/
def coverGo (lb ub : Int) : List (Int × Int) → List (Int × Int)
  | [] => [(lb, ub)]
  | (a, b) :: rest =>
    if a ≤ ub then coverGo lb (max ub b) rest else (lb, ub) :: coverGo a b rest

def sortedDisjointCover (e : List (Int × Int)) : List (Int × Int) :=
  match sortPairs e with
  | [] => []
  | (a, b) :: rest => coverGo a b rest

/-- join consecutive runs whose gap is ≤ d. -/
def joinGo (d lb ub : Int) : List (Int × Int) → List (Int × Int)
  | [] => [(lb, ub)]
  | (a, b) :: rest =>
    if a - ub ≤ d then joinGo d lb b rest else (lb, ub) :: joinGo d a b rest

def joinGaps (d : Int) : List (Int × Int) → List (Int × Int)
  | [] => []
  | (a, b) :: rest => joinGo d a b rest

def debounceSpec (e : List (Int × Int)) (d : Int) : List (Int × Int) :=
  joinGaps d (e.filter (fun r => decide (r.2 - r.1 ≥ d)))

end Psi.Epochs
