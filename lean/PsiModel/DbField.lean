/-
Calibration / level / spectrum / stimulus-scaling formulas of psiaudio, written ONCE
over an abstract arithmetic class `DbField α` (field operations, `exp10`, `log10`,
`sqrt`, comparisons) and its trigonometric extension `TrigField α`.

* `Float` instance (this file): the formulas are executed by `psidriver calib` and compared
  with the real methods of `psiaudio/calibration.py`, `psiaudio/util.py`, `psiaudio/stim.py`
  (transcription tolerance, see harness/c07.py, c16.py, c08.py).
* `ℝ` instance (`PsiProofs/Helper/C07_Real.lean`): the same definitions are what the
  theorems of C07 / C16 / C08 are about.

Core Lean only.  NumPy/SciPy kernels that are *modelled* (given their mathematical
definition, not verified): `interp1d(kind='linear', bounds_error=False)`, `np.fft.rfft`
/`irfft` (the DFT and its real inverse), `np.mean`, `scipy.signal.lfilter` (direct form
II transposed), `np.arange`, `RandomState.uniform` (`low + (high-low)*u`).
-/
namespace Psi.Db

/-- Arithmetic the dB formulas need. Comparisons are Bool-valued so that the model is
executable on `Float` and usable on `ℝ` (classical `decide`). -/
class DbField (α : Type) extends Add α, Sub α, Mul α, Div α, Neg α where
  ofNat : Nat → α
  exp10 : α → α
  log10 : α → α
  sqrt  : α → α
  ltb   : α → α → Bool
  eqb   : α → α → Bool

class TrigField (α : Type) extends DbField α where
  cos : α → α
  sin : α → α
  atan2 : α → α → α
  pi : α

export DbField (exp10 log10 sqrt ltb eqb)
export TrigField (cos sin atan2 pi)

instance : DbField Float where
  ofNat := Float.ofNat
  exp10 x := Float.pow 10 x
  log10 := Float.log10
  sqrt := Float.sqrt
  ltb a b := a < b
  eqb a b := a == b

instance : TrigField Float where
  cos := Float.cos
  sin := Float.sin
  atan2 := Float.atan2
  pi := 3.141592653589793

section Level
variable {α : Type} [DbField α]

/-- numeric literal -/
abbrev nat (k : Nat) : α := DbField.ofNat k

/-- `util.db(target, reference)` = `20*np.log10(target/reference)` -/
def db (x r : α) : α := nat 20 * log10 (x / r)

/-- `util.db(target)` (reference 1) -/
def db1 (x : α) : α := db x (nat 1)

/-- `util.dbi(db, reference)` = `(10**(db/20))*reference` -/
def dbi (d r : α) : α := exp10 (d / nat 20) * r

/-- `20e-6` (Pa) -/
def pRef : α := nat 20 / nat 1000000

/-- `util.dbtopa` -/
def dbtopa (d : α) : α := dbi d pRef

/-- `util.patodb` -/
def patodb (p : α) : α := db p pRef

/-- `util.spectrum_to_band_level(spectrum_db, n)` -/
def spectrumToBand (L n : α) : α := L + nat 10 * log10 n

/-- `util.band_to_spectrum_level(band_db, n)` -/
def bandToSpectrum (L n : α) : α := L - nat 10 * log10 n

/-! ### Results: a value, NaN, or a raised exception -/

inductive Res (α : Type)
  | val (a : α)
  | nan            -- NaN returned (outside the interpolation range)
  | calErr         -- `CalibrationError` raised
  | valErr         -- `ValueError` raised
  deriving Repr

def Res.map {β : Type} (f : α → β) : Res α → Res β
  | .val a => .val (f a)
  | .nan => .nan
  | .calErr => .calErr
  | .valErr => .valErr

/-! ### `interp1d(frequency, sensitivity, 'linear', bounds_error=False, fill_value=nan)` -/

/-- de Boor form used by SciPy ≥ 1.10 `_call_linear` on the bracketing knots. -/
def seg (xlo ylo xhi yhi x : α) : α :=
  ((x - xlo) / (xhi - xlo)) * yhi + ((xhi - x) / (xhi - xlo)) * ylo

/-- `searchsorted` + clip to `[1, n-1]`: the first segment whose upper knot is `≥ x`, else the last one. -/
def interpSeg : List (α × α) → α → Res α
  | (x0, y0) :: (x1, y1) :: rest, x =>
    match rest with
    | [] => .val (seg x0 y0 x1 y1 x)
    | _ :: _ => if ltb x1 x then interpSeg ((x1, y1) :: rest) x else .val (seg x0 y0 x1 y1 x)
  | _, _ => .nan   -- fewer than two knots: `interp1d` cannot be constructed

def lastX : List (α × α) → Option α
  | [] => none
  | [(x, _)] => some x
  | _ :: t => lastX t

/-- `_check_bounds` then `_call_linear`; the table is sorted by frequency (what `interp1d` does first). -/
def interp (tbl : List (α × α)) (x : α) : Res α :=
  match tbl, lastX tbl with
  | (x0, _) :: _, some xn => if ltb x x0 || ltb xn x then .nan else interpSeg tbl x
  | _, _ => .nan

/-- `PointCalibration._get_sens`: first table row whose frequency equals `f`. -/
def lookup : List (α × α) → α → Res α
  | [], _ => .calErr
  | (x, y) :: t, f => if eqb x f then .val y else lookup t f

/-! ### Calibrations -/

inductive Cal (α : Type)
  | flat (sens gain : α)                      -- FlatCalibration(sensitivity, fixed_gain)
  | interp (tbl : List (α × α)) (gain : α)    -- InterpCalibration(frequency, sensitivity, fixed_gain)
  | point (tbl : List (α × α)) (gain : α)     -- PointCalibration(frequency, sensitivity, fixed_gain)

/-- `get_sens(frequency)` for one frequency (array arguments are pointwise). -/
def getSens : Cal α → α → Res α
  | .flat s g, _ => .val (s - g)
  | .interp t g, f => (interp t f).map (· - g)
  | .point t g, f => (lookup t f).map (· - g)

/-- `get_sf`: `10**((level - sensitivity + attenuation)/20.0)` -/
def sfOf (S L A : α) : α := exp10 ((L - S + A) / nat 20)

def getSf (c : Cal α) (f L A : α) : Res α := (getSens c f).map (sfOf · L A)

/-- `_get_db`: `util.db(voltage) + sensitivity` -/
def getDb (c : Cal α) (f v : α) : Res α := (getSens c f).map (db1 v + ·)

/-- `get_attenuation`: `get_db(frequency, voltage) - level` -/
def getAttenuation (c : Cal α) (f v L : α) : Res α := (getDb c f v).map (· - L)

/-- `get_gain`: `util.db(get_sf(frequency, level, attenuation))` -/
def getGain (c : Cal α) (f L A : α) : Res α := (getSf c f L A).map db1

def sumList : List α → α
  | [] => nat 0
  | a :: t => a + sumList t

/-- Collect pointwise results the way a vectorised NumPy call followed by `.mean()` and the
`np.isnan` test does: a raised `CalibrationError` wins, any NaN makes the mean NaN. -/
def collect : List (Res α) → Res (List α)
  | [] => .val []
  | r :: t =>
    match r, collect t with
    | .calErr, _ => .calErr
    | .valErr, _ => .valErr
    | _, .calErr => .calErr
    | _, .valErr => .valErr
    | .nan, _ => .nan
    | _, .nan => .nan
    | .val a, .val l => .val (a :: l)

/-- `get_mean_sf(flb, fub, level, attenuation)` **after fix C07_fix_1** (attenuation is forwarded).
`freqs` is `np.arange(flb, fub)`.  Flat: `get_sf(flb, level, attenuation)`.
Frequency-dependent: mean of `get_sf(freqs, level, attenuation)`; NaN (or empty) → `ValueError`. -/
def getMeanSf (c : Cal α) (flb : α) (freqs : List α) (L A : α) : Res α :=
  match c with
  | .flat _ _ => getSf c flb L A
  | _ =>
    match freqs with
    | [] => .valErr
    | _ :: _ =>
      match collect (freqs.map (getSf c · L A)) with
      | .val l => .val (sumList l / nat l.length)
      | .nan => .valErr
      | .calErr => .calErr
      | .valErr => .valErr

/-! ### Constructors (sensitivity in dB from other units) -/

/-- `from_spl(spl, vrms)` / `from_db(level, vrms)`: `level - util.db(vrms)` -/
def sensFromDb (L v : α) : α := L - db1 v

/-- `from_pascals(magnitude, vrms)` **after fix C07_fix_2**:
`util.db(magnitude) - util.db(vrms) - util.db(20e-6)` -/
def sensFromPascals (m v : α) : α := db1 m - db1 v - db1 pRef

/-- `from_mv_pa(mv_pa)`: `util.db(1 / (mv_pa * 1e-3)) - util.db(20e-6)` -/
def sensFromMvPa (m : α) : α := db1 (nat 1 / (m * (nat 1 / nat 1000))) - db1 pRef

/-- `to_mv_pa()`: `1e3 / util.dbi(self.sensitivity + util.db(20e-6))` -/
def toMvPa (s : α) : α := nat 1000 / dbi (s + db1 pRef) (nat 1)

def Cal.fromSpl (L v g : α) : Cal α := .flat (sensFromDb L v) g
def Cal.fromDb (L v g : α) : Cal α := .flat (sensFromDb L v) g
def Cal.fromPascals (m v g : α) : Cal α := .flat (sensFromPascals m v) g
def Cal.fromMvPa (m : α) : Cal α := .flat (sensFromMvPa m) (nat 0)
def Cal.unity : Cal α := .flat (nat 0) (nat 0)
def Cal.asAttenuation (v : α) : Cal α := .flat (sensFromDb (nat 0) v) (nat 0)

/-- table constructors: rows are `(frequency, level-or-magnitude, vrms)` -/
def tblFromDb (rows : List (α × α × α)) : List (α × α) :=
  rows.map fun (f, L, v) => (f, sensFromDb L v)

def tblFromPascals (rows : List (α × α × α)) : List (α × α) :=
  rows.map fun (f, m, v) => (f, sensFromPascals m v)

end Level

/-! ## Spectrum helpers (C16) -/
section Spectrum
variable {α : Type} [TrigField α]

structure Cx (α : Type) where
  re : α
  im : α
  deriving Repr

def Cx.zero : Cx α := ⟨nat 0, nat 0⟩
def Cx.add (a b : Cx α) : Cx α := ⟨a.re + b.re, a.im + b.im⟩
def Cx.smul (c : α) (a : Cx α) : Cx α := ⟨c * a.re, c * a.im⟩
def Cx.abs (a : Cx α) : α := sqrt (a.re * a.re + a.im * a.im)
def Cx.normSq (a : Cx α) : α := a.re * a.re + a.im * a.im
def Cx.arg (a : Cx α) : α := atan2 a.im a.re

/-- `e^{iθ}` -/
def cis (θ : α) : Cx α := ⟨cos θ, sin θ⟩

/-- `Σ_{j<n} f j` (in index order) -/
def sumTo (n : Nat) (f : Nat → α) : α :=
  match n with
  | 0 => nat 0
  | m + 1 => sumTo m f + f m

def csumTo (n : Nat) (f : Nat → Cx α) : Cx α :=
  match n with
  | 0 => Cx.zero
  | m + 1 => Cx.add (csumTo m f) (f m)

/-- angle `2π·j·k/n` -/
def ang (n j k : Nat) : α := (nat 2 * pi) * nat (j * k) / nat n

/-- bin `k` of `np.fft.rfft(s)`: `Σ_j s_j e^{-2πi jk/n}` -/
def dftBin (n : Nat) (s : Nat → α) (k : Nat) : Cx α :=
  csumTo n fun j => Cx.smul (s j) (cis (-(ang n j k)))

/-- `scale = 2 / n / np.sqrt(2)` -/
def csdScale (n : Nat) : α := nat 2 / nat n / sqrt (nat 2)

def meanTo (n : Nat) (f : Nat → α) : α := sumTo n f / nat n

/-- `w/w.mean()*s` with `mu = w.mean()` -/
def applyWindow (mu : α) (w s : Nat → α) : Nat → α := fun j => w j / mu * s j

/-- `util.csd(s, window=None, detrend=None)[k]` -/
def csd (n : Nat) (s : Nat → α) (k : Nat) : Cx α := Cx.smul (csdScale n) (dftBin n s k)

/-- `util.csd(s, window=w, detrend=None)[k]` (`w = get_window(window, n)` is supplied) -/
def csdW (n : Nat) (w s : Nat → α) (k : Nat) : Cx α :=
  let mu := meanTo n w
  csd n (applyWindow mu w s) k

/-- `n = (s.shape[-1] // waveform_averages) * waveform_averages`: the samples `util.psd` keeps
(`trim_samples=True`, `s = s[..., :n]`) of a signal of `N` samples. -/
def trimLen (N avg : Nat) : Nat := (N / avg) * avg

/-- `util.psd(s, fs, waveform_averages=avg, trim_samples=True, detrend=None)[k]` for a signal of
**raw** length `N` (trailing samples included): trim to `trimLen N avg`, `reshape(avg, -1)` into rows of
`m = trimLen N avg / avg` samples, `csd` of each row, mean of the magnitudes. -/
def psd (N avg : Nat) (s : Nat → α) (k : Nat) : α :=
  let m := trimLen N avg / avg
  meanTo avg fun r => (csd m (fun j => s (r * m + j)) k).abs

/-- the same with a window: `csd` sees rows of `m` samples, so `w = get_window(window, m)` -/
def psdW (N avg : Nat) (w s : Nat → α) (k : Nat) : α :=
  let m := trimLen N avg / avg
  meanTo avg fun r => (csdW m w (fun j => s (r * m + j)) k).abs

/-! ### SciPy's cosine-sum windows, periodic form (`get_window(name, n)` has `fftbins=True`, i.e. `sym=False`)

`scipy.signal.windows._general_cosine_impl(n, a, sym=False)`: `fac = linspace(-pi, pi, n + 1)` (the extra
sample is truncated), `w = 0; for k in range(len(a)): w += a[k]*cos(k*fac)`.  `np.linspace` computes
`arange(num)*step + start` with `step = (stop - start)/n`.  (Lengths `n ≤ 1` return `ones(n)`: not modelled.) -/

/-- `np.linspace(-np.pi, np.pi, n + 1)[j]`, `j < n` -/
def cosFac (n j : Nat) : α := nat j * ((pi - (-pi)) / nat n) + (-pi)

/-- sample `j` of the periodic cosine-sum window of length `n` with coefficients `a 0 … a (terms-1)` -/
def cosWin (a : Nat → α) (terms n : Nat) : Nat → α :=
  fun j => sumTo terms fun m => a m * cos (nat m * cosFac n j)

/-- `general_hamming(n, alpha)`: `a = [alpha, 1. - alpha]` -/
def genHammingCoef (alpha : α) : Nat → α
  | 0 => alpha
  | 1 => nat 1 - alpha
  | _ => nat 0

/-- the cosine-sum windows of `scipy.signal.get_window` exercised for `util.csd` / `util.psd` -/
inductive CosWindow
  | hann | hamming | blackman | flattop | nuttall | blackmanharris
  deriving Repr, DecidableEq

/-- number of coefficients (`len(a)`) -/
def CosWindow.terms : CosWindow → Nat
  | .hann => 2
  | .hamming => 2
  | .blackman => 3
  | .flattop => 5
  | .nuttall => 4
  | .blackmanharris => 4

/-- SciPy's coefficient tables: `hann = general_hamming(0.5)`, `hamming = general_hamming(0.54)`,
`blackman = [0.42, 0.50, 0.08]`, `flattop = [0.21557895, 0.41663158, 0.277263158, 0.083578947, 0.006947368]`,
`nuttall = [0.3635819, 0.4891775, 0.1365995, 0.0106411]`, `blackmanharris = [0.35875, 0.48829, 0.14128, 0.01168]` -/
def CosWindow.coef : CosWindow → Nat → α
  | .hann => genHammingCoef (nat 5 / nat 10)
  | .hamming => genHammingCoef (nat 54 / nat 100)
  | .blackman => fun
    | 0 => nat 42 / nat 100
    | 1 => nat 50 / nat 100
    | 2 => nat 8 / nat 100
    | _ => nat 0
  | .flattop => fun
    | 0 => nat 21557895 / nat 100000000
    | 1 => nat 41663158 / nat 100000000
    | 2 => nat 277263158 / nat 1000000000
    | 3 => nat 83578947 / nat 1000000000
    | 4 => nat 6947368 / nat 1000000000
    | _ => nat 0
  | .nuttall => fun
    | 0 => nat 3635819 / nat 10000000
    | 1 => nat 4891775 / nat 10000000
    | 2 => nat 1365995 / nat 10000000
    | 3 => nat 106411 / nat 10000000
    | _ => nat 0
  | .blackmanharris => fun
    | 0 => nat 35875 / nat 100000
    | 1 => nat 48829 / nat 100000
    | 2 => nat 14128 / nat 100000
    | 3 => nat 1168 / nat 100000
    | _ => nat 0

/-- `scipy.signal.get_window(name, n)` for these cosine-sum windows -/
def CosWindow.window (w : CosWindow) (n : Nat) : Nat → α := cosWin w.coef w.terms n

/-- `util.phase(s, fs, unwrap=False)[k]` (`phase` calls `csd` with `detrend=None`) -/
def phaseBin (n : Nat) (s : Nat → α) (k : Nat) : α := (csd n s k).arg

/-- sample `j` of `util.csd_to_signal(c)` for `c` of length `m+1` (so `n = 2m`):
`irfft(c/scale)`, the real inverse DFT, which ignores the imaginary parts of the DC and Nyquist bins. -/
def csdToSignal (m : Nat) (c : Nat → Cx α) (j : Nat) : α :=
  let n := 2 * m
  let x : Nat → Cx α := fun k => ⟨(c k).re / csdScale n, (c k).im / csdScale n⟩
  ((x 0).re + (x m).re * cos (ang n j m)
    + nat 2 * sumTo (m - 1) fun i =>
        (x (i + 1)).re * cos (ang n j (i + 1)) - (x (i + 1)).im * sin (ang n j (i + 1)))
  / nat n

/-- `util.tone_conv(s, fs, frequency, window=None, detrend=None)`:
`mean(2*s*exp(-1j*(2*pi*t*frequency)))`, `t = arange(n)/fs` -/
def toneConv (n : Nat) (s : Nat → α) (fs f : α) : Cx α :=
  let r := csumTo n fun j => Cx.smul (nat 2 * s j) (cis (-((nat 2 * pi) * (nat j / fs) * f)))
  ⟨r.re / nat n, r.im / nat n⟩

/-- `util.tone_power_conv` -/
def tonePower (n : Nat) (s : Nat → α) (fs f : α) : α := (toneConv n s fs f).abs / sqrt (nat 2)

/-- `util.tone_phase_conv` -/
def tonePhase (n : Nat) (s : Nat → α) (fs f : α) : α := (toneConv n s fs f).arg

/-- `util.tone_conv(s, fs, frequency, window=w, detrend=None)`: the same on `w/w.mean()*s` -/
def toneConvW (n : Nat) (w s : Nat → α) (fs f : α) : Cx α :=
  toneConv n (applyWindow (meanTo n w) w s) fs f

def tonePowerW (n : Nat) (w s : Nat → α) (fs f : α) : α := (toneConvW n w s fs f).abs / sqrt (nat 2)

def tonePhaseW (n : Nat) (w s : Nat → α) (fs f : α) : α := (toneConvW n w s fs f).arg

/-- `util.rms(s)`: `np.mean(s**2)**0.5` -/
def rms (n : Nat) (s : Nat → α) : α := sqrt (meanTo n fun j => s j * s j)

/-- `util.rms_rfft(x)`: `sqrt(sum(|x|^2))` over `n` bins -/
def rmsRfft (n : Nat) (x : Nat → Cx α) : α := sqrt (sumTo n fun k => (x k).normSq)

/-- a sinusoid of RMS amplitude `A`, phase `p`, `k` whole cycles in `n` samples -/
def toneSig (n k : Nat) (A p : α) : Nat → α := fun j => sqrt (nat 2) * A * cos (ang n j k + p)

end Spectrum

/-! ## Stimulus scaling (C08) -/
section Stim
variable {α : Type} [TrigField α]

/-- `stim.tone`: `polarity * rms * np.sqrt(2) * np.cos(2*np.pi*t*frequency + phase)`,
`t = (arange(samples) + offset)/fs` -/
def tone (pol sf fs f ph : α) (offset j : Nat) : α :=
  pol * sf * sqrt (nat 2) * cos ((nat 2 * pi) * (nat (j + offset) / fs) * f + ph)

/-- one component of `stim.sam_tone`: `polarity * sf_i * sqrt(2) * cos(2π t f_i + phase_i)` -/
def samPart (pol sfi fs fi phi : α) (offset j : Nat) : α :=
  pol * sfi * sqrt (nat 2) * cos ((nat 2 * pi) * (nat (j + offset) / fs) * fi + phi)

/-- `sam_eq_power(depth)` = `(3/8 d² - d + 1)**0.5` -/
def samEqPower (d : α) : α := sqrt (nat 3 / nat 8 * (d * d) - d + nat 1)

/-- `stim.sam_tone` (depth 1): components at `fc-fm, fc, fc+fm` with weights ¼, ½, ¼ of the
scale factors `sf₋, sf₀, sf₊`, divided by `eq` (`sam_eq_power(1)` or 1). -/
def samTone (pol sfl sfc sfu eq fs fc fm phl phc phu : α) (offset j : Nat) : α :=
  samPart pol (sfl * (nat 1 / nat 4) / eq) fs (fc + fm * (-(nat 1))) phl offset j
  + samPart pol (sfc * (nat 1 / nat 2) / eq) fs (fc + fm * nat 0) phc offset j
  + samPart pol (sfu * (nat 1 / nat 4) / eq) fs (fc + fm * nat 1) phu offset j

/-- `Modulator.transform` / `EnvelopeFactory.next`: `env * token`, sample by sample -/
def modulate (env tok : List α) : List α := List.zipWith (· * ·) env tok

/-- one chunk of `Cos2EnvelopeFactory(…, input_factory=ToneFactory(…)).next(len env)` at sample offset `offset`:
the envelope samples (cells: `stim.envelope`, whose own law is property C09) times the tone -/
def rampedTone (env : List α) (pol sf fs f ph : α) (offset : Nat) : List α :=
  modulate env ((List.range env.length).map (tone pol sf fs f ph offset))

/-- `np.fft.rfftfreq(n, d=1/fs)[k]`: `k * (1.0/(n*d))` -/
def rfftfreq (n : Nat) (fs : α) (k : Nat) : α := nat k * (nat 1 / (nat n * (nat 1 / fs)))

/-- bin `k` of the spectrum `_click_waveform` hands to `csd_to_signal`: `psd * exp(-1j*freq*2*pi*0.5)` with
`psd[k] = sf` inside the pass band `klo ≤ k < khi` (the mask `(freq >= flb) & (freq < fub)`), `0` elsewhere;
`sf` is the mean scale factor (`equalize=False`). -/
def clickSpec (n : Nat) (fs sf : α) (klo khi k : Nat) : Cx α :=
  Cx.smul (if klo ≤ k ∧ k < khi then sf else nat 0) (cis (-(rfftfreq n fs k * nat 2 * pi * (nat 1 / nat 2))))

/-- `lb = int(round(n/2 - n_window/2))` (Python rounds halves to even), for `n_window ≤ n` -/
def clickLb (n nw : Nat) : Nat :=
  let d := n - nw
  let q := d / 2
  if d % 2 = 0 then q else if q % 2 = 0 then q else q + 1

/-- sample `i` of `bandlimited_click(fs, flb, fub, window, level, level_unit='rms', equalize=False)` for
`n = int(round(fs))` even, `n_window = int(round(window*fs)) ≤ n`: `util.csd_to_signal(csd)[lb + i]`. -/
def blClick (n nw : Nat) (fs sf : α) (klo khi : Nat) (i : Nat) : α :=
  csdToSignal (n / 2) (clickSpec n fs sf klo khi) (clickLb n nw + i)

end Stim

section Filter
variable {α : Type} [DbField α]

/-- generic pointwise stimulus: `polarity * sf * proto_j` (click: proto = 1) -/
def scaled (pol sf : α) (proto : List α) : List α := proto.map fun p => pol * sf * p

/-- `RandomState.uniform(low, high)` on a unit draw `u`: `low + (high - low)*u` -/
def uniform (low high u : α) : α := low + (high - low) * u


/-- one step of `scipy.signal.lfilter` (direct form II transposed, `a[0] = 1`):
`bt`, `atl` are `b[1:]`, `a[1:]` padded to the state length. -/
def zipStep (x y : α) : List α → List α → List α → List α
  | z :: zs, b :: bs, a :: as => (z + b * x - a * y) :: zipStep x y zs bs as
  | _, _, _ => []

def shiftState (z : List α) : List α := z.drop 1 ++ [nat 0]

def lfilterStep (b0 : α) (bt atl : List α) (z : List α) (x : α) : α × List α :=
  let y := (match z with | [] => nat 0 * x | z0 :: _ => z0) + b0 * x
  (y, zipStep x y (shiftState z) bt atl)

/-- `lfilter(b, a, x, zi=z)` → `(y, zf)` -/
def lfilter (b0 : α) (bt atl : List α) : List α → List α → List α × List α
  | z, [] => ([], z)
  | z, x :: xs =>
    let (y, z') := lfilterStep b0 bt atl z x
    let (ys, zf) := lfilter b0 bt atl z' xs
    (y :: ys, zf)

def zeroState (n : Nat) : List α := List.replicate n (nat 0)

/-- `BroadbandNoiseFactory`: `low = -np.sqrt(3) * sf`, `high = np.sqrt(3) * sf` -/
def bbnLow (sf : α) : α := -(sqrt (nat 3)) * sf
def bbnHigh (sf : α) : α := sqrt (nat 3) * sf

/-- Filtered-noise stimuli (`notch_noise`, `bandlimited_noise`, `shaped_noise`, `bandlimited_fir_noise`):
unit draws `u` → `polIn * uniform(low, high)` → `lfilter(b, a, ·, zi=z0)` → drop the discarded
onset → `* polOut`.  (Notch: `polIn = polarity, polOut = 1`; the others: `polIn = 1, polOut = polarity`.)
**After fix C08_fix_1 the notch filter starts from the zero state** (`z0 = zeroState`); the band-limited IIR
factory starts from `lfilter_zi(b, a)` (not scaled with the level) and discards `ceil(fs)` samples; the FIR
factories start from `lfilter_zi(taps)` and discard exactly the `ntaps-1` samples it can reach. -/
def filtStim (polIn polOut low high b0 : α) (bt atl z0 : List α) (discard : Nat) (u : List α) : List α :=
  ((lfilter b0 bt atl z0 (u.map fun r => polIn * uniform low high r)).1.drop discard).map (· * polOut)

/-! ### wav playback (`stim.load_wav`, `WavFileFactory`) -/

inductive WavNorm
  | none | pe | rms
  deriving Repr, DecidableEq

/-- integer PCM → `-1.0 … 1.0`: `(waveform - ii.min) / (ii.max - ii.min) * 2 - 1` -/
def pcmToUnit (lo hi v : α) : α := (v - lo) / (hi - lo) * nat 2 - nat 1

/-- `waveform.max()` by a left scan -/
def lmaxFrom (m : α) : List α → α
  | [] => m
  | x :: t => lmaxFrom (if ltb m x then x else m) t

/-- `util.rms` of a list: `np.mean(s**2)**0.5` -/
def rmsL (x : List α) : α := sqrt (sumList (x.map fun v => v * v) / nat x.length)

/-- `normalization=None / 'pe' / 'rms'`: as is, `waveform / waveform.max()`, `waveform / util.rms(waveform)` -/
def wavNormalize : WavNorm → List α → List α
  | .none, x => x
  | .pe, [] => []
  | .pe, a :: t => (a :: t).map (· / lmaxFrom a t)
  | .rms, x => x.map (· / rmsL x)

/-- `load_wav(fs, file, level, calibration, normalization)` at the file's own sampling rate:
normalise, then `waveform *= sf` with `sf = calibration.get_sf(1e3, level)` -/
def loadWav (norm : WavNorm) (sf : α) (x : List α) : List α := (wavNormalize norm x).map (· * sf)

end Filter

section Chirp
variable {α : Type} [TrigField α]

/-- `np.cumsum(x)` continued from `acc` -/
def cumsumFrom (acc : α) : List α → List α
  | [] => []
  | x :: t => (acc + x) :: cumsumFrom (acc + x) t

/-- `stim.chirp(fs, f0, f1, duration, level, calibration, window, equalize=False)` 1253-1299, from the window
samples `w = get_window(window, n)` (cells) and `sf = get_mean_sf(f0, f1, level)`:
`wi_norm = cumsum(w**2)/sum(w**2)`, `ifreq = wi_norm*(f1 - f0) + f0`, `phase = cumsum(ifreq)/fs`, `w /= rms(w)`,
`sqrt(2)*sf*w*sin(2*pi*phase)`.  (`np.sum` adds pairwise, `sumList` in list order: a transcription tolerance.) -/
def chirp (fs f0 f1 sf : α) (w : List α) : List α :=
  let w2 := w.map fun v => v * v
  let tot := sumList w2
  let ifreq := (cumsumFrom (nat 0) w2).map fun c => c / tot * (f1 - f0) + f0
  let phase := (cumsumFrom (nat 0) ifreq).map (· / fs)
  let r := rmsL w
  List.zipWith (fun wv ph => sqrt (nat 2) * sf * (wv / r) * sin (nat 2 * pi * ph)) w phase

end Chirp

end Psi.Db
