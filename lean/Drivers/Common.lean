/-
Line protocol shared by all model drivers: one operation per stdin line,
exactly one canonical result line on stdout per input line.
The line `reset` puts the model back into its initial state (prints `ok`),
so many cases are piped through a single process.
-/
namespace Psi.Driver

def words (s : String) : List String :=
  (s.splitOn " ").filter (· ≠ "")

def parseInt? (s : String) : Option Int := s.toInt?
def parseNat? (s : String) : Option Nat := s.toNat?

/-- "a,b,c" → ["a","b","c"]; "" or "-" → [] -/
def commaList (s : String) : List String :=
  if s == "" || s == "-" then [] else s.splitOn ","

def parseInts? (s : String) : Option (List Int) :=
  (commaList s).mapM parseInt?

def parseNats? (s : String) : Option (List Nat) :=
  (commaList s).mapM parseNat?

/-- "1:3,5:9" → [(1,3),(5,9)] -/
def parsePairs? (s : String) : Option (List (Int × Int)) :=
  (commaList s).mapM fun p =>
    match p.splitOn ":" with
    | [a, b] => do pure ((← parseInt? a), (← parseInt? b))
    | _ => none

def showPairs {α β} [ToString α] [ToString β] (l : List (α × β)) : String :=
  if l.isEmpty then "-" else ",".intercalate (l.map fun (a, b) => s!"{a}:{b}")

def showList {α} [ToString α] (l : List α) : String :=
  if l.isEmpty then "-" else ",".intercalate (l.map toString)

/-- "0110" → [false,true,true,false] ; "-" → [] -/
def parseBits? (s : String) : Option (List Bool) :=
  if s == "-" then some [] else
  s.toList.mapM fun c => if c == '0' then some false else if c == '1' then some true else none

def showBits (l : List Bool) : String :=
  if l.isEmpty then "-" else String.ofList (l.map fun b => if b then '1' else '0')

partial def loop {σ : Type} (init : σ) (step : σ → List String → σ × String)
    (hin : IO.FS.Stream) (hout : IO.FS.Stream) (s : σ) : IO Unit := do
  let line ← hin.getLine
  if line.isEmpty then return ()
  let ws := words (line.trimAscii.toString)
  match ws with
  | ["reset"] => hout.putStrLn "ok"; loop init step hin hout init
  | _ =>
    let (s', out) := step s ws
    hout.putStrLn out
    loop init step hin hout s'

def run {σ : Type} (init : σ) (step : σ → List String → σ × String) : IO Unit := do
  let hin ← IO.getStdin
  let hout ← IO.getStdout
  loop init step hin hout init
  hout.flush

end Psi.Driver
