import PsiModel.EpochsExt
import Drivers.Common
/-!
Driver lines of the EXT18 extension (not part of property C18); every first word starts with `x`.
  `xepochs <pad> <bits>`        → `ok <pairs> <bits-after>` | `err <Err> <bits-after>`
  `xepochsf <pad> <bits>`       the same for the library repaired by notes/EXT18_fix_1.diff
  `xdilate <pad≥0> <bits>`      → `ok <bits>`                      (the spec)
  `xcontain <pairs> <ints>`     → `ok <bits>`   (count model)      `xcontainb` the same by binary search
  `xoverlap <pairsA> <pairsB>`  → `ok <bits>`                      `xoverlapb` the same by binary search
  `xbin <number> <bits>`        → `ok <0/1 list>`
  `xttl <L|A> <width> <ints>`   → `ok <row>|<row>…` (`ok none` without rows) | `err TypeError`
-/
namespace Psi.Driver.EpochsExt
open Psi.Driver Psi.Epochs Psi.EpochsExt

def showErr : Err → String
  | .indexError => "IndexError"
  | .valueError => "ValueError"

def showRows (rows : List (List Bool)) : String :=
  if rows.isEmpty then "none" else "|".intercalate (rows.map showBits)

def step (ws : List String) : String :=
  match ws with
  | ["xepochs", pad, bits] =>
    match parseInt? pad, parseBits? bits with
    | some p, some x =>
      match epochsPad x p with
      | (.ok l, y) => s!"ok {showPairs l} {showBits y}"
      | (.error e, y) => s!"err {showErr e} {showBits y}"
    | _, _ => "bad-op"
  | ["xepochsf", pad, bits] =>
    match parseInt? pad, parseBits? bits with
    | some p, some x =>
      match epochsPadFixed x p with
      | (.ok l, y) => s!"ok {showPairs l} {showBits y}"
      | (.error e, y) => s!"err {showErr e} {showBits y}"
    | _, _ => "bad-op"
  | ["xdilate", pad, bits] =>
    match parseNat? pad, parseBits? bits with
    | some p, some x => s!"ok {showBits (dilate x p)}"
    | _, _ => "bad-op"
  | ["xcontain", ps, ts] =>
    match parsePairs? ps, parseInts? ts with
    | some e, some t => s!"ok {showBits (epochsContain e t)}"
    | _, _ => "bad-op"
  | ["xcontainb", ps, ts] =>
    match parsePairs? ps, parseInts? ts with
    | some e, some t => s!"ok {showBits (t.map (contain1B e))}"
    | _, _ => "bad-op"
  | ["xoverlap", pa, pb] =>
    match parsePairs? pa, parsePairs? pb with
    | some a, some b => s!"ok {showBits (epochsOverlap a b)}"
    | _, _ => "bad-op"
  | ["xoverlapb", pa, pb] =>
    match parsePairs? pa, parsePairs? pb with
    | some a, some b => s!"ok {showBits (b.map (overlap1B a))}"
    | _, _ => "bad-op"
  | ["xbin", n, bits] =>
    match parseInt? n, parseInt? bits with
    | some n, some b => s!"ok {showList (binArray n b)}"
    | _, _ => "bad-op"
  | ["xttl", src, width, vals] =>
    match parseInt? width, parseInts? vals with
    | some w, some a =>
      if src == "L" || src == "A" then
        match intToTTL (src == "L") a w with
        | .ok rows => s!"ok {showRows rows}"
        | .error .typeError => "err TypeError"
      else "bad-op"
    | _, _ => "bad-op"
  | _ => "bad-op"

end Psi.Driver.EpochsExt
