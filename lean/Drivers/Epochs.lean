import PsiModel.Epochs
import Drivers.Common
import Drivers.EpochsExt
namespace Psi.Driver.Epochs
open Psi.Driver Psi.Epochs

def showErr : Err → String
  | .indexError => "IndexError"
  | .valueError => "ValueError"

def step (_ : Unit) (ws : List String) : Unit × String :=
  let out :=
    match ws with
    | ["epochs", bits] =>
      match parseBits? bits with
      | some x => match epochs x with
        | .ok l => s!"ok {showPairs l}"
        | .error e => s!"err {showErr e}"
      | none => "bad-op"
    | ["runs", bits] =>
      match parseBits? bits with
      | some x => s!"ok {showPairs (maximalRuns x)}"
      | none => "bad-op"
    | ["smooth", ps] =>
      match parsePairs? ps with
      | some e => s!"ok {showPairs (smoothEpochs e)}"
      | none => "bad-op"
    | ["cover", ps] =>
      match parsePairs? ps with
      | some e => s!"ok {showPairs (sortedDisjointCover e)}"
      | none => "bad-op"
    | ["debounce", d, ps] =>
      match parseInt? d, parsePairs? ps with
      | some d, some e => s!"ok {showPairs (debounceEpochs e d)}"
      | _, _ => "bad-op"
    | ["debounce_spec", d, ps] =>
      match parseInt? d, parsePairs? ps with
      | some d, some e => s!"ok {showPairs (debounceSpec e d)}"
      | _, _ => "bad-op"
    | _ => "bad-op"
  ((), out)

/-- words starting with `x` go to the EXT18 extension (Drivers/EpochsExt.lean), everything else as before -/
def stepAll (s : Unit) (ws : List String) : Unit × String :=
  match ws with
  | w :: _ => if w.startsWith "x" then ((), EpochsExt.step ws) else step s ws
  | [] => step s ws

def main : IO Unit := run () stepAll
end Psi.Driver.Epochs
