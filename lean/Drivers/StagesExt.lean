import PsiModel.StagesExt
import Drivers.Common
import Drivers.StagesExt2
/-!
Driver of the `StagesExt` model (EXT12; reached through `psidriver stages`, every line starts with `x`).
Symbolic cells: `N` NaN, `X k` input column k, `R k` input row k, `A lo hi` mean of rows [lo, hi),
`C r k` channel r / column k, `E k` epoch k, `T k` detrended epoch k, `?` anything else.

  `xnew delay <n> <ann>`                       → `ok <blocks>`  (what `target` gets at creation)
  `xnew average <n> <fixed>`                   → `ok`
  `xnew acc_time <n> <cb> <ann>`               → `ok`           (accumulate along time, 1-D blocks)
  `xnew acc_stack <n> <cb>`                    → `ok`           (accumulate along a new / other axis: blocks are ids)
  `xnew mc_select <i|l> <v> <labels|-> <ann>`  → `ok` | `err ValueError`
  `xnew detrend <none|constant|linear>`        → `ok`
  `xnew broadcast <k>`                         → `ok`
  `xpush <len> <gap>`        delay / acc_time: a 1-D chunk            → `ok <blocks / events>` | `err <E>`
  `xrows <k>`                average: k rows                           → `ok <means>` | `err <E>`
  `xblk`                     acc_stack: one block                      → `ok <events>`
  `xrestart`                 acc_*: `Ellipsis`                         → `ok <events>`
  `x2d <kind> <nch> <len> <gap>`   mc_select: kind `pd` | `plain` | `nd`   → `ok <blocks>` | `err <E>`
  `xep <kind> <k>`           detrend: k epochs, kind `plain` | `pd<ndim>`  → `ok <blocks>` | `err <E>`
  `xany`                     broadcast: one object                     → `ok j:id|…`
A 1-D block is `s0;ch;n;cells` (`_;_;n;cells` for a plain array).
Lines `xband/xbpush/xcap/xcq/xcpush/xinfo/xipairs/xievents`: see Drivers/StagesExt2.lean.
-/
namespace Psi.Driver.StagesExt
open Psi.Driver Psi.Stages Psi.StagesExt

inductive Cell
  | nan | x (k : Nat) | r (k : Nat) | a (lo hi : Nat) | c (ch k : Nat) | e (k : Nat) | t (k : Nat) | bad
  deriving DecidableEq, Repr

def Cell.show : Cell → String
  | .nan => "N" | .x k => s!"X{k}" | .r k => s!"R{k}" | .a lo hi => s!"A{lo}.{hi}" | .c ch k => s!"C{ch}.{k}"
  | .e k => s!"E{k}" | .t k => s!"T{k}" | .bad => "?"

def showCells (l : List Cell) : String :=
  if l.isEmpty then "-" else ",".intercalate (l.map Cell.show)

abbrev A1 := Arr Cell Unit String String
abbrev P1 := PD Cell Unit String String

def showPd (b : P1) : String := s!"{b.s0};{b.ann.channel};{b.data.length};{showCells b.data}"
def showArr : A1 → String
  | .plain d => s!"_;_;{d.length};{showCells d}"
  | .pd b => showPd b

def bar (l : List String) : String := if l.isEmpty then "ok -" else "ok " ++ "|".intercalate l

def showErr : XErr → String
  | .valueError => "ValueError" | .indexError => "IndexError" | .diverges => "Diverges"

/-- symbolic `mean(axis=0)` of consecutive rows -/
def symMean (l : List Cell) : Cell :=
  match l with
  | .r lo :: rest =>
    if rest = (List.range rest.length).map (fun i => Cell.r (lo + 1 + i)) then .a lo (lo + 1 + rest.length) else .bad
  | _ => .bad

def symDt : Cell → Cell
  | .e k => .t k
  | _ => .bad

inductive StageSt
  | delay
  | average (n : Nat) (fixed : Bool) (st : Option (List Cell))
  | accTime (n : Nat) (cb : Bool) (st : List P1)
  | accStack (n : Nat) (cb : Bool) (st : List Nat)
  | mcSelect (i : Int) (chan : List String)
  | detrend (mode : Mode)
  | broadcast (k : Nat)
  | dead

structure St where
  stage : StageSt := .dead
  annotated : Bool := false
  pos : Nat := 0          -- index of the next input column / row / epoch / block
  s0 : Int := 0           -- s0 of the next chunk
  ext2 : Psi.Driver.StagesExt2.St := {}   -- `rms_band`, `capture`, `events_to_info` (Drivers/StagesExt2.lean)

def mk1 (s : St) (len : Nat) (gap : Int) : P1 :=
  { data := (List.range len).map fun i => Cell.x (s.pos + i), s0 := s.s0 + gap,
    ann := { fs := (), channel := "ch", metadata := "md" } }

def showEv {O : Type} (sh : O → String) : AccEv O → String
  | .emit o => "E:" ++ sh o
  | .restart => "R"
  | .status k => s!"S{k}"

def die (s : St) (e : XErr) : St × String := ({ s with stage := .dead }, s!"err {showErr e}")

def push (s : St) (len : Nat) (gap : Int) : St × String :=
  let y := mk1 s len gap
  let s' := { s with pos := s.pos + len, s0 := s.s0 + gap + len }
  match s.stage with
  | .delay =>
    match delayStep () (if s.annotated then Arr.pd y else Arr.plain y.data) with
    | .error e => die s e
    | .ok (bs, _) => (s', bar (bs.map showArr))
  | .accTime n cb st =>
    -- a plain array carries no `s0`: `np.concatenate` always succeeds (the gap is ignored)
    let y := if s.annotated then y else { y with s0 := s.s0 }
    let s' := if s.annotated then s' else { s' with s0 := s.s0 + len }
    match accumulateStep n id joinTime cb st (.data y) with
    | .error e => die s e
    | .ok (evs, st') =>
      ({ s' with stage := .accTime n cb st' },
       bar (evs.map (showEv fun b => if s.annotated then showPd b else showArr (.plain b.data))))
  | .dead => (s, "err Dead")
  | _ => (s, "bad-op")

def rows (s : St) (k : Nat) : St × String :=
  match s.stage with
  | .average n fixed st =>
    let d := (List.range k).map fun i => Cell.r (s.pos + i)
    match (if fixed then averageFixedStep symMean n st d else averageStep n st d) with
    | .error e => die s e
    | .ok (ms, st') => ({ s with stage := .average n fixed st', pos := s.pos + k }, bar (ms.map Cell.show))
  | .dead => (s, "err Dead")
  | _ => (s, "bad-op")

def showIds (l : List Nat) : String := "+".intercalate (l.map toString)

def blk (s : St) (restart : Bool) : St × String :=
  match s.stage with
  | .accStack n cb st =>
    match accumulateStep n id (fun l => Except.ok l) cb st (if restart then .restart else .data s.pos) with
    | .error e => die s e
    | .ok (evs, st') =>
      ({ s with stage := .accStack n cb st', pos := if restart then s.pos else s.pos + 1 }, bar (evs.map (showEv showIds)))
  | .accTime n cb st =>
    if !restart then (s, "bad-op") else
    match accumulateStep n id joinTime cb st .restart with
    | .error e => die s e
    | .ok (evs, st') => ({ s with stage := .accTime n cb st' }, bar (evs.map (showEv showPd)))
  | .dead => (s, "err Dead")
  | _ => (s, "bad-op")

def twoD (s : St) (kind : String) (nch len : Nat) (gap : Int) : St × String :=
  match s.stage with
  | .mcSelect i chan =>
    let rws := (List.range nch).map fun r => (List.range len).map fun k => Cell.c r (s.pos + k)
    let inp : Option (In2 Cell Unit String String) :=
      match kind with
      | "nd" => some (.other 1)
      | "plain" => some (.plain rws)
      | "pd" => some (.pd { rows := rws, s0 := s.s0 + gap, fs := (), channel := chan, metadata := "md" })
      | _ => none
    match inp with
    | none => (s, "bad-op")
    | some inp =>
      match mcSelectStep i () inp with
      | .error e => die s e
      | .ok (bs, _) => ({ s with pos := s.pos + len, s0 := s.s0 + gap + len }, bar (bs.map showArr))
  | .dead => (s, "err Dead")
  | _ => (s, "bad-op")

def showEIn : EIn Cell Unit String String → String
  | .plain es => s!"_;_;{es.length};{showCells es}"
  | .pd _ x => s!"{x.s0};{x.ann.channel};{showList x.ann.metadata};{x.data.length};{showCells x.data}"

def epochs (s : St) (kind : String) (k : Nat) : St × String :=
  match s.stage with
  | .detrend mode =>
    let es := (List.range k).map fun i => Cell.e (s.pos + i)
    let md := (List.range k).map fun i => s!"M{s.pos + i}"
    let mkPd (nd : Nat) : EIn Cell Unit String String :=
      .pd nd { data := es, s0 := 7, ann := { fs := (), channel := "ch", metadata := md } }
    let inp : Option (EIn Cell Unit String String) :=
      match kind with
      | "plain" => some (.plain es)
      | "pd1" => some (mkPd 1) | "pd2" => some (mkPd 2) | "pd3" => some (mkPd 3)
      | _ => none
    match inp with
    | none => (s, "bad-op")
    | some inp =>
      match detrendStep mode symDt () inp with
      | .error e => die s e
      | .ok (bs, _) => ({ s with pos := s.pos + k }, bar (bs.map showEIn))
  | .dead => (s, "err Dead")
  | _ => (s, "bad-op")

def anyObj (s : St) : St × String :=
  match s.stage with
  | .broadcast k =>
    match broadcastStep k () s.pos with
    | .error e => die s e
    | .ok (l, _) => ({ s with pos := s.pos + 1 }, bar (l.map fun (j, d) => s!"{j}:{d}"))
  | .dead => (s, "err Dead")
  | _ => (s, "bad-op")

def parseMode : String → Option Mode
  | "none" => some .none | "constant" => some .constant | "linear" => some .linear | _ => none

def step (s : St) (ws : List String) : St × String :=
  match ws with
  | ["xnew", "delay", n, ann] =>
    match parseNat? n, parseNat? ann with
    | some n, some ann =>
      ({ stage := .delay, annotated := ann == 1 }, bar ((delayCreate Cell.nan n : List A1).map showArr))
    | _, _ => (s, "bad-op")
  | ["xnew", "average", n, fixed] =>
    match parseNat? n, parseNat? fixed with
    | some n, some f => ({ stage := .average n (f == 1) none }, "ok")
    | _, _ => (s, "bad-op")
  | ["xnew", "acc_time", n, cb, ann] =>
    match parseNat? n, parseNat? cb, parseNat? ann with
    | some n, some cb, some ann => ({ stage := .accTime n (cb == 1) [], annotated := ann == 1 }, "ok")
    | _, _, _ => (s, "bad-op")
  | ["xnew", "acc_stack", n, cb] =>
    match parseNat? n, parseNat? cb with
    | some n, some cb => ({ stage := .accStack n (cb == 1) [] }, "ok")
    | _, _ => (s, "bad-op")
  | ["xnew", "mc_select", kind, v, labels, chan] =>
    let ch : Option (Chan String) :=
      match kind with
      | "i" => (parseInt? v).map Chan.idx
      | "l" => some (.label v)
      | _ => none
    match ch with
    | none => (s, "bad-op")
    | some ch =>
      match mcSelectCreate ch (if labels == "-" then none else some (commaList labels)) with
      | .error e => die s e
      | .ok i => ({ stage := .mcSelect i (commaList chan) }, "ok")
  | ["xnew", "detrend", mode] =>
    match parseMode mode with
    | some m => ({ stage := .detrend m }, "ok")
    | none => (s, "bad-op")
  | ["xnew", "broadcast", k] =>
    match parseNat? k with
    | some k => ({ stage := .broadcast k }, "ok")
    | none => (s, "bad-op")
  | ["xpush", len, gap] =>
    match parseNat? len, parseInt? gap with
    | some len, some gap => push s len gap
    | _, _ => (s, "bad-op")
  | ["xrows", k] =>
    match parseNat? k with
    | some k => rows s k
    | none => (s, "bad-op")
  | ["xblk"] => blk s false
  | ["xrestart"] => blk s true
  | ["x2d", kind, nch, len, gap] =>
    match parseNat? nch, parseNat? len, parseInt? gap with
    | some nch, some len, some gap => twoD s kind nch len gap
    | _, _, _ => (s, "bad-op")
  | ["xep", kind, k] =>
    match parseNat? k with
    | some k => epochs s kind k
    | none => (s, "bad-op")
  | ["xany"] => anyObj s
  | _ =>
    -- every other `x…` line belongs to the second extension (Drivers/StagesExt2.lean)
    let r := Psi.Driver.StagesExt2.step s.ext2 ws
    ({ s with ext2 := r.1 }, r.2)

end Psi.Driver.StagesExt
