import Drivers.Common
/-! Stub: replaced by the driver of the `Reject` model. -/
namespace Psi.Driver.Reject
def main : IO Unit := pure ()
end Psi.Driver.Reject
