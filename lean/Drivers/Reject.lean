import PsiModel.Reject
import Drivers.Common
import Drivers.PData
/-!
Line protocol of the `reject` model (C17).

  mode abs|amp                                         start a coroutine with that criterion
  send TH plain SHAPE VALUES                            one batch (plain ndarray), threshold TH in force
  send TH pd SHAPE VALUES S0 NUM/DEN CHAN META           one batch (PipelineData)

TH and VALUES are integers (the harness scales the lattice by 4).
Result: `ok mask=<bits> fwd=<rows separated by ;|none> shape=… [md=… s0=… fs=… ch=…]` or `err <class>`.
-/
namespace Psi.Driver.Reject
open Psi.Driver Psi.PData Psi.Reject

structure St where
  mode : Mode := .absValue
  alive : Bool := true

def showRows (r : Option (List (List Int))) : String :=
  match r with
  | none => "none"
  | some rows => ";".intercalate (rows.map showList)

def showOut (annot : Bool) (o : Out) : String :=
  let head := s!"ok mask={showBits o.mask} fwd={showRows o.forwarded} shape={showList o.shape}"
  if o.forwarded.isNone then s!"ok mask={showBits o.mask} fwd=none"
  else if annot then
    let md := match o.metadata with | some m => Psi.Driver.PData.showMeta m | none => "-"
    s!"{head} md={md} s0={o.s0} fs={Psi.Driver.PData.showRat o.fs} ch={Psi.Driver.PData.showChan o.channel}"
  else head

def showRErr : RErr → String
  | .valueError => "ValueError"
  | .stopIteration => "StopIteration"
  | .other e => Psi.Driver.PData.showErr e

def doSend (s : St) (th : Int) (b : Batch) : St × String :=
  match Psi.Reject.run s.mode s.alive [(th, b)] with
  | [.ok o] => (s, showOut b.annotated o)
  | [.error e] => ({ s with alive := false }, s!"err {showRErr e}")
  | _ => (s, "bad-op")

def step (s : St) (ws : List String) : St × String :=
  match ws with
  | ["mode", "abs"] => ({ mode := .absValue, alive := true }, "ok")
  | ["mode", "amp"] => ({ mode := .amplitude, alive := true }, "ok")
  | ["send", th, "plain", shape, vals] =>
    (match parseInt? th, parseNats? shape, parseInts? vals with
     | some th, some shape, some vals => doSend s th { annotated := false, shape := shape, values := vals }
     | _, _, _ => (s, "bad-op"))
  | ["send", th, "pd", shape, vals, s0, fs, ch, md] =>
    (match parseInt? th, parseNats? shape, parseInts? vals, parseInt? s0, Psi.Driver.PData.parseRat? fs,
           Psi.Driver.PData.parseChan? ch, Psi.Driver.PData.parseMeta? md with
     | some th, some shape, some vals, some s0, some fs, some ch, some md =>
       doSend s th { annotated := true, shape := shape, values := vals, s0 := s0, fs := fs, channel := ch, metadata := md }
     | _, _, _, _, _, _, _ => (s, "bad-op"))
  | _ => (s, "bad-op")

def main : IO Unit := Psi.Driver.run ({} : St) step
end Psi.Driver.Reject
