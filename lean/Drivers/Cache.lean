import Drivers.Common
/-! Stub: replaced by the driver of the `Cache` model. -/
namespace Psi.Driver.Cache
def main : IO Unit := pure ()
end Psi.Driver.Cache
