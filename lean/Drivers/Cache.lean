import PsiModel.Cache
import Drivers.Common
/-! Line protocol of the `cache` model (C10).

Declarations (answer `ok`): `variant copy|alias`, `specs N`, `arrays N`, `key <id> <lens> <inner|->`.
Memo ops: `call K` → `h<N> clean|dirty c.i,…`, `read H` → `clean|dirty …` (relative to the value handed out plus the caller's own writes through H), `mutate H C I` → `ok`,
`scribble` → `ok`.  World ops: `new S`, `qnew kind p`, `copy O`, `clone Q` → `o<N>`; `next O n`,
`pop Q n` → the lineage name of the chunk; `reset O`, `append Q G t d`, `appendw Q W t d`,
`seed x`, `rand n`, `wwrite W` → `ok`. -/
namespace Psi.Driver.Cache
open Psi.Driver Psi.Cache

structure DState where
  variant : Variant := .copy
  table : List (List Nat × Option Nat) := []     -- per key id: component lengths, wrapped key
  cs : State Nat Nat Nat := State.init
  expect : List (List (List Nat)) := []           -- per handle: the value handed out + the caller's own writes
  w : World := World.init

def sigOf (table : List (List Nat × Option Nat)) : Sig Nat Nat Nat :=
  { compute := fun k =>
      match table[k]? with
      | some (lens, _) => lens.map fun n => List.replicate n 0
      | none => []
    wraps := fun w =>
      match table[w]? with
      | some (_, some i) => i
      | _ => 0 }

def keyOf (table : List (List Nat × Option Nat)) (k : Nat) : Option (Key Nat Nat) :=
  match table[k]? with
  | some (_, some _) => some (.wrap k)
  | some (_, none) => some (.leaf k)
  | none => none

/-- positions `c.i` where `got` differs from `ref` -/
def diffPositions (got ref : List (List Nat)) : List String :=
  let rec comp (c : Nat) : List (List Nat) → List (List Nat) → List String
    | g :: gs, r :: rs =>
      let bad := (List.range g.length).filter fun i => g[i]? != r[i]?
      bad.map (fun i => s!"{c}.{i}") ++ comp (c + 1) gs rs
    | _, _ => []
  comp 0 got ref

def verdict (got : Option (List (List Nat))) (ref : List (List Nat)) : String :=
  match got with
  | none => "dangling"
  | some g =>
    match diffPositions g ref with
    | [] => "clean"
    | l => "dirty " ++ ",".intercalate l

def showLin (l : Lin) : String :=
  s!"g{l.spec}[" ++ ",".intercalate (l.chunks.map toString) ++ "]"

def showEv : Ev → String
  | .app src t d => "a(" ++ showLin src ++ s!")x{t}d{d}"
  | .appw w t d p => s!"w{w}" ++ (if p then "!" else "") ++ s!"x{t}d{d}"
  | .pop n => s!"p{n}"

def showOut : Out → String
  | .ok => "ok"
  | .obj i => s!"o{i}"
  | .chunk c => showLin ⟨c.spec, c.before⟩ ++ s!"+{c.n}"
  | .qchunk k p e n => s!"q{k}:{p}" ++ "{" ++ ";".intercalate (e.map showEv) ++ "}" ++ s!"+{n}"
  | .bad => "bad-op"

def parseWOp (ws : List String) : Option WOp :=
  match ws with
  | ["new", s] => do pure (.new (← parseNat? s))
  | ["qnew", k, p] => do pure (.qnew k (← parseNat? p))
  | ["next", o, n] => do pure (.next (← parseNat? o) (← parseNat? n))
  | ["reset", o] => do pure (.reset (← parseNat? o))
  | ["copy", o] => do pure (.copy (← parseNat? o))
  | ["clone", o] => do pure (.clone (← parseNat? o))
  | ["append", q, g, t, d] => do pure (.append (← parseNat? q) (← parseNat? g) (← parseNat? t) (← parseNat? d))
  | ["appendw", q, a, t, d] => do pure (.appendw (← parseNat? q) (← parseNat? a) (← parseNat? t) (← parseNat? d))
  | ["pop", q, n] => do pure (.pop (← parseNat? q) (← parseNat? n))
  | ["seed", x] => do pure (.seed (← parseNat? x))
  | ["rand", n] => do pure (.rand (← parseNat? n))
  | ["wwrite", a] => do pure (.wwrite (← parseNat? a))
  | _ => none

def step (s : DState) (ws : List String) : DState × String :=
  let sg := sigOf s.table
  match ws with
  | ["variant", "copy"] => ({ s with variant := .copy }, "ok")
  | ["variant", "alias"] => ({ s with variant := .alias }, "ok")
  | ["specs", n] =>
    match parseNat? n with
    | some n => ({ s with w := { s.w with nspecs := n } }, "ok")
    | none => (s, "bad-op")
  | ["arrays", n] =>
    match parseNat? n with
    | some n => ({ s with w := { s.w with narrays := n } }, "ok")
    | none => (s, "bad-op")
  | ["key", i, lens, inner] =>
    match parseNat? i, parseNats? lens with
    | some i, some lens =>
      if i ≠ s.table.length then (s, "bad-op") else
      if inner == "-" then ({ s with table := s.table ++ [(lens, none)] }, "ok") else
      match parseNat? inner with
      | some j => ({ s with table := s.table ++ [(lens, some j)] }, "ok")
      | none => (s, "bad-op")
    | _, _ => (s, "bad-op")
  | ["call", k] =>
    match (parseNat? k).bind (keyOf s.table) with
    | some key =>
      let h := s.cs.handles.length
      let cs := call s.variant sg s.cs key
      ({ s with cs := cs, expect := s.expect ++ [sg.value key] },
        s!"h{h} " ++ verdict (readHandle cs h) (sg.value key))
    | none => (s, "bad-op")
  | ["read", h] =>
    match parseNat? h with
    | some h =>
      match s.cs.handles[h]?, s.expect[h]? with
      | some as, some e => (s, verdict (readAll s.cs.heap as) e)
      | _, _ => (s, "bad-handle")
    | none => (s, "bad-op")
  | ["mutate", h, c, i] =>
    match parseNat? h, parseNat? c, parseNat? i with
    | some h, some c, some i =>
      match mutate s.cs h c i 1 with
      | .ok cs =>
        let e := s.expect.modify h fun t => t.modify c fun a => a.set i 1
        ({ s with cs := cs, expect := e }, "ok")
      | .error .badHandle => (s, "bad-handle")
      | .error .badIndex => (s, "bad-index")
    | _, _, _ => (s, "bad-op")
  | ["scribble"] =>
    ({ s with cs := scribble s.cs 1, expect := s.expect.map fun t => t.map fun a => a.map fun _ => 1 }, "ok")
  | _ =>
    match parseWOp ws with
    | some op =>
      let r := wstep s.w op
      ({ s with w := r.1 }, showOut r.2)
    | none => (s, "bad-op")

def main : IO Unit := run ({} : DState) step
end Psi.Driver.Cache
