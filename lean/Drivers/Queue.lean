import PsiModel.Queue
import PsiModel.QueueSpec
import Drivers.Common
/-! Line-protocol driver of the `Queue` model.

ops
  new <fifo|interleaved|random|blockedrandom|grouped|blockedfifo> <keep 0|1> <gsize> <draws> <perms>
  append <arr|gen> <len> <trials> <delays> <dur> <zeroAt>
  pop <n> | tick <n> (same through the per-sample spec) | pause <m|none> | resume <m|none>
  popnd <n>  (pop_buffer(n, decrement=False); pause-free histories only)
every state-changing op answers
  ok|err <Class>  out=<rle cells> add=<key@k+dur,..> rm=<uid,..> ts=<samples> empty=<0|1> rem=<trials,..> ct=<n> cr=<n>
Cells whose reference value is exactly 0.0 (listed in zeroAt by the harness) are displayed as Z:
a display canonicalisation only, the model never sees it.
-/
namespace Psi.Driver.Queue
open Psi.Driver Psi.Queue

structure DState where
  q : QState := {}
  zeroAt : List (List Nat) := []
  dead : Bool := false

def showErr : Err → String
  | .valueError => "ValueError"
  | .indexError => "IndexError"
  | .keyError => "KeyError"
  | .zeroDivision => "ZeroDivisionError"
  | .stopIteration => "StopIteration"
  | .hang => "HANG"
  | .oracle => "ORACLE-EXHAUSTED"
  | .fuel => "FUEL"

/-- run-length encoding: `Z<n>` and `W<key>:<j0>+<n>` -/
def rle (zeroAt : List (List Nat)) (cells : List Cell) : String :=
  let canon : Cell → Cell := fun c =>
    match c with
    | .Z => .Z
    | .W k j => if ((zeroAt[k]?).getD []).contains j then .Z else .W k j
  -- segments: (isZ, key, j0, count)
  let segs : List (Bool × Nat × Nat × Nat) :=
    cells.foldl (fun acc c =>
      match canon c, acc with
      | .Z, (true, k, j, n) :: rest => (true, k, j, n + 1) :: rest
      | .Z, acc => (true, 0, 0, 1) :: acc
      | .W k j, (false, k', j0, n) :: rest =>
        if k = k' ∧ j = j0 + n then (false, k', j0, n + 1) :: rest
        else (false, k, j, 1) :: (false, k', j0, n) :: rest
      | .W k j, acc => (false, k, j, 1) :: acc) []
  let strs := segs.reverse.map fun (z, k, j, n) => if z then s!"Z{n}" else s!"W{k}:{j}+{n}"
  if strs.isEmpty then "-" else ",".intercalate strs

def showInfos (l : List Info) : String :=
  if l.isEmpty then "-" else ",".intercalate (l.map fun i => s!"{i.key}@{i.k}+{i.dur}")

def report (tag : String) (zeroAt : List (List Nat)) (old new : QState) (out : List Cell) : String :=
  let add := new.added.drop old.added.length
  let rm := new.removed.drop old.removed.length
  s!"{tag} out={rle zeroAt out} add={showInfos add} rm={showList rm} ts={new.samples} " ++
  s!"empty={if new.empty then 1 else 0} rem={showList (new.data.map (·.trials))} " ++
  s!"ct={countTrials new} cr={countRequested new}"

def parsePerms? (s : String) : Option (List (List Nat)) :=
  (commaList s).mapM fun p => (p.splitOn ":").mapM parseNat?

def parseOptInt? (s : String) : Option (Option Int) :=
  if s == "none" then some none else (parseInt? s).map some

def mkNew (kind : String) (keep : Nat) (gsize : Nat) (draws : List Nat) (perms : List (List Nat)) :
    Option QState :=
  let base : QState := { keep := keep != 0, draws := draws, perms := perms }
  match kind with
  | "fifo" => some { base with kind := .fifo }
  | "interleaved" => some { base with kind := .interleaved }
  | "random" => some { base with kind := .random }
  | "blockedrandom" => some { base with kind := .blockedRandom }
  | "grouped" => some { base with kind := .grouped, gsize := gsize }
  | "blockedfifo" => some { base with kind := .grouped, gsize := 0, auto := true }
  | _ => none

def step (d : DState) (ws : List String) : DState × String :=
  match ws with
  | ["new", kind, keep, gsize, draws, perms] =>
    match parseNat? keep, parseNat? gsize, parseNats? draws, parsePerms? perms with
    | some keep, some gsize, some draws, some perms =>
      match mkNew kind keep gsize draws perms with
      | some q => ({ q := q }, "ok")
      | none => (d, "bad-op")
    | _, _, _, _ => (d, "bad-op")
  | ["append", kind, len, trials, delays, dur, zs] =>
    if d.dead then (d, "dead") else
    match parseNat? len, parseInt? trials, parseInts? delays, parseInt? dur, parseNats? zs with
    | some len, some trials, some delays, some dur, some zs =>
      if len = 0 ∨ (kind != "arr" ∧ kind != "gen") then (d, "bad-op") else
      let e : Entry := { len := len, gen := kind == "gen", trials := trials, requested := trials,
                         delays := delays, dpos := 0, dur := dur }
      let (q, key) := append d.q e
      ({ d with q := q, zeroAt := d.zeroAt ++ [zs] }, s!"ok {key}")
    | _, _, _, _, _ => (d, "bad-op")
  | ["pop", n] =>
    if d.dead then (d, "dead") else
    match parseInt? n with
    | none => (d, "bad-op")
    | some n =>
      match popBuffer n.toNat d.q with
      | .ok (out, q) => ({ d with q := q }, report "ok" d.zeroAt d.q q out)
      | .error e =>
        if n ≤ 0 then (d, report s!"err {showErr e}" d.zeroAt d.q d.q [])
        else ({ d with dead := true }, s!"err {showErr e}")
  | ["popnd", n] =>
    if d.dead then (d, "dead") else
    match parseInt? n with
    | none => (d, "bad-op")
    | some n =>
      match popBufferND n.toNat d.q with
      | .ok (out, q) => ({ d with q := q }, report "ok" d.zeroAt d.q q out)
      | .error e =>
        if n ≤ 0 then (d, report s!"err {showErr e}" d.zeroAt d.q d.q [])
        else ({ d with dead := true }, s!"err {showErr e}")
  | ["tick", n] =>
    if d.dead then (d, "dead") else
    match parseNat? n with
    | none => (d, "bad-op")
    | some n =>
      if n = 0 then (d, report "err ValueError" d.zeroAt d.q d.q []) else
      match runTicks n d.q with
      | .ok (out, q) => ({ d with q := q }, report "ok" d.zeroAt d.q q out)
      | .error e => ({ d with dead := true }, s!"err {showErr e}")
  | ["pause", m] =>
    if d.dead then (d, "dead") else
    match parseOptInt? m with
    | none => (d, "bad-op")
    | some m =>
      let (q, raised) := pause m d.q
      ({ d with q := q }, report (if raised then "err ValueError" else "ok") d.zeroAt d.q q [])
  | ["resume", m] =>
    if d.dead then (d, "dead") else
    match parseOptInt? m with
    | none => (d, "bad-op")
    | some m =>
      let q := resume m d.q
      ({ d with q := q }, report "ok" d.zeroAt d.q q [])
  | _ => (d, "bad-op")

def main : IO Unit := run {} step
end Psi.Driver.Queue
