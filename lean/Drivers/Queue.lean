import Drivers.Common
/-! Stub: replaced by the driver of the `Queue` model. -/
namespace Psi.Driver.Queue
def main : IO Unit := pure ()
end Psi.Driver.Queue
