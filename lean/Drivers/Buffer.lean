import PsiModel.Buffer
import Drivers.Common
/-!
Line protocol of the `buffer` model (C14).  Payload cells: the `k`-th sample ever appended in
this case is `data k` (so content identifies position); `I` = the constructor's fill value,
`N` = the NaN written by `_invalidate`, `F` = the fill value of a filled read.

  new <cap>                     -> ok <lb> <ub>
  append <n>                    -> ok <lb> <ub>            | err ValueError   (n = 0)
  inval <i>                     -> ok <lb> <ub>
  resize <c>                    -> ok <lb> <ub>            | err IndexError
  bounds                        -> ok <lb> <ub>
  read <lb> <ub>                -> ok <cells>              | err IndexError
  window                        -> ok <cells>              | err IndexError
  filled <lb> <ub>              -> ok <cells>              | err IndexError
  latest <lb> <ub>              -> ok <cells>              | err IndexError
  latestf <lb> <ub>             -> ok <cells>              | err IndexError
  probe                         -> P <lb> <ub> | window | read(lb-1,ub) | read(lb,ub+1) | read(lb+1,ub-1)
                                     | filled(lb-2,ub+1) | filled(lb-3,lb-1) | filled(ub+1,ub+3) | latestf(-2,0)
  filledi / latestfi / probei   : the same with the constructor's own fill value as the fill (cells print I)
  orig-inval <i>, orig-filled <lb> <ub> : the two operations as found in the repository.
-/
namespace Psi.Driver.Buffer
open Psi.Driver Psi.Buffer

inductive Cell | data (k : Nat) | fillInit | nan | pad
  deriving Repr, DecidableEq

def showCell : Cell → String
  | .data k => toString k
  | .fillInit => "I"
  | .nan => "N"
  | .pad => "F"

def showCells (l : List Cell) : String :=
  if l.isEmpty then "-" else ",".intercalate (l.map showCell)

def showErr : Err → String
  | .indexError => "IndexError"
  | .valueError => "ValueError"

def showRead : Except Err (List Cell) → String
  | .ok l => s!"ok {showCells l}"
  | .error e => s!"err {showErr e}"

/-- compact form used inside `probe` -/
def showRead' : Except Err (List Cell) → String
  | .ok l => showCells l
  | .error e => showErr e

structure DState where
  buf : Option (State Cell) := none
  /-- number of samples appended so far in this case: the next payload -/
  next : Nat := 0

def bounds (s : State Cell) : String := s!"{samplesLb s} {samplesUb s}"

def probe (s : State Cell) (pad : Cell := .pad) : String :=
  let lb := samplesLb s
  let ub := samplesUb s
  " | ".intercalate
    [s!"P {lb} {ub}", showRead' (window s), showRead' (rangeSamples s (lb - 1) ub),
     showRead' (rangeSamples s lb (ub + 1)), showRead' (rangeSamples s (lb + 1) (ub - 1)),
     showRead' (rangeFilled s (lb - 2) (ub + 1) pad), showRead' (rangeFilled s (lb - 3) (lb - 1) pad),
     showRead' (rangeFilled s (ub + 1) (ub + 3) pad), showRead' (latest s (-2) 0 (some pad))]

def step (d : DState) (ws : List String) : DState × String :=
  match ws, d.buf with
  | ["new", c], _ =>
    match parseNat? c with
    | some c =>
      let s := init c Cell.fillInit Cell.nan
      ({ buf := some s, next := 0 }, s!"ok {bounds s}")
    | none => (d, "bad-op")
  | _, none => (d, "bad-op")
  | ["append", n], some s =>
    match parseNat? n with
    | some n =>
      match appendE s ((List.range n).map fun j => Cell.data (d.next + j)) with
      | .ok s' => ({ buf := some s', next := d.next + n }, s!"ok {bounds s'}")
      | .error e => (d, s!"err {showErr e}")
    | none => (d, "bad-op")
  | ["inval", i], some s =>
    match parseNat? i with
    | some i => let s' := invalidateSamples s i; ({ d with buf := some s' }, s!"ok {bounds s'}")
    | none => (d, "bad-op")
  | ["orig-inval", i], some s =>
    match parseNat? i with
    | some i => let s' := invalidateSamplesOrig s i; ({ d with buf := some s' }, s!"ok {bounds s'}")
    | none => (d, "bad-op")
  | ["resize", c], some s =>
    match parseNat? c with
    | some c =>
      match resizeE s c with
      | .ok s' => ({ d with buf := some s' }, s!"ok {bounds s'}")
      | .error e => (d, s!"err {showErr e}")
    | none => (d, "bad-op")
  | ["bounds"], some s => (d, s!"ok {bounds s}")
  | ["window"], some s => (d, showRead (window s))
  | ["probe"], some s => (d, probe s)
  | ["probei"], some s => (d, probe s .fillInit)   -- filled reads whose fill value IS the constructor's
  | [op, a, b], some s =>
    match parseInt? a, parseInt? b with
    | some a, some b =>
      match op with
      | "read" => (d, showRead (rangeSamples s a b))
      | "filled" => (d, showRead (rangeFilled s a b .pad))
      | "orig-filled" => (d, showRead (rangeFilledOrig s a b .pad))
      | "latest" => (d, showRead (latest s a b none))
      | "latestf" => (d, showRead (latest s a b (some .pad)))
      | "filledi" => (d, showRead (rangeFilled s a b .fillInit))
      | "latestfi" => (d, showRead (latest s a b (some .fillInit)))
      | _ => (d, "bad-op")
    | _, _ => (d, "bad-op")
  | _, _ => (d, "bad-op")

def main : IO Unit := run ({} : DState) step
end Psi.Driver.Buffer
