import Drivers.Common
/-! Stub: replaced by the driver of the `Buffer` model. -/
namespace Psi.Driver.Buffer
def main : IO Unit := pure ()
end Psi.Driver.Buffer
