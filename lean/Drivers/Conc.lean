import Drivers.Common
/-! Stub: replaced by the driver of the `Conc` model. -/
namespace Psi.Driver.Conc
def main : IO Unit := pure ()
end Psi.Driver.Conc
