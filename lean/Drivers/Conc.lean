import Drivers.Common
import PsiModel.Conc
/-!
Driver of the `Conc` model (C15): the harness streams the lock-footprint table it extracted from
buffer.py and asks the *Lean* `atomicByName` / `footprint` about every method (compared with the
Python mirror, and used to name the non-atomic operations when the proof no longer builds).

    names <a,b,c>
    method <tokens>      tokens: A (acq) R (rel) r<f> w<f> c<m>, comma separated; `-` = empty
    atomic <name>        → true | false
    footprint <name>     → string over a (acq) r (rel) o (access) b (bad) | none
-/
namespace Psi.Driver.Conc
open Psi.Conc

structure St where
  names : List String
  methods : List (List Tok)

def parseTok? (s : String) : Option Tok :=
  if s == "A" then some .acq
  else if s == "R" then some .rel
  else
    let n := (s.drop 1).toString.toNat?
    match s.take 1 |>.toString, n with
    | "r", some f => some (.read f)
    | "w", some f => some (.write f)
    | "c", some m => some (.call m)
    | _, _ => none

def showK : K → Char
  | .acq => 'a' | .rel => 'r' | .other => 'o' | .bad => 'b'

def step (st : St) (ws : List String) : St × String :=
  match ws with
  | ["names", l] => ({ st with names := commaList l }, "ok")
  | ["method", l] =>
    match (commaList l).mapM parseTok? with
    | some toks => ({ st with methods := st.methods ++ [toks] }, "ok")
    | none => (st, "bad-op")
  | ["atomic", n] => (st, toString (atomicByName st.names st.methods n))
  | ["footprint", n] =>
    match indexOf n st.names 0 with
    | some m => (st, let s := String.ofList ((footprint st.methods m).map showK); if s.isEmpty then "-" else s)
    | none => (st, "none")
  | _ => (st, "bad-op")

def main : IO Unit := Psi.Driver.run { names := [], methods := [] } step
end Psi.Driver.Conc
