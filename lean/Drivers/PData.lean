import PsiModel.PData
import Drivers.Common
/-!
Line protocol of the `pdata` model (C11).  Registers hold annotated arrays.

  new K BASE SHAPE S0 NUM/DEN CHAN META   register K := fresh array, data = BASE, BASE+1, …
  get K J INDEX                           register J := K[INDEX]   (repaired `__getitem__`)
  geto K J INDEX                          same with the code as found (used for the notes)
  fin K J                                 register J := result of arithmetic / copy / astype on K
  set K s0|fs|ch|md VALUE                 attribute assignment;  adds0 K D: s0 += D
  concat J time|channel|epoch K1,K2,…     register J := concat([K1, K2, …], axis)
  show K

CHAN = `s:LABEL` | `l:LABEL,LABEL,…` (`~` is None, `l:-` the empty list); META = `s:ID` | `l:ID,…`.
INDEX = `one:ITEM` | `tup:ITEM;ITEM;…`; ITEM = `i<int>` | `s<start>:<stop>:<step>` (`_` = None) |
`L<ints>` list | `B<bits>` list of bools | `A<ints>` int ndarray | `M<bits>` bool ndarray | `n` | `e`.
-/
namespace Psi.Driver.PData
open Psi.Driver Psi.PData

def showErr : Err → String
  | .indexError => "IndexError"
  | .valueError => "ValueError"
  | .typeError => "TypeError"
  | .keyError => "KeyError"
  | .notImplemented => "NotImplementedError"
  | .unboundLocal => "UnboundLocalError"

def showLabel : Label → String
  | none => "~"
  | some s => s

def parseLabel (s : String) : Label := if s == "~" then none else some s

def showChan : Chan → String
  | .one l => s!"s:{showLabel l}"
  | .many l => s!"l:{showList (l.map showLabel)}"

def showMeta : Meta → String
  | .one m => s!"s:{m}"
  | .many l => s!"l:{showList l}"

def showRat (r : Rat) : String := s!"{r.num}/{r.den}"

def showPDHead (a : PD) : String :=
  let nep := match a.nEpochs with | none => "-" | some k => toString k
  s!"arr shape={showList a.shape} s0={a.s0} fs={showRat a.fs} ch={showChan a.channel} md={showMeta a.metadata} nch={a.nChannels} nep={nep} t={showList (a.t.map showRat)}"

def showPD (a : PD) : String := s!"{showPDHead a} data={showList a.data}"

def parseChan? (s : String) : Option Chan :=
  if s.startsWith "s:" then some (.one (parseLabel (s.drop 2).toString))
  else if s.startsWith "l:" then some (.many ((commaList (s.drop 2).toString).map parseLabel))
  else none

def parseMeta? (s : String) : Option Meta :=
  if s.startsWith "s:" then (parseNat? (s.drop 2).toString).map .one
  else if s.startsWith "l:" then (parseNats? (s.drop 2).toString).map .many
  else none

def parseRat? (s : String) : Option Rat :=
  match s.splitOn "/" with
  | [a, b] => do
    let n ← parseInt? a
    let d ← parseNat? b
    if d = 0 then none else pure ((n : Rat) / (d : Rat))
  | _ => none

def parseOptInt? (s : String) : Option (Option Int) :=
  if s == "_" then some none else (parseInt? s).map some

def parseItem? (s : String) : Option Item :=
  let body := (s.drop 1).toString
  match s.front with
  | 'i' => (parseInt? body).map .int
  | 's' =>
    match body.splitOn ":" with
    | [a, b, c] => do
      let a ← parseOptInt? a
      let b ← parseOptInt? b
      let c ← parseOptInt? c
      pure (.slice ⟨a, b, c⟩)
    | _ => none
  | 'L' => (parseInts? body).map .ilist
  | 'A' => (parseInts? body).map .iarr
  | 'B' => (parseBits? (if body == "" then "-" else body)).map .blist
  | 'M' => (parseBits? (if body == "" then "-" else body)).map .barr
  | 'n' => if body == "" then some .newaxis else none
  | 'e' => if body == "" then some .ellipsis else none
  | _ => none

def parseIndex? (s : String) : Option Index :=
  if s.startsWith "one:" then (parseItem? (s.drop 4).toString).map .one
  else if s.startsWith "tup:" then
    let body := (s.drop 4).toString
    if body == "" then some (.tuple []) else ((body.splitOn ";").mapM parseItem?).map .tuple
  else none

def parseDim? : String → Option Dim
  | "time" => some .time
  | "channel" => some .channel
  | "epoch" => some .epoch
  | _ => none

abbrev Regs := List (Nat × PD)

def Regs.get? (r : Regs) (k : Nat) : Option PD := (r.find? (·.1 == k)).map (·.2)
def Regs.put (r : Regs) (k : Nat) (a : PD) : Regs := (k, a) :: r.filter (·.1 != k)

def doGet (fx : Fixes) (r : Regs) (k j idx : String) : Regs × String :=
  match parseNat? k, parseNat? j, parseIndex? idx with
  | some k, some j, some idx =>
    (match r.get? k with
     | none => (r, "err no-register")
     | some a =>
       match getitemG fx a idx with
       | .error e => (r, s!"err {showErr e}")
       | .ok (.scalar v) => (r, s!"scalar {v}")
       | .ok (.arr b) => (r.put j b, showPD b))
  | _, _, _ => (r, "bad-op")

def step (r : Regs) (ws : List String) : Regs × String :=
  match ws with
  | ["new", k, base, shape, s0, fs, ch, md] =>
    (match parseNat? k, parseNat? base, parseNats? shape, parseInt? s0, parseRat? fs, parseChan? ch, parseMeta? md with
     | some k, some base, some shape, some s0, some fs, some ch, some md =>
       let a : PD := ⟨shape, (List.range (prod shape)).map (base + ·), s0, fs, ch, md⟩
       (r.put k a, showPD a)
     | _, _, _, _, _, _, _ => (r, "bad-op"))
  | ["get", k, j, idx] => doGet Fixes.all r k j idx
  | ["geto", k, j, idx] => doGet Fixes.none r k j idx
  | ["fin", k, j] =>
    (match parseNat? k, parseNat? j with
     | some k, some j =>
       (match r.get? k with
        | none => (r, "err no-register")
        | some a => let b := finalize a a.shape a.data; (r.put j b, s!"{showPDHead b} data=*"))
     | _, _ => (r, "bad-op"))
  | ["set", k, field, v] =>
    (match parseNat? k with
     | none => (r, "bad-op")
     | some k =>
       match r.get? k with
       | none => (r, "err no-register")
       | some a =>
         let b : Option PD :=
           match field with
           | "s0" => (parseInt? v).map fun x => { a with s0 := x }
           | "fs" => (parseRat? v).map fun x => { a with fs := x }
           | "ch" => (parseChan? v).map fun x => { a with channel := x }
           | "md" => (parseMeta? v).map fun x => { a with metadata := x }
           | _ => none
         match b with
         | none => (r, "bad-op")
         | some b => (r.put k b, showPD b))
  | ["adds0", k, d] =>
    (match parseNat? k, parseInt? d with
     | some k, some d =>
       (match r.get? k with
        | none => (r, "err no-register")
        | some a => let b := { a with s0 := a.s0 + d }; (r.put k b, showPD b))
     | _, _ => (r, "bad-op"))
  | ["concat", j, dim, ks] =>
    (match parseNat? j, parseDim? dim, parseNats? ks with
     | some j, some dim, some ks =>
       (match ks.mapM r.get? with
        | none => (r, "err no-register")
        | some arrs =>
          match concat arrs dim with
          | .error e => (r, s!"err {showErr e}")
          | .ok b => (r.put j b, showPD b))
     | _, _, _ => (r, "bad-op"))
  | ["show", k] =>
    (match parseNat? k with
     | some k => (match r.get? k with | none => (r, "err no-register") | some a => (r, showPD a))
     | none => (r, "bad-op"))
  | _ => (r, "bad-op")

def main : IO Unit := run ([] : Regs) step
end Psi.Driver.PData
