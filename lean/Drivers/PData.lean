import Drivers.Common
/-! Stub: replaced by the driver of the `PData` model. -/
namespace Psi.Driver.PData
def main : IO Unit := pure ()
end Psi.Driver.PData
