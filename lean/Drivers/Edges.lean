import PsiModel.Edges
import Drivers.Common
/-!
Driver of the `edges` model.  Ops:
  new <m> <init 0|1> <s0in> <detect r|f|b>   -> ok | err ValueError
  send <bits>                                -> ok <start> <end> <events>   (block stored as #k)
  range <k> <start> <end>                    -> ok <start> <end> <events> | err ValueError
  latest <k> <lb> <ub>                       -> same
  combine <k1,k2,...>                        -> same | err ValueError | err IndexError
  rangeS / latestS / combineS                -> as range / latest / combine; a successful result is also stored as the next block #k
  spec <init 0|1> <s0in> <bits>              -> ok <events>   (all transitions of the stream)
events: `r@5,f@9` or `-`.
-/
namespace Psi.Driver.Edges
open Psi.Driver Psi.Edges

structure St where
  m : Nat := 1
  detect : Detect := .both
  st : State := ⟨[], 0⟩
  live : Bool := false
  blocks : Array Block := #[]

def showEvent (e : Event) : String :=
  (match e.kind with | .rising => "r" | .falling => "f") ++ "@" ++ toString e.sample

def showEvents (l : List Event) : String :=
  if l.isEmpty then "-" else ",".intercalate (l.map showEvent)

def showBlock (b : Block) : String := s!"ok {b.start} {b.stop} {showEvents b.events}"

def showErr : Psi.Epochs.Err → String
  | .indexError => "IndexError"
  | .valueError => "ValueError"

def showRes : Except Psi.Epochs.Err Block → String
  | .ok b => showBlock b
  | .error e => s!"err {showErr e}"

def parseBool? (s : String) : Option Bool :=
  if s == "0" then some false else if s == "1" then some true else none

def parseDetect? (s : String) : Option Detect :=
  if s == "r" then some .rising else if s == "f" then some .falling
  else if s == "b" then some .both else none

/-- keep a successful query result as a new block (queries on query results) -/
def store (σ : St) (r : Except Psi.Epochs.Err Block) : St × String :=
  match r with
  | .ok b => ({ σ with blocks := σ.blocks.push b }, showRes r)
  | .error _ => (σ, showRes r)

def step (σ : St) (ws : List String) : St × String :=
  match ws with
  | ["new", m, ini, s0, det] =>
    match parseInt? m, parseBool? ini, parseInt? s0, parseDetect? det with
    | some m, some ini, some s0, some det =>
      if m < 1 then ({ σ with live := false }, "err ValueError")
      else ({ m := m.toNat, detect := det, st := init m.toNat ini s0, live := true, blocks := #[] }, "ok")
    | _, _, _, _ => (σ, "bad-op")
  | ["send", bits] =>
    match parseBits? bits with
    | some x =>
      if !σ.live then (σ, "bad-op") else
      match Psi.Edges.step σ.m σ.detect σ.st x with
      | .ok (st', b) => ({ σ with st := st', blocks := σ.blocks.push b }, showBlock b)
      | .error e => ({ σ with live := false }, s!"err {showErr e}")
    | none => (σ, "bad-op")
  | ["range", k, s, e] =>
    match parseNat? k, parseInt? s, parseInt? e with
    | some k, some s, some e =>
      match σ.blocks[k]? with
      | some b => (σ, showRes (getRangeSamples b s e))
      | none => (σ, "bad-op")
    | _, _, _ => (σ, "bad-op")
  | ["latest", k, lb, ub] =>
    match parseNat? k, parseInt? lb, parseInt? ub with
    | some k, some lb, some ub =>
      match σ.blocks[k]? with
      | some b => (σ, showRes (getLatestSamples b lb ub))
      | none => (σ, "bad-op")
    | _, _, _ => (σ, "bad-op")
  | ["rangeS", k, s, e] =>
    match parseNat? k, parseInt? s, parseInt? e with
    | some k, some s, some e =>
      match σ.blocks[k]? with
      | some b => store σ (getRangeSamples b s e)
      | none => (σ, "bad-op")
    | _, _, _ => (σ, "bad-op")
  | ["latestS", k, lb, ub] =>
    match parseNat? k, parseInt? lb, parseInt? ub with
    | some k, some lb, some ub =>
      match σ.blocks[k]? with
      | some b => store σ (getLatestSamples b lb ub)
      | none => (σ, "bad-op")
    | _, _, _ => (σ, "bad-op")
  | ["combineS", ks] =>
    match parseNats? ks with
    | some ks =>
      match ks.mapM (fun k => σ.blocks[k]?) with
      | some bs => store σ (combineEvents bs)
      | none => (σ, "bad-op")
    | none => (σ, "bad-op")
  | ["combine", ks] =>
    match parseNats? ks with
    | some ks =>
      match ks.mapM (fun k => σ.blocks[k]?) with
      | some bs => (σ, showRes (combineEvents bs))
      | none => (σ, "bad-op")
    | none => (σ, "bad-op")
  | ["spec", ini, s0, bits] =>
    match parseBool? ini, parseInt? s0, parseBits? bits with
    | some ini, some s0, some x => (σ, s!"ok {showEvents (edgesOf ini s0 x)}")
    | _, _, _ => (σ, "bad-op")
  | _ => (σ, "bad-op")

def main : IO Unit := run ({} : St) step
end Psi.Driver.Edges
