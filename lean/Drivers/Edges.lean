import Drivers.Common
/-! Stub: replaced by the driver of the `Edges` model. -/
namespace Psi.Driver.Edges
def main : IO Unit := pure ()
end Psi.Driver.Edges
