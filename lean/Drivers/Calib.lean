import Drivers.Common
/-! Stub: replaced by the driver of the `Calib` model. -/
namespace Psi.Driver.Calib
def main : IO Unit := pure ()
end Psi.Driver.Calib
