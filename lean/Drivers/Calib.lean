import PsiModel.DbField
import Drivers.Common
/-!
`psidriver calib`: executes the `Float` instance of `PsiModel/DbField.lean`
(C07 calibration conversions, C16 spectrum/level helpers, C08 stimulus scaling).

Floats cross the pipe as the decimal value of their IEEE-754 bit pattern (exact in both
directions); the harness compares numerically with a transcription tolerance.

Replies: `ok` | `num <bits>` | `vals <bits> …` | `nan` | `err CalibrationError` | `err ValueError` | `bad-op`.
-/
namespace Psi.Driver.Calib
open Psi.Driver Psi.Db

structure St where
  cal : Option (Cal Float) := none
  sig : Array Float := #[]
  win : Option (Array Float) := none
  spec : Array (Cx Float) := #[]

def pf? (s : String) : Option Float := s.toNat?.map fun n => Float.ofBits (UInt64.ofNat n)

def pfs? (s : String) : Option (List Float) := (commaList s).mapM pf?

def sf (x : Float) : String := toString x.toBits.toNat

def showVals (l : List Float) : String :=
  if l.isEmpty then "vals" else "vals " ++ " ".intercalate (l.map sf)

def showRes : Res Float → String
  | .val a => s!"num {sf a}"
  | .nan => "nan"
  | .calErr => "err CalibrationError"
  | .valErr => "err ValueError"

/-- a vectorised call: pointwise, NaN kept in place, the first raised exception wins -/
def showResList (l : List (Res Float)) : String :=
  if l.any (fun | .calErr => true | _ => false) then "err CalibrationError"
  else if l.any (fun | .valErr => true | _ => false) then "err ValueError"
  else showVals (l.map fun | .val a => a | _ => (0.0 / 0.0 : Float))

/-- "f:s,f:s" → [(f,s)] -/
def pairs? (s : String) : Option (List (Float × Float)) :=
  (commaList s).mapM fun p =>
    match p.splitOn ":" with
    | [a, b] => do pure ((← pf? a), (← pf? b))
    | _ => none

def triples? (s : String) : Option (List (Float × Float × Float)) :=
  (commaList s).mapM fun p =>
    match p.splitOn ":" with
    | [a, b, c] => do pure ((← pf? a), (← pf? b), (← pf? c))
    | _ => none

def arrFn (a : Array Float) : Nat → Float := fun j => a.getD j 0
def arrFnC (a : Array (Cx Float)) : Nat → Cx Float := fun j => a.getD j ⟨0, 0⟩

def cxVals (l : List (Cx Float)) : String := showVals (l.flatMap fun c => [c.re, c.im])

/-- bins: "all:m" = 0..m-1, or a comma list -/
def bins? (s : String) : Option (List Nat) :=
  match s.splitOn ":" with
  | ["all", m] => m.toNat?.map List.range
  | _ => parseNats? s

/-- a noise bound: literal bits, or `L:<sf>` / `H:<sf>` = `-sqrt(3)*sf` / `sqrt(3)*sf` computed by the model -/
def bound? (s : String) : Option Float :=
  match s.splitOn ":" with
  | ["L", v] => (pf? v).map bbnLow
  | ["H", v] => (pf? v).map bbnHigh
  | _ => pf? s

def setCal (st : St) (c : Cal Float) : St × String := ({ st with cal := some c }, "ok")

def withCal (st : St) (f : Cal Float → String) : St × String :=
  match st.cal with
  | some c => (st, f c)
  | none => (st, "bad-op")

def opt (st : St) (o : Option String) : St × String := (st, o.getD "bad-op")

def step (st : St) (ws : List String) : St × String :=
  match ws with
  -- ---------------- C07: calibrations ----------------
  | ["cal", "flat", s, g] =>
    match pf? s, pf? g with
    | some s, some g => setCal st (.flat s g)
    | _, _ => (st, "bad-op")
  | ["cal", "interp", g, t] =>
    match pf? g, pairs? t with
    | some g, some t => setCal st (.interp t g)
    | _, _ => (st, "bad-op")
  | ["cal", "point", g, t] =>
    match pf? g, pairs? t with
    | some g, some t => setCal st (.point t g)
    | _, _ => (st, "bad-op")
  | ["cal", "from_spl", l, v, g] =>
    match pf? l, pf? v, pf? g with
    | some l, some v, some g => setCal st (Cal.fromSpl l v g)
    | _, _, _ => (st, "bad-op")
  | ["cal", "from_db", l, v, g] =>
    match pf? l, pf? v, pf? g with
    | some l, some v, some g => setCal st (Cal.fromDb l v g)
    | _, _, _ => (st, "bad-op")
  | ["cal", "from_pascals", m, v, g] =>
    match pf? m, pf? v, pf? g with
    | some m, some v, some g => setCal st (Cal.fromPascals m v g)
    | _, _, _ => (st, "bad-op")
  | ["cal", "from_mv_pa", m] =>
    match pf? m with
    | some m => setCal st (Cal.fromMvPa m)
    | _ => (st, "bad-op")
  | ["cal", "unity"] => setCal st Cal.unity
  | ["cal", "as_attenuation", v] =>
    match pf? v with
    | some v => setCal st (Cal.asAttenuation v)
    | _ => (st, "bad-op")
  | ["cal", "interp_from_db", g, t] =>
    match pf? g, triples? t with
    | some g, some t => setCal st (.interp (tblFromDb t) g)
    | _, _ => (st, "bad-op")
  | ["cal", "interp_from_pascals", g, t] =>
    match pf? g, triples? t with
    | some g, some t => setCal st (.interp (tblFromPascals t) g)
    | _, _ => (st, "bad-op")
  | ["cal", "point_from_db", g, t] =>
    match pf? g, triples? t with
    | some g, some t => setCal st (.point (tblFromDb t) g)
    | _, _ => (st, "bad-op")
  | ["cal", "point_from_pascals", g, t] =>
    match pf? g, triples? t with
    | some g, some t => setCal st (.point (tblFromPascals t) g)
    | _, _ => (st, "bad-op")
  | ["set_fixed_gain", g] =>
    match pf? g, st.cal with
    | some g, some (.flat s _) => setCal st (.flat s g)
    | some g, some (.interp t _) => setCal st (.interp t g)
    | some g, some (.point t _) => setCal st (.point t g)
    | _, _ => (st, "bad-op")
  | ["sensitivity"] =>
    withCal st fun
      | .flat s _ => showVals [s]
      | .interp t _ => showVals (t.map (·.2))
      | .point t _ => showVals (t.map (·.2))
  | ["sens", f] => withCal st fun c => (pf? f).elim "bad-op" fun f => showRes (getSens c f)
  | ["sf", f, l, a] =>
    withCal st fun c =>
      match pf? f, pf? l, pf? a with
      | some f, some l, some a => showRes (getSf c f l a)
      | _, _, _ => "bad-op"
  | ["db", f, v] =>
    withCal st fun c =>
      match pf? f, pf? v with
      | some f, some v => showRes (getDb c f v)
      | _, _ => "bad-op"
  | ["att", f, v, l] =>
    withCal st fun c =>
      match pf? f, pf? v, pf? l with
      | some f, some v, some l => showRes (getAttenuation c f v l)
      | _, _, _ => "bad-op"
  | ["gain", f, l, a] =>
    withCal st fun c =>
      match pf? f, pf? l, pf? a with
      | some f, some l, some a => showRes (getGain c f l a)
      | _, _, _ => "bad-op"
  | ["meansf", flb, l, a, fr] =>
    withCal st fun c =>
      match pf? flb, pf? l, pf? a, pfs? fr with
      | some flb, some l, some a, some fr => showRes (getMeanSf c flb fr l a)
      | _, _, _, _ => "bad-op"
  | ["sensv", fr] =>
    withCal st fun c => (pfs? fr).elim "bad-op" fun fr => showResList (fr.map (getSens c))
  | ["sfv", l, a, fr] =>
    withCal st fun c =>
      match pf? l, pf? a, pfs? fr with
      | some l, some a, some fr => showResList (fr.map (getSf c · l a))
      | _, _, _ => "bad-op"
  | ["dbv", fv] =>
    withCal st fun c => (pairs? fv).elim "bad-op" fun fv => showResList (fv.map fun (f, v) => getDb c f v)
  | ["tomvpa"] =>
    withCal st fun
      | .flat s _ => showRes (.val (toMvPa s))
      | _ => "bad-op"
  -- ---------------- level helpers (C07/C16) ----------------
  | ["dbf", x, r] =>
    match pf? x, pf? r with
    | some x, some r => (st, showRes (.val (db x r)))
    | _, _ => (st, "bad-op")
  | ["dbi", d, r] =>
    match pf? d, pf? r with
    | some d, some r => (st, showRes (.val (dbi d r)))
    | _, _ => (st, "bad-op")
  | ["dbtopa", d] => opt st ((pf? d).map fun d => showRes (.val (dbtopa d)))
  | ["patodb", p] => opt st ((pf? p).map fun p => showRes (.val (patodb p)))
  | ["s2b", l, n] =>
    match pf? l, pf? n with
    | some l, some n => (st, showRes (.val (spectrumToBand l n)))
    | _, _ => (st, "bad-op")
  | ["b2s", l, n] =>
    match pf? l, pf? n with
    | some l, some n => (st, showRes (.val (bandToSpectrum l n)))
    | _, _ => (st, "bad-op")
  -- ---------------- C16: spectra ----------------
  | ["sig", l] =>
    match pfs? l with
    | some l => ({ st with sig := l.toArray }, "ok")
    | none => (st, "bad-op")
  | ["win", "none"] => ({ st with win := none }, "ok")
  | ["win", l] =>
    match pfs? l with
    | some l => ({ st with win := some l.toArray }, "ok")
    | none => (st, "bad-op")
  | ["spec", l] =>
    match pairs? l with
    | some l => ({ st with spec := (l.map fun (a, b) => (⟨a, b⟩ : Cx Float)).toArray }, "ok")
    | none => (st, "bad-op")
  | ["csd", ks] =>
    opt st <| (bins? ks).map fun ks =>
      let n := st.sig.size
      let s := arrFn st.sig
      cxVals <| ks.map fun k =>
        match st.win with
        | none => csd n s k
        | some w => csdW n (arrFn w) s k
  | ["psd", avg, ks] =>
    opt st <| do
      let avg ← avg.toNat?
      let ks ← bins? ks
      if avg == 0 then none else
      let N := (st.sig.size / avg) * avg
      let s := arrFn st.sig
      pure <| showVals <| ks.map fun k =>
        match st.win with
        | none => psd N avg s k
        | some w => psdW N avg (arrFn w) s k
  | ["phase", ks] =>
    opt st <| (bins? ks).map fun ks =>
      showVals <| ks.map fun k => phaseBin st.sig.size (arrFn st.sig) k
  | ["tosig"] =>
    if st.spec.size < 2 then (st, "bad-op") else
    let m := st.spec.size - 1
    (st, showVals <| (List.range (2 * m)).map fun j => csdToSignal m (arrFnC st.spec) j)
  | ["toneconv", fs, f] =>
    opt st <| do
      let fs ← pf? fs
      let f ← pf? f
      let r := toneConv st.sig.size (arrFn st.sig) fs f
      pure (cxVals [r])
  | ["tonepower", fs, f] =>
    opt st <| do
      let fs ← pf? fs
      let f ← pf? f
      pure (showRes (.val (tonePower st.sig.size (arrFn st.sig) fs f)))
  | ["tonephase", fs, f] =>
    opt st <| do
      let fs ← pf? fs
      let f ← pf? f
      pure (showRes (.val (tonePhase st.sig.size (arrFn st.sig) fs f)))
  | ["rms"] => (st, showRes (.val (rms st.sig.size (arrFn st.sig))))
  | ["rmsrfft"] => (st, showRes (.val (rmsRfft st.spec.size (arrFnC st.spec))))
  | ["tonesig", n, k, a, p] =>
    opt st <| do
      let n ← n.toNat?
      let k ← k.toNat?
      let a ← pf? a
      let p ← pf? p
      pure (showVals ((List.range n).map (toneSig n k a p)))
  -- ---------------- C08: stimuli ----------------
  | ["tone", pol, sfv, fs, f, ph, off, n] =>
    opt st <| do
      let pol ← pf? pol
      let sfv ← pf? sfv
      let fs ← pf? fs
      let f ← pf? f
      let ph ← pf? ph
      let off ← off.toNat?
      let n ← n.toNat?
      pure (showVals ((List.range n).map (tone pol sfv fs f ph off)))
  | ["samtone", pol, sfl, sfc, sfu, eq, fs, fc, fm, phl, phc, phu, off, n] =>
    opt st <| do
      let pol ← pf? pol
      let sfl ← pf? sfl
      let sfc ← pf? sfc
      let sfu ← pf? sfu
      let eq ← pf? eq
      let fs ← pf? fs
      let fc ← pf? fc
      let fm ← pf? fm
      let phl ← pf? phl
      let phc ← pf? phc
      let phu ← pf? phu
      let off ← off.toNat?
      let n ← n.toNat?
      pure (showVals ((List.range n).map (samTone pol sfl sfc sfu eq fs fc fm phl phc phu off)))
  | ["sameqpower", d] => opt st ((pf? d).map fun d => showRes (.val (samEqPower d)))
  | ["scaled", pol, sfv, proto] =>
    opt st <| do
      let pol ← pf? pol
      let sfv ← pf? sfv
      let proto ← pfs? proto
      pure (showVals (scaled pol sfv proto))
  | ["filt", polIn, polOut, low, high, b0, bt, atl, z0, discard, u] =>
    opt st <| do
      let polIn ← pf? polIn
      let polOut ← pf? polOut
      let low ← bound? low
      let high ← bound? high
      let b0 ← pf? b0
      let bt ← pfs? bt
      let atl ← pfs? atl
      let z0 ← if z0 == "zero" then some (zeroState bt.length) else pfs? z0
      let discard ← discard.toNat?
      let u ← pfs? u
      if bt.length != atl.length || z0.length != bt.length then none else
      pure (showVals (filtStim polIn polOut low high b0 bt atl z0 discard u))
  | _ => (st, "bad-op")

def main : IO Unit := run ({} : St) step
end Psi.Driver.Calib
