import Drivers.Common
/-! Stub: replaced by the driver of the `Scope` model. -/
namespace Psi.Driver.Scope
def main : IO Unit := pure ()
end Psi.Driver.Scope
