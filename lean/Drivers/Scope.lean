import Drivers.Common
import PsiModel.Scope
/-!
Driver of the `Scope` model (C19).  The harness streams a scope table through the line protocol
(the same data it writes to `PsiGen/Names.lean`) and asks the *Lean* `resolve`/`failures` for the
classification of every load; the harness compares that with CPython's `symtable`.

    builtins <nats>
    modobj <attrs> <submods a:m,…>
    module
    scope <kind> <parent> <bound> <globals> <nonlocals> <cells> <imports n:m,…>
    loads <name:line,…>            (of the last scope)
    chain <base> <line> <path>     (appended to the last scope)
    fromimport <modobj> <attr> <line>
    resolve <module> <scope> <name>   → local | free:<j> | cell:<j> | global | builtin | none
    check                             → true | false
    failures                          → L:m:s:name:line … C:m:s:base:line … F:m:mo:attr:line | -
-/
namespace Psi.Driver.Scope
open Psi.Scope

def parseKind? : String → Option Kind
  | "module" => some .module
  | "function" => some .function
  | "lambda" => some .lambda
  | "comprehension" => some .comprehension
  | "class" => some .class
  | _ => none

def natPairs? (s : String) : Option (List (Nat × Nat)) :=
  (commaList s).mapM fun p =>
    match p.splitOn ":" with
    | [a, b] => do pure ((← parseNat? a), (← parseNat? b))
    | _ => none

def modifyLast {α} (f : α → α) : List α → List α
  | [] => []
  | [a] => [f a]
  | a :: as => a :: modifyLast f as

def showBinding : Option Binding → String
  | none => "none"
  | some .local => "local"
  | some (.enclosing j) => s!"free:{j}"
  | some (.cell j) => s!"cell:{j}"
  | some .global => "global"
  | some .builtin => "builtin"

def showFailure : Failure → String
  | .load a b c d => s!"L:{a}:{b}:{c}:{d}"
  | .chain a b c d => s!"C:{a}:{b}:{c}:{d}"
  | .fromImport a b c d => s!"F:{a}:{b}:{c}:{d}"

def init : Package := { builtins := [], modobjs := [], modules := [] }

def step (p : Package) (ws : List String) : Package × String :=
  let bad := (p, "bad-op")
  match ws with
  | ["builtins", l] =>
    match parseNats? l with
    | some l => ({ p with builtins := l }, "ok")
    | none => bad
  | ["modobj", a, s] =>
    match parseNats? a, natPairs? s with
    | some a, some s => ({ p with modobjs := p.modobjs ++ [{ attrs := a, submods := s }] }, "ok")
    | _, _ => bad
  | ["module"] => ({ p with modules := p.modules ++ [{ scopes := [], fromImports := [] }] }, "ok")
  | ["scope", k, par, b, g, nl, c, im] =>
    match parseKind? k, parseNat? par, parseNats? b, parseNats? g, parseNats? nl, parseNats? c, natPairs? im with
    | some k, some par, some b, some g, some nl, some c, some im =>
      let sc : Scope := { kind := k, parent := par, bound := b, globals := g, nonlocals := nl,
                          cells := c, imports := im, loads := [], chains := [] }
      ({ p with modules := modifyLast (fun m => { m with scopes := m.scopes ++ [sc] }) p.modules }, "ok")
    | _, _, _, _, _, _, _ => bad
  | ["loads", l] =>
    match natPairs? l with
    | some l =>
      let setLoads : Scope → Scope := fun s => { s with loads := l }
      let upd : Module → Module := fun m => { m with scopes := modifyLast setLoads m.scopes }
      ({ p with modules := modifyLast upd p.modules }, "ok")
    | none => bad
  | ["chain", b, line, path] =>
    match parseNat? b, parseNat? line, parseNats? path with
    | some b, some line, some path =>
      let addChain : Scope → Scope := fun s => { s with chains := s.chains ++ [⟨b, path, line⟩] }
      let upd : Module → Module := fun m => { m with scopes := modifyLast addChain m.scopes }
      ({ p with modules := modifyLast upd p.modules }, "ok")
    | _, _, _ => bad
  | ["fromimport", mo, a, line] =>
    match parseNat? mo, parseNat? a, parseNat? line with
    | some mo, some a, some line =>
      let upd : Module → Module := fun m => { m with fromImports := m.fromImports ++ [(mo, a, line)] }
      ({ p with modules := modifyLast upd p.modules }, "ok")
    | _, _, _ => bad
  | ["resolve", mi, si, n] =>
    match parseNat? mi, parseNat? si, parseNat? n with
    | some mi, some si, some n =>
      match p.modules[mi]? with
      | some m => (p, showBinding (resolve p.builtins m.scopes si n))
      | none => (p, "none")
    | _, _, _ => bad
  | ["check"] => (p, toString (check p))
  | ["failures"] => (p, showList ((failures p).map showFailure))
  | _ => bad

def main : IO Unit := Psi.Driver.run init step
end Psi.Driver.Scope
