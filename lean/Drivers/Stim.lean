import PsiModel.Stim
import Drivers.Common
/-!
Line protocol of the `stim` model (C01, C09).

  new <E>                         build a factory tree, fresh state            -> ok | err <E>
  next <n>                        factory.next(n)                              -> ok <cells> | err <E>
  info                            n_samples / n_samples_remaining / is_complete -> <ns> <rem> <0|1>
  envelope <lb> <dur> <rise|n> <off> <n>     stim.envelope(...)                -> ok <cells> | err ValueError
  sam_envelope <delay> <off> <n>             stim._sam_envelope(...)           -> ok <cells>
  square_wave <pnum> <pden> <duty> <off> <n> stim.square_wave(...)             -> ok <cells>

<E> ::= leaf <id> | sqwave <id> <cycle> <on> | fixed <id> <len> | gate <start> <dur> <E>
      | env <id> <lb> <dur> <rise|n> <E> | sam <id> <delay> <E> | sqenv <id> <pnum> <pden> <duty> <E>
      | filt <id> <E> | repeat <n> <skip> <period> <delay> <E>

<cells> is a run-length encoding: `<count>*<cell>` separated by blanks, the j-th cell of a run
being the first one with every index advanced by j.  `-` is the empty chunk.
-/
namespace Psi.Driver.Stim
open Psi.Driver Psi.Stim Psi.Chunk

def showErr : Err → String
  | .valueError => "ValueError"
  | .zeroDivisionError => "ZeroDivisionError"

def srcChar : Src → String
  | .carrier => "C" | .ramp => "R" | .sam => "S" | .tukey => "T" | .low => "L" | .high => "H"

def showCell : Cell → String
  | .z => "Z"
  | .o => "O"
  | .bad => "X"
  | .a s id i => s!"{srcChar s}{id}.{i}"
  | .c s id => s!"{srcChar s}{id}"
  | .mul x y => s!"M({showCell x},{showCell y})"
  | .f id j x => s!"F{id}.{j}({showCell x})"

/-- The cell one position later in a run. -/
def succCell : Cell → Cell
  | .a s id i => .a s id (i + 1)
  | .mul x y => .mul (succCell x) (succCell y)
  | .f id j x => .f id (j + 1) (succCell x)
  | c => c

/-- runs as (first cell, last cell, count), most recent first -/
def rleStep (acc : List (Cell × Cell × Nat)) (c : Cell) : List (Cell × Cell × Nat) :=
  match acc with
  | (first, last, k) :: rest =>
    if succCell last = c then (first, c, k + 1) :: rest else (c, c, 1) :: acc
  | [] => [(c, c, 1)]

def showCells (l : List Cell) : String :=
  if l.isEmpty then "-" else
  let runs := (l.foldl rleStep []).reverse
  " ".intercalate (runs.map fun (first, _, k) => s!"{k}*{showCell first}")

def parseRise? (s : String) : Option (Option Nat) :=
  if s == "n" then some none else (parseNat? s).map some

/-- Recursive-descent parser of `<E>` (fuel = number of tokens). -/
def parseE : Nat → List String → Option (Except Err Stim × List String)
  | 0, _ => none
  | fuel + 1, ws =>
    match ws with
    | "leaf" :: id :: rest => do
      pure (.ok (.leaf (← parseNat? id) 0), rest)
    | "sqwave" :: id :: cycle :: on :: rest => do
      pure (.ok (.sqwave (← parseNat? id) (← parseNat? cycle) (← parseNat? on) 0), rest)
    | "fixed" :: id :: len :: rest => do
      let id ← parseNat? id
      let len ← parseNat? len
      pure (.ok (.fixed ((List.range len).map (Cell.a .carrier id)) 0), rest)
    | "gate" :: start :: dur :: rest => do
      let start ← parseNat? start
      let dur ← parseNat? dur
      let (inner, rest') ← parseE fuel rest
      pure (inner.map (Stim.gate start dur 0), rest')
    | "env" :: id :: lb :: dur :: rise :: rest => do
      let id ← parseNat? id
      let lb ← parseNat? lb
      let dur ← parseNat? dur
      let rise ← parseRise? rise
      let (inner, rest') ← parseE fuel rest
      pure (inner.map (Stim.env id ⟨lb, dur, rise⟩ 0), rest')
    | "sam" :: id :: delay :: rest => do
      let id ← parseNat? id
      let delay ← parseNat? delay
      let (inner, rest') ← parseE fuel rest
      pure (inner.map (Stim.sam id delay 0), rest')
    | "sqenv" :: id :: pnum :: pden :: duty :: rest => do
      let id ← parseNat? id
      let pnum ← parseInt? pnum
      let pden ← parseNat? pden
      let duty ← parseNat? duty
      let (inner, rest') ← parseE fuel rest
      pure (inner.map (Stim.sqenv id ⟨mkRat pnum pden, duty⟩ 0), rest')
    | "filt" :: id :: rest => do
      let id ← parseNat? id
      let (inner, rest') ← parseE fuel rest
      pure (inner.map (Stim.filt id 0 0), rest')
    | "repeat" :: n :: skip :: period :: delay :: rest => do
      let n ← parseNat? n
      let skip ← parseNat? skip
      let period ← parseNat? period
      let delay ← parseNat? delay
      let (inner, rest') ← parseE fuel rest
      pure (inner.bind (mkRepeat ⟨n, skip, period, delay⟩), rest')
    | _ => none

def showExt : Ext → String
  | .na => "na" | .inf => "inf" | .fin n => toString n

def step (st : Option Stim) (ws : List String) : Option Stim × String :=
  match ws with
  | "new" :: e =>
    match parseE (e.length + 1) e with
    | some (.ok g, []) => (some g, "ok")
    | some (.error err, []) => (none, s!"err {showErr err}")
    | _ => (st, "bad-op")
  | ["next", n] =>
    match st, parseNat? n with
    | some g, some n =>
      match g.error? with
      | some err => (st, s!"err {showErr err}")
      | none => let r := g.next n; (some r.2, s!"ok {showCells r.1}")
    | _, _ => (st, "bad-op")
  | ["info"] =>
    match st with
    | some g => (st, s!"{showExt g.nSamples} {showExt g.remaining} {if g.complete then 1 else 0}")
    | none => (st, "bad-op")
  | ["envelope", lb, dur, rise, off, n] =>
    match parseNat? lb, parseNat? dur, parseRise? rise, parseNat? off, parseNat? n with
    | some lb, some dur, some rise, some off, some n =>
      match envelope (Cell.a .ramp 0) ⟨lb, dur, rise⟩ off n with
      | .ok l => (st, s!"ok {showCells l}")
      | .error err => (st, s!"err {showErr err}")
    | _, _, _, _, _ => (st, "bad-op")
  | ["sam_envelope", delay, off, n] =>
    match parseNat? delay, parseNat? off, parseNat? n with
    | some delay, some off, some n => (st, s!"ok {showCells (samEnvelope (samCell 0) delay off n)}")
    | _, _, _ => (st, "bad-op")
  | ["square_wave", pnum, pden, duty, off, n] =>
    match parseInt? pnum, parseNat? pden, parseNat? duty, parseNat? off, parseNat? n with
    | some pnum, some pden, some duty, some off, some n =>
      if pnum ≤ 0 || pden == 0 then (st, "bad-op") else
      (st, s!"ok {showCells (squareWave (Cell.a .tukey 0) (Cell.c .low 0) ⟨mkRat pnum pden, duty⟩ off n)}")
    | _, _, _, _, _ => (st, "bad-op")
  | _ => (st, "bad-op")

def main : IO Unit := run none step
end Psi.Driver.Stim
