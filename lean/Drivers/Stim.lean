import Drivers.Common
/-! Stub: replaced by the driver of the `Stim` model. -/
namespace Psi.Driver.Stim
def main : IO Unit := pure ()
end Psi.Driver.Stim
