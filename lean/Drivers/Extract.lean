import PsiModel.Extract
import Drivers.Common
/-!
Line protocol of the `extract` model (C05/C06).

  new <bufferSamples> <showKeys 0|1>
  data <v0>:<n> <reqs> <rems> <complete 0|1> [<late>]
  rt <K0> <k> <P>            (C06: predicted extractor sample for queue clock k, start K0, prestim P)
      chunk = cells v0 .. v0+n-1 ; reqs = key:s:len:tag,... | - ; rems = key,... | -
      late (optional, same syntax as reqs; absent = `-`): requests that the `target` callback appends to
      `queue` when it is handed this call's batch — they become `Call.late` iff the call delivers at
      least one epoch (`target` is not called otherwise), and are dropped if it does not.

Answer to `data`: `ok <items> done=<0|1>` | `err ValueError` | `dead`, where items is `-`
or the `;`-joined, sorted list of delivered epochs, each `k<key>t<tag>=<cells>` (`t<tag>=M` for a missed marker; or just
`<cells>` when showKeys = 0); cells is `M` (missed marker), `E` (empty) or `/`-joined runs
`first+count` of consecutive cell ids.
-/
namespace Psi.Driver.Extract
open Psi.Driver Psi.Extract

def runs : List Int → List (Int × Nat)
  | [] => []
  | x :: xs =>
    match runs xs with
    | (y, n) :: rest => if y = x + 1 then (x, n + 1) :: rest else (x, 1) :: (y, n) :: rest
    | [] => [(x, 1)]

def showCells (e : Epoch Int) : String :=
  if e.missed then "M" else
  if e.data.isEmpty then "E" else
  "/".intercalate ((runs e.data).map fun (a, n) => s!"{a}+{n}")

def showEpoch (keys : Bool) (e : Epoch Int) : String :=
  if keys then
    -- the "missed" marker carries `md` only (no `info`, hence no key)
    if e.missed then s!"t{e.req.tag}=M" else s!"k{e.req.key}t{e.req.tag}={showCells e}"
  else showCells e

def insertSorted (s : String) : List String → List String
  | [] => [s]
  | x :: xs => if s ≤ x then s :: x :: xs else x :: insertSorted s xs

def sortStrings (l : List String) : List String := l.foldr insertSorted []

def parseReq? (s : String) : Option Request :=
  match s.splitOn ":" with
  | [k, st, n, t] => do
    pure { key := (← parseNat? k), s := (← parseInt? st), len := (← parseNat? n), tag := (← parseNat? t) }
  | _ => none

def parseChunk? (s : String) : Option (List Int) :=
  match s.splitOn ":" with
  | [v, n] => do
    let v ← parseInt? v
    let n ← parseNat? n
    pure ((List.range n).map fun (i : Nat) => v + Int.ofNat i)
  | _ => none

structure DState where
  st : State Int
  keys : Bool

def init : DState := { st := State.init 0, keys := true }

def data (d : DState) (ch rq rm cp lt : String) : DState × String :=
  match parseChunk? ch, (commaList rq).mapM parseReq?, parseNats? rm, (commaList lt).mapM parseReq? with
  | some chunk, some reqs, some rems, some late =>
    if cp != "0" && cp != "1" then (d, "bad-op") else
    let op : Op Int := { chunk := chunk, reqs := reqs, rems := rems, complete := cp == "1" }
    -- `late` does not influence the batch: run the call without it to see whether `target` is called
    let r0 := Psi.Extract.call d.st { op with late := [] }
    let delivers := match r0.2 with
      | .ok batch _ => !batch.isEmpty
      | _ => false
    let (st', out) := if delivers && !late.isEmpty then Psi.Extract.call d.st { op with late := late } else r0
    let s := match out with
      | .ok batch fired =>
        let items := sortStrings (batch.map (showEpoch d.keys))
        let body := if items.isEmpty then "-" else ";".intercalate items
        s!"ok {body} done={if fired then 1 else 0}"
      | .valueError => "err ValueError"
      | .dead => "dead"
    ({ d with st := st' }, s)
  | _, _, _, _ => (d, "bad-op")

def step (d : DState) (ws : List String) : DState × String :=
  match ws with
  | ["new", b, k] =>
    match parseNat? b, k with
    | some b, "0" => ({ st := State.init b, keys := false }, "ok")
    | some b, "1" => ({ st := State.init b, keys := true }, "ok")
    | _, _ => (d, "bad-op")
  | ["rt", k0, k, pp] =>
    -- C06 float-level stream: the integer the queue means, K0 + k, minus the prestim samples
    match parseNat? k0, parseNat? k, parseNat? pp with
    | some k0, some k, some pp => (d, s!"ok {(k0 : Int) + (k : Int) - (pp : Int)}")
    | _, _, _ => (d, "bad-op")
  | ["data", ch, rq, rm, cp] => data d ch rq rm cp "-"
  | ["data", ch, rq, rm, cp, lt] => data d ch rq rm cp lt
  | _ => (d, "bad-op")

def main : IO Unit := run init step
end Psi.Driver.Extract
