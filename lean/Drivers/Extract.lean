import Drivers.Common
/-! Stub: replaced by the driver of the `Extract` model. -/
namespace Psi.Driver.Extract
def main : IO Unit := pure ()
end Psi.Driver.Extract
