import PsiModel.StagesExt2
import Drivers.Common
/-!
Driver of the `StagesExt2` model (EXT12 continued: `rms_band`, `capture`, `events_to_info`); reached through
`psidriver stages` → `Drivers/StagesExt.lean` (every line starts with `x`; lines that `StagesExt.step` does not know
fall through to this `step`).  Symbolic cells: `X k` input column k, `B lo` band value of the block of columns
`[lo, lo+n)`, `I ts` the info dict with `t0 = ts`, `?` anything else.

  `xband <n>`                    new `rms_band` with block length n                  → `ok`
  `xbpush <pd|plain> <len> <gap>`   one chunk                                         → `ok <blocks>` | `err <E>`
        block = `s0;n;cells`
  `xcap`                         new `capture`                                        → `ok`
  `xcq <t> <s>` / `xcq none`     append `{'t0': t}` (with `round(t0*fs) = s`) / `None` to the deque   → `ok`
  `xcpush <pd|plain> <len>`      one chunk                                            → `ok <R | s0;cap;n;cells>…` | `err <E>`
        `cap` = the `capture` entry added to the metadata (`None` if no request was ever seen)
  `xinfo <edge>`                 new `events_to_info` (edges are integers)            → `ok`
  `xipairs <e:ts,…>`             a list of pairs                                      → `ok L:<cells>` | `err <E>`
  `xievents`                     an `Events` object                                   → `err TypeError`
-/
namespace Psi.Driver.StagesExt2
open Psi.Driver Psi.Stages Psi.StagesExt Psi.StagesExt2

inductive Cell
  | x (k : Nat) | b (lo : Nat) | bad
  deriving DecidableEq, Repr

def Cell.show : Cell → String
  | .x k => s!"X{k}" | .b lo => s!"B{lo}" | .bad => "?"

def showCells (l : List Cell) : String :=
  if l.isEmpty then "-" else ",".intercalate (l.map Cell.show)

/-- symbolic band value of a block of consecutive input columns -/
def symBand (l : List Cell) : Cell :=
  match l with
  | .x lo :: rest =>
    if rest = (List.range rest.length).map (fun i => Cell.x (lo + 1 + i)) then .b lo else .bad
  | _ => .bad

abbrev A1 := Arr Cell Unit String String

inductive StageSt
  | band (n : Nat) (st : BandSt Cell Unit String String)
  | cap (st : CapQSt Int)
  | info (edge : Int)
  | dead

structure St where
  stage : StageSt := .dead
  pos : Nat := 0          -- index of the next input column
  s0 : Int := 0           -- s0 of the next chunk (relative to the first sample of the stream)

def showErr : PErr → String
  | .valueError => "ValueError" | .attributeError => "AttributeError" | .zeroDivision => "ZeroDivisionError"
  | .typeError => "TypeError"

def bar (l : List String) : String := if l.isEmpty then "ok -" else "ok " ++ "|".intercalate l

def die (s : St) (e : PErr) : St × String := ({ s with stage := .dead }, s!"err {showErr e}")

def mkChunk (s : St) (kind : String) (len : Nat) (gap : Int) : Option A1 :=
  let cells := (List.range len).map fun i => Cell.x (s.pos + i)
  match kind with
  | "plain" => some (.plain cells)
  | "pd" => some (.pd { data := cells, s0 := s.s0 + gap, ann := { fs := (), channel := "ch", metadata := "md" } })
  | _ => none

def showCap : Option Int → String
  | none => "None"
  | some t => toString t

def step (s : St) (ws : List String) : St × String :=
  match ws with
  | ["xband", n] =>
    match parseNat? n with
    | some n => ({ stage := .band n {} }, "ok")
    | none => (s, "bad-op")
  | ["xbpush", kind, len, gap] =>
    match s.stage, parseNat? len, parseInt? gap with
    | .band n st, some len, some gap =>
      match mkChunk s kind len gap with
      | none => (s, "bad-op")
      | some y =>
        match rmsBandStep symBand (fun _ _ => ()) "-" "-" n st y with
        | .error e => die s e
        | .ok (bs, st') =>
          ({ stage := .band n st', pos := s.pos + len, s0 := s.s0 + gap + len },
           bar (bs.map fun b => s!"{b.s0};{b.data.length};{showCells b.data}"))
    | .dead, some _, some _ => (s, "err Dead")
    | _, _, _ => (s, "bad-op")
  | ["xcap"] => ({ stage := .cap {} }, "ok")
  | ["xcq", "none"] =>
    match s.stage with
    | .cap st => ({ s with stage := .cap { st with queue := st.queue ++ [.stop] } }, "ok")
    | .dead => (s, "ok")
    | _ => (s, "bad-op")
  | ["xcq", t, sn] =>
    match s.stage, parseInt? t, parseInt? sn with
    | .cap st, some t, some sn => ({ s with stage := .cap { st with queue := st.queue ++ [.start t sn] } }, "ok")
    | .dead, some _, some _ => (s, "ok")
    | _, _, _ => (s, "bad-op")
  | ["xcpush", kind, len] =>
    match s.stage, parseNat? len with
    | .cap st, some len =>
      match mkChunk s kind len 0 with
      | none => (s, "bad-op")
      | some y =>
        let addCap : Option Int → String → String := fun t _ => showCap t
        match captureStep addCap st ([], y) with
        | .error e => die s e
        | .ok (os, st') =>
          ({ stage := .cap st', pos := s.pos + len, s0 := s.s0 + len },
           bar (os.map fun o =>
             match o with
             | .restart => "R"
             | .data (.pd b) => s!"{b.s0};{b.ann.metadata};{b.data.length};{showCells b.data}"
             | .data (.plain d) => s!"_;_;{d.length};{showCells d}"))
    | .dead, some _ => (s, "err Dead")
    | _, _ => (s, "bad-op")
  | ["xinfo", e] =>
    match parseInt? e with
    | some e => ({ stage := .info e }, "ok")
    | none => (s, "bad-op")
  | ["xipairs", l] =>
    match s.stage, parsePairs? l with
    | .info e, some l =>
      match eventsToInfoStep (fun (ts : Int) (_ : String) => s!"I{ts}") e "base" () (.pairs l) with
      | .error er => die s er
      | .ok (rs, _) => (s, bar (rs.map fun r => "L:" ++ (if r.isEmpty then "-" else ",".intercalate r)))
    | .dead, some _ => (s, "err Dead")
    | _, _ => (s, "bad-op")
  | ["xievents"] =>
    match s.stage with
    | .info e =>
      match eventsToInfoStep (κ := Int) (τ := Int) (fun ts (_ : String) => s!"I{ts}") e "base" () (.events ⟨[], 0, 0⟩) with
      | .error er => die s er
      | .ok (rs, _) => (s, bar (rs.map fun r => "L:" ++ (if r.isEmpty then "-" else ",".intercalate r)))
    | .dead => (s, "err Dead")
    | _ => (s, "bad-op")
  | _ => (s, "bad-op")

end Psi.Driver.StagesExt2
