import PsiModel.Stages
import Drivers.Common
import Drivers.StagesExt
/-!
Driver of the `Stages` model (C12).  Sample values are symbolic cells:
`X k` input column k, `F k` k-th output of the whole-stream filter, `B lo hi` block function of
input columns [lo, hi), `D k` k-th derivative sample, `P k` pointwise function of column k,
`G m k` comparison of column k with the threshold of the first m columns, `?` anything else.

Lines:
  `new <stage> <dim> <ann> <s0> <p1> <p2>`   → `ok`
  `push <len> <gap>`                         → `ok <blocks>` | `err <Err>`   (continuous stages)
  `restart <s0>`                             → `ok` | `err ResetNotForwarded` | `err Dead`   (blocked / discard: the
                                               `Ellipsis` signal through `blockedStepE` / `discardStepE`; the stream
                                               that follows starts at `s0`, its columns are numbered from 0 again)
  `ev <start> <stop> <e1,e2,…> [q]`          → `ok <blocks>` | `err <Err>`   (event_rate; `q`: this
                                               Events object has sampling rate fs/q instead of fs)
A block is `s0;fs;ch;md;n;cells`; for non-annotated streams the first four fields are `_`.
-/
namespace Psi.Driver.Stages
open Psi.Driver Psi.Stages

inductive Cell
  | x (k : Nat) | f (k : Nat) | b (lo hi : Nat) | d (k : Nat) | p (k : Nat) | g (m k : Nat) | ini | bad
  deriving DecidableEq, Repr

def Cell.show : Cell → String
  | .x k => s!"X{k}" | .f k => s!"F{k}" | .b lo hi => s!"B{lo}.{hi}" | .d k => s!"D{k}"
  | .p k => s!"P{k}" | .g m k => s!"G{m}.{k}" | .ini => "I" | .bad => "?"

/-- is `l` = `X lo, X (lo+1), …`; returns the index after the last one -/
def consecutive : Nat → List Cell → Option Nat
  | lo, [] => some lo
  | lo, .x k :: l => if k = lo then consecutive (lo + 1) l else none
  | _, _ :: _ => none

/-- symbolic `lfilter`: the state says whether the history so far is exactly `X 0 … X (n-1)` -/
def symFilt : Mealy Cell Cell (Option Nat) where
  step s c := match s, c with
    | some n, .x k => if k = n then (.f n, some (n + 1)) else (.bad, none)
    | _, _ => (.bad, none)

/-- `lfilter` as SciPy behaves: for an empty input the reported final state is garbage (`none`) -/
def symLf (s : Option Nat) (y : List Cell) : List Cell × Option Nat :=
  if y.isEmpty then ([], none) else symFilt.run s y

def symInit (c : Cell) : Option Nat := if c = .x 0 then some 0 else none

def symBlock (l : List Cell) : Cell :=
  match l with
  | .x lo :: _ => match consecutive lo l with | some hi => .b lo hi | none => .bad
  | _ => .bad

def symDiff (prev cur : Cell) : Cell :=
  match prev, cur with
  | .ini, .x 0 => .d 0
  | .x j, .x k => if k = j + 1 then .d k else .bad
  | _, _ => .bad

def symPoint : Cell → Cell
  | .x k => .p k
  | _ => .bad

def symThr (l : List Cell) : Option Nat := consecutive 0 l

def symCmp (th : Option Nat) (c : Cell) : Cell :=
  match th, c with
  | some m, .x k => .g m k
  | _, _ => .bad

abbrev Rate := List Nat          -- divisors applied to the input fs
abbrev P (α : Type) := PD α Rate String String

def divFs (r : Rate) (q : Nat) : Rate := r ++ [q]
def showRate (r : Rate) : String := "fs" ++ String.join (r.map fun q => s!"/{q}")

inductive StageSt
  | blocked (b : Nat) (st : BlockedSt Cell Rate String String)
  | downsample (q : Nat) (st : DownSt Cell Rate String String)
  | decimate (q : Nat) (st : Option (DecSt Cell Rate String String (Option Nat)))
  | discard (d : Nat) (st : Nat)
  | rms (n : Nat) (st : RmsSt Cell Rate String String)
  | iir (st : Option (Option Nat))
  | derivative (st : Option (P Cell))
  | pointwise
  | autoTh (baseline : Nat) (st : AutoSt Cell Rate String String (Option Nat))
  | eventRate (size step : Nat) (st : Option (RateSt Rate))
  | dead

structure St where
  stage : StageSt := .dead
  twoD : Bool := false
  annotated : Bool := false
  pos : Nat := 0          -- index of the next input column
  s0 : Int := 0           -- s0 of the next chunk

def showErr : Err → String
  | .valueError => "ValueError"
  | .diverges => "Diverges"

def showCells (l : List Cell) : String :=
  if l.isEmpty then "-" else ",".intercalate (l.map Cell.show)

/-- `den = 0`: integer s0; otherwise `s0` is the numerator over `den` -/
def showBlock (annotated : Bool) (den : Nat) (b : P Cell) : String :=
  let s0 := if den = 0 then s!"{b.s0}" else s!"{b.s0}/{den}"
  if annotated then
    s!"{s0};{showRate b.ann.fs};{b.ann.channel};{b.ann.metadata};{b.data.length};{showCells b.data}"
  else s!"_;_;_;_;{b.data.length};{showCells b.data}"

def showBlocks (annotated : Bool) (den : Nat) (l : List (P Cell)) : String :=
  if l.isEmpty then "ok -" else "ok " ++ "|".intercalate (l.map (showBlock annotated den))

def finish {σ : Type} (s : St) (den : Nat) (wrap : σ → StageSt) (s' : St)
    (r : Except Err (List (P Cell) × σ)) : St × String :=
  match r with
  | .error e => ({ s with stage := .dead }, s!"err {showErr e}")
  | .ok (bs, st) => ({ s' with stage := wrap st }, showBlocks s.annotated den bs)

def push (s : St) (len : Nat) (gap : Int) : St × String :=
  let y : P Cell :=
    { data := (List.range len).map fun i => Cell.x (s.pos + i)
      s0 := s.s0 + gap
      ann := { fs := [], channel := "ch", metadata := "md" } }
  let s' := { s with pos := s.pos + len, s0 := s.s0 + gap + len }
  match s.stage with
  | .blocked b st => finish s 0 (.blocked b) s' (blockedStep b st y)
  | .downsample q st => finish s 0 (.downsample q) s' (downsampleStep divFs s.twoD q st y)
  | .decimate q st => finish s 0 (.decimate q) s' (decimateStep symLf (some 0) divFs q st y)
  | .discard d st => finish s 0 (.discard d) s' (discardStep st y)
  | .rms n st => finish s n (.rms n) s' (rmsStep symBlock divFs n st y)
  | .iir st => finish s 0 .iir s' (iirStep symLf symInit st y)
  | .derivative st => finish s 0 .derivative s' (derivativeStep Cell.ini symDiff st y)
  | .pointwise => finish s 0 (fun _ => .pointwise) s' (transformStep (pointwise symPoint) () y)
  | .autoTh bl st =>
    finish s 0 (.autoTh bl) s' (autoThStep symThr symCmp (fun _ m => m ++ "+th") bl st y)
  | .eventRate .. => (s, "bad-op")
  | .dead => (s, "err Dead")

/-- the `Ellipsis` signal: must come out exactly once and alone -/
def restart (s : St) (s0 : Int) : St × String :=
  let fin {σ : Type} (wrap : σ → StageSt) (r : Except Err (List (Sig (P Cell)) × σ)) : St × String :=
    match r with
    | .error e => ({ s with stage := .dead }, s!"err {showErr e}")
    | .ok (out, st) =>
      ({ s with stage := wrap st, pos := 0, s0 := s0 },
       match out with
       | [.restart] => "ok"
       | _ => "err ResetNotForwarded")
  match s.stage with
  | .blocked b st => fin (.blocked b) (blockedStepE b st .restart)
  | .discard d st => fin (.discard d) (discardStepE d st .restart)
  | .dead => (s, "err Dead")
  | _ => (s, "bad-op")

def showRateBlocks (l : List (PD Nat Rate String String)) : String :=
  if l.isEmpty then "ok -" else
  "ok " ++ "|".intercalate (l.map fun b =>
    s!"{b.s0}/2;{showRate b.ann.fs};{b.ann.channel};{b.ann.metadata};{b.data.length};{showList b.data}")

def pushEv (s : St) (start stop : Nat) (evs : List Nat) (fs : Rate) : St × String :=
  match s.stage with
  | .eventRate size step st =>
    match eventRateStep divFs "chdef" "mdempty" size step st
        { events := evs, start := start, stop := stop, fs := fs } with
    | .error e => ({ s with stage := .dead }, s!"err {showErr e}")
    | .ok (bs, st') => ({ s with stage := .eventRate size step st' }, showRateBlocks bs)
  | .dead => (s, "err Dead")
  | _ => (s, "bad-op")

def mkStage (name : String) (p1 p2 : Nat) : Option StageSt :=
  match name with
  | "blocked" => some (.blocked p1 {})
  | "downsample" => some (.downsample p1 {})
  | "decimate" => some (.decimate p1 none)
  | "discard" => some (.discard p1 p1)
  | "rms" => some (.rms p1 {})
  | "iirfilter" => some (.iir none)
  | "derivative" => some (.derivative none)
  | "transform" => some .pointwise
  | "mc_reference" => some .pointwise
  | "auto_th" => some (.autoTh p1 .first)
  | "event_rate" => some (.eventRate p1 p2 none)
  | _ => none

def step (s : St) (ws : List String) : St × String :=
  match ws with
  | ["new", name, dim, ann, s0, p1, p2] =>
    match parseNat? dim, parseNat? ann, parseInt? s0, parseNat? p1, parseNat? p2 with
    | some dim, some ann, some s0, some p1, some p2 =>
      match mkStage name p1 p2 with
      | some st => ({ stage := st, twoD := dim == 2, annotated := ann == 1, pos := 0, s0 := s0 }, "ok")
      | none => (s, "bad-op")
    | _, _, _, _, _ => (s, "bad-op")
  | ["push", len, gap] =>
    match parseNat? len, parseInt? gap with
    | some len, some gap => push s len gap
    | _, _ => (s, "bad-op")
  | ["restart", s0] =>
    match parseInt? s0 with
    | some s0 => restart s s0
    | none => (s, "bad-op")
  | ["ev", start, stop, evs] =>
    match parseNat? start, parseNat? stop, parseNats? evs with
    | some a, some b, some l => pushEv s a b l []
    | _, _, _ => (s, "bad-op")
  | ["ev", start, stop, evs, q] =>
    match parseNat? start, parseNat? stop, parseNats? evs, parseNat? q with
    | some a, some b, some l, some q => pushEv s a b l [q]
    | _, _, _, _ => (s, "bad-op")
  | _ => (s, "bad-op")

/-- lines whose first word starts with `x` belong to the extension model (EXT12: stages that C12 does not name,
`Drivers/StagesExt.lean`); every other line is handled exactly as before -/
def stepAll (s : St × StagesExt.St) (ws : List String) : (St × StagesExt.St) × String :=
  match ws with
  | w :: _ =>
    if w.startsWith "x" then
      let r := StagesExt.step s.2 ws
      ((s.1, r.1), r.2)
    else
      let r := step s.1 ws
      ((r.1, s.2), r.2)
  | [] =>
    let r := step s.1 ws
    ((r.1, s.2), r.2)

def main : IO Unit := run ({}, {}) stepAll
end Psi.Driver.Stages
