import Drivers.Common
/-! Stub: replaced by the driver of the `Stages` model. -/
namespace Psi.Driver.Stages
def main : IO Unit := pure ()
end Psi.Driver.Stages
