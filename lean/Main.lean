import Drivers.Epochs
/-- `psidriver <model>`: run the line protocol of one model. -/
def main (args : List String) : IO UInt32 := do
  match args with
  | ["epochs"] => Psi.Driver.Epochs.main; return 0
  | _ => IO.eprintln "usage: psidriver <model>"; return 2
