import Drivers.Epochs
import Drivers.Buffer
import Drivers.Stim
import Drivers.Queue
import Drivers.Extract
import Drivers.PData
import Drivers.Reject
import Drivers.Stages
import Drivers.Edges
import Drivers.Calib
import Drivers.Cache
import Drivers.Scope
import Drivers.Conc
/-- `psidriver <model>`: run the line protocol of one model (stdin -> stdout). -/
def main (args : List String) : IO UInt32 := do
  match args with
  | ["epochs"] => Psi.Driver.Epochs.main; return 0
  | ["buffer"] => Psi.Driver.Buffer.main; return 0
  | ["stim"] => Psi.Driver.Stim.main; return 0
  | ["queue"] => Psi.Driver.Queue.main; return 0
  | ["extract"] => Psi.Driver.Extract.main; return 0
  | ["pdata"] => Psi.Driver.PData.main; return 0
  | ["reject"] => Psi.Driver.Reject.main; return 0
  | ["stages"] => Psi.Driver.Stages.main; return 0
  | ["edges"] => Psi.Driver.Edges.main; return 0
  | ["calib"] => Psi.Driver.Calib.main; return 0
  | ["cache"] => Psi.Driver.Cache.main; return 0
  | ["scope"] => Psi.Driver.Scope.main; return 0
  | ["conc"] => Psi.Driver.Conc.main; return 0
  | _ => IO.eprintln "usage: psidriver <model>"; return 2
