/-! Keeps the PsiGen library non-empty until the translators (C15, C19) have written their files. -/
