import numpy as np
from psiaudio import queue as Q
fs=1000.0
def run(q, n_stim, trials, chunk=7, total=4000):
    keys=[]
    for i in range(n_stim):
        keys.append(q.append(np.full(5+i, float(i+1)), trials[i], delays=0.003))
    added=[]
    q.connect(lambda info: added.append(keys.index(info['key'])), 'added')
    out=[]
    try:
        while sum(len(o) for o in out) < total:
            out.append(q.pop_buffer(chunk))
    except Exception as e:
        return added, repr(e)
    return added, (q.is_empty(), q.count_trials(), q.count_requested_trials(), [q.remaining_trials(k) for k in keys])
print('fifo', run(Q.FIFOSignalQueue(fs), 3, [2,1,3]))
print('inter', run(Q.InterleavedFIFOSignalQueue(fs=fs), 3, [2,1,3]))
print('inter-nokeep', run(Q.InterleavedFIFOSignalQueue(keep_complete_waveforms=False, fs=fs), 3, [2,1,3]))
print('random', run(Q.RandomSignalQueue(fs), 3, [2,1,3]))
print('blockedrandom', run(Q.BlockedRandomSignalQueue(seed=1, fs=fs), 3, [2,1,3]))
print('grouped2/4', run(Q.GroupedFIFOSignalQueue(2, fs=fs), 4, [2,1,3,1]))
print('grouped2/5', run(Q.GroupedFIFOSignalQueue(2, fs=fs), 5, [2,1,3,1,2]))
print('grouped3/4', run(Q.GroupedFIFOSignalQueue(3, fs=fs), 4, [1,1,1,2]))
print('blocked', run(Q.BlockedFIFOSignalQueue(fs=fs), 3, [2,1,3]))
