import numpy as np, itertools
from psiaudio import util
def runs(x):
    out=[]; i=0; n=len(x)
    while i<n:
        if x[i]:
            j=i
            while j<n and x[j]: j+=1
            out.append((i,j)); i=j
        else: i+=1
    return out
bad={}
for n in range(0,13):
    for bits in itertools.product([False,True], repeat=n):
        x=np.array(bits, bool)
        try:
            e = util.epochs(x.copy())
            got=[tuple(map(int,r)) for r in e]
        except Exception as ex:
            got=repr(ex)
        if got!=runs(bits):
            bad.setdefault('epochs',[]).append((bits,got,runs(bits)))
        # debounce
        for d in range(0,5):
            ex_runs=[r for r in runs(bits) if r[1]-r[0]>=d]
            merged=[]
            for r in ex_runs:
                if merged and r[0]-merged[-1][1] <= d: merged[-1]=(merged[-1][0], r[1])
                else: merged.append(r)
            try:
                g = util.debounce_epochs(np.array(runs(bits)).reshape(-1,2), d)
                g=[tuple(map(int,r)) for r in g]
            except Exception as ex2: g=repr(ex2)
            if g!=merged: bad.setdefault('debounce',[]).append((bits,d,g,merged))
for k,v in bad.items(): print(k, len(v), v[:3])
# smooth: random interval sets
import random
rng=random.Random(0); nb=0
def cover(iv):
    iv=sorted(iv); out=[]
    for a,b in iv:
        if out and a<=out[-1][1]: out[-1]=(out[-1][0], max(out[-1][1], b))
        else: out.append((a,b))
    return out
for it in range(20000):
    k=rng.randint(1,6)
    iv=[]
    for _ in range(k):
        a=rng.randint(0,20); b=a+rng.randint(0,8); iv.append((a,b))
    g=[tuple(map(int,r)) for r in util.smooth_epochs(np.array(iv))]
    if g!=cover(iv):
        nb+=1
        if nb<4: print('smooth', iv, g, cover(iv))
print('smooth bad', nb)
print(util.smooth_epochs([]), util.smooth_epochs(np.zeros((0,2))))
