import numpy as np, random
from psiaudio import queue as Q, stim
def build(cls, fs, t0, specs, kw):
    q = cls(fs=fs, **kw)
    q.set_t0(t0)
    keys=[]
    for (src, trials, delay) in specs:
        keys.append(q.append(src, trials, delays=delay))
    log=[]
    q.connect(lambda info: log.append((keys.index(info['key']), info['t0'], info['duration'])), 'added')
    return q, keys, log
def parts(N, rng):
    out=[]; 
    while N>0:
        n = rng.choice([1,2,3,5,8,13,50,200]); n=min(n,N); out.append(n); N-=n
    return out
rng = random.Random(0)
bad=0
for it in range(300):
    fs = rng.choice([1000.0, 195312.5, 44100.0, 48828.125])
    t0 = rng.choice([0, 0.5, 1.2345])
    cls, kw = rng.choice([(Q.FIFOSignalQueue,{}),(Q.InterleavedFIFOSignalQueue,{}),(Q.InterleavedFIFOSignalQueue,{'keep_complete_waveforms':False}),(Q.BlockedRandomSignalQueue,{'seed':3}),(Q.GroupedFIFOSignalQueue,{'group_size':2}),(Q.BlockedFIFOSignalQueue,{})])
    nst = rng.choice([2,4])
    specs=[]
    for i in range(nst):
        if rng.random()<0.5:
            src = np.arange(1, rng.randint(1,30)+1, dtype=float)*(i+1)
        else:
            src = stim.Cos2EnvelopeFactory(fs, rng.choice([5,7,11])/fs*1.0, 2/fs, stim.ToneFactory(fs, fs/10, 1.0+i))
        specs.append((src, rng.randint(1,3), rng.choice([0, 0.0004, 3/fs, 0.01])))
    N = 3000
    q1,k1,l1 = build(cls, fs, t0, specs, kw); full = q1.pop_buffer(N)
    q2,k2,l2 = build(cls, fs, t0, specs, kw); p = parts(N, rng); out = np.concatenate([q2.pop_buffer(n) for n in p])
    if not np.array_equal(full, out) or l1!=l2:
        bad+=1; print('chunk mismatch', cls.__name__, fs, p[:5])
    if q2.get_ts() != N/fs: print('clock', q2.get_ts()); bad+=1
    # timeline check
    cover = np.zeros(N, bool)
    prev_end=None
    for idx,(ki,t,d) in enumerate(l1):
        k = round((t - t0)*fs)
        if t != t0 + k/fs: print('grid', t, k); bad+=1
        src = specs[ki][0]
        if isinstance(src, np.ndarray): w = src
        else:
            import copy; s=copy.deepcopy(src); s.reset(); w = s.next(s.n_samples())
        seg = full[k:k+len(w)]
        if not np.array_equal(seg, w[:len(seg)]): print('waveform mismatch', it, cls.__name__, idx); bad+=1
        cover[k:k+len(w)] = True
        if prev_end is not None:
            gap = k - prev_end
            exp = int(round(prev_delay*fs))
            if gap != exp: print('gap', gap, exp); bad+=1
        prev_end = k+len(w); prev_delay = specs[ki][2]
    if np.any(full[~cover] != 0): print('nonzero outside'); bad+=1
print('bad', bad)
