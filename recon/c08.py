import numpy as np
from psiaudio import calibration as C, util, stim
flat = C.FlatCalibration.from_spl(94, vrms=1)
fs=100000.0
a=stim.bandlimited_noise(fs, 60.0, 2000, 8000, 0.05, calibration=flat); b=stim.bandlimited_noise(fs, 80.0, 2000, 8000, 0.05, calibration=flat); c=stim.bandlimited_noise(fs, 60.0, 2000, 8000, 0.05, polarity=-1, calibration=flat)
print('bln abs err / rms', np.max(np.abs(b-10*a))/util.rms(b), 'neg', np.max(np.abs(c+a))/util.rms(a))
a=stim.notch_noise(fs, 4000, 1.33, 60.0, 0.05, calibration=flat); b=stim.notch_noise(fs, 4000, 1.33, 80.0, 0.05, calibration=flat); c=stim.notch_noise(fs, 4000, 1.33, 60.0, 0.05, polarity=-1, calibration=flat)
print('notch abs err / rms', np.max(np.abs(b-10*a))/util.rms(b), 'neg', np.max(np.abs(c+a))/util.rms(a), util.rms(a), a[:3], c[:3])
# from_pascals with non-coincident numbers
x = C.FlatCalibration.from_spl(110, vrms=2); y = C.FlatCalibration.from_pascals(util.dbtopa(110), vrms=2)
print(x.sensitivity, y.sensitivity, x.get_db(1e3,2.0), y.get_db(1e3,2.0))
# levels: bbn rms vs sf; bln rms
n = stim.broadband_noise(fs, 60.0, 1.0, calibration=flat); print('bbn level', flat.get_db(1e3, util.rms(n)))
n = stim.bandlimited_noise(fs, 60.0, 2000, 8000, 1.0, calibration=flat); print('bln level', flat.get_db(1e3, util.rms(n)))
ch = stim.chirp(fs, 1000, 8000, 0.01, 60.0, calibration=flat); print('chirp level', flat.get_db(1e3, util.rms(ch)))
ck = stim.ClickFactory(fs, 1e-4, 60.0, 1, flat); print('click', ck.waveform.max(), flat.get_sf(0,60.0))
