import numpy as np
from psiaudio import calibration as C, util, stim
flat = C.FlatCalibration.from_spl(94, vrms=1)
interp = C.InterpCalibration([100,1000,10000],[90,100,80], fixed_gain=-20)
point = C.PointCalibration([1000,2000],[90,100])
for cal,f in [(flat,1000.0),(interp,550.0),(point,2000)]:
    sf = cal.get_sf(f, 70.0); print(type(cal).__name__, cal.get_db(f, sf), cal.get_sf(f,90.0)/sf, cal.get_sf(f,70.0,20)/sf, cal.get_gain(f,70.0), util.db(sf), cal.get_attenuation(f, sf, 60.0))
print('mean_sf att', interp.get_mean_sf(200, 300, 70.0), interp.get_mean_sf(200,300,70.0,attenuation=20), flat.get_mean_sf(200,300,70.0,attenuation=20)/flat.get_mean_sf(200,300,70.0))
# constructors
a = C.FlatCalibration.from_spl(100, vrms=2); b = C.FlatCalibration.from_db(100, vrms=2); c = C.FlatCalibration.from_pascals(util.dbtopa(100), vrms=2)
print('flat sens', a.sensitivity, b.sensitivity, c.sensitivity, a.get_db(1e3, 2.0), c.get_db(1e3, 2.0))
a = C.InterpCalibration.from_spl([100,1000],[100,110], vrms=2); c = C.InterpCalibration.from_pascals([100,1000], util.dbtopa(np.array([100,110.])), vrms=2)
print('interp', a.get_db(100, 2.0), c.get_db(100, 2.0))
m = C.FlatCalibration.from_mv_pa(2.5); print(m.to_mv_pa(), m.get_db(1e3, 2.5e-3))
print(interp.get_sens(50), interp.get_sens([100, 550, 20000]))
try: point.get_sens(1500)
except Exception as e: print('point err', type(e).__name__)
try: interp.get_mean_sf(50, 300, 70)
except Exception as e: print('mean err', type(e).__name__)
print(interp.get_sf(50, 70))
# C08
fs=100000.0
t = stim.tone(fs, 1000.0, 80.0, calibration=interp, duration=0.01)
print('tone rms', util.rms(t), interp.get_sf(1000.0, 80.0), interp.get_db(1000.0, util.rms(t)))
for name, f in {
 'tone': lambda L,pol: stim.tone(fs, 1000.0, L, polarity=pol, calibration=flat, duration=0.01),
 'samtone': lambda L,pol: stim.sam_tone(fs, 1000.0, 100.0, L, polarity=pol, calibration=flat, duration=0.01),
 'bbn': lambda L,pol: stim.broadband_noise(fs, L, 0.01, polarity=pol, calibration=flat),
 'bln': lambda L,pol: stim.bandlimited_noise(fs, L, 2000, 8000, 0.01, polarity=pol, calibration=flat),
 'fir': lambda L,pol: stim.bandlimited_fir_noise(fs, L, 2000, 8000, 0.01, ntaps=101, polarity=pol, calibration=flat, equalize=False),
 'shaped': lambda L,pol: stim.shaped_noise(fs, L, {0:-60,2000:0,8000:0,50000:-60}, 0.01, ntaps=101, polarity=pol, calibration=flat),
 'notch': lambda L,pol: stim.notch_noise(fs, 4000, 1.33, L, 0.01, polarity=pol, calibration=flat),
}.items():
    try:
        a=f(60.0,1); b=f(80.0,1); c=f(60.0,-1)
        print(name, 'x10 err', np.max(np.abs(b/a-10)) if np.all(a!=0) else np.max(np.abs(b-10*a)), 'neg exact', np.array_equal(c,-a))
    except Exception as e: print(name, 'EXC', repr(e)[:150])
for name, f in {'chirp': lambda L: stim.chirp(fs, 1000, 8000, 0.01, L, calibration=flat), 'click': lambda L: stim.ClickFactory(fs, 1e-4, L, 1, flat).waveform, 'blclick': lambda L: stim.bandlimited_click(fs, 2000, 8000, 0.01, L, calibration=flat)}.items():
    try:
        a=f(60.0); b=f(80.0); print(name, np.max(np.abs(b-10*a))/np.max(np.abs(b)))
    except Exception as e: print(name, 'EXC', repr(e)[:150])
