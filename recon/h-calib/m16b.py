# measurement: the tone law read from float32 samples (unchanged library)
import numpy as np, warnings, sys
from psiaudio import util
warnings.simplefilter('ignore')
rs = np.random.RandomState(int(sys.argv[1]))
LOBE = {None: 0, 'hann': 4, 'hamming': 4, 'blackman': 6, 'flattop': 10, 'nuttall': 8, 'blackmanharris': 8}
W = {}
def rec(n_, v): W[n_] = max(W.get(n_, 0), float(v))
for it in range(6000):
    n = int(rs.choice([rs.randint(24, 257), rs.randint(257, 4097), 65536 if it % 500 == 0 else 64]))
    w = rs.choice(list(LOBE), p=None); w = None if w == 'None' or w is None else w
    L = LOBE[w]
    lo, hi = L + 1, int(np.ceil(n / 2 - L)) - 1
    if hi < lo: continue
    k = rs.randint(lo, hi + 1); A = 10 ** rs.uniform(-3, 3); p = rs.uniform(-3.1, 3.1); fs = float(rs.choice([1000, 44100, 97656.25]))
    t = np.arange(n) / fs; f = k * fs / n
    s = (A * np.sqrt(2) * np.cos(2 * np.pi * f * t + p)).astype(np.float32)
    z = util.csd(s, window=w, detrend=None)
    wr = lambda x: (x + np.pi) % (2 * np.pi) - np.pi
    rec('csd |A|', abs(abs(z[k]) - A) / A); rec('csd phase', abs(wr(np.angle(z[k]) - p)))
    if w is None: rec('leak', np.delete(np.abs(z), k).max() / A)
    avg = rs.randint(1, 9); ss = np.concatenate([np.tile(s, avg), np.full(rs.randint(0, avg), np.float32(0.123 * A))])
    rec('psd', abs(util.psd(ss, fs, window=w, waveform_averages=avg, detrend=None)[k] - A) / A)
    rec('tone_power', abs(util.tone_power_conv(s, fs, f, window=w, detrend=None) - A) / A)
    rec('tone_phase', abs(wr(np.angle(util.tone_conv(s, fs, f, window=w, detrend=None)) - p)))
    if w is None:
        tot = float(np.sum(np.abs(z) ** 2)); s64 = s.astype(float); ms = float(np.mean(s64 ** 2))
        extra = 0.5 * abs(z[0]) ** 2 + (0.5 * abs(z[-1]) ** 2 if n % 2 == 0 else 0.0)
        rec('parseval', abs(tot - ms - extra) / ms)
        if n % 2 == 0:
            rec('roundtrip', np.max(np.abs(util.csd_to_signal(z) - s64)) / np.max(np.abs(s64)))
for k_, v in sorted(W.items()): print(f'{k_:12s} {v:.3e}')
