# measurement: array form vs scalar form of get_sf / get_sens / get_db on the unchanged library
import numpy as np, warnings
from psiaudio import calibration as PC
warnings.simplefilter('ignore')
rs = np.random.RandomState(0)
w = {'sf_rel': 0, 'sens_abs': 0, 'db_abs': 0}
for it in range(3000):
    n = rs.randint(2, 9); f = np.sort(rs.choice(np.arange(20, 20000), n, replace=False)).astype(float); s = rs.uniform(-40, 140, n)
    G = rs.uniform(-60, 60)
    for cal in (PC.InterpCalibration(f, s, fixed_gain=G), PC.PointCalibration(f, s, fixed_gain=G), PC.FlatCalibration(s[0], fixed_gain=G)):
        q = rs.choice(f, 5) if isinstance(cal, PC.PointCalibration) else rs.uniform(f[0], f[-1], 5)
        L = rs.uniform(-20, 120); A = rs.uniform(-40, 120); v = 10 ** rs.uniform(-6, 1, 5)
        a = np.asarray(cal.get_sf(q, L, A), dtype=float); b = np.array([float(cal.get_sf(x, L, A)) for x in q])
        w['sf_rel'] = max(w['sf_rel'], np.max(np.abs(a - b) / np.abs(b)))
        a = np.asarray(cal.get_sens(q), dtype=float); b = np.array([float(cal.get_sens(x)) for x in q])
        w['sens_abs'] = max(w['sens_abs'], np.max(np.abs(a - b)))
        a = np.asarray(cal.get_db(q, v), dtype=float); b = np.array([float(cal.get_db(x, y)) for x, y in zip(q, v)])
        w['db_abs'] = max(w['db_abs'], np.max(np.abs(a - b)))
print(w)
