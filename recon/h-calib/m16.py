# measurement for notes/C16.md: float32 input vs the same values as float64, unchanged library
import numpy as np, warnings, sys
from psiaudio import util
warnings.simplefilter('ignore')
rs = np.random.RandomState(int(sys.argv[1]) if len(sys.argv) > 1 else 0)
worst = {}
def rec(name, a, b, scale=None):
    a = np.asarray(a); b = np.asarray(b)
    sc = np.max(np.abs(b)) if scale is None else scale
    e = float(np.max(np.abs(a - b)) / sc) if sc > 0 else 0.0
    worst[name] = max(worst.get(name, 0.0), e)
N = 4000
for it in range(N):
    n = int(rs.choice([rs.randint(2, 257), rs.randint(257, 4097), 2**rs.randint(1, 13), 65536 if it % 400 == 0 else 8]))
    A = 10 ** rs.uniform(-3, 3)
    if rs.rand() < 0.5:
        k = rs.randint(0, n // 2 + 1); p = rs.uniform(-3.1, 3.1)
        s = A * np.sqrt(2) * np.cos(2 * np.pi * k * np.arange(n) / n + p)
    else:
        s = rs.randn(n) * A + rs.choice([0, rs.uniform(-2, 2)])
    s32 = s.astype(np.float32); s64 = s32.astype(np.float64)
    w = rs.choice([None, 'hann', 'flattop'])
    rec('csd', util.csd(s32, window=w, detrend=None), util.csd(s64, window=w, detrend=None))
    rec('csd_nowin', util.csd(s32, detrend=None), util.csd(s64, detrend=None))
    rec('csd_detrend', util.csd(s32, window=w), util.csd(s64, window=w), scale=max(np.max(np.abs(util.csd(s64, window=w))), np.max(np.abs(s64))*1e-0))
    avg = rs.randint(1, 9)
    if n >= avg:
        rec('psd_avg', util.psd(s32, 1000., window=w, waveform_averages=avg, detrend=None), util.psd(s64, 1000., window=w, waveform_averages=avg, detrend=None))
    rec('rms', util.rms(s32), util.rms(s64))
    f = rs.randint(0, n // 2 + 1) * 1000. / n
    rec('tone_conv', util.tone_conv(s32, 1000., f, window=w, detrend=None), util.tone_conv(s64, 1000., f, window=w, detrend=None), scale=np.max(np.abs(s64)))
    rec('tone_conv_detrend', util.tone_conv(s32, 1000., f, window=w), util.tone_conv(s64, 1000., f, window=w), scale=np.max(np.abs(s64)))
    if n <= 256 and w is None:
        z32 = util.csd(s32, detrend=None); z = util.csd(s64, detrend=None)
        m = np.abs(z); ok = m > 1e-3 * m.max()
        if ok.any():
            d = np.angle(z32[ok] * np.conj(z[ok]))
            worst['phase_rad'] = max(worst.get('phase_rad', 0), float(np.max(np.abs(d))))
    # the float32 rounding of the samples themselves: tone law on s32
for k_, v in sorted(worst.items()): print(f'{k_:20s} {v:.3e}')
