import numpy as np, tempfile, os, logging
from scipy.io import wavfile
from psiaudio import stim, calibration as PC, util
logging.disable(logging.CRITICAL)
d = tempfile.mkdtemp()
worst = {}
for seed in range(150):
    rs = np.random.RandomState(seed)
    n = 2000
    x = rs.randn(n) * 0.2 * np.hanning(n)
    for dt in ('int16', 'int32', 'uint8', 'float32'):
        if dt == 'float32': raw = x.astype(np.float32)
        elif dt == 'uint8': raw = np.clip(x * 127 + 128, 0, 255).astype(np.uint8)
        else:
            ii = np.iinfo(dt); raw = np.clip(x * ii.max, ii.min, ii.max).astype(dt)
        p = os.path.join(d, f'{seed}{dt}.wav'); wavfile.write(p, 20000, raw)
        for norm in (None, 'pe', 'rms'):
            L = rs.uniform(-20, 120); cal = PC.FlatCalibration.from_spl(rs.choice([94., 100., 114.]), vrms=rs.choice([1., .1, 2.]))
            sf = float(cal.get_sf(1e3, L))
            w = np.asarray(stim.load_wav(20000, p, L, cal, norm), dtype=float)
            r = raw.astype(float)
            if dt != 'float32':
                ii = np.iinfo(dt); r = (r - ii.min) / (ii.max - ii.min) * 2 - 1
            if norm == 'pe': r = r / r.max()
            elif norm == 'rms': r = r / np.sqrt(np.mean(r**2))
            ref = r * sf
            e = np.max(np.abs(w - ref)) / np.max(np.abs(ref))
            worst[(dt, norm)] = max(worst.get((dt, norm), 0), e)
            # level definition
            if norm == 'rms': q = abs(float(util.rms(w)) - sf) / sf
            elif norm == 'pe': q = abs(w.max() - sf) / sf
            else: q = 0
            worst[(dt, norm, 'def')] = max(worst.get((dt, norm, 'def'), 0), q)
            # linearity
            w2 = np.asarray(stim.load_wav(20000, p, L + 20, cal, norm), dtype=float)
            worst[(dt, norm, 'lin')] = max(worst.get((dt, norm, 'lin'), 0), np.max(np.abs(w2 - 10 * w)) / np.max(np.abs(w2)))
for k, v in sorted(worst.items(), key=str): print(k, f'{v:.2e}')
