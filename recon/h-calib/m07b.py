# measurement: absolute model-vs-code deviation (dB) of the dB-valued calibration queries, unchanged library
# run: cd verif && PSI_REPO=... /venv/bin/python recon/h-calib/m07b.py
import sys, os, math
sys.path.insert(0, '.'); sys.path.insert(0, os.environ['PSI_REPO'])
from harness import common as C
from harness import c07
from harness.calib_util import parse_model, quiet
SPEC = c07.SPEC
worst = {}
for seed in range(4):
    cs = list(SPEC.gen(C.Rng(seed), 'quick'))
    SPEC.prime(cs)
    for c in cs:
        mo = SPEC.model_out(c)
        with quiet():
            res = SPEC.impl_results(c)
        ops = ['ctor'] + [q['op'] for q in c['queries'] if q['op'] != 'twin']
        for o, m, r in zip(ops, mo, res):
            m = parse_model(m)
            if m[0] != r[0] or m[0] not in ('num', 'vals'):
                continue
            a = [m[1]] if m[0] == 'num' else m[1]
            b = [r[1]] if r[0] == 'num' else r[1]
            for x, y in zip(a, b):
                if math.isfinite(x) and math.isfinite(y):
                    key = o if o in ('sens', 'db', 'att', 'gain', 'sensv', 'dbv', 'sensitivity') else 'volts:' + o
                    d = abs(x - y) if not key.startswith('volts') else abs(x - y) / max(abs(x), abs(y), 1e-300)
                    worst[key] = max(worst.get(key, 0.0), d)
for k, v in sorted(worst.items()):
    print(f'{k:16s} {v:.3e}', '(dB, absolute)' if not k.startswith('volts') else '(relative)')
