# measurement: batch call vs row-by-row call (unchanged library)
import numpy as np, warnings
from psiaudio import util
warnings.simplefilter('ignore')
rs = np.random.RandomState(0); w = {}
def rec(k, a, b, sc): w[k] = max(w.get(k, 0), float(np.max(np.abs(np.asarray(a) - np.asarray(b)))) / sc)
for it in range(3000):
    n = rs.randint(2, 300); B = tuple(rs.choice([1, 2, 3, 4], rs.randint(1, 3))); A = 10 ** rs.uniform(-3, 3)
    S = rs.randn(*B, n) * A; win = rs.choice([None, 'hann', 'flattop']); sc = np.max(np.abs(S))
    if rs.rand() < 0.3: S = S.astype(np.float32)
    flat = S.reshape(-1, n); fq = (n // 3) * 1000. / n; avg = rs.randint(1, min(8, n) + 1)
    rec('csd', util.csd(S, window=win, detrend=None).reshape(len(flat), -1), [util.csd(r, window=win, detrend=None) for r in flat], sc)
    rec('psd_avg', util.psd(S, 1000., window=win, waveform_averages=avg, detrend=None).reshape(len(flat), -1), [util.psd(r, 1000., window=win, waveform_averages=avg, detrend=None) for r in flat], sc)
    rec('tone_conv', np.ravel(util.tone_conv(S, 1000., fq, window=win, detrend=None)), [util.tone_conv(r, 1000., fq, window=win, detrend=None) for r in flat], sc)
    rec('tone_conv_F', util.tone_conv(S, 1000., np.array([fq, 1000. / n]), window=win, detrend=None).reshape(2, -1), [[util.tone_conv(r, 1000., f_, window=win, detrend=None) for r in flat] for f_ in (fq, 1000. / n)], sc)
    rec('rms', np.ravel(util.rms(S)), [util.rms(r) for r in flat], sc)
    Z = util.csd(S, detrend=None)
    rec('rms_rfft', np.ravel(util.rms_rfft(Z)), [np.sqrt(np.sum(np.abs(z) ** 2)) for z in Z.reshape(len(flat), -1)], sc)
print(w)
