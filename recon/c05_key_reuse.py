# run: cd $PSI_REPO && PYTHONPATH=$PSI_REPO /venv/bin/python <this file>
import numpy as np
from collections import deque
from psiaudio.pipeline import extract_epochs
from psiaudio.queue import FIFOSignalQueue

fs = 1000.0
def mk(buffer=0.05):
    out = []
    q, rq = deque(), deque()
    ex = extract_epochs(fs, q, 0.01, out.append, buffer_size=buffer, removed_queue=rq)
    return ex, q, rq, out
def info(t0, key='A'): return {'t0': t0, 'key': key, 'duration': 0.01, 'metadata': {}}
stream = np.arange(200, dtype=float)

# (a) old pending with key k; one call sees rem k then add k
ex, q, rq, out = mk()
q.append(info(0.02)); ex.send(stream[:25])            # pending (needs 20..29)
rq.append(info(0.02)); q.append(info(0.02)); ex.send(stream[25:50])
print('a', [o.tolist() for o in out])
# (b) add, rem, add all in one call, nothing pending
ex, q, rq, out = mk()
q.append(info(0.02)); rq.append(info(0.02)); q.append(info(0.02)); ex.send(stream[:25]); ex.send(stream[25:50])
print('b', [np.asarray(o).tolist() for o in out])
# (c) key re-used before removal seen: add in call 1, add in call 2 (still pending), removal later
ex, q, rq, out = mk()
q.append(info(0.02)); ex.send(stream[:25])
q.append(info(0.02))
try:
    ex.send(stream[25:27]); print('c no error', out)
except ValueError as e: print('c ValueError', e)
# (c2) both adds in one call without removal, not complete
ex, q, rq, out = mk()
q.append(info(0.02)); q.append(info(0.02))
try:
    ex.send(stream[:25]); print('c2 no error', out)
except ValueError as e: print('c2 ValueError', e)
# (d) both adds in one call, first completes at once from the chunk
ex, q, rq, out = mk()
q.append(info(0.02)); q.append(info(0.02))
try:
    ex.send(stream[:40]); print('d', [np.asarray(o).shape for o in out])
except ValueError as e: print('d ValueError', e)
# (e) delivered in call 1, same key again in call 2 (inside look-back)
ex, q, rq, out = mk()
q.append(info(0.02)); ex.send(stream[:40]); q.append(info(0.02)); ex.send(stream[40:50])
print('e', [np.asarray(o).shape for o in out])
# (f) removal after completion seen in the same call as a re-request: swallows it
ex, q, rq, out = mk()
q.append(info(0.02)); ex.send(stream[:40]); rq.append(info(0.02)); q.append(info(0.02)); ex.send(stream[40:50])
print('f', [np.asarray(o).shape for o in out])
# (g) the queue: pause exactly on a trial start, resume -> same (t0,key) again
qq = FIFOSignalQueue(fs=fs)
log = []
qq.connect(lambda i: log.append(('added', i['t0'], i['key'])), 'added')
qq.connect(lambda i: log.append(('removed', i['t0'], i['key'])), 'removed')
qq.append(np.ones(10), 3, 0.005)
qq.pop_buffer(20); qq.pause(0.015); qq.resume(); qq.pop_buffer(20)
print('g', [(a, b) for a, b, _ in log])
