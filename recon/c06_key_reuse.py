# run: cd $PSI_REPO && PYTHONPATH=$PSI_REPO /venv/bin/python <this file>
import numpy as np
from collections import deque
from psiaudio.pipeline import extract_epochs
from psiaudio.queue import FIFOSignalQueue
fs = 1000.0
def run(split):
    qq = FIFOSignalQueue(fs=fs)
    added, removed, out = deque(), deque(), []
    qq.connect(added.append, 'added'); qq.connect(removed.append, 'removed')
    qq.append(np.arange(1, 11, dtype=float), 3, 0.005)
    ex = extract_epochs(fs, added, 0.012, out.append, buffer_size=0.1, removed_queue=removed)
    played = [qq.pop_buffer(20)]            # trial 0 at 0, trial 1 at 15
    if split: ex.send(played[0][:15])       # extractor sees added(0), added(0.015) first
    qq.pause(0.015); qq.resume()            # pause exactly on trial 1's start
    played[0] = played[0][:15]
    played.append(qq.pop_buffer(30))        # trial at 15 again, same key
    stream = np.concatenate(played)
    ex.send(stream[15:] if split else stream)
    eps = np.concatenate(out, axis=0) if out else np.zeros((0, 12))
    return [(e.metadata['t0'] if hasattr(e, 'metadata') else None) for e in out], eps.shape, eps[:, :3].tolist()
print('one call  ', run(False))
print('two calls ', run(True))
