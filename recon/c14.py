import numpy as np, random
from psiaudio.buffer import SignalBuffer
rng = random.Random(7)
def run(seed, verbose=False):
    rng = random.Random(seed)
    fs=1.0 if rng.random()<0.7 else 1000.0
    cap = rng.randint(1,12)
    nch = rng.choice([None, 2])
    b = SignalBuffer(fs, cap/fs, n_channels=nch)
    capn = b._buffer_samples
    stream=[]  # logical stream values (channel 0)
    retained_lb = 0
    counter=0
    hist=[]
    for step in range(rng.randint(1,25)):
        op = rng.choice(['append','append','append','inval','resize','read'])
        if op=='append':
            n = rng.randint(1, capn+4)
            vals = np.arange(counter, counter+n, dtype=float); counter+=n
            d = vals if nch is None else np.vstack([vals, -vals])
            b.append_data(d); stream += vals.tolist()
            retained_lb = max(retained_lb, len(stream)-capn)
            hist.append(('append',n))
        elif op=='inval':
            i = rng.randint(-2, len(stream)+2)
            b.invalidate_samples(i)
            if i < len(stream):
                stream = stream[:max(i,0)]
                retained_lb = min(retained_lb, len(stream)) if True else retained_lb
            hist.append(('inval',i))
        elif op=='resize':
            newcap = rng.randint(1, 16)
            b.resize(newcap/fs)
            capn = max(capn, b._buffer_samples) if False else b._buffer_samples
            hist.append(('resize',newcap, capn))
        lb, ub = b.get_samples_lb(), b.get_samples_ub()
        exp_lb = retained_lb
        if ub != len(stream): return ('ub', hist, lb, ub, len(stream))
        if lb > ub: return ('lb>ub', hist, lb, ub)
        if lb != exp_lb: return ('lb', hist, lb, exp_lb, ub)
        try:
            got = b.get_range_samples(lb, ub)
        except IndexError:
            return ('indexerror-full', hist, lb, ub)
        g = got if nch is None else got[0]
        if not np.array_equal(g, np.array(stream[lb:ub])): return ('content', hist, lb, ub, g, stream[lb:ub])
        # out-of-window must raise
        if lb>0:
            try:
                b.get_range_samples(lb-1, ub); return ('no-indexerror-low', hist, lb, ub)
            except IndexError: pass
        try:
            b.get_range_samples(lb, ub+1); return ('no-indexerror-high', hist, lb, ub)
        except IndexError: pass
    return None
fails={}
for seed in range(20000):
    r = run(seed)
    if r: fails.setdefault(r[0], []).append(r)
for k,v in fails.items():
    v.sort(key=lambda r: len(r[1]))
    print(k, len(v), v[0])
