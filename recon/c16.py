import numpy as np
from psiaudio import util
fs=1000.0
bad=0
for n in [16,17,64,101]:
    for k in range(0, n//2+1):
        for A,p in [(1.0,0.3),(2.5,-1.0)]:
            t=np.arange(n)/fs; f=k*fs/n
            s=A*np.sqrt(2)*np.cos(2*np.pi*f*t+p)
            c=util.csd(s, detrend=None)
            mag=np.abs(c); ph=np.angle(c)
            expA = A
            if k==0 or (n%2==0 and k==n//2):
                continue
            if abs(mag[k]-A)>1e-9 or abs(np.angle(np.exp(1j*(ph[k]-p))))>1e-9: bad+=1; print('csd',n,k,mag[k],ph[k])
            others=np.delete(mag,k)
            if others.max()>1e-9: bad+=1; print('leak',n,k,others.max())
            # psd with averages
            for avg in [1,2,3]:
                ss=np.tile(s, avg); ss=np.concatenate([ss, np.zeros(avg-1)]) if avg>1 else ss
                P=util.psd(ss, fs, waveform_averages=avg, detrend=None) if True else None
                if abs(P[k]-A)>1e-9: bad+=1; print('psd',n,k,avg,P[k])
            # roundtrip
            if n%2==0:
                r=util.csd_to_signal(c)
                if np.max(np.abs(r-s))>1e-9: bad+=1; print('rt',n,k)
            # tone_conv
            tp=util.tone_power_conv(s, fs, f, detrend=None); tph=util.tone_phase_conv(s, fs, f)
            if abs(tp-A)>1e-9: bad+=1; print('tone_power',n,k,tp)
            # default detrend linear on whole-cycle tone?
            tp2=util.tone_power_conv(s, fs, f)
            # parseval
            ms=np.mean(s**2); tot=np.sum(np.abs(c)**2)
            if abs(ms-tot)>1e-9: bad+=1; print('parseval',n,k,ms,tot)
print('bad',bad)
# phase() with waveform_averages
try:
    print(util.phase(np.arange(10.), fs, None, 2)[:2])
except Exception as e: print('phase exc', repr(e))
# windows
for win in ['hann','flattop','hamming']:
    n=256; k=40; A=1.7; p=0.4
    t=np.arange(n)/fs; s=A*np.sqrt(2)*np.cos(2*np.pi*(k*fs/n)*t+p)
    c=util.csd(s, window=win, detrend=None); print(win, abs(c[k]), np.angle(c[k]))
print(util.db(util.dbi(37.2)), util.patodb(util.dbtopa(94.0)), util.spectrum_to_band_level(94, 100), util.band_to_spectrum_level(114,100))
print('tone phase', util.tone_phase_conv(np.sqrt(2)*np.cos(2*np.pi*100*np.arange(100)/fs+0.3), fs, 100.0))
