import numpy as np, itertools
from psiaudio import stim
fs=1000.0
bad=0; n=0
for lb in range(0,4):
  for dur in range(0,9):
    for rise in [None]+list(range(0,5)):
      st=lb/fs; d=dur/fs; r=None if rise is None else rise/fs
      try:
        full = stim.envelope.__wrapped__('cosine-squared', fs, d, r, 0, st, lb+dur+5)
      except ValueError as e:
        ir = rise
        assert dur < 2*ir, (dur, rise)
        continue
      ir = dur//2 if rise is None else rise
      assert dur >= 2*ir
      # shape check
      ramp = stim.cos2ramp(2*ir)
      exp = np.concatenate([np.zeros(lb), ramp[:ir], np.ones(dur-2*ir), ramp[ir:], np.zeros(5)])
      if not np.array_equal(full, exp): print('shape', lb,dur,rise); bad+=1
      N=len(full)
      for off in range(0,N+3):
        for s in range(0, N+3-off+2):
          frag = stim.envelope.__wrapped__('cosine-squared', fs, d, r, off, st, s)
          ex = np.concatenate([full, np.zeros(20)])[off:off+s]
          n+=1
          if len(frag)!=s or not np.array_equal(frag, ex):
            bad+=1
            if bad<10: print('frag', lb,dur,rise,off,s, frag, ex)
print('n',n,'bad',bad)
# auto + offset
print(stim.envelope.__wrapped__('cosine-squared', fs, 0.01, 0.002, 3, 0.002, 'auto'))
print(len(stim.envelope.__wrapped__('cosine-squared', fs, 0.01, 0.002, 0, 0.002, 'auto')))
