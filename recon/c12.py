import numpy as np, random, traceback
from scipy import signal
from psiaudio import pipeline as P
rng = random.Random(2)
def parts(N, rng, choices=(1,2,3,5,8,13,50,200)):
    out=[]
    while N>0:
        n = rng.choice(choices); n=min(n,N); out.append(n); N-=n
    return out
def mkstream(N, kind, fs=1000.0, s0=0):
    r = np.random.RandomState(0)
    if kind in ('1d','pd1'): x = r.uniform(-1,1,N)
    else: x = r.uniform(-1,1,(2,N))
    if kind=='pd1': x = P.PipelineData(x, fs, s0=s0, metadata={'m':1})
    if kind=='pd2': x = P.PipelineData(x, fs, s0=s0, channel=['a','b'], metadata={'m':1})
    return x
def run(stage_factory, x, p):
    out=[]
    st = stage_factory(out.append)
    b = np.cumsum([0]+p)
    for i in range(len(p)):
        st.send(x[..., b[i]:b[i+1]])
    return out
def check_contig(out):
    msgs=[]
    pd = [o for o in out if isinstance(o, P.PipelineData)]
    for a,b in zip(pd[:-1], pd[1:]):
        if a.s0 + a.shape[-1] != b.s0: msgs.append(f'noncontig {a.s0}+{a.shape[-1]} != {b.s0}')
        if a.fs != b.fs: msgs.append('fs')
        if a.channel != b.channel: msgs.append(f'channel {a.channel} {b.channel}')
        if a.metadata != b.metadata: msgs.append('metadata')
    return msgs[:2]
stages = {
 'iirfilter': lambda t: P.iirfilter(1000.0, 2, 100.0, None, None, 'lowpass', 'butter', t),
 'blocked': lambda t: P.blocked(7, t),
 'downsample': lambda t: P.downsample(3, t),
 'decimate': lambda t: P.decimate(3, t),
 'discard': lambda t: P.discard(11, t),
 'rms': lambda t: P.rms(1000.0, 0.007, t),
 'derivative': lambda t: P.derivative(0.0, t),
 'transform': lambda t: P.transform(lambda d: d*2, t),
 'mc_reference': lambda t: P.mc_reference(np.array([[1,-1],[0,1.]]), t),
}
N=500
for name, sf in stages.items():
    for kind in ['1d','2d','pd1','pd2']:
        if name=='mc_reference' and kind in ('1d','pd1'): continue
        x = mkstream(N, kind, s0=0)
        try:
            ref = run(sf, x, [N])
            refc = np.concatenate([np.asarray(o) for o in ref if np.asarray(o).size], axis=-1) if ref else np.zeros(0)
        except Exception as e:
            print(name, kind, 'REF EXC', repr(e)); continue
        nbad=0; msg=None; contig=None; attrs=None
        for it in range(30):
            p = parts(N, rng)
            try:
                out = run(sf, x, p)
                oc = np.concatenate([np.asarray(o) for o in out if np.asarray(o).size], axis=-1) if out else np.zeros(0)
                if oc.shape!=refc.shape or not np.allclose(oc, refc, atol=1e-12, rtol=0):
                    nbad+=1; msg = msg or ('values', p[:6], oc.shape, refc.shape)
                c = check_contig(out)
                if c: contig = contig or c
                if kind.startswith('pd') and out:
                    o=out[-1]
                    attrs = (type(o).__name__, getattr(o,'fs',None), getattr(o,'channel',None), getattr(o,'metadata',None))
            except Exception as e:
                nbad+=1; msg = msg or ('EXC', repr(e)[:100])
        print(f'{name:12s} {kind:4s} bad={nbad:2d} {msg} contig={contig} attrs={attrs}')
