import numpy as np
from psiaudio import queue as Q
fs=1000.0
def mk(cls, trials, **kw):
    q = cls(fs=fs, **kw)
    keys=[q.append(np.full(10, float(i+1)), t, delays=0.005) for i,t in enumerate(trials)]
    log=[]
    q.connect(lambda info: log.append(('add', keys.index(info['key']), round(info['t0']*fs))), 'added')
    q.connect(lambda info: log.append(('rem', keys.index(info['key']), round(info['t0']*fs))), 'removed')
    return q, keys, log
# 1. pause mid-waveform, FIFO, 3 trials
q,keys,log = mk(Q.FIFOSignalQueue, [3])
q.pop_buffer(5)   # mid trial 1
q.pause(0.005)
print('after pause mid', log, q.remaining_trials(keys[0]))
q.resume(0.020)
out=q.pop_buffer(200)
print(log, q.remaining_trials(keys[0]), q.is_empty())
adds=[l for l in log if l[0]=='add']; rems=[l for l in log if l[0]=='rem']
print('kept presentations', len(adds)-len(rems))
# 2. look-ahead double pause
q,keys,log = mk(Q.FIFOSignalQueue, [10])
q.pop_buffer(100)  # generated trials at 0,15,30,...,90
q.pause(0.020)     # cancels trials ending after 20: t0=15(ends 25),30,...,90
print(len(log), q.remaining_trials(keys[0]), log[-6:])
q.resume(0.040)
q.pop_buffer(30)   # clock 40..70 -> trials at 40,55
n1=len(log)
q.pause(0.050)     # should cancel trial at 55 (ends 65) and 40 (ends 50)? 40+10=50 not > 50.
print('second pause log', log[n1:], q.remaining_trials(keys[0]))
q.resume(0.060)
q.pop_buffer(1000)
adds=[l for l in log if l[0]=='add']; rems=[l for l in log if l[0]=='rem']
print('adds',len(adds),'rems',len(rems),'kept', len(adds)-len(rems), 'distinct rems', len(set(rems)))
# 3. interleaved pause after complete
q,keys,log = mk(Q.InterleavedFIFOSignalQueue, [1,1])
q.pop_buffer(100)
print(log, q.is_empty())
q.pause(0.016)  # trial 2 at t0=15 ends 25 > 16 -> cancelled
print(log, [q.remaining_trials(k) for k in keys])
q.resume(0.2)
q.pop_buffer(100)
print(log, [q.remaining_trials(k) for k in keys], q.is_empty())
# 4. pause in the future
q,keys,log = mk(Q.FIFOSignalQueue, [3])
q.pop_buffer(5)
try:
    q.pause(1.0)
except ValueError as e: print('ValueError ok', log, q.remaining_trials(keys[0]), q._paused)
