import ast, symtable, builtins, sys, glob, os
root='/repo/psiaudio'
for path in sorted(glob.glob(root+'/*.py')):
    src=open(path).read()
    st=symtable.symtable(src, path, 'exec')
    modnames={s.get_name() for s in st.get_symbols() if s.is_assigned() or s.is_imported() or s.is_namespace() or s.is_declared_global()}
    # also module-level names assigned via global decl in functions
    def walk(t):
        for s in t.get_symbols():
            if s.is_referenced() and s.is_global() and t.get_type()!='module':
                n=s.get_name()
                if n not in modnames and not hasattr(builtins,n):
                    print(os.path.basename(path), t.get_name(), t.get_lineno(), n)
        for c in t.get_children(): walk(c)
    # module level loads
    for s in st.get_symbols():
        if s.is_referenced() and not (s.is_assigned() or s.is_imported() or s.is_namespace()) and not hasattr(builtins, s.get_name()):
            print(os.path.basename(path), '<module>', s.get_name())
    walk(st)
