import numpy as np, random
from psiaudio import pipeline as P
rng = random.Random(3)
def gen_stream(rng, m, init):
    # runs all > m (exceed debounce length)
    runs=[]; state = init
    # first run can be same as initial state
    x=[]
    cur = rng.choice([True, False])
    for _ in range(rng.randint(1,6)):
        L = rng.randint(m+1, m+6)
        x += [cur]*L; cur = not cur
    return np.array(x, bool)
def expected(x, init):
    ev=[]; prev=init
    for i,v in enumerate(x):
        if v and not prev: ev.append(('rising', i))
        if prev and not v: ev.append(('falling', i))
        prev=v
    return ev
def parts(N, rng):
    out=[]
    while N>0:
        n = rng.choice([1,2,3,4,5,8]); n=min(n,N); out.append(n); N-=n
    return out
bad=0
for it in range(3000):
    m = rng.randint(1,4); init = rng.choice([True, False])
    x = gen_stream(rng, m, init); N=len(x)
    s0 = rng.choice([0, 100, -5])
    kind = rng.choice(['plain','pd2'])
    detect = rng.choice(['both','both','rising','falling'])
    p = parts(N, rng); b = np.cumsum([0]+p)
    out=[]
    try:
        st = P.edges(m, out.append, initial_state=init, fs=1000.0 if kind=='plain' else 'auto', detect=detect)
        for i in range(len(p)):
            c = x[b[i]:b[i+1]]
            if kind=='pd2': c = P.PipelineData(c[np.newaxis], 1000.0, s0=s0+b[i], channel=['ttl'])
            st.send(c)
    except Exception as e:
        bad+=1; print('EXC', repr(e), kind, m, p[:4]); continue
    base = s0 if kind=='pd2' else 0
    exp = [(e, i+base) for e,i in expected(x, init) if detect=='both' or e==detect]
    # events seen through N - m (lag)
    got=[]
    for ev in out:
        got += list(zip(ev.events['event'], ev.events['sample']))
    exp_vis = [(e,i) for e,i in exp if i <= base + N - m]  # visible after m further samples
    got_sorted = got
    # exact: no dup, in order, all visible present, no extras beyond exp
    ok = (len(set(got))==len(got)) and got==sorted(got, key=lambda t:t[1]) and set(exp_vis)<=set(got) and set(got)<=set(exp)
    # tiling
    tile = all(a.end==b_.start for a,b_ in zip(out[:-1], out[1:])) and len(out)==len(p)
    inblock = all(((ev.events['sample']>=ev.start)&(ev.events['sample']<ev.end)).all() for ev in out)
    if not ok or not tile or not inblock:
        bad+=1
        if bad<12: print('FAIL', dict(m=m, init=init, x=x.astype(int).tolist(), p=p, detect=detect, kind=kind), 'got', got, 'exp', exp, 'ok',ok,'tile',tile,'inblock',inblock, [(e.start,e.end) for e in out][:4])
print('bad', bad)
