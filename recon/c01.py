import numpy as np, itertools, random
from psiaudio import stim, calibration
cal = calibration.FlatCalibration.from_spl(94)
random.seed(1)
def parts(N, rng, maxk=6):
    k = rng.randint(1, maxk)
    cuts = sorted(rng.sample(range(1, N), min(k, N-1)))
    return [b-a for a,b in zip([0]+cuts, cuts+[N])]
def check(name, mk, N, trials=200, tol=0):
    rng = random.Random(0)
    f = mk(); full = f.next(N)
    bad = 0; first=None
    for _ in range(trials):
        p = parts(N, rng)
        g = mk(); out = np.concatenate([g.next(n) for n in p])
        if tol==0: ok = np.array_equal(out, full)
        else: ok = np.max(np.abs(out-full))<=tol
        if not ok:
            bad += 1
            if first is None:
                i = np.flatnonzero(out!=full)
                first = (p, i[:5], len(i))
    print(name, 'N',N,'bad', bad, first)
for fs in [1000.0, 195312.5]:
    tone = lambda: stim.ToneFactory(fs, 100.0, 1.0)
    check('tone', tone, 500)
    check('gate', lambda: stim.GateFactory(fs, 0.0103, 0.1, tone()), int(fs*0.2))
    check('gate_short', lambda: stim.GateFactory(1000.0, 0.01, 0.02, stim.ToneFactory(1000.0,100.0,1.0)), 100)
    check('cos2', lambda: stim.Cos2EnvelopeFactory(fs, 0.1, 0.01, tone(), start_time=0.0103), int(fs*0.2))
    check('cos2none', lambda: stim.Cos2EnvelopeFactory(fs, 0.1, None, tone(), start_time=0.0103), int(fs*0.2))
    check('hann', lambda: stim.EnvelopeFactory('hann', fs, 0.1, 0.01, tone(), start_time=0.0103), int(fs*0.2))
    check('sam0', lambda: stim.SAMEnvelopeFactory(fs, 0.5, 5.0, 0.0, 1, tone()), 500)
    check('samdelay', lambda: stim.SAMEnvelopeFactory(fs, 0.5, 5.0, 0.05, 1, tone()), int(fs*0.2))
    check('sqenv', lambda: stim.SquareWaveEnvelopeFactory(fs, 1.0, 40.0, 0.5, None, tone()), int(fs*0.2))
    check('sqenv7', lambda: stim.SquareWaveEnvelopeFactory(fs, 1.0, 7.0, 0.5, None, tone(), alpha=0.2), int(fs*0.5))
    check('sqwave', lambda: stim.SquareWaveFactory(fs, 1.0, 40.0, 0.5), int(fs*0.2))
    check('bbn', lambda: stim.BroadbandNoiseFactory(fs, 1.0, seed=3), 500)
    check('notch', lambda: stim.NotchFilterFactory(fs, fs/8, 1.33, stim.BroadbandNoiseFactory(fs, 1.0, seed=3)), 500)
    check('samtone', lambda: stim.SAMToneFactory(fs, 100.0, 10.0, 1.0), 500)
    check('silence', lambda: stim.SilenceFactory(0), 50)
    check('fixed', lambda: stim.FixedWaveform(fs, np.arange(1,31.)), 50)
    check('repeat', lambda: stim.RepeatFactory(1000.0, 3, 1, 100.0, 0.002, stim.FixedWaveform(1000.0, np.arange(1,6.))), 60)
check('sqenv2.5', lambda: stim.SquareWaveEnvelopeFactory(100.0, 1.0, 40.0, 0.5, None, stim.ToneFactory(100.0, 3.0, 1.0)), 100)
fs=100000.0
check('blnoise', lambda: stim.BandlimitedNoiseFactory(fs, 1, 1.0, 2000, 8000, 1, 1, 80), 3000, trials=20)
check('firnoise', lambda: stim.BandlimitedFIRNoiseFactory(fs, 2000, 8000, 60, seed=1, calibration=cal), 3000, trials=20, tol=1e-12)
check('firnoise-exact', lambda: stim.BandlimitedFIRNoiseFactory(fs, 2000, 8000, 60, seed=1, calibration=cal), 3000, trials=20)
check('shaped', lambda: stim.ShapedNoiseFactory(fs, 1.0, {0:-60, 2000:0, 8000:0, 50000:-60}, seed=1), 3000, trials=20, tol=1e-12)
