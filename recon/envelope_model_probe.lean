/-! Prototype: envelope fragment arithmetic as in stim.envelope -/
namespace Env

inductive Cell where
  | zero | one | ramp (i : Nat)
deriving DecidableEq, Repr

/-- np.clip(x, lo, hi) on Int (numpy: min(max(x,lo),hi)) -/
def clip (x lo hi : Int) : Int := min (max x lo) hi

def getI (offset iStart : Int) : Int := max (offset - iStart) 0
def getN (iMax offset iStart maxN : Int) : Int :=
  clip (iMax - (offset - iStart)) 0 (min iMax maxN)

structure P where
  lb : Nat      -- i_env_lb
  dur : Nat     -- i_duration
  rise : Nat    -- i_rise_time
deriving Repr

def rampSlice (a n : Int) : List Cell :=
  (List.range n.toNat).map (fun j => Cell.ramp (a.toNat + j))

/-- code-faithful fragment (after the rise-time guard) -/
def fragment (p : P) (offset samples : Nat) : List Cell :=
  let lb : Int := p.lb; let dur : Int := p.dur; let r : Int := p.rise
  let ub := lb + dur
  let off : Int := offset
  let s0 : Int := samples
  let nss := dur - 2 * r
  let nPre := getN lb off 0 s0
  let s1 := s0 - nPre
  let iOn := getI off lb
  let nOn := getN r off lb s1
  let s2 := s1 - nOn
  let nSs := getN nss off (lb + r) s2
  let s3 := s2 - nSs
  let iOff := getI off (ub - r)
  let nOff := getN r off (ub - r) s3
  let s4 := s3 - nOff
  List.replicate nPre.toNat Cell.zero ++ rampSlice iOn nOn ++ List.replicate nSs.toNat Cell.one
    ++ rampSlice (r + iOff) nOff ++ List.replicate s4.toNat Cell.zero

/-- spec: value at absolute index k -/
def envAt (p : P) (k : Nat) : Cell :=
  if k < p.lb then .zero
  else if k < p.lb + p.rise then .ramp (k - p.lb)
  else if k < p.lb + p.dur - p.rise then .one
  else if k < p.lb + p.dur then .ramp (p.rise + (k - (p.lb + p.dur - p.rise)))
  else .zero

def spec (p : P) (offset samples : Nat) : List Cell :=
  (List.range samples).map (fun i => envAt p (offset + i))

#eval fragment ⟨2, 10, 3⟩ 0 14
#eval decide (fragment ⟨2, 10, 3⟩ 3 9 = spec ⟨2, 10, 3⟩ 3 9)

end Env
