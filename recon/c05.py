import numpy as np, random
from collections import deque
from threading import Event
from psiaudio import pipeline as P
def parts(N, rng):
    out=[]
    while N>0:
        n = rng.choice([1,2,3,5,8,13,50,200]); n=min(n,N); out.append(n); N-=n
    return out
rng = random.Random(1)
bad=0
for it in range(2000):
    fs = rng.choice([1000.0, 195312.5, 44100.0, 48828.125])
    N = rng.randint(200, 1500)
    nd = rng.choice([1,2,'pd1','pd2'])
    if nd in (1,'pd1'): stream = np.arange(N, dtype=float)
    else: stream = np.vstack([np.arange(N, dtype=float), -np.arange(N, dtype=float)])
    pre = rng.choice([0, 0, 3/fs, 0.5/fs*3])
    post = rng.choice([0, 2/fs])
    size = rng.choice([5,10,40])/fs
    buf = rng.choice([0, 50/fs, 300/fs])
    bufn = round(buf*fs)
    p = parts(N, rng)
    bounds = np.cumsum([0]+p)
    # requests: (s_start sample, visible_at_chunk index)
    reqs=[]
    for r in range(rng.randint(0,8)):
        s = rng.randint(5, N-60)
        t0 = s/fs
        es = round((t0-pre)*fs); en = round((size+pre+post)*fs)
        if es<0 or es+en> N: continue
        # latest chunk index j at which it may be made visible: chunk j start tlb_j; need all prior chunks retained to cover es.
        # conservative: visible before chunk containing es is processed, or later if buffer allows
        jmin = 0
        j_contains = np.searchsorted(bounds, es, side='right')-1
        # allow late arrival up to chunk j where es >= bounds[j+1]-... use look-back: chunk kept if its tub >= tlb_after - bufn
        jl = j_contains
        while jl+1 < len(p) and (bounds[j_contains+1] >= bounds[jl+2] - bufn) and rng.random()<0.7:
            jl += 1
        j = rng.randint(0, jl)
        reqs.append(dict(s=s, es=es, en=en, j=j, key=r, t0=t0))
    # unique (t0,key)
    q = deque(); rq = deque(); got=[]; done=[]
    sc = Event() if rng.random()<0.5 else None
    ex = P.extract_epochs(fs, q, size, got.append, buffer_size=buf, empty_queue_cb=lambda: done.append(len(got)), removed_queue=rq, prestim_time=pre, poststim_time=post, source_complete=sc)
    try:
      for j,n in enumerate(p):
        for r in reqs:
            if r['j']==j: q.append({'t0': r['t0'], 'key': r['key'], 'metadata': {'id': r['key']}})
        if sc is not None and j==len(p)-1: sc.set()
        chunk = stream[..., bounds[j]:bounds[j+1]]
        if isinstance(nd,str): chunk = P.PipelineData(chunk, fs, s0=bounds[j], metadata={'src':1})
        ex.send(chunk)
    except Exception as e:
        bad+=1; print('EXC', it, repr(e), nd, fs, pre, buf); continue
    # collect
    eps=[]
    for g in got:
        for i in range(g.shape[0]):
            eps.append((g[i], g.metadata[i] if isinstance(g, P.PipelineData) else None))
    exp = sorted(reqs, key=lambda r:(r['es']))
    if len(eps)!=len(reqs): bad+=1; print('count', it, len(eps), len(reqs), nd, pre, buf); continue
    # match by content
    used=set()
    for e,md in eps:
        e = np.asarray(e)
        start = int(e[...,0] if e.ndim==1 else e[0,0])
        m = [r for r in reqs if r['es']==start and r['key'] not in used and (md is None or md.get('id')==r['key'])]
        if not m or e.shape[-1]!=m[0]['en'] or not np.array_equal(e, stream[..., start:start+m[0]['en']].reshape(e.shape)):
            bad+=1; print('content', it, start, e.shape, md); break
        used.add(m[0]['key'])
    if len(done)!=1: bad+=1; print('done', it, done, sc is not None, len(reqs))
print('bad', bad)
