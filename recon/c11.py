import numpy as np, itertools
from psiaudio.pipeline import PipelineData, concat
fs=1000.0
bad=0
# time-slice law: t of slice == slice of t
for nd in (1,2,3):
    shape = {1:(10,),2:(2,10),3:(3,2,10)}[nd]
    for s0 in (-7, 0, 5):
        a = PipelineData(np.arange(np.prod(shape), dtype=float).reshape(shape), fs, s0=s0, channel=None if nd==1 else ['a','b'], metadata=None if nd<3 else [{'i':0},{'i':1},{'i':2}])
        n=10
        for start in [None]+list(range(-13,14)):
            for stop in [None]+list(range(-13,14)):
                sl = slice(start, stop)
                try:
                    b = a[..., sl]
                except Exception as e:
                    print('exc', nd, sl, repr(e)); bad+=1; continue
                exp_t = a.t[sl]
                if b.shape[-1]>0 and not np.array_equal(b.t, exp_t):
                    bad+=1
                    if bad<15: print('t mismatch', nd, s0, sl, b.s0, b.t[:3], exp_t[:3])
                elif b.shape[-1]==0:
                    pass
print('bad', bad)
# strided
a = PipelineData(np.arange(10.), fs, s0=4)
b = a[::2]; print('strided', b.fs, b.s0)
b = a[1::2]; print('strided start', b.fs, b.s0)
# channel indexing
a = PipelineData(np.arange(30.).reshape(3,10), fs, channel=['a','b','c'], metadata={'x':1})
for idx in [0, slice(0,2), [0,2], np.array([True,False,True]), [True,False,True], slice(None,None,2), -1, [2,0]]:
    try:
        b = a[idx]
        print('chan', idx, b.shape, b.channel, getattr(b,'s0',None))
    except Exception as e: print('chan exc', idx, repr(e))
a = PipelineData(np.arange(60.).reshape(3,2,10), fs, channel=['a','b'], metadata=[{'i':0},{'i':1},{'i':2}])
for idx in [0, slice(0,2), [0,2], np.array([True,False,True]), [True, False, True], (slice(None), 1), (slice(None), [1]), (slice(None), np.array([False,True])), (np.array([True,False,True]), 0), (Ellipsis, slice(2,5)), (np.newaxis,)]:
    try:
        b = a[idx]
        print('ep', idx, b.shape, b.channel, b.metadata)
    except Exception as e: print('ep exc', idx, repr(e))
