"""Measured worst cases of the C08 equalisation clauses on the unchanged library (run from $PSI_REPO):
(i) finite, non-binding max_correction vs max_correction=inf, as a fraction of full scale;
(ii) per-bin level of the equalised 1 s click through the calibration, in dB;
(iii) 'omit' vs 'spell' spelling of the same request (defaults_law)."""
import sys
sys.path.insert(0, '/tmp/ws/d-cal/verif')
import numpy as np
from harness import common as C, c08
from psiaudio import util
w1 = w2 = w3 = 0.0
n1 = n2 = n3 = 0
for seed in range(40):
    rng = C.Rng(1000 + seed)
    for r in range(4):
        for kind in ('chirp', 'blclick', 'fir'):
            for calkind in ('flat', 'interp'):
                c = c08.gen_eq(rng, kind, calkind)
                with c08.quiet():
                    cal = c08.mkcal(c['cal'])
                    L = c['L']
                    a = c08.build(c, L, 1)
                    mc = c['mc']
                    fin = mc not in ('default', 'inf')
                    binds = fin and not c08.band_spread(c, cal) <= float(mc) - 1e-6
                    if mc != 'inf' and not binds:
                        ref = c08.build(dict(c, mc='inf'), L, 1)
                        full = float(np.max(np.abs(ref))) or 1.0
                        w1 = max(w1, float(np.max(np.abs(a - ref))) / full); n1 += 1
                    if kind == 'blclick' and c['win'] == 1.0 and not binds:
                        n, fs = len(a), c['fs']
                        freq = np.fft.rfftfreq(n, d=1 / fs)
                        m = np.flatnonzero((freq >= c['flb']) & (freq < c['fub']))
                        z = np.abs(util.csd(a, detrend=None))[m]
                        want = float(util.band_to_spectrum_level(L, len(m)))
                        got = np.asarray(cal.get_db(freq[m], z), dtype=float)
                        w2 = max(w2, float(np.max(np.abs(got - want)))); n2 += 1
    for rep in range(3):
        for kind in c08.KINDS:
            if kind == 'click':
                continue
            c = c08.gen_defaults(rng, kind, ('flat', 'interp', 'point')[rep], rep)
            if c.get('ntaps') == 10001 and seed > 3:
                continue
            with c08.quiet():
                a = c08.build(c, c['L'], 1)
                b = c08.build(dict(c, omit='spell'), c['L'], 1)
            w3 = max(w3, float(np.max(np.abs(np.asarray(a, float) - np.asarray(b, float)), initial=0.0))); n3 += 1
print(f'(i) non-binding vs inf: worst {w1!r} of full scale over {n1} cases')
print(f'(ii) per-bin level of equalised 1 s click: worst {w2!r} dB over {n2} cases')
print(f'(iii) omit vs spell: worst absolute difference {w3!r} over {n3} cases')
