import numpy as np, random
from psiaudio.buffer import SignalBuffer
def run(seed, patched=False):
    rng = random.Random(seed)
    fs=1.0
    cap = rng.randint(1,12)
    nch = rng.choice([None, 2])
    b = SignalBuffer(fs, cap/fs, n_channels=nch)
    capn = b._buffer_samples
    stream=[]; retained_lb = 0; counter=0; hist=[('cap',cap)]
    for step in range(rng.randint(1,25)):
        op = rng.choice(['append','append','append','inval','resize'])
        if op=='append':
            n = rng.randint(1, capn+4)
            vals = np.arange(counter, counter+n, dtype=float); counter+=n
            d = vals if nch is None else np.vstack([vals, -vals])
            b.append_data(d); stream += vals.tolist()
            retained_lb = max(retained_lb, len(stream)-capn)
            hist.append(('append',n))
        elif op=='inval':
            i = rng.randint(0, len(stream)+2)
            if patched and i < retained_lb and i < len(stream):
                # emulate fix: full invalidate
                b._invalidate(0); b._samples = i
            else:
                b.invalidate_samples(i)
            if i < len(stream):
                stream = stream[:i]; retained_lb = min(retained_lb, i)
            hist.append(('inval',i))
        elif op=='resize':
            newcap = rng.randint(1, 16)
            b.resize(newcap/fs); capn = b._buffer_samples
            if capn != newcap: return ('capn', hist, capn, newcap)
            retained_lb = max(retained_lb, len(stream)-capn)
            hist.append(('resize',newcap))
        lb, ub = b.get_samples_lb(), b.get_samples_ub()
        if ub != len(stream): return ('ub', hist, lb, ub, len(stream))
        if lb > ub: return ('lb>ub', hist, lb, ub)
        if lb != retained_lb: return ('lb', hist, lb, retained_lb, ub)
        try: got = b.get_range_samples(lb, ub)
        except IndexError: return ('indexerror-full', hist, lb, ub)
        g = got if nch is None else got[0]
        if not np.array_equal(g, np.array(stream[lb:ub])): return ('content', hist, lb, ub, g, stream[lb:ub])
        if nch is not None and not np.array_equal(got[1], -np.array(stream[lb:ub])): return ('content1', hist)
        try:
            b.get_range_samples(lb-1, ub); return ('no-indexerror-low', hist, lb, ub)
        except IndexError: pass
        try:
            b.get_range_samples(lb, ub+1); return ('no-indexerror-high', hist, lb, ub)
        except IndexError: pass
        # filled
        a_, z_ = lb - rng.randint(0,3), ub + rng.randint(0,3)
        f = b.get_range_filled(a_/fs, z_/fs, -99.0)
        f0 = f if nch is None else f[0]
        exp = np.array([ (stream[k] if lb<=k<ub else -99.0) for k in range(a_, z_)])
        if not np.array_equal(f0, exp): return ('filled', hist, a_, z_, f0, exp)
    return None
for patched in (False, True):
    fails={}
    for seed in range(20000):
        r = run(seed, patched)
        if r: fails.setdefault(r[0], []).append(r)
    print('patched', patched)
    for k,v in fails.items():
        v.sort(key=lambda r: len(r[1]))
        print(' ', k, len(v), v[0])
