import numpy as np, random
from psiaudio import pipeline as P
rng=random.Random(0); bad=0
for it in range(3000):
    ne=rng.randint(1,6); nt=rng.randint(1,5)
    th=rng.choice([1.0,2.0,0.5])
    mode=rng.choice(['absolute value','amplitude'])
    data=np.array([[ [rng.choice([-2,-1,-0.5,0,0.25,0.5,1,2.0]) for _ in range(nt)] ] for _ in range(ne)])
    kind=rng.choice(['plain','pd'])
    x = data if kind=='plain' else P.PipelineData(data, 1000.0, s0=5, channel=['c'], metadata=[{'i':i} for i in range(ne)])
    out=[]; st=[]
    thv=[th]
    co=P.reject_epochs((lambda: thv[0]) if rng.random()<0.5 else th, mode, st.append, out.append)
    try: co.send(x)
    except Exception as e: bad+=1; print('EXC',repr(e), kind, ne); continue
    crit = np.abs(data).max(axis=-1)[:,0] if mode=='absolute value' else (data.max(axis=-1)-data.min(axis=-1))[:,0]
    mask = crit < th
    if not np.array_equal(st[0], mask): bad+=1; print('mask')
    if mask.any():
        if len(out)!=1 or not np.array_equal(np.asarray(out[0]), data[mask]): bad+=1; print('data')
        elif kind=='pd':
            md=[m['i'] for m in out[0].metadata]
            if md!=list(np.flatnonzero(mask)) or len(out[0].metadata)!=out[0].shape[0]: bad+=1; print('md', md, mask, out[0].metadata)
    else:
        if out: bad+=1; print('forwarded none?')
print('bad',bad)
# refuse multichannel / unepoched
for x in [np.zeros((2,2,3)), np.zeros((2,3)), P.PipelineData(np.zeros((2,2,3)),1.0), P.PipelineData(np.zeros((1,3)),1.0)]:
    co=P.reject_epochs(1.0,'amplitude',None,print)
    try: co.send(x); print('accepted', x.shape)
    except ValueError as e: print('refused', x.shape)
