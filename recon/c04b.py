import numpy as np
from psiaudio import queue as Q
cnt=0; tot=0; ex=[]
for fs in [1000.0, 25000.0, 44100.0, 48828.125, 97656.25, 100000.0, 195312.5]:
    for n in [5, 7, 13, 100]:
        for dn in [0, 3, 11]:
            q = Q.FIFOSignalQueue(fs=fs)
            key = q.append(np.ones(n), 400, delays=dn/fs)
            log=[]; q.connect(lambda i: log.append(i), 'added')
            q.pop_buffer(300*(n+dn))
            for info in log:
                k = round(info['t0']*fs)
                t = (k+n)/fs    # exact end of this trial
                tot+=1
                if (info['t0']+info['duration']) > t:
                    cnt+=1
                    if len(ex)<5: ex.append((fs,n,dn,k, info['t0']+info['duration'], t))
print(cnt, tot, ex)
