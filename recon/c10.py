import numpy as np, copy
from psiaudio import stim, queue as Q
fs=1000.0
e1 = stim.cos2envelope(fs, 0.02, 0.005); ref = e1.copy(); e1 *= 2
e2 = stim.cos2envelope(fs, 0.02, 0.005); print('cache aliasing', np.array_equal(e2, ref), e2 is e1)
s1 = stim.sam_envelope(0, 20, fs, 1.0, 50.0, 0.0, True); r = s1.copy(); s1[:] = 0
print('sam cache', np.array_equal(stim.sam_envelope(0, 20, fs, 1.0, 50.0, 0.0, True), r))
# Factory using envelope after caller mutation
f = stim.Cos2EnvelopeFactory(fs, 0.02, 0.005, stim.ToneFactory(fs, 100.0, 1.0)); a = f.next(20)
env = stim.envelope('cosine-squared', fs, 0.02, 0.005, 0, 0, 20, None); env[:] = 0
f.reset(); b = f.next(20); print('factory affected by caller mutation', not np.array_equal(a,b))
# gate over FixedWaveform mutates underlying
w = np.arange(1, 21.); fw = stim.FixedWaveform(fs, w); g = stim.GateFactory(fs, 0.005, 0.01, fw); g.next(20); print('fixed waveform mutated', w[:8])
# noise independent of global state
np.random.seed(1); n1 = stim.BroadbandNoiseFactory(fs, 1.0, seed=5).next(10); np.random.seed(2); np.random.rand(7); n2 = stim.BroadbandNoiseFactory(fs, 1.0, seed=5).next(10); print('bbn seed-only', np.array_equal(n1,n2))
# queue deep copy
src = stim.Cos2EnvelopeFactory(fs, 0.02, 0.005, stim.ToneFactory(fs, 100.0, 1.0))
q = Q.FIFOSignalQueue(fs); q.append(src, 2); src.next(7); src.input_factory.frequency = 333.0
q2 = Q.FIFOSignalQueue(fs); q2.append(stim.Cos2EnvelopeFactory(fs, 0.02, 0.005, stim.ToneFactory(fs, 100.0, 1.0)), 2)
print('queue isolation', np.array_equal(q.pop_buffer(50), q2.pop_buffer(50)))
arr = np.arange(10.); q = Q.FIFOSignalQueue(fs); q.append(arr, 1); arr[:] = -1; print('array isolation', q.pop_buffer(10))
# clone
q = Q.BlockedRandomSignalQueue(seed=1, fs=fs); [q.append(np.full(3, i+1.), 3) for i in range(3)]; q.pop_buffer(4); c = q.clone(); a = q.pop_buffer(30); b = c.pop_buffer(30); print('clone same', np.array_equal(a,b))
