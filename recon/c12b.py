import numpy as np, random
from psiaudio import pipeline as P
rng = random.Random(5)
def parts(N, rng):
    out=[]
    while N>0:
        n = rng.choice([1,2,3,5,8,13,50]); n=min(n,N); out.append(n); N-=n
    return out
N=300
bad=0
for it in range(200):
    ev_samples = sorted(rng.sample(range(N), 25))
    bs, step = rng.choice([(20,20),(20,5),(10,10),(16,4)])
    def run(p):
        out=[]; b=np.cumsum([0]+p)
        st = P.event_rate(bs, step, out.append)
        for i in range(len(p)):
            evs=[('rising', s) for s in ev_samples if b[i]<=s<b[i+1]]
            st.send(P.Events(evs, int(b[i]), int(b[i+1]), 1000.0))
        return out
    ref = run([N]+[1]) if False else None
    outs=[]
    for k in range(4):
        p = parts(N, rng)
        try:
            o = run(p)
        except Exception as e:
            print('EXC', repr(e)); bad+=1; break
        vals = np.concatenate([np.asarray(x)[0] for x in o]) if o else np.zeros(0)
        contig = all(a.s0+a.shape[-1]==b_.s0 for a,b_ in zip(o[:-1],o[1:]))
        outs.append((vals, contig, o[0].s0 if o else None, o[0].fs if o else None, p))
    # compare common prefix (emission lag may differ at the tail)
    L = min(len(v[0]) for v in outs)
    for v in outs[1:]:
        if not np.array_equal(v[0][:L], outs[0][0][:L]) or not v[1] or v[2]!=outs[0][2]:
            bad+=1
            if bad<5: print('mismatch', bs, step, L, [len(x[0]) for x in outs], v[1], v[2], outs[0][2], v[4][:5], outs[0][4][:5]); 
            break
print('bad', bad)
# true rate definition check
ev_samples=[3,4,25]
out=[]; st=P.event_rate(20,20,out.append)
st.send(P.Events([('r',s) for s in ev_samples if s<30], 0, 30, 1000.0)); st.send(P.Events([], 30, 100, 1000.0)); 
print([ (np.asarray(o), o.s0, o.fs) for o in out])
