"""C15 schedule explorer: the real ``SignalBuffer`` under a controlled two-thread scheduler.

A writer thread and a reader thread run real operations of the real class.  Each thread is traced
with ``sys.settrace``; at every *line* event inside psiaudio/buffer.py the thread parks and hands
control back to the controller, which decides who runs next.  ``buf._lock`` is replaced by an
instrumented re-entrant lock, so the controller knows when a thread would block (a forced switch,
not counted as a pre-emption).  Exactly one thread runs at any time: runs are deterministic and a
schedule (the sequence of thread ids, one per line step) replays exactly.

``explore`` enumerates schedules with at most ``max_preempt`` pre-emptions and compares the outcome
(what every read returned, what every write raised, and the final buffer state) with the set of
outcomes of the serial executions (all order-preserving merges of the two operation lists).  An
outcome outside that set is a torn read / lost update: the replay is the scenario + the schedule
string.  Only used for the failing-input search and, in the thorough tier, as validation of the
translator on the unchanged tree.
"""
import itertools
import os
import sys
import threading
import time

import numpy as np

from . import common as C

TIMEOUT = 120.0     # wall seconds for one hand-over between the scheduler and a worker thread (never reached on the
                    # passing path; generous so that a loaded machine cannot fake a stuck thread)


class Stuck(Exception):
    pass


def buffer_file():
    import psiaudio.buffer as B
    f = B.__file__
    return f[:-1] if f.endswith('.pyc') else f


def make_buffer(sc):
    from psiaudio.buffer import SignalBuffer
    b = SignalBuffer(fs=sc['fs'], size=sc['size'], n_channels=sc.get('n_channels'))
    for n in sc.get('prefill', []):
        b.append_data(_data(sc, n, b))
    return b


def _data(sc, n, b):
    """n fresh samples whose values continue the running count (so any shift is visible)."""
    start = getattr(b, '_verif_next', 0)
    b._verif_next = start + n
    x = np.arange(start, start + n, dtype='double')
    nc = sc.get('n_channels')
    return x if nc is None else np.vstack([x + 1000 * c for c in range(nc)])


def canon(v):
    if isinstance(v, BaseException):
        return 'exc:' + type(v).__name__
    if isinstance(v, np.ndarray):
        return ('arr', tuple(v.shape), tuple('nan' if x != x else float(x) for x in np.asarray(v, dtype='double').ravel()))
    if isinstance(v, (float, np.floating)):
        return 'nan' if v != v else round(float(v), 9)
    if isinstance(v, (int, np.integer)):
        return int(v)
    return repr(v)


def do_op(sc, b, op):
    """Run one operation; the result is copied at once (get_range returns a view of the live buffer)."""
    name, args = op[0], op[1:]
    try:
        if name == 'append_data':
            r = b.append_data(_data(sc, args[0], b))
        else:
            r = getattr(b, name)(*args)
        if isinstance(r, np.ndarray):
            r = np.array(r)
        return canon(r)
    except Exception as e:            # IndexError of an unbuffered range is a legitimate serial outcome
        return canon(e)


def state(b):
    return (canon(b._buffer), int(b._samples), int(b._ilb), int(b._buffer_samples))


def merges(nw, nr):
    """All order-preserving merges of nw writer ops and nr reader ops, as strings over 'W', 'R'."""
    for pos in itertools.combinations(range(nw + nr), nw):
        yield ''.join('W' if i in pos else 'R' for i in range(nw + nr))


def serial_outcomes(sc):
    out = {}
    for m in merges(len(sc['writer']), len(sc['reader'])):
        b = make_buffer(sc)
        it = {'W': iter(sc['writer']), 'R': iter(sc['reader'])}
        res = {'W': [], 'R': []}
        for who in m:
            res[who].append(do_op(sc, b, next(it[who])))
        out[(tuple(res['W']), tuple(res['R']), state(b))] = m
    return out


class ILock:
    """Re-entrant lock whose contention is visible to the controller."""

    def __init__(self, ctl):
        self.ctl = ctl
        self.owner = None
        self.count = 0

    def acquire(self, blocking=True, timeout=-1):
        me = self.ctl.current
        while self.owner is not None and self.owner != me:
            self.ctl.park(me, 'blocked')
        self.owner = me
        self.count += 1
        return True

    def release(self):
        self.count -= 1
        if self.count == 0:
            self.owner = None
            self.ctl.unblock()

    __enter__ = acquire

    def __exit__(self, *a):
        self.release()


class _ThreadingShim:
    """Stands in for the `threading` module inside psiaudio.buffer while a schedule runs: every RLock the class
    creates (in __init__ or, if the code does so, later) is an ILock, i.e. a re-entrant lock with the semantics of
    threading.RLock whose contention the controller can see."""

    def __init__(self, ctl):
        self._ctl = ctl

    def RLock(self):
        return ILock(self._ctl)

    def __getattr__(self, name):
        return getattr(threading, name)


class Controller:
    def __init__(self, sc, policy, opcode_funcs=()):
        self.opcode_funcs = set(opcode_funcs)   # step these functions bytecode by bytecode
        self.sc = sc
        self.policy = policy
        self.current = None
        self.st = {'W': 'ready', 'R': 'ready'}
        self._patched = self._patch()
        try:
            self.buf = make_buffer(sc)
        except BaseException:
            self._unpatch()
            raise
        # A lock object of any other kind (a dummy, a property, ...) is left as it is: the schedule then runs with
        # whatever exclusion it really provides.
        lock = self.buf.__dict__.get('_lock')
        if type(lock) is type(threading.RLock()):
            self.buf._lock = ILock(self)
        self.file = buffer_file()
        self.go = {'W': threading.Semaphore(0), 'R': threading.Semaphore(0)}
        self.back = threading.Semaphore(0)
        self.st = {'W': 'ready', 'R': 'ready'}
        self.res = {'W': [], 'R': []}
        self.trace = []
        self.error = None

    def _patch(self):
        import psiaudio.buffer as B
        saved = {}
        for k, v in list(vars(B).items()):
            if v is threading:
                saved[k] = v
                setattr(B, k, _ThreadingShim(self))
            elif v is threading.RLock:
                saved[k] = v
                setattr(B, k, lambda: ILock(self))
        return saved

    def _unpatch(self):
        import psiaudio.buffer as B
        for k, v in self._patched.items():
            setattr(B, k, v)

    # ---- worker side --------------------------------------------------------
    def park(self, me, st='ready'):
        self.st[me] = st
        self.back.release()
        if not self.go[me].acquire(timeout=TIMEOUT):
            raise Stuck(me)

    def unblock(self):
        for t, s in self.st.items():
            if s == 'blocked':
                self.st[t] = 'ready'

    def _tracer(self, me):
        def local(frame, event, arg):
            if event == 'line':
                self.park(me)
            return local

        def fine(frame, event, arg):
            if event == 'opcode':
                self.park(me)
            return fine

        def glob(frame, event, arg):
            if frame.f_code.co_filename != self.file:
                return None
            if frame.f_code.co_name in self.opcode_funcs:
                frame.f_trace_opcodes = True
                return fine
            return local
        return glob

    def _worker(self, me, ops):
        try:
            if not self.go[me].acquire(timeout=TIMEOUT):
                return
            sys.settrace(self._tracer(me))
            try:
                for op in ops:
                    self.res[me].append(do_op(self.sc, self.buf, op))
            finally:
                sys.settrace(None)
        except BaseException as e:      # harness trouble, not an outcome
            self.error = e
        finally:
            self.st[me] = 'done'
            self.back.release()

    # ---- controller side -------------------------------------------------------
    def run(self):
        try:
            return self._run()
        finally:
            self._unpatch()

    def _run(self):
        ths = [threading.Thread(target=self._worker, args=(t, self.sc[k]), daemon=True)
               for t, k in (('W', 'writer'), ('R', 'reader'))]
        for t in ths:
            t.start()
        while True:
            runnable = [t for t in 'WR' if self.st[t] == 'ready']
            if not runnable:
                if all(s == 'done' for s in self.st.values()):
                    break
                raise Stuck('deadlock: ' + repr(self.st))
            t = self.policy(runnable, self.current, len(self.trace))
            self.current = t
            self.trace.append(t)
            self.go[t].release()
            if not self.back.acquire(timeout=TIMEOUT):
                raise Stuck('no answer from ' + t)
            if self.error is not None:
                raise self.error
        for t in ths:
            t.join(TIMEOUT)
        return (tuple(self.res['W']), tuple(self.res['R']), state(self.buf)), ''.join(self.trace)


def preempt_policy(first, points):
    """Run `first`; switch threads at the global step indices in `points` (pre-emptions), and
    whenever the running thread blocks or finishes (forced)."""
    points = set(points)

    def policy(runnable, current, step):
        if current is None:
            current = first
            if current in runnable:
                return current
        other = 'R' if current == 'W' else 'W'
        if step in points and other in runnable:
            return other
        return current if current in runnable else other
    return policy


def replay_policy(schedule):
    def policy(runnable, current, step):
        want = schedule[step] if step < len(schedule) else None
        if want in runnable:
            return want
        return runnable[0]
    return policy


def run_schedule(sc, schedule, opcode_funcs=()):
    return Controller(sc, replay_policy(schedule), opcode_funcs).run()


def explore(sc, max_preempt=3, budget_s=30.0, max_runs=None, opcode_funcs=()):
    """-> dict(runs, distinct, torn) ; torn = None or dict(scenario, schedule, outcome)."""
    t0 = time.time()
    serial = serial_outcomes(sc)
    seen = set()
    runs = 0

    def one(first, pts):
        nonlocal runs
        out, tr = Controller(sc, preempt_policy(first, pts), opcode_funcs).run()
        runs += 1
        fresh = tr not in seen
        seen.add(tr)
        return out, tr, fresh

    lengths = {}
    for first in 'WR':
        out, tr, _ = one(first, ())
        lengths[first] = len(tr)
        if out not in serial:
            return {'runs': runs, 'distinct': len(seen), 'torn': _torn(sc, tr, out, serial, opcode_funcs)}
    for k in range(1, max_preempt + 1):
        for first in 'WR':
            n = lengths[first] + 2
            for pts in itertools.combinations(range(1, n), k):
                if time.time() - t0 > budget_s or (max_runs and runs >= max_runs):
                    return {'runs': runs, 'distinct': len(seen), 'torn': None, 'truncated': True}
                out, tr, fresh = one(first, pts)
                if out not in serial:
                    return {'runs': runs, 'distinct': len(seen), 'torn': _torn(sc, tr, out, serial, opcode_funcs)}
    return {'runs': runs, 'distinct': len(seen), 'torn': None, 'truncated': False}


def _torn(sc, tr, out, serial, opcode_funcs=()):
    return {'scenario': sc, 'schedule': tr, 'opcode_funcs': sorted(opcode_funcs),
            'observed': {'writer_results': out[0], 'reader_results': out[1], 'final_state': out[2]},
            'serial_outcomes': [{'order': m, 'writer_results': k[0], 'reader_results': k[1], 'final_state': k[2]}
                                for k, m in serial.items()]}


# --------------------------------------------------------------------------
# scenarios
# --------------------------------------------------------------------------

FIXED = [
    {'writer': [['append_data', 3]], 'reader': [['get_latest', -0.4]]},
    {'writer': [['append_data', 3]], 'reader': [['get_range_filled', 0.2, 1.4, -1.0]]},
    {'writer': [['append_data', 12]], 'reader': [['get_latest', -0.5, 0, -1.0]]},
    {'writer': [['invalidate_samples', 7]], 'reader': [['get_latest', -0.3]]},
    {'writer': [['resize', 1.6]], 'reader': [['get_latest', -0.6, 0, -1.0]]},
    {'writer': [['append_data', 2], ['invalidate', 0.9]], 'reader': [['get_range'], ['get_samples_lb']]},
    {'writer': [['append_data', 4]], 'reader': [['get_time_lb'], ['get_time_ub']]},
    {'writer': [['append_data', 3]], 'reader': [['get_range_samples', 6, 10]]},
]


def systematic(rng):
    """Every mutation in every region against every read form, on every kind of state.

    States (capacity 8 samples at fs = 10): partly filled, exactly full, wrapped (old samples pushed out), filled in
    two chunks; 1-D, one and two channels.  Writer: append smaller than / equal to / larger than the room left and
    the capacity; invalidate (samples and seconds) before the window, at its lower bound, inside, at the newest
    sample, at and beyond the upper bound; resize smaller / to the same size / larger / larger and back.  Reader:
    every public read with its defaults, inside, overlapping and outside the window, with and without fill.
    Each writer is paired with two readers (the pairing rotates with the seed)."""
    states = [([5], None), ([8], None), ([11], None), ([3, 4], None), ([11], 2), ([5], 2), ([8], 1), ([2, 9, 3], None)]

    def writers(pre):
        hi = sum(pre)
        lo = max(0, hi - 8)
        free = 8 - (hi - lo)
        w = [[['append_data', 1]], [['append_data', max(1, free)]], [['append_data', free + 1]],
             [['append_data', 8]], [['append_data', 9]], [['append_data', 12]],
             [['append_data', 2], ['append_data', 7]]]
        for i in sorted({max(0, lo - 2), lo, lo + 1, (lo + hi) // 2, hi - 1, hi, hi + 3}):
            w.append([['invalidate_samples', i]])
            w.append([['invalidate', i / 10]])
        w.append([['invalidate_samples', (lo + hi) // 2], ['append_data', 3]])
        w.append([['invalidate_samples', lo], ['invalidate_samples', max(0, lo - 1)]])
        for size in (0.3, 0.5, 0.8, 1.2, 1.6):
            w.append([['resize', size]])
        w.append([['resize', 1.6], ['resize', 0.8]])
        w.append([['resize', 0.4], ['append_data', 6]])
        w.append([['append_data', 3], ['resize', 1.2]])
        return w, lo, hi

    def readers(lo, hi):
        t = lambda k: k / 10
        return [[['get_latest', -0.4]], [['get_latest', -0.4, 0, -1.0]], [['get_latest', -0.5, -0.2]],
                [['get_latest', -1.5, 0, -1.0]], [['get_latest', -0.3, 0.2, -1.0]],
                [['get_range']], [['get_range', t(lo + 1), t(hi - 1)]], [['get_range', t(lo + 1)]],
                [['get_range', None, t(hi - 1)]], [['get_range', t(max(0, lo - 1)), t(hi)]],
                [['get_range_filled', t(lo - 2), t(hi + 2), -1.0]], [['get_range_filled', t(lo + 1), t(hi - 1), -1.0]],
                [['get_range_filled', t(hi), t(hi + 3), -1.0]], [['get_range_filled', t(lo - 4), t(lo), -1.0]],
                [['get_range_samples']], [['get_range_samples', lo + 1, hi - 1]], [['get_range_samples', lo + 2]],
                [['get_range_samples', None, hi - 2]], [['get_range_samples', hi - 1, hi + 2]],
                [['get_samples_lb']], [['get_samples_ub']], [['get_time_lb']], [['get_time_ub']],
                [['get_samples_lb'], ['get_samples_ub']], [['get_time_ub'], ['get_range']],
                [['get_samples_ub'], ['get_range_samples']]]

    out = []
    rot = rng.randint(0, 10 ** 6)
    k = 0
    for si, (pre, nch) in enumerate(states):
        ws, lo, hi = writers(pre)
        rs = readers(lo, hi)
        for wi, w in enumerate(ws):
            if si > 0 and (wi + si + rot) % 4 != 0:
                continue            # every writer on the first state; on the other states a rotating quarter
            for j in range(2):
                r = rs[(rot + 7 * k + 11 * j) % len(rs)]
                k += 1
                out.append({'writer': w, 'reader': r, 'fs': 10.0, 'size': 0.8, 'prefill': list(pre), 'n_channels': nch})
    return out


def scenarios(rng, count, sysn=0):
    """Writer/reader operation lists over a small buffer (capacity 8 samples at fs = 10): the fixed ones first,
    then `sysn` of the systematic list (a seed-dependent sample, all of it when sysn is None), then random ones
    up to `count` in total."""
    out = []
    for f in FIXED[:count]:
        sc = dict(f)
        # partly filled: `_ilb` still moves
        sc.update({'fs': 10.0, 'size': 0.8, 'prefill': [5], 'n_channels': None})
        out.append(sc)
    sy = systematic(rng)
    if sysn is not None:
        idx = list(range(len(sy)))
        rng.shuffle(idx)
        sy = [sy[i] for i in sorted(idx[:sysn])]
    out += sy
    while len(out) < count:
        sc = {'writer': [rand_writer(rng) for _ in range(rng.randint(1, 2))],
              'reader': [rand_reader(rng) for _ in range(rng.randint(1, 3))]}
        if rng.random() < 0.15:          # the writer also reads between its mutations
            sc['writer'].insert(rng.randint(0, len(sc['writer'])), rand_reader(rng))
        pre = rng.choice([[5], [8], [11], [3, 4], [1], [8, 8]])
        nch = rng.choice([None, None, 2, 1])
        sc.update({'fs': 10.0, 'size': rng.choice([0.8, 0.8, 0.3, 1.6]), 'prefill': pre, 'n_channels': nch})
        out.append(sc)
    return out


def rand_writer(rng):
    k = rng.randint(0, 4)
    if k == 0:
        return ['append_data', rng.randint(1, 8)]
    if k == 1:
        return ['append_data', rng.randint(9, 20)]
    if k == 2:
        return ['invalidate_samples', rng.randint(0, 18)]
    if k == 3:
        return ['invalidate', rng.randint(0, 18) / 10]
    return ['resize', rng.choice([0.3, 0.5, 0.8, 1.2, 1.6])]


def rand_reader(rng):
    k = rng.randint(0, 8)
    a = rng.randint(1, 6) / 10
    if k == 7:
        return rng.choice([['get_range', rng.randint(0, 10) / 10], ['get_range', None, rng.randint(3, 12) / 10],
                           ['get_range_samples', rng.randint(0, 10)], ['get_range_samples', None, rng.randint(3, 12)],
                           ['get_range_samples']])
    if k == 8:
        return ['get_latest', -a - 0.3, -a]
    if k == 0:
        return ['get_latest', -a]
    if k == 1:
        return ['get_latest', -a, 0, -1.0]
    if k == 2:
        lb = rng.randint(0, 10) / 10
        return ['get_range_filled', lb, lb + a, -1.0]
    if k == 3:
        return ['get_range']
    if k == 4:
        lb = rng.randint(0, 10)
        return ['get_range_samples', lb, lb + rng.randint(1, 5)]
    return [rng.choice(['get_samples_lb', 'get_samples_ub', 'get_time_lb', 'get_time_ub'])]


if __name__ == '__main__':
    r = C.Rng(0)
    for sc in scenarios(r, 8):
        t = time.time()
        res = explore(sc, 2, 20)
        print(sc['writer'], sc['reader'], {k: v for k, v in res.items() if k != 'torn'},
              'TORN ' + res['torn']['schedule'] if res['torn'] else 'ok', f'{time.time() - t:.1f}s')
