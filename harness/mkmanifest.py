"""Writes MANIFEST.json from the table below (python -m harness.mkmanifest)."""
import json
import os

VERIF = os.path.dirname(os.path.dirname(os.path.abspath(__file__)))
ALL = [f'C{i:02d}' for i in range(1, 20)]

def _load():
    out = {}
    d = os.path.join(VERIF, 'harness', 'manifest')
    for f in sorted(os.listdir(d)):
        if f.endswith('.json'):
            out[f[:-5]] = json.load(open(os.path.join(d, f)))
    return out


CLAIMED = _load()   # one fragment per claimed property: harness/manifest/<ID>.json {category, text, note, technique}
PENDING_REASON = 'check not built yet in this round (planned: Lean model + proof + correspondence, see DESIGN.md section 6)'


def main():
    checks = []
    for pid in ALL:
        if pid not in CLAIMED:
            continue
        c = CLAIMED[pid]
        checks.append({
            'property_id': pid,
            'quick_cmd': f'./check {pid} --tier quick',
            'thorough_cmd': f'./check {pid} --tier thorough',
            'evidence_file': f'evidence/{pid}.json',
            'replay_cmd_template': f'./check {pid} --replay {{path}}',
            'engine': 'lean4-proof+correspondence',
            'level_claimed': {'category': c.get('category', 'proof'), 'text': c['text'],
                              'design_ref': f'DESIGN.md section 6 ({pid})'},
            'level_note': c['note'],
            'technique': c['technique'],
        })
    man = {
        'version': 1,
        'setup_cmd': './setup.sh',
        'hooks': {
            'guard': 'PSIAUDIO_VERIF',
            'enable': 'no hooks are compiled into /repo: the harness drives public APIs in-process with PYTHONPATH=/repo and reads sources with ast',
            'baseline_off_cmd': 'cd /repo && /venv/bin/python -m pytest -ra -q -p no:cacheprovider --timeout=900 --continue-on-collection-errors',
            'source_commits': [],
            'add_only': True,
        },
        'engines': [{
            'name': 'lean4-proof+correspondence',
            'path': 'lean/ (models, proofs, psidriver) + harness/ (correspondence, oracle, failing-input search)',
            'serves_properties': sorted(CLAIMED),
            'kind_free_text': 'Lean 4 theorems about executable models; models tied to /repo by differential runs '
                              '(hand models) or regenerated from the AST (C15, C19)',
        }],
        'checks': checks,
        'notes': 'See DESIGN.md. known_findings.json lists recorded defects and fix: commits.',
        'not_applicable': [{'property_id': p, 'reason': PENDING_REASON} for p in ALL if p not in CLAIMED],
    }
    open(os.path.join(VERIF, 'MANIFEST.json'), 'w').write(json.dumps(man, indent=1) + '\n')


if __name__ == '__main__':
    main()
